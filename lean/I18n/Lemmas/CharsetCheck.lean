import I18n.Model.Charset
import I18n.Spec.Charset
/-!
# C20: unrepresentable characters, and the charset fragment of `check_headers`
-/
namespace I18n.Charset

/-! ## name handling -/

theorem lowerCp_upperCp (c : Nat) : lowerCp (upperCp c) = lowerCp c := by
  unfold lowerCp upperCp; split <;> split <;> (try split) <;> omega

theorem lower_upper (s : Name) : lower (upper s) = lower s := by
  unfold lower upper
  rw [List.map_map]
  apply List.map_congr_left
  intro c _
  exact lowerCp_upperCp c

theorem normalise_upper (s : Name) : normalise (upper s) = normalise s := by
  unfold normalise; rw [lower_upper]

/-- upper-casing a name does not change whether it is portable -/
theorem isPortable_upper (tbl : List (Name × Bool)) (python : Bool) (s : Name) :
    isPortable tbl python (upper s) = isPortable tbl python s := by
  unfold isPortable; rw [normalise_upper]

/-- **every proposal is portable** — for every table, every codec registry and every name -/
theorem propose_portable (tbl : List (Name × Bool)) (c2e : List (Name × Name)) (lookup : Name → Option Name)
    (name p : Name) (h : propose tbl c2e lookup name = .ok (some p)) : isPortable tbl true p = true := by
  unfold propose at h
  split at h
  · cases h
  · split at h
    · cases h
    · split at h
      · rename_i hp
        cases h
        rw [isPortable_upper]; exact hp
      · cases h

theorem assoc?_mem {β : Type} (k : Name) : ∀ (l : List (Name × β)) (v : β), assoc? k l = some v → (k, v) ∈ l := by
  intro l
  induction l with
  | nil => intro v h; simp [assoc?] at h
  | cons kv rest ih =>
    intro v h
    obtain ⟨k', v'⟩ := kv
    simp only [assoc?] at h
    split at h
    · rename_i hk; cases h; subst hk; simp
    · exact List.mem_cons_of_mem _ (ih v h)

/-- the proposal names the same codec as the original, provided every value of `_pycodec_to_encoding`, upper-cased, looks up
    to its key (checked on the generated tables in `Tables.c2e_closed`) -/
theorem propose_same_codec (tbl : List (Name × Bool)) (c2e : List (Name × Name)) (lookup : Name → Option Name)
    (hclosed : ∀ kv ∈ c2e, lookup (upper kv.2) = some kv.1)
    (name p : Name) (h : propose tbl c2e lookup name = .ok (some p)) : lookup p = lookup name := by
  unfold propose at h
  split at h
  · cases h
  · rename_i codec hcodec
    split at h
    · cases h
    · rename_i e he
      split at h
      · cases h
        rw [hcodec]
        exact hclosed (codec, e) (assoc?_mem codec c2e e he)
      · cases h

/-- the `assert` in `propose_portable_encoding` cannot fire when every value of `_pycodec_to_encoding` is portable -/
theorem propose_no_assert (tbl : List (Name × Bool)) (c2e : List (Name × Name)) (lookup : Name → Option Name)
    (hok : ∀ kv ∈ c2e, isPortable tbl true kv.2 = true) (name : Name) :
    propose tbl c2e lookup name ≠ .error () := by
  unfold propose
  split
  · simp
  · rename_i codec _
    split
    · simp
    · rename_i e he
      have := hok (codec, e) (assoc?_mem codec c2e e he)
      simp [this]

/-! ## unrepresentable characters -/

theorem unrepLoop_spec (encode : List Nat → Enc) : ∀ (chars : List (List Nat)),
    (∀ c ∈ chars, encode c = .ok ∨ encode c = .encodeError false) →
    unrepLoop encode chars = .ok (chars.filter fun c => encode c != .ok) := by
  intro chars
  induction chars with
  | nil => intro _; rfl
  | cons c rest ih =>
    intro h
    have hc := h c (by simp)
    have hrest := ih (fun c' hc' => h c' (List.mem_cons_of_mem _ hc'))
    rcases hc with hc | hc
    · simp [unrepLoop, hc, hrest]
    · simp [unrepLoop, hc, hrest]

/-- **`get_unrepresentable_characters` returns exactly the listed characters that cannot be encoded**, for a codec that
    (i) never raises anything but a Unicode error on these texts, (ii) is not the iconv(1) fall-back, and (iii) encodes a
    concatenation only if it encodes every piece -/
theorem getUnrepresentable_spec (encode : List Nat → Enc) (chars : List (List Nat))
    (hno : ∀ c ∈ chars, encode c = .ok ∨ encode c = .encodeError false)
    (hj : encode chars.flatten ≠ .crash)
    (hpieces : encode chars.flatten = .ok → ∀ c ∈ chars, encode c = .ok) :
    getUnrepresentable encode chars = .ok (chars.filter fun c => encode c != .ok) := by
  unfold getUnrepresentable
  cases hjo : encode chars.flatten with
  | ok =>
    have := hpieces hjo
    simp only
    congr 1
    symm
    rw [List.filter_eq_nil_iff]
    intro c hc
    simp [this c hc]
  | crash => exact (hj hjo).elim
  | encodeError b => simp only; exact unrepLoop_spec encode chars hno

theorem unrepresentable_iff (encode : List Nat → Enc) (chars : List (List Nat))
    (hno : ∀ c ∈ chars, encode c = .ok ∨ encode c = .encodeError false)
    (hj : encode chars.flatten ≠ .crash)
    (hpieces : encode chars.flatten = .ok → ∀ c ∈ chars, encode c = .ok) :
    ∃ r, getUnrepresentable encode chars = .ok r ∧ (r ≠ [] ↔ ∃ c ∈ chars, encode c ≠ .ok) := by
  refine ⟨_, getUnrepresentable_spec encode chars hno hj hpieces, ?_⟩
  rw [ne_eq, List.filter_eq_nil_iff]
  constructor
  · intro h
    simp only [Classical.not_forall] at h
    obtain ⟨c, hc, hne⟩ := h
    exact ⟨c, hc, by simpa using hne⟩
  · rintro ⟨c, hc, hne⟩ h
    have := h c hc
    simp at this
    exact hne this

end I18n.Charset
