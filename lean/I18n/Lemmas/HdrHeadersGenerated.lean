import I18n.Lemmas.HdrMimeGenerated
/-!
# `Checker.check_headers` regenerated = `Hdr.checkHeaders`

The header-entry discovery loop (`continue` / `break`), the per-entry part (references, plural, `parse_header` into the
`defaultdict(list)` and the stray lines, the `Counter` of flags, distant entry, unusual characters with `get_character_name` as the crash
site), the stray-line loop with its `seen_conflict_marker` state, and the loop over `sorted(metadata.items())` with the two hint sources.
-/
set_option linter.unusedSimpArgs false
set_option linter.unusedVariables false
namespace I18n.Hdr.Gen
open I18n I18n.Hdr I18n.Generated

/-! ### the dictionary -/

theorem dictSet_add (k v : Str) (m : Meta) : HdrPy.dictSet k (HdrPy.ddGet m k ++ [v]) m = Meta.add k v m := by
  induction m with
  | nil => simp [HdrPy.dictSet, HdrPy.ddGet, Meta.add]; rfl
  | cons p m ih =>
    obtain ⟨k', vs⟩ := p
    by_cases h : k' = k
    · subst h; simp [HdrPy.dictSet, HdrPy.ddGet, Meta.add]
    · simp only [HdrPy.dictSet, HdrPy.ddGet, Meta.add, h, if_false]
      rw [ih]

theorem buildMeta_append (l1 l2 : List Line) (m : Meta) : buildMeta (l1 ++ l2) m = buildMeta l2 (buildMeta l1 m) := by
  induction l1 generalizing m with
  | nil => rfl
  | cons l l1 ih => cases l <;> simp [buildMeta, ih]

theorem strayLines_append (l1 l2 : List Line) : strayLines (l1 ++ l2) = strayLines l1 ++ strayLines l2 := by
  induction l1 with
  | nil => rfl
  | cons l l1 ih => cases l <;> simp [strayLines, ih]

/-- the loop over what `parse_header` yields: fields into the dictionary, the rest into `strays` -/
theorem forEach_lines (body : Line → Meta × List Str → Except Py.Exc (Meta × List Str))
    (hb : ∀ l m s, body l (m, s) = .ok (match l with
      | .field k v => (Meta.add k v m, s)
      | .stray t => (m, s ++ [t]))) (ls : List Line) (m : Meta) (s : List Str) :
    PyKit.forEach ls body (m, s) = .ok (buildMeta ls m, s ++ strayLines ls) := by
  induction ls generalizing m s with
  | nil => simp [PyKit.forEach, buildMeta, strayLines]
  | cons l ls ih =>
    cases l with
    | field k v => simp [PyKit.forEach, hb, ih, buildMeta, strayLines]
    | stray t => simp [PyKit.forEach, hb, ih, buildMeta, strayLines, List.append_assoc]

/-- the stray-line loop with its `seen_conflict_marker` state -/
theorem forEach_strays (body : Str → List TagCall × Bool → Except Py.Exc (List TagCall × Bool))
    (hb : ∀ l out seen, body l (out, seen) = .ok (
      if isConflictMarker l then (if seen then out else out ++ [tag "conflict-marker-in-header-entry" [sx l]], true)
      else (out ++ [tag "stray-header-line" [sx l]], seen))) (ls : List Str) (out : List TagCall) (seen : Bool) :
    ∃ seen', PyKit.forEach ls body (out, seen) = .ok (out ++ strayTags seen ls, seen') := by
  induction ls generalizing out seen with
  | nil => exact ⟨seen, by simp [PyKit.forEach, strayTags]⟩
  | cons l ls ih =>
    simp only [PyKit.forEach, hb, strayTags]
    by_cases hm : isConflictMarker l = true
    · simp only [hm, if_true]
      cases seen
      · obtain ⟨s', h⟩ := ih (out ++ [tag "conflict-marker-in-header-entry" [sx l]]) true
        exact ⟨s', by simp [h, List.append_assoc]⟩
      · obtain ⟨s', h⟩ := ih out true
        exact ⟨s', by simp [h]⟩
    · simp only [hm, if_false, Bool.false_eq_true]
      obtain ⟨s', h⟩ := ih (out ++ [tag "stray-header-line" [sx l]]) seen
      exact ⟨s', by simp [h, List.append_assoc]⟩

/-- a loop that cannot fail and emits `f x` per element — the body is only known on the elements of the list -/
theorem forEach_emit_mem {α : Type} (f : α → List TagCall) (body : α → List TagCall → Except Py.Exc (List TagCall)) (xs : List α)
    (hb : ∀ x ∈ xs, ∀ out, body x out = .ok (out ++ f x)) (out : List TagCall) :
    PyKit.forEach xs body out = .ok (out ++ xs.flatMap f) := by
  induction xs generalizing out with
  | nil => simp [PyKit.forEach]
  | cons x xs ih =>
    have hx := hb x (by simp) out
    have hxs : ∀ y ∈ xs, ∀ out, body y out = .ok (out ++ f y) := fun y hy => hb y (by simp [hy])
    simp [PyKit.forEach, hx, ih hxs, List.append_assoc]

/-! ### unusual characters: `str.join(', ', (f'U+{ord(ch):04X} {get_character_name(ch)}' for ch in sorted(...)))` -/

theorem mapM_names (f : Char → Except Py.Exc Str)
    (hf : ∀ ch, f ch = match HdrPy.charName ch with
        | .error e => .error e
        | .ok n => .ok ("U+".toList ++ hex04 ch.toNat ++ " ".toList ++ n)) (cs : List Char) :
    PyKit.mapM f cs =
      match cs.mapM (fun c => (charName c).map fun n => 'U' :: '+' :: (hex04 c.toNat ++ ' ' :: n)) with
      | some ys => .ok ys
      | none => .error .ValueError := by
  induction cs with
  | nil => rfl
  | cons c cs ih =>
    rw [PyKit.mapM, ih, List.mapM_cons, hf]
    simp only [HdrPy.charName]
    cases hc : charName c with
    | none => rfl
    | some n =>
      cases cs.mapM (fun c => (charName c).map fun n => 'U' :: '+' :: (hex04 c.toNat ++ ' ' :: n)) with
      | none => rfl
      | some ys =>
        have e1 : "U+".toList = ['U', '+'] := rfl
        have e2 : " ".toList = [' '] := rfl
        simp [e1, e2, List.append_assoc]

/-! ### the header-entry discovery loop -/

abbrev HSt := List TagCall × Meta × List Str × Bool

theorem forEachBrk_entries (x : Ext) (tmpl : Bool) (body : Nat × Entry → HSt → Except Py.Exc (PyKit.Step HSt))
    (hb : ∀ i e m o seen s, body (i, e) (o, m, s, seen) =
      if (!isHeaderEntry e || e.obsolete) = true then .ok (.next (o, m, s, seen))
      else if seen = true then .ok (.brk (o ++ [tag "duplicate-header-entry" []], m, s, seen))
      else match entryTags x tmpl i e with
        | none => .error .ValueError
        | some ts => .ok (.next (o ++ ts, buildMeta (parseHeader e.headerText) m, s ++ strayLines (parseHeader e.headerText), true)))
    (es : List Entry) (i : Nat) (st : LoopState) (hst : st.crashed = false) (out0 : List TagCall) :
    erase (PyKit.forEachBrk (HdrPy.enumerateFrom i es) body (out0 ++ st.tags, buildMeta st.lines [], strayLines st.lines, st.seen)) =
      if (entryLoop x tmpl i es st).crashed = true then .error ()
      else .ok (out0 ++ (entryLoop x tmpl i es st).tags, buildMeta (entryLoop x tmpl i es st).lines [],
                strayLines (entryLoop x tmpl i es st).lines, (entryLoop x tmpl i es st).seen) := by
  induction es generalizing i st with
  | nil => simp [HdrPy.enumerateFrom, PyKit.forEachBrk, entryLoop, hst]
  | cons e es ih =>
    simp only [HdrPy.enumerateFrom, PyKit.forEachBrk, entryLoop, hb]
    by_cases h1 : (!isHeaderEntry e || e.obsolete) = true
    · simp only [h1, if_true]
      exact ih (i + 1) st hst
    · simp only [h1, if_false, Bool.false_eq_true]
      by_cases h2 : st.seen = true
      · simp only [h2, if_true, erase_ok, hst, Bool.false_eq_true, if_false, List.append_assoc]
      · simp only [h2, if_false, Bool.false_eq_true]
        cases ht : entryTags x tmpl i e with
        | none => simp
        | some ts =>
          simp only []
          have := ih (i + 1) { st with tags := st.tags ++ ts, lines := st.lines ++ parseHeader e.headerText, seen := true } hst
          simp only [buildMeta_append, strayLines_append, List.append_assoc] at this ⊢
          exact this

theorem forEachBrk_entries' (x : Ext) (tmpl : Bool) (body : Nat × Entry → HSt → Except Py.Exc (PyKit.Step HSt))
    (hb : ∀ i e m o seen s, body (i, e) (o, m, s, seen) =
      if (!isHeaderEntry e || e.obsolete) = true then .ok (.next (o, m, s, seen))
      else if seen = true then .ok (.brk (o ++ [tag "duplicate-header-entry" []], m, s, seen))
      else match entryTags x tmpl i e with
        | none => .error .ValueError
        | some ts => .ok (.next (o ++ ts, buildMeta (parseHeader e.headerText) m, s ++ strayLines (parseHeader e.headerText), true)))
    (es : List Entry) (out0 : List TagCall) :
    erase (PyKit.forEachBrk (HdrPy.enumerateFrom 0 es) body (out0, ([] : Meta), [], false)) =
      if (entryLoop x tmpl 0 es ⟨[], [], false, false⟩).crashed = true then .error ()
      else .ok (out0 ++ (entryLoop x tmpl 0 es ⟨[], [], false, false⟩).tags, buildMeta (entryLoop x tmpl 0 es ⟨[], [], false, false⟩).lines [],
                strayLines (entryLoop x tmpl 0 es ⟨[], [], false, false⟩).lines, (entryLoop x tmpl 0 es ⟨[], [], false, false⟩).seen) := by
  have := forEachBrk_entries x tmpl body hb es 0 ⟨[], [], false, false⟩ rfl out0
  simpa [buildMeta, strayLines] using this

theorem insertC_ne_nil (c : Char) (l : List Char) : insertC c l ≠ [] := by
  cases l with
  | nil => simp [insertC]
  | cons y ys => simp only [insertC]; split <;> (try split) <;> simp

theorem sortedChars_isEmpty (l : List Char) : (sortedChars l).isEmpty = l.isEmpty := by
  cases l with
  | nil => rfl
  | cons c cs =>
    simp only [sortedChars, List.foldr_cons, List.isEmpty_cons]
    cases h : insertC c (List.foldr insertC [] cs) with
    | nil => exact absurd h (insertC_ne_nil _ _)
    | cons _ _ => rfl

theorem join_colon (a b : Str) : HdrPy.join ":".toList [a, b] = a ++ ':' :: b := by
  simp [HdrPy.join, joinWith]

/-- what one iteration of the flags loop emits -/
def flagTagsOf (x : Ext) (tmpl : Bool) (p : Str × Int) : List TagCall :=
  (if p.1 = "fuzzy".toList then (if tmpl then [] else [tag "fuzzy-header-entry" []])
   else if x.closeFuzzy p.1 then [tag "unexpected-flag-for-header-entry" [sx p.1, arrow, lit "fuzzy"]]
   else [tag "unexpected-flag-for-header-entry" [sx p.1]])
  ++ (if p.2 > 1 then [tag "duplicate-flag-for-header-entry" [sx p.1]] else [])

/-- the tags of a header entry before the unusual-character check (the model's `t1 ++ t2 ++ t3 ++ t4`) -/
def entryPre (x : Ext) (tmpl : Bool) (i : Nat) (e : Entry) : List TagCall :=
  (if e.occurrences.isEmpty then [] else
    [tag "empty-msgid-message-with-source-code-references" (e.occurrences.map fun o => sx (o.1 ++ ':' :: o.2))]) ++
  (if e.msgidPlural.isSome then [tag "empty-msgid-message-with-plural-forms" []] else []) ++
  ((sortedSet e.flags).flatMap fun flag =>
    (if flag = HeaderFields.headerFlag.toList then
       (if tmpl then [] else [tag "fuzzy-header-entry" []])
     else if x.closeFuzzy flag then [tag "unexpected-flag-for-header-entry" [sx flag, arrow, lit "fuzzy"]]
     else [tag "unexpected-flag-for-header-entry" [sx flag]])
    ++ (if count flag e.flags > 1 then [tag "duplicate-flag-for-header-entry" [sx flag]] else [])) ++
  (if i ≠ 0 then [tag "distant-header-entry" []] else [])

theorem entryTags_eq (x : Ext) (tmpl : Bool) (i : Nat) (e : Entry) :
    entryTags x tmpl i e =
      if (sortedChars (unusualChars x.db e.headerText)).isEmpty then some (entryPre x tmpl i e)
      else match unusualText (sortedChars (unusualChars x.db e.headerText)) with
        | none => none
        | some text => some (entryPre x tmpl i e ++ [tag "unusual-character-in-header-entry" [.safe text]]) := rfl

theorem flatMap_counterItems (x : Ext) (tmpl : Bool) (flags : List Str) :
    (HdrPy.counterItems flags).flatMap (flagTagsOf x tmpl) =
      (sortedSet flags).flatMap fun flag =>
        (if flag = HeaderFields.headerFlag.toList then
           (if tmpl then [] else [tag "fuzzy-header-entry" []])
         else if x.closeFuzzy flag then [tag "unexpected-flag-for-header-entry" [sx flag, arrow, lit "fuzzy"]]
         else [tag "unexpected-flag-for-header-entry" [sx flag]])
        ++ (if count flag flags > 1 then [tag "duplicate-flag-for-header-entry" [sx flag]] else []) := by
  unfold HdrPy.counterItems
  rw [List.flatMap_map]
  congr 1
  funext flag
  have e : HeaderFields.headerFlag.toList = "fuzzy".toList := rfl
  have c : (((count flag flags : Nat) : Int) > 1) ↔ count flag flags > 1 := by omega
  simp only [flagTagsOf, e, c, sortedSet]

/-! ### field names are ASCII: `str.lower` on them is the ASCII one -/

def LinesValid (ls : List Line) : Prop := ∀ k v, Line.field k v ∈ ls → isValidFieldName k = true

theorem parseHeader_valid (t : Str) : LinesValid (parseHeader t) := by
  intro k v h
  unfold parseHeader at h
  obtain ⟨l, _, hl⟩ := List.mem_map.1 h
  unfold parseLine at hl
  rcases hsc : splitColon l with ⟨k', _ | v'⟩
  · rw [hsc] at hl; cases hl
  · rw [hsc] at hl
    simp only at hl
    by_cases hv : isValidFieldName k' = true
    · rw [if_pos hv] at hl; injection hl with h1 h2; subst h1; exact hv
    · rw [if_neg hv] at hl; cases hl

theorem entryLoop_valid (x : Ext) (tmpl : Bool) (es : List Entry) (i : Nat) (st : LoopState) (h : LinesValid st.lines) :
    LinesValid (entryLoop x tmpl i es st).lines := by
  induction es generalizing i st with
  | nil => exact h
  | cons e es ih =>
    unfold entryLoop
    split
    · exact ih _ _ h
    · split
      · exact h
      · split
        · exact h
        · apply ih
          intro k v hm
          rcases List.mem_append.1 hm with hm | hm
          · exact h k v hm
          · exact parseHeader_valid _ k v hm

theorem valid_ascii (k : Str) (h : isValidFieldName k = true) : ∀ c ∈ k, c.toNat < 128 := by
  intro c hc
  unfold isValidFieldName at h
  simp only [Bool.and_eq_true] at h
  have := List.all_eq_true.1 h.2 c hc
  unfold isFieldNameChar at this
  simp only [Bool.or_eq_true, Bool.and_eq_true, decide_eq_true_eq] at this
  omega

theorem find?_congr' {α : Type} (p q : α → Bool) (l : List α) (h : ∀ a ∈ l, p a = q a) : l.find? p = l.find? q := by
  induction l with
  | nil => rfl
  | cons a l ih =>
    have ha := h a (by simp)
    have hl : ∀ b ∈ l, p b = q b := fun b hb => h b (by simp [hb])
    simp only [List.find?, ha, ih hl]

theorem headerFields_ascii : headerFields.all (fun f => f.all (fun c => c.toNat < 128)) = true := by decide +kernel

theorem dictGet?_map_find (g : Str → Str) (fs : List Str) (k : Str) :
    HdrPy.dictGet? (fs.map fun s => (g s, s)) k = fs.find? (fun f => g f = k) := by
  induction fs with
  | nil => rfl
  | cons f fs ih => by_cases h : g f = k <;> simp [HdrPy.dictGet?, List.find?, h, ih]

theorem lcHint_eq (x : Ext) (hl : ∀ s : Str, (∀ c ∈ s, c.toNat < 128) → x.db.lower s = asciiLower s) (key : Str)
    (hk : ∀ c ∈ key, c.toNat < 128) :
    HdrPy.dictGet? (headerFields.map fun s => (x.db.lower s, s)) (x.db.lower key) = lcHint key := by
  rw [dictGet?_map_find, hl key hk]
  unfold lcHint
  apply find?_congr'
  intro f hf
  have hfa : ∀ c ∈ f, c.toNat < 128 := by
    have := List.all_eq_true.1 headerFields_ascii f hf
    intro c hc
    simpa using List.all_eq_true.1 this c hc
  rw [hl f hfa]

theorem keys_contains (M : Meta) (h : Str) : (PyKit.keys M).contains h = M.has h := by
  induction M with
  | nil => rfl
  | cons p M ih =>
    obtain ⟨k, vs⟩ := p
    simp only [PyKit.keys, List.map_cons, List.contains_cons, Meta.has, List.any_cons] at ih ⊢
    rw [ih]
    by_cases hk : k = h
    · subst hk; simp
    · have hk' : ¬ h = k := fun e => hk e.symm
      simp [hk, hk']

/-! ### the main theorem -/

theorem check_headers_eq (x : Ext) (entries : List Entry) (tmpl : Bool) (out : List TagCall)
    (hl : ∀ s : Str, (∀ c ∈ s, c.toNat < 128) → x.db.lower s = asciiLower s) :
    erase (HdrChk.check_headers x entries tmpl out) =
      match checkHeaders x tmpl entries with
      | none => .error ()
      | some h => .ok (out ++ h.tags, (), h.metadata) := by
  unfold_generated_hdrchk
  simp only [HdrPy.enumerate]
  generalize hfe : PyKit.forEachBrk _ _ _ = r
  have hloop : erase r =
      if (entryLoop x tmpl 0 entries ⟨[], [], false, false⟩).crashed = true then .error ()
      else .ok (out ++ (entryLoop x tmpl 0 entries ⟨[], [], false, false⟩).tags, buildMeta (entryLoop x tmpl 0 entries ⟨[], [], false, false⟩).lines [],
                strayLines (entryLoop x tmpl 0 entries ⟨[], [], false, false⟩).lines, (entryLoop x tmpl 0 entries ⟨[], [], false, false⟩).seen) := by
    rw [← hfe]
    clear hfe
    refine forEachBrk_entries' x tmpl _ ?hb entries out
    intro i e m o seen s
    simp only []
    by_cases h1 : (!isHeaderEntry e || e.obsolete) = true
    · simp only [h1, if_true]
    · simp only [h1, if_false, Bool.false_eq_true]
      by_cases h2 : seen = true
      · simp only [h2, if_true]; rfl
      · simp only [h2, if_false, Bool.false_eq_true, ite_ok]
        rw [show GettextHdr.parse_header (e.msgstr0.getD e.msgstr) = .ok (parseHeader e.headerText) from parse_header_eq _]
        simp only []
        rw [forEach_lines _ ?hbl]
        case hbl => intro l m s; cases l <;> simp only [dictSet_add]
        simp only []
        rw [forEach_emit (flagTagsOf x tmpl) _ ?hbf]
        case hbf =>
          intro p o
          obtain ⟨flag, n⟩ := p
          simp only [ite_ok, decide_eq_true_eq, flagTagsOf]
          congr 1
          cases tmpl <;> by_cases hf : flag = ['f', 'u', 'z', 'z', 'y'] <;> by_cases hc : x.closeFuzzy flag = true <;> by_cases hn : n > 1 <;>
            simp [hf, hc, hn, tag, sx, arrow, lit]
        rw [mapM_names _ ?hf]
        case hf => intro ch; rfl
        simp only [flatMap_counterItems, join_colon, decide_eq_true_eq]
        rw [entryTags_eq, sortedChars_isEmpty]
        have hht : e.msgstr0.getD e.msgstr = e.headerText := rfl
        rw [hht]
        simp only [entryPre, unusualText]
        generalize (List.flatMap _ (sortedSet e.flags)) = F
        generalize List.mapM (m := Option) _ (sortedChars (unusualChars x.db e.headerText)) = names
        by_cases c1 : e.occurrences.isEmpty = true <;> by_cases c2 : e.msgidPlural.isSome = true <;> by_cases c3 : i = 0 <;>
          by_cases hu : (unusualChars x.db e.headerText).isEmpty = true <;>
          simp only [c1, c2, c3, hu, Bool.not_true, Bool.not_false, Bool.false_eq_true, if_true, if_false, ne_eq, not_true_eq_false, not_false_eq_true] <;>
          (try cases names) <;> simp [tag, sx, List.append_assoc]
  clear hfe
  have hvalid : LinesValid (entryLoop x tmpl 0 entries ⟨[], [], false, false⟩).lines :=
    entryLoop_valid x tmpl entries 0 _ (fun _ _ h => by cases h)
  revert hloop hvalid
  unfold checkHeaders
  generalize entryLoop x tmpl 0 entries ⟨[], [], false, false⟩ = st
  intro hloop hvalid
  by_cases hcr : st.crashed = true
  · simp only [hcr, if_true] at hloop ⊢
    cases r with
    | error e => rfl
    | ok v => cases hloop
  · simp only [hcr, if_false, Bool.false_eq_true] at hloop ⊢
    cases r with
    | error e => cases hloop
    | ok v =>
      simp only [erase_ok] at hloop
      injection hloop with hloop
      subst hloop
      simp only []
      generalize hfs : PyKit.forEach (strayLines st.lines) _ _ = r2
      obtain ⟨seen', hs⟩ : ∃ seen', r2 = .ok ((out ++ st.tags) ++ strayTags false (strayLines st.lines), seen') := by
        rw [← hfs]
        refine forEach_strays _ ?hbs _ _ _
        intro l o seen
        by_cases hm : isConflictMarker l = true <;> cases seen <;> simp [hm] <;> rfl
      subst hs
      clear hfs
      simp only []
      generalize hM : buildMeta st.lines [] = M
      have hkeys : ∀ k ∈ M.map (·.1), ∀ c ∈ k, c.toNat < 128 := by
        intro k hk
        rw [← hM, buildMeta_keys] at hk
        rcases hk with hk | hk
        · cases hk
        · obtain ⟨⟨k', v⟩, hm, rfl⟩ := List.mem_map.1 hk
          have : Line.field k' v ∈ st.lines := by
            unfold Spec.HeaderRules.fieldLines at hm
            obtain ⟨l, hl, hl2⟩ := List.mem_filterMap.1 hm
            cases l with
            | field a b => simp only [Option.some.injEq, Prod.mk.injEq] at hl2; obtain ⟨rfl, rfl⟩ := hl2; exact hl
            | stray t => cases hl2
          exact valid_ascii _ (hvalid _ _ this)
      rw [forEach_emit_mem (fun p => fieldNameTags x M p.1) _ _ ?hbn]
      case hbn =>
        intro p hp o
        obtain ⟨k, hk, rfl⟩ := List.mem_map.1 hp
        have hk' : k ∈ M.map (·.1) := (Date.mem_sortedSet _ _).1 hk
        simp only [lcHint_eq x hl k (hkeys k hk'), fieldNameTags, ddGet_meta, keys_contains, HdrPy.startswith]
        have clen : (((M.get k).length : Int) > 1) ↔ (M.get k).length > 1 := by omega
        simp only [clen]
        generalize (decide ((M.get k).length > 1) && !dedicatedFields.contains k) = dup
        by_cases c1 : (startsWith "X-".toList k || startsWith "x-".toList k) = true
        · simp only [c1, if_true]; cases dup <;> simp [tag, sx]
        · simp only [c1, if_false, Bool.false_eq_true]
          by_cases c2 : headerFields.contains k = true
          · simp only [c2, if_true]; cases dup <;> simp [tag, sx]
          · simp only [c2, if_false, Bool.false_eq_true]
            cases lcHint k with
            | some h => cases hh : M.has h <;> cases dup <;> simp [hh, tag, sx, arrow, lit]
            | none =>
              cases x.closeField k with
              | none => cases dup <;> simp [tag, sx]
              | some h => cases hh : M.has h <;> cases dup <;> simp [hh, tag, sx, arrow, lit]
      simp only [erase_ok, HdrPy.sortedItems, List.flatMap_map, List.append_assoc, sortedSet]

end I18n.Hdr.Gen
