import I18n.Lemmas.CheckPluralsTags
import I18n.Lemmas.PluralFormsRe
import I18n.Spec.PluralForms
namespace I18n.CheckPlurals
open I18n I18n.Py I18n.Plural I18n.PluralParse I18n.Spec.PluralForms

theorem decimal_eq (ds : List Char) : decimal ds = digitsToNat ds := rfl

/-- **The model's header reader is the reference reading**: `parse_plural_forms(v, strict=False)` succeeds exactly on the
    values that contain a declaration, and returns that declaration. -/
theorem parsePluralForms_eq_declOf (v : List Char) :
    parsePluralForms v = match declOf v with
      | some d => .ok d.n d.e d.ljunk d.rjunk
      | none => .syntaxError := by
  have hs := search_header v []
  unfold parsePluralForms declOf Spec.PluralFormsRe.search
  rw [headerRe_eq]
  cases hm : CheckPlurals.search [] v with
  | none =>
    rw [hm] at hs
    cases hf : Spec.PluralFormsRe.searchFrom headerRe [] v with
    | none => rfl
    | some f => rw [hf] at hs; simp at hs
  | some y =>
    obtain ⟨lj, ds, ex, rj⟩ := y
    rw [hm] at hs
    cases hf : Spec.PluralFormsRe.searchFrom headerRe [] v with
    | none => rw [hf] at hs; simp at hs
    | some f =>
      rw [hf] at hs
      simp only [Option.map_some, Option.some.injEq, Prod.mk.injEq] at hs
      obtain ⟨h1, h2, h3⟩ := hs
      have g1 : f.group 1 = some ds := by simp [Spec.PluralFormsRe.Found.group, h3]
      have g2 : f.group 2 = some ex := by simp [Spec.PluralFormsRe.Found.group, h3]
      simp only [g1, g2, tooLong_false, Bool.false_eq_true, ↓reduceIte, h1, h2]
      cases hp : parse ex with
      | ok e => simp [decimal_eq]
      | syntaxError => rfl
      | valueError => exact absurd hp (parse_ne_valueError ex)

theorem declOf_eq_some {v : List Char} {n : Nat} {e : Expr} {lj rj : List Char} :
    parsePluralForms v = .ok n e lj rj ↔ declOf v = some ⟨n, e, lj, rj⟩ := by
  rw [parsePluralForms_eq_declOf]
  cases declOf v with
  | none => simp
  | some d => obtain ⟨a, b, c, d'⟩ := d; simp

theorem declOf_eq_none {v : List Char} : parsePluralForms v = .syntaxError ↔ declOf v = none := by
  rw [parsePluralForms_eq_declOf]
  cases declOf v <;> simp

theorem parsePluralFormsStrict_eq (v : List Char) :
    parsePluralFormsStrict v = match strictDeclOf v with
      | some (n, e) => .ok n e [] []
      | none => .syntaxError := by
  unfold parsePluralFormsStrict strictDeclOf
  rw [parsePluralForms_eq_declOf]
  cases declOf v with
  | none => rfl
  | some d =>
    simp only [List.isEmpty_iff]
    split <;> rfl

/-! ## names of the parts -/

def isSyntaxName (s : String) : Prop := s = "syntax-error-in-plural-forms" ∨ s = "syntax-error-in-unused-plural-forms"
def isUnusualName (s : String) : Prop := s = "unusual-plural-forms" ∨ s = "unusual-unused-plural-forms"
def isArithName (s : String) : Prop := s = "arithmetic-error-in-plural-forms" ∨ s = "arithmetic-error-in-unused-plural-forms"
def isCodomainName (s : String) : Prop := s = "codomain-error-in-plural-forms" ∨ s = "codomain-error-in-unused-plural-forms"

/-- the names `check_plurals` uses for what it finds out by comparing with the catalog and the registry (not about the
    declaration itself) -/
def isComparisonName (s : String) : Prop :=
  s = "duplicate-header-field-plural-forms" ∨ s = "inconsistent-number-of-plural-forms" ∨
  s = "incorrect-number-of-plural-forms" ∨ isUnusualName s

theorem name_dup {inp : Input} {t : TagCall} (h : t ∈ dupTags inp) : t.name = "duplicate-header-field-plural-forms" := by
  unfold dupTags at h; split at h <;> simp at h; rw [h]

theorem name_inconsistent {ex : List (Nat × List Char)} {t : TagCall} (h : t ∈ inconsistentTags ex) :
    t.name = "inconsistent-number-of-plural-forms" := by
  unfold inconsistentTags at h; split at h <;> simp at h; rw [h]

theorem name_tags0 {inp : Input} {t : TagCall} (h : t ∈ tags0Of inp) :
    t.name = "duplicate-header-field-plural-forms" ∨ t.name = "inconsistent-number-of-plural-forms" := by
  rcases List.mem_append.mp h with h | h
  · exact Or.inl (name_dup h)
  · exact Or.inr (name_inconsistent h)

theorem mem_junkTags {lj rj : List Char} {t : TagCall} :
    t ∈ junkTags lj rj ↔ (lj ≠ [] ∧ t = ⟨"leading-junk-in-plural-forms", [.str lj]⟩) ∨
      (rj ≠ [] ∧ t = ⟨"trailing-junk-in-plural-forms", [.str rj]⟩) := by
  unfold junkTags
  cases lj <;> cases rj <;> simp

theorem mem_nplTags {n : Nat} {ex : List (Nat × List Char)} {t : TagCall} :
    t ∈ nplTags n ex ↔ ∃ k x, ex = [(k, x)] ∧ n ≠ k ∧ t = ⟨"incorrect-number-of-plural-forms",
      [.int n, .safe "(Plural-Forms header field)".toList, .str "!=".toList, .int k, .safe "(number of msgstr items)".toList]⟩ := by
  unfold nplTags
  split
  · rename_i k x
    by_cases hk : n = k
    · simp [hk]
    · simp only [ne_eq, hk, not_false_eq_true, ↓reduceIte, List.mem_singleton, List.cons.injEq, Prod.mk.injEq, and_true]
      constructor
      · rintro rfl; exact ⟨k, x, ⟨rfl, rfl⟩, hk, rfl⟩
      · rintro ⟨k', x', ⟨rfl, rfl⟩, _, rfl⟩; rfl
  · rename_i hne
    simp only [List.not_mem_nil, false_iff, not_exists, not_and]
    intro k x hex
    exact absurd hex (hne k x)

theorem name_unusualTag (hp : Bool) (pf : List Char) (hint : Extra) : isUnusualName (unusualTag hp pf hint).name := by
  cases hp
  · right; rfl
  · left; rfl

theorem name_stop {hp : Bool} {t : TagCall} (h : isStopTag hp t) : isArithName t.name ∨ isCodomainName t.name := by
  obtain ⟨msg, rfl | rfl⟩ := h
  · left; cases hp
    · right; rfl
    · left; rfl
  · right; cases hp
    · right; rfl
    · left; rfl

theorem name_gap {hp : Bool} {rs : List (Nat × Nat)} {t : TagCall} (h : t ∈ gapTags hp rs) : isCodomainName t.name := by
  simp only [gapTags, List.mem_map] at h
  obtain ⟨r, _, rfl⟩ := h
  cases hp
  · right; rfl
  · left; rfl

theorem name_syntaxTag (hp : Bool) (pf : List Char) (hint : Extra) : isSyntaxName (syntaxTag hp pf hint).name := by
  cases hp
  · right; rfl
  · left; rfl

/-- where a tag of the report about a header value that parses comes from -/
theorem origin_ok (inp : Input) (pf : List Char) (out : Output) (hv : headerValues inp = [pf]) (ht : inp.isTemplate = false)
    (n : Nat) (e : Expr) (lj rj : List Char) (hpf : parsePluralForms pf = .ok n e lj rj) (h : checkPlurals inp = .ok out) :
    ∀ t ∈ out.tags,
      (t.name = "duplicate-header-field-plural-forms" ∨ t.name = "inconsistent-number-of-plural-forms") ∨
      (lj ≠ [] ∧ t = ⟨"leading-junk-in-plural-forms", [.str lj]⟩) ∨
      (rj ≠ [] ∧ t = ⟨"trailing-junk-in-plural-forms", [.str rj]⟩) ∨
      t ∈ nplTags n (expectedOf inp) ∨
      t = unusualTag (hasPlurals inp) pf (hintOf inp) ∨
      isArithName t.name ∨ isCodomainName t.name := by
  obtain ⟨lcs, st, fin, rs, mid, last, _, _, hfin, _, htags, _, hmid, hc, hs, _⟩ := report_ok inp pf out hv ht n e lj rj hpf h
  intro t htm
  rw [htags] at htm
  simp only [List.mem_append] at htm
  rcases htm with (((((h0 | hj) | hn) | hp) | hm) | hl) | hg
  · exact Or.inl (name_tags0 h0)
  · rcases mem_junkTags.1 hj with h | h
    · exact Or.inr (Or.inl h)
    · exact Or.inr (Or.inr (Or.inl h))
  · exact Or.inr (Or.inr (Or.inr (Or.inl hn)))
  · exact Or.inr (Or.inr (Or.inr (Or.inr (Or.inl (mem_pickLc _ _ _ hp)))))
  · exact Or.inr (Or.inr (Or.inr (Or.inr (Or.inl (hmid t hm)))))
  · rcases hfin with rfl | rfl
    · rw [hc rfl] at hl; cases hl
    · obtain ⟨t', rfl, ht'⟩ := hs rfl
      simp only [List.mem_singleton] at hl
      subst hl
      exact Or.inr (Or.inr (Or.inr (Or.inr (Or.inr (name_stop ht')))))
  · exact Or.inr (Or.inr (Or.inr (Or.inr (Or.inr (Or.inr (name_gap hg))))))

theorem name_npl {n : Nat} {ex : List (Nat × List Char)} {t : TagCall} (h : t ∈ nplTags n ex) :
    t.name = "incorrect-number-of-plural-forms" := by
  obtain ⟨k, x, _, _, rfl⟩ := mem_nplTags.1 h
  rfl

/-- the parts that do not depend on the window are in the report -/
theorem parts_in_report (inp : Input) (pf : List Char) (out : Output) (hv : headerValues inp = [pf]) (ht : inp.isTemplate = false)
    (n : Nat) (e : Expr) (lj rj : List Char) (hpf : parsePluralForms pf = .ok n e lj rj) (h : checkPlurals inp = .ok out) :
    ∀ t, (t ∈ tags0Of inp ∨ t ∈ junkTags lj rj ∨ t ∈ nplTags n (expectedOf inp)) → t ∈ out.tags := by
  obtain ⟨lcs, st, fin, rs, mid, last, _, _, _, _, htags, _⟩ := report_ok inp pf out hv ht n e lj rj hpf h
  intro t htm
  rw [htags]
  simp only [List.mem_append]
  rcases htm with h | h | h
  · exact Or.inl (Or.inl (Or.inl (Or.inl (Or.inl (Or.inl h)))))
  · exact Or.inl (Or.inl (Or.inl (Or.inl (Or.inl (Or.inr h)))))
  · exact Or.inl (Or.inl (Or.inl (Or.inl (Or.inr h))))

theorem no_valueError (pf : List Char) : parsePluralForms pf ≠ .valueError := fun h => parsePluralForms_ne_valueError pf h

/-- **C07, syntax clause.**  A syntax-error tag is emitted iff the header value contains no declaration (leftmost match of the
    live pattern whose expression parses); it is then the only tag about the value, and quotes it. -/
theorem syntax_tag_iff' (inp : Input) (pf : List Char) (out : Output) (hv : headerValues inp = [pf]) (ht : inp.isTemplate = false)
    (h : checkPlurals inp = .ok out) :
    ((∃ t ∈ out.tags, isSyntaxName t.name) ↔ declOf pf = none) ∧
    (∀ t ∈ out.tags, isSyntaxName t.name → t = syntaxTag (hasPlurals inp) pf (hintOf inp)) ∧
    (declOf pf = none → out = ⟨tags0Of inp ++ [syntaxTag (hasPlurals inp) pf (hintOf inp)], none⟩) := by
  cases hpf : parsePluralForms pf with
  | valueError => exact absurd hpf (no_valueError pf)
  | syntaxError =>
    have hd := declOf_eq_none.1 hpf
    have hout := report_syntax inp pf out hv ht hpf h
    refine ⟨⟨fun _ => hd, fun _ => ?_⟩, ?_, fun _ => hout⟩
    · exact ⟨syntaxTag (hasPlurals inp) pf (hintOf inp), by rw [hout]; simp, name_syntaxTag _ _ _⟩
    · intro t htm hn
      rw [hout] at htm
      simp only [List.mem_append, List.mem_singleton] at htm
      rcases htm with h0 | rfl
      · exfalso
        rcases name_tags0 h0 with h' | h' <;> (rw [isSyntaxName, h'] at hn; revert hn; decide)
      · rfl
  | ok n e lj rj =>
    have hd := declOf_eq_some.1 hpf
    have horig := origin_ok inp pf out hv ht n e lj rj hpf h
    have hno : ∀ t ∈ out.tags, ¬ isSyntaxName t.name := by
      intro t htm hn
      rcases horig t htm with hc | ⟨_, rfl⟩ | ⟨_, rfl⟩ | hc | rfl | hc | hc
      · rcases hc with h' | h' <;> (rw [isSyntaxName, h'] at hn; revert hn; decide)
      · revert hn; simp only [isSyntaxName]; decide
      · revert hn; simp only [isSyntaxName]; decide
      · rw [isSyntaxName, name_npl hc] at hn; revert hn; decide
      · rcases name_unusualTag (hasPlurals inp) pf (hintOf inp) with h' | h' <;> (rw [isSyntaxName, h'] at hn; revert hn; decide)
      · rcases hc with h' | h' <;> (rw [isSyntaxName, h'] at hn; revert hn; decide)
      · rcases hc with h' | h' <;> (rw [isSyntaxName, h'] at hn; revert hn; decide)
    refine ⟨⟨?_, ?_⟩, ?_, ?_⟩
    · rintro ⟨t, htm, hn⟩; exact absurd hn (hno t htm)
    · intro hnone; rw [hnone] at hd; cases hd
    · intro t htm hn; exact absurd hn (hno t htm)
    · intro hnone; rw [hnone] at hd; cases hd

/-- **C07, junk clause.**  A leading-junk / trailing-junk tag is emitted iff the value contains a declaration and the text before /
    after it is not empty; the tag quotes exactly that text. -/
theorem junk_tag_iff' (inp : Input) (pf : List Char) (out : Output) (hv : headerValues inp = [pf]) (ht : inp.isTemplate = false)
    (h : checkPlurals inp = .ok out) :
    ((∃ t ∈ out.tags, t.name = "leading-junk-in-plural-forms") ↔ ∃ d, declOf pf = some d ∧ d.ljunk ≠ []) ∧
    ((∃ t ∈ out.tags, t.name = "trailing-junk-in-plural-forms") ↔ ∃ d, declOf pf = some d ∧ d.rjunk ≠ []) ∧
    (∀ t ∈ out.tags, t.name = "leading-junk-in-plural-forms" → ∃ d, declOf pf = some d ∧ t.extras = [.str d.ljunk]) ∧
    (∀ t ∈ out.tags, t.name = "trailing-junk-in-plural-forms" → ∃ d, declOf pf = some d ∧ t.extras = [.str d.rjunk]) := by
  cases hpf : parsePluralForms pf with
  | valueError => exact absurd hpf (no_valueError pf)
  | syntaxError =>
    have hd := declOf_eq_none.1 hpf
    have hout := report_syntax inp pf out hv ht hpf h
    have hno : ∀ t ∈ out.tags, t.name ≠ "leading-junk-in-plural-forms" ∧ t.name ≠ "trailing-junk-in-plural-forms" := by
      intro t htm
      rw [hout] at htm
      simp only [List.mem_append, List.mem_singleton] at htm
      rcases htm with h0 | rfl
      · rcases name_tags0 h0 with h' | h' <;> (rw [h']; decide)
      · rcases name_syntaxTag (hasPlurals inp) pf (hintOf inp) with h' | h' <;> (rw [h']; decide)
    refine ⟨⟨?_, ?_⟩, ⟨?_, ?_⟩, ?_, ?_⟩
    · rintro ⟨t, htm, hn⟩; exact absurd hn (hno t htm).1
    · rintro ⟨d, hd', _⟩; rw [hd] at hd'; cases hd'
    · rintro ⟨t, htm, hn⟩; exact absurd hn (hno t htm).2
    · rintro ⟨d, hd', _⟩; rw [hd] at hd'; cases hd'
    · intro t htm hn; exact absurd hn (hno t htm).1
    · intro t htm hn; exact absurd hn (hno t htm).2
  | ok n e lj rj =>
    have hd := declOf_eq_some.1 hpf
    have horig := origin_ok inp pf out hv ht n e lj rj hpf h
    have hin := parts_in_report inp pf out hv ht n e lj rj hpf h
    -- a tag named leading-junk… is THE leading junk tag
    have hl : ∀ t ∈ out.tags, t.name = "leading-junk-in-plural-forms" → lj ≠ [] ∧ t = ⟨"leading-junk-in-plural-forms", [.str lj]⟩ := by
      intro t htm hn
      rcases horig t htm with hc | hc | ⟨_, rfl⟩ | hc | rfl | hc | hc
      · exfalso; rcases hc with h' | h' <;> (rw [h'] at hn; revert hn; decide)
      · exact hc
      · exfalso; dsimp only at hn; revert hn; decide
      · exfalso; rw [name_npl hc] at hn; revert hn; decide
      · exfalso; rcases name_unusualTag (hasPlurals inp) pf (hintOf inp) with h' | h' <;> (rw [h'] at hn; revert hn; decide)
      · exfalso; rcases hc with h' | h' <;> (rw [h'] at hn; revert hn; decide)
      · exfalso; rcases hc with h' | h' <;> (rw [h'] at hn; revert hn; decide)
    have hr : ∀ t ∈ out.tags, t.name = "trailing-junk-in-plural-forms" → rj ≠ [] ∧ t = ⟨"trailing-junk-in-plural-forms", [.str rj]⟩ := by
      intro t htm hn
      rcases horig t htm with hc | ⟨_, rfl⟩ | hc | hc | rfl | hc | hc
      · exfalso; rcases hc with h' | h' <;> (rw [h'] at hn; revert hn; decide)
      · exfalso; dsimp only at hn; revert hn; decide
      · exact hc
      · exfalso; rw [name_npl hc] at hn; revert hn; decide
      · exfalso; rcases name_unusualTag (hasPlurals inp) pf (hintOf inp) with h' | h' <;> (rw [h'] at hn; revert hn; decide)
      · exfalso; rcases hc with h' | h' <;> (rw [h'] at hn; revert hn; decide)
      · exfalso; rcases hc with h' | h' <;> (rw [h'] at hn; revert hn; decide)
    refine ⟨⟨?_, ?_⟩, ⟨?_, ?_⟩, ?_, ?_⟩
    · rintro ⟨t, htm, hn⟩; exact ⟨_, hd, (hl t htm hn).1⟩
    · rintro ⟨d, hd', hne⟩
      rw [hd] at hd'; cases hd'
      exact ⟨_, hin _ (Or.inr (Or.inl (mem_junkTags.2 (Or.inl ⟨hne, rfl⟩)))), rfl⟩
    · rintro ⟨t, htm, hn⟩; exact ⟨_, hd, (hr t htm hn).1⟩
    · rintro ⟨d, hd', hne⟩
      rw [hd] at hd'; cases hd'
      exact ⟨_, hin _ (Or.inr (Or.inl (mem_junkTags.2 (Or.inr ⟨hne, rfl⟩)))), rfl⟩
    · intro t htm hn; exact ⟨_, hd, by rw [(hl t htm hn).2]⟩
    · intro t htm hn; exact ⟨_, hd, by rw [(hr t htm hn).2]⟩

/-- "the (consistent) number of msgstr[] forms of the translated plural messages is `k`" -/
def ConsistentCount (inp : Input) (k : Nat) : Prop := AllEq k (formCounts inp.msgs)

theorem expected_single_iff (inp : Input) (k : Nat) : (∃ x, expectedOf inp = [(k, x)]) ↔ ConsistentCount inp k := by
  have := (scanMsgs_spec inp.msgs false [] (by simp)).2.1 k
  simpa [expectedOf, ConsistentCount] using this

/-- **C07, nplurals clause.**  `incorrect-number-of-plural-forms` is emitted iff the value contains a declaration whose
    nplurals differs from the consistent number of msgstr[] forms of the translated plural messages; it states both numbers. -/
theorem nplurals_tag_iff' (inp : Input) (pf : List Char) (out : Output) (hv : headerValues inp = [pf]) (ht : inp.isTemplate = false)
    (h : checkPlurals inp = .ok out) :
    ((∃ t ∈ out.tags, t.name = "incorrect-number-of-plural-forms") ↔
      ∃ d k, declOf pf = some d ∧ ConsistentCount inp k ∧ d.n ≠ k) ∧
    (∀ t ∈ out.tags, t.name = "incorrect-number-of-plural-forms" →
      ∃ d k, declOf pf = some d ∧ ConsistentCount inp k ∧ d.n ≠ k ∧
        t.extras = [.int d.n, .safe "(Plural-Forms header field)".toList, .str "!=".toList, .int k, .safe "(number of msgstr items)".toList]) := by
  cases hpf : parsePluralForms pf with
  | valueError => exact absurd hpf (no_valueError pf)
  | syntaxError =>
    have hd := declOf_eq_none.1 hpf
    have hout := report_syntax inp pf out hv ht hpf h
    have hno : ∀ t ∈ out.tags, t.name ≠ "incorrect-number-of-plural-forms" := by
      intro t htm
      rw [hout] at htm
      simp only [List.mem_append, List.mem_singleton] at htm
      rcases htm with h0 | rfl
      · rcases name_tags0 h0 with h' | h' <;> (rw [h']; decide)
      · rcases name_syntaxTag (hasPlurals inp) pf (hintOf inp) with h' | h' <;> (rw [h']; decide)
    refine ⟨⟨?_, ?_⟩, ?_⟩
    · rintro ⟨t, htm, hn⟩; exact absurd hn (hno t htm)
    · rintro ⟨d, k, hd', _⟩; rw [hd] at hd'; cases hd'
    · intro t htm hn; exact absurd hn (hno t htm)
  | ok n e lj rj =>
    have hd := declOf_eq_some.1 hpf
    have horig := origin_ok inp pf out hv ht n e lj rj hpf h
    have hin := parts_in_report inp pf out hv ht n e lj rj hpf h
    have hmem : ∀ t ∈ out.tags, t.name = "incorrect-number-of-plural-forms" → t ∈ nplTags n (expectedOf inp) := by
      intro t htm hn
      rcases horig t htm with hc | ⟨_, rfl⟩ | ⟨_, rfl⟩ | hc | rfl | hc | hc
      · exfalso; rcases hc with h' | h' <;> (rw [h'] at hn; revert hn; decide)
      · exfalso; dsimp only at hn; revert hn; decide
      · exfalso; dsimp only at hn; revert hn; decide
      · exact hc
      · exfalso; rcases name_unusualTag (hasPlurals inp) pf (hintOf inp) with h' | h' <;> (rw [h'] at hn; revert hn; decide)
      · exfalso; rcases hc with h' | h' <;> (rw [h'] at hn; revert hn; decide)
      · exfalso; rcases hc with h' | h' <;> (rw [h'] at hn; revert hn; decide)
    refine ⟨⟨?_, ?_⟩, ?_⟩
    · rintro ⟨t, htm, hn⟩
      obtain ⟨k, x, hex, hne, _⟩ := mem_nplTags.1 (hmem t htm hn)
      exact ⟨_, k, hd, (expected_single_iff inp k).1 ⟨x, hex⟩, hne⟩
    · rintro ⟨d, k, hd', hk, hne⟩
      rw [hd] at hd'; cases hd'
      obtain ⟨x, hex⟩ := (expected_single_iff inp k).2 hk
      exact ⟨_, hin _ (Or.inr (Or.inr (mem_nplTags.2 ⟨k, x, hex, hne, rfl⟩))), rfl⟩
    · intro t htm hn
      obtain ⟨k, x, hex, hne, rfl⟩ := mem_nplTags.1 (hmem t htm hn)
      exact ⟨_, k, hd, (expected_single_iff inp k).1 ⟨x, hex⟩, hne, rfl⟩

end I18n.CheckPlurals
