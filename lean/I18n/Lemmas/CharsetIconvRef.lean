import I18n.Spec.CharsetIconv
import I18n.Lemmas.CharsetIconvSchedule
import I18n.Lemmas.CharsetCodecRev
/-!
# C20: the iconv-backed codecs end to end — the retry loop of `lib/iconv.py` composed with a *reference iconv*

`lib/iconv.py` knows nothing about the charset; glibc knows nothing about the loop.  Here the two meet: a reference iconv is
built from a description of the charset (how the head of a byte string parses into one unit; which bytes a character is
written as) that converts unit by unit, checks the room first as glibc's conversion skeleton does, and reports
E2BIG / EILSEQ / EINVAL with the offending unit left unconsumed.  Against it the loop returns exactly the charset's
decoding / encoding, with `UnicodeDecodeError.start` at the offending unit — whatever the number of E2BIG rounds.
-/
namespace I18n.Charset

/-! ## a charset, described unit by unit -/

structure UnitFn.WF (unit : UnitFn) : Prop where
  done_iff : ∀ bs, unit bs = .done ↔ bs = []
  char_len : ∀ bs len ch, unit bs = .char len ch → 1 ≤ len ∧ len ≤ bs.length

theorem wchars_le32 (c : Nat) (rest : List UInt8) (h : c < 4294967296) : wchars (le32 c ++ rest) = c :: wchars rest := by
  simp only [le32, List.cons_append, List.nil_append, wchars, UInt8.toNat_ofNat', List.cons.injEq, and_true]
  omega

theorem wchars_flatMap_le32 : ∀ (cs : List Nat), (∀ c ∈ cs, c < 4294967296) → wchars (cs.flatMap le32) = cs := by
  intro cs
  induction cs with
  | nil => intro _; rfl
  | cons c cs ih =>
    intro h
    rw [List.flatMap_cons, wchars_le32 c _ (h c (by simp)), ih (fun x hx => h x (List.mem_cons_of_mem _ hx))]

theorem length_flatMap_le32 (cs : List Nat) : (cs.flatMap le32).length = 4 * cs.length := by
  induction cs with
  | nil => rfl
  | cons c cs ih => rw [List.flatMap_cons, List.length_append, ih]; simp [le32]; omega

/-! ## the reference iconv, decoding direction -/

theorem refDec_ok (unit : UnitFn) (hwf : unit.WF) : ∀ (fuel : Nat) (bs : List UInt8) (i k room : Nat) (cs : List Nat),
    bs.length ≤ fuel → unitDecodeLoop unit fuel i bs = .ok cs →
    (4 * cs.length ≤ room → (refDecGo unit fuel bs k room).rc = .ok ∧ (refDecGo unit fuel bs k room).consumed = k + bs.length ∧
      (refDecGo unit fuel bs k room).written = cs.flatMap le32) ∧
    (room < 4 * cs.length → (refDecGo unit fuel bs k room).rc = .e2big) := by
  intro fuel
  induction fuel with
  | zero =>
    intro bs i k room cs hf h
    have : bs = [] := List.eq_nil_of_length_eq_zero (by omega)
    subst this
    simp only [unitDecodeLoop, List.isEmpty_nil, if_true, Except.ok.injEq] at h
    subst h
    simp [refDecGo]
  | succ fuel ih =>
    intro bs i k room cs hf h
    simp only [unitDecodeLoop] at h
    simp only [refDecGo]
    cases hu : unit bs with
    | done =>
      simp only [hu, Except.ok.injEq] at h
      subst h
      have := (hwf.done_iff bs).1 hu
      subst this
      simp
    | illegal => simp [hu] at h
    | incomplete => simp [hu] at h
    | char len ch =>
      simp only [hu] at h ⊢
      obtain ⟨hl1, hl2⟩ := hwf.char_len bs len ch hu
      cases hrec : unitDecodeLoop unit fuel (i + len) (bs.drop len) with
      | error e => simp [hrec, Except.map] at h
      | ok cs' =>
        simp only [hrec, Except.map, Except.ok.injEq] at h
        subst h
        have hlen : (bs.drop len).length = bs.length - len := List.length_drop
        have := ih (bs.drop len) (i + len) (k + len) (room - 4) cs' (by omega) hrec
        constructor
        · intro hroom
          simp only [List.length_cons] at hroom
          have hn : ¬ room < 4 := by omega
          simp only [hn, if_false]
          obtain ⟨h1, h2, h3⟩ := this.1 (by omega)
          refine ⟨h1, by rw [h2, hlen]; omega, by rw [h3, List.flatMap_cons]⟩
        · intro hroom
          simp only [List.length_cons] at hroom
          by_cases hn : room < 4
          · simp [hn]
          · simp only [hn, if_false]
            exact this.2 (by omega)

theorem refDec_err (unit : UnitFn) (hwf : unit.WF) : ∀ (fuel : Nat) (bs : List UInt8) (i k room s : Nat) (inc : Bool),
    bs.length ≤ fuel → unitDecodeLoop unit fuel i bs = .error (s, inc) →
    ((refDecGo unit fuel bs k room).rc = .e2big ∨
      (((refDecGo unit fuel bs k room).rc = .eilseq ∨ (refDecGo unit fuel bs k room).rc = .einval) ∧
        (refDecGo unit fuel bs k room).consumed = k + (s - i))) ∧
    (4 * bs.length ≤ room → (refDecGo unit fuel bs k room).rc ≠ .e2big) ∧ i ≤ s ∧ s < i + bs.length := by
  intro fuel
  induction fuel with
  | zero =>
    intro bs i k room s inc hf h
    have : bs = [] := List.eq_nil_of_length_eq_zero (by omega)
    subst this
    simp [unitDecodeLoop] at h
  | succ fuel ih =>
    intro bs i k room s inc hf h
    simp only [unitDecodeLoop] at h
    simp only [refDecGo]
    have hne : unit bs ≠ .done → 1 ≤ bs.length := by
      intro hd
      cases bs with
      | nil => exact (hd ((hwf.done_iff []).2 rfl)).elim
      | cons b rest => simp
    cases hu : unit bs with
    | done => simp [hu] at h
    | illegal =>
      have hb := hne (by rw [hu]; intro hx; cases hx)
      simp only [hu, Except.error.injEq, Prod.mk.injEq] at h ⊢
      obtain ⟨rfl, rfl⟩ := h
      refine ⟨?_, ?_, Nat.le_refl _, by omega⟩
      · by_cases hn : room < 4
        · simp [hn]
        · simp [hn]
      · intro hroom
        have hn : ¬ room < 4 := by omega
        simp [hn]
    | incomplete =>
      have hb := hne (by rw [hu]; intro hx; cases hx)
      simp only [hu, Except.error.injEq, Prod.mk.injEq] at h ⊢
      obtain ⟨rfl, rfl⟩ := h
      refine ⟨?_, ?_, Nat.le_refl _, by omega⟩
      · by_cases hn : room < 4
        · simp [hn]
        · simp [hn]
      · intro hroom
        have hn : ¬ room < 4 := by omega
        simp [hn]
    | char len ch =>
      simp only [hu] at h ⊢
      obtain ⟨hl1, hl2⟩ := hwf.char_len bs len ch hu
      cases hrec : unitDecodeLoop unit fuel (i + len) (bs.drop len) with
      | ok v => simp [hrec, Except.map] at h
      | error e =>
        simp only [hrec, Except.map, Except.error.injEq] at h
        subst h
        have hlen : (bs.drop len).length = bs.length - len := List.length_drop
        obtain ⟨h1, h2, h3, h4⟩ := ih (bs.drop len) (i + len) (k + len) (room - 4) s inc (by omega) hrec
        refine ⟨?_, ?_, by omega, by omega⟩
        · by_cases hn : room < 4
          · simp [hn]
          · simp only [hn, if_false]
            rcases h1 with h1 | ⟨h1, hc⟩
            · exact .inl h1
            · exact .inr ⟨h1, by rw [hc]; omega⟩
        · intro hroom
          have hn : ¬ room < 4 := by omega
          simp only [hn, if_false]
          exact h2 (by omega)

/-! ## the loop, once the answer no longer depends on the room -/

/-- if every round either answers E2BIG or ends the loop with outcome `O`, and E2BIG stops at `need` bytes, the loop returns `O`
    as soon as `L · 2^k ≥ need` and there is fuel for `k + 1` rounds -/
theorem decodeLoop_eventually (step : Step) (input : List UInt8) (need : Nat) (O : Outcome (List Nat))
    (hreset : ∀ told, (step told).reset = none)
    (hO : ∀ f told, (callBoth input.length told (step told)).rc ≠ .e2big → (decodeLoop step input (f + 1) told).1 = O)
    (hb : ∀ told, need ≤ told → (callBoth input.length told (step told)).rc ≠ .e2big) :
    ∀ (fuel L k : Nat), need ≤ L * 2 ^ k → k < fuel → (decodeLoop step input fuel L).1 = O := by
  intro fuel
  induction fuel with
  | zero => intro L k _ hk; omega
  | succ fuel ih =>
    intro L k hk hf
    by_cases hrc : (callBoth input.length L (step L)).rc = .e2big
    · rw [decodeLoop_e2big step input fuel L (hreset L) hrc]
      cases k with
      | zero => simp at hk; exact (hb L hk hrc).elim
      | succ k =>
        have hk' : need ≤ L * 2 * 2 ^ k := by
          rw [Nat.pow_succ, Nat.mul_comm (2 ^ k) 2, ← Nat.mul_assoc] at hk; exact hk
        exact ih (L * 2) k hk' (by omega)
    · exact hO fuel L hrc

theorem encodeLoop_eventually (step : Step) (n need : Nat) (O : Outcome (List UInt8))
    (hreset : ∀ told, (step told).reset = none)
    (hO : ∀ f told, (callBoth (4 * n) told (step told)).rc ≠ .e2big → (encodeLoop step n (f + 1) told).1 = O)
    (hb : ∀ told, need ≤ told → (callBoth (4 * n) told (step told)).rc ≠ .e2big) :
    ∀ (fuel L k : Nat), need ≤ L * 2 ^ k → k < fuel → (encodeLoop step n fuel L).1 = O := by
  intro fuel
  induction fuel with
  | zero => intro L k _ hk; omega
  | succ fuel ih =>
    intro L k hk hf
    by_cases hrc : (callBoth (4 * n) L (step L)).rc = .e2big
    · rw [encodeLoop_e2big step n fuel L (hreset L) hrc]
      cases k with
      | zero => simp at hk; exact (hb L hk hrc).elim
      | succ k =>
        have hk' : need ≤ L * 2 * 2 ^ k := by
          rw [Nat.pow_succ, Nat.mul_comm (2 ^ k) 2, ← Nat.mul_assoc] at hk; exact hk
        exact ih (L * 2) k hk' (by omega)
    · exact hO fuel L hrc

theorem callBoth_flush_noop (inLen told : Nat) (m : Call) :
    callBoth inLen told ⟨none, m, ⟨.ok, 0, []⟩⟩ = ⟨m.rc, inLen - m.consumed, told - m.written.length, m.written⟩ := by
  unfold callBoth
  cases h : m.rc <;> simp [h]

/-! ## **decoding through the loop = decoding unit by unit** -/

/-- the text, whenever the charset's characters are scalar values (≤ U+10FFFF): whatever the number of E2BIG rounds -/
theorem decodeDl_ref_ok (unit : UnitFn) (hwf : unit.WF) (bs : List UInt8) (cs : List Nat) (fuel : Nat)
    (h : unitDecodeLoop unit bs.length 0 bs = .ok cs) (hvalid : ∀ c ∈ cs, c ≤ 0x10FFFF) (hfuel : 3 ≤ fuel) :
    (decodeDl (refDecStep unit bs) bs fuel).1 = .ok cs := by
  unfold decodeDl
  cases hbs : bs.isEmpty
  · simp only [Bool.false_eq_true, if_false]
    have hcall : ∀ told, callBoth bs.length told (refDecStep unit bs told) =
        ⟨(refDecGo unit bs.length bs 0 told).rc, bs.length - (refDecGo unit bs.length bs 0 told).consumed,
          told - (refDecGo unit bs.length bs 0 told).written.length, (refDecGo unit bs.length bs 0 told).written⟩ :=
      fun told => callBoth_flush_noop _ _ _
    apply decodeLoop_eventually (refDecStep unit bs) bs (4 * cs.length) (.ok cs) (fun _ => rfl) ?_ ?_ fuel bs.length 2 ?_ (by omega)
    · intro f told hrc
      rw [hcall] at hrc
      simp only at hrc
      have hfacts := refDec_ok unit hwf bs.length bs 0 0 told cs (Nat.le_refl _) h
      have hroom : 4 * cs.length ≤ told := by
        by_cases hlt : told < 4 * cs.length
        · exact (hrc (hfacts.2 hlt)).elim
        · omega
      obtain ⟨h1, h2, h3⟩ := hfacts.1 hroom
      have hw : (refDecGo unit bs.length bs 0 told).written.length = 4 * cs.length := by rw [h3, length_flatMap_le32]
      have hv : (wchars (cs.flatMap le32)).any (· > 0x10FFFF) = false := by
        rw [wchars_flatMap_le32 cs (fun c hc => by have := hvalid c hc; omega)]
        rw [List.any_eq_false]
        intro c hc
        have := hvalid c hc
        simp only [gt_iff_lt, decide_eq_true_eq]; omega
      have := decodeLoop_ok (refDecStep unit bs) bs f told rfl (by rw [hcall]; exact h1) (by rw [hcall]; simp only; rw [h2]; omega)
        (by rw [hcall]) (by rw [hcall]; simp only; omega) cs.length (by rw [hcall]; exact hw) (by rw [hcall]; simp only; rw [h3]; exact hv)
      rw [this, hcall]
      simp only
      rw [h3, wchars_flatMap_le32 cs (fun c hc => by have := hvalid c hc; omega)]
    · intro told hneed hrc
      rw [hcall] at hrc
      simp only at hrc
      have hfacts := refDec_ok unit hwf bs.length bs 0 0 told cs (Nat.le_refl _) h
      rw [(hfacts.1 hneed).1] at hrc
      cases hrc
    · -- 4 · (number of characters) ≤ 4 · (number of bytes)
      have : cs.length ≤ bs.length := by
        have hgen : ∀ (fuel i : Nat) (b : List UInt8) (c : List Nat), b.length ≤ fuel → unitDecodeLoop unit fuel i b = .ok c → c.length ≤ b.length := by
          intro fuel
          induction fuel with
          | zero =>
            intro i b c hf hd
            have : b = [] := List.eq_nil_of_length_eq_zero (by omega)
            subst this
            simp [unitDecodeLoop] at hd
            subst hd; simp
          | succ fuel ih =>
            intro i b c hf hd
            simp only [unitDecodeLoop] at hd
            cases hu : unit b with
            | done => simp [hu] at hd; subst hd; simp
            | illegal => simp [hu] at hd
            | incomplete => simp [hu] at hd
            | char len ch =>
              simp only [hu] at hd
              obtain ⟨hl1, hl2⟩ := hwf.char_len b len ch hu
              cases hrec : unitDecodeLoop unit fuel (i + len) (b.drop len) with
              | error e => simp [hrec, Except.map] at hd
              | ok c' =>
                simp only [hrec, Except.map, Except.ok.injEq] at hd
                subst hd
                have hlen : (b.drop len).length = b.length - len := List.length_drop
                have := ih (i + len) (b.drop len) c' (by omega) hrec
                simp only [List.length_cons]; omega
        exact hgen bs.length 0 bs cs (Nat.le_refl _) h
      omega
  · have : bs = [] := by simpa using hbs
    subst this
    simp only [List.isEmpty_nil, if_true]
    simp [unitDecodeLoop] at h
    rw [← h]

/-- `UnicodeDecodeError` with `start` = the offset of the offending unit, `end` = the next ASCII byte (or the end of input) -/
theorem decodeDl_ref_err (unit : UnitFn) (hwf : unit.WF) (bs : List UInt8) (s : Nat) (inc : Bool) (fuel : Nat)
    (h : unitDecodeLoop unit bs.length 0 bs = .error (s, inc)) (hfuel : 3 ≤ fuel) :
    (decodeDl (refDecStep unit bs) bs fuel).1 = .unicodeError s (syncEnd bs s) ∧ s < syncEnd bs s ∧ syncEnd bs s ≤ bs.length := by
  have hfacts := fun told => refDec_err unit hwf bs.length bs 0 0 told s inc (Nat.le_refl _) h
  have hs : s < bs.length := by have := (hfacts 0).2.2.2; omega
  refine ⟨?_, syncEnd_span bs s hs⟩
  unfold decodeDl
  have hbs : bs.isEmpty = false := by cases bs <;> simp_all
  simp only [hbs, Bool.false_eq_true, if_false]
  have hcall : ∀ told, callBoth bs.length told (refDecStep unit bs told) =
      ⟨(refDecGo unit bs.length bs 0 told).rc, bs.length - (refDecGo unit bs.length bs 0 told).consumed,
        told - (refDecGo unit bs.length bs 0 told).written.length, (refDecGo unit bs.length bs 0 told).written⟩ :=
    fun told => callBoth_flush_noop _ _ _
  apply decodeLoop_eventually (refDecStep unit bs) bs (4 * bs.length) _ (fun _ => rfl) ?_ ?_ fuel bs.length 2 (by omega) (by omega)
  · intro f told hrc
    rw [hcall] at hrc
    simp only at hrc
    rcases (hfacts told).1 with he | ⟨hk, hc⟩
    · exact (hrc he).elim
    · have hstart : bs.length - (bs.length - (refDecGo unit bs.length bs 0 told).consumed) = s := by rw [hc]; omega
      have hr : (refDecStep unit bs told).reset = none := rfl
      rcases hk with hk | hk
      · simp only [decodeLoop, hr, hcall, hk, hstart]
      · simp only [decodeLoop, hr, hcall, hk, hstart]
  · intro told hneed hrc
    rw [hcall] at hrc
    exact (hfacts told).2.1 hneed hrc

/-! ## the reference iconv, encoding direction -/

theorem refEnc_ok (enc : Nat → Option (List UInt8)) (hmax : ∀ c u, enc c = some u → u.length ≤ 4) :
    ∀ (cs : List Nat) (i k room : Nat) (bs : List UInt8), encodeAllFrom enc i cs = .ok bs →
    ((refEncGo enc cs k room).rc = .e2big ∨
      ((refEncGo enc cs k room).rc = .ok ∧ (refEncGo enc cs k room).consumed = 4 * (k + cs.length) ∧
        (refEncGo enc cs k room).written = bs ∧ bs.length ≤ room)) ∧
    (4 * cs.length ≤ room → (refEncGo enc cs k room).rc ≠ .e2big) ∧ bs.length ≤ 4 * cs.length := by
  intro cs
  induction cs with
  | nil =>
    intro i k room bs h
    simp only [encodeAllFrom, Except.ok.injEq] at h
    subst h
    simp [refEncGo]
  | cons c cs ih =>
    intro i k room bs h
    simp only [encodeAllFrom] at h
    cases hc : enc c with
    | none => simp [hc] at h
    | some u =>
      simp only [hc] at h
      cases hrec : encodeAllFrom enc (i + 1) cs with
      | error e => simp [hrec, Except.map] at h
      | ok bs' =>
        simp only [hrec, Except.map, Except.ok.injEq] at h
        subst h
        have hu := hmax c u hc
        simp only [refEncGo, hc]
        obtain ⟨h1, h2, h3⟩ := ih (i + 1) (k + 1) (room - u.length) bs' hrec
        refine ⟨?_, ?_, by simp only [List.length_append, List.length_cons]; omega⟩
        · by_cases h0 : room = 0
          · simp [h0]
          · simp only [h0, if_false]
            by_cases hlt : room < u.length
            · simp [hlt]
            · simp only [hlt, if_false]
              rcases h1 with h1 | ⟨a, b, c', d⟩
              · exact .inl h1
              · refine .inr ⟨a, by rw [b]; simp only [List.length_cons]; omega, by rw [c'], by simp only [List.length_append]; omega⟩
        · intro hroom
          simp only [List.length_cons] at hroom
          have h0 : ¬ room = 0 := by omega
          have hlt : ¬ room < u.length := by omega
          simp only [h0, hlt, if_false]
          exact h2 (by omega)

theorem refEnc_err (enc : Nat → Option (List UInt8)) (hmax : ∀ c u, enc c = some u → u.length ≤ 4) :
    ∀ (cs : List Nat) (i k room e : Nat), encodeAllFrom enc i cs = .error e →
    ((refEncGo enc cs k room).rc = .e2big ∨
      ((refEncGo enc cs k room).rc = .eilseq ∧ (refEncGo enc cs k room).consumed = 4 * (k + (e - i)))) ∧
    (4 * cs.length ≤ room → (refEncGo enc cs k room).rc ≠ .e2big) ∧ i ≤ e ∧ e < i + cs.length := by
  intro cs
  induction cs with
  | nil => intro i k room e h; simp [encodeAllFrom] at h
  | cons c cs ih =>
    intro i k room e h
    simp only [encodeAllFrom] at h
    simp only [refEncGo]
    cases hc : enc c with
    | none =>
      simp only [hc, Except.error.injEq] at h
      subst h
      refine ⟨?_, ?_, Nat.le_refl _, by simp only [List.length_cons]; omega⟩
      · by_cases h0 : room = 0
        · simp [h0]
        · simp [h0]
      · intro hroom
        simp only [List.length_cons] at hroom
        have h0 : ¬ room = 0 := by omega
        simp [h0]
    | some u =>
      simp only [hc] at h ⊢
      have hu := hmax c u hc
      cases hrec : encodeAllFrom enc (i + 1) cs with
      | ok v => simp [hrec, Except.map] at h
      | error e' =>
        simp only [hrec, Except.map, Except.error.injEq] at h
        subst h
        obtain ⟨h1, h2, h3, h4⟩ := ih (i + 1) (k + 1) (room - u.length) e' hrec
        refine ⟨?_, ?_, by omega, by simp only [List.length_cons]; omega⟩
        · by_cases h0 : room = 0
          · simp [h0]
          · simp only [h0, if_false]
            by_cases hlt : room < u.length
            · simp [hlt]
            · simp only [hlt, if_false]
              rcases h1 with h1 | ⟨a, b⟩
              · exact .inl h1
              · exact .inr ⟨a, by rw [b]; congr 1; omega⟩
        · intro hroom
          simp only [List.length_cons] at hroom
          have h0 : ¬ room = 0 := by omega
          have hlt : ¬ room < u.length := by omega
          simp only [h0, hlt, if_false]
          exact h2 (by omega)

/-! ## **encoding through the loop = encoding character by character** -/

theorem encodeDl_ref_ok (enc : Nat → Option (List UInt8)) (hmax : ∀ c u, enc c = some u → u.length ≤ 4)
    (cs : List Nat) (bs : List UInt8) (fuel : Nat) (h : encodeAllFrom enc 0 cs = .ok bs) (hfuel : 3 ≤ fuel) :
    (encodeDl (refEncStep enc cs) cs.length fuel).1 = .ok bs := by
  unfold encodeDl
  by_cases hn : cs.length = 0
  · have : cs = [] := List.eq_nil_of_length_eq_zero hn
    subst this
    simp only [encodeAllFrom, Except.ok.injEq] at h
    subst h
    simp
  · simp only [hn, if_false]
    have hcall : ∀ told, callBoth (4 * cs.length) told (refEncStep enc cs told) =
        ⟨(refEncGo enc cs 0 told).rc, 4 * cs.length - (refEncGo enc cs 0 told).consumed,
          told - (refEncGo enc cs 0 told).written.length, (refEncGo enc cs 0 told).written⟩ :=
      fun told => callBoth_flush_noop _ _ _
    apply encodeLoop_eventually (refEncStep enc cs) cs.length (4 * cs.length) (.ok bs) (fun _ => rfl) ?_ ?_ fuel cs.length 2 (by omega) (by omega)
    · intro f told hrc
      rw [hcall] at hrc
      simp only at hrc
      rcases (refEnc_ok enc hmax cs 0 0 told bs h).1 with he | ⟨h1, h2, h3, h4⟩
      · exact (hrc he).elim
      · have := encodeLoop_ok (refEncStep enc cs) cs.length f told rfl (by rw [hcall]; exact h1) (by rw [hcall]; simp only; rw [h2]; omega)
          (by rw [hcall]) (by rw [hcall]; simp only; rw [h3]; exact h4)
        rw [this, hcall]
        simp only
        rw [h3]
    · intro told hneed hrc
      rw [hcall] at hrc
      exact (refEnc_ok enc hmax cs 0 0 told bs h).2.1 hneed hrc

theorem encodeDl_ref_err (enc : Nat → Option (List UInt8)) (hmax : ∀ c u, enc c = some u → u.length ≤ 4)
    (cs : List Nat) (e : Nat) (fuel : Nat) (h : encodeAllFrom enc 0 cs = .error e) (hfuel : 3 ≤ fuel) :
    (encodeDl (refEncStep enc cs) cs.length fuel).1 = .unicodeError e (e + 1) ∧ e < cs.length := by
  have hfacts := fun told => refEnc_err enc hmax cs 0 0 told e h
  have he : e < cs.length := by have := (hfacts 0).2.2.2; omega
  refine ⟨?_, he⟩
  unfold encodeDl
  have hn : ¬ cs.length = 0 := by omega
  simp only [hn, if_false]
  have hcall : ∀ told, callBoth (4 * cs.length) told (refEncStep enc cs told) =
      ⟨(refEncGo enc cs 0 told).rc, 4 * cs.length - (refEncGo enc cs 0 told).consumed,
        told - (refEncGo enc cs 0 told).written.length, (refEncGo enc cs 0 told).written⟩ :=
    fun told => callBoth_flush_noop _ _ _
  apply encodeLoop_eventually (refEncStep enc cs) cs.length (4 * cs.length) _ (fun _ => rfl) ?_ ?_ fuel cs.length 2 (by omega) (by omega)
  · intro f told hrc
    rw [hcall] at hrc
    simp only at hrc
    rcases (hfacts told).1 with h1 | ⟨hk, hc⟩
    · exact (hrc h1).elim
    · have hstart : cs.length - (4 * cs.length - (refEncGo enc cs 0 told).consumed) / 4 = e := by rw [hc]; omega
      have hr : (refEncStep enc cs told).reset = none := rfl
      simp only [encodeLoop, hr, hcall, hk, hstart]
  · intro told hneed hrc
    rw [hcall] at hrc
    exact (hfacts told).2.1 hneed hrc

end I18n.Charset
