import I18n.Lemmas.CheckPluralsSpec
namespace I18n.CheckPlurals
open I18n I18n.Py I18n.Plural I18n.PluralParse I18n.Spec.PluralForms

/-! ## the registry: where the compared declaration comes from -/

theorem localCorrect_origin (n : Nat) : ∀ (cs : List (List Char)) (r : List (Nat × Expr)), localCorrect n cs = .ok r →
    ∀ x ∈ r, ∃ c ∈ cs, ∃ lj rj, parsePluralFormsStrict c = .ok x.1 x.2 lj rj := by
  intro cs
  induction cs with
  | nil =>
    intro r h
    simp only [localCorrect, Except.ok.injEq] at h
    subst h
    simp
  | cons c cs ih =>
    intro r h
    simp only [localCorrect] at h
    split at h
    · rename_i k ce lj' rj' hc
      split at h
      · cases h
      · rename_i rest hrest
        simp only [Except.ok.injEq] at h
        subst h
        intro x hx
        have hrest' : ∀ x ∈ rest, ∃ c' ∈ c :: cs, ∃ lj rj, parsePluralFormsStrict c' = .ok x.1 x.2 lj rj := by
          intro x hx
          obtain ⟨c', hc', h'⟩ := ih rest hrest x hx
          exact ⟨c', List.mem_cons_of_mem _ hc', h'⟩
        split at hx
        · rcases List.mem_cons.mp hx with rfl | hx
          · exact ⟨c, by simp, lj', rj', hc⟩
          · exact hrest' x hx
        · exact hrest' x hx
    · cases h
    · cases h

/-- every declaration of the registry (for this language) parses strictly and is total on the window — a data-integrity
    condition of the tool, discharged for the shipped registry by evaluation -/
def RegistryClean (inp : Input) : Prop :=
  ∀ cs, inp.correct = some cs → ∀ c ∈ cs, ∃ n e, parsePluralFormsStrict c = .ok n e [] [] ∧
    ∀ i, i < codomainLimit → ∃ v, evalAt 32 i e = .ok v

theorem localCorrect_ok (n : Nat) : ∀ (cs : List (List Char)), (∀ c ∈ cs, ∃ k e, parsePluralFormsStrict c = .ok k e [] []) →
    ∃ r, localCorrect n cs = .ok r := by
  intro cs
  induction cs with
  | nil => intro _; exact ⟨[], rfl⟩
  | cons c cs ih =>
    intro h
    obtain ⟨k, e, hc⟩ := h c (by simp)
    obtain ⟨r, hr⟩ := ih (fun c' hc' => h c' (List.mem_cons_of_mem _ hc'))
    simp only [localCorrect, hc, hr]
    exact ⟨_, rfl⟩

theorem RegistryClean.parses {inp : Input} (h : RegistryClean inp) : RegistryParses inp := by
  intro cs hcs n
  exact localCorrect_ok n cs (fun c hc => by obtain ⟨k, e, h1, _⟩ := h cs hcs c hc; exact ⟨k, e, h1⟩)

theorem lcsOf_some {inp : Input} {n : Nat} {lcs : Option (List (Nat × Expr))} (h : lcsOf inp n = .ok lcs) :
    (inp.correct = none ∧ lcs = none) ∨ ∃ cs r, inp.correct = some cs ∧ localCorrect n cs = .ok r ∧ lcs = some r := by
  unfold lcsOf at h
  cases hc : inp.correct with
  | none => rw [hc] at h; simp only [Except.ok.injEq] at h; exact Or.inl ⟨rfl, h.symm⟩
  | some cs =>
    rw [hc] at h
    simp only at h
    right
    cases hl : localCorrect n cs with
    | error ex => rw [hl] at h; cases h
    | ok r =>
      rw [hl] at h
      simp only [Except.map, Except.ok.injEq] at h
      exact ⟨cs, r, rfl, hl, h.symm⟩

theorem pickLc_mem (ut : TagCall) (lcs : Option (List (Nat × Expr))) (x : Nat × Expr) (h : (pickLc ut lcs).2 = some x) :
    ∃ r, lcs = some r ∧ x ∈ r := by
  match lcs, h with
  | some [y], h =>
    simp only [pickLc, Option.some.injEq] at h
    exact ⟨[y], rfl, by simp [h]⟩
  | none, h => simp [pickLc] at h
  | some [], h => simp [pickLc] at h
  | some (_ :: _ :: _), h => simp [pickLc] at h

theorem lcTotal_of_clean {inp : Input} (hreg : RegistryClean inp) {n : Nat} {lcs : Option (List (Nat × Expr))}
    (h : lcsOf inp n = .ok lcs) (ut : TagCall) : LcTotal (pickLc ut lcs).2 (List.range codomainLimit) := by
  intro ln le hlc i hi
  obtain ⟨r, rfl, hx⟩ := pickLc_mem ut lcs (ln, le) hlc
  rcases lcsOf_some h with ⟨_, h'⟩ | ⟨cs, r', hcs, hl, h'⟩
  · cases h'
  · cases h'
    obtain ⟨c, hc, lj, rj, hs⟩ := localCorrect_origin n cs r hl (ln, le) hx
    obtain ⟨k, e', hs', htot⟩ := hreg cs hcs c hc
    rw [hs'] at hs
    cases hs
    exact htot i (List.mem_range.1 hi)

/-! ## the registry's own declaration is never called unusual -/

theorem never_unusual' (inp : Input) (pf : List Char) (out : Output) (hv : headerValues inp = [pf]) (ht : inp.isTemplate = false)
    (n : Nat) (e : Expr) (lj rj : List Char) (hpf : parsePluralForms pf = .ok n e lj rj) (h : checkPlurals inp = .ok out)
    (hreg : inp.correct = none ∨ ∃ cs c lj' rj', inp.correct = some cs ∧ c ∈ cs ∧ parsePluralFormsStrict c = .ok n e lj' rj') :
    ∀ t ∈ out.tags, ¬ isUnusualName t.name := by
  obtain ⟨lcs, st, fin, rs, mid, last, hl, _, hfin, _, htags, _, hmid, hc, hs, hmid0⟩ := report_ok inp pf out hv ht n e lj rj hpf h
  have hpick : (pickLc (unusualTag (hasPlurals inp) pf (hintOf inp)) lcs).1 = [] ∧
      ((pickLc (unusualTag (hasPlurals inp) pf (hintOf inp)) lcs).2 = none ∨
        ∃ ln, (pickLc (unusualTag (hasPlurals inp) pf (hintOf inp)) lcs).2 = some (ln, e)) := by
    rcases lcsOf_some hl with ⟨_, rfl⟩ | ⟨cs, r, hcs, hlc, rfl⟩
    · exact ⟨rfl, Or.inl rfl⟩
    · rcases hreg with hnone | ⟨cs', c, lj', rj', hcs', hc', hstrict⟩
      · rw [hnone] at hcs; cases hcs
      · rw [hcs'] at hcs; cases hcs
        have hmem := (localCorrect_spec n _ r hlc).2 c hc' e lj' rj' hstrict
        obtain ⟨h1, h2⟩ := pickLc_of_mem (unusualTag (hasPlurals inp) pf (hintOf inp)) r (n, e) hmem
        exact ⟨h1, h2.imp id (fun h => ⟨n, h⟩)⟩
  have hmid' := hmid0 hpick.2
  intro t htm hn
  rw [htags, hpick.1, hmid'] at htm
  simp only [List.mem_append, List.append_nil] at htm
  rcases htm with (((h0 | hj) | hnp) | hl') | hg
  · rcases name_tags0 h0 with h' | h' <;> (rw [isUnusualName, h'] at hn; revert hn; decide)
  · rcases mem_junkTags.1 hj with ⟨_, rfl⟩ | ⟨_, rfl⟩ <;> (revert hn; simp only [isUnusualName]; decide)
  · rw [isUnusualName, name_npl hnp] at hn; revert hn; decide
  · rcases hfin with rfl | rfl
    · rw [hc rfl] at hl'; cases hl'
    · obtain ⟨t', rfl, ht'⟩ := hs rfl
      simp only [List.mem_singleton] at hl'
      subst hl'
      rcases name_stop ht' with hc' | hc' <;> rcases hc' with h' | h' <;> (rw [isUnusualName, h'] at hn; revert hn; decide)
  · rcases name_gap hg with h' | h' <;> (rw [isUnusualName, h'] at hn; revert hn; decide)

end I18n.CheckPlurals
