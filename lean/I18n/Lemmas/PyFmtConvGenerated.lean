import I18n.Model.PyFmtG
import I18n.Lemmas.PyKitLemmas
/-!
# `Conversion.__init__` / `FormatString.add_argument` regenerated from `lib/strformat/python.py` equal the hand-written model
-/
set_option linter.unusedSimpArgs false
set_option linter.unusedVariables false
namespace I18n.PyFmt.Gen
open I18n I18n.PyFmt I18n.PyFmt.Py I18n.PyFmt.G I18n.Generated I18n.PyKit
open I18n.Generated.PyFormatTables

/-- `add_argument` as regenerated, with the callers' `except IndexError: raise ArgumentIndexingMixture(s)` = the model's `addArgument` -/
theorem add_argument_eq (st : St) (key : Option (List Char)) (arg : Entry) :
    PyKit.tryExcept (PyFmtConv.add_argument st key arg) isIndexError (.error .ArgumentIndexingMixture) = addArgument st key arg := by
  cases key with
  | none =>
    simp only [PyFmtConv.add_argument, addArgument]
    cases st.map.isEmpty <;> rfl
  | some k =>
    simp only [PyFmtConv.add_argument, addArgument]
    cases st.seq.isEmpty <;> rfl

/-- `add_argument` itself: `IndexError` for a mixture, else the entry appended to the list / the insertion log -/
theorem add_argument_raw (st : St) (key : Option (List Char)) (arg : Entry) :
    PyFmtConv.add_argument st key arg =
      (match addArgument st key arg with
       | .ok st' => .ok st'
       | .error _ => .error (.crash .IndexError)) := by
  cases key with
  | none =>
    simp only [PyFmtConv.add_argument, addArgument]
    cases st.map.isEmpty <;> rfl
  | some k =>
    simp only [PyFmtConv.add_argument, addArgument]
    cases st.seq.isEmpty <;> rfl

theorem cast_gt (n m : Nat) : ((n : Int) > (m : Int)) = (n > m) := by
  apply propext; constructor <;> intro h <;> omega

theorem cast_gt3 (n : Nat) : ((n : Int) > ((SSIZE_MAX : Nat) : Int) - 3) = (n > SSIZE_MAX - 3) := by
  have h : 3 ≤ SSIZE_MAX := by decide
  apply propext; constructor <;> intro h' <;> omega

theorem cast_ne1 (n : Nat) : ((n : Int) ≠ 1) = (n ≠ 1) := by
  apply propext; constructor <;> intro h <;> omega

/-- one round of `for flag, count in flags.items():` is one step of the model's `flagLoop` -/
theorem flag_step (w : Bool) (flags : List Char) (conv b : Char) (rest : List Char) (s : St) :
    flagLoop w flags conv (b :: rest) s =
      Except.bind (if decide (b = '#') = true then
          Except.ok (if (!(octCvt ++ hexCvt ++ floatCvt).contains conv) = true then
              PyFmt.warn w (if decide (((List.count b flags : Nat) : Int) ≠ 1) = true then PyFmt.warn w s Warn.RedundantFlag else s) Warn.RedundantFlag
            else if decide (((List.count b flags : Nat) : Int) ≠ 1) = true then PyFmt.warn w s Warn.RedundantFlag else s)
        else if decide (b = '-') = true then
          Except.ok (if decide (((List.count b flags : Nat) : Int) ≠ 1) = true then PyFmt.warn w s Warn.RedundantFlag else s)
        else if "0 +".toList.contains b = true then
          Except.ok (if (!(intCvt ++ floatCvt).contains conv) = true then
              PyFmt.warn w (if decide (((List.count b flags : Nat) : Int) ≠ 1) = true then PyFmt.warn w s Warn.RedundantFlag else s) Warn.RedundantFlag
            else if decide (((List.count b flags : Nat) : Int) ≠ 1) = true then PyFmt.warn w s Warn.RedundantFlag else s)
        else (Except.error (PErr.crash Py.Exc.AssertionError) : Except PErr St)) (flagLoop w flags conv rest) := by
  simp only [flagLoop, cast_ne1, Except.bind]
  generalize (octCvt ++ hexCvt ++ floatCvt).contains conv = c1
  generalize (intCvt ++ floatCvt).contains conv = c2
  by_cases h1 : b = '#'
  · subst h1; cases c1 <;> simp
  · by_cases h2 : b = '-'
    · subst h2; simp
    · by_cases h3 : b = '0'
      · subst h3; cases c2 <;> simp
      · by_cases h4 : b = ' '
        · subst h4; cases c2 <;> simp
        · by_cases h5 : b = '+'
          · subst h5; cases c2 <;> simp
          · simp [h1, h2, h3, h4, h5]

/-- the probed type table is the `if conv in … elif …` chain of `Conversion.__init__` -/
theorem lookup_chain (conv : Char) :
    typeTable.lookup conv =
      (if intCvt.contains conv = true then some "int" else if floatCvt.contains conv = true then some "float"
       else if conv = 'c' then some "chr" else if conv = 's' then some "str" else if "ra".toList.contains conv = true then some "object"
       else if conv = '%' then some "None" else none) := by
  by_cases hall : allCvt.contains conv = true
  · have hconv : conv = '%' ∨ conv = 'E' ∨ conv = 'F' ∨ conv = 'G' ∨ conv = 'X' ∨ conv = 'a' ∨ conv = 'c' ∨ conv = 'd' ∨ conv = 'e' ∨ conv = 'f'
        ∨ conv = 'g' ∨ conv = 'i' ∨ conv = 'o' ∨ conv = 'r' ∨ conv = 's' ∨ conv = 'u' ∨ conv = 'x' := by
      simpa [allCvt] using hall
    rcases hconv with rfl | rfl | rfl | rfl | rfl | rfl | rfl | rfl | rfl | rfl | rfl | rfl | rfl | rfl | rfl | rfl | rfl <;> decide
  · have hn : conv ≠ '%' ∧ conv ≠ 'E' ∧ conv ≠ 'F' ∧ conv ≠ 'G' ∧ conv ≠ 'X' ∧ conv ≠ 'a' ∧ conv ≠ 'c' ∧ conv ≠ 'd' ∧ conv ≠ 'e' ∧ conv ≠ 'f'
        ∧ conv ≠ 'g' ∧ conv ≠ 'i' ∧ conv ≠ 'o' ∧ conv ≠ 'r' ∧ conv ≠ 's' ∧ conv ≠ 'u' ∧ conv ≠ 'x' := by
      simpa [allCvt] using hall
    obtain ⟨h1, h2, h3, h4, h5, h6, h7, h8, h9, h10, h11, h12, h13, h14, h15, h16, h17⟩ := hn
    simp only [typeTable, List.lookup, beq_false_of_ne h1, beq_false_of_ne h2, beq_false_of_ne h3, beq_false_of_ne h4, beq_false_of_ne h5,
      beq_false_of_ne h6, beq_false_of_ne h7, beq_false_of_ne h8, beq_false_of_ne h9, beq_false_of_ne h10, beq_false_of_ne h11, beq_false_of_ne h12,
      beq_false_of_ne h13, beq_false_of_ne h14, beq_false_of_ne h15, beq_false_of_ne h16, beq_false_of_ne h17]
    simp [intCvt, floatCvt, *]

theorem cpercent (conv : Char) : (conv == 'c' || conv == '%') = "c%".toList.contains conv := by
  cases h1 : (conv == 'c') <;> cases h2 : (conv == '%') <;> simp_all

/-! ### the model `conversion`, staged like the code -/

def widthVal (d : Directive) : Option PyKit.EllInt := match d.width with | .star => some .ellipsis | .num n => some (.int n)
def precVal (d : Directive) : Option PyKit.EllInt :=
  match d.prec with | none => none | some .star => some .ellipsis | some (.num n) => some (.int n)

/-- the loop over `[('-', '0'), ('+', ' ')]` -/
def sPairs (w : Bool) (flags : List Char) (st : St) : St :=
  let st := if flags.contains '-' && flags.contains '0' then warn w st .RedundantFlag else st
  if flags.contains '+' && flags.contains ' ' then warn w st .RedundantFlag else st

def sWidth (st : St) (d : Directive) (id : Nat) : Except PErr (St × Option PyKit.EllInt) :=
  match doWidth st d.width id with | .ok s => .ok (s, widthVal d) | .error e => .error e

def sPrec (st : St) (d : Directive) (id : Nat) : Except PErr (St × Option PyKit.EllInt) :=
  match doPrec st d.prec d.conv id with | .ok s => .ok (s, precVal d) | .error e => .error e

/-- `if prec is not None: …` (the two warnings) -/
def sLate1 (w : Bool) (st : St) (d : Directive) (pv : Option PyKit.EllInt) : St :=
  match pv with
  | none => st
  | some _ =>
    let st := if intCvt.contains d.conv && d.flags.contains '0' then warn w st .RedundantFlag else st
    if "c%".toList.contains d.conv then warn w st .RedundantPrecision else st

/-- `if length is not None: …` -/
def sLate2 (w : Bool) (st : St) (d : Directive) : St := if d.length.isSome then warn w st .RedundantLength else st

/-- the `if conv in i.int_cvt: … elif …` chain (with the `%u` warning) -/
def sType (w : Bool) (st : St) (d : Directive) : Except PErr (St × List Char) :=
  match typeTable.lookup d.conv with
  | none => .error (.crash .AssertionError)
  | some tp => .ok (if d.conv == 'u' && intCvt.contains d.conv then warn w st .ObsoleteConversion else st, tp.toList)

/-- the forbidden key / the registration -/
def sFinal (st : St) (d : Directive) (id : Nat) (tp : List Char) : Except PErr St :=
  if tp = "None".toList then (if d.key.isSome then .error .ForbiddenArgumentKey else .ok st)
  else addArgument st d.key ⟨.conv, String.ofList tp, id⟩

theorem str_none (tp : String) : (tp.toList = "None".toList) = (tp = "None") := by
  apply propext
  constructor
  · intro h; rw [← String.ofList_toList (s := tp), h]; rfl
  · intro h; rw [h]

theorem conversion_staged (w : Bool) (st : St) (d : Directive) :
    (conversion w st d).map (fun r => (r.2.toList, r.1)) =
      Except.bind (flagLoop w d.flags d.conv (distinct d.flags) st) (fun st1 =>
      Except.bind (sWidth (sPairs w d.flags st1) d st.items.length) (fun r3 =>
      Except.bind (sPrec r3.1 d st.items.length) (fun r4 =>
      Except.bind (sType w (sLate2 w (sLate1 w r4.1 d r4.2) d) d) (fun r7 =>
      Except.bind (sFinal r7.1 d st.items.length r7.2) (fun st8 => .ok (r7.2, st8)))))) := by
  unfold conversion checkFlags
  simp only []
  cases flagLoop w d.flags d.conv (distinct d.flags) st with
  | error e => rfl
  | ok st1 =>
    simp only [bind_ok, sWidth, sPairs]
    cases doWidth (if (d.flags.contains '+' && d.flags.contains ' ') = true then
        warn w (if (d.flags.contains '-' && d.flags.contains '0') = true then warn w st1 Warn.RedundantFlag else st1) Warn.RedundantFlag
      else if (d.flags.contains '-' && d.flags.contains '0') = true then warn w st1 Warn.RedundantFlag else st1) d.width st.items.length with
    | error e => rfl
    | ok st3 =>
      simp only [bind_ok, sPrec]
      cases doPrec st3 d.prec d.conv st.items.length with
      | error e => rfl
      | ok st4 =>
        simp only [bind_ok, sType]
        have hl : lateWarnings w st4 d =
            (if (d.conv == 'u' && intCvt.contains d.conv) = true then warn w (sLate2 w (sLate1 w st4 d (precVal d)) d) .ObsoleteConversion
             else sLate2 w (sLate1 w st4 d (precVal d)) d) := by
          unfold lateWarnings sLate2 sLate1 precVal
          cases hp : d.prec with
          | none => simp [cpercent]
          | some p => cases p <;> simp [cpercent]
        rw [hl]
        cases typeTable.lookup d.conv with
        | none => rfl
        | some tp =>
          simp only [bind_ok, sFinal, str_none, String.ofList_toList]
          by_cases ht : tp = "None"
          · subst ht
            cases d.key <;> rfl
          · have ht' : (tp == "None") = false := by simpa using ht
            simp only [ht, ht', Bool.false_eq_true, if_false]
            cases addArgument _ d.key _ <;> rfl

/-- `Conversion(parent, s, key=…, …)` as regenerated, called with the keyword arguments the scanner passes for `d`, = the model's
    `conversion` -/
theorem conversion_eq (w : Bool) (st : St) (s : List Char) (d : Directive) (hs : s.getLast? = some d.conv) :
    PyFmtConv.Conversion.__init__ w st s d.key d.flags (widthArgOf d) (varWidthOf d) (precArgOf d) (varPrecOf d) d.length d.conv
      = (conversion w st d).map (fun r => (r.2.toList, r.1)) := by
  rw [conversion_staged]
  simp only [PyFmtConv.Conversion.__init__, strLast, hs, bind_ok, decide_true, if_true, objectId]
  -- the flags, one by one
  refine bind_congr ?flags (fun st1 => ?_)
  case flags =>
    rw [show counterItems d.flags = (distinct d.flags).map (fun c => (c, (d.flags.count c : Int))) from rfl]
    refine forEach_map _ _ (flagLoop w d.flags d.conv) (fun _ => rfl) (fun b rest s => ?_) _ _
    simp only [ite_ok, bind_ok, Py.warn]
    -- both orientations of `count != 1`
    have hfl : ∀ x : Int, ((1 : Int) ≠ x) = (x ≠ 1) := fun x => propext ne_comm
    try simp only [hfl]
    exact flag_step w d.flags d.conv b rest s
  -- the two pairs
  refine (bind_of_ok (x := sPairs w d.flags st1) ?pairs).trans ?_
  case pairs => simp only [PyKit.forEach, ite_ok, bind_ok, Py.warn, sPairs]
  -- the width
  refine bind_congr ?width (fun r3 => ?_)
  case width =>
    generalize sPairs w d.flags st1 = st2
    simp only [sWidth, doWidth, widthVal]
    cases hw : d.width with
    | star =>
      simp only [varWidthOf, widthArgOf, hw, Option.isNone, if_true, add_argument_eq, variableWidth]
      cases addArgument st2 none ⟨.width, variableWidthType, st.items.length⟩ <;> rfl
    | num n =>
      simp only [varWidthOf, widthArgOf, hw, Bool.false_eq_true, if_false, Py.intOfOpt, bind_ok, cast_gt, Option.map]
      by_cases hn : n > SSIZE_MAX <;> simp [hn, bind_ok, bind_error]
  obtain ⟨st3, wv⟩ := r3
  simp only []
  -- the precision
  refine bind_congr ?prec (fun r4 => ?_)
  case prec =>
    simp only [sPrec, doPrec, precVal]
    cases hp : d.prec with
    | none => simp only [varPrecOf, precArgOf, hp, Bool.false_eq_true, if_false, bind_ok, Option.map]
    | some p =>
      cases p with
      | star =>
        simp only [varPrecOf, precArgOf, hp, Option.isNone, if_true, add_argument_eq, variablePrecision]
        cases addArgument st3 none ⟨.prec, variablePrecisionType, st.items.length⟩ <;> rfl
      | num n =>
        simp only [varPrecOf, precArgOf, hp, Bool.false_eq_true, if_false, cast_gt, cast_gt3, Option.map]
        by_cases hn : n > SSIZE_MAX
        · simp [hn, bind_ok, bind_error]
        · simp only [hn, decide_false, Bool.false_eq_true, if_false]
          generalize intCvt.contains d.conv = A
          by_cases hn3 : n > SSIZE_MAX - 3 <;> cases A <;> simp [hn3, bind_ok, bind_error]
  obtain ⟨st4, pv⟩ := r4
  simp only []
  -- `if prec is not None:` the two warnings
  refine (bind_of_ok (x := sLate1 w st4 d pv) ?late1).trans ?_
  case late1 => cases pv <;> simp only [sLate1, ite_ok, bind_ok, Py.warn]
  -- `if length is not None:`
  refine (bind_of_ok (x := sLate2 w (sLate1 w st4 d pv) d) ?late2).trans ?_
  case late2 => unfold sLate2; cases d.length <;> rfl
  generalize sLate2 w (sLate1 w st4 d pv) d = st6
  -- the type
  refine bind_congr ?type (fun r7 => ?_)
  case type =>
    simp only [sType, lookup_chain, ite_ok, bind_ok, Py.warn]
    generalize intCvt.contains d.conv = A
    generalize floatCvt.contains d.conv = F
    generalize "ra".toList.contains d.conv = RA
    cases A
    · simp only [Bool.false_eq_true, if_false, Bool.and_false]
      cases F
      · simp only [Bool.false_eq_true, if_false]
        by_cases hc : d.conv = 'c'
        · simp [hc, bind_ok, bind_error]
        · by_cases hs' : d.conv = 's'
          · simp [hs', bind_ok, bind_error]
          · cases RA
            · by_cases hp : d.conv = '%' <;> simp [hc, hs', hp, bind_ok, bind_error]
            · simp [hc, hs', bind_ok, bind_error]
      · simp [bind_ok, bind_error]
    · simp only [if_true, Bool.and_true]
      by_cases hu : d.conv = 'u' <;> simp [hu, bind_ok, bind_error]
  obtain ⟨st7, tp⟩ := r7
  -- the key, the registration
  refine bind_congr ?final (fun _ => rfl)
  case final =>
    simp only [sFinal, add_argument_eq, convEntry]
    have hfl : ("None".toList = tp) = (tp = "None".toList) := propext eq_comm
    try simp only [hfl]
    by_cases ht : tp = "None".toList
    · simp only [ht, decide_true, if_true]
      cases d.key <;> rfl
    · simp only [ht, decide_false, Bool.false_eq_true, if_false]

end I18n.PyFmt.Gen
