import I18n.Model.PyFmtG
/-!
# `Conversion.__init__` / `FormatString.add_argument` regenerated from `lib/strformat/python.py` equal the hand-written model
-/
set_option linter.unusedSimpArgs false
set_option linter.unusedVariables false
namespace I18n.PyFmt.Gen
open I18n I18n.PyFmt I18n.PyFmt.Py I18n.PyFmt.G I18n.Generated
open I18n.Generated.PyFormatTables

/-- a loop over `l.map f` whose body is one step of the recursive function `g` -/
theorem forEach_map {α β σ ε : Type} (f : β → α) (body : α → σ → Except ε σ) (g : List β → σ → Except ε σ)
    (hnil : ∀ s, g [] s = .ok s)
    (hcons : ∀ b rest s, g (b :: rest) s = (body (f b) s).bind (g rest)) :
    ∀ (l : List β) (s : σ), PyKit.forEach (l.map f) body s = g l s := by
  intro l
  induction l with
  | nil => intro s; simp [PyKit.forEach, hnil]
  | cons b rest ih =>
    intro s
    simp only [List.map, PyKit.forEach, hcons]
    cases body (f b) s with
    | error e => rfl
    | ok s' => exact ih s'

theorem ite_ok {ε α : Type} (c : Prop) [Decidable c] (a b : α) :
    (if c then (Except.ok a : Except ε α) else Except.ok b) = Except.ok (if c then a else b) := by
  split <;> rfl

/-- `add_argument` as regenerated, with the callers' `except IndexError: raise ArgumentIndexingMixture(s)` = the model's `addArgument` -/
theorem add_argument_eq (st : St) (key : Option (List Char)) (arg : Entry) :
    PyKit.tryExcept (PyFmtConv.add_argument st key arg) isIndexError (.error .ArgumentIndexingMixture) = addArgument st key arg := by
  cases key with
  | none =>
    simp only [PyFmtConv.add_argument, addArgument]
    cases st.map.isEmpty <;> rfl
  | some k =>
    simp only [PyFmtConv.add_argument, addArgument]
    cases st.seq.isEmpty <;> rfl

/-- `add_argument` itself: `IndexError` for a mixture, else the entry appended to the list / the insertion log -/
theorem add_argument_raw (st : St) (key : Option (List Char)) (arg : Entry) :
    PyFmtConv.add_argument st key arg =
      (match addArgument st key arg with
       | .ok st' => .ok st'
       | .error _ => .error (.crash .IndexError)) := by
  cases key with
  | none =>
    simp only [PyFmtConv.add_argument, addArgument]
    cases st.map.isEmpty <;> rfl
  | some k =>
    simp only [PyFmtConv.add_argument, addArgument]
    cases st.seq.isEmpty <;> rfl

theorem cast_gt (n m : Nat) : ((n : Int) > (m : Int)) = (n > m) := by
  apply propext; constructor <;> intro h <;> omega

theorem cast_gt3 (n : Nat) : ((n : Int) > ((SSIZE_MAX : Nat) : Int) - 3) = (n > SSIZE_MAX - 3) := by
  have h : 3 ≤ SSIZE_MAX := by decide
  apply propext; constructor <;> intro h' <;> omega

theorem cast_ne1 (n : Nat) : ((n : Int) ≠ 1) = (n ≠ 1) := by
  apply propext; constructor <;> intro h <;> omega

/-- one round of `for flag, count in flags.items():` is one step of the model's `flagLoop` -/
theorem flag_step (w : Bool) (flags : List Char) (conv b : Char) (rest : List Char) (s : St) :
    flagLoop w flags conv (b :: rest) s =
      Except.bind (if decide (b = '#') = true then
          Except.ok (if (!(octCvt ++ hexCvt ++ floatCvt).contains conv) = true then
              PyFmt.warn w (if decide (((List.count b flags : Nat) : Int) ≠ 1) = true then PyFmt.warn w s Warn.RedundantFlag else s) Warn.RedundantFlag
            else if decide (((List.count b flags : Nat) : Int) ≠ 1) = true then PyFmt.warn w s Warn.RedundantFlag else s)
        else if decide (b = '-') = true then
          Except.ok (if decide (((List.count b flags : Nat) : Int) ≠ 1) = true then PyFmt.warn w s Warn.RedundantFlag else s)
        else if "0 +".toList.contains b = true then
          Except.ok (if (!(intCvt ++ floatCvt).contains conv) = true then
              PyFmt.warn w (if decide (((List.count b flags : Nat) : Int) ≠ 1) = true then PyFmt.warn w s Warn.RedundantFlag else s) Warn.RedundantFlag
            else if decide (((List.count b flags : Nat) : Int) ≠ 1) = true then PyFmt.warn w s Warn.RedundantFlag else s)
        else (Except.error (PErr.crash Py.Exc.AssertionError) : Except PErr St)) (flagLoop w flags conv rest) := by
  simp only [flagLoop, cast_ne1, Except.bind]
  generalize (octCvt ++ hexCvt ++ floatCvt).contains conv = c1
  generalize (intCvt ++ floatCvt).contains conv = c2
  by_cases h1 : b = '#'
  · subst h1; cases c1 <;> simp
  · by_cases h2 : b = '-'
    · subst h2; simp
    · by_cases h3 : b = '0'
      · subst h3; cases c2 <;> simp
      · by_cases h4 : b = ' '
        · subst h4; cases c2 <;> simp
        · by_cases h5 : b = '+'
          · subst h5; cases c2 <;> simp
          · simp [h1, h2, h3, h4, h5]

/-- the probed type table is the `if conv in … elif …` chain of `Conversion.__init__` -/
theorem lookup_chain (conv : Char) :
    typeTable.lookup conv =
      (if intCvt.contains conv = true then some "int" else if floatCvt.contains conv = true then some "float"
       else if conv = 'c' then some "chr" else if conv = 's' then some "str" else if "ra".toList.contains conv = true then some "object"
       else if conv = '%' then some "None" else none) := by
  by_cases hall : allCvt.contains conv = true
  · have hconv : conv = '%' ∨ conv = 'E' ∨ conv = 'F' ∨ conv = 'G' ∨ conv = 'X' ∨ conv = 'a' ∨ conv = 'c' ∨ conv = 'd' ∨ conv = 'e' ∨ conv = 'f'
        ∨ conv = 'g' ∨ conv = 'i' ∨ conv = 'o' ∨ conv = 'r' ∨ conv = 's' ∨ conv = 'u' ∨ conv = 'x' := by
      simpa [allCvt] using hall
    rcases hconv with rfl | rfl | rfl | rfl | rfl | rfl | rfl | rfl | rfl | rfl | rfl | rfl | rfl | rfl | rfl | rfl | rfl <;> decide
  · have hn : conv ≠ '%' ∧ conv ≠ 'E' ∧ conv ≠ 'F' ∧ conv ≠ 'G' ∧ conv ≠ 'X' ∧ conv ≠ 'a' ∧ conv ≠ 'c' ∧ conv ≠ 'd' ∧ conv ≠ 'e' ∧ conv ≠ 'f'
        ∧ conv ≠ 'g' ∧ conv ≠ 'i' ∧ conv ≠ 'o' ∧ conv ≠ 'r' ∧ conv ≠ 's' ∧ conv ≠ 'u' ∧ conv ≠ 'x' := by
      simpa [allCvt] using hall
    obtain ⟨h1, h2, h3, h4, h5, h6, h7, h8, h9, h10, h11, h12, h13, h14, h15, h16, h17⟩ := hn
    simp only [typeTable, List.lookup, beq_false_of_ne h1, beq_false_of_ne h2, beq_false_of_ne h3, beq_false_of_ne h4, beq_false_of_ne h5,
      beq_false_of_ne h6, beq_false_of_ne h7, beq_false_of_ne h8, beq_false_of_ne h9, beq_false_of_ne h10, beq_false_of_ne h11, beq_false_of_ne h12,
      beq_false_of_ne h13, beq_false_of_ne h14, beq_false_of_ne h15, beq_false_of_ne h16, beq_false_of_ne h17]
    simp [intCvt, floatCvt, *]

theorem cpercent (conv : Char) : (conv == 'c' || conv == '%') = "c%".toList.contains conv := by
  cases h1 : (conv == 'c') <;> cases h2 : (conv == '%') <;> simp_all

set_option hygiene false
/-- the last stage (the class of the conversion character is known: hypotheses in the context): late warnings, the type, the key,
    the registration -/
syntax "conv_key" : tactic
macro_rules
  | `(tactic| conv_key) => `(tactic| (
      simp only [Py.warn, ite_ok, add_argument_eq, Option.isSome, Bool.false_eq_true, if_false, if_true, Bool.and_false, Bool.false_and,
        Bool.true_and, Bool.and_true, decide_true, decide_false, *]
      cases length <;> cases key <;>
        (simp [ite_ok, add_argument_eq, Except.map, convEntry]
         try (split <;> simp_all [Except.map])
         all_goals try (
           rename_i heq
           obtain ⟨rfl, rfl⟩ := heq
           simp [Except.map]
           try (split <;> simp_all [Except.map])))))

/-- the precision stage -/
syntax "conv_prec " term : tactic
macro_rules
  | `(tactic| conv_prec $st) => `(tactic| (
      cases prec with
      | none =>
        simp only [varPrecOf, precArgOf, Bool.false_eq_true, if_false, Option.map]
        conv_key
      | some p =>
        cases p with
        | star =>
          simp only [varPrecOf, precArgOf, Option.isNone, if_true, add_argument_eq, variablePrecision]
          cases ha : addArgument $st none ⟨.prec, variablePrecisionType, st.items.length⟩ with
          | error e => simp [Except.map]
          | ok st4 =>
            simp only []
            conv_key
        | num n =>
          simp only [varPrecOf, precArgOf, Bool.false_eq_true, if_false, cast_gt, cast_gt3, Option.map]
          by_cases hn : n > SSIZE_MAX
          · simp [hn, Except.map]
          · simp only [hn, decide_false, decide_true, Bool.false_eq_true, if_false, Bool.and_false, Bool.and_true]
            by_cases hn3 : n > SSIZE_MAX - 3
            · simp only [hn3, decide_true, Bool.and_true]
              by_cases hA' : intCvt.contains conv = true
              · first
                  | exact absurd hA' hA
                  | (simp only [hA', if_true]; simp [Except.map])
              · first
                  | exact absurd hA hA'
                  | (simp only [hA', Bool.false_eq_true, if_false]
                     conv_key)
            · simp only [hn3, decide_false, Bool.and_false, Bool.false_eq_true, if_false]
              conv_key))

/-- the width stage -/
syntax "conv_width" : tactic
macro_rules
  | `(tactic| conv_width) => `(tactic| (
      cases width with
      | star =>
        simp only [varWidthOf, widthArgOf, Option.isNone, if_true, add_argument_eq, variableWidth]
        cases ha : addArgument st2 none ⟨.width, variableWidthType, st.items.length⟩ with
        | error e => simp [Except.map]
        | ok st3 =>
          simp only []
          conv_prec st3
      | num n =>
        simp only [varWidthOf, widthArgOf, intOfOpt, Bool.false_eq_true, if_false, cast_gt, Option.map]
        by_cases hn : n > SSIZE_MAX
        · simp [hn, Except.map]
        · simp only [hn, decide_false, Bool.false_eq_true, if_false]
          conv_prec st2))

set_option maxHeartbeats 4000000 in
theorem conversion_eq (w : Bool) (st : St) (s : List Char) (d : Directive) (hs : s.getLast? = some d.conv) :
    PyFmtConv.Conversion.__init__ w st s d.key d.flags (widthArgOf d) (varWidthOf d) (precArgOf d) (varPrecOf d) d.length d.conv
      = (conversion w st d).map (fun r => (r.2.toList, r.1)) := by
  obtain ⟨key, flags, width, prec, length, conv⟩ := d
  simp only [PyFmtConv.Conversion.__init__, conversion, strLast, hs, objectId, decide_true, if_true, ite_ok, checkFlags]
  rw [show counterItems flags = (distinct flags).map (fun c => (c, (flags.count c : Int))) from rfl,
    forEach_map _ _ (flagLoop w flags conv) (fun _ => rfl) ?hcons]
  case hcons =>
    intro b rest s
    dsimp only [Py.warn]
    exact flag_step w flags conv b rest s
  cases hfl : flagLoop w flags conv (distinct flags) st with
  | error e => rfl
  | ok st1 =>
    simp only [PyKit.forEach, ite_ok, Py.warn]
    generalize (if (flags.contains '+' && flags.contains ' ') = true then _ else _) = st2
    simp only [lookup_chain, doWidth, doPrec, lateWarnings, cpercent]
    clear hfl hs
    -- the class of the conversion character
    by_cases hA : intCvt.contains conv = true
    · by_cases hu : conv = 'u'
      · conv_width
      · conv_width
    · by_cases hf : floatCvt.contains conv = true
      · conv_width
      · by_cases hc : conv = 'c'
        · conv_width
        · by_cases hs' : conv = 's'
          · conv_width
          · by_cases hra : "ra".toList.contains conv = true
            · conv_width
            · by_cases hp : conv = '%'
              · conv_width
              · conv_width

end I18n.PyFmt.Gen
