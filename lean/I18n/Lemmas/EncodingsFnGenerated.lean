import I18n.Generated.EncodingsFn
/-!
# `lib/encodings.py` regenerated (`Generated/EncodingsFn.lean`) equals the model of `Model/Charset.lean`
-/
set_option linter.unusedSimpArgs false
set_option linter.unusedVariables false
namespace I18n.Charset.EGen
open I18n I18n.Charset I18n.Generated I18n.Generated.Charset

theorem lit_iso_underscore : EPy.lit "iso_" = isoUnderscore := by decide
theorem lit_iso_hyphen : EPy.lit "iso-" = isoHyphen := by decide

/-- `is_portable_encoding(encoding, python=…)` as regenerated = `isPortable` -/
theorem is_portable_eq (tbl : List (Name × Bool)) (encoding : Name) (python : Bool) :
    EncodingsFn.is_portable_encoding tbl encoding python = .ok (isPortable tbl python encoding) := by
  simp only [EncodingsFn.is_portable_encoding, isPortable, normalise, lit_iso_underscore, lit_iso_hyphen]
  by_cases h : isoUnderscore.isPrefixOf (lower encoding) = true
  · simp only [h, if_true]
    cases python
    · simp [EPy.tableHas]
    · simp only [if_true, EPy.tableGet]
      cases assoc? (isoHyphen ++ List.drop 4 (lower encoding)) tbl with
      | none => simp
      | some v => cases v <;> simp [EPy.PVal.ofBool]
  · simp only [h, if_false, Bool.false_eq_true]
    cases python
    · simp [EPy.tableHas]
    · simp only [if_true, EPy.tableGet]
      cases assoc? (lower encoding) tbl with
      | none => simp
      | some v => cases v <;> simp [EPy.PVal.ofBool]

/-- `propose_portable_encoding(encoding)` as regenerated = `propose` (the flag `python` is deleted unread) -/
theorem propose_eq (tbl : List (Name × Bool)) (c2e : List (Name × Name)) (registry : Name → Option Name) (encoding : Name) (python : Bool) :
    EncodingsFn.propose_portable_encoding tbl c2e registry encoding python =
      (match propose tbl c2e registry encoding with
       | .ok r => .ok r
       | .error () => .error .assertion) := by
  simp only [EncodingsFn.propose_portable_encoding, propose, EPy.codecsLookup, EPy.dictIndex, is_portable_eq]
  cases registry encoding with
  | none => simp [EPy.Exn.isLookupError]
  | some codec =>
    simp only []
    cases assoc? codec c2e with
    | none => simp [EPy.Exn.isLookupError]
    | some ne =>
      simp only []
      cases isPortable tbl true ne <;> simp

/-- `is_ascii_compatible_encoding(encoding, missing_ok=…)` as regenerated = `isAsciiCompatible` on the outcome of decoding the
    regenerated `_interesting_ascii_bytes`, compared with the regenerated `_interesting_ascii_str` -/
theorem is_ascii_eq (dec : List Nat → Name → Dec) (encoding : Name) (missingOk : Bool) :
    EncodingsFn.is_ascii_compatible_encoding dec encoding missingOk =
      (match isAsciiCompatible EncodingsFn.interesting_ascii_str (dec EncodingsFn.interesting_ascii_bytes encoding) missingOk with
       | .ok b => .ok b
       | .error () => .error .encodingLookup) := by
  simp only [EncodingsFn.is_ascii_compatible_encoding, isAsciiCompatible, EPy.decodeAscii]
  cases dec EncodingsFn.interesting_ascii_bytes encoding with
  | text cs =>
    have : (EPy.StrOrBytes.str cs == EPy.StrOrBytes.str EncodingsFn.interesting_ascii_str) = (cs == EncodingsFn.interesting_ascii_str) := by
      by_cases h : cs = EncodingsFn.interesting_ascii_str
      · subst h; simp
      · have h' : ¬ (EPy.StrOrBytes.str cs = EPy.StrOrBytes.str EncodingsFn.interesting_ascii_str) := fun hh => h (EPy.StrOrBytes.str.inj hh)
        rw [beq_eq_false_iff_ne.mpr h', beq_eq_false_iff_ne.mpr h]
    simp [EPy.StrOrBytes.isBytes, EPy.StrOrBytes.eqStr, this]
  | ude => simp [EPy.Exn.isUnicodeDecodeError]
  | lookup => cases missingOk <;> simp [EPy.Exn.isUnicodeDecodeError, EPy.Exn.isLookupError]
  | other => cases missingOk <;> simp [EPy.Exn.isUnicodeDecodeError, EPy.Exn.isLookupError, EPy.Exn.isException]
  | notstr => cases missingOk <;> simp [EPy.StrOrBytes.isBytes, EPy.Exn.isUnicodeDecodeError, EPy.Exn.isLookupError, EPy.Exn.isException]

/-- the loaders' outcome in the kit's vocabulary -/
def ofLoaded : Loaded → Except EPy.Exn (List Nat)
  | .text cs => .ok cs
  | .ude s e => .error (.unicodeDecode s e)
  | .crash => .error .other

/-- `encodings.decode(data, encoding)` as regenerated = `loaderDecode` -/
theorem decode_eq (rawdec : List UInt8 → Name → RawDecode) (data : List UInt8) (encoding : Name) :
    EncodingsFn.decode rawdec data encoding = ofLoaded (loaderDecode data.length (rawdec data encoding)) := by
  simp only [EncodingsFn.decode, loaderDecode, EPy.decodeRaw]
  cases rawdec data encoding <;> simp [ofLoaded, loaderDecode, EPy.Exn.isUnicodeDecodeError, EPy.Exn.isUnicodeError]

/-- `charmap_encoding(encoding)` as regenerated: the file `data/charmaps/<ENCODING>` decides, the codec carries the file's table as it
    is and `charmap_build` of it -/
theorem charmap_encoding_eq (files : Name → Option (List Nat)) (encoding : Name) :
    EncodingsFn.charmap_encoding files encoding =
      (match files (upper encoding) with
       | some table => .ok (.charmap encoding table (encLookup table))
       | none => .error .encodingLookup) := by
  simp only [EncodingsFn.charmap_encoding, EPy.openCharmap]
  cases files (upper encoding) <;> simp [EPy.Exn.isFileNotFound]

/-- `_codec_search_function(encoding)` as regenerated -/
theorem codec_search_eq (tbl : List (Name × Bool)) (extra : List Name) (unm : List (Name × Name)) (files : Name → Option (List Nat))
    (encoding : Name) :
    EncodingsFn._codec_search_function tbl extra unm files encoding =
      .ok (let e := (assoc? encoding unm).getD encoding
           if assoc? e tbl == some false || extra.contains e then
             (match files (upper e) with
              | some table => some (.charmap e table (encLookup table))
              | none => some (.iconv e))
           else none) := by
  simp only [EncodingsFn._codec_search_function, EPy.dictGetD, EPy.tableGet, charmap_encoding_eq, EncodingsFn.iconv_encoding]
  cases h1 : assoc? ((assoc? encoding unm).getD encoding) tbl with
  | none =>
    by_cases h2 : ((assoc? encoding unm).getD encoding) ∈ extra
    · cases files (upper ((assoc? encoding unm).getD encoding)) <;> simp [h2, EPy.Exn.isEncodingLookupError]
    · simp [h2]
  | some v =>
    cases v
    · cases files (upper ((assoc? encoding unm).getD encoding)) <;> simp [EPy.PVal.ofBool, EPy.Exn.isEncodingLookupError]
    · by_cases h2 : ((assoc? encoding unm).getD encoding) ∈ extra
      · cases files (upper ((assoc? encoding unm).getD encoding)) <;> simp [h2, EPy.PVal.ofBool, EPy.Exn.isEncodingLookupError]
      · simp [h2, EPy.PVal.ofBool]

end I18n.Charset.EGen
