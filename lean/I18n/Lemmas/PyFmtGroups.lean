import I18n.Lemmas.PyFmtLoop
/-!
# `_map_arguments.items()` from the insertion log; the canonical arguments have the reported types
-/
set_option linter.unusedSimpArgs false
namespace I18n.PyFmt
open I18n.Spec.CPyPercent I18n.Spec.PyFmtArgs
open I18n.Generated.PyFormatTables (typeTable variableWidthType variablePrecisionType)

theorem distinctKeys_mem : ∀ (l : List (List Char)) x, x ∈ l → x ∈ distinctKeys l := by
  intro l
  induction l with
  | nil => intro x h; cases h
  | cons k ks ih =>
    intro x h
    simp only [distinctKeys]
    by_cases hx : x = k
    · subst hx; exact List.mem_cons_self
    · rcases List.mem_cons.1 h with h | h
      · exact absurd h hx
      · exact List.mem_cons_of_mem _ (List.mem_filter.2 ⟨ih x h, by simpa using hx⟩)

theorem distinctKeys_sub : ∀ (l : List (List Char)) x, x ∈ distinctKeys l → x ∈ l := by
  intro l
  induction l with
  | nil => intro x h; cases h
  | cons k ks ih =>
    intro x h
    simp only [distinctKeys, List.mem_cons] at h
    rcases h with rfl | h
    · exact List.mem_cons_self
    · exact List.mem_cons_of_mem _ (ih x (List.mem_filter.1 h).1)

theorem groups_nil {log : List (List Char × Entry)} (h : groups log = []) : log = [] := by
  cases log with
  | nil => rfl
  | cons p ps => simp [groups, distinctKeys] at h

/-- every logged entry is in the group of its key -/
theorem groups_mem {log : List (List Char × Entry)} {k : List Char} {e : Entry} (h : (k, e) ∈ log) :
    ∃ es, (k, es) ∈ groups log ∧ e ∈ es := by
  refine ⟨(log.filter (fun p => p.1 == k)).map (·.2), ?_, ?_⟩
  · simp only [groups, List.mem_map]
    exact ⟨k, distinctKeys_mem _ _ (List.mem_map.2 ⟨(k, e), h, rfl⟩), rfl⟩
  · exact List.mem_map.2 ⟨(k, e), List.mem_filter.2 ⟨h, by simp⟩, rfl⟩

/-- a group holds exactly the logged entries of its key -/
theorem groups_spec {log : List (List Char × Entry)} {k : List Char} {es : List Entry} (h : (k, es) ∈ groups log) :
    es = (log.filter (fun p => p.1 == k)).map (·.2) ∧ ∃ e, (k, e) ∈ log := by
  simp only [groups, List.mem_map] at h
  obtain ⟨k', hk', heq⟩ := h
  cases heq
  refine ⟨rfl, ?_⟩
  obtain ⟨p, hp, rfl⟩ := List.mem_map.1 (distinctKeys_sub _ _ hk')
  exact ⟨p.2, hp⟩

/-! ## the entries the loop records -/

def goodTypes : List String := ["int", "float", "chr", "str", "object"]

/-- a recorded conversion has one of the five argument types -/
def Good (e : Entry) : Prop := e.kind = .conv → e.type ∈ goodTypes

structure Inv (st : St) : Prop where
  excl : st.seq = [] ∨ st.map = []
  seq : ∀ e ∈ st.seq, Good e
  map : ∀ p ∈ st.map, p.2.kind = .conv ∧ Good p.2

theorem typeTable_good {c : Char} {tp : String} (hl : typeTable.lookup c = some tp) (hn : tp ≠ "None") : tp ∈ goodTypes := by
  have hm := lookup_mem _ _ _ hl
  simp only [typeTable, List.mem_cons, Prod.mk.injEq, List.not_mem_nil, or_false] at hm
  rcases hm with ⟨_, rfl⟩ | ⟨_, rfl⟩ | ⟨_, rfl⟩ | ⟨_, rfl⟩ | ⟨_, rfl⟩ | ⟨_, rfl⟩ | ⟨_, rfl⟩ | ⟨_, rfl⟩ | ⟨_, rfl⟩ |
    ⟨_, rfl⟩ | ⟨_, rfl⟩ | ⟨_, rfl⟩ | ⟨_, rfl⟩ | ⟨_, rfl⟩ | ⟨_, rfl⟩ | ⟨_, rfl⟩ | ⟨_, rfl⟩ <;> first | exact absurd rfl hn | (simp [goodTypes])

theorem seqAdd_good {d : Directive} {tp : String} {parent : Nat} (hl : typeTable.lookup d.conv = some tp) :
    ∀ e ∈ seqAdd d tp parent, Good e := by
  intro e he
  simp only [seqAdd, List.mem_append] at he
  rcases he with (he | he) | he
  · cases hw : d.width with
    | star => rw [hw] at he; simp only [widthEntries, List.mem_singleton] at he; subst he; intro hk; cases hk
    | num n => rw [hw] at he; simp [widthEntries] at he
  · cases hp : d.prec with
    | none => rw [hp] at he; simp [precEntries] at he
    | some q =>
      cases q with
      | star => rw [hp] at he; simp only [precEntries, List.mem_singleton] at he; subst he; intro hk; cases hk
      | num n => rw [hp] at he; simp [precEntries] at he
  · cases hk : d.key with
    | some k => rw [hk] at he; simp at he
    | none =>
      rw [hk] at he
      simp only [] at he
      split at he
      · cases he
      · rename_i hn
        simp only [List.mem_singleton] at he
        subst he
        intro _
        exact typeTable_good hl hn

theorem mapAdd_good {d : Directive} {tp : String} {parent : Nat} (hl : typeTable.lookup d.conv = some tp) :
    ∀ p ∈ mapAdd d tp parent, p.2.kind = .conv ∧ Good p.2 := by
  intro p hp
  simp only [mapAdd] at hp
  cases hk : d.key with
  | none => rw [hk] at hp; cases hp
  | some k =>
    rw [hk] at hp
    simp only [] at hp
    split at hp
    · cases hp
    · rename_i hn
      simp only [List.mem_singleton] at hp
      subst hp
      exact ⟨rfl, fun _ => typeTable_good hl hn⟩

theorem conversion_inv {w : Bool} {st st' : St} {d : Directive} {tp : String} (h : conversion w st d = .ok (st', tp))
    (hi : Inv st) : Inv st' := by
  obtain ⟨hl, _, _, _, h1, h2⟩ := conversion_ok h
  obtain ⟨a, b⟩ := conversion_seq_map h
  refine ⟨?_, ?_, ?_⟩
  · by_cases hm : mapAdd d tp st.items.length = []
    · by_cases hs : seqAdd d tp st.items.length = []
      · rw [a, b, hm, hs, List.append_nil, List.append_nil]; exact hi.excl
      · right; rw [b, hm, List.append_nil]; exact h1 hs
    · obtain ⟨x, y⟩ := h2 hm
      left; rw [a, x, y]; rfl
  · intro e he
    rw [a] at he
    rcases List.mem_append.1 he with he | he
    · exact hi.seq e he
    · exact seqAdd_good hl e he
  · intro p hp
    rw [b] at hp
    rcases List.mem_append.1 hp with hp | hp
    · exact hi.map p hp
    · exact mapAdd_good hl p hp

theorem loop_inv (w : Bool) : ∀ (fuel : Nat) (s text : List Char) (st st' : St), loop w fuel s text st = .ok st' →
    Inv st → Inv st' := by
  intro fuel
  induction fuel with
  | zero => intro s text st st' h; simp only [loop] at h; cases h
  | succ fuel ih =>
    intro s text st st' h hi
    have hflush : ∀ text, Inv (flush text st) := fun text =>
      ⟨by simpa using hi.excl, by simpa using hi.seq, by simpa using hi.map⟩
    cases s with
    | nil => simp only [loop] at h; cases h; exact hflush _
    | cons c cs =>
      simp only [loop] at h
      split at h
      · exact ih _ _ _ _ h hi
      · cases hs : scanDirective cs with
        | none => rw [hs] at h; cases h
        | some p =>
          obtain ⟨d, rest⟩ := p
          rw [hs] at h; simp only [] at h
          cases hc : conversion w (flush text st) d with
          | error e => rw [hc] at h; cases h
          | ok q =>
            obtain ⟨st1, tp⟩ := q
            rw [hc] at h; simp only [] at h
            have h1 := conversion_inv hc (hflush _)
            exact ih _ _ _ _ h ⟨h1.excl, h1.seq, h1.map⟩

theorem inv_init : Inv St.init := ⟨Or.inl rfl, fun e he => (by cases he), fun p hp => (by cases hp)⟩

/-! ## the canonical arguments -/

theorem okFor_default {e : Entry} (h : Good e) : okFor e (defaultVal e) := by
  obtain ⟨kind, type, parent⟩ := e
  cases kind with
  | width => exact ⟨1, rfl, by decide, by decide⟩
  | prec => exact ⟨1, rfl, by decide, by decide⟩
  | conv =>
    have := h rfl
    simp only [goodTypes, List.mem_cons, List.not_mem_nil, or_false] at this
    rcases this with rfl | rfl | rfl | rfl | rfl <;> simp [okFor, defaultVal]

/-- for a conversion, having the reported type depends on the type alone -/
theorem okFor_same_type {e e0 : Entry} (hk : e.kind = .conv) (hk0 : e0.kind = .conv) (ht : e.type = e0.type) (h0 : Good e0) :
    okFor e (defaultVal e0) := by
  obtain ⟨kind, type, parent⟩ := e
  obtain ⟨kind0, type0, parent0⟩ := e0
  dsimp only at hk hk0 ht
  subst hk hk0 ht
  have := okFor_default h0
  simpa [okFor, defaultVal] using this

theorem okAll_default : ∀ (es : List Entry), (∀ e ∈ es, Good e) → okAll es (es.map defaultVal) := by
  intro es
  induction es with
  | nil => intro _; trivial
  | cons e es ih =>
    intro h
    exact ⟨okFor_default (h e List.mem_cons_self), ih (fun x hx => h x (List.mem_cons_of_mem _ hx))⟩

theorem lookup_groups (g : List Char → List Entry) (f : List Entry → Val) : ∀ (ks : List (List Char)) (k : List Char), k ∈ ks →
    Spec.CPyPercent.lookup ((ks.map fun k => (k, g k)).map fun (p : List Char × List Entry) => (p.1, f p.2)) k = some (f (g k)) := by
  intro ks
  induction ks with
  | nil => intro k h; cases h
  | cons x xs ih =>
    intro k h
    simp only [List.map_cons, Spec.CPyPercent.lookup]
    by_cases hx : x = k
    · subst hx; simp
    · simp only [hx, if_false]
      rcases List.mem_cons.1 h with h | h
      · exact absurd h.symm hx
      · exact ih k h

/-! ## `FormatString.__init__` around the loop -/

theorem parse_loop {s : List Char} {r : Result} (h : parse s = .ok r) :
    ∃ st, loop true (s.length + 1) s [] St.init = .ok st ∧ r.seq = st.seq ∧ r.map = groups st.map ∧
      (groups st.map).all (fun g => sameType g.2) = true := by
  unfold parse parseW at h
  cases hl : loop true (s.length + 1) s [] St.init with
  | error e => rw [hl] at h; cases h
  | ok st =>
    rw [hl] at h
    simp only [] at h
    split at h
    · rename_i hall; cases h; exact ⟨st, rfl, rfl, rfl, hall⟩
    · cases h

/-- the error of `parse` is the error of the loop or `ArgumentTypeMismatch` -/
theorem parse_error {s : List Char} {e : PErr} (h : parse s = .error e) :
    loop true (s.length + 1) s [] St.init = .error e ∨ e = .ArgumentTypeMismatch := by
  unfold parse parseW at h
  cases hl : loop true (s.length + 1) s [] St.init with
  | error e' => rw [hl] at h; cases h; exact Or.inl rfl
  | ok st =>
    rw [hl] at h
    simp only [] at h
    split at h
    · cases h
    · cases h; exact Or.inr rfl


end I18n.PyFmt
