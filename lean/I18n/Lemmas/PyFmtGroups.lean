import I18n.Lemmas.PyFmtLoop
/-!
# `_map_arguments.items()` from the insertion log; the canonical arguments have the reported types
-/
set_option linter.unusedSimpArgs false
namespace I18n.PyFmt
open I18n.Spec.CPyPercent I18n.Spec.PyFmtArgs
open I18n.Generated.PyFormatTables (typeTable variableWidthType variablePrecisionType)

theorem distinctKeys_mem : ∀ (l : List (List Char)) x, x ∈ l → x ∈ distinctKeys l := by
  intro l
  induction l with
  | nil => intro x h; cases h
  | cons k ks ih =>
    intro x h
    simp only [distinctKeys]
    by_cases hx : x = k
    · subst hx; exact List.mem_cons_self
    · rcases List.mem_cons.1 h with h | h
      · exact absurd h hx
      · exact List.mem_cons_of_mem _ (List.mem_filter.2 ⟨ih x h, by simpa using hx⟩)

theorem distinctKeys_sub : ∀ (l : List (List Char)) x, x ∈ distinctKeys l → x ∈ l := by
  intro l
  induction l with
  | nil => intro x h; cases h
  | cons k ks ih =>
    intro x h
    simp only [distinctKeys, List.mem_cons] at h
    rcases h with rfl | h
    · exact List.mem_cons_self
    · exact List.mem_cons_of_mem _ (ih x (List.mem_filter.1 h).1)

theorem groups_nil {log : List (List Char × Entry)} (h : groups log = []) : log = [] := by
  cases log with
  | nil => rfl
  | cons p ps => simp [groups, distinctKeys] at h

/-- every logged entry is in the group of its key -/
theorem groups_mem {log : List (List Char × Entry)} {k : List Char} {e : Entry} (h : (k, e) ∈ log) :
    ∃ es, (k, es) ∈ groups log ∧ e ∈ es := by
  refine ⟨(log.filter (fun p => p.1 == k)).map (·.2), ?_, ?_⟩
  · simp only [groups, List.mem_map]
    exact ⟨k, distinctKeys_mem _ _ (List.mem_map.2 ⟨(k, e), h, rfl⟩), rfl⟩
  · exact List.mem_map.2 ⟨(k, e), List.mem_filter.2 ⟨h, by simp⟩, rfl⟩

/-- a group holds exactly the logged entries of its key -/
theorem groups_spec {log : List (List Char × Entry)} {k : List Char} {es : List Entry} (h : (k, es) ∈ groups log) :
    es = (log.filter (fun p => p.1 == k)).map (·.2) ∧ ∃ e, (k, e) ∈ log := by
  simp only [groups, List.mem_map] at h
  obtain ⟨k', hk', heq⟩ := h
  cases heq
  refine ⟨rfl, ?_⟩
  obtain ⟨p, hp, rfl⟩ := List.mem_map.1 (distinctKeys_sub _ _ hk')
  exact ⟨p.2, hp⟩

end I18n.PyFmt
