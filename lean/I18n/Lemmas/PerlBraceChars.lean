import I18n.Model.PerlBrace
import I18n.Spec.PerlBraceRef
/-
Character classes: the early-exit look-up of the models is plain membership in the generated tables (they are sorted), and
the facts about particular characters that the scanners' determinism rests on.
-/
namespace I18n.BraceChars
open I18n.Spec.PerlBraceRef (inRanges Word Digit)
open I18n.Generated.PyBraceTables (wordRanges digitRanges decimalRanges)

/-- sorted, non-overlapping, every range non-empty, all starts ≥ `lo` -/
def sortedFrom : Nat → List (Nat × Nat) → Bool
  | _, [] => true
  | lo, (a, b) :: rs => decide (lo ≤ a) && decide (a ≤ b) && sortedFrom (b + 1) rs

theorem below_sorted (rs : List (Nat × Nat)) : ∀ lo n, sortedFrom lo rs = true → n < lo →
    inRanges rs n = false ∧ inSorted rs n = false := by
  induction rs with
  | nil => intro lo n _ _; simp [inRanges, inSorted]
  | cons r rs ih =>
    obtain ⟨a, b⟩ := r
    intro lo n h hn
    simp only [sortedFrom, Bool.and_eq_true, decide_eq_true_eq] at h
    obtain ⟨⟨h1, h2⟩, h3⟩ := h
    have := ih (b + 1) n h3 (by omega)
    constructor
    · have h4 := this.1
      simp only [inRanges] at h4 ⊢
      simp only [List.any_cons, h4, Bool.or_false]
      simp; omega
    · simp only [inSorted]
      have : n < a := by omega
      simp [this]

theorem inSorted_eq (rs : List (Nat × Nat)) : ∀ lo, sortedFrom lo rs = true → ∀ n, inSorted rs n = inRanges rs n := by
  induction rs with
  | nil => intro lo _ n; simp [inRanges, inSorted]
  | cons r rs ih =>
    obtain ⟨a, b⟩ := r
    intro lo h n
    simp only [sortedFrom, Bool.and_eq_true, decide_eq_true_eq] at h
    obtain ⟨⟨h1, h2⟩, h3⟩ := h
    simp only [inSorted, inRanges, List.any_cons]
    by_cases hna : n < a
    · have := (below_sorted rs (b + 1) n h3 (by omega)).1
      simp only [inRanges] at this
      simp [hna, this]; omega
    · by_cases hnb : n ≤ b
      · simp [hna, hnb]; omega
      · have := ih (b + 1) h3 n
        simp only [inRanges] at this
        simp [hna, hnb, this]

theorem wordRanges_sorted : sortedFrom 0 wordRanges = true := by decide +kernel
theorem digitRanges_sorted : sortedFrom 0 digitRanges = true := by decide +kernel

/-- the model's `\w` is membership in the interpreter's table -/
theorem isWord_iff (c : Char) : isWord c = true ↔ Word c := by
  simp only [isWord, Word, inSorted_eq _ 0 wordRanges_sorted]

theorem isDigit_iff (c : Char) : isDigit c = true ↔ Digit c := by
  simp only [isDigit, Digit, inSorted_eq _ 0 digitRanges_sorted]

theorem isIdStart_iff (c : Char) : isIdStart c = true ↔ (Word c ∧ ¬ Digit c) := by
  simp only [isIdStart, Bool.and_eq_true, Bool.not_eq_true', ← isWord_iff, ← isDigit_iff]
  cases isDigit c <;> simp

/-- `str.isdecimal` and `\d` are the same table -/
theorem decimal_eq_digit : decimalRanges = digitRanges := by decide +kernel

theorem word_ne_open {c : Char} (h : isWord c = true) : c ≠ '{' := by
  rintro rfl; revert h; decide
theorem word_ne_close {c : Char} (h : isWord c = true) : c ≠ '}' := by
  rintro rfl; revert h; decide
theorem word_ne_colon {c : Char} (h : isWord c = true) : c ≠ ':' := by
  rintro rfl; revert h; decide
theorem word_ne_bang {c : Char} (h : isWord c = true) : c ≠ '!' := by
  rintro rfl; revert h; decide
theorem word_ne_dot {c : Char} (h : isWord c = true) : c ≠ '.' := by
  rintro rfl; revert h; decide
theorem word_ne_lbracket {c : Char} (h : isWord c = true) : c ≠ '[' := by
  rintro rfl; revert h; decide
theorem word_ne_rbracket {c : Char} (h : isWord c = true) : c ≠ ']' := by
  rintro rfl; revert h; decide

theorem idStart_word {c : Char} (h : isIdStart c = true) : isWord c = true := by
  simp only [isIdStart, Bool.and_eq_true] at h; exact h.1

end I18n.BraceChars
