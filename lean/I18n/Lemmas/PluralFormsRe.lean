import I18n.Model.CheckPlurals
import I18n.Generated.PluralForms
/-!
The header scanner of the model (`CheckPlurals.matchHere`, `CheckPlurals.search`) computes exactly what Python's
backtracking engine computes for the LIVE pattern of `gettext._parse_plural_forms` (its `re._parser` tree, dumped
by tools/translate/pluralforms2lean.py), under the reference semantics `Spec.PluralFormsRe` — including the
leftmost-start rule of `search`, greedy repetition and the two capture groups.
-/
namespace I18n.CheckPlurals
open I18n I18n.Spec.PluralFormsRe I18n.PluralParse

/-! ### the expected tree, in named parts -/

def litSeq (cs : List Char) (t : Re) : Re := cs.foldr (fun c t => Re.seq (.lit c.toNat) t) t

def digit19 : Cls := ⟨false, [.range 49 57]⟩
def digit09 : Cls := ⟨false, [.range 48 57]⟩
def blankCls : Cls := ⟨false, [.chr 9, .chr 32]⟩
def notSemi : Cls := ⟨true, [.chr 59]⟩
/-- `([1-9][0-9]*)` -/
def grp1 : Re := .group 1 (.seq (.set digit19) (.rep digit09 0 none))
/-- `([^;]+);?` -/
def tailRe : Re := .seq (.group 2 (.rep notSemi 1 none)) (.opt (.lit 59))
/-- `plural=([^;]+);?` -/
def pluralRe : Re := litSeq "plural=".toList tailRe
/-- `[ \t]*plural=([^;]+);?` -/
def blanksRe : Re := .seq (.rep blankCls 0 none) pluralRe
/-- `;[ \t]*plural=([^;]+);?` -/
def afterN : Re := .seq (.lit 59) blanksRe
/-- `nplurals=([1-9][0-9]*);[ \t]*plural=([^;]+);?` -/
def headerRe : Re := litSeq "nplurals=".toList (.seq grp1 afterN)

/-- the tree dumped from the live pattern is the expected one -/
theorem headerRe_eq : Generated.PluralForms.headerRe = headerRe := by decide

/-! ### characters -/

theorem char_le_iff (a b : Char) : a ≤ b ↔ a.toNat ≤ b.toNat := by
  rw [Char.le_def, UInt32.le_iff_toNat_le]; rfl

theorem toNat_beq (c d : Char) : (c.toNat == d.toNat) = (c == d) := by
  rw [Bool.eq_iff_iff]; simp only [beq_iff_eq]
  exact Char.toNat_inj

theorem digit09_has (c : Char) : digit09.has c = isDigit c := by
  simp only [digit09, Cls.has, ClsItem.has, isDigit, List.any_cons, List.any_nil, Bool.or_false, Bool.bne_false, char_le_iff]
  rfl

theorem digit19_has (c : Char) : digit19.has c = true ↔ '1' ≤ c ∧ c ≤ '9' := by
  simp only [digit19, Cls.has, ClsItem.has, List.any_cons, List.any_nil, Bool.or_false, Bool.bne_false, char_le_iff,
    Bool.and_eq_true, decide_eq_true_eq]
  exact Iff.rfl

theorem digit19_digit09 (c : Char) (h : digit19.has c = true) : isDigit c = true := by
  rw [digit19_has] at h
  simp only [isDigit, Bool.and_eq_true, decide_eq_true_eq, char_le_iff] at *
  have : ('0' : Char).toNat = 48 := rfl
  have : ('1' : Char).toNat = 49 := rfl
  omega

def isBlank (c : Char) : Bool := c == ' ' || c == '\t'

theorem blankCls_has (c : Char) : blankCls.has c = isBlank c := by
  simp only [blankCls, Cls.has, ClsItem.has, isBlank, List.any_cons, List.any_nil, Bool.or_false, Bool.bne_false]
  have h1 : (c.toNat == 9) = (c == '\t') := toNat_beq c '\t'
  have h2 : (c.toNat == 32) = (c == ' ') := toNat_beq c ' '
  rw [h1, h2, Bool.or_comm]

theorem notSemi_has (c : Char) : notSemi.has c = !(c == ';') := by
  simp only [notSemi, Cls.has, ClsItem.has, List.any_cons, List.any_nil, Bool.or_false]
  have : (c.toNat == 59) = (c == ';') := toNat_beq c ';'
  rw [this]; cases (c == ';') <;> rfl

/-! ### the model's spans are `spanLen` -/

theorem spanLen_le (p : Char → Bool) (s : List Char) : spanLen p s ≤ s.length := by
  induction s with
  | nil => simp [spanLen]
  | cons c r ih => simp only [spanLen]; split <;> simp <;> omega

theorem spanLen_congr {p q : Char → Bool} (h : ∀ c, p c = q c) (s : List Char) : spanLen p s = spanLen q s := by
  induction s with
  | nil => rfl
  | cons c r ih => simp only [spanLen, h c, ih]

theorem spanDigits_eq (s : List Char) : spanDigits s = (s.take (spanLen isDigit s), s.drop (spanLen isDigit s)) := by
  induction s with
  | nil => rfl
  | cons c r ih =>
    simp only [spanDigits, spanLen]
    split
    · simp [ih]
    · simp

theorem dropBlanks_eq (s : List Char) : dropBlanks s = s.drop (spanLen isBlank s) := by
  induction s with
  | nil => rfl
  | cons c r ih =>
    simp only [dropBlanks, spanLen, isBlank]
    by_cases h : c = ' ' ∨ c = '\t'
    · have : (c == ' ' || c == '\t') = true := by simpa using h
      simp [h, this, ih]
    · have : (c == ' ' || c == '\t') = false := by simpa using h
      simp [h, this]

theorem spanNotSemi_eq (s : List Char) :
    spanNotSemi s = (s.take (spanLen (fun c => !(c == ';')) s), s.drop (spanLen (fun c => !(c == ';')) s)) := by
  induction s with
  | nil => rfl
  | cons c r ih =>
    simp only [spanNotSemi, spanLen]
    by_cases h : c = ';'
    · simp [h]
    · simp [h, ih]

/-- below the span every character satisfies the predicate -/
theorem drop_lt_spanLen (p : Char → Bool) : ∀ (s : List Char) (j : Nat), j < spanLen p s → ∃ c r, s.drop j = c :: r ∧ p c = true := by
  intro s
  induction s with
  | nil => intro j h; simp [spanLen] at h
  | cons c r ih =>
    intro j h
    simp only [spanLen] at h
    split at h
    · rename_i hc
      cases j with
      | zero => exact ⟨c, r, rfl, hc⟩
      | succ j => simpa using ih j (by omega)
    · omega

/-- at the span the next character (if any) does not -/
theorem drop_spanLen (p : Char → Bool) : ∀ (s : List Char), s.drop (spanLen p s) = [] ∨ ∃ c r, s.drop (spanLen p s) = c :: r ∧ p c = false := by
  intro s
  induction s with
  | nil => left; rfl
  | cons c r ih =>
    simp only [spanLen]
    split
    · simpa using ih
    · rename_i hc
      right; exact ⟨c, r, rfl, by simpa using hc⟩

/-! ### generic facts about the reference engine -/

/-- every run splits the subject -/
theorem runs_split : ∀ (r : Re) (s : List Char) (x : Run), x ∈ runs r s → s = x.1 ++ x.2.1 := by
  intro r
  induction r with
  | eps => intro s x h; simp only [runs, List.mem_singleton] at h; subst h; rfl
  | lit c =>
    intro s x h
    cases s with
    | nil => simp [runs] at h
    | cons a t =>
      simp only [runs] at h
      split at h
      · simp only [List.mem_singleton] at h; subst h; rfl
      · cases h
  | set k =>
    intro s x h
    cases s with
    | nil => simp [runs] at h
    | cons a t =>
      simp only [runs] at h
      split at h
      · simp only [List.mem_singleton] at h; subst h; rfl
      · cases h
  | rep k mn mx =>
    intro s x h
    simp only [runs, List.mem_map] at h
    obtain ⟨d, _, rfl⟩ := h
    simp
  | opt a ih =>
    intro s x h
    simp only [runs, List.mem_append, List.mem_singleton] at h
    rcases h with h | rfl
    · exact ih s x h
    · rfl
  | seq a b iha ihb =>
    intro s x h
    simp only [runs, List.mem_flatMap, List.mem_map] at h
    obtain ⟨⟨m1, r1, c1⟩, h1, ⟨m2, r2, c2⟩, h2, rfl⟩ := h
    have e1 := iha s _ h1
    have e2 := ihb r1 _ h2
    simp only at e1 e2 ⊢
    rw [e1, e2, List.append_assoc]
  | group n a ih =>
    intro s x h
    simp only [runs, List.mem_map] at h
    obtain ⟨⟨m, r, c⟩, h1, rfl⟩ := h
    exact ih s (m, r, c) h1

theorem matchAt_split {r : Re} {s : List Char} {x : Run} (h : matchAt r s = some x) : s = x.1 ++ x.2.1 :=
  runs_split r s x (List.mem_of_head? h)

theorem matchAt_eq_none {r : Re} {s : List Char} : matchAt r s = none ↔ runs r s = [] := by
  simp [matchAt, List.head?_eq_none_iff]

/-- `search` really is "leftmost start, preferred match there" -/
theorem searchFrom_spec (r : Re) : ∀ (s skipped : List Char) (f : Found), searchFrom r skipped s = some f →
    ∃ p, f.pre = skipped.reverse ++ p ∧ s = p ++ (f.matched ++ f.post) ∧
      matchAt r (f.matched ++ f.post) = some (f.matched, f.post, f.caps) ∧
      ∀ p' q, s = p' ++ q → p'.length < p.length → runs r q = [] := by
  intro s
  induction s with
  | nil =>
    intro skipped f h
    unfold searchFrom at h
    cases hm : matchAt r [] with
    | none => simp [hm] at h
    | some x =>
      obtain ⟨m, rest, caps⟩ := x
      simp only [hm, Option.some.injEq] at h
      subst h
      have := matchAt_split hm
      simp only at this
      exact ⟨[], by simp, by simpa using this, by simpa [← this] using hm, by intro p' q _ hl; simp at hl⟩
  | cons c t ih =>
    intro skipped f h
    unfold searchFrom at h
    cases hm : matchAt r (c :: t) with
    | some x =>
      obtain ⟨m, rest, caps⟩ := x
      simp only [hm, Option.some.injEq] at h
      subst h
      have := matchAt_split hm
      simp only at this
      exact ⟨[], by simp, by simpa using this, by simpa [← this] using hm, by intro p' q _ hl; simp at hl⟩
    | none =>
      simp only [hm] at h
      obtain ⟨p, hp, hs, hmm, hleft⟩ := ih (c :: skipped) f h
      refine ⟨c :: p, by simp [hp], by simp [hs], hmm, ?_⟩
      intro p' q hpq hl
      cases p' with
      | nil =>
        simp only [List.nil_append] at hpq
        subst hpq
        exact matchAt_eq_none.1 hm
      | cons a p'' =>
        simp only [List.cons_append, List.cons.injEq] at hpq
        exact hleft p'' q hpq.2 (by simpa using hl)

/-- `search` finds nothing iff no position admits a match -/
theorem searchFrom_none (r : Re) : ∀ (s skipped : List Char), searchFrom r skipped s = none ↔ ∀ p q, s = p ++ q → runs r q = [] := by
  intro s
  induction s with
  | nil =>
    intro skipped
    unfold searchFrom
    cases hm : matchAt r [] with
    | none =>
      simp only [true_iff]
      intro p q h
      have : q = [] := by
        have := congrArg List.length h
        simp at this
        exact List.eq_nil_of_length_eq_zero (by omega)
      subst this
      exact matchAt_eq_none.1 hm
    | some x =>
      simp only [false_iff, reduceCtorEq]
      intro h
      have := h [] [] rfl
      rw [← matchAt_eq_none, hm] at this
      cases this
  | cons c t ih =>
    intro skipped
    unfold searchFrom
    cases hm : matchAt r (c :: t) with
    | some x =>
      simp only [false_iff, reduceCtorEq]
      intro h
      have := h [] (c :: t) rfl
      rw [← matchAt_eq_none, hm] at this
      cases this
    | none =>
      simp only [ih]
      constructor
      · intro h p q hpq
        cases p with
        | nil => simp only [List.nil_append] at hpq; subst hpq; exact matchAt_eq_none.1 hm
        | cons a p' =>
          simp only [List.cons_append, List.cons.injEq] at hpq
          exact h p' q hpq.2
      · intro h p q hpq
        exact h (c :: p) q (by simp [hpq])

theorem search_isLeftmost {r : Re} {s : List Char} {f : Found} (h : Spec.PluralFormsRe.search r s = some f) : IsLeftmost r s f := by
  obtain ⟨p, hp, hs, hm, hl⟩ := searchFrom_spec r s [] f h
  simp only [List.reverse_nil, List.nil_append] at hp
  subst hp
  exact ⟨hs, hm, hl⟩

/-! ### preferred match of each part -/

theorem matchAt_seq (a b : Re) (s : List Char) :
    matchAt (.seq a b) s =
      (runs a s).findSome? (fun x => (matchAt b x.2.1).map (fun y => (x.1 ++ y.1, y.2.1, x.2.2 ++ y.2.2))) := by
  simp only [matchAt, runs, List.head?_flatMap, List.head?_map]

theorem matchAt_lit_seq (c : Char) (b : Re) (s : List Char) :
    matchAt (.seq (.lit c.toNat) b) s =
      match s with
      | x :: r => if x = c then (matchAt b r).map (fun y => (x :: y.1, y.2.1, y.2.2)) else none
      | [] => none := by
  rw [matchAt_seq]
  cases s with
  | nil => simp [runs]
  | cons x r =>
    simp only [runs, Char.toNat_inj]
    split <;> simp [*]

theorem matchAt_litSeq (cs : List Char) (t : Re) : ∀ (s : List Char),
    matchAt (litSeq cs t) s =
      match stripPrefix cs s with
      | some r => (matchAt t r).map (fun y => (cs ++ y.1, y.2.1, y.2.2))
      | none => none := by
  induction cs with
  | nil =>
    intro s
    simp [litSeq, stripPrefix]
  | cons c cs ih =>
    intro s
    have : litSeq (c :: cs) t = .seq (.lit c.toNat) (litSeq cs t) := rfl
    rw [this, matchAt_lit_seq]
    cases s with
    | nil => simp [stripPrefix, List.isPrefixOf]
    | cons x r =>
      simp only
      by_cases hx : x = c
      · subst hx
        simp only [↓reduceIte, ih r, stripPrefix, List.isPrefixOf, beq_self_eq_true, Bool.true_and, List.length_cons, List.drop_succ_cons]
        split <;> simp [Option.map_map, Function.comp_def]
      · have : (c == x) = false := by simp [Ne.symm hx]
        simp [hx, stripPrefix, List.isPrefixOf, this]

theorem range_succ_split (n : Nat) : List.range (n + 1) = 0 :: (List.range n).map (· + 1) := by
  rw [List.range_succ_eq_map]

/-- greedy `k*` followed by something that cannot start on a `k` character: only the longest run counts -/
theorem findSome_rep0 {β : Type} (k : Cls) (s : List Char) (g : Run → Option β)
    (hg : ∀ j, j < spanLen k.has s → g (s.take j, s.drop j, []) = none) :
    (runs (.rep k 0 none) s).findSome? g = g (s.take (spanLen k.has s), s.drop (spanLen k.has s), []) := by
  simp only [runs, Nat.sub_zero, range_succ_split, List.map_cons, List.map_map, List.findSome?_cons]
  cases h0 : g (List.take (spanLen k.has s) s, List.drop (spanLen k.has s) s, []) with
  | some y => rfl
  | none =>
    simp only
    rw [List.findSome?_eq_none_iff]
    intro x hx
    simp only [List.mem_map, List.mem_range, Function.comp] at hx
    obtain ⟨d, hd, rfl⟩ := hx
    exact hg _ (by omega)

/-- `;?` -/
theorem matchAt_optSemi (t : List Char) :
    matchAt (.opt (.lit 59)) t = match t with
      | c :: r => if c = ';' then some ([c], r, []) else some ([], c :: r, [])
      | [] => some ([], [], []) := by
  cases t with
  | nil => simp [matchAt, runs]
  | cons c r =>
    simp only [matchAt, runs]
    have : c.toNat = 59 ↔ c = ';' := Char.toNat_inj (d := ';')
    by_cases h : c = ';'
    · simp [h]
    · simp [h, this]

/-- `([^;]+);?` -/
theorem matchAt_tail (s : List Char) :
    (matchAt tailRe s).map (fun x => (x.2.1, x.2.2)) =
      (let (ex, s5) := spanNotSemi s
       if ex.isEmpty then none
       else match s5 with
         | ';' :: s6 => some (s6, [(2, ex)])
         | _ => some (s5, [(2, ex)])) := by
  rw [spanNotSemi_eq]
  have hL : spanLen notSemi.has s = spanLen (fun c => !(c == ';')) s := spanLen_congr notSemi_has s
  simp only [tailRe, matchAt_seq, runs, hL]
  have hle := spanLen_le (fun c => !(c == ';')) s
  generalize spanLen (fun c => !(c == ';')) s = L at hle ⊢
  cases L with
  | zero => simp
  | succ L =>
    have hne : (List.take (L + 1) s).isEmpty = false ∨ s = [] := by
      cases s with
      | nil => right; rfl
      | cons a t => left; simp
    rcases hne with hne | rfl
    · simp only [Nat.add_sub_cancel, range_succ_split, List.map_cons, Nat.sub_zero, List.findSome?_cons, matchAt_optSemi, hne,
        Bool.false_eq_true, ↓reduceIte]
      cases hd : List.drop (L + 1) s with
      | nil => simp
      | cons c r =>
        by_cases hc : c = ';'
        · subst hc; simp
        · simp only [hc, ↓reduceIte, Option.map_some, List.append_nil, List.nil_append]
          split
          · rename_i heq; simp only [List.cons.injEq] at heq; exact absurd heq.1 hc
          · rfl
    · simp at hle

/-- `plural=([^;]+);?` cannot start on a blank -/
theorem matchAt_plural_blank (c : Char) (r : List Char) (h : isBlank c = true) : matchAt pluralRe (c :: r) = none := by
  rw [pluralRe, matchAt_litSeq]
  have : stripPrefix "plural=".toList (c :: r) = none := by
    simp only [isBlank, Bool.or_eq_true, beq_iff_eq] at h
    rcases h with rfl | rfl <;> rfl
  rw [this]

/-- `[ \t]*plural=([^;]+);?` -/
theorem matchAt_blanks (s : List Char) :
    (matchAt blanksRe s).map (fun x => (x.2.1, x.2.2)) = (matchAt pluralRe (dropBlanks s)).map (fun x => (x.2.1, x.2.2)) := by
  rw [blanksRe, matchAt_seq, dropBlanks_eq]
  have hL : spanLen blankCls.has s = spanLen isBlank s := spanLen_congr blankCls_has s
  rw [findSome_rep0, hL]
  · simp [Option.map_map, Function.comp_def]
  · intro j hj
    obtain ⟨c, r, hd, hc⟩ := drop_lt_spanLen _ s j hj
    simp only [hd, matchAt_plural_blank c r (by rw [← blankCls_has]; exact hc), Option.map_none]

/-- `;[ \t]*plural=…` cannot start on a digit -/
theorem matchAt_afterN_digit (c : Char) (r : List Char) (h : isDigit c = true) : matchAt afterN (c :: r) = none := by
  have h59 : (59 : Nat) = (';' : Char).toNat := rfl
  rw [afterN, h59, matchAt_lit_seq]
  have : c ≠ ';' := by
    rintro rfl
    revert h; decide
  simp [this]

/-- `([1-9][0-9]*);[ \t]*plural=([^;]+);?` -/
theorem matchAt_num (s1 : List Char) :
    (matchAt (.seq grp1 afterN) s1).map (fun x => (x.2.1, x.2.2)) =
      match s1 with
      | d :: r =>
        if '1' ≤ d ∧ d ≤ '9' then
          (matchAt afterN (spanDigits s1).2).map (fun x => (x.2.1, (1, (spanDigits s1).1) :: x.2.2))
        else none
      | [] => none := by
  cases s1 with
  | nil => simp [matchAt_seq, grp1, runs]
  | cons d r =>
    simp only
    by_cases hd : '1' ≤ d ∧ d ≤ '9'
    · have h19 : digit19.has d = true := (digit19_has d).2 hd
      have h09 : isDigit d = true := digit19_digit09 d h19
      have hsp : spanDigits (d :: r) = (d :: r.take (spanLen isDigit r), r.drop (spanLen isDigit r)) := by
        rw [spanDigits_eq]; simp [spanLen, h09]
      have hL : spanLen digit09.has r = spanLen isDigit r := spanLen_congr digit09_has r
      rw [if_pos hd, hsp, matchAt_seq]
      simp only [grp1, runs, h19, ↓reduceIte, List.flatMap_cons, List.flatMap_nil, List.append_nil, List.map_map, List.findSome?_map]
      have := findSome_rep0 digit09 r
        (fun x => ((matchAt afterN x.2.1).map (fun y => ((d :: x.1) ++ y.1, y.2.1, ((1, d :: x.1) :: x.2.2) ++ y.2.2)))) ?_
      · simp only [runs, Nat.sub_zero, List.findSome?_map, Function.comp_def, List.singleton_append, List.nil_append,
          List.cons_append] at this
        simp only [Function.comp_def, List.singleton_append, List.nil_append, Nat.sub_zero, List.cons_append]
        rw [this, hL]
        simp [Option.map_map, Function.comp_def]
      · intro j hj
        obtain ⟨c, r', hdrop, hc⟩ := drop_lt_spanLen _ r j hj
        simp only [hdrop, matchAt_afterN_digit c r' (by rw [← digit09_has]; exact hc), Option.map_none]
    · have h19 : digit19.has d = false := by
        cases h : digit19.has d with
        | false => rfl
        | true => exact absurd ((digit19_has d).1 h) hd
      simp [hd, matchAt_seq, grp1, runs, h19]

/-- **The model's anchored matcher is the engine's preferred match** of the live pattern: same rest, same groups
    (group 1 = the digits of nplurals, group 2 = the expression text), and no match exactly when the engine has none. -/
theorem matchAt_header (s : List Char) :
    (matchAt headerRe s).map (fun x => (x.2.1, x.2.2)) =
      (matchHere s).map (fun y => (y.2.2, [(1, y.1), (2, y.2.1)])) := by
  rw [headerRe, matchAt_litSeq]
  unfold matchHere
  cases h1 : stripPrefix "nplurals=".toList s with
  | none => simp
  | some s1 =>
    simp only [Option.map_map, Function.comp_def]
    have hn' : Option.map (fun x => (x.2.1, x.2.2)) (matchAt (grp1.seq afterN) s1) = _ := matchAt_num s1
    cases s1 with
    | nil =>
      simp only at hn' ⊢
      cases hm : matchAt (grp1.seq afterN) [] with
      | none => simp
      | some x => rw [hm] at hn'; simp at hn'
    | cons d r =>
      simp only at hn' ⊢
      by_cases hd : '1' ≤ d ∧ d ≤ '9'
      · rw [if_pos hd] at hn' ⊢
        -- the separator `;`
        have h59 : (59 : Nat) = (';' : Char).toNat := rfl
        have hafter : ∀ t, (matchAt afterN t).map (fun x => (x.2.1, x.2.2)) =
            match t with
            | ';' :: s3 => (matchAt pluralRe (dropBlanks s3)).map (fun x => (x.2.1, x.2.2))
            | _ => none := by
          intro t
          rw [afterN, h59, matchAt_lit_seq]
          cases t with
          | nil => simp
          | cons c t' =>
            by_cases hc : c = ';'
            · subst hc
              simp only [↓reduceIte, Option.map_map, Function.comp_def]
              exact matchAt_blanks t'
            · simp only [hc, ↓reduceIte, Option.map_none]
              split
              · rename_i heq; simp only [List.cons.injEq] at heq; exact absurd heq.1 hc
              · rfl
        generalize spanDigits (d :: r) = sd at hn' ⊢
        obtain ⟨ds, s2⟩ := sd
        simp only at hn' ⊢
        have ha := hafter s2
        -- transport through the group-1 wrapper
        have key : (matchAt (grp1.seq afterN) (d :: r)).map (fun x => (x.2.1, x.2.2)) =
            ((matchAt afterN s2).map (fun x => (x.2.1, x.2.2))).map (fun y => (y.1, (1, ds) :: y.2)) := by
          rw [hn']; simp [Option.map_map, Function.comp_def]
        have lhs : ∀ (o : Option Run), Option.map (fun x => (x.2.1, x.2.2)) (Option.map (fun y => ("nplurals=".toList ++ y.1, y.2.1, y.2.2)) o)
            = Option.map (fun x => (x.2.1, x.2.2)) o := by
          intro o; cases o <;> rfl
        rw [key, ha]
        cases s2 with
        | nil => simp
        | cons c s3 =>
          by_cases hc : c = ';'
          · subst hc
            simp only
            rw [pluralRe, matchAt_litSeq]
            cases h4 : stripPrefix "plural=".toList (dropBlanks s3) with
            | none => simp
            | some s4 =>
              simp only [Option.map_map, Function.comp_def]
              have ht := matchAt_tail s4
              generalize spanNotSemi s4 = sp at ht ⊢
              obtain ⟨ex, s5⟩ := sp
              simp only at ht ⊢
              have lhs2 : ∀ (o : Option Run), Option.map (fun x => (x.2.1, (1, ds) :: x.2.2)) o
                  = (Option.map (fun x => (x.2.1, x.2.2)) o).map (fun y => (y.1, (1, ds) :: y.2)) := by
                intro o; cases o <;> rfl
              rw [lhs2, ht]
              by_cases hex : ex.isEmpty = true
              · simp [hex]
              · simp only [hex, Bool.false_eq_true, ↓reduceIte]
                split <;> simp
          · split
            · rename_i heq; simp only [List.cons.injEq] at heq; exact absurd heq.1 hc
            · split
              · rename_i heq; simp only [List.cons.injEq] at heq; exact absurd heq.1 hc
              · simp
      · rw [if_neg hd] at hn' ⊢
        cases hm : matchAt (grp1.seq afterN) (d :: r) with
        | none => simp
        | some x => rw [hm] at hn'; simp at hn'

/-- **The model's `search` is `pattern.search` of the live pattern**: same text before the match (ljunk), same text
    after it (rjunk), same groups — and `None` in exactly the same cases. -/
theorem search_header : ∀ (s skipped : List Char),
    (searchFrom headerRe skipped s).map (fun f => (f.pre, f.post, f.caps)) =
      (CheckPlurals.search skipped s).map (fun y => (y.1, y.2.2.2, [(1, y.2.1), (2, y.2.2.1)])) := by
  intro s
  induction s with
  | nil =>
    intro skipped
    have h := matchAt_header []
    unfold searchFrom CheckPlurals.search
    cases hm : matchAt headerRe [] with
    | none =>
      rw [hm] at h
      cases hh : matchHere [] with
      | none => simp
      | some y => rw [hh] at h; simp at h
    | some x =>
      rw [hm] at h
      cases hh : matchHere [] with
      | none => rw [hh] at h; simp at h
      | some y =>
        rw [hh] at h
        obtain ⟨m, rest, caps⟩ := x
        obtain ⟨ds, ex, rest'⟩ := y
        simp only [Option.map_some, Option.some.injEq, Prod.mk.injEq] at h
        simp [h.1, h.2]
  | cons c t ih =>
    intro skipped
    have h := matchAt_header (c :: t)
    unfold searchFrom CheckPlurals.search
    cases hm : matchAt headerRe (c :: t) with
    | none =>
      rw [hm] at h
      cases hh : matchHere (c :: t) with
      | none => simp only; exact ih (c :: skipped)
      | some y => rw [hh] at h; simp at h
    | some x =>
      rw [hm] at h
      cases hh : matchHere (c :: t) with
      | none => rw [hh] at h; simp at h
      | some y =>
        rw [hh] at h
        obtain ⟨m, rest, caps⟩ := x
        obtain ⟨ds, ex, rest'⟩ := y
        simp only [Option.map_some, Option.some.injEq, Prod.mk.injEq] at h
        simp [h.1, h.2]

end I18n.CheckPlurals
