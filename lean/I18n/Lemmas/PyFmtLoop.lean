import I18n.Lemmas.PyFmtEffect
/-!
# The parser's loop against `PyUnicode_Format`'s loop
-/
set_option linter.unusedSimpArgs false
namespace I18n.PyFmt
open I18n.Spec.CPyPercent I18n.Spec.PyFmtArgs
open I18n.Generated.PyFormatTables (flagChars lengthChars octCvt hexCvt intCvt floatCvt allCvt SSIZE_MAX typeTable
  variableWidthType variablePrecisionType)

@[simp] theorem flush_core_seq (text : List Char) (st : St) : (flush text st).seq = st.seq := by
  unfold flush; split <;> rfl
@[simp] theorem flush_core_map (text : List Char) (st : St) : (flush text st).map = st.map := by
  unfold flush; split <;> rfl

theorem conversion_seq_map {w : Bool} {st st' : St} {d : Directive} {tp : String} (h : conversion w st d = .ok (st', tp)) :
    st'.seq = st.seq ++ seqAdd d tp st.items.length ∧ st'.map = st.map ++ mapAdd d tp st.items.length := by
  have := (conversion_ok h).2.1
  simp only [St.core, Core.mk.injEq] at this
  exact ⟨this.1, this.2.1⟩

/-- the loop only ever appends to the two argument lists -/
theorem loop_mono (w : Bool) : ∀ (fuel : Nat) (s text : List Char) (st st' : St), loop w fuel s text st = .ok st' →
    ∃ X Y, st'.seq = st.seq ++ X ∧ st'.map = st.map ++ Y := by
  intro fuel
  induction fuel with
  | zero => intro s text st st' h; simp only [loop] at h; cases h
  | succ fuel ih =>
    intro s text st st' h
    cases s with
    | nil => simp only [loop] at h; cases h; exact ⟨[], [], by simp, by simp⟩
    | cons c cs =>
      simp only [loop] at h
      split at h
      · exact ih _ _ _ _ h
      · cases hs : scanDirective cs with
        | none => rw [hs] at h; cases h
        | some p =>
          obtain ⟨d, rest⟩ := p
          rw [hs] at h; simp only [] at h
          cases hc : conversion w (flush text st) d with
          | error e => rw [hc] at h; cases h
          | ok q =>
            obtain ⟨st1, tp⟩ := q
            rw [hc] at h; simp only [] at h
            obtain ⟨X, Y, hX, hY⟩ := ih _ _ _ _ h
            obtain ⟨a, b⟩ := conversion_seq_map hc
            simp only [flush_core_seq, flush_core_map] at a b
            simp only [] at hX hY
            exact ⟨seqAdd d tp (flush text st).items.length ++ X, mapAdd d tp (flush text st).items.length ++ Y,
              by rw [hX, a, List.append_assoc], by rw [hY, b, List.append_assoc]⟩

/-! ## one round of `PyUnicode_Format`'s loop at a `%` -/

theorem run_literal (fuel : Nat) (r : List Char) (c : Ctx) : run (fuel + 1) ('%' :: '%' :: r) c = run fuel r c := by
  simp [run]

theorem run_directive {fuel : Nat} {cs : List Char} (c : Ctx) (h : ∀ r, cs ≠ '%' :: r) :
    run (fuel + 1) ('%' :: cs) c = match formatArg cs c with | .error e => .error e | .ok (rest, c') => run fuel rest c' := by
  cases cs with
  | nil => rfl
  | cons x xs =>
    have hx : x ≠ '%' := fun hx => h xs (by rw [hx])
    rw [run]
    · simp only [ne_eq, not_true_eq_false, if_false]
      cases formatArg (x :: xs) c <;> rfl
    · intro rest hr
      exact h rest hr

theorem head_percent (cs : List Char) : (∃ r, cs = '%' :: r) ∨ (∀ r, cs ≠ '%' :: r) := by
  cases cs with
  | nil => exact Or.inr (fun r h => by cases h)
  | cons x xs =>
    by_cases hx : x = '%'
    · exact Or.inl ⟨xs, by rw [hx]⟩
    · exact Or.inr (fun r h => by cases h; exact hx rfl)

/-- at a specification that the scanner reads as `d`: CPython either takes `%%` literally, or performs `effect d` -/
theorem run_scan {fuel : Nat} {cs rest : List Char} {d : Directive} (c : Ctx) (hs : scanDirective cs = some (d, rest)) :
    (cs = '%' :: rest ∧ d = percentDirective ∧ run (fuel + 1) ('%' :: cs) c = run fuel rest c) ∨
    ((∀ r, cs ≠ '%' :: r) ∧
      run (fuel + 1) ('%' :: cs) c = match effect d c with | .error e => .error e | .ok c' => run fuel rest c') := by
  rcases head_percent cs with ⟨r, rfl⟩ | hne
  · rw [scan_percent] at hs
    cases hs
    exact Or.inl ⟨rfl, rfl, run_literal _ _ _⟩
  · refine Or.inr ⟨hne, ?_⟩
    rw [run_directive c hne, formatArg_of_scan hs]
    cases effect d c <;> rfl

theorem percent_type : typeTable.lookup percentDirective.conv = some "None" := by decide

theorem seqAdd_percent (parent : Nat) : seqAdd percentDirective "None" parent = [] := rfl
theorem mapAdd_percent (parent : Nat) : mapAdd percentDirective "None" parent = [] := rfl

/-- a specification of type `None` in the domain of the property is `%%` -/
theorem none_is_percent {cs rest : List Char} {d : Directive} (hs : scanDirective cs = some (d, rest))
    (hl : typeTable.lookup d.conv = some "None") (hp : d.plain = true) : cs = '%' :: rest ∧ d = percentDirective := by
  have hc : d.conv ∈ allCvt := by simpa using (scanDirective_wf hs).2
  exact scan_plain hs (typeTable_none _ hc hl) hp

/-- **Unnamed specifications.**  If the loop, started in state `st`, accepts the rest `s` of the string without ever
    recording a named argument, then CPython formats `s` with a tuple holding one value of the reported type for each
    entry the loop appended to `_seq_arguments`. -/
theorem loop_tuple (w : Bool) : ∀ (fuel : Nat) (s text : List Char) (st st' : St), loop w fuel s text st = .ok st' →
    plainPercent fuel s = true → st'.map = [] → ∀ vs, okAll (st'.seq.drop st.seq.length) vs →
    run fuel s ⟨none, .tup vs⟩ = .ok () := by
  intro fuel
  induction fuel with
  | zero => intro s text st st' h; simp only [loop] at h; cases h
  | succ fuel ih =>
    intro s text st st' h hpl hmap vs hvs
    cases s with
    | nil =>
      simp only [loop] at h; cases h
      simp only [flush_core_seq, List.drop_length] at hvs
      have := okAll_nil hvs; subst this
      rfl
    | cons c cs =>
      simp only [loop] at h
      simp only [plainPercent] at hpl
      split at h
      · rename_i hc
        simp only [hc, if_true] at hpl
        have hc' : c ≠ '%' := by simpa using hc
        simp only [run, ne_eq, hc', not_false_eq_true, if_true]
        exact ih _ _ _ _ h hpl hmap vs hvs
      · rename_i hc
        have hc' : c = '%' := by simpa using hc
        subst hc'
        simp only [bne_self_eq_false, Bool.false_eq_true, if_false] at hpl
        cases hs : scanDirective cs with
        | none => rw [hs] at h; cases h
        | some p =>
          obtain ⟨d, rest⟩ := p
          rw [hs] at h hpl; simp only [] at h hpl
          simp only [Bool.and_eq_true] at hpl
          obtain ⟨hdp, hpl'⟩ := hpl
          cases hcv : conversion w (flush text st) d with
          | error e => rw [hcv] at h; cases h
          | ok q =>
            obtain ⟨st1, tp⟩ := q
            rw [hcv] at h; simp only [] at h
            obtain ⟨hl, _, hin, hnk, _, _⟩ := conversion_ok hcv
            obtain ⟨a, b⟩ := conversion_seq_map hcv
            simp only [flush_core_seq, flush_core_map] at a b
            obtain ⟨X, Y, hX, hY⟩ := loop_mono w _ _ _ _ _ h
            simp only [] at hX hY
            -- nothing named was recorded
            have hmap1 : st1.map = [] := by
              rw [hY] at hmap; exact (List.append_eq_nil_iff.1 hmap).1
            have hmadd : mapAdd d tp (flush text st).items.length = [] := by
              rw [b] at hmap1; exact (List.append_eq_nil_iff.1 hmap1).2
            -- the values split
            have hdrop : st'.seq.drop st.seq.length = seqAdd d tp (flush text st).items.length ++ X := by
              rw [hX, a, List.append_assoc, List.drop_left]
            have hdrop1 : st'.seq.drop st1.seq.length = X := by rw [hX, List.drop_left]
            rw [hdrop] at hvs
            obtain ⟨v1, v2, rfl, hv1, hv2⟩ := okAll_append _ _ _ hvs
            have ih' := ih _ _ _ _ h hpl' hmap v2 (by simp only []; rw [hdrop1]; exact hv2)
            by_cases hn : tp = "None"
            · subst hn
              obtain ⟨rfl, rfl⟩ := none_is_percent hs hl hdp
              rw [seqAdd_percent] at hv1
              have := okAll_nil hv1; subst this
              rw [run_literal]
              exact ih'
            · have hk : d.key = none := by
                cases hk : d.key with
                | none => rfl
                | some k => simp [mapAdd, hk, hn] at hmadd
              rcases run_scan (fuel := fuel) ⟨none, .tup (v1 ++ v2)⟩ hs with ⟨_, rfl, _⟩ | ⟨_, hr⟩
              · rw [percent_type] at hl; cases hl; exact absurd rfl hn
              · rw [hr, effect_tuple hin hl hk hn hv1]
                exact ih'

/-- **Named specifications.**  If the loop accepts the rest `s` of the string without ever recording an unnamed argument,
    then CPython formats `s` with any mapping that has, for every entry the loop appended to `_map_arguments`, a value of
    the reported type under that key — whatever was fetched before. -/
theorem loop_dict (w : Bool) : ∀ (fuel : Nat) (s text : List Char) (st st' : St), loop w fuel s text st = .ok st' →
    plainPercent fuel s = true → st'.seq = [] → ∀ (m : List (List Char × Val)) (cur : Cur),
    (∀ k e, (k, e) ∈ st'.map.drop st.map.length → ∃ v, Spec.CPyPercent.lookup m k = some v ∧ okFor e v) →
    run fuel s ⟨some m, cur⟩ = .ok () := by
  intro fuel
  induction fuel with
  | zero => intro s text st st' h; simp only [loop] at h; cases h
  | succ fuel ih =>
    intro s text st st' h hpl hseq m cur hm
    cases s with
    | nil => simp [run]
    | cons c cs =>
      simp only [loop] at h
      simp only [plainPercent] at hpl
      split at h
      · rename_i hc
        simp only [hc, if_true] at hpl
        have hc' : c ≠ '%' := by simpa using hc
        simp only [run, ne_eq, hc', not_false_eq_true, if_true]
        exact ih _ _ _ _ h hpl hseq m cur hm
      · rename_i hc
        have hc' : c = '%' := by simpa using hc
        subst hc'
        simp only [bne_self_eq_false, Bool.false_eq_true, if_false] at hpl
        cases hs : scanDirective cs with
        | none => rw [hs] at h; cases h
        | some p =>
          obtain ⟨d, rest⟩ := p
          rw [hs] at h hpl; simp only [] at h hpl
          simp only [Bool.and_eq_true] at hpl
          obtain ⟨hdp, hpl'⟩ := hpl
          cases hcv : conversion w (flush text st) d with
          | error e => rw [hcv] at h; cases h
          | ok q =>
            obtain ⟨st1, tp⟩ := q
            rw [hcv] at h; simp only [] at h
            obtain ⟨hl, _, hin, hnk, _, _⟩ := conversion_ok hcv
            obtain ⟨a, b⟩ := conversion_seq_map hcv
            simp only [flush_core_seq, flush_core_map] at a b
            obtain ⟨X, Y, hX, hY⟩ := loop_mono w _ _ _ _ _ h
            simp only [] at hX hY
            have hseq1 : st1.seq = [] := by
              rw [hX] at hseq; exact (List.append_eq_nil_iff.1 hseq).1
            have hsadd : seqAdd d tp (flush text st).items.length = [] := by
              rw [a] at hseq1; exact (List.append_eq_nil_iff.1 hseq1).2
            have hdrop : st'.map.drop st.map.length = mapAdd d tp (flush text st).items.length ++ Y := by
              rw [hY, b, List.append_assoc, List.drop_left]
            have hdrop1 : st'.map.drop st1.map.length = Y := by rw [hY, List.drop_left]
            rw [hdrop] at hm
            have ih' := fun cur' => ih _ _ _ _ h hpl' hseq m cur'
              (by simp only []; rw [hdrop1]; exact fun k e hke => hm k e (List.mem_append_right _ hke))
            by_cases hn : tp = "None"
            · subst hn
              obtain ⟨rfl, rfl⟩ := none_is_percent hs hl hdp
              rw [run_literal]
              exact ih' cur
            · cases hk : d.key with
              | none => simp [seqAdd, hk, hn] at hsadd
              | some k =>
                obtain ⟨v, hv1, hv2⟩ := hm k ⟨.conv, tp, (flush text st).items.length⟩
                  (List.mem_append_left _ (by simp [mapAdd, hk, hn]))
                rcases run_scan (fuel := fuel) ⟨some m, cur⟩ hs with ⟨_, rfl, _⟩ | ⟨_, hr⟩
                · rw [percent_type] at hl; cases hl; exact absurd rfl hn
                · rw [hr, effect_dict hin hl hk hn hsadd hv1 hv2]
                  exact ih' _

/-- **Rejection as malformed.**  Where the loop raises plain `Error` (or `ForbiddenArgumentKey`, impossible in the
    domain), CPython does not format the string, whatever the arguments and whatever was fetched before. -/
theorem loop_reject (w : Bool) : ∀ (fuel : Nat) (s text : List Char) (st : St) (e : PErr), loop w fuel s text st = .error e →
    plainPercent fuel s = true → (e = .Error ∨ e = .ForbiddenArgumentKey) → ∀ c : Ctx, run fuel s c ≠ .ok () := by
  intro fuel
  induction fuel with
  | zero => intro s text st e _ _ _ c; simp [run]
  | succ fuel ih =>
    intro s text st e h hpl he c
    cases s with
    | nil => simp only [loop] at h; cases h
    | cons ch cs =>
      simp only [loop] at h
      simp only [plainPercent] at hpl
      split at h
      · rename_i hc
        simp only [hc, if_true] at hpl
        have hc' : ch ≠ '%' := by simpa using hc
        simp only [run, ne_eq, hc', not_false_eq_true, if_true]
        exact ih _ _ _ _ h hpl he c
      · rename_i hc
        have hc' : ch = '%' := by simpa using hc
        subst hc'
        simp only [bne_self_eq_false, Bool.false_eq_true, if_false] at hpl
        cases hs : scanDirective cs with
        | none =>
          have hne : ∀ r, cs ≠ '%' :: r := fun r hr => by rw [hr, scan_percent] at hs; cases hs
          rw [run_directive c hne]
          obtain ⟨e', he'⟩ := formatArg_of_scan_none hs c
          rw [he']
          intro hh; cases hh
        | some p =>
          obtain ⟨d, rest⟩ := p
          rw [hs] at h hpl; simp only [] at h hpl
          simp only [Bool.and_eq_true] at hpl
          obtain ⟨hdp, hpl'⟩ := hpl
          obtain ⟨hwf1, hwf2⟩ := scanDirective_wf hs
          cases hcv : conversion w (flush text st) d with
          | error e' =>
            rw [hcv] at h; cases h
            exfalso
            rcases conversion_error hcv hwf1 hwf2 with r | r | r | ⟨_, hk, hcp⟩
            · subst r; rcases he with he | he <;> cases he
            · subst r; rcases he with he | he <;> cases he
            · subst r; rcases he with he | he <;> cases he
            · simp only [Directive.plain, hcp, bne_self_eq_false, Bool.false_or, Bool.and_eq_true] at hdp
              have := hdp.1.1.1.1
              cases hkk : d.key with
              | none => rw [hkk] at hk; cases hk
              | some k => rw [hkk] at this; cases this
          | ok q =>
            obtain ⟨st1, tp⟩ := q
            rw [hcv] at h; simp only [] at h
            have ih' := fun c' => ih _ _ _ _ h hpl' he c'
            rcases run_scan (fuel := fuel) c hs with ⟨_, _, hr⟩ | ⟨_, hr⟩
            · rw [hr]; exact ih' c
            · rw [hr]
              cases effect d c with
              | error e'' => intro hh; cases hh
              | ok c' => exact ih' c'

/-- the loop raises only `Error`, the three documented classes or `ForbiddenArgumentKey` — never an assertion, and the
    termination device is not reached -/
theorem loop_error_kinds (w : Bool) : ∀ (fuel : Nat) (s text : List Char) (st : St) (e : PErr), loop w fuel s text st = .error e →
    s.length < fuel →
    e = .Error ∨ e = .ArgumentIndexingMixture ∨ e = .WidthRangeError ∨ e = .PrecisionRangeError ∨ e = .ForbiddenArgumentKey := by
  intro fuel
  induction fuel with
  | zero => intro s text st e _ hlen; cases hlen
  | succ fuel ih =>
    intro s text st e h hlen
    cases s with
    | nil => simp only [loop] at h; cases h
    | cons ch cs =>
      simp only [loop] at h
      simp only [List.length_cons] at hlen
      split at h
      · exact ih _ _ _ _ h (by omega)
      · cases hs : scanDirective cs with
        | none => rw [hs] at h; cases h; exact Or.inl rfl
        | some p =>
          obtain ⟨d, rest⟩ := p
          rw [hs] at h; simp only [] at h
          obtain ⟨hwf1, hwf2⟩ := scanDirective_wf hs
          have hl := scanDirective_length hs
          cases hcv : conversion w (flush text st) d with
          | error e' =>
            rw [hcv] at h; cases h
            rcases conversion_error hcv hwf1 hwf2 with r | r | r | ⟨r, _, _⟩
            · exact Or.inr (Or.inl r)
            · exact Or.inr (Or.inr (Or.inl r))
            · exact Or.inr (Or.inr (Or.inr (Or.inl r)))
            · exact Or.inr (Or.inr (Or.inr (Or.inr r)))
          | ok q =>
            obtain ⟨st1, tp⟩ := q
            rw [hcv] at h; simp only [] at h
            exact ih _ _ _ _ h (by omega)

end I18n.PyFmt
