import I18n.Lemmas.PyBraceTrace
import I18n.Lemmas.PyBraceTyping
/-
python-brace: for flat fields `str.format` succeeds with arguments of the reported positions, names and types
(except for the two typing gaps `Spec.quirk`): the model's loop and CPython's rendering run in lock step.
-/
namespace I18n.PyBrace
open I18n.BraceChars I18n.Spec.StrFormat

/-! ### the argument map only grows -/

/-- `x` is an element of the list filed under `k` -/
def Filed (m : List (Key × List Arg)) (k : Key) (x : Arg) : Prop := ∃ as, (k, as) ∈ m ∧ x ∈ as

theorem mapAdd_filed (m : List (Key × List Arg)) (k : Key) (x : Arg) : Filed (mapAdd m k x) k x := by
  induction m with
  | nil => exact ⟨[x], by simp [mapAdd], by simp⟩
  | cons p m ih =>
    obtain ⟨k', as⟩ := p
    simp only [mapAdd]
    split
    · rename_i hk; subst hk; exact ⟨as ++ [x], by simp, by simp⟩
    · obtain ⟨as', h1, h2⟩ := ih
      exact ⟨as', by simp [h1], h2⟩

theorem mapAdd_mono (m : List (Key × List Arg)) (k : Key) (x : Arg) {k' : Key} {x' : Arg} (h : Filed m k' x') :
    Filed (mapAdd m k x) k' x' := by
  induction m with
  | nil => obtain ⟨as, h1, _⟩ := h; simp at h1
  | cons p m ih =>
    obtain ⟨k0, as0⟩ := p
    obtain ⟨as, h1, h2⟩ := h
    simp only [List.mem_cons] at h1
    simp only [mapAdd]
    split
    · rename_i hk
      rcases h1 with h1 | h1
      · simp only [Prod.mk.injEq] at h1
        obtain ⟨rfl, rfl⟩ := h1
        exact ⟨as ++ [x], by simp, by simp [h2]⟩
      · exact ⟨as, by simp [h1], h2⟩
    · rcases h1 with h1 | h1
      · simp only [Prod.mk.injEq] at h1
        obtain ⟨rfl, rfl⟩ := h1
        exact ⟨as, by simp, h2⟩
      · obtain ⟨as', h3, h4⟩ := ih ⟨as, h1, h2⟩
        exact ⟨as', by simp [h3], h4⟩

/-- what a successful `add_argument` did -/
theorem addArgument_ok {cfg : Cfg} {st st' : State} {name : Option (List Char)} {x : Arg} (h : addArgument cfg st name x = .ok st') :
    st'.map = mapAdd st.map (keyOf st name) x ∧
    (name = none → ∃ n, st.next = some n ∧ st'.next = some (n + 1)) ∧
    (∀ nm, name = some nm →
       if isDecimalStr nm then digitsVal nm ≤ cfg.ssizeMax ∧ st'.next = none ∧ (st.next = none ∨ st.next = some 0)
       else st'.next = st.next) := by
  unfold addArgument at h
  cases name with
  | none =>
    simp only at h
    split at h
    · cases h
    · rename_i n hn
      split at h
      · cases h
      · cases h
        exact ⟨by simp [keyOf, hn], fun _ => ⟨n, hn, rfl⟩, fun nm h' => (by cases h')⟩
  | some nm =>
    simp only at h
    split at h
    · rename_i hd
      split at h
      · cases h
      · rename_i n hn
        have hv := pyInt_val hn
        split at h
        · cases h
        · rename_i hle
          split at h
          · rename_i hnx
            cases h
            refine ⟨by simp [keyOf, hd, hv], fun h' => (by cases h'), fun nm' h' => ?_⟩
            cases h'; simp [hd]; exact ⟨by omega, hnx, Or.inl hnx⟩
          · rename_i hnx
            cases h
            refine ⟨by simp [keyOf, hd, hv], fun h' => (by cases h'), fun nm' h' => ?_⟩
            cases h'; simp [hd]; exact ⟨by omega, Or.inr hnx⟩
          · cases h
    · rename_i hd
      cases h
      refine ⟨by simp [keyOf, hd], fun h' => (by cases h'), fun nm' h' => ?_⟩
      cases h'; simp [hd]

theorem liftAdd_ok {text : List Char} {b : Bool} {r : Except AddErr State} {st' : State} (h : liftAdd text b r = .ok st') : r = .ok st' := by
  cases r with
  | ok s => simpa [liftAdd] using h
  | error e => cases e <;> simp [liftAdd] at h

theorem nestedAdds_mono {cfg : Cfg} {text : List Char} : ∀ (ns : List (List Char)) (st st' : State),
    nestedAdds cfg text ns st = .ok st' → ∀ k x, Filed st.map k x → Filed st'.map k x := by
  intro ns
  induction ns with
  | nil => intro st st' h k x hf; simp [nestedAdds] at h; subst h; exact hf
  | cons nm rest ih =>
    intro st st' h k x hf
    simp only [nestedAdds] at h
    split at h
    · cases h
    · rename_i st1 hl
      have := (addArgument_ok (liftAdd_ok hl)).1
      exact ih st1 st' h k x (by rw [this]; exact mapAdd_mono _ _ _ hf)

/-- what a successful `Field(...)` did -/
theorem fieldInit_ok {cfg : Cfg} {st st' : State} {f : RawField} {tp : TySet} (h : fieldInit cfg st f = .ok (st', tp)) :
    ∃ st1, addArgument cfg st f.name { nested := false, types := ownTypes cfg f } = .ok st1 ∧
      (∀ k x, Filed st1.map k x → Filed st'.map k x) ∧
      (∀ fm, f.format = some fm → hasNested fm = false → st' = st1 ∧ specTypes cfg fm = .ok tp) ∧
      (f.format = none → st' = st1 ∧ tp = TySet.all) ∧
      (∀ c, f.conversion = some c → tp.str = true) := by
  simp only [fieldInit] at h
  split at h
  · cases h
  · rename_i st1 hl
    refine ⟨st1, liftAdd_ok hl, ?_⟩
    split at h
    · cases h
    · rename_i st2 tp2 h2
      have hfin : st' = st2 ∧ tp = tp2 ∧ (∀ c, f.conversion = some c → tp2.str = true) := by
        split at h
        · cases h; exact ⟨rfl, rfl, fun c hc => by simp_all⟩
        · rename_i c hc
          split at h
          · split at h
            · rename_i hs; cases h; exact ⟨rfl, rfl, fun _ _ => hs⟩
            · cases h
          · cases h
      obtain ⟨rfl, rfl, hconv⟩ := hfin
      split at h2
      · rename_i hfm
        cases h2
        exact ⟨fun _ _ hf => hf, fun fm hf => by simp [hfm] at hf, fun _ => ⟨rfl, rfl⟩, hconv⟩
      · rename_i fm hfm
        split at h2
        · rename_i hn
          split at h2
          · cases h2
          · rename_i st3 hna
            cases h2
            exact ⟨nestedAdds_mono _ _ _ hna, fun fm' hf hnn => by simp [hfm] at hf; subst hf; simp [hn] at hnn,
              fun hf => by simp [hfm] at hf, hconv⟩
        · rename_i hn
          split at h2
          · cases h2
          · cases h2
          · rename_i tp3 hs
            cases h2
            exact ⟨fun _ _ hf => hf, fun fm' hf _ => by simp [hfm] at hf; subst hf; exact ⟨rfl, hs⟩,
              fun hf => by simp [hfm] at hf, hconv⟩

theorem fieldInit_mono {cfg : Cfg} {st st' : State} {f : RawField} {tp : TySet} (h : fieldInit cfg st f = .ok (st', tp)) :
    ∀ k x, Filed st.map k x → Filed st'.map k x := by
  obtain ⟨st1, h1, h2, _⟩ := fieldInit_ok h
  intro k x hf
  exact h2 k x (by rw [(addArgument_ok h1).1]; exact mapAdd_mono _ _ _ hf)

theorem loop_mono (cfg : Cfg) : ∀ (fuel : Nat) (cs : List Char) (st : State) (items : List PreItem) (stF : State) (itemsF : List PreItem),
    loop cfg fuel cs st items = .ok (stF, itemsF) → ∀ k x, Filed st.map k x → Filed stF.map k x := by
  intro fuel
  induction fuel with
  | zero =>
    intro cs st items stF itemsF h k x hf
    cases cs with
    | nil => simp [loop] at h; obtain ⟨rfl, _⟩ := h; exact hf
    | cons c cs => simp [loop] at h
  | succ fuel ih =>
    intro cs st items stF itemsF h k x hf
    cases cs with
    | nil => simp [loop] at h; obtain ⟨rfl, _⟩ := h; exact hf
    | cons c cs =>
      simp only [loop] at h
      cases hlit : scanLiteral (c :: cs).length (c :: cs) with
      | mk t rest =>
        rw [hlit] at h
        cases t with
        | cons t0 ts => exact ih _ _ _ _ _ h k x hf
        | nil =>
          simp only at h
          split at h
          · cases h
          · split at h
            · cases h
            · rename_i st' tp hfi
              exact ih _ _ _ _ _ h k x (fieldInit_mono hfi k x hf)

/-! ### arguments of the reported positions, names and types -/

/-- the arguments provide, under key `k`, a value of one of the types of `x` -/
def Avail (a : Args) (k : Key) (x : Arg) : Prop := ∃ v, lookupArg a k = some v ∧ hasType x.types v = true ∧ chrOK v

/-- the tool's `_next_arg_index` and CPython's `AutoNumber` describe the same numbering state -/
def Inv (st : State) (an : AutoNumber) : Prop :=
  match st.next with
  | some 0 => an = { state := .init, fieldNumber := 0 }
  | some (n + 1) => an = { state := .auto, fieldNumber := n + 1 }
  | none => an.state = .manual

theorem flat_name {nm : List Char} (h : NameText topBr nm) (hf : ∀ c ∈ nm, c ≠ '.' ∧ c ≠ '[') : DigitsText nm ∨ IdentText nm := by
  obtain ⟨hd, tl, rfl, hh, ht⟩ := h
  cases ht with
  | nil => simpa using hh
  | attr _ _ => exact absurd rfl (hf '.' (by simp)).1
  | index _ _ _ => exact absurd rfl (hf '[' (by simp)).2

theorem firstIndex_digits {nm : List Char} (h : DigitsText nm) (hb : digitsVal nm ≤ PY_SSIZE_T_MAX) :
    firstIndex nm = .ok (some (digitsVal nm)) := by
  have hne : nm.isEmpty = false := by
    cases nm with
    | nil => exact absurd rfl h.1
    | cons c r => rfl
  have := accumulate_run nm [] 0 0 h.2 (by intro d r hr; cases hr) hb
  simp only [List.append_nil] at this
  simp [firstIndex, hne, this, digitsVal_eq]

theorem firstIndex_ident {nm : List Char} (h : IdentText nm) : firstIndex nm = .ok none := by
  obtain ⟨c, t, rfl, hc, _⟩ := h
  have hd : isDigit c = false := by
    simp only [isIdStart, Bool.and_eq_true, Bool.not_eq_true'] at hc; exact hc.2
  simp [firstIndex, accumulate, toDecimal_eq, hd]

theorem isDecimalStr_digits {nm : List Char} (h : DigitsText nm) : isDecimalStr nm = true := by
  cases nm with
  | nil => exact absurd rfl h.1
  | cons c r => simp only [isDecimalStr, List.isEmpty_cons, Bool.not_false, Bool.true_and, List.all_eq_true]; exact h.2

theorem isDecimalStr_ident {nm : List Char} (h : IdentText nm) : isDecimalStr nm = false := by
  obtain ⟨c, t, rfl, hc, _⟩ := h
  have hd : isDigit c = false := by
    simp only [isIdStart, Bool.and_eq_true, Bool.not_eq_true'] at hc; exact hc.2
  simp [isDecimalStr, hd]

theorem splitName_flat {nm : List Char} (h : ∀ c ∈ nm, c ≠ '.' ∧ c ≠ '[') : splitName nm = (nm, []) := by
  have hp : ∀ c ∈ nm, (fun c : Char => c ≠ '.' && c ≠ '[') c = true := by
    intro c hc; simpa using h c hc
  have h1 := I18n.PerlBrace.span_all (fun c : Char => c ≠ '.' && c ≠ '[') nm [] hp (by intro d r hr; cases hr)
  simp only [List.append_nil] at h1
  simp only [splitName, h1.1, h1.2]

theorem flat_chars {nm : List Char} (h : (splitName nm).2.isEmpty = true) : ∀ c ∈ nm, c ≠ '.' ∧ c ≠ '[' := by
  intro c hc
  simp only [splitName, List.isEmpty_iff] at h
  have hs := takeWhile_dropWhile (fun c : Char => c ≠ '.' && c ≠ '[') nm
  rw [h, List.append_nil] at hs
  rw [hs] at hc
  have := I18n.PerlBrace.takeWhile_all _ nm c hc
  simpa using this

theorem formatBody_no_close {t : List Char} {ns : List (List Char)} (h : FormatBody t ns) (ho : t.contains '{' = false) : '}' ∉ t := by
  induction h with
  | nil => simp
  | @chr c t ns h1 h2 _ ih =>
    simp only [List.contains_cons, Bool.or_eq_false_iff] at ho
    intro hm
    simp only [List.mem_cons] at hm
    rcases hm with hm | hm
    · exact h2 hm.symm
    · exact ih ho.2 hm
  | simple _ _ _ => simp at ho

theorem fieldInit_conv {cfg : Cfg} {st st' : State} {f : RawField} {tp : TySet} (h : fieldInit cfg st f = .ok (st', tp)) :
    ∀ c, f.conversion = some c → c = ['!', 's'] ∨ c = ['!', 'r'] ∨ c = ['!', 'a'] := by
  intro c hc
  simp only [fieldInit] at h
  split at h
  · cases h
  · split at h
    · cases h
    · simp only [hc] at h
      split at h
      · rename_i hcc
        simp only [Bool.or_eq_true, beq_iff_eq] at hcc
        rcases hcc with (rfl | rfl) | rfl
        · exact Or.inl rfl
        · exact Or.inr (Or.inl rfl)
        · exact Or.inr (Or.inr rfl)
      · cases h

theorem renderField_auto (a : Args) (an : AutoNumber) (F : Field) (v w : Val) (hname : F.name = [])
    (hst : an.state ≠ .manual) (hlook : a.pos[an.fieldNumber]? = some v) (hconv : convert F v = .ok w)
    (hexp : F.needsExpanding = false) (hfmt : formatValue w F.spec = .ok ()) :
    renderField a an F = .ok { state := .auto, fieldNumber := an.fieldNumber + 1 } := by
  have hsplit : splitName F.name = ([], []) := by simp [hname, splitName]
  simp only [renderField, hsplit, firstIndex, List.isEmpty_nil, if_true, lookupObj, hlook, hexp]
  cases h : an.state <;> simp_all

theorem renderField_manual (a : Args) (an : AutoNumber) (F : Field) (nm : List Char) (i : Nat) (v w : Val)
    (hsplit : splitName F.name = (nm, [])) (hne : nm.isEmpty = false) (hidx : firstIndex nm = .ok (some i))
    (hst : an.state ≠ .auto) (hlook : a.pos[i]? = some v) (hconv : convert F v = .ok w)
    (hexp : F.needsExpanding = false) (hfmt : formatValue w F.spec = .ok ()) :
    renderField a an F = .ok { state := .manual, fieldNumber := an.fieldNumber } := by
  simp only [renderField, hsplit, hidx, hne, lookupObj, hlook, hexp]
  cases h : an.state <;> simp_all

theorem renderField_kw (a : Args) (an : AutoNumber) (F : Field) (nm : List Char) (k : List Char) (v w : Val)
    (hsplit : splitName F.name = (nm, [])) (hne : nm.isEmpty = false) (hidx : firstIndex nm = .ok none)
    (hlook : a.kw.find? (·.1 == nm) = some (k, v)) (hconv : convert F v = .ok w)
    (hexp : F.needsExpanding = false) (hfmt : formatValue w F.spec = .ok ()) :
    renderField a an F = .ok an := by
  simp only [renderField, hsplit, hidx, hne, lookupObj, hlook, hexp]
  simp [hconv, hfmt]

/-- the heart: CPython renders a flat field the tool accepted, given a value of one of the field's own types; the numbering
    states stay related -/
theorem renderField_of_init {cfg : Cfg} (hcfg : cfg.ssizeMax ≤ 2 ^ 31 - 1) (a : Args) {cs rest : List Char} {rf : RawField}
    {st st' : State} {tp : TySet} {an : AutoNumber}
    (hshape : FieldShape cs rf rest) (hfi : fieldInit cfg st rf = .ok (st', tp)) (hinv : Inv st an)
    (hflat : (cpField rf).flat = true) (hnq : NoQuirk (cpField rf))
    (hav : Avail a (keyOf st rf.name) { nested := false, types := ownTypes cfg rf }) :
    ∃ an', renderField a an (cpField rf) = .ok an' ∧ Inv st' an' := by
  obtain ⟨st1, hadd, _, hfmt, hnofmt, hconvstr⟩ := fieldInit_ok hfi
  obtain ⟨hmap, hnext0, hnext1⟩ := addArgument_ok hadd
  simp only [Field.flat, Bool.and_eq_true, Bool.not_eq_true'] at hflat
  obtain ⟨hflatname, hnoexp⟩ := hflat
  have hnn : ∀ fm, rf.format = some fm → hasNested fm = false := by
    intro fm hf
    simpa [cpField, hf, hasNested] using hnoexp
  -- the state after the field and its own types
  have hst : st' = st1 ∧ ownTypes cfg rf = tp := by
    cases hf : rf.format with
    | none => obtain ⟨h1, h2⟩ := hnofmt hf; exact ⟨h1, by simp [ownTypes, hf, h2]⟩
    | some fm =>
      obtain ⟨h1, h2⟩ := hfmt fm hf (hnn fm hf)
      exact ⟨h1, by simp [ownTypes, hf, hnn fm hf, h2]⟩
  obtain ⟨rfl, hown⟩ := hst
  obtain ⟨v, hlook, htype, hchr⟩ := hav
  rw [hown] at htype
  simp only at htype
  -- the value after the conversion, and that the specification accepts it
  have hvalue : ∃ w, convert (cpField rf) v = .ok w ∧ hasType tp w = true ∧ chrOK w := by
    cases hc : rf.conversion with
    | none => exact ⟨v, by simp [convert, cpField, hc], htype, hchr⟩
    | some c =>
      have hs := hconvstr c hc
      rcases fieldInit_conv hfi c hc with rfl | rfl | rfl <;>
        exact ⟨.str, by simp [convert, cpField, hc], by simpa [hasType] using hs, trivial⟩
  obtain ⟨w, hw, hwt, hwc⟩ := hvalue
  have hspec : formatValue w (cpField rf).spec = .ok () := by
    cases hf : rf.format with
    | none => simp [cpField, hf, formatValue]
    | some fm =>
      obtain ⟨t, rfl, hb⟩ := hshape.format fm hf
      obtain ⟨_, hs⟩ := hfmt _ hf (hnn _ hf)
      have hno : t.contains '{' = false := by
        have := hnn _ hf
        simpa [hasNested, List.contains_cons] using this
      have hcl := formatBody_no_close hb hno
      simp only [specTypes] at hs
      split at hs
      · cases hs
      · rename_i sf hscan
        have hq : sf.quirk = false := hnq sf (by simpa [cpField, hf] using hscan)
        have := formatValue_sound hcfg hcl hscan hs hq w hwt (by
          intro n hn _
          subst hn
          exact hwc)
        simpa [cpField, hf] using this
  -- the field name
  have hname_chars := flat_chars hflatname
  cases hn : rf.name with
  | none =>
    -- automatic numbering
    obtain ⟨n, hsn, hsn'⟩ := hnext0 hn
    have hkey : keyOf st rf.name = .idx n := by simp [keyOf, hn, hsn]
    rw [hkey] at hlook
    simp only [lookupArg] at hlook
    have hfn : an.fieldNumber = n ∧ an.state ≠ .manual := by
      simp only [Inv, hsn] at hinv
      cases n with
      | zero => simp at hinv; subst hinv; simp
      | succ k => simp at hinv; subst hinv; simp
    refine ⟨{ state := .auto, fieldNumber := n + 1 }, ?_, by simp [Inv, hsn']⟩
    have := renderField_auto a an (cpField rf) v w (by simp [cpField, hn]) hfn.2 (by rw [hfn.1]; exact hlook) hw hnoexp hspec
    rw [this, hfn.1]
  | some nm =>
    have hnt := hshape.name nm hn
    have hch : ∀ c ∈ nm, c ≠ '.' ∧ c ≠ '[' := by simpa [cpField, hn] using hname_chars
    have hsplit : splitName (cpField rf).name = (nm, []) := by simpa [cpField, hn] using splitName_flat hch
    have hnm_ne : nm.isEmpty = false := by
      obtain ⟨c, r, rfl, _⟩ := name_head_ne_open hnt; rfl
    have hnext := hnext1 nm hn
    rcases flat_name hnt hch with hd | hid
    · -- explicit numbering
      have hdec := isDecimalStr_digits hd
      simp only [hdec, if_true] at hnext
      obtain ⟨hle, hsn', hsn⟩ := hnext
      have hkey : keyOf st rf.name = .idx (digitsVal nm) := by simp [keyOf, hn, hdec]
      rw [hkey] at hlook
      simp only [lookupArg] at hlook
      have hidx := firstIndex_digits hd (by simp only [PY_SSIZE_T_MAX]; omega)
      have hstate : an.state ≠ .auto := by
        rcases hsn with h | h
        · have : an.state = .manual := by simpa [Inv, h] using hinv
          rw [this]; simp
        · have : an = { state := .init, fieldNumber := 0 } := by simpa [Inv, h] using hinv
          rw [this]; simp
      exact ⟨{ state := .manual, fieldNumber := an.fieldNumber },
        renderField_manual a an (cpField rf) nm _ v w hsplit hnm_ne hidx hstate hlook hw hnoexp hspec, by simp [Inv, hsn']⟩
    · -- a keyword
      have hdec := isDecimalStr_ident hid
      simp only [hdec, Bool.false_eq_true, if_false] at hnext
      have hkey : keyOf st rf.name = .name nm := by simp [keyOf, hn, hdec]
      rw [hkey] at hlook
      simp only [lookupArg, Option.map_eq_some_iff] at hlook
      obtain ⟨⟨k', v'⟩, hfind, rfl⟩ := hlook
      have hidx := firstIndex_ident hid
      exact ⟨an, renderField_kw a an (cpField rf) nm k' _ w hsplit hnm_ne hidx hfind hw hnoexp hspec,
        by simpa [Inv, hnext] using hinv⟩

/-! ### the loop -/

theorem trace_literal {t : List Char} (ht : LiteralText t) {r : List Char} {fs : List Field} (h : Trace r fs) : Trace (t ++ r) fs := by
  induction ht with
  | nil => simpa using h
  | chr h1 h2 _ ih => exact .chr h1 h2 ih
  | open_ _ ih => exact .open_ ih
  | close _ ih => exact .close ih

theorem loop_format {cfg : Cfg} (hcfg : cfg.ssizeMax ≤ 2 ^ 31 - 1) (a : Args) :
    ∀ (fuel : Nat) (cs : List Char) (st : State) (items : List PreItem) (stF : State) (itemsF : List PreItem),
      loop cfg fuel cs st items = .ok (stF, itemsF) →
      ∃ fs, Trace cs fs ∧ ∀ an, Inv st an → (∀ k x, Filed stF.map k x → Avail a k x) →
        (∀ f ∈ fs, f.flat = true ∧ NoQuirk f) → renderAll a an fs = .ok () := by
  intro fuel
  induction fuel with
  | zero =>
    intro cs st items stF itemsF h
    cases cs with
    | nil => exact ⟨[], .nil, fun _ _ _ _ => rfl⟩
    | cons c cs => simp [loop] at h
  | succ fuel ih =>
    intro cs st items stF itemsF h
    cases cs with
    | nil => exact ⟨[], .nil, fun _ _ _ _ => rfl⟩
    | cons c cs =>
      simp only [loop] at h
      cases hlit : scanLiteral (c :: cs).length (c :: cs) with
      | mk t rest =>
        obtain ⟨hsplit, hlt⟩ := scanLiteral_spec _ _ _ _ hlit
        rw [hlit] at h
        cases t with
        | cons t0 ts =>
          simp only at h
          obtain ⟨fs, htr, hrun⟩ := ih _ _ _ _ _ h
          exact ⟨fs, by rw [hsplit]; exact trace_literal hlt htr, hrun⟩
        | nil =>
          simp only at h
          split at h
          · cases h
          · rename_i rf rest' hsf
            split at h
            · cases h
            · rename_i st' tp hfi
              have hshape := scanField_some hsf
              obtain ⟨fs, htr, hrun⟩ := ih _ _ _ _ _ h
              obtain ⟨r0, hcs, ⟨c0, r1, rfl, hc0⟩, hpf⟩ := parseField_of_shape hshape (fieldInit_ok_conv hfi)
              refine ⟨cpField rf :: fs, by rw [hcs]; exact .field hc0 hpf htr, ?_⟩
              intro an hinv hav hall
              obtain ⟨st1, hadd, hmono, _⟩ := fieldInit_ok hfi
              have hfiled : Filed stF.map (keyOf st rf.name) { nested := false, types := ownTypes cfg rf } := by
                apply loop_mono cfg _ _ _ _ _ _ h
                apply hmono
                rw [(addArgument_ok hadd).1]
                exact mapAdd_filed _ _ _
              obtain ⟨an', hr, hinv'⟩ := renderField_of_init hcfg a hshape hfi hinv (hall _ (by simp)).1 (hall _ (by simp)).2
                (hav _ _ hfiled)
              simp only [renderAll, hr]
              exact hrun an' hinv' hav (fun f hf => hall f (by simp [hf]))

/-! ### the reported signature -/

theorem hasType_inter {a b : TySet} {v : Val} (h : hasType (a.inter b) v = true) : hasType a v = true ∧ hasType b v = true := by
  cases v <;> simpa [hasType, TySet.inter] using h

theorem foldl_inter_le (as : List Arg) : ∀ (acc : TySet) (v : Val), hasType (as.foldl (fun acc a => acc.inter a.types) acc) v = true →
    hasType acc v = true ∧ ∀ x ∈ as, hasType x.types v = true := by
  induction as with
  | nil => intro acc v h; exact ⟨h, by simp⟩
  | cons y as ih =>
    intro acc v h
    obtain ⟨h1, h2⟩ := ih _ v h
    obtain ⟨h3, h4⟩ := hasType_inter h1
    exact ⟨h3, by intro x hx; simp only [List.mem_cons] at hx; rcases hx with rfl | hx; exact h4; exact h2 x hx⟩

theorem unify_mem (s : List Char) : ∀ (m0 m : List (Key × List Arg)), unify s m0 = .ok m →
    ∀ k as, (k, as) ∈ m0 → (k, as.map fun a => { a with types := commonTypes as }) ∈ m := by
  intro m0
  induction m0 with
  | nil => intro m _ k as h; simp at h
  | cons p rest ih =>
    obtain ⟨k0, as0⟩ := p
    intro m h k as hm
    simp only [unify] at h
    split at h
    · cases h
    · split at h
      · cases h
      · rename_i m' hu
        cases h
        simp only [List.mem_cons] at hm
        rcases hm with hm | hm
        · simp only [Prod.mk.injEq] at hm; obtain ⟨rfl, rfl⟩ := hm; simp
        · exact List.mem_cons_of_mem _ (ih m' hu k as hm)

/-- `flat_formats` (partial: without the two typing gaps), for any `SSIZE_MAX` up to 2^31-1 -/
theorem parseWith_flat_formats {cfg : Cfg} (hcfg : cfg.ssizeMax ≤ 2 ^ 31 - 1) (s : List Char) (r : Result) (a : Args)
    (h : parseWith cfg s = .ok r)
    (hflat : Flat s) (hnq : QuirkFree s) (hm : Matches r a) : format s a = .ok () := by
  simp only [parseWith] at h
  split at h
  · cases h
  · rename_i stF items hl
    split at h
    · cases h
    · rename_i m hu
      cases h
      obtain ⟨fs, htr, hrun⟩ := loop_format hcfg a _ _ _ _ _ _ hl
      obtain ⟨chunks, hmk, hfs⟩ := trace_markup htr
      rw [trace_format a htr]
      apply hrun _ (by simp [Inv])
      · intro k x ⟨as, hmem, hx⟩
        obtain ⟨v, hlook, htypes, hchr⟩ := hm k _ (unify_mem s _ _ hu k as hmem)
        refine ⟨v, hlook, ?_, hchr⟩
        have hc : hasType (commonTypes as) v = true := by
          apply htypes { x with types := commonTypes as }
          simp only [List.mem_map]
          exact ⟨x, hx, rfl⟩
        exact (foldl_inter_le as _ v hc).2 x hx
      · intro f hf
        exact ⟨hflat chunks hmk f (by rw [hfs]; exact hf), hnq chunks hmk f (by rw [hfs]; exact hf)⟩

end I18n.PyBrace
