import I18n.Lemmas.LRTables
import I18n.Lemmas.ParseComplete
/-! Completeness of the LR driver over the dumped tables: every derivation of the stratified C grammar is
    reproduced by the table-driven run, reduction by reduction, and ends in `ok` with that AST.

    One induction over `D k w e`: from any operand-expecting state `s` whose context admits level `k`, with `w` in
    front of a remainder whose first token is an admissible lookahead for level `k` (`laOK`), the driver gets, in at
    most `2 * |w|` turns, to the configuration with `e` pushed on top (state `gexp s`) and the remainder unread. -/
namespace I18n.PluralLR
open I18n I18n.PluralParse I18n.Spec

/-! ## generic turns -/

theorem step_shift {s s' : Nat} {v : Val} {st : List (Nat × Val)} {t : Tok} {rest : List Tok}
    (h : shiftAt s (col (some t)) = some s') :
    step T ⟨(s, v) :: st, t :: rest⟩ = .next ⟨(s', .tok t) :: (s, v) :: st, rest⟩ := by
  unfold shiftAt at h
  unfold step
  simp only [List.head?_cons]
  cases hd : T.defaultRed s with
  | none => simp [hd] at h
  | some d =>
    simp only [hd] at h ⊢
    by_cases hd0 : d ≠ 0
    · simp [hd0] at h
    · rw [if_neg hd0] at h ⊢
      cases ha : T.actionAt s (col (some t)) with
      | none => simp [ha] at h
      | some a =>
        cases a with
        | none => simp [ha] at h
        | some x =>
          simp only [ha] at h ⊢
          by_cases hx : x > 0
          · rw [if_pos hx] at h ⊢
            simp only [Option.some.injEq] at h
            subst h; rfl
          · simp [hx] at h

theorem step_reduce {s p : Nat} {v : Val} {st : List (Nat × Val)} {rest : List Tok}
    (h : redAt s (col rest.head?) = some p) :
    step T ⟨(s, v) :: st, rest⟩ = reduce T p ⟨(s, v) :: st, rest⟩ := by
  unfold redAt at h
  unfold step
  cases hd : T.defaultRed s with
  | none => simp [hd] at h
  | some d =>
    simp only [hd] at h ⊢
    by_cases hd0 : d ≠ 0
    · rw [if_pos hd0] at h ⊢
      simp only [Option.some.injEq] at h
      subst h; rfl
    · rw [if_neg hd0] at h ⊢
      cases ha : T.actionAt s (col rest.head?) with
      | none => simp [ha] at h
      | some a =>
        cases a with
        | none => simp [ha] at h
        | some x =>
          simp only [ha] at h ⊢
          by_cases hx : x < 0
          · have hx' : ¬ x > 0 := by omega
            rw [if_pos hx] at h
            rw [if_neg hx', if_pos hx]
            simp only [Option.some.injEq] at h
            subst h; rfl
          · simp [hx] at h

/-- `n` turns lead from `c` to `c'` -/
def Reach (n : Nat) (c c' : Config) : Prop := ∀ f, run T (f + n) c = run T f c'

theorem Reach.refl (c : Config) : Reach 0 c c := fun _ => rfl

theorem Reach.one {c c' : Config} (h : step T c = .next c') : Reach 1 c c' := by
  intro f
  simp only [run, h]

theorem Reach.trans {n m : Nat} {c c' c'' : Config} (h : Reach n c c') (h' : Reach m c' c'') : Reach (n + m) c c'' := by
  intro f
  rw [← Nat.add_assoc, Nat.add_right_comm, h (f + m), h' f]

/-! ## reductions, evaluated -/

theorem reduce1 {p : Nat} {act : Action} {x1 v' : Val} {s1 s g lhs : Nat} {u : Val} {st : List (Nat × Val)} {rest : List Tok}
    (hp : T.prods[p]? = some ⟨lhs, 1, act⟩) (ha : applyAction act [x1] = some v') (hg : T.gotoAt s lhs = some g) :
    reduce T p ⟨(s1, x1) :: (s, u) :: st, rest⟩ = .next ⟨(g, v') :: (s, u) :: st, rest⟩ := by
  simp [reduce, hp, ha, hg]

theorem reduce2 {p : Nat} {act : Action} {x1 x2 v' : Val} {s1 s2 s g lhs : Nat} {u : Val} {st : List (Nat × Val)} {rest : List Tok}
    (hp : T.prods[p]? = some ⟨lhs, 2, act⟩) (ha : applyAction act [x1, x2] = some v') (hg : T.gotoAt s lhs = some g) :
    reduce T p ⟨(s2, x2) :: (s1, x1) :: (s, u) :: st, rest⟩ = .next ⟨(g, v') :: (s, u) :: st, rest⟩ := by
  simp [reduce, hp, ha, hg]

theorem reduce3 {p : Nat} {act : Action} {x1 x2 x3 v' : Val} {s1 s2 s3 s g lhs : Nat} {u : Val} {st : List (Nat × Val)} {rest : List Tok}
    (hp : T.prods[p]? = some ⟨lhs, 3, act⟩) (ha : applyAction act [x1, x2, x3] = some v') (hg : T.gotoAt s lhs = some g) :
    reduce T p ⟨(s3, x3) :: (s2, x2) :: (s1, x1) :: (s, u) :: st, rest⟩ = .next ⟨(g, v') :: (s, u) :: st, rest⟩ := by
  simp [reduce, hp, ha, hg]

theorem reduce5 {p : Nat} {act : Action} {x1 x2 x3 x4 x5 v' : Val} {s1 s2 s3 s4 s5 s g lhs : Nat} {u : Val} {st : List (Nat × Val)}
    {rest : List Tok}
    (hp : T.prods[p]? = some ⟨lhs, 5, act⟩) (ha : applyAction act [x1, x2, x3, x4, x5] = some v') (hg : T.gotoAt s lhs = some g) :
    reduce T p ⟨(s5, x5) :: (s4, x4) :: (s3, x3) :: (s2, x2) :: (s1, x1) :: (s, u) :: st, rest⟩ =
      .next ⟨(g, v') :: (s, u) :: st, rest⟩ := by
  simp [reduce, hp, ha, hg]

/-- the action of a binary production builds the node `binInfo` names -/
theorem apply_bin {t : Tok} {k : Nat} {mk} (h : binInfo t = some (k, mk)) (a b : Expr) :
    ∃ act, T.prods[prodOf k]? = some ⟨0, 3, act⟩ ∧ applyAction act [.node a, .tok t, .node b] = some (.node (mk a b)) := by
  cases t <;> simp only [binInfo] at h
  case bool op =>
    cases op <;> simp only [Option.some.injEq, Prod.mk.injEq] at h <;> obtain ⟨rfl, rfl⟩ := h <;> exact ⟨_, rfl, rfl⟩
  case cmp op =>
    cases op <;> simp only [Option.some.injEq, Prod.mk.injEq] at h <;> obtain ⟨rfl, rfl⟩ := h <;> exact ⟨_, rfl, rfl⟩
  case bin op =>
    cases op <;> simp only [Option.some.injEq, Prod.mk.injEq] at h <;> obtain ⟨rfl, rfl⟩ := h <;> exact ⟨_, rfl, rfl⟩
  all_goals cases h

/-! ## the induction -/

def LA (k : Nat) (rest : List Tok) : Prop := laOK k (col rest.head?) = true

theorem LA.mono {k k' : Nat} {rest : List Tok} (h : LA k rest) (hk : k ≤ k') : LA k' rest := laOK_mono h hk

theorem expects_isSome {s c : Nat} (h : expects s = some c) : (expects s).isSome = true := by simp [h]

theorem lr_complete {k w e} (d : D k w e) :
    ∀ (s c : Nat) (v : Val) (st : List (Nat × Val)) (rest : List Tok), expects s = some c → c ≤ k → LA k rest →
      ∃ n, n ≤ 2 * w.length ∧ Reach n ⟨(s, v) :: st, w ++ rest⟩ ⟨(gexp s, .node e) :: (s, v) :: st, rest⟩ := by
  induction d with
  | var =>
    intro s c v st rest hs _ _
    have hlt := expects_lt hs
    obtain ⟨_, _, hg⟩ := tf_expects s hlt (expects_isSome hs)
    obtain ⟨h3, _⟩ := tf_expects' s hlt (expects_isSome hs)
    refine ⟨2, by simp, ?_⟩
    have r1 : Reach 1 ⟨(s, v) :: st, [Tok.var] ++ rest⟩ ⟨(3, .tok .var) :: (s, v) :: st, rest⟩ := .one (step_shift h3)
    have r2 : Reach 1 ⟨(3, .tok .var) :: (s, v) :: st, rest⟩ ⟨(gexp s, .node .name) :: (s, v) :: st, rest⟩ := by
      apply Reach.one
      rw [step_reduce (tf_atoms.1 _ (col_lt _)).1]
      exact reduce1 (act := .var) rfl rfl hg
    exact r1.trans r2
  | int n =>
    intro s c v st rest hs _ _
    have hlt := expects_lt hs
    obtain ⟨_, _, hg⟩ := tf_expects s hlt (expects_isSome hs)
    obtain ⟨_, h4⟩ := tf_expects' s hlt (expects_isSome hs)
    refine ⟨2, by simp, ?_⟩
    have r1 : Reach 1 ⟨(s, v) :: st, [Tok.int n] ++ rest⟩ ⟨(4, .tok (.int n)) :: (s, v) :: st, rest⟩ := .one (step_shift h4)
    have r2 : Reach 1 ⟨(4, .tok (.int n)) :: (s, v) :: st, rest⟩ ⟨(gexp s, .node (.num n)) :: (s, v) :: st, rest⟩ := by
      apply Reach.one
      rw [step_reduce (tf_atoms.1 _ (col_lt _)).2.1]
      exact reduce1 (act := .int) rfl rfl hg
    exact r1.trans r2
  | @paren ts e d ih =>
    intro s c v st rest hs _ _
    have hlt := expects_lt hs
    obtain ⟨_, h2, hg⟩ := tf_expects s hlt (expects_isSome hs)
    obtain ⟨hat, _, _, he2, hg2, hsh⟩ := tf_atoms
    obtain ⟨n, hn, rn⟩ := ih 2 0 (.tok .lpar) ((s, v) :: st) (Tok.rpar :: rest) he2 (Nat.le_refl 0) (by rfl)
    refine ⟨1 + n + 1 + 1, by simp; omega, ?_⟩
    have r1 : Reach 1 ⟨(s, v) :: st, (Tok.lpar :: (ts ++ [Tok.rpar])) ++ rest⟩
        ⟨(2, .tok .lpar) :: (s, v) :: st, ts ++ Tok.rpar :: rest⟩ := by
      have := Reach.one (step_shift (s := s) (v := v) (st := st) (t := Tok.lpar) (rest := ts ++ Tok.rpar :: rest) h2)
      simpa using this
    rw [hg2] at rn
    have r3 : Reach 1 ⟨(8, .node e) :: (2, .tok .lpar) :: (s, v) :: st, Tok.rpar :: rest⟩
        ⟨(16, .tok .rpar) :: (8, .node e) :: (2, .tok .lpar) :: (s, v) :: st, rest⟩ := .one (step_shift hsh)
    have r4 : Reach 1 ⟨(16, .tok .rpar) :: (8, .node e) :: (2, .tok .lpar) :: (s, v) :: st, rest⟩
        ⟨(gexp s, .node e) :: (s, v) :: st, rest⟩ := by
      apply Reach.one
      rw [step_reduce (hat _ (col_lt _)).2.2.2]
      exact reduce3 (act := .par) rfl rfl hg
    exact ((r1.trans rn).trans r3).trans r4
  | @not ts e d ih =>
    intro s c v st rest hs _ hla
    have hlt := expects_lt hs
    obtain ⟨h1, _, hg⟩ := tf_expects s hlt (expects_isSome hs)
    obtain ⟨hat, he1, hg1, _⟩ := tf_atoms
    obtain ⟨n, hn, rn⟩ := ih 1 7 (.tok .not) ((s, v) :: st) rest he1 (Nat.le_refl 7) hla
    refine ⟨1 + n + 1, by simp; omega, ?_⟩
    have r1 : Reach 1 ⟨(s, v) :: st, (Tok.not :: ts) ++ rest⟩ ⟨(1, .tok .not) :: (s, v) :: st, ts ++ rest⟩ := by
      have := Reach.one (step_shift (s := s) (v := v) (st := st) (t := Tok.not) (rest := ts ++ rest) h1)
      simpa using this
    rw [hg1] at rn
    have r3 : Reach 1 ⟨(7, .node e) :: (1, .tok .not) :: (s, v) :: st, rest⟩
        ⟨(gexp s, .node (.unaryop .not e)) :: (s, v) :: st, rest⟩ := by
      apply Reach.one
      rw [step_reduce (hat _ (col_lt _)).2.2.1]
      exact reduce2 (act := .not) rfl rfl hg
    exact (r1.trans rn).trans r3
  | @bin k l r a b t mk hk hk6 hbi dl dr ihl ihr =>
    intro s c v st rest hs hck hla
    have hlt := expects_lt hs
    obtain ⟨_, _, hg⟩ := tf_expects s hlt (expects_isSome hs)
    have hcol := col_of_binInfo hbi
    -- left operand, in front of `t`
    have hla1 : LA k (t :: (r ++ rest)) := by
      simp only [LA, List.head?_cons, hcol, laOK, Bool.or_eq_true, Bool.and_eq_true, beq_iff_eq, decide_eq_true_eq]
      omega
    obtain ⟨n1, hn1, r1⟩ := ihl s c v st (t :: (r ++ rest)) hs hck hla1
    -- shift the operator
    have hsh := tf_shift_op s hlt k (by omega) hk (admits_of hs hck)
    rw [← hcol] at hsh
    have r2 : Reach 1 ⟨(gexp s, .node a) :: (s, v) :: st, t :: (r ++ rest)⟩
        ⟨(k + 9, .tok t) :: (gexp s, .node a) :: (s, v) :: st, r ++ rest⟩ := .one (step_shift hsh)
    -- right operand
    obtain ⟨hek, hgk⟩ := tf_op_state k (by omega) hk
    obtain ⟨n3, hn3, r3⟩ := ihr (k + 9) (k + 1) (.tok t) ((gexp s, .node a) :: (s, v) :: st) rest hek (Nat.le_refl _)
      (hla.mono (by omega))
    rw [hgk] at r3
    -- reduce
    obtain ⟨act, hp, hact⟩ := apply_bin hbi a b
    have r4 : Reach 1 ⟨(k + 17, .node b) :: (k + 9, .tok t) :: (gexp s, .node a) :: (s, v) :: st, rest⟩
        ⟨(gexp s, .node (mk a b)) :: (s, v) :: st, rest⟩ := by
      apply Reach.one
      rw [step_reduce (tf_reduce_op k (by omega) hk _ (col_lt _) hla)]
      exact reduce3 hp hact hg
    refine ⟨n1 + 1 + n3 + 1, by simp; omega, ?_⟩
    have := ((r1.trans r2).trans r3).trans r4
    simpa using this
  | @up k ts e hk hk6 d ih =>
    intro s c v st rest hs hck hla
    exact ih s c v st rest hs (by omega) (hla.mono (by omega))
  | @cond cs as bs ec ea eb dc da db ihc iha ihb =>
    intro s c v st rest hs hck hla
    have hc0 : c = 0 := by omega
    subst hc0
    have hlt := expects_lt hs
    obtain ⟨_, _, hg⟩ := tf_expects s hlt (expects_isSome hs)
    obtain ⟨he9, hg9, hsh17, he24, hg24, hred⟩ := tf_cond
    obtain ⟨n1, hn1, r1⟩ := ihc s 0 v st (Tok.qm :: (as ++ Tok.colon :: (bs ++ rest))) hs (by omega) (by rfl)
    have hshq := tf_shift_qm s hlt (admits_of hs (Nat.le_refl 0))
    have r2 : Reach 1 ⟨(gexp s, .node ec) :: (s, v) :: st, Tok.qm :: (as ++ Tok.colon :: (bs ++ rest))⟩
        ⟨(9, .tok .qm) :: (gexp s, .node ec) :: (s, v) :: st, as ++ Tok.colon :: (bs ++ rest)⟩ := .one (step_shift hshq)
    obtain ⟨n3, hn3, r3⟩ := iha 9 0 (.tok .qm) ((gexp s, .node ec) :: (s, v) :: st) (Tok.colon :: (bs ++ rest)) he9
      (Nat.le_refl 0) (by rfl)
    rw [hg9] at r3
    have r4 : Reach 1 ⟨(17, .node ea) :: (9, .tok .qm) :: (gexp s, .node ec) :: (s, v) :: st, Tok.colon :: (bs ++ rest)⟩
        ⟨(24, .tok .colon) :: (17, .node ea) :: (9, .tok .qm) :: (gexp s, .node ec) :: (s, v) :: st, bs ++ rest⟩ :=
      .one (step_shift hsh17)
    obtain ⟨n5, hn5, r5⟩ := ihb 24 0 (.tok .colon) ((17, .node ea) :: (9, .tok .qm) :: (gexp s, .node ec) :: (s, v) :: st) rest
      he24 (Nat.le_refl 0) hla
    rw [hg24] at r5
    have r6 : Reach 1
        ⟨(25, .node eb) :: (24, .tok .colon) :: (17, .node ea) :: (9, .tok .qm) :: (gexp s, .node ec) :: (s, v) :: st, rest⟩
        ⟨(gexp s, .node (.ifexp ec ea eb)) :: (s, v) :: st, rest⟩ := by
      apply Reach.one
      rw [step_reduce (hred _ (col_lt _) hla)]
      exact reduce5 (act := .ifelse) rfl rfl hg
    refine ⟨n1 + 1 + n3 + 1 + n5 + 1, by simp; omega, ?_⟩
    have := ((((r1.trans r2).trans r3).trans r4).trans r5).trans r6
    simpa using this
  | @up0 ts e d ih =>
    intro s c v st rest hs hck hla
    exact ih s c v st rest hs (by omega) (hla.mono (by omega))

/-- **Completeness of the LR driver.** -/
theorem lrParseWith_complete {ts : List Tok} {e : Expr} (d : D 0 ts e) : lrParseWith T ts = .ok e := by
  obtain ⟨he0, hg0, hred, hgoto, hd6, ha6⟩ := tf_final
  obtain ⟨n, hn, rn⟩ := lr_complete d 0 0 .bottom [] [] he0 (Nat.le_refl 0) (by rfl)
  rw [hg0] at rn
  simp only [List.append_nil] at rn
  have r2 : Reach 1 ⟨[(5, .node e), (0, .bottom)], []⟩ ⟨[(6, .expr e), (0, .bottom)], []⟩ := by
    apply Reach.one
    rw [step_reduce (p := 12) (by exact hred)]
    exact reduce1 (act := .evalStart) rfl rfl hgoto
  have hacc : step T ⟨[(6, .expr e), (0, .bottom)], []⟩ = .accept (.expr e) := by
    simp [step, hd6, ha6, col]
  have hrun := (rn.trans r2) (fuelFor ts - (n + 1))
  have hf : fuelFor ts - (n + 1) + (n + 1) = fuelFor ts := by unfold fuelFor; omega
  rw [hf] at hrun
  unfold lrParseWith
  rw [hrun]
  obtain ⟨f, hf'⟩ : ∃ f, fuelFor ts - (n + 1) = f + 1 := ⟨fuelFor ts - (n + 1) - 1, by unfold fuelFor; omega⟩
  rw [hf']
  simp only [run, hacc]

end I18n.PluralLR
