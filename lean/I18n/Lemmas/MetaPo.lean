import I18n.Lemmas.MetaSim
import I18n.Props.C10
/-!
C17 on top of C10: the PO loader as `Checker.check` sees it, what "a file that spells the catalog" means (the side
conditions of C10's `load_spells_detected_partial`, bundled), and the loader-level consequence: two spelled files of one
catalog load to the same view.
-/
namespace I18n.Meta
open I18n.Check I18n.Po I18n.Spec.PoSpelling

theorem poView_content (f : PoFile) : poView f = (f.header, f.entries.map Lemmas.PoCatalog.content) := rfl

/-- **`file` spells `cat`** in the charset `name` (codec `E`): the hypotheses of C10's `load_spells_detected_partial`, all about
    the file's bytes and lines — the charset is declared on the first physical line that matches polib's pattern, the file
    decodes, its physical lines are `body ++ tail` with `body` (atypical comments normalised) the spelling and `tail` lines
    `Codecs.open` holds back (blank lines, `# …`, `#~| …`, bare `#.` `#:` `#,`). -/
structure SpelledFile (env : Po.Env) (E : Codec) (name : Po.Bytes) (cat : CatalogSp) (file : Po.Bytes) : Prop where
  codec : CodecOk env name E
  valid : cat.Valid E
  declared : ∃ pre post rest, byteLines file = pre ++ (Lemmas.PoDetect.headerPrefix ++ (name ++ rest)) :: post ∧
    (∀ l ∈ pre, detectLine l = none) ∧ name ≠ [] ∧ (∀ b ∈ name, isCharsetByte b = true) ∧
    (∀ b r, rest = b :: r → isCharsetByte b = false) ∧ env.codecExists name = true
  lines : ∃ contents body tail, decodeFile env name file = .ok contents ∧ physLines contents = body ++ tail ∧
    body.map normalise = cat.lines ∧ ∀ x ∈ tail, Lemmas.PoPre.Held env x

/-- the interpreter facts C10's theorems are stated for -/
structure PyEnv (env : Po.Env) : Prop where
  space : env.isSpace = pyIsSpace
  digit : env.isDigit = pyIsDigit
  decimal : env.decimal = pyDecimal

/-- a spelled file loads (first attempt) to the catalog it spells, up to `linenum` -/
theorem poLoad_spelled (env : Po.Env) (hpy : PyEnv env) (E : Codec) (name : Po.Bytes) (cat : CatalogSp) (file : Po.Bytes)
    (h : SpelledFile env E name cat file) :
    ∃ f, poLoad env file false = .ok f ∧ poView f = (cat.headerText, cat.entries.map EntrySp.entry) := by
  obtain ⟨pre, post, rest, h1, h2, h3, h4, h5, h6⟩ := h.declared
  obtain ⟨contents, body, tail, g1, g2, g3, g4⟩ := h.lines
  obtain ⟨f, hf, hh, he⟩ := Props.C10.load_spells_detected_partial E env hpy.space hpy.digit hpy.decimal cat file name h.codec h.valid
    pre post rest h1 h2 h3 h4 h5 h6 contents g1 body tail g2 g3 g4
  refine ⟨f, ?_, ?_⟩
  · simp [poLoad, hf]
  · simp [poView_content, hh, he]

/-- when the first loader call succeeds, `check` never makes the second one -/
theorem check_first_ok {F σ τ : Type} (statOk : Bool) (ext : Ext) (load : Bool → Except LoadErr F) (init : F → Bool → σ)
    (stages : List (Stage σ τ)) (f : F) (h : load false = .ok f) :
    check statOk ext load init stages = check statOk ext (fun _ => .ok f) init stages := by
  unfold check
  simp only [h]

/-- two loaders whose first calls succeed with files of the same view, `ctx` built from the view -/
theorem check_same_view {F V σ τ : Type} (statOk : Bool) (ext : Ext) (load1 load2 : Bool → Except LoadErr F) (view : F → V)
    (init : V → Bool → σ) (stages : List (Stage σ τ)) (f1 f2 : F) (h1 : load1 false = .ok f1) (h2 : load2 false = .ok f2)
    (hv : view f1 = view f2) :
    check statOk ext load1 (fun f b => init (view f) b) stages = check statOk ext load2 (fun f b => init (view f) b) stages := by
  rw [check_first_ok statOk ext load1 _ stages f1 h1, check_first_ok statOk ext load2 _ stages f2 h2]
  unfold check
  simp only [hv]

end I18n.Meta
