import I18n.Py
/-! Arithmetic facts about the Python kit on the (non-negative) operands the modelled code feeds it. -/
namespace I18n.Py

theorem floordiv_ok {x y : Int} (hy : 0 < y) : floordiv x y = .ok (x / y) := by
  unfold floordiv
  have : y ≠ 0 := by omega
  simp [this, Int.fdiv_eq_ediv_of_nonneg x (Int.le_of_lt hy)]

theorem floordiv_zero (x : Int) : floordiv x 0 = .error .ZeroDivision := by
  simp [floordiv]

theorem mod_ok {x y : Int} (hy : 0 < y) : mod x y = .ok (x % y) := by
  unfold mod
  have : y ≠ 0 := by omega
  simp [this, Int.fmod_eq_emod_of_nonneg x (Int.le_of_lt hy)]

theorem mod_zero (x : Int) : mod x 0 = .error .ZeroDivision := by
  simp [mod]

/-- `a / c ≤ b / d` for `0 ≤ a ≤ b`, `0 < d ≤ c`. -/
theorem ediv_le_ediv_anti {a b c d : Int} (ha : 0 ≤ a) (hab : a ≤ b) (hd : 0 < d) (hdc : d ≤ c) :
    a / c ≤ b / d := by
  have hc : 0 < c := by omega
  have h1 : a / c ≤ b / c := Int.ediv_le_ediv hc hab
  have hb : 0 ≤ b := by omega
  have h2 : b / c ≤ b / d := by
    rw [Int.le_ediv_iff_mul_le hd]
    have hq : 0 ≤ b / c := Int.ediv_nonneg hb (Int.le_of_lt hc)
    have h3 : b / c * d ≤ b / c * c := Int.mul_le_mul_of_nonneg_left hdc hq
    have h4 : b / c * c ≤ b := Int.ediv_mul_le b (by omega)
    omega
  omega

theorem emod_le_self' {a b : Int} (ha : 0 ≤ a) (hb : 0 < b) : a % b ≤ a := by
  have h1 := Int.emod_add_mul_ediv a b
  have h2 : 0 ≤ b * (a / b) := Int.mul_nonneg (Int.le_of_lt hb) (Int.ediv_nonneg ha (Int.le_of_lt hb))
  omega

theorem b2i_le_one (b : Bool) : 0 ≤ b2i b ∧ b2i b ≤ 1 := by
  cases b <;> simp [b2i]

end I18n.Py
