import I18n.Lemmas.CharsetRegistryA
import I18n.Lemmas.CharsetRegistryB
import I18n.Lemmas.CharsetRegistryC
import I18n.Lemmas.CharsetRegistryD
/-!
# C20: the registry model (`codecs.lookup(name).name`) against every row of CodecFacts
-/
namespace I18n.Charset.Tables
open I18n.Charset I18n.Generated.Charset

set_option maxRecDepth 100000

theorem chunks_split : codecFactsChunks = ((codecFactsChunks.drop 0).take 3) ++ ((codecFactsChunks.drop 3).take 3) ++
    ((codecFactsChunks.drop 6).take 2) ++ ((codecFactsChunks.drop 8).take 2) := by decide +kernel

/-- **the model of `codecs.lookup` reproduces the registry's answer for every codec name known to Python, gettext or the tool** -/
theorem registry_rows : (codecFactsChunks.all fun ch => ch.all fun r => registry r.name == r.codec) = true := by
  rw [chunks_split, List.all_append, List.all_append, List.all_append, registry_rows_A, registry_rows_B, registry_rows_C, registry_rows_D]
  rfl

/-- every value of `_pycodec_to_encoding`, upper-cased as a proposal is, resolves to its key — in the MODEL of the registry (so for
    the model the closure hypothesis of `proposal_sound` is a theorem) -/
theorem registry_c2e_closed : (pycodecToEncoding.all fun kv => registry (upper kv.2) == some kv.1) = true := by decide +kernel

end I18n.Charset.Tables
