import I18n.Lemmas.PyFmtGroups
/-!
# A documented rejection reason is true of the string

`directives s`: the conversion specifications the parser's scanner reads in `s`, in order (up to the first one it
refuses).  When `FormatString(s)` raises one of the four documented classes, the corresponding fact holds of these
specifications.
-/
set_option linter.unusedSimpArgs false
namespace I18n.PyFmt
open I18n.Generated.PyFormatTables (flagChars lengthChars octCvt hexCvt intCvt floatCvt allCvt SSIZE_MAX typeTable
  variableWidthType variablePrecisionType)

/-- the conversion specifications the scanner reads, in order -/
def directivesAux : Nat → List Char → List Directive
  | 0, _ => []
  | _ + 1, [] => []
  | fuel + 1, c :: cs =>
    if c != '%' then directivesAux fuel cs
    else
      match scanDirective cs with
      | none => []
      | some (d, rest) => d :: directivesAux fuel rest

def directives (s : List Char) : List Directive := directivesAux (s.length + 1) s

/-- the specification takes its value from the mapping -/
def Directive.named (d : Directive) : Prop := d.key.isSome = true ∧ d.conv ≠ '%'
/-- the specification fetches a positional argument: a `*`, or a value without a key -/
def Directive.unnamed (d : Directive) : Prop := d.width = .star ∨ d.prec = some .star ∨ (d.key = none ∧ d.conv ≠ '%')

theorem lookup_percent {tp : String} (h : typeTable.lookup '%' = some tp) : tp = "None" := by
  have : typeTable.lookup '%' = some "None" := by decide
  rw [this] at h; cases h; rfl

/-! ## why `Conversion.__init__` raises -/

theorem flagLoop_error (w : Bool) (flags : List Char) (conv : Char) : ∀ (l : List Char) (st : St) (e : PErr),
    flagLoop w flags conv l st = .error e → e = .crash .AssertionError := by
  intro l
  induction l with
  | nil => intro st e hh; simp only [flagLoop] at hh; cases hh
  | cons f more ih =>
    intro st e hh
    simp only [flagLoop] at hh
    split at hh
    · exact ih _ _ hh
    · split at hh
      · exact ih _ _ hh
      · split at hh
        · exact ih _ _ hh
        · cases hh; rfl

/-- every way `Conversion.__init__` can raise, with the fact that made it raise -/
theorem conversion_error_cases {w : Bool} {st : St} {d : Directive} {e : PErr} (h : conversion w st d = .error e) :
    e = .crash .AssertionError ∨
    (e = .ArgumentIndexingMixture ∧ d.width = .star ∧ st.map ≠ []) ∨
    (e = .WidthRangeError ∧ ∃ n, d.width = .num n ∧ n > SSIZE_MAX) ∨
    (e = .ArgumentIndexingMixture ∧ d.prec = some .star ∧ st.map ≠ []) ∨
    (e = .PrecisionRangeError ∧ ∃ n, d.prec = some (.num n) ∧ (n > SSIZE_MAX ∨ (intCvt.contains d.conv = true ∧ n > SSIZE_MAX - 3))) ∨
    (e = .ForbiddenArgumentKey ∧ d.key.isSome = true ∧ typeTable.lookup d.conv = some "None") ∨
    (e = .ArgumentIndexingMixture ∧ d.key = none ∧ st.map ≠ [] ∧ ∃ tp, typeTable.lookup d.conv = some tp ∧ tp ≠ "None") ∨
    (e = .ArgumentIndexingMixture ∧ d.key.isSome = true ∧ (st.seq ≠ [] ∨ d.width = .star ∨ d.prec = some .star) ∧
      ∃ tp, typeTable.lookup d.conv = some tp ∧ tp ≠ "None") := by
  unfold conversion at h
  simp only [] at h
  cases h1 : checkFlags w st d.flags d.conv with
  | error e1 =>
    rw [h1] at h; cases h
    unfold checkFlags at h1
    cases hl : flagLoop w d.flags d.conv (distinct d.flags) st with
    | ok s1 => rw [hl] at h1; cases h1
    | error e' => rw [hl] at h1; cases h1; exact Or.inl (flagLoop_error _ _ _ _ _ _ hl)
  | ok st1 =>
    rw [h1] at h; simp only [] at h
    have c1 := checkFlags_core h1
    simp only [St.core, Core.mk.injEq] at c1
    cases h2 : doWidth st1 d.width st.items.length with
    | error e2 =>
      rw [h2] at h; cases h
      unfold doWidth at h2
      cases hw : d.width with
      | star =>
        rw [hw] at h2
        simp only [addArgument] at h2
        split at h2
        · rename_i hm
          cases h2
          exact Or.inr (Or.inl ⟨rfl, rfl, by rw [← c1.2.1]; simpa using hm⟩)
        · cases h2
      | num n =>
        rw [hw] at h2; simp only [] at h2
        split at h2
        · rename_i hn; cases h2; exact Or.inr (Or.inr (Or.inl ⟨rfl, n, rfl, hn⟩))
        · cases h2
    | ok st2 =>
      rw [h2] at h; simp only [] at h
      obtain ⟨_, c2, _, _⟩ := doWidth_ok h2
      simp only [St.core, Core.mk.injEq] at c2
      cases h3 : doPrec st2 d.prec d.conv st.items.length with
      | error e3 =>
        rw [h3] at h; cases h
        unfold doPrec at h3
        cases hp : d.prec with
        | none => rw [hp] at h3; cases h3
        | some q =>
          cases q with
          | star =>
            rw [hp] at h3
            simp only [addArgument] at h3
            split at h3
            · rename_i hm
              cases h3
              exact Or.inr (Or.inr (Or.inr (Or.inl ⟨rfl, rfl, by rw [← c1.2.1, ← c2.2.1]; simpa using hm⟩)))
            · cases h3
          | num n =>
            rw [hp] at h3; simp only [] at h3
            split at h3
            · rename_i hn; cases h3
              exact Or.inr (Or.inr (Or.inr (Or.inr (Or.inl ⟨rfl, n, rfl, Or.inl hn⟩))))
            · split at h3
              · rename_i hn; cases h3
                simp only [Bool.and_eq_true, decide_eq_true_eq] at hn
                exact Or.inr (Or.inr (Or.inr (Or.inr (Or.inl ⟨rfl, n, rfl, Or.inr hn⟩))))
              · cases h3
      | ok st3 =>
        rw [h3] at h; simp only [] at h
        obtain ⟨_, c3, _, _⟩ := doPrec_ok h3
        simp only [St.core, Core.mk.injEq] at c3
        have c4 : (lateWarnings w st3 d).core = st3.core := lateWarnings_core w st3 d
        simp only [St.core, Core.mk.injEq] at c4
        cases h4 : typeTable.lookup d.conv with
        | none => rw [h4] at h; cases h; exact Or.inl rfl
        | some tp =>
          rw [h4] at h; simp only [] at h
          split at h
          · rename_i hn
            have hn' : tp = "None" := by simpa using hn
            subst hn'
            split at h
            · rename_i hk; cases h
              exact Or.inr (Or.inr (Or.inr (Or.inr (Or.inr (Or.inl ⟨rfl, hk, rfl⟩)))))
            · cases h
          · rename_i hn
            have hn' : tp ≠ "None" := by simpa using hn
            cases h5 : addArgument (lateWarnings w st3 d) d.key ⟨.conv, tp, st.items.length⟩ with
            | ok st5 => rw [h5] at h; cases h
            | error e5 =>
              rw [h5] at h; cases h
              cases hk : d.key with
              | none =>
                rw [hk] at h5
                simp only [addArgument] at h5
                split at h5
                · rename_i hm
                  cases h5
                  refine Or.inr (Or.inr (Or.inr (Or.inr (Or.inr (Or.inr (Or.inl ⟨rfl, rfl, ?_, tp, rfl, hn'⟩))))))
                  rw [← c1.2.1, ← c2.2.1, ← c3.2.1, ← c4.2.1]; simpa using hm
                · cases h5
              | some k =>
                rw [hk] at h5
                simp only [addArgument] at h5
                split at h5
                · rename_i hm
                  cases h5
                  refine Or.inr (Or.inr (Or.inr (Or.inr (Or.inr (Or.inr (Or.inr ⟨rfl, rfl, ?_, tp, rfl, hn'⟩))))))
                  have hne : (lateWarnings w st3 d).seq ≠ [] := by simpa using hm
                  rw [c4.1, c3.1, c2.1, c1.1] at hne
                  by_cases hs : st.seq = []
                  · rw [hs, List.nil_append] at hne
                    cases hw : d.width with
                    | star => exact Or.inr (Or.inl rfl)
                    | num n =>
                      cases hp : d.prec with
                      | none => rw [hw, hp] at hne; simp [widthEntries, precEntries] at hne
                      | some q =>
                        cases q with
                        | star => exact Or.inr (Or.inr rfl)
                        | num m => rw [hw, hp] at hne; simp [widthEntries, precEntries] at hne
                  · exact Or.inl hs
                · cases h5

/-! ## where the loop raises -/

theorem mapAdd_named {d : Directive} {tp : String} {parent : Nat} (hl : typeTable.lookup d.conv = some tp)
    (h : mapAdd d tp parent ≠ []) : d.named := by
  unfold mapAdd at h
  cases hk : d.key with
  | none => rw [hk] at h; exact absurd rfl h
  | some k =>
    rw [hk] at h; simp only [] at h
    split at h
    · exact absurd rfl h
    · rename_i hn
      refine ⟨by rw [hk]; rfl, fun hc => hn ?_⟩
      rw [hc] at hl; exact lookup_percent hl

theorem seqAdd_unnamed {d : Directive} {tp : String} {parent : Nat} (hl : typeTable.lookup d.conv = some tp)
    (h : seqAdd d tp parent ≠ []) : d.unnamed := by
  unfold seqAdd at h
  cases hw : d.width with
  | star => exact Or.inl hw
  | num n =>
    cases hp : d.prec with
    | some q =>
      cases q with
      | star => exact Or.inr (Or.inl hp)
      | num m =>
        cases hk : d.key with
        | some k => rw [hw, hp, hk] at h; simp [widthEntries, precEntries] at h
        | none =>
          rw [hw, hp, hk] at h
          simp only [widthEntries, precEntries, List.nil_append] at h
          split at h
          · exact absurd rfl h
          · rename_i hn
            exact Or.inr (Or.inr ⟨hk, fun hc => hn (by rw [hc] at hl; exact lookup_percent hl)⟩)
    | none =>
      cases hk : d.key with
      | some k => rw [hw, hp, hk] at h; simp [widthEntries, precEntries] at h
      | none =>
        rw [hw, hp, hk] at h
        simp only [widthEntries, precEntries, List.nil_append] at h
        split at h
        · exact absurd rfl h
        · rename_i hn
          exact Or.inr (Or.inr ⟨hk, fun hc => hn (by rw [hc] at hl; exact lookup_percent hl)⟩)

/-- when the loop raises something other than `Error`, it is `Conversion.__init__` of one of the specifications read,
    in a state whose argument lists were filled by the earlier specifications -/
theorem loop_error_at (w : Bool) : ∀ (fuel : Nat) (s text : List Char) (st : St) (e : PErr), loop w fuel s text st = .error e →
    e = .Error ∨ e = .crash .NonTermination ∨
    ∃ pre d post st_d, directivesAux fuel s = pre ++ d :: post ∧ conversion w st_d d = .error e ∧
      (st_d.map ≠ [] → st.map ≠ [] ∨ ∃ d' ∈ pre, d'.named) ∧
      (st_d.seq ≠ [] → st.seq ≠ [] ∨ ∃ d' ∈ pre, d'.unnamed) := by
  intro fuel
  induction fuel with
  | zero => intro s text st e h; simp only [loop] at h; cases h; exact Or.inr (Or.inl rfl)
  | succ fuel ih =>
    intro s text st e h
    cases s with
    | nil => simp only [loop] at h; cases h
    | cons c cs =>
      simp only [loop] at h
      split at h
      · rename_i hc
        simp only [directivesAux, hc, if_true]
        exact ih _ _ _ _ h
      · rename_i hc
        simp only [directivesAux, hc, if_false]
        cases hs : scanDirective cs with
        | none => rw [hs] at h; cases h; exact Or.inl rfl
        | some p =>
          obtain ⟨d, rest⟩ := p
          rw [hs] at h; simp only [] at h ⊢
          cases hcv : conversion w (flush text st) d with
          | error e' =>
            rw [hcv] at h; cases h
            exact Or.inr (Or.inr ⟨[], d, _, flush text st, rfl, hcv,
              fun hm => Or.inl (by simpa using hm), fun hm => Or.inl (by simpa using hm)⟩)
          | ok q =>
            obtain ⟨st1, tp⟩ := q
            rw [hcv] at h; simp only [] at h
            obtain ⟨hl, _, _, _, _, _⟩ := conversion_ok hcv
            obtain ⟨a, b⟩ := conversion_seq_map hcv
            simp only [flush_core_seq, flush_core_map] at a b
            rcases ih _ _ _ _ h with r | r | ⟨pre, d', post, st_d, h1, h2, h3, h4⟩
            · exact Or.inl r
            · exact Or.inr (Or.inl r)
            · refine Or.inr (Or.inr ⟨d :: pre, d', post, st_d, by rw [h1]; rfl, h2, ?_, ?_⟩)
              · intro hm
                rcases h3 hm with r | ⟨x, hx, hxn⟩
                · simp only [] at r
                  rw [b] at r
                  by_cases h0 : st.map = []
                  · rw [h0, List.nil_append] at r
                    exact Or.inr ⟨d, List.mem_cons_self, mapAdd_named hl r⟩
                  · exact Or.inl h0
                · exact Or.inr ⟨x, List.mem_cons_of_mem _ hx, hxn⟩
              · intro hm
                rcases h4 hm with r | ⟨x, hx, hxn⟩
                · simp only [] at r
                  rw [a] at r
                  by_cases h0 : st.seq = []
                  · rw [h0, List.nil_append] at r
                    exact Or.inr ⟨d, List.mem_cons_self, seqAdd_unnamed hl r⟩
                  · exact Or.inl h0
                · exact Or.inr ⟨x, List.mem_cons_of_mem _ hx, hxn⟩

/-- every entry of the final `_map_arguments` was recorded for a specification read with that key and that type -/
theorem loop_map_origin (w : Bool) : ∀ (fuel : Nat) (s text : List Char) (st st' : St), loop w fuel s text st = .ok st' →
    ∀ k e, (k, e) ∈ st'.map → (k, e) ∈ st.map ∨
      ∃ d ∈ directivesAux fuel s, d.key = some k ∧ typeTable.lookup d.conv = some e.type := by
  intro fuel
  induction fuel with
  | zero => intro s text st st' h; simp only [loop] at h; cases h
  | succ fuel ih =>
    intro s text st st' h k e hke
    cases s with
    | nil => simp only [loop] at h; cases h; exact Or.inl (by simpa using hke)
    | cons c cs =>
      simp only [loop] at h
      split at h
      · rename_i hc
        simp only [directivesAux, hc, if_true]
        exact ih _ _ _ _ h k e hke
      · rename_i hc
        simp only [directivesAux, hc, if_false]
        cases hs : scanDirective cs with
        | none => rw [hs] at h; cases h
        | some p =>
          obtain ⟨d, rest⟩ := p
          rw [hs] at h; simp only [] at h ⊢
          cases hcv : conversion w (flush text st) d with
          | error e' => rw [hcv] at h; cases h
          | ok q =>
            obtain ⟨st1, tp⟩ := q
            rw [hcv] at h; simp only [] at h
            obtain ⟨hl, _, _, _, _, _⟩ := conversion_ok hcv
            obtain ⟨a, b⟩ := conversion_seq_map hcv
            simp only [flush_core_seq, flush_core_map] at a b
            rcases ih _ _ _ _ h k e hke with r | ⟨x, hx, hx1, hx2⟩
            · simp only [] at r
              rw [b] at r
              rcases List.mem_append.1 r with r | r
              · exact Or.inl r
              · right
                refine ⟨d, List.mem_cons_self, ?_⟩
                unfold mapAdd at r
                cases hk : d.key with
                | none => rw [hk] at r; cases r
                | some k' =>
                  rw [hk] at r; simp only [] at r
                  split at r
                  · cases r
                  · simp only [List.mem_singleton, Prod.mk.injEq] at r
                    obtain ⟨rfl, rfl⟩ := r
                    exact ⟨rfl, hl⟩
            · exact Or.inr ⟨x, List.mem_cons_of_mem _ hx, hx1, hx2⟩

/-! ## the four documented reasons -/

theorem parse_conversion_error {s : List Char} {e : PErr} (h : parse s = .error e) (h1 : e ≠ .Error) (h2 : e ≠ .ArgumentTypeMismatch) :
    ∃ pre d post st_d, directives s = pre ++ d :: post ∧ conversion true st_d d = .error e ∧
      (st_d.map ≠ [] → ∃ d' ∈ pre, d'.named) ∧ (st_d.seq ≠ [] → ∃ d' ∈ pre, d'.unnamed) := by
  rcases parse_error h with hl | r
  · have hk := loop_error_kinds true _ _ _ _ _ hl (Nat.lt_succ_self _)
    rcases loop_error_at true _ _ _ _ _ hl with r | r | ⟨pre, d, post, st_d, a, b, c, c'⟩
    · exact absurd r h1
    · subst r; rcases hk with r | r | r | r | r <;> cases r
    · refine ⟨pre, d, post, st_d, a, b, fun hm => ?_, fun hm => ?_⟩
      · rcases c hm with r | r
        · exact absurd rfl r
        · exact r
      · rcases c' hm with r | r
        · exact absurd rfl r
        · exact r
  · exact absurd r h2

theorem width_reason' {s : List Char} (h : parse s = .error .WidthRangeError) :
    ∃ d ∈ directives s, ∃ n, d.width = .num n ∧ n > SSIZE_MAX := by
  obtain ⟨pre, d, post, st_d, a, b, _, _⟩ := parse_conversion_error h (by intro r; cases r) (by intro r; cases r)
  have hd : d ∈ directives s := by rw [a]; exact List.mem_append_right _ List.mem_cons_self
  rcases conversion_error_cases b with r | ⟨r, _⟩ | ⟨_, n, hn⟩ | ⟨r, _⟩ | ⟨r, _⟩ | ⟨r, _⟩ | ⟨r, _⟩ | ⟨r, _⟩
  all_goals first | cases r | exact ⟨d, hd, n, hn⟩

theorem precision_reason' {s : List Char} (h : parse s = .error .PrecisionRangeError) :
    ∃ d ∈ directives s, ∃ n, d.prec = some (.num n) ∧ (n > SSIZE_MAX ∨ (intCvt.contains d.conv = true ∧ n > SSIZE_MAX - 3)) := by
  obtain ⟨pre, d, post, st_d, a, b, _, _⟩ := parse_conversion_error h (by intro r; cases r) (by intro r; cases r)
  have hd : d ∈ directives s := by rw [a]; exact List.mem_append_right _ List.mem_cons_self
  rcases conversion_error_cases b with r | ⟨r, _⟩ | ⟨r, _⟩ | ⟨r, _⟩ | ⟨_, n, hn⟩ | ⟨r, _⟩ | ⟨r, _⟩ | ⟨r, _⟩
  all_goals first | cases r | exact ⟨d, hd, n, hn⟩

theorem mixture_reason' {s : List Char} (h : parse s = .error .ArgumentIndexingMixture) :
    (∃ d ∈ directives s, d.named) ∧ (∃ d ∈ directives s, d.unnamed) := by
  obtain ⟨pre, d, post, st_d, a, b, c1, c2⟩ := parse_conversion_error h (by intro r; cases r) (by intro r; cases r)
  have hd : d ∈ directives s := by rw [a]; exact List.mem_append_right _ List.mem_cons_self
  have hpre : ∀ x ∈ pre, x ∈ directives s := fun x hx => by rw [a]; exact List.mem_append_left _ hx
  have conv_ne : ∀ tp, typeTable.lookup d.conv = some tp → tp ≠ "None" → d.conv ≠ '%' :=
    fun tp hl hn hc => hn (by rw [hc] at hl; exact lookup_percent hl)
  rcases conversion_error_cases b with r | ⟨_, hw, hm⟩ | ⟨r, _⟩ | ⟨_, hp, hm⟩ | ⟨r, _⟩ | ⟨r, _⟩ | ⟨_, hk, hm, tp, hl, hn⟩ |
    ⟨_, hk, hs, tp, hl, hn⟩
  · cases r
  · obtain ⟨x, hx, hxn⟩ := c1 hm
    exact ⟨⟨x, hpre x hx, hxn⟩, ⟨d, hd, Or.inl hw⟩⟩
  · cases r
  · obtain ⟨x, hx, hxn⟩ := c1 hm
    exact ⟨⟨x, hpre x hx, hxn⟩, ⟨d, hd, Or.inr (Or.inl hp)⟩⟩
  · cases r
  · cases r
  · obtain ⟨x, hx, hxn⟩ := c1 hm
    exact ⟨⟨x, hpre x hx, hxn⟩, ⟨d, hd, Or.inr (Or.inr ⟨hk, conv_ne tp hl hn⟩)⟩⟩
  · refine ⟨⟨d, hd, hk, conv_ne tp hl hn⟩, ?_⟩
    rcases hs with hs | hs | hs
    · obtain ⟨x, hx, hxn⟩ := c2 hs
      exact ⟨x, hpre x hx, hxn⟩
    · exact ⟨d, hd, Or.inl hs⟩
    · exact ⟨d, hd, Or.inr (Or.inl hs)⟩

theorem sameType_false {es : List Entry} (h : sameType es = false) : ∃ e1 ∈ es, ∃ e2 ∈ es, e1.type ≠ e2.type := by
  cases es with
  | nil => cases h
  | cons e rest =>
    simp only [sameType] at h
    have : ¬ (rest.all (fun e' => e'.type == e.type) = true) := by rw [h]; exact Bool.false_ne_true
    simp only [List.all_eq_true, beq_iff_eq, Classical.not_forall, Classical.not_imp] at this
    obtain ⟨x, hx, hne⟩ := this
    exact ⟨x, List.mem_cons_of_mem _ hx, e, List.mem_cons_self, hne⟩

theorem mismatch_reason' {s : List Char} (h : parse s = .error .ArgumentTypeMismatch) :
    ∃ d1 ∈ directives s, ∃ d2 ∈ directives s, ∃ k, d1.key = some k ∧ d2.key = some k ∧
      typeTable.lookup d1.conv ≠ typeTable.lookup d2.conv := by
  unfold parse parseW at h
  cases hl : loop true (s.length + 1) s [] St.init with
  | error e =>
    rw [hl] at h; cases h
    rcases loop_error_kinds true _ _ _ _ _ hl (Nat.lt_succ_self _) with r | r | r | r | r <;> cases r
  | ok st =>
    rw [hl] at h; simp only [] at h
    split at h
    · cases h
    · rename_i hall
      have : ¬ ∀ g ∈ groups st.map, sameType g.2 = true := by
        intro hh; exact hall (List.all_eq_true.2 hh)
      simp only [Classical.not_forall, Classical.not_imp] at this
      obtain ⟨⟨k, es⟩, hg, hns⟩ := this
      have hns' : sameType es = false := by simpa using hns
      obtain ⟨e1, he1, e2, he2, hne⟩ := sameType_false hns'
      obtain ⟨hes, _⟩ := groups_spec hg
      have mem_log : ∀ e ∈ es, (k, e) ∈ st.map := by
        intro e he
        rw [hes] at he
        obtain ⟨p, hp, rfl⟩ := List.mem_map.1 he
        obtain ⟨hp1, hp2⟩ := List.mem_filter.1 hp
        have : p.1 = k := by simpa using hp2
        rw [← this]; exact hp1
      have origin : ∀ e ∈ es, ∃ d ∈ directives s, d.key = some k ∧ typeTable.lookup d.conv = some e.type := by
        intro e he
        rcases loop_map_origin true _ _ _ _ _ hl k e (mem_log e he) with r | r
        · cases r
        · exact r
      obtain ⟨d1, hd1, hk1, ht1⟩ := origin e1 he1
      obtain ⟨d2, hd2, hk2, ht2⟩ := origin e2 he2
      refine ⟨d1, hd1, d2, hd2, k, hk1, hk2, ?_⟩
      rw [ht1, ht2]
      intro hh; exact hne (Option.some.inj hh)

/-! ## the domain, in terms of the specifications read -/

theorem plainPercent_iff : ∀ (fuel : Nat) (s : List Char),
    plainPercent fuel s = true ↔ ∀ d ∈ directivesAux fuel s, d.plain = true := by
  intro fuel
  induction fuel with
  | zero => intro s; simp [plainPercent, directivesAux]
  | succ fuel ih =>
    intro s
    cases s with
    | nil => simp [plainPercent, directivesAux]
    | cons c cs =>
      simp only [plainPercent, directivesAux]
      split
      · exact ih cs
      · cases hs : scanDirective cs with
        | none => simp
        | some p =>
          obtain ⟨d, rest⟩ := p
          simp only [Bool.and_eq_true, List.mem_cons, forall_eq_or_imp, ih rest]

end I18n.PyFmt
