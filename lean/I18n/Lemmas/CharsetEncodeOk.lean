import I18n.Lemmas.CharsetCheckTags
import I18n.Lemmas.CharsetIconvCodecs
/-!
# C20: the hypothesis `EncodeOk` of the unrepresentable-characters theorems holds for the extra codecs as modelled
-/
namespace I18n.Charset

/-- `text.encode(codec)` seen as the checker sees it: it worked, or UnicodeEncodeError (not the iconv(1) fall-back) -/
def encOfExcept {ε α : Type} (f : List Nat → Except ε α) : List Nat → Enc := fun t =>
  match f t with
  | .ok _ => .ok
  | .error _ => .encodeError false

/-- an encoder that succeeds exactly on the texts all of whose characters pass a test satisfies `EncodeOk` on every list -/
theorem encodeOk_of_charwise {ε α : Type} (f : List Nat → Except ε α) (P : Nat → Bool)
    (h : ∀ t, (∃ b, f t = .ok b) ↔ ∀ c ∈ t, P c = true) (chars : List (List Nat)) : EncodeOk (encOfExcept f) chars where
  pieces := by
    intro c _
    unfold encOfExcept
    cases f c <;> simp
  joined := by
    unfold encOfExcept
    cases f chars.flatten <;> simp
  prefixClosed := by
    intro hj c hc
    have hall : ∀ x ∈ chars.flatten, P x = true := by
      apply (h chars.flatten).1
      unfold encOfExcept at hj
      cases hf : f chars.flatten with
      | ok b => exact ⟨b, rfl⟩
      | error e => simp [hf] at hj
    have : ∃ b, f c = .ok b := (h c).2 (fun x hx => hall x (List.mem_flatten.2 ⟨c, hc, hx⟩))
    obtain ⟨b, hb⟩ := this
    simp [encOfExcept, hb]

theorem encodeAllFrom_ok_iff (enc : Nat → Option (List UInt8)) : ∀ (cs : List Nat) (i : Nat),
    (∃ bs, encodeAllFrom enc i cs = .ok bs) ↔ ∀ c ∈ cs, (enc c).isSome = true := by
  intro cs
  induction cs with
  | nil => intro i; simp [encodeAllFrom]
  | cons c cs ih =>
    intro i
    simp only [encodeAllFrom, List.mem_cons, forall_eq_or_imp]
    cases hc : enc c with
    | none => simp
    | some u =>
      simp only [Option.isSome_some, true_and]
      rw [← ih (i + 1)]
      constructor
      · rintro ⟨bs, hb⟩
        cases hrec : encodeAllFrom enc (i + 1) cs with
        | ok bs' => exact ⟨bs', rfl⟩
        | error e => simp [hrec, Except.map] at hb
      · rintro ⟨bs', hb'⟩
        exact ⟨u ++ bs', by simp [hb', Except.map]⟩

/-- every charmap codec -/
theorem encodeOk_charmap (table : List Nat) (chars : List (List Nat)) : EncodeOk (encOfExcept (charmapEncode table)) chars :=
  encodeOk_of_charwise _ (fun c => (encLookup table c).isSome) (fun t => encodeFrom_ok_iff (encLookup table) t 0) chars

/-- EUC-TW over any tables -/
theorem encodeOk_eucTw (inv : CnsInverse) (chars : List (List Nat)) : EncodeOk (encOfExcept (eucTwEncode inv)) chars :=
  encodeOk_of_charwise _ (fun c => (eucTwEncodeChar inv c).isSome)
    (fun t => by unfold eucTwEncode; rw [eucTwEncodeFrom_eq]; exact encodeAllFrom_ok_iff _ t 0) chars

end I18n.Charset
