import I18n.Lemmas.ParseSound
/-! Completeness of the recursive-descent model: every derivation of the stratified C grammar is found
    by the parser, with the fuel `parseToks` actually passes (`9 * length + 9`).

    Shape of the proof: one induction over the derivation `D k ts e`, proving for every level
    * (A) `ts` followed by any `rest` that does not start with an operator the level would still absorb
      (`Stop k rest`) is parsed to `(e, rest)` with every fuel `≥ 9 * |ts| - k`;
    * (B) for the left-associative levels 1–6, the continuation-generalised loop statement: whatever
      `parseLoop k e rest` returns once `e` has been accumulated, `parseLevel k (ts ++ rest)` returns too —
      this is what lets the left-recursive rule `Lk := Lk op L(k+1)` meet the iterative loop. -/
namespace I18n.PluralParse
open I18n I18n.Spec

/-- binding level of a token that can continue an expression: `?` 0, binary operators 1–6 -/
def tokLevel : Tok → Option Nat
  | .qm => some 0
  | t => (binInfo t).map (·.1)

/-- `rest` does not start with a token that a level-`k` parse would still absorb -/
def Stop (k : Nat) (rest : List Tok) : Prop :=
  ∀ t r, rest = t :: r → ∀ l, tokLevel t = some l → l < k

theorem tokLevel_of_binInfo {t : Tok} {k : Nat} {mk} (h : binInfo t = some (k, mk)) : tokLevel t = some k := by
  cases t <;> simp_all [tokLevel, binInfo]

theorem Stop.mono {k k' : Nat} {rest : List Tok} (h : Stop k rest) (hk : k ≤ k') : Stop k' rest :=
  fun t r hr l hl => Nat.lt_of_lt_of_le (h t r hr l hl) hk

theorem Stop.nil (k : Nat) : Stop k [] := fun _ _ h => by cases h

theorem D_length_pos {k ts e} (d : D k ts e) : 1 ≤ ts.length := by
  induction d <;> simp_all <;> omega

/-- the level-`k` entry point: `parseCond` at 0, `parseLevel k` above (which is `parseUnary` from 7 on) -/
def P (f k : Nat) (ts : List Tok) : PResult := if k = 0 then parseCond f ts else parseLevel f k ts

theorem parseLevel_seven (f : Nat) (ts : List Tok) : parseLevel (f + 1) 7 ts = parseUnary f ts := by
  simp [parseLevel]

/-- the loop stops at once in front of a `Stop k` remainder -/
theorem parseLoop_stop {k : Nat} {rest : List Tok} (hs : Stop k rest) (a : Expr) (f : Nat) (hf : 1 ≤ f) :
    parseLoop f k a rest = some (a, rest) := by
  obtain ⟨f, rfl⟩ : ∃ f', f = f' + 1 := ⟨f - 1, by omega⟩
  simp only [parseLoop]
  split
  · rfl
  · rename_i t r
    split
    · rename_i k' mk hbi
      have := hs t r rfl k' (tokLevel_of_binInfo hbi)
      have : ¬ k' = k := by omega
      simp [this]
    · rfl

def CompleteAt (k : Nat) (ts : List Tok) (e : Expr) : Prop :=
  (∀ rest, Stop k rest → ∀ f, 9 * ts.length - k ≤ f → P f k (ts ++ rest) = some (e, rest)) ∧
  (1 ≤ k → k ≤ 6 → ∀ rest r f0, Stop (k + 1) rest → 1 ≤ f0 → (∀ f, f0 ≤ f → parseLoop f k e rest = some r) →
      ∀ f, f0 + 9 * ts.length - k - 1 ≤ f → parseLevel f k (ts ++ rest) = some r)

/-- (A) follows from (B) on the binary levels -/
theorem completeA_of_B {k ts e} (hk : 1 ≤ k) (hk6 : k ≤ 6)
    (hB : ∀ rest r f0, Stop (k + 1) rest → 1 ≤ f0 → (∀ f, f0 ≤ f → parseLoop f k e rest = some r) →
      ∀ f, f0 + 9 * ts.length - k - 1 ≤ f → parseLevel f k (ts ++ rest) = some r) :
    ∀ rest, Stop k rest → ∀ f, 9 * ts.length - k ≤ f → P f k (ts ++ rest) = some (e, rest) := by
  intro rest hs f hf
  have hk0 : ¬ k = 0 := by omega
  simp only [P, hk0, if_false]
  exact hB rest (e, rest) 1 (hs.mono (by omega)) (Nat.le_refl 1) (fun f hf => parseLoop_stop hs e f hf) f (by omega)

theorem D_level_le {k ts e} (d : D k ts e) : k ≤ 7 := by induction d <;> omega

theorem D_lower {k ts e} (d : D k ts e) : ∀ k', 1 ≤ k' → k' ≤ k → D k' ts e := by
  intro k' hk' hle
  obtain ⟨n, rfl⟩ : ∃ n, k = k' + n := ⟨k - k', by omega⟩
  clear hle
  induction n with
  | zero => exact d
  | succ n ih =>
    have hk7 : k' + (n + 1) ≤ 7 := D_level_le d
    exact ih (D.up (by omega) (by omega) d)

theorem complete_all {k ts e} (d : D k ts e) : CompleteAt k ts e := by
  induction d with
  | var =>
    refine ⟨?_, by omega⟩
    intro rest _ f hf
    obtain ⟨f, rfl⟩ : ∃ f', f = f' + 2 := ⟨f - 2, by simp at hf; omega⟩
    simp [P, parseLevel, parseUnary]
  | int n =>
    refine ⟨?_, by omega⟩
    intro rest _ f hf
    obtain ⟨f, rfl⟩ : ∃ f', f = f' + 2 := ⟨f - 2, by simp at hf; omega⟩
    simp [P, parseLevel, parseUnary]
  | @paren ts e d ih =>
    refine ⟨?_, by omega⟩
    intro rest _ f hf
    obtain ⟨f, rfl⟩ : ∃ f', f = f' + 2 := ⟨f - 2, by simp at hf; omega⟩
    have hstop : Stop 0 (Tok.rpar :: rest) := by
      intro t r h l hl; cases h; simp [tokLevel, binInfo] at hl
    have := ih.1 (Tok.rpar :: rest) hstop f (by simp at hf ⊢; omega)
    simp only [P, if_true] at this
    simp [P, parseLevel, parseUnary, this]
  | @not ts e d ih =>
    refine ⟨?_, by omega⟩
    intro rest hs f hf
    obtain ⟨f, rfl⟩ : ∃ f', f = f' + 2 := ⟨f - 2, by simp at hf; omega⟩
    have := ih.1 rest hs (f + 1) (by simp at hf ⊢; omega)
    simp only [P, parseLevel_seven] at this
    simp at this
    simp [P, parseLevel, parseUnary, this]
  | @bin k l r a b t mk hk hk6 hbi dl dr ihl ihr =>
    have hB : ∀ rest res f0, Stop (k + 1) rest → 1 ≤ f0 → (∀ f, f0 ≤ f → parseLoop f k (mk a b) rest = some res) →
        ∀ f, f0 + 9 * (l ++ t :: r).length - k - 1 ≤ f → parseLevel f k ((l ++ t :: r) ++ rest) = some res := by
      intro rest res f0 hs hf0 hloop f hf
      have hl1 := D_length_pos dl
      have hr1 := D_length_pos dr
      -- the loop, entered with `a` in front of `t :: r ++ rest`, takes one more turn
      have hstep : ∀ g, f0 + 9 * r.length - k ≤ g → parseLoop g k a (t :: (r ++ rest)) = some res := by
        intro g hg
        obtain ⟨g, rfl⟩ : ∃ g', g = g' + 1 := ⟨g - 1, by omega⟩
        have hr := ihr.1 rest hs g (by omega)
        have hk0 : ¬ k + 1 = 0 := by omega
        simp only [P, hk0, if_false] at hr
        simp only [parseLoop, hbi, if_true, hr]
        exact hloop g (by omega)
      have hs' : Stop (k + 1) (t :: (r ++ rest)) := by
        intro t' r' h l' hl'
        cases h
        rw [tokLevel_of_binInfo hbi] at hl'
        cases hl'; omega
      have := ihl.2 hk hk6 (t :: (r ++ rest)) res (f0 + 9 * r.length - k) hs' (by omega) hstep f
        (by simp at hf ⊢; omega)
      simpa using this
    exact ⟨completeA_of_B hk hk6 hB, fun _ _ => hB⟩
  | @up k ts e hk hk6 d ih =>
    have hB : ∀ rest res f0, Stop (k + 1) rest → 1 ≤ f0 → (∀ f, f0 ≤ f → parseLoop f k e rest = some res) →
        ∀ f, f0 + 9 * ts.length - k - 1 ≤ f → parseLevel f k (ts ++ rest) = some res := by
      intro rest res f0 hs hf0 hloop f hf
      have hl1 := D_length_pos d
      obtain ⟨f, rfl⟩ : ∃ f', f = f' + 1 := ⟨f - 1, by omega⟩
      have h1 := ih.1 rest hs f (by omega)
      have hk0 : ¬ k + 1 = 0 := by omega
      simp only [P, hk0, if_false] at h1
      have hk7 : ¬ k ≥ 7 := by omega
      simp only [parseLevel, hk7, if_false, h1]
      exact hloop f (by omega)
    exact ⟨completeA_of_B hk hk6 hB, fun _ _ => hB⟩
  | @cond c a b ec ea eb dc da db ihc iha ihb =>
    refine ⟨?_, by omega⟩
    intro rest hs f hf
    have hc1 := D_length_pos dc
    have ha1 := D_length_pos da
    have hb1 := D_length_pos db
    obtain ⟨f, rfl⟩ : ∃ f', f = f' + 1 := ⟨f - 1, by simp at hf; omega⟩
    have hsq : Stop 1 (Tok.qm :: (a ++ Tok.colon :: (b ++ rest))) := by
      intro t r h l hl; cases h; simp [tokLevel] at hl; omega
    have h1 := ihc.1 _ hsq f (by simp at hf ⊢; omega)
    have hsc : Stop 0 (Tok.colon :: (b ++ rest)) := by
      intro t r h l hl; cases h; simp [tokLevel, binInfo] at hl
    have h2 := iha.1 _ hsc f (by simp at hf ⊢; omega)
    have h3 := ihb.1 rest hs f (by simp at hf ⊢; omega)
    simp only [P, if_true] at h2 h3
    simp only [P] at h1
    simp at h1
    simp [P, parseCond, h1, h2, h3]
  | @up0 ts e d ih =>
    refine ⟨?_, by omega⟩
    intro rest hs f hf
    have hl1 := D_length_pos d
    obtain ⟨f, rfl⟩ : ∃ f', f = f' + 1 := ⟨f - 1, by simp at hf; omega⟩
    have h1 := ih.1 rest (hs.mono (by omega)) f (by simp at hf ⊢; omega)
    simp only [P] at h1
    simp at h1
    simp only [P, if_true, parseCond, h1]
    rcases rest with _ | ⟨t, r⟩
    · rfl
    · have hq : t ≠ Tok.qm := by
        intro h; subst h
        have := hs _ _ rfl 0 rfl
        omega
      cases t <;> first | rfl | exact absurd rfl hq

/-- **Completeness**, with the fuel the model really uses. -/
theorem parseToks_complete {ts : List Tok} {e : Expr} (d : D 0 ts e) : parseToks ts = some e := by
  have := (complete_all d).1 [] (Stop.nil 0) (fuelFor ts) (by unfold fuelFor; omega)
  simp only [P, if_true, List.append_nil] at this
  simp [parseToks, this]

theorem parseToks_iff (ts : List Tok) (e : Expr) : parseToks ts = some e ↔ D 0 ts e :=
  ⟨parseToks_sound, parseToks_complete⟩

/-- the grammar is unambiguous: a token list has at most one AST, at every level -/
theorem D_functional {k ts e e'} (d : D k ts e) (d' : D k ts e') : e = e' := by
  have h := (complete_all d).1 [] (Stop.nil k) _ (Nat.le_refl _)
  have h' := (complete_all d').1 [] (Stop.nil k) _ (Nat.le_refl _)
  rw [h] at h'
  cases h'
  rfl

end I18n.PluralParse
