import I18n.Lemmas.CharsetIconvRef
import I18n.Lemmas.CharsetEucTw
/-!
# C20: the two iconv-backed codecs of the tool as instances of the reference iconv: EUC-TW (any CNS tables), and a single-byte
# table (KOI8-T)
-/
namespace I18n.Charset

set_option maxRecDepth 20000

/-! ## EUC-TW -/

theorem eucUnitFn_wf (cns : CnsTable) : (eucUnitFn cns).WF where
  done_iff := by
    intro bs
    constructor
    · intro h
      unfold eucUnitFn at h
      cases hu : eucTwUnit cns bs <;> simp [hu] at h
      exact eucTwUnit_done cns bs hu
    · rintro rfl; rfl
  char_len := by
    intro bs len ch h
    unfold eucUnitFn at h
    cases hu : eucTwUnit cns bs with
    | done | illegal | incomplete => simp [hu] at h
    | ascii c =>
      simp only [hu, Unit1.char.injEq] at h
      obtain ⟨b, rest, rfl, _, _⟩ := eucTwUnit_ascii cns bs c hu
      simp only [List.length_cons]; omega
    | two r c ch' =>
      simp only [hu, Unit1.char.injEq] at h
      obtain ⟨b, b2, rest, rfl, _, _⟩ := eucTwUnit_two cns bs r c ch' hu
      simp only [List.length_cons]; omega
    | four p r c ch' =>
      simp only [hu, Unit1.char.injEq] at h
      obtain ⟨b, b2, b3, b4, rest, rfl, _⟩ := eucTwUnit_four cns bs p r c ch' hu
      simp only [List.length_cons]; omega

theorem eucTwDecodeLoop_eq (cns : CnsTable) : ∀ (fuel i : Nat) (bs : List UInt8),
    eucTwDecodeLoop cns fuel i bs = unitDecodeLoop (eucUnitFn cns) fuel i bs := by
  intro fuel
  induction fuel with
  | zero => intro i bs; rfl
  | succ fuel ih =>
    intro i bs
    simp only [eucTwDecodeLoop, unitDecodeLoop, eucUnitFn]
    cases eucTwUnit cns bs <;> simp only [ih]

theorem eucTwEncodeFrom_eq (inv : CnsInverse) : ∀ (cs : List Nat) (i : Nat),
    eucTwEncodeFrom inv i cs = encodeAllFrom (eucTwEncodeChar inv) i cs := by
  intro cs
  induction cs with
  | nil => intro i; rfl
  | cons c cs ih =>
    intro i
    simp only [eucTwEncodeFrom, encodeAllFrom, ih]
    cases eucTwEncodeChar inv c <;> rfl

theorem eucTwEncodeChar_max (inv : CnsInverse) (c : Nat) (u : List UInt8) (h : eucTwEncodeChar inv c = some u) : u.length ≤ 4 := by
  unfold eucTwEncodeChar at h
  split at h
  · cases h; simp
  · split at h
    · split at h
      · cases h; simp
      · cases h
    · split at h <;> (cases h; simp)

/-! ## a single-byte table behind iconv (glibc's KOI8-T) -/

theorem tableUnitFn_wf (table : List Nat) : (tableUnitFn table).WF where
  done_iff := by
    intro bs
    cases bs with
    | nil => simp [tableUnitFn]
    | cons b rest =>
      simp only [tableUnitFn]
      constructor
      · intro h
        split at h
        · cases h
        · split at h <;> cases h
      · intro h; cases h
  char_len := by
    intro bs len ch h
    cases bs with
    | nil => simp [tableUnitFn] at h
    | cons b rest =>
      simp only [tableUnitFn] at h
      split at h
      · cases h
      · split at h
        · cases h
        · cases h; simp

/-- unit by unit = `charmap_decode`, but for the end of the error span (iconv reports an offset only) -/
theorem tableDecode_eq (table : List Nat) : ∀ (bs : List UInt8) (fuel i : Nat), bs.length ≤ fuel →
    unitDecodeLoop (tableUnitFn table) fuel i bs =
      match charmapDecodeFrom table i bs with
      | .ok cs => .ok cs
      | .error (s, _) => .error (s, false) := by
  intro bs
  induction bs with
  | nil => intro fuel i _; cases fuel <;> simp [unitDecodeLoop, tableUnitFn, charmapDecodeFrom]
  | cons b rest ih =>
    intro fuel i hf
    cases fuel with
    | zero => simp at hf
    | succ fuel =>
      simp only [List.length_cons] at hf
      simp only [unitDecodeLoop, tableUnitFn, charmapDecodeFrom]
      cases hb : table[b.toNat]? with
      | none => simp
      | some c =>
        by_cases hc : c = undefinedCp
        · simp [hc]
        · simp only [hc, if_false, List.drop_succ_cons, List.drop_zero, ih fuel (i + 1) (by omega)]
          cases charmapDecodeFrom table (i + 1) rest <;> simp [Except.map]

theorem sbEncodeChar_max (table : List Nat) (c : Nat) (u : List UInt8) (h : sbEncodeChar table c = some u) : u.length ≤ 4 := by
  unfold sbEncodeChar at h
  split at h
  · cases h; simp
  · split at h
    · cases h; simp
    · cases h

/-- on texts without TAG characters the iconv-backed encoder is `charmap_encode`, but for the end of the error span -/
theorem sbEncode_eq (table : List Nat) : ∀ (cs : List Nat) (i : Nat), (∀ c ∈ cs, isTag c = false) →
    encodeAllFrom (sbEncodeChar table) i cs =
      match charmapEncodeFrom (encLookup table) i cs with
      | .ok bs => .ok bs
      | .error (s, _) => .error s := by
  intro cs
  induction cs with
  | nil => intro i _; rfl
  | cons c cs ih =>
    intro i ht
    have htc := ht c (by simp)
    simp only [encodeAllFrom, sbEncodeChar, charmapEncodeFrom]
    cases hc : encLookup table c with
    | none => simp [htc]
    | some b =>
      simp only [ih (i + 1) (fun x hx => ht x (List.mem_cons_of_mem _ hx))]
      cases charmapEncodeFrom (encLookup table) (i + 1) cs <;> simp [Except.map]

end I18n.Charset
