import I18n.Lemmas.DateFix
/- The two date regexes, as `sre_parse` trees dumped from the live module (`Generated.DateTables.parseDateRe`,
   `boilerplateRe`), mean what the specification says: `Written` and `HasBoilerplate`. -/
set_option linter.unusedSimpArgs false
namespace I18n.Date
open I18n.Spec.Date I18n.Spec.DateRe I18n.Generated

/-! ### the expected trees, in named parts -/

def D (n : Nat) : Re := .rep [.range '0' '9'] n (some n)
def reDate : Re := .group 1 (.seq (D 4) (.seq (.lit '-') (.seq (D 2) (.seq (.lit '-') (D 2)))))
def reSep : Re := .alt (.rep [.space] 1 none) (.lit 'T')
def reTime : Re := .group 2 (.seq (D 2) (.seq (.lit ':') (D 2)))
def reSecs : Re := .opt (.seq (.lit ':') (D 2))
def reGap : Re := .rep [.space] 0 none
def reNum : Re :=
  .seq (.opt (.words [['G','M','T'], ['U','T','C']]))
    (.seq (.group 3 (.seq (.set [.chr '+', .chr '-']) (D 2))) (.seq (.opt (.lit ':')) (.group 4 (D 2))))
def reAbbr : Re := .seq (.opt (.lit '+')) (.group 5 (.words (DateTables.timezones.map Prod.fst)))
def reZone : Re := .opt (.alt reNum reAbbr)
def dateRe : Re := .seq .bol (.seq reDate (.seq reSep (.seq reTime (.seq reSecs (.seq reGap (.seq reZone .eol))))))

theorem parseDateRe_eq : DateTables.parseDateRe = dateRe := rfl

/-! ### semantics of the parts -/

theorem inCls_digit (c : Char) : inCls White [.range '0' '9'] c ↔ AsciiDigit c := by
  simp [inCls, ClsItem.has, AsciiDigit]

theorem inCls_space (c : Char) : inCls White [.space] c ↔ White c := by
  simp [inCls, ClsItem.has]

theorem M_D (n : Nat) (pre s post : List Char) (caps : Caps) :
    (D n).M White pre s post caps ↔ Digits n s ∧ caps = [] := by
  simp only [D, Re.M, inCls_digit, Digits, Option.some.injEq, forall_eq']
  constructor
  · rintro ⟨h1, h2, h3, h4⟩; exact ⟨⟨by omega, h3⟩, h4⟩
  · rintro ⟨⟨h1, h3⟩, h4⟩; exact ⟨by omega, by omega, h3, h4⟩

theorem M_date (pre s post : List Char) (caps : Caps) :
    reDate.M White pre s post caps ↔ IsDate s ∧ caps = [(1, s)] := by
  simp only [reDate, Re.M, M_D]
  constructor
  · rintro ⟨c, ⟨y, r1, c1, c2, rfl, rfl, ⟨hy, rfl⟩, l1, r2, c3, c4, rfl, rfl, ⟨rfl, rfl⟩, m, r3, c5, c6, rfl, rfl, ⟨hm, rfl⟩,
      l2, dd, c7, c8, rfl, rfl, ⟨rfl, rfl⟩, hd, rfl⟩, rfl⟩
    exact ⟨⟨y, m, dd, by simp, hy, hm, hd⟩, rfl⟩
  · rintro ⟨⟨y, m, dd, rfl, hy, hm, hd⟩, rfl⟩
    exact ⟨[], ⟨y, '-' :: m ++ '-' :: dd, [], [], by simp, rfl, ⟨hy, rfl⟩, ['-'], m ++ '-' :: dd, [], [], rfl, rfl, ⟨rfl, rfl⟩,
      m, '-' :: dd, [], [], rfl, rfl, ⟨hm, rfl⟩, ['-'], dd, [], [], rfl, rfl, ⟨rfl, rfl⟩, hd, rfl⟩, rfl⟩

theorem M_time (pre s post : List Char) (caps : Caps) :
    reTime.M White pre s post caps ↔ IsTime s ∧ caps = [(2, s)] := by
  simp only [reTime, Re.M, M_D]
  constructor
  · rintro ⟨c, ⟨y, r1, c1, c2, rfl, rfl, ⟨hy, rfl⟩, l1, m, c3, c4, rfl, rfl, ⟨rfl, rfl⟩, hm, rfl⟩, rfl⟩
    exact ⟨⟨y, m, by simp, hy, hm⟩, rfl⟩
  · rintro ⟨⟨y, m, rfl, hy, hm⟩, rfl⟩
    exact ⟨[], ⟨y, ':' :: m, [], [], by simp, rfl, ⟨hy, rfl⟩, [':'], m, [], [], rfl, rfl, ⟨rfl, rfl⟩, hm, rfl⟩, rfl⟩

theorem M_sep (pre s post : List Char) (caps : Caps) :
    reSep.M White pre s post caps ↔ IsSep s ∧ caps = [] := by
  simp only [reSep, Re.M, inCls_space, IsSep]
  constructor
  · rintro (⟨h1, _, h3, rfl⟩ | ⟨rfl, rfl⟩)
    · refine ⟨Or.inr ⟨?_, h3⟩, rfl⟩
      intro e; rw [e] at h1; simp at h1
    · exact ⟨Or.inl rfl, rfl⟩
  · rintro ⟨rfl | ⟨h1, h2⟩, rfl⟩
    · exact Or.inr ⟨rfl, rfl⟩
    · refine Or.inl ⟨?_, by simp, h2, rfl⟩
      cases s with
      | nil => exact absurd rfl h1
      | cons a s => simp

theorem M_secs (pre s post : List Char) (caps : Caps) :
    reSecs.M White pre s post caps ↔ IsSecs s ∧ caps = [] := by
  simp only [reSecs, Re.M, M_D, IsSecs]
  constructor
  · rintro (⟨rfl, rfl⟩ | ⟨l, d, c1, c2, rfl, rfl, ⟨rfl, rfl⟩, hd, rfl⟩)
    · exact ⟨Or.inl rfl, rfl⟩
    · exact ⟨Or.inr ⟨d, rfl, hd⟩, rfl⟩
  · rintro ⟨rfl | ⟨d, rfl, hd⟩, rfl⟩
    · exact Or.inl ⟨rfl, rfl⟩
    · exact Or.inr ⟨[':'], d, [], [], rfl, rfl, ⟨rfl, rfl⟩, hd, rfl⟩

theorem M_gap (pre s post : List Char) (caps : Caps) :
    reGap.M White pre s post caps ↔ IsGap s ∧ caps = [] := by
  simp [reGap, Re.M, inCls_space, IsGap]

def zoneCaps : ZoneSpec → Caps
  | .numeric sg hh mm => [(3, sg :: hh), (4, mm)]
  | .abbr a => [(5, a)]
  | .absent => []

theorem M_num (pre s post : List Char) (caps : Caps) :
    reNum.M White pre s post caps ↔ ∃ sg hh mm, ZoneWritten s (.numeric sg hh mm) ∧ caps = zoneCaps (.numeric sg hh mm) := by
  simp only [reNum, Re.M, M_D, ZoneWritten, zoneCaps, inCls, ClsItem.has, List.mem_cons, List.not_mem_nil, or_false]
  constructor
  · rintro ⟨p, r1, c1, c2, rfl, rfl, hp, g3, r2, c3, c4, rfl, rfl, ⟨c5, ⟨sgl, hh, c6, c7, rfl, rfl, ⟨⟨sg, rfl, i, hi, hsg⟩, rfl⟩, hhh, rfl⟩, rfl⟩,
      col, mm, c8, c9, rfl, rfl, hcol, c10, ⟨hmm, rfl⟩, rfl⟩
    have hsg' : sg = '+' ∨ sg = '-' := by
      rcases hi with rfl | rfl <;> simp [ClsItem.has] at hsg <;> simp [hsg]
    refine ⟨sg, hh, mm, ⟨p, col, by simp, ?_, ?_, hsg', hhh, hmm⟩, ?_⟩
    · rcases hp with ⟨rfl, _⟩ | ⟨hp, _⟩
      · exact Or.inl rfl
      · rcases hp with rfl | rfl
        · exact Or.inr (Or.inl rfl)
        · exact Or.inr (Or.inr rfl)
    · rcases hcol with ⟨rfl, _⟩ | ⟨rfl, _⟩
      · exact Or.inl rfl
      · exact Or.inr rfl
    · rcases hp with ⟨_, rfl⟩ | ⟨_, rfl⟩ <;> rcases hcol with ⟨_, rfl⟩ | ⟨_, rfl⟩ <;> simp
  · rintro ⟨sg, hh, mm, ⟨p, col, rfl, hp, hcol, hsg, hhh, hmm⟩, rfl⟩
    refine ⟨p, sg :: hh ++ col ++ mm, [], [(3, sg :: hh), (4, mm)], by simp, rfl, ?_, sg :: hh, col ++ mm, [(3, sg :: hh)], [(4, mm)],
      by simp, rfl, ⟨[], ⟨[sg], hh, [], [], rfl, rfl, ⟨⟨sg, rfl, ?_⟩, rfl⟩, hhh, rfl⟩, rfl⟩, col, mm, [], [(4, mm)], rfl, rfl, ?_, [], ⟨hmm, rfl⟩, rfl⟩
    · rcases hp with rfl | rfl | rfl
      · exact Or.inl ⟨rfl, rfl⟩
      · exact Or.inr ⟨Or.inl rfl, rfl⟩
      · exact Or.inr ⟨Or.inr rfl, rfl⟩
    · rcases hsg with rfl | rfl
      · exact ⟨.chr '+', Or.inl rfl, rfl⟩
      · exact ⟨.chr '-', Or.inr rfl, rfl⟩
    · rcases hcol with rfl | rfl
      · exact Or.inl ⟨rfl, rfl⟩
      · exact Or.inr ⟨rfl, rfl⟩

theorem known_mem (a : List Char) : a ∈ DateTables.timezones.map Prod.fst ↔ KnownAbbr a := by
  simp only [List.mem_map, KnownAbbr]

theorem M_abbr (pre s post : List Char) (caps : Caps) :
    reAbbr.M White pre s post caps ↔ ∃ a, ZoneWritten s (.abbr a) ∧ caps = zoneCaps (.abbr a) := by
  simp only [reAbbr, Re.M, ZoneWritten, zoneCaps, known_mem]
  constructor
  · rintro ⟨p, a, c1, c2, rfl, rfl, hp, c3, ⟨hk, rfl⟩, rfl⟩
    rcases hp with ⟨rfl, rfl⟩ | ⟨rfl, rfl⟩
    · exact ⟨a, ⟨Or.inl rfl, hk⟩, rfl⟩
    · exact ⟨a, ⟨Or.inr rfl, hk⟩, rfl⟩
  · rintro ⟨a, ⟨hs | hs, hk⟩, rfl⟩
    · rw [hs]; exact ⟨[], a, [], [(5, a)], rfl, rfl, Or.inl ⟨rfl, rfl⟩, [], ⟨hk, rfl⟩, rfl⟩
    · rw [hs]; exact ⟨['+'], a, [], [(5, a)], rfl, rfl, Or.inr ⟨rfl, rfl⟩, [], ⟨hk, rfl⟩, rfl⟩

theorem M_zone (pre s post : List Char) (caps : Caps) :
    reZone.M White pre s post caps ↔ ∃ z, ZoneWritten s z ∧ caps = zoneCaps z := by
  have hn := M_num pre s post caps
  have ha := M_abbr pre s post caps
  simp only [reZone, Re.M] at *
  rw [hn, ha]
  constructor
  · rintro (⟨rfl, rfl⟩ | ⟨sg, hh, mm, h⟩ | ⟨a, h⟩)
    · exact ⟨.absent, rfl, rfl⟩
    · exact ⟨_, h⟩
    · exact ⟨_, h⟩
  · rintro ⟨z, hz, hc⟩
    cases z with
    | numeric sg hh mm => exact Or.inr (Or.inl ⟨sg, hh, mm, hz, hc⟩)
    | abbr a => exact Or.inr (Or.inr ⟨a, hz, hc⟩)
    | absent => exact Or.inl ⟨hz, hc⟩

/-! ### the whole `_parse_date` -/

def dateCaps (d t : List Char) (z : ZoneSpec) : Caps := (1, d) :: (2, t) :: zoneCaps z

theorem M_seq_intro {a b : Re} {pre s1 s2 post : List Char} {c1 c2 : Caps}
    (h1 : a.M White pre s1 (s2 ++ post) c1) (h2 : b.M White (pre ++ s1) s2 post c2) :
    (Re.seq a b).M White pre (s1 ++ s2) post (c1 ++ c2) := ⟨s1, s2, c1, c2, rfl, rfl, h1, h2⟩

theorem match_dateRe (s : List Char) (caps : Caps) :
    Match White dateRe s caps ↔
      ∃ body post, s = body ++ post ∧ (post = [] ∨ post = ['\n']) ∧ ∃ d t z, Written body d t z ∧ caps = dateCaps d t z := by
  constructor
  · simp only [Match, dateRe, Re.M, M_date, M_sep, M_time, M_secs, M_gap, M_zone]
    rintro ⟨m, post, rfl, s0, r0, c0, c0', rfl, rfl, ⟨rfl, -, rfl⟩, d, r1, c1, c1', rfl, rfl, ⟨hd, rfl⟩, sep, r2, c2, c2', rfl, rfl,
      ⟨hsep, rfl⟩, t, r3, c3, c3', rfl, rfl, ⟨ht, rfl⟩, secs, r4, c4, c4', rfl, rfl, ⟨hsecs, rfl⟩, gap, r5, c5, c5', rfl, rfl,
      ⟨hgap, rfl⟩, ztxt, r6, c6, c6', rfl, rfl, ⟨z, hz, rfl⟩, rfl, hpost, rfl⟩
    refine ⟨_, post, rfl, hpost, d, t, z, ⟨sep, secs, gap, ztxt, by simp, hd, hsep, ht, hsecs, hgap, hz⟩, by simp [dateCaps]⟩
  · rintro ⟨body, post, rfl, hpost, d, t, z, ⟨sep, secs, gap, ztxt, rfl, hd, hsep, ht, hsecs, hgap, hz⟩, rfl⟩
    refine ⟨_, post, rfl, ?_⟩
    have e : d ++ sep ++ t ++ secs ++ gap ++ ztxt = [] ++ (d ++ (sep ++ (t ++ (secs ++ (gap ++ (ztxt ++ [])))))) := by simp
    have ec : dateCaps d t z = [] ++ ([(1, d)] ++ ([] ++ ([(2, t)] ++ ([] ++ ([] ++ (zoneCaps z ++ [])))))) := by simp [dateCaps]
    rw [e, ec]
    unfold dateRe
    refine M_seq_intro ⟨rfl, rfl, rfl⟩ (M_seq_intro ((M_date _ _ _ _).mpr ⟨hd, rfl⟩) (M_seq_intro ((M_sep _ _ _ _).mpr ⟨hsep, rfl⟩)
      (M_seq_intro ((M_time _ _ _ _).mpr ⟨ht, rfl⟩) (M_seq_intro ((M_secs _ _ _ _).mpr ⟨hsecs, rfl⟩)
      (M_seq_intro ((M_gap _ _ _ _).mpr ⟨hgap, rfl⟩) (M_seq_intro ((M_zone _ _ _ _).mpr ⟨z, hz, rfl⟩) ⟨rfl, hpost, rfl⟩))))))

theorem white_nl : White '\n' := (isSpace_iff '\n').mp (by decide)

/-- for a string that does not end in white space (what `strip()` returns) the regex matches exactly the strings of
    the grammar `Written`, and captures exactly what is written -/
theorem match_dateRe_stripped {s : List Char} (hlast : ∀ c, s.getLast? = some c → ¬ White c) (caps : Caps) :
    Match White dateRe s caps ↔ ∃ d t z, Written s d t z ∧ caps = dateCaps d t z := by
  rw [match_dateRe]
  constructor
  · rintro ⟨body, post, rfl, hpost | hpost, h⟩
    · subst hpost; simpa using h
    · subst hpost
      exact absurd white_nl (hlast '\n' (by simp))
  · rintro h
    exact ⟨s, [], by simp, Or.inl rfl, h⟩

/-! ### `_search_for_date_boilerplate` -/

/-- literal characters, then `r` -/
def litsThen : List Char → Re → Re
  | [], r => r
  | c :: cs, r => .seq (.lit c) (litsThen cs r)

theorem M_litsThen (w : List Char) (r : Re) (pre s post : List Char) (caps : Caps) :
    (litsThen w r).M White pre s post caps ↔ ∃ s2, s = w ++ s2 ∧ r.M White (pre ++ w) s2 post caps := by
  induction w generalizing pre s caps with
  | nil => simp [litsThen]
  | cons c cs ih =>
    simp only [litsThen, Re.M, ih]
    constructor
    · rintro ⟨s1, s2, c1, c2, rfl, rfl, ⟨rfl, rfl⟩, s3, rfl, h⟩
      exact ⟨s3, by simp, by simpa using h⟩
    · rintro ⟨s2, rfl, h⟩
      exact ⟨[c], cs ++ s2, [], caps, by simp, rfl, ⟨rfl, rfl⟩, s2, rfl, by simpa using h⟩

def boilRe : Re :=
  .alt (.seq .bol (litsThen ['Y','E','A','R'] (.lit '-')))
  (.alt (litsThen ['-','M','O'] (.lit '-'))
  (.alt (litsThen ['-','D','A'] (.set [.space]))
  (.alt (.seq (.set [.space]) (litsThen ['H','O'] (.lit ':')))
  (.alt (litsThen [':','M','I'] (.alt (.lit '+') .eol))
        (litsThen ['+','Z','O','N','E'] .eol)))))

theorem boilerplateRe_eq : DateTables.boilerplateRe = boilRe := rfl

/-- the placeholder test with Python's `$` (end of string, or before a final newline) -/
def HasBoilerplateNl (s : List Char) : Prop :=
  HasBoilerplate s ∨ (∃ l, s = l ++ [':','M','I','\n']) ∨ (∃ l, s = l ++ ['+','Z','O','N','E','\n'])

theorem search_boilRe (s : List Char) : Search White boilRe s ↔ HasBoilerplateNl s := by
  simp only [Search, boilRe, Re.M, M_litsThen, inCls_space, HasBoilerplateNl, HasBoilerplate]
  constructor
  · rintro ⟨pre, m, post, caps, rfl, h⟩
    rcases h with ⟨s1, s2, c1, c2, rfl, rfl, ⟨rfl, rfl, rfl⟩, s3, rfl, rfl, rfl⟩
      | ⟨s3, rfl, rfl, rfl⟩
      | ⟨s3, rfl, ⟨c, rfl, hc⟩, rfl⟩
      | ⟨s1, s2, c1, c2, rfl, rfl, ⟨⟨c, rfl, hc⟩, rfl⟩, s3, rfl, rfl, rfl⟩
      | ⟨s3, rfl, (⟨rfl, rfl⟩ | ⟨rfl, hp, rfl⟩)⟩
      | ⟨s3, rfl, rfl, hp, rfl⟩
    · exact Or.inl (Or.inl ⟨post, by simp⟩)
    · exact Or.inl (Or.inr (Or.inl ⟨pre, post, by simp⟩))
    · exact Or.inl (Or.inr (Or.inr (Or.inl ⟨pre, c, post, by simp, hc⟩)))
    · exact Or.inl (Or.inr (Or.inr (Or.inr (Or.inl ⟨pre, c, post, by simp, hc⟩))))
    · exact Or.inl (Or.inr (Or.inr (Or.inr (Or.inr (Or.inr (Or.inl ⟨pre, post, by simp⟩))))))
    · rcases hp with rfl | rfl
      · exact Or.inl (Or.inr (Or.inr (Or.inr (Or.inr (Or.inl ⟨pre, by simp⟩)))))
      · exact Or.inr (Or.inl ⟨pre, by simp⟩)
    · rcases hp with rfl | rfl
      · exact Or.inl (Or.inr (Or.inr (Or.inr (Or.inr (Or.inr (Or.inr ⟨pre, by simp⟩))))))
      · exact Or.inr (Or.inr ⟨pre, by simp⟩)
  · rintro ((⟨r, rfl⟩ | ⟨l, r, rfl⟩ | ⟨l, c, r, rfl, hc⟩ | ⟨l, c, r, rfl, hc⟩ | ⟨l, rfl⟩ | ⟨l, r, rfl⟩ | ⟨l, rfl⟩) | ⟨l, rfl⟩ | ⟨l, rfl⟩)
    · exact ⟨[], ['Y','E','A','R','-'], r, [], by simp, Or.inl ⟨[], _, [], [], rfl, rfl, ⟨rfl, rfl, rfl⟩, ['-'], rfl, rfl, rfl⟩⟩
    · exact ⟨l, ['-','M','O','-'], r, [], by simp, Or.inr (Or.inl ⟨['-'], rfl, rfl, rfl⟩)⟩
    · exact ⟨l, ['-','D','A', c], r, [], by simp, Or.inr (Or.inr (Or.inl ⟨[c], rfl, ⟨c, rfl, hc⟩, rfl⟩))⟩
    · exact ⟨l, [c, 'H','O',':'], r, [], by simp,
        Or.inr (Or.inr (Or.inr (Or.inl ⟨[c], ['H','O',':'], [], [], rfl, rfl, ⟨⟨c, rfl, hc⟩, rfl⟩, [':'], rfl, rfl, rfl⟩)))⟩
    · exact ⟨l, [':','M','I'], [], [], by simp, Or.inr (Or.inr (Or.inr (Or.inr (Or.inl ⟨[], rfl, Or.inr ⟨rfl, Or.inl rfl, rfl⟩⟩))))⟩
    · exact ⟨l, [':','M','I','+'], r, [], by simp, Or.inr (Or.inr (Or.inr (Or.inr (Or.inl ⟨['+'], rfl, Or.inl ⟨rfl, rfl⟩⟩))))⟩
    · exact ⟨l, ['+','Z','O','N','E'], [], [], by simp, Or.inr (Or.inr (Or.inr (Or.inr (Or.inr ⟨[], rfl, rfl, Or.inl rfl, rfl⟩))))⟩
    · exact ⟨l, [':','M','I'], ['\n'], [], by simp, Or.inr (Or.inr (Or.inr (Or.inr (Or.inl ⟨[], rfl, Or.inr ⟨rfl, Or.inr rfl, rfl⟩⟩))))⟩
    · exact ⟨l, ['+','Z','O','N','E'], ['\n'], [], by simp, Or.inr (Or.inr (Or.inr (Or.inr (Or.inr ⟨[], rfl, rfl, Or.inr rfl, rfl⟩))))⟩

theorem search_boilRe_stripped {s : List Char} (hlast : ∀ c, s.getLast? = some c → ¬ White c) :
    Search White boilRe s ↔ HasBoilerplate s := by
  rw [search_boilRe]
  constructor
  · rintro (h | ⟨l, rfl⟩ | ⟨l, rfl⟩)
    · exact h
    · exact absurd white_nl (hlast '\n' (by simp))
    · exact absurd white_nl (hlast '\n' (by simp))
  · exact Or.inl

end I18n.Date
