import I18n.Model.PyFmt
/-!
# The model of `Conversion.__init__` against the probes of the live module

`tools/translate/pyfmt2lean.py` runs `FormatString` on ~1500 single directives (every conversion x flag sets x precision kinds
x length) and on the widths/precisions around `SSIZE_MAX`, and dumps outcome and warnings.  Here the *model* is evaluated
on the same directives by the kernel and compared: a change of the flag/precision/length/range logic in the source changes
the generated table and breaks these lemmas at build time.
-/
namespace I18n.PyFmt
open I18n.Generated.PyFormatTables

def errCode : PErr → Nat
  | .Error => 1 | .ForbiddenArgumentKey => 2 | .ArgumentIndexingMixture => 3 | .ArgumentTypeMismatch => 4
  | .WidthRangeError => 5 | .PrecisionRangeError => 6 | .crash _ => 99

def warnCode : Warn → Nat
  | .RedundantFlag => 0 | .RedundantPrecision => 1 | .RedundantLength => 2 | .ObsoleteConversion => 3

/-- outcome and warnings of the model, in the encoding of the generated tables -/
def probe (s : List Char) : Nat × List Nat :=
  match parse s with
  | .ok r => (0, r.warnings.map warnCode)
  | .error e => (errCode e, [])

set_option maxRecDepth 100000 in
theorem warnTable_pin : warnTable.all (fun row => probe row.1 == row.2) = true := by decide +kernel

set_option maxRecDepth 100000 in
theorem rangeTable_pin : rangeTable.all (fun row => probe row.1 == row.2) = true := by decide +kernel

end I18n.PyFmt
