import I18n.Model.Locale
/-
The tables the code has loaded (`Generated.Locale.iso639`, `iso3166`) ARE what `_read_iso_codes` builds from the rows of
data/iso-codes (`Generated.Locale.languageCodes`, `territoryKeys`): pins by kernel evaluation, and the dict law of the bucket
representation, from which every entry of the table is traced back to a row of the data file.
-/
namespace I18n.Locale
open I18n

/-! ### `d[k] = v` writes nothing but `k ↦ v` -/

theorem assocSet_lookup (b : List (List Char × List Char)) (k v k' v' : List Char)
    (h : (assocSet b k v).lookup k' = some v') : (k' = k ∧ v' = v) ∨ b.lookup k' = some v' := by
  unfold assocSet at h
  split at h
  · rename_i hany; clear hany
    induction b with
    | nil => simp at h
    | cons e t ih =>
      obtain ⟨a, x⟩ := e
      simp only [List.map] at h
      by_cases ha : a = k
      · subst ha
        simp only [beq_self_eq_true, if_true, List.lookup] at h
        by_cases hk : k' = a
        · subst hk
          simp at h
          exact Or.inl ⟨rfl, h.symm⟩
        · have hb : (k' == a) = false := by simpa using hk
          simp only [hb] at h
          rcases ih h with h' | h'
          · exact Or.inl h'
          · right; simp [List.lookup, hb, h']
      · have hb : (a == k) = false := by simpa using ha
        simp only [hb, Bool.false_eq_true, if_false, List.lookup] at h
        by_cases hk : k' = a
        · subst hk
          simp at h
          right; simp [List.lookup, h]
        · have hb' : (k' == a) = false := by simpa using hk
          simp only [hb'] at h
          rcases ih h with h' | h'
          · exact Or.inl h'
          · right; simp [List.lookup, hb', h']
  · rename_i hany; clear hany
    induction b with
    | nil =>
      simp only [List.nil_append, List.lookup] at h
      split at h
      · rename_i hb; cases h; exact Or.inl ⟨by simpa using hb, rfl⟩
      · cases h
    | cons e t ih =>
      obtain ⟨a, x⟩ := e
      simp only [List.cons_append, List.lookup] at h ⊢
      split at h
      · rename_i hb; right; simp [hb, h]
      · rename_i hb
        rcases ih h with h' | h'
        · exact Or.inl h'
        · right; simp [hb, h']

theorem setIn_lookup (T : Buckets) (k v k' v' : List Char) (h : lookupIn (setIn T k v) k' = some v') :
    (k' = k ∧ v' = v) ∨ lookupIn T k' = some v' := by
  cases k with
  | nil => exact Or.inr h
  | cons c kt =>
    cases k' with
    | nil => simp [lookupIn] at h
    | cons c' kt' =>
      simp only [lookupIn, setIn] at h ⊢
      induction T with
      | nil => simp at h
      | cons b t ih =>
        obtain ⟨bc, bl⟩ := b
        simp only [List.map, List.lookup] at h ⊢
        by_cases hbc : bc = c
        · subst hbc
          simp only [if_true] at h
          by_cases hc' : c' = bc
          · subst hc'
            simp only [beq_self_eq_true] at h ⊢
            exact assocSet_lookup bl _ v _ v' h
          · have hb : (c' == bc) = false := by simpa using hc'
            simp only [hb] at h ⊢
            exact ih h
        · simp only [hbc, if_false] at h
          by_cases hc' : c' = bc
          · subst hc'
            simp only [beq_self_eq_true] at h ⊢
            exact Or.inr h
          · have hb : (c' == bc) = false := by simpa using hc'
            simp only [hb] at h ⊢
            exact ih h

/-- what one row of the data file writes -/
def writes (r : List Char × List Char) : List (List Char × List Char) :=
  if r.2 ≠ [] then [(r.2, r.2), (r.1, r.2)] else [(r.1, r.1)]

theorem loadStep_lookup (T : Buckets) (r : List Char × List Char) (k v : List Char)
    (h : lookupIn (loadStep T r) k = some v) : (k, v) ∈ writes r ∨ lookupIn T k = some v := by
  unfold loadStep at h
  unfold writes
  split at h
  · rename_i hr
    rw [if_pos hr]
    rcases setIn_lookup _ _ _ _ _ h with ⟨rfl, rfl⟩ | h
    · left; simp
    · rcases setIn_lookup _ _ _ _ _ h with ⟨rfl, rfl⟩ | h
      · left; simp
      · exact Or.inr h
  · rename_i hr
    rw [if_neg hr]
    rcases setIn_lookup _ _ _ _ _ h with ⟨rfl, rfl⟩ | h
    · left; simp
    · exact Or.inr h

theorem foldl_lookup (rows : List (List Char × List Char)) (T : Buckets) (k v : List Char)
    (h : lookupIn (rows.foldl loadStep T) k = some v) : (∃ r ∈ rows, (k, v) ∈ writes r) ∨ lookupIn T k = some v := by
  induction rows generalizing T with
  | nil => exact Or.inr h
  | cons r t ih =>
    simp only [List.foldl] at h
    rcases ih _ h with ⟨r', hr', hw⟩ | h'
    · exact Or.inl ⟨r', by simp [hr'], hw⟩
    · rcases loadStep_lookup T r k v h' with hw | h''
      · exact Or.inl ⟨r, by simp, hw⟩
      · exact Or.inr h''

theorem empty_lookup (cs : List Char) (k : List Char) : lookupIn (cs.map fun c => (c, ([] : List (List Char × List Char)))) k = none := by
  cases k with
  | nil => rfl
  | cons c kt =>
    simp only [lookupIn]
    induction cs with
    | nil => rfl
    | cons d t ih =>
      simp only [List.map, List.lookup]
      by_cases hcd : c = d
      · subst hcd; simp
      · have hb : (c == d) = false := by simpa using hcd
        simp only [hb]
        exact ih

/-! ### the pins -/

set_option maxRecDepth 100000 in
/-- PIN: the table the code has loaded is the dict the loop of `_read_iso_codes` builds from the rows of data/iso-codes
    (same keys, same values, same insertion order within each bucket) -/
theorem iso639_is_loaded :
    loadIso639 (Generated.Locale.iso639.map (·.1)) Generated.Locale.languageCodes = Generated.Locale.iso639 := by
  decide +kernel

set_option maxRecDepth 100000 in
/-- PIN: `_iso_3166` is the upper-cased key list of the territory section -/
theorem iso3166_is_loaded : loadIso3166 Generated.Locale.territoryKeys = Generated.Locale.iso3166 := by decide +kernel

/-- every entry of the loaded table comes from a row of the data file: a known code is a three-letter code of a row (mapped to
    the row's two-letter equivalent if it has one, else to itself) or the two-letter equivalent of a row (mapped to itself) -/
theorem lookupLanguage_from_data (k v : List Char) (h : lookupLanguage k = some v) :
    ∃ r ∈ Generated.Locale.languageCodes,
      (r.2 ≠ [] ∧ v = r.2 ∧ (k = r.2 ∨ k = r.1)) ∨ (r.2 = [] ∧ k = r.1 ∧ v = r.1) := by
  unfold lookupLanguage at h
  rw [← iso639_is_loaded] at h
  unfold loadIso639 at h
  rcases foldl_lookup _ _ k v h with ⟨r, hr, hw⟩ | h'
  · refine ⟨r, hr, ?_⟩
    unfold writes at hw
    split at hw
    · rename_i hne
      left
      simp at hw
      rcases hw with ⟨rfl, rfl⟩ | ⟨rfl, rfl⟩
      · exact ⟨hne, rfl, Or.inl rfl⟩
      · exact ⟨hne, rfl, Or.inr rfl⟩
    · rename_i hne
      right
      simp at hw hne
      exact ⟨hne, hw.1, hw.2⟩
  · rw [empty_lookup] at h'
    cases h'

/-- conversely every row of the data file is in the table -/
def rowsLoaded (rows : List (List Char × List Char)) : Bool :=
  rows.all fun r =>
    if r.2 ≠ [] then lookupLanguage r.1 == some r.2 && lookupLanguage r.2 == some r.2 else lookupLanguage r.1 == some r.1

set_option maxRecDepth 100000 in
theorem rows_loaded : rowsLoaded Generated.Locale.languageCodes = true := by decide +kernel

theorem lookupLanguage_of_row (r : List Char × List Char) (hr : r ∈ Generated.Locale.languageCodes) :
    (r.2 ≠ [] → lookupLanguage r.1 = some r.2 ∧ lookupLanguage r.2 = some r.2) ∧ (r.2 = [] → lookupLanguage r.1 = some r.1) := by
  have := List.all_eq_true.1 rows_loaded r hr
  constructor
  · intro hne
    rw [if_pos hne] at this
    simpa using this
  · intro he
    rw [if_neg (by simp [he])] at this
    simpa using this

end I18n.Locale
