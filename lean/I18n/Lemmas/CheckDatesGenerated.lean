import I18n.Generated.CheckDates
import I18n.Lemmas.GettextDateGenerated
import I18n.Lemmas.PyKitLemmas
/-!
# `Checker.check_dates` regenerated from `lib/check/__init__.py` equals the hand-written model `Date.checkDates`

The model answers `none` when an exception escapes; the regenerated method raises a particular exception then: the statement is about
`Except.toOption`.  (`C18.NoCrash` shows the model never answers `none`, so the regenerated method never raises: `Props/C18Tie.lean`.)
-/
set_option linter.unusedSimpArgs false
set_option linter.unusedVariables false
namespace I18n.Date.Gen
open I18n I18n.Date I18n.Date.Py I18n.Generated I18n.PyKit

theorem toOption_bind {ε α β : Type} (a : Except ε α) (k : α → Except ε β) :
    (Except.bind a k).toOption = a.toOption.bind (fun x => (k x).toOption) := by
  cases a <;> rfl

/-- a loop whose body appends to the output, against the recursive "all or nothing" collection of the model -/
theorem forEach_collect {α τ ε : Type} (body : α → List τ → Except ε (List τ)) (g : α → Option (List τ))
    (all : List α → Option (List τ))
    (hnil : all [] = some [])
    (hcons : ∀ x xs, all (x :: xs) = (g x).bind (fun a => (all xs).map (a ++ ·)))
    (hbody : ∀ x out, (body x out).toOption = (g x).map (out ++ ·)) :
    ∀ xs out, (PyKit.forEach xs body out).toOption = (all xs).map (out ++ ·) := by
  intro xs
  induction xs with
  | nil => intro out; simp [PyKit.forEach, hnil, Except.toOption]
  | cons x xs ih =>
    intro out
    have hb := hbody x out
    simp only [PyKit.forEach, hcons]
    cases hx : body x out with
    | error e =>
      rw [hx] at hb
      cases hg : g x with
      | none => simp [Option.bind, Except.toOption]
      | some a => rw [hg] at hb; simp [Except.toOption] at hb
    | ok out' =>
      rw [hx] at hb
      cases hg : g x with
      | none => rw [hg] at hb; simp [Except.toOption] at hb
      | some a =>
        rw [hg] at hb
        simp [Except.toOption] at hb
        subst hb
        simp only [ih, Option.bind]
        cases all xs with
        | none => rfl
        | some b => simp [List.append_assoc]

theorem toOption_ok {ε α : Type} (a : α) : (Except.ok a : Except ε α).toOption = some a := rfl
theorem toOption_error {ε α : Type} (e : ε) : (Except.error e : Except ε α).toOption = none := rfl

theorem pot_name : "POT-Creation-Date".toList = Field.pot.name := by decide
theorem po_name : "PO-Revision-Date".toList = Field.po.name := by decide
theorem pot_is_pot : startswith Field.pot.name "POT-".toList = true ∧ startswith Field.pot.name "PO-".toList = false := by decide
theorem po_is_po : startswith Field.po.name "POT-".toList = false ∧ startswith Field.po.name "PO-".toList = true := by decide

/-- the body of `for date in dates:` as regenerated, for a field `f` (`isPo`: what `field.startswith('PO-')` answers), = the model's `checkOne` -/
theorem date_body (c : Ctx) (f : Field) (pub isPo : Bool) (hpo : isPo = decide (f = .po))
    (date : List Char) (out : List Tag)
    (neq : List Char → Bool) (hneq : ∀ b, neq b = decide (date ≠ b)) :
    (if (c.isTemplate && isPo && decide (date = DateTables.boilerplateDate)) = true then (Except.ok out : Except DErr (List Tag))
     else
       Except.bind (if (date.contains 'T' && pub) = true then Except.ok (some "-0000".toList) else Except.ok none) (fun tz_hint =>
         PyKit.tryElse (GettextDate.fix_date_format date tz_hint)
           [(isBoilerplate, Except.ok (out ++ [⟨"boilerplate-in-date", [Arg.safe (f.name ++ ":".toList), Arg.str date]⟩])),
            (isDateSyntaxError, Except.ok (out ++ [⟨"invalid-date", [Arg.safe (f.name ++ ":".toList), Arg.str date]⟩]))]
           (fun fixed_date =>
             Except.bind (if neq fixed_date = true then
                 Except.ok (out ++ [⟨"invalid-date", [Arg.safe (f.name ++ ":".toList), Arg.str date, Arg.str "=>".toList, Arg.str fixed_date]⟩])
               else Except.ok out) (fun out =>
               Except.bind (GettextDate.parse_date fixed_date) (fun stamp =>
                 Except.bind (if stampAfter stamp (utcNow c) = true then
                     Except.ok (out ++ [⟨"date-from-future", [Arg.safe (f.name ++ ":".toList), Arg.str date]⟩])
                   else Except.ok out) (fun out =>
                   if stampBeforeEpoch stamp = true then
                     Except.ok (out ++ [⟨"ancient-date", [Arg.safe (f.name ++ ":".toList), Arg.str date]⟩])
                   else Except.ok out)))))).toOption
      = (checkOne c.now f c.isTemplate pub date).map (out ++ ·) := by
  subst hpo
  simp only [hneq]
  unfold checkOne
  by_cases hex : c.isTemplate = true ∧ f = .po ∧ date = DateTables.boilerplateDate
  · obtain ⟨h1, h2, h3⟩ := hex
    simp [h1, h2, h3, toOption_ok]
  · have hex' : (c.isTemplate && decide (f = .po) && decide (date = DateTables.boilerplateDate)) = false := by
      simpa [Bool.and_assoc] using hex
    simp only [hex', Bool.false_eq_true, if_false, hex]
    -- the hint
    have hh : (if (date.contains 'T' && pub) = true then (Except.ok (some "-0000".toList) : Except DErr (Option (List Char))) else Except.ok none)
        = Except.ok (if date.contains 'T' = true ∧ pub = true then some hintPublican else none) := by
      cases date.contains 'T' <;> cases pub <;> rfl
    rw [hh, bind_ok, fix_date_format_eq]
    generalize (if date.contains 'T' = true ∧ pub = true then some hintPublican else none) = hint
    cases hfx : fix date hint with
    | boilerplate => simp [ofOutcome, PyKit.tryElse, isBoilerplate, toOption_ok]
    | syntaxErr => simp [ofOutcome, PyKit.tryElse, isBoilerplate, isDateSyntaxError, DErr.isDateSyntaxError, toOption_ok]
    | hintErr => simp [ofOutcome, PyKit.tryElse, isBoilerplate, isDateSyntaxError, DErr.isDateSyntaxError, toOption_error]
    | assertErr => simp [ofOutcome, PyKit.tryElse, isBoilerplate, isDateSyntaxError, DErr.isDateSyntaxError, toOption_error]
    | ok fixed =>
      simp only [ofOutcome, PyKit.tryElse, ite_ok, bind_ok, parse_date_eq]
      cases parseCanon fixed with
      | none => simp [toOption_error, Except.bind, Except.toOption]
      | some stamp =>
        simp only [bind_ok, ite_ok, toOption_ok, stampAfter, stampBeforeEpoch, utcNow, Option.map]
        by_cases h1 : date = fixed <;> by_cases h2 : stamp.minutes * 60000000 > c.now <;>
          by_cases h3 : stamp.minutes * 60000000 < DateTables.epochMicros <;> simp [h1, h2, h3, List.append_assoc]

theorem checkAll_nil (now : Int) (f : Field) (t p : Bool) : checkAll now f t p [] = some [] := rfl
theorem checkAll_cons (now : Int) (f : Field) (t p : Bool) (d : List Char) (ds : List (List Char)) :
    checkAll now f t p (d :: ds) = (checkOne now f t p d).bind (fun a => (checkAll now f t p ds).map (a ++ ·)) := by
  simp only [checkAll]
  cases checkOne now f t p d with
  | none => rfl
  | some a => cases checkAll now f t p ds <;> rfl

theorem metadata_keys (c : Ctx) :
    metadataGet c "Content-Type".toList = c.contentType.toList ∧ metadataGet c "POT-Creation-Date".toList = c.pot
      ∧ metadataGet c "PO-Revision-Date".toList = c.po := by
  refine ⟨?_, ?_, ?_⟩ <;> unfold metadataGet <;> simp

/-- a loop over two items, each appending to the output -/
theorem forEach_two {α τ ε : Type} (body : α → List τ → Except ε (List τ)) (a b : α) (ga gb : Option (List τ)) (out : List τ)
    (ha : ∀ out, (body a out).toOption = ga.map (out ++ ·)) (hb : ∀ out, (body b out).toOption = gb.map (out ++ ·)) :
    (PyKit.forEach [a, b] body out).toOption =
      (match ga with | none => none | some x => match gb with | none => none | some y => some (x ++ y)).map (out ++ ·) := by
  have h1 := ha out
  simp only [PyKit.forEach]
  cases hx : body a out with
  | error e =>
    rw [hx] at h1
    cases ga with
    | none => rfl
    | some x => simp [Except.toOption] at h1
  | ok o1 =>
    rw [hx] at h1
    cases ga with
    | none => simp [Except.toOption] at h1
    | some x =>
      simp [Except.toOption] at h1
      subst h1
      have h2 := hb (out ++ x)
      simp only []
      cases hy : body b (out ++ x) with
      | error e =>
        rw [hy] at h2
        cases gb with
        | none => rfl
        | some y => simp [Except.toOption] at h2
      | ok o2 =>
        rw [hy] at h2
        cases gb with
        | none => simp [Except.toOption] at h2
        | some y =>
          simp [Except.toOption] at h2
          subst h2
          simp [Except.toOption, List.append_assoc]

theorem cast_gt1 (n : Nat) : ((n : Int) > 1) = (n > 1) := by
  apply propext; constructor <;> intro h <;> omega

theorem cast_eq0 (n : Nat) : ((n : Int) = 0) = (n = 0) := by
  apply propext; constructor <;> intro h <;> omega

/-- the body of `for field in …:` as regenerated, for the field `f` with its values `dates`, = the model's `checkField` -/
theorem field_body (c : Ctx) (f : Field) (isPot isPo : Bool) (hpot : isPot = decide (f = .pot)) (hpo : isPo = decide (f = .po))
    (dates : List (List Char)) (out : List Tag)
    (body : List Char → List Tag → Except DErr (List Tag))
    (hbody : ∀ date out, (body date out).toOption = (checkOne c.now f c.isTemplate (isPublican c.contentType) date).map (out ++ ·)) :
    (if decide ((dates.length : Int) > 1) = true then
        PyKit.forEach (sortedSet dates) body (out ++ [⟨"duplicate-header-field-date", [Arg.str f.name]⟩])
      else if decide ((dates.length : Int) = 0) = true then
        (if (isPot && c.isBinary) = true then Except.ok out else Except.ok (out ++ [⟨"no-date-header-field", [Arg.str f.name]⟩]))
      else PyKit.forEach dates body out).toOption
      = (checkField c f dates).map (out ++ ·) := by
  subst hpot hpo
  have hall := forEach_collect body (checkOne c.now f c.isTemplate (isPublican c.contentType))
    (checkAll c.now f c.isTemplate (isPublican c.contentType)) rfl (fun x xs => checkAll_cons _ _ _ _ x xs) hbody
  unfold checkField
  simp only [cast_gt1, cast_eq0]
  by_cases h1 : dates.length > 1
  · simp only [h1, decide_true, if_true, hall]
    cases checkAll c.now f c.isTemplate (isPublican c.contentType) (sortedSet dates) with
    | none => rfl
    | some ts => simp [List.append_assoc]
  · simp only [h1, decide_false, Bool.false_eq_true, if_false]
    by_cases h0 : dates.length = 0
    · simp only [h0, decide_true, if_true]
      by_cases hb : f = .pot ∧ c.isBinary = true
      · obtain ⟨hb1, hb2⟩ := hb
        simp [hb1, hb2, toOption_ok]
      · have hb' : (decide (f = .pot) && c.isBinary) = false := by simpa using hb
        simp [hb', hb, toOption_ok]
    · simp only [h0, decide_false, Bool.false_eq_true, if_false, hall]

/-- `Checker.check_dates(ctx)` as regenerated = the model's `checkDates` (an exception escaping = `none`) -/
theorem check_dates_eq (c : Ctx) (out : List Tag) :
    (CheckDates.check_dates out c).toOption = (checkDates c).map (out ++ ·) := by
  obtain ⟨hk1, hk2, hk3⟩ := metadata_keys c
  unfold CheckDates.check_dates
  simp only [hk1]
  -- the content type
  have hct : PyKit.tryExcept (listFirst c.contentType.toList) isIndexError (Except.ok ([] : List Char)) = Except.ok (c.contentType.getD []) := by
    cases c.contentType <;> rfl
  rw [hct, bind_ok]
  have hpub : startswith (c.contentType.getD []) "application/x-publican;".toList = isPublican c.contentType := by
    unfold startswith isPublican publicanPrefix
    cases c.contentType with
    | none => rfl
    | some ct => rfl
  simp only [hpub]
  unfold checkDates
  refine (forEach_two _ _ _ (checkField c .pot c.pot) (checkField c .po c.po) out ?ha ?hb).trans ?_
  case ha =>
    intro out
    simp only [hk2, pot_name, pot_is_pot.1, pot_is_pot.2]
    refine field_body c .pot true false (by decide) (by decide) c.pot out _ ?_
    intro date out
    refine date_body c .pot (isPublican c.contentType) false (by decide) date out _ ?_
    intro b; first | rfl | simp [ne_comm]
  case hb =>
    intro out
    simp only [hk3, po_name, po_is_po.1, po_is_po.2]
    refine field_body c .po false true (by decide) (by decide) c.po out _ ?_
    intro date out
    refine date_body c .po (isPublican c.contentType) true (by decide) date out _ ?_
    intro b; first | rfl | simp [ne_comm]
  cases checkField c .pot c.pot with
  | none => rfl
  | some a => cases checkField c .po c.po <;> rfl

end I18n.Date.Gen
