import I18n.Model.Msg
/-
Small facts about the Python pieces of the message-check model: association lists as dictionaries, `sorted(set(·))`,
the string order.
-/
namespace I18n.Msg
open I18n.Tags (Str lit)

/-! ## dictionaries -/

section assoc
variable {α β : Type} [DecidableEq α]

@[simp] theorem assocGet_nil (k : α) : assocGet k ([] : List (α × β)) = none := rfl

theorem assocGet_assocSet_self (k : α) (v : β) (d : List (α × β)) : assocGet k (assocSet k v d) = some v := by
  induction d with
  | nil => simp [assocSet, assocGet]
  | cons x xs ih =>
    obtain ⟨k', v'⟩ := x
    by_cases h : k' = k <;> simp [assocSet, assocGet, h, ih]

theorem assocGet_assocSet_ne {k k' : α} (h : k' ≠ k) (v : β) (d : List (α × β)) :
    assocGet k' (assocSet k v d) = assocGet k' d := by
  induction d with
  | nil => simp [assocSet, assocGet, Ne.symm h]
  | cons x xs ih =>
    obtain ⟨k₁, v₁⟩ := x
    by_cases h₁ : k₁ = k
    · subst h₁; simp [assocSet, assocGet, Ne.symm h]
    · by_cases h₂ : k₁ = k'
      · subst h₂; simp [assocSet, assocGet, h₁]
      · simp [assocSet, assocGet, h₁, h₂, ih]

theorem assocSet_ne_nil (k : α) (v : β) (d : List (α × β)) : assocSet k v d ≠ [] := by
  cases d with
  | nil => simp [assocSet]
  | cons x xs => obtain ⟨k', v'⟩ := x; by_cases h : k' = k <;> simp [assocSet, h]

theorem assocSet_length_pos (k : α) (v : β) (d : List (α × β)) : 0 < (assocSet k v d).length :=
  List.length_pos_iff.mpr (assocSet_ne_nil k v d)

end assoc

/-! ## `sorted(set(·))` -/

section sorted
variable {α : Type} [DecidableEq α] (lt : α → α → Bool)

theorem mem_sinsert {x y : α} {l : List α} : y ∈ sinsert lt x l ↔ y = x ∨ y ∈ l := by
  induction l with
  | nil => simp [sinsert]
  | cons z zs ih =>
    unfold sinsert
    split
    · simp
    · split
      · rename_i h; subst h; simp
      · simp only [List.mem_cons, ih]
        constructor
        · rintro (h | h | h) <;> simp [h]
        · rintro (h | h | h) <;> simp [h]

@[simp] theorem mem_toSorted {y : α} {l : List α} : y ∈ toSorted lt l ↔ y ∈ l := by
  induction l with
  | nil => simp [toSorted]
  | cons x xs ih =>
    have : toSorted lt (x :: xs) = sinsert lt x (toSorted lt xs) := rfl
    rw [this, mem_sinsert, ih]; simp

theorem toSorted_eq_nil {l : List α} : toSorted lt l = [] ↔ l = [] := by
  constructor
  · intro h
    cases l with
    | nil => rfl
    | cons x xs =>
      have : x ∈ toSorted lt (x :: xs) := by simp
      rw [h] at this; simp at this
  · rintro rfl; rfl

/-- a strict total order given by a Boolean `<` -/
structure StrictTotal : Prop where
  irrefl : ∀ a, lt a a = false
  trans : ∀ a b c, lt a b = true → lt b c = true → lt a c = true
  tri : ∀ a b, lt a b = false → a ≠ b → lt b a = true

variable {lt}

theorem pairwise_sinsert (h : StrictTotal lt) (x : α) {l : List α} (hl : l.Pairwise (fun a b => lt a b = true)) :
    (sinsert lt x l).Pairwise (fun a b => lt a b = true) := by
  induction l with
  | nil => simp [sinsert]
  | cons y ys ih =>
    rw [List.pairwise_cons] at hl
    unfold sinsert
    split
    · rename_i hxy
      refine List.pairwise_cons.mpr ⟨?_, List.pairwise_cons.mpr hl⟩
      intro z hz
      rcases List.mem_cons.mp hz with rfl | hz
      · exact hxy
      · exact h.trans _ _ _ hxy (hl.1 z hz)
    · rename_i hxy
      split
      · exact List.pairwise_cons.mpr hl
      · rename_i hne
        refine List.pairwise_cons.mpr ⟨?_, ih hl.2⟩
        intro z hz
        rcases (mem_sinsert lt).mp hz with rfl | hz
        · exact h.tri _ _ (by simpa using hxy) hne
        · exact hl.1 z hz

theorem pairwise_toSorted (h : StrictTotal lt) (l : List α) : (toSorted lt l).Pairwise (fun a b => lt a b = true) := by
  induction l with
  | nil => simp [toSorted]
  | cons x xs ih => exact pairwise_sinsert h x ih

omit [DecidableEq α] in
/-- a strictly sorted list is determined by its members -/
theorem sorted_ext (h : StrictTotal lt) : ∀ {l₁ l₂ : List α}, l₁.Pairwise (fun a b => lt a b = true) →
    l₂.Pairwise (fun a b => lt a b = true) → (∀ x, x ∈ l₁ ↔ x ∈ l₂) → l₁ = l₂
  | [], [], _, _, _ => rfl
  | [], y :: ys, _, _, hm => by have := (hm y).mpr (by simp); simp at this
  | x :: xs, [], _, _, hm => by have := (hm x).mp (by simp); simp at this
  | x :: xs, y :: ys, h₁, h₂, hm => by
    rw [List.pairwise_cons] at h₁ h₂
    have hxy : x = y := by
      rcases List.mem_cons.mp ((hm x).mp (by simp)) with hx | hx
      · exact hx
      · rcases List.mem_cons.mp ((hm y).mpr (by simp)) with hy | hy
        · exact hy.symm
        · have a := h₂.1 x hx
          have b := h₁.1 y hy
          have := h.trans _ _ _ a b
          rw [h.irrefl] at this; cases this
    subst hxy
    have : xs = ys := by
      apply sorted_ext h h₁.2 h₂.2
      intro z
      constructor
      · intro hz
        rcases List.mem_cons.mp ((hm z).mp (List.mem_cons_of_mem _ hz)) with rfl | hz'
        · have := h₁.1 z hz; rw [h.irrefl] at this; cases this
        · exact hz'
      · intro hz
        rcases List.mem_cons.mp ((hm z).mpr (List.mem_cons_of_mem _ hz)) with rfl | hz'
        · have := h₂.1 z hz; rw [h.irrefl] at this; cases this
        · exact hz'
    rw [this]

theorem toSorted_congr (h : StrictTotal lt) {l₁ l₂ : List α} (hm : ∀ x, x ∈ l₁ ↔ x ∈ l₂) :
    toSorted lt l₁ = toSorted lt l₂ :=
  sorted_ext h (pairwise_toSorted h l₁) (pairwise_toSorted h l₂) (by simpa using hm)

end sorted

/-! ## the orders in use -/

theorem strLt_irrefl : ∀ a : Str, strLt a a = false
  | [] => rfl
  | x :: xs => by simp [strLt, strLt_irrefl xs]

theorem strLt_trans : ∀ a b c : Str, strLt a b = true → strLt b c = true → strLt a c = true
  | [], [], _, h, _ => by simp [strLt] at h
  | [], _ :: _, [], _, h => by simp [strLt] at h
  | [], _ :: _, _ :: _, _, _ => by simp [strLt]
  | _ :: _, [], _, h, _ => by simp [strLt] at h
  | _ :: _, _ :: _, [], _, h => by simp [strLt] at h
  | x :: xs, y :: ys, z :: zs, h₁, h₂ => by
    simp only [strLt] at h₁ h₂ ⊢
    by_cases hxy : x < y
    · by_cases hyz : y < z
      · have : x < z := Nat.lt_trans hxy hyz
        simp [this]
      · by_cases hzy : z < y
        · simp [hyz, hzy] at h₂
        · have : y = z := by omega
          subst this; simp [hxy]
    · by_cases hyx : y < x
      · simp [hxy, hyx] at h₁
      · have hxy' : x = y := by omega
        subst hxy'
        simp only [Nat.lt_irrefl, if_false] at h₁
        by_cases hxz : x < z
        · simp [hxz]
        · by_cases hzx : z < x
          · simp [hxz, hzx] at h₂
          · simp only [hxz, hzx, if_false] at h₂ ⊢
            exact strLt_trans xs ys zs h₁ h₂

theorem strLt_tri : ∀ a b : Str, strLt a b = false → a ≠ b → strLt b a = true
  | [], [], _, h => by simp at h
  | [], _ :: _, h, _ => by simp [strLt] at h
  | _ :: _, [], _, _ => by simp [strLt]
  | x :: xs, y :: ys, h, hne => by
    simp only [strLt] at h ⊢
    by_cases hxy : x < y
    · simp [hxy] at h
    · by_cases hyx : y < x
      · simp [hyx]
      · have : x = y := by omega
        subst this
        simp only [Nat.lt_irrefl, if_false] at h ⊢
        exact strLt_tri xs ys h (by intro h'; exact hne (by rw [h']))

theorem strLt_total : StrictTotal strLt := ⟨strLt_irrefl, strLt_trans, strLt_tri⟩

theorem natLt_total : StrictTotal natLt :=
  ⟨by simp [natLt], by simp only [natLt, decide_eq_true_eq]; omega, by simp only [natLt, decide_eq_false_iff_not, decide_eq_true_eq]; omega⟩

theorem pairLt_total : StrictTotal pairLt := by
  refine ⟨?_, ?_, ?_⟩
  · intro a; simp [pairLt]
  · intro a b c; simp only [pairLt, Bool.or_eq_true, Bool.and_eq_true, decide_eq_true_eq]; omega
  · rintro ⟨a₁, a₂⟩ ⟨b₁, b₂⟩ h hne
    simp only [pairLt, Bool.or_eq_false_iff, Bool.and_eq_false_iff, decide_eq_false_iff_not] at h
    simp only [pairLt, Bool.or_eq_true, Bool.and_eq_true, decide_eq_true_eq]
    have : ¬(a₁ = b₁ ∧ a₂ = b₂) := by rintro ⟨rfl, rfl⟩; exact hne rfl
    omega

/-! ## `observe` -/

def noCrash : List Emit → Bool
  | [] => true
  | .crash _ :: _ => false
  | _ :: rest => noCrash rest

theorem observe_of_noCrash : ∀ {l : List Emit}, noCrash l = true → observe l = l
  | [], _ => rfl
  | .crash _ :: _, h => by simp [noCrash] at h
  | .tag _ _ :: rest, h => by simp [observe, observe_of_noCrash (l := rest) (by simpa [noCrash] using h)]
  | .fmt _ _ :: rest, h => by simp [observe, observe_of_noCrash (l := rest) (by simpa [noCrash] using h)]

theorem noCrash_append {a b : List Emit} : noCrash (a ++ b) = (noCrash a && noCrash b) := by
  induction a with
  | nil => simp [noCrash]
  | cons x xs ih => cases x <;> simp [noCrash, ih]

theorem noCrash_iff {l : List Emit} : noCrash l = true ↔ ∀ x, Emit.crash x ∉ l := by
  induction l with
  | nil => simp [noCrash]
  | cons y ys ih =>
    cases y with
    | crash e =>
      simp only [noCrash, Bool.false_eq_true, false_iff]
      intro h; exact h e (by simp)
    | tag t x => simp [noCrash, ih]
    | fmt n i => simp [noCrash, ih]

end I18n.Msg
