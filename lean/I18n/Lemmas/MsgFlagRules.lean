import I18n.Lemmas.MsgNoCrash
/-
Reading single flag tags off `flagTags`: the per-flag part and the four dictionary read-outs.
-/
namespace I18n.Msg
open I18n.Tags (Str lit Extra)
open I18n.Spec.MessageRules

theorem has_rangeTail_false (env : FlagEnv) (e : Entry) (rd : List ((Nat × Nat) × List (Str × Nat))) (t : MTag)
    (h1 : t ≠ .conflictingMessageFlags) (h2 : t ≠ .duplicateMessageFlag) : has t (rangeTail env e rd) = false := by
  simp only [rangeTail]
  split
  · split <;> simp [Ne.symm h1]
  · split
    · split <;> simp [Ne.symm h2]
    · simp

theorem has_positivePairs_false (env : FlagEnv) (e : Entry) (pos : List (Str × Str)) (t : MTag)
    (h1 : t ≠ .conflictingMessageFlags) : has t (positivePairs env e pos) = false := by
  simp only [positivePairs, has_flatMap]
  rw [List.any_eq_false]; intro f1 _
  rw [Bool.not_eq_true, List.any_eq_false]; intro f2 _
  split <;> (try split) <;> simp [Ne.symm h1]

theorem has_conflictLoop_false (env : FlagEnv) (e : Entry) (ff : List ((Str × Str) × Str)) (t : MTag)
    (h1 : t ≠ .conflictingMessageFlags) : has t (conflictLoop env e ff) = false := by
  simp only [conflictLoop, has_flatMap, has_map]
  rw [List.any_eq_false]; intro pn _
  rw [Bool.not_eq_true, List.any_eq_false]; intro f _; simp [Ne.symm h1]

theorem has_redundantLoop_false (env : FlagEnv) (e : Entry) (ff : List ((Str × Str) × Str)) (t : MTag)
    (h1 : t ≠ .redundantMessageFlag) : has t (redundantLoop env e ff) = false := by
  simp only [redundantLoop, has_map, List.any_eq_false]
  intro f _
  split <;> simp [Ne.symm h1]

/-- the flag tags that only the per-flag rules produce -/
theorem has_flagTags_perFlag (env : FlagEnv) (e : Entry) (t : MTag) (h1 : t ≠ .conflictingMessageFlags)
    (h2 : t ≠ .duplicateMessageFlag) (h3 : t ≠ .redundantMessageFlag) :
    has t (flagTags env e) = e.flags.any fun f => has t (perFlag env e e.flags f) := by
  simp only [flagTags, has_append, has_rangeTail_false env e _ t h1 h2, has_positivePairs_false env e _ t h1,
    has_conflictLoop_false env e _ t h1, has_redundantLoop_false env e _ t h3, Bool.or_false, has_flatMap]
  rw [Bool.eq_iff_iff]
  simp only [List.any_eq_true, mem_toSorted]

theorem has_unknown_perFlag (env : FlagEnv) (e : Entry) (flags : List Str) (f : Str) :
    has .unknownMessageFlag (perFlag env e flags f) = decide (flagKind env f = .unknown) := by
  simp only [perFlag]
  cases hk : flagKind env f with
  | range r => cases r <;> simp
  | _ => simp

theorem has_invalidRange_perFlag (env : FlagEnv) (e : Entry) (flags : List Str) (f : Str) :
    has .invalidRangeFlag (perFlag env e flags f) = decide (flagKind env f = .range none) := by
  simp only [perFlag]
  cases hk : flagKind env f with
  | range r => cases r <;> simp
  | _ => simp

theorem has_rangeWithoutPlural_perFlag (env : FlagEnv) (e : Entry) (flags : List Str) (f : Str) :
    has .rangeFlagWithoutPluralString (perFlag env e flags f) =
      (e.msgidPlural.isNone && (flagKind env f).isRange) := by
  simp only [perFlag]
  cases hk : flagKind env f with
  | range r => cases r <;> simp [FlagKind.isRange]
  | _ => simp [FlagKind.isRange]

theorem has_duplicate_perFlag (env : FlagEnv) (e : Entry) (flags : List Str) (f : Str) :
    has .duplicateMessageFlag (perFlag env e flags f) =
      (decide (flags.count f > 1 ∧ f ≠ []) && decide (rangeOf env f = none)) := by
  cases hk : flagKind env f with
  | range r =>
    have hr : rangeOf env f = r := by simp [rangeOf, hk]
    cases r <;> simp [perFlag, hk, hr]
  | _ =>
    have hr : rangeOf env f = none := by simp [rangeOf, hk]
    simp [perFlag, hk, hr]

theorem has_conflicting_perFlag (env : FlagEnv) (e : Entry) (flags : List Str) (f : Str) :
    has .conflictingMessageFlags (perFlag env e flags f) = (decide (f = lit "wrap") && flags.contains (lit "no-wrap")) := by
  simp only [perFlag]
  cases hk : flagKind env f with
  | range r =>
    have : f ≠ lit "wrap" := fun h => by rw [(kind_wrap_iff env f).mpr h] at hk; cases hk
    cases r <;> simp [this]
  | wrap => simp [(kind_wrap_iff env f).mp hk]
  | _ =>
    have : f ≠ lit "wrap" := fun h => by rw [(kind_wrap_iff env f).mpr h] at hk; cases hk
    simp [this]

/-! ## the dictionary read-outs -/

theorem has_conflictLoop (env : FlagEnv) (e : Entry) (ff : List ((Str × Str) × Str)) :
    has .conflictingMessageFlags (conflictLoop env e ff) = true ↔
      ∃ pn ∈ env.conflictPairs, ∃ fmt, (pn.1, fmt) ∈ keysOf ff ∧ (pn.2, fmt) ∈ keysOf ff := by
  simp only [conflictLoop, has_flatMap, has_map, List.any_eq_true, isTag_tagR, decide_true, and_true,
    mem_commonKeys, mem_keysOf_formatFlagsOf]

theorem has_positivePairs (env : FlagEnv) (e : Entry) (pos : List (Str × Str)) :
    has .conflictingMessageFlags (positivePairs env e pos) = true ↔
      ∃ f1 ∈ keysOf pos, ∃ f2 ∈ keysOf pos, strLt f1 f2 = true ∧ shareExample env f1 f2 = false := by
  simp only [positivePairs, has_flatMap, List.any_eq_true, mem_toSorted]
  constructor
  · rintro ⟨f1, h1, f2, h2, h⟩
    refine ⟨f1, h1, f2, h2, ?_⟩
    cases hl : strLt f1 f2 <;> cases hs : shareExample env f1 f2 <;> simp_all
  · rintro ⟨f1, h1, f2, h2, hl, hs⟩
    exact ⟨f1, h1, f2, h2, by simp [hl, hs]⟩

theorem has_redundantLoop {env : Env} (hs : Sane env) (e : Entry) (fs : List Str) :
    has .redundantMessageFlag (redundantLoop env.flag e (formatDict env.flag fs)) = true ↔
      ∃ fmt, (([] : Str), fmt) ∈ keysOf (formatDict env.flag fs) ∧ (lit "possible", fmt) ∈ keysOf (formatDict env.flag fs) := by
  rw [redundantLoop_eq hs]
  simp only [has_map, List.any_eq_true, isTag_tagR, decide_true, and_true, mem_commonKeys, mem_keysOf_formatFlagsOf]

theorem mem_keysOf_formatDict' (env : FlagEnv) (flags : List Str) (tp fmt : Str) :
    (tp, fmt) ∈ keysOf (formatDict env (toSorted strLt flags)) ↔ ∃ f ∈ flags, flagKind env f = .format tp fmt := by
  unfold formatDict
  rw [mem_keysOf_formatDict]
  simp [keysOf]

/-! ## the dictionary of range flags -/

theorem nodup_keysOf_assocSet {α β : Type} [DecidableEq α] (k : α) (v : β) (d : List (α × β)) (h : (keysOf d).Nodup) :
    (keysOf (assocSet k v d)).Nodup := by
  induction d with
  | nil => simp [assocSet, keysOf]
  | cons x xs ih =>
    obtain ⟨k₁, v₁⟩ := x
    simp only [keysOf, List.map_cons, List.nodup_cons] at h
    by_cases hk : k₁ = k
    · subst hk; simpa [assocSet, keysOf] using h
    · simp only [assocSet, hk, if_false, keysOf, List.map_cons, List.nodup_cons]
      refine ⟨?_, ih h.2⟩
      intro hm
      rcases (mem_keysOf_assocSet k k₁ v xs).mp hm with h' | h'
      · exact hk h'
      · exact h.1 h'

theorem mem_keysOf_rangeDict (env : FlagEnv) (flags : List Str) (r : Nat × Nat) :
    ∀ (fs : List Str) (acc : List ((Nat × Nat) × List (Str × Nat))),
      r ∈ keysOf (fs.foldl (rangeStep env flags) acc) ↔ r ∈ keysOf acc ∨ ∃ f ∈ fs, rangeOf env f = some r
  | [], acc => by simp
  | f :: fs, acc => by
    rw [List.foldl_cons, mem_keysOf_rangeDict env flags r fs]
    simp only [rangeStep]
    cases hr : rangeOf env f with
    | none => simp [hr]
    | some r' =>
      simp only [rangeAdd, mem_keysOf_assocSet, List.mem_cons, exists_eq_or_imp, hr, Option.some.injEq]
      constructor
      · rintro ((h | h) | h)
        · exact Or.inr (Or.inl h.symm)
        · exact Or.inl h
        · exact Or.inr (Or.inr h)
      · rintro (h | h | h)
        · exact Or.inl (Or.inr h)
        · exact Or.inl (Or.inl h.symm)
        · exact Or.inr h

theorem nodup_keysOf_rangeDict (env : FlagEnv) (flags : List Str) :
    ∀ (fs : List Str) (acc : List ((Nat × Nat) × List (Str × Nat))), (keysOf acc).Nodup →
      (keysOf (fs.foldl (rangeStep env flags) acc)).Nodup
  | [], _, h => h
  | f :: fs, acc, h => by
    rw [List.foldl_cons]
    apply nodup_keysOf_rangeDict env flags fs
    simp only [rangeStep]
    cases hr : rangeOf env f with
    | none => exact h
    | some r => exact nodup_keysOf_assocSet _ _ _ h

theorem length_gt_one_iff_of_nodup {α : Type} : ∀ {l : List α}, l.Nodup → (l.length > 1 ↔ ∃ a ∈ l, ∃ b ∈ l, a ≠ b)
  | [], _ => by simp
  | [x], _ => by simp
  | x :: y :: rest, h => by
    simp only [List.nodup_cons, List.mem_cons, not_or] at h
    constructor
    · intro _; exact ⟨x, by simp, y, by simp, h.1.1⟩
    · intro _; simp

/-- two different ranges ⇔ the dictionary has more than one key -/
theorem rangeDict_length (env : FlagEnv) (flags : List Str) :
    (rangeDict env flags (toSorted strLt flags)).length > 1 ↔
      ∃ f ∈ flags, ∃ g ∈ flags, ∃ r₁ r₂, rangeOf env f = some r₁ ∧ rangeOf env g = some r₂ ∧ r₁ ≠ r₂ := by
  have hnd : (keysOf (rangeDict env flags (toSorted strLt flags))).Nodup :=
    nodup_keysOf_rangeDict env flags (toSorted strLt flags) [] (by simp [keysOf])
  have hmem : ∀ r, r ∈ keysOf (rangeDict env flags (toSorted strLt flags)) ↔ ∃ f ∈ flags, rangeOf env f = some r := by
    intro r
    unfold rangeDict
    rw [mem_keysOf_rangeDict]
    simp [keysOf]
  have hlen : (rangeDict env flags (toSorted strLt flags)).length = (keysOf (rangeDict env flags (toSorted strLt flags))).length := by
    simp [keysOf]
  rw [hlen, length_gt_one_iff_of_nodup hnd]
  constructor
  · rintro ⟨a, ha, b, hb, hne⟩
    obtain ⟨f, hf, hfa⟩ := (hmem a).mp ha
    obtain ⟨g, hg, hgb⟩ := (hmem b).mp hb
    exact ⟨f, hf, g, hg, a, b, hfa, hgb, hne⟩
  · rintro ⟨f, hf, g, hg, a, b, hfa, hgb, hne⟩
    exact ⟨a, (hmem a).mpr ⟨f, hf, hfa⟩, b, (hmem b).mpr ⟨g, hg, hgb⟩, hne⟩

/-- the `conflicting-message-flags` call about ranges ⇔ more than one range in the dictionary -/
theorem has_conflicting_rangeTail (env : FlagEnv) (e : Entry) (rd : List ((Nat × Nat) × List (Str × Nat)))
    (hnd : (keysOf rd).Nodup) :
    has .conflictingMessageFlags (rangeTail env e rd) = decide (rd.length > 1) := by
  simp only [rangeTail]
  by_cases h : rd.length > 1
  · simp only [h, if_true, decide_true]
    have hl : (keysOf rd).length > 1 := by simpa [keysOf] using h
    obtain ⟨a, ha, b, hb, hne⟩ := (length_gt_one_iff_of_nodup hnd).mp hl
    have ha' : a ∈ toSorted pairLt (keysOf rd) := by simpa using ha
    have hb' : b ∈ toSorted pairLt (keysOf rd) := by simpa using hb
    match hts : toSorted pairLt (keysOf rd) with
    | [] => rw [hts] at ha'; simp at ha'
    | [x] =>
      rw [hts] at ha' hb'
      simp only [List.mem_singleton] at ha' hb'
      exact absurd (ha'.trans hb'.symm) hne
    | _ :: _ :: _ => simp
  · simp only [h, if_false, decide_false]
    split
    · split <;> simp
    · simp

end I18n.Msg
