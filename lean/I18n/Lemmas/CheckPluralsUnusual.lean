import I18n.Lemmas.CheckPluralsFinal
namespace I18n.CheckPlurals
open I18n I18n.Py I18n.Plural I18n.PluralParse I18n.Spec.PluralForms

/-! ## when is `unusual-[unused-]plural-forms` emitted -/

/-- the index list splits at an index up to which (inclusive) the declared expression is fine, and at which it differs from
    the registry's -/
def DiffersOn (n : Nat) (e le : Expr) (is : List Nat) : Prop :=
  ∃ pre i post, is = pre ++ i :: post ∧ (∀ j ∈ pre, badMsg n e j = none) ∧ badMsg n e i = none ∧ evalAt 32 i e ≠ evalAt 32 i le

theorem differsOn_cons_bad {n : Nat} {e le : Expr} {i : Nat} {rest : List Nat} (h : badMsg n e i ≠ none) : ¬ DiffersOn n e le (i :: rest) := by
  rintro ⟨pre, i', post, his, hpre, hi', _⟩
  cases pre with
  | nil =>
    simp only [List.nil_append, List.cons.injEq] at his
    rw [← his.1] at hi'
    exact h hi'
  | cons a pre' =>
    simp only [List.cons_append, List.cons.injEq] at his
    exact h (his.1 ▸ hpre a (by simp))

theorem differsOn_cons_same {n : Nat} {e le : Expr} {i : Nat} {rest : List Nat} (hgood : badMsg n e i = none)
    (hsame : evalAt 32 i e = evalAt 32 i le) : DiffersOn n e le (i :: rest) ↔ DiffersOn n e le rest := by
  constructor
  · rintro ⟨pre, i', post, his, hpre, hi', hd⟩
    cases pre with
    | nil =>
      simp only [List.nil_append, List.cons.injEq] at his
      rw [← his.1] at hd
      exact absurd hsame hd
    | cons a pre' =>
      simp only [List.cons_append, List.cons.injEq] at his
      exact ⟨pre', i', post, his.2, fun j hj => hpre j (by simp [hj]), hi', hd⟩
  · rintro ⟨pre, i', post, his, hpre, hi', hd⟩
    refine ⟨i :: pre, i', post, by simp [his], ?_, hi', hd⟩
    intro j hj
    rcases List.mem_cons.mp hj with rfl | hj
    · exact hgood
    · exact hpre j hj

/-- **The window's `unusual` tag**: with the registry's declaration `(n, le)` to compare with (total on the indices), the
    window adds the `unusual` tag at most once — exactly when it was not yet added and the two expressions differ at an
    index that is reached (everything up to it evaluates to a valid form index). -/
theorem window_unusual (n : Nat) (e le : Expr) (hp : Bool) (ut : TagCall) :
    ∀ (is : List Nat) (st st' : WinState) (fin : WinEnd), window n e (some (n, le)) hp ut is st = (st', fin) →
      LcTotal (some (n, le)) is →
      ∃ mid last, st'.tags = st.tags ++ mid ++ last ∧ (∀ t ∈ last, isStopTag hp t) ∧ (mid = [] ∨ mid = [ut]) ∧
        (mid = [ut] ↔ st.unusual = false ∧ DiffersOn n e le is) := by
  intro is
  induction is with
  | nil =>
    intro st st' fin h _
    simp only [window, Prod.mk.injEq] at h
    obtain ⟨rfl, rfl⟩ := h
    refine ⟨[], [], by simp, by simp, Or.inl rfl, ?_⟩
    simp only [List.nil_eq, reduceCtorEq, false_iff, not_and]
    rintro _ ⟨pre, i, post, his, _⟩
    simp at his
  | cons i rest ih =>
    intro st st' fin h hlc
    have hlc' : LcTotal (some (n, le)) rest := fun ln le' h1 j hj => hlc ln le' h1 j (by simp [hj])
    simp only [window] at h
    -- a stop at `i`
    have stop : ∀ (base : WinState) (t : TagCall), base.tags = st.tags → isStopTag hp t → badMsg n e i ≠ none →
        ({ base with tags := base.tags ++ [t] }, WinEnd.stopped) = (st', fin) →
        ∃ mid last, st'.tags = st.tags ++ mid ++ last ∧ (∀ t ∈ last, isStopTag hp t) ∧ (mid = [] ∨ mid = [ut]) ∧
          (mid = [ut] ↔ st.unusual = false ∧ DiffersOn n e le (i :: rest)) := by
      intro base t hb ht hbad heq
      simp only [Prod.mk.injEq] at heq
      obtain ⟨rfl, rfl⟩ := heq
      refine ⟨[], [t], by simp [hb], by simpa using ht, Or.inl rfl, ?_⟩
      simp only [List.nil_eq, reduceCtorEq, false_iff, not_and]
      exact fun _ => differsOn_cons_bad hbad
    cases hev : evalAt 32 i e with
    | error ex =>
      rw [hev] at h
      have hbad : badMsg n e i ≠ none := by
        rcases eval_err_cases hev with rfl | rfl <;> simp [badMsg, hev]
      rcases eval_err_cases hev with rfl | rfl
      · exact stop st _ rfl ⟨_, Or.inl rfl⟩ hbad h
      · exact stop st _ rfl ⟨_, Or.inl rfl⟩ hbad h
    | ok fi =>
      rw [hev] at h
      simp only at h
      split at h
      · rename_i hfi
        exact stop st _ rfl ⟨_, Or.inr rfl⟩ (by simp [badMsg, hev, hfi]) h
      · rename_i hfi
        have hgood : badMsg n e i = none := by simp [badMsg, hev, hfi]
        simp only [↓reduceIte] at h
        obtain ⟨v, hle⟩ := hlc n le rfl i (by simp)
        rw [hle] at h
        simp only at h
        split at h
        · rename_i hne
          obtain ⟨mid, last, h1, h2, h3, h4⟩ := ih _ st' fin h hlc'
          have hmid : mid = [] := by
            rcases h3 with h3 | h3
            · exact h3
            · have := (h4.1 h3).1
              simp at this
          subst hmid
          refine ⟨[ut], last, by rw [h1]; simp, h2, Or.inr rfl, ?_⟩
          simp only [true_iff]
          refine ⟨by simpa using hne.2, [], i, rest, rfl, by simp, hgood, ?_⟩
          rw [hev, hle]
          intro heq
          cases heq
          exact hne.1 rfl
        · rename_i hne
          obtain ⟨mid, last, h1, h2, h3, h4⟩ := ih { st with pre := st.pre.add fi i } st' fin h hlc'
          refine ⟨mid, last, h1, h2, h3, ?_⟩
          rw [h4]
          simp only
          by_cases hu : st.unusual = true
          · simp [hu]
          · have hsame : evalAt 32 i e = evalAt 32 i le := by
              rw [hev, hle]
              have : fi = v := by
                by_cases hfv : fi = v
                · exact hfv
                · exact absurd ⟨hfv, hu⟩ hne
              rw [this]
            rw [differsOn_cons_same hgood hsame]

/-- `DiffersOn` over `range m`, in words: some `i < m` up to which (inclusive) every index evaluates to a valid form index,
    and at which the two expressions differ -/
theorem differsOn_range (n : Nat) (e le : Expr) (m : Nat) :
    DiffersOn n e le (List.range m) ↔ ∃ i, i < m ∧ (∀ j, j ≤ i → badMsg n e j = none) ∧ evalAt 32 i e ≠ evalAt 32 i le := by
  constructor
  · rintro ⟨pre, i, post, his, hpre, hi, hd⟩
    have hlt : pre.length < m := by
      have := congrArg List.length his
      simp at this; omega
    have h1 : (List.range m)[pre.length]? = some i := by rw [his]; simp
    rw [List.getElem?_range hlt] at h1
    have hi' : pre.length = i := by simpa using h1
    have hpre' : pre = List.range i := by
      have h2 := congrArg (List.take pre.length) his
      simp only [List.take_left'] at h2
      rw [← h2, List.take_range, hi']
      congr 1
      omega
    refine ⟨i, by omega, ?_, hd⟩
    intro j hj
    rcases Nat.lt_or_eq_of_le hj with hlt' | rfl
    · exact hpre j (by rw [hpre']; exact List.mem_range.2 hlt')
    · exact hi
  · rintro ⟨i, hi, hgood, hd⟩
    refine ⟨List.range i, i, (List.range (m - i - 1)).map (fun k => i + 1 + k), ?_, ?_, hgood i (Nat.le_refl i), hd⟩
    · have hm : m = i + ((m - i - 1) + 1) := by omega
      conv => lhs; rw [hm, List.range_add, List.range_succ_eq_map]
      simp only [List.map_cons, Nat.add_zero, List.map_map, List.cons.injEq, true_and, List.append_cancel_left_eq]
      apply List.map_congr_left
      intro k _
      simp only [Function.comp, Nat.succ_eq_add_one]
      omega
    · intro j hj
      exact hgood j (Nat.le_of_lt (List.mem_range.1 hj))

/-- the registry's declarations (of the language) with nplurals `n`: `locally_correct_plural_forms` -/
def registryDecls (cs : List (List Char)) (n : Nat) : List (Nat × Expr) :=
  cs.filterMap fun c => match strictDeclOf c with
    | some (k, e) => if k = n then some (k, e) else none
    | none => none

theorem localCorrect_eq (n : Nat) : ∀ (cs : List (List Char)) (r : List (Nat × Expr)), localCorrect n cs = .ok r → r = registryDecls cs n := by
  intro cs
  induction cs with
  | nil => intro r h; simp only [localCorrect, Except.ok.injEq] at h; subst h; rfl
  | cons c cs ih =>
    intro r h
    simp only [localCorrect] at h
    have hs := parsePluralFormsStrict_eq c
    split at h
    · rename_i k ce lj rj hc
      rw [hc] at hs
      split at h
      · cases h
      · rename_i rest hrest
        have := ih rest hrest
        simp only [Except.ok.injEq] at h
        subst h
        cases hsd : strictDeclOf c with
        | none => rw [hsd] at hs; cases hs
        | some ke =>
          obtain ⟨k', e'⟩ := ke
          rw [hsd] at hs
          simp only [PfResult.ok.injEq] at hs
          obtain ⟨rfl, rfl, _, _⟩ := hs
          simp only [registryDecls, List.filterMap_cons, hsd]
          split
          · rename_i hk
            simp only [hk, ↓reduceIte, List.cons.injEq, true_and]
            rw [this]; rfl
          · rename_i hk
            simp only [hk, ↓reduceIte]
            rw [this]; rfl
    · cases h
    · cases h

theorem not_unusual_static (inp : Input) (n : Nat) (lj rj : List Char) :
    ∀ t ∈ tags0Of inp ++ junkTags lj rj ++ nplTags n (expectedOf inp), ¬ isUnusualName t.name := by
  intro t htm hn
  simp only [List.mem_append] at htm
  rcases htm with (h0 | hj) | hnp
  · rcases name_tags0 h0 with h' | h' <;> (rw [isUnusualName, h'] at hn; revert hn; decide)
  · rcases mem_junkTags.1 hj with ⟨_, rfl⟩ | ⟨_, rfl⟩ <;> (revert hn; simp only [isUnusualName]; decide)
  · rw [isUnusualName, name_npl hnp] at hn; revert hn; decide

theorem not_unusual_stop {hp : Bool} {t : TagCall} (h : isStopTag hp t) : ¬ isUnusualName t.name := by
  intro hn
  rcases name_stop h with hc' | hc' <;> rcases hc' with h' | h' <;> (rw [isUnusualName, h'] at hn; revert hn; decide)

theorem not_unusual_gap {hp : Bool} {rs : List (Nat × Nat)} {t : TagCall} (h : t ∈ gapTags hp rs) : ¬ isUnusualName t.name := by
  intro hn
  rcases name_gap h with h' | h' <;> (rw [isUnusualName, h'] at hn; revert hn; decide)

/-- **When `unusual-[unused-]plural-forms` is emitted** (registry declarations total on the window): iff the language is known and
    either NO declaration of its registry has the declared nplurals, or EXACTLY ONE has and the declared expression differs from
    it at some index the window reaches.  (With two or more registry declarations of that nplurals nothing is compared — no
    language of the shipped registry is like that: `shipped_registry_clean`.) -/
theorem unusual_tag_iff' (inp : Input) (pf : List Char) (out : Output) (hv : headerValues inp = [pf]) (ht : inp.isTemplate = false)
    (n : Nat) (e : Expr) (lj rj : List Char) (hpf : parsePluralForms pf = .ok n e lj rj) (h : checkPlurals inp = .ok out)
    (hreg : RegistryClean inp) :
    ((∃ t ∈ out.tags, isUnusualName t.name) ↔
      ∃ cs, inp.correct = some cs ∧ (registryDecls cs n = [] ∨
        ∃ le, registryDecls cs n = [(n, le)] ∧ DiffersOn n e le (List.range codomainLimit))) ∧
    (∀ t ∈ out.tags, isUnusualName t.name → t = unusualTag (hasPlurals inp) pf (hintOf inp)) := by
  obtain ⟨lcs, st, fin, rs, hl, hw, hg, hout⟩ := report_ok_raw inp pf out hv ht n e lj rj hpf h
  have hlc := lcTotal_of_clean hreg hl (unusualTag (hasPlurals inp) pf (hintOf inp))
  -- the general shape, and who can be unusual
  obtain ⟨mid, last, h1, h2, h3, h4, h5⟩ := window_shape _ _ _ _ _ _ _ _ _ hw
  have hlast : ∀ t ∈ last, ¬ isUnusualName t.name := by
    intro t htl
    cases fin with
    | completed => rw [h3 rfl] at htl; cases htl
    | stopped =>
      obtain ⟨t', rfl, ht'⟩ := h4 rfl
      simp only [List.mem_singleton] at htl
      subst htl
      exact not_unusual_stop ht'
    | crashed ex => exact absurd hw (window_nocrash _ _ _ _ _ _ _ _ _)
  have hmem : ∀ t, t ∈ out.tags ↔ (t ∈ tags0Of inp ++ junkTags lj rj ++ nplTags n (expectedOf inp)) ∨
      t ∈ (pickLc (unusualTag (hasPlurals inp) pf (hintOf inp)) lcs).1 ∨ t ∈ mid ∨ t ∈ last ∨ t ∈ gapTags (hasPlurals inp) rs := by
    intro t
    rw [hout]
    simp only [h1, List.mem_append]
    constructor
    · rintro (((((a | b) | c) | d) | e') | f) <;> simp [*]
    · rintro (((a | b) | c) | d | e' | f | g) <;> simp [*]
  have hun := name_unusualTag (hasPlurals inp) pf (hintOf inp)
  have key : (∃ t ∈ out.tags, isUnusualName t.name) ↔ ((pickLc (unusualTag (hasPlurals inp) pf (hintOf inp)) lcs).1 ≠ [] ∨ mid ≠ []) := by
    constructor
    · rintro ⟨t, htm, hn⟩
      rcases (hmem t).1 htm with a | b | c | d | e'
      · exact absurd hn (not_unusual_static inp n lj rj t a)
      · left; intro hnil; rw [hnil] at b; cases b
      · right; intro hnil; rw [hnil] at c; cases c
      · exact absurd hn (hlast t d)
      · exact absurd hn (not_unusual_gap e')
    · rintro (hne | hne)
      · obtain ⟨t, htm⟩ := List.exists_mem_of_ne_nil _ hne
        exact ⟨t, (hmem t).2 (Or.inr (Or.inl htm)), by rw [mem_pickLc _ _ _ htm]; exact hun⟩
      · obtain ⟨t, htm⟩ := List.exists_mem_of_ne_nil _ hne
        exact ⟨t, (hmem t).2 (Or.inr (Or.inr (Or.inl htm))), by rw [h2 t htm]; exact hun⟩
  constructor
  · rw [key]
    rcases lcsOf_some hl with ⟨hnone, rfl⟩ | ⟨cs, r, hcs, hlc', rfl⟩
    · -- no language
      have hmid : mid = [] := h5 (Or.inl rfl)
      simp only [pickLc, hmid, ne_eq, not_true_eq_false, or_self, false_iff, not_exists, not_and]
      intro cs hcs
      rw [hnone] at hcs; cases hcs
    · have hr := localCorrect_eq n cs r hlc'
      have hfst := (localCorrect_spec n cs r hlc').1
      have hcs' : ∀ cs', inp.correct = some cs' → cs' = cs := by
        intro cs' h'; rw [hcs] at h'; cases h'; rfl
      match r, hr, hfst with
      | [], hr, _ =>
        simp only [pickLc, ne_eq, List.cons_ne_self, not_false_eq_true, true_or, true_iff]
        exact ⟨cs, hcs, Or.inl hr.symm⟩
      | [x], hr, hfst =>
        obtain ⟨xn, le⟩ := x
        have hxn : xn = n := hfst (xn, le) (by simp)
        subst hxn
        obtain ⟨mid', last', h1', h2', h3', h4'⟩ := window_unusual xn e le _ _ _ _ _ _ hw hlc
        have hmm : mid = mid' := by
          -- both decompositions of the same tag list: `last`/`last'` are stop tags (not `ut`), `mid`/`mid'` are `ut`s
          have e1 : st.tags = _ ++ mid ++ last := h1
          rw [h1'] at e1
          simp only [List.append_assoc, List.append_cancel_left_eq] at e1
          have hut_not_stop : ¬ isStopTag (hasPlurals inp) (unusualTag (hasPlurals inp) pf (hintOf inp)) := by
            intro hs
            exact not_unusual_stop hs hun
          have hlast_ne : ∀ t ∈ last, t ≠ unusualTag (hasPlurals inp) pf (hintOf inp) := by
            intro t htl heq
            exact hlast t htl (heq ▸ hun)
          have hlast'_ne : ∀ t ∈ last', t ≠ unusualTag (hasPlurals inp) pf (hintOf inp) := by
            intro t htl heq
            exact hut_not_stop (heq ▸ h2' t htl)
          -- count the `ut`s on both sides
          have hc := congrArg (List.count (unusualTag (hasPlurals inp) pf (hintOf inp))) e1
          simp only [List.count_append] at hc
          have z1 : List.count (unusualTag (hasPlurals inp) pf (hintOf inp)) last = 0 :=
            List.count_eq_zero.2 (fun hm => hlast_ne _ hm rfl)
          have z2 : List.count (unusualTag (hasPlurals inp) pf (hintOf inp)) last' = 0 :=
            List.count_eq_zero.2 (fun hm => hlast'_ne _ hm rfl)
          have c1 : List.count (unusualTag (hasPlurals inp) pf (hintOf inp)) mid = mid.length :=
            List.count_eq_length.2 (fun t ht' => (h2 t ht').symm)
          have c2 : List.count (unusualTag (hasPlurals inp) pf (hintOf inp)) mid' = mid'.length := by
            rcases h3' with rfl | rfl <;> simp
          have hlen : mid.length = mid'.length := by omega
          have hrep : ∀ (l : List TagCall), (∀ t ∈ l, t = unusualTag (hasPlurals inp) pf (hintOf inp)) →
              l = List.replicate l.length (unusualTag (hasPlurals inp) pf (hintOf inp)) := by
            intro l hl
            exact List.eq_replicate_iff.2 ⟨rfl, hl⟩
          rw [hrep mid h2, hrep mid' (by rcases h3' with rfl | rfl <;> simp), hlen]
        simp only [pickLc, ne_eq, not_true_eq_false, false_or]
        rw [hmm]
        constructor
        · intro hne
          have : mid' = [unusualTag (hasPlurals inp) pf (hintOf inp)] := by
            rcases h3' with h' | h'
            · exact absurd h' hne
            · exact h'
          exact ⟨cs, hcs, Or.inr ⟨le, hr.symm, (h4'.1 this).2⟩⟩
        · rintro ⟨cs', hcs'', hor⟩
          have := hcs' cs' hcs''
          subst this
          rcases hor with hnil | ⟨le', hone, hd⟩
          · rw [← hr] at hnil; cases hnil
          · rw [← hr] at hone
            simp only [List.cons.injEq, Prod.mk.injEq, true_and, and_true] at hone
            subst hone
            rw [h4'.2 ⟨rfl, hd⟩]
            simp
      | _ :: _ :: _, hr, _ =>
        have hmid : mid = [] := h5 (Or.inl rfl)
        simp only [pickLc, hmid, ne_eq, not_true_eq_false, or_self, false_iff, not_exists, not_and]
        intro cs' hcs''
        have := hcs' cs' hcs''
        subst this
        rw [← hr]
        simp
  · intro t htm hn
    rcases (hmem t).1 htm with a | b | c | d | e'
    · exact absurd hn (not_unusual_static inp n lj rj t a)
    · exact mem_pickLc _ _ _ b
    · exact h2 t c
    · exact absurd hn (hlast t d)
    · exact absurd hn (not_unusual_gap e')

end I18n.CheckPlurals
