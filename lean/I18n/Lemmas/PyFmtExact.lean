import I18n.Lemmas.PyFmtLoop
/-!
# The tuple CPython needs has exactly the length the parser reports
-/
set_option linter.unusedSimpArgs false
namespace I18n.PyFmt
open I18n.Spec.CPyPercent I18n.Spec.PyFmtArgs
open I18n.Generated.PyFormatTables (flagChars lengthChars octCvt hexCvt intCvt floatCvt allCvt SSIZE_MAX typeTable
  variableWidthType variablePrecisionType)

theorem getNextArg_tup {vs : List Val} {v : Val} {c' : Ctx} (h : getNextArg ⟨none, .tup vs⟩ = .ok (v, c')) :
    ∃ rest, vs = v :: rest ∧ c' = ⟨none, .tup rest⟩ := by
  cases vs with
  | nil => simp [getNextArg] at h
  | cons x xs =>
    simp only [getNextArg, Except.ok.injEq, Prod.mk.injEq] at h
    obtain ⟨rfl, rfl⟩ := h
    exact ⟨xs, rfl, rfl⟩

theorem widthStep_tup {w : Num} {vs : List Val} {c' : Ctx} (h : widthStep w ⟨none, .tup vs⟩ = .ok c') :
    ∃ taken rest, vs = taken ++ rest ∧ c' = ⟨none, .tup rest⟩ ∧ taken.length = (widthEntries w 0).length := by
  cases w with
  | star =>
    simp only [widthStep] at h
    cases hg : getNextArg ⟨none, .tup vs⟩ with
    | error e => rw [hg] at h; cases h
    | ok p =>
      obtain ⟨v, c1⟩ := p
      rw [hg] at h
      obtain ⟨rest, rfl, rfl⟩ := getNextArg_tup hg
      cases v with
      | int n =>
        simp only [] at h
        split at h
        · cases h
        · cases h; exact ⟨[.int n], rest, rfl, rfl, rfl⟩
      | float => cases h
      | str l => cases h
      | other => cases h
  | num n =>
    simp only [widthStep] at h
    split at h
    · cases h; exact ⟨[], vs, rfl, rfl, rfl⟩
    · cases h

theorem precStep_tup {p : Option Num} {vs : List Val} {pv : Option Nat} {c' : Ctx} (h : precStep p ⟨none, .tup vs⟩ = .ok (pv, c')) :
    ∃ taken rest, vs = taken ++ rest ∧ c' = ⟨none, .tup rest⟩ ∧ taken.length = (precEntries p 0).length := by
  cases p with
  | none => simp only [precStep] at h; cases h; exact ⟨[], vs, rfl, rfl, rfl⟩
  | some q =>
    cases q with
    | star =>
      simp only [precStep] at h
      cases hg : getNextArg ⟨none, .tup vs⟩ with
      | error e => rw [hg] at h; cases h
      | ok r =>
        obtain ⟨v, c1⟩ := r
        rw [hg] at h
        obtain ⟨rest, rfl, rfl⟩ := getNextArg_tup hg
        cases v with
        | int n =>
          simp only [] at h
          split at h
          · cases h
          · cases h; exact ⟨[.int n], rest, rfl, rfl, rfl⟩
        | float => cases h
        | str l => cases h
        | other => cases h
    | num n =>
      simp only [precStep] at h
      split at h
      · cases h; exact ⟨[], vs, rfl, rfl, rfl⟩
      · cases h

theorem formatValue_percent (p : Option Nat) (v : Val) : formatValue '%' p v = .error .unsupportedChar := by
  unfold formatValue
  simp

/-- what a successful `unicode_format_arg` does to a tuple: no key, not `%`, and it takes exactly one value per `*` plus one -/
theorem effect_tuple_inv {d : Directive} {vs : List Val} {c' : Ctx} (h : effect d ⟨none, .tup vs⟩ = .ok c') :
    d.key = none ∧ d.conv ≠ '%' ∧ ∃ taken rest, vs = taken ++ rest ∧ c' = ⟨none, .tup rest⟩ ∧
      taken.length = (widthEntries d.width 0).length + (precEntries d.prec 0).length + 1 := by
  unfold effect at h
  cases hk : d.key with
  | some k => rw [hk] at h; simp [keyStep] at h
  | none =>
    rw [hk] at h
    simp only [keyStep] at h
    cases hw : widthStep d.width ⟨none, .tup vs⟩ with
    | error e => rw [hw] at h; cases h
    | ok c1 =>
      rw [hw] at h; simp only [] at h
      obtain ⟨t1, r1, rfl, rfl, l1⟩ := widthStep_tup hw
      cases hp : precStep d.prec ⟨none, .tup r1⟩ with
      | error e => rw [hp] at h; cases h
      | ok q =>
        obtain ⟨pv, c2⟩ := q
        rw [hp] at h; simp only [] at h
        obtain ⟨t2, r2, rfl, rfl, l2⟩ := precStep_tup hp
        cases hg : getNextArg ⟨none, .tup r2⟩ with
        | error e => rw [hg] at h; cases h
        | ok r =>
          obtain ⟨v, c3⟩ := r
          rw [hg] at h; simp only [] at h
          obtain ⟨r3, rfl, rfl⟩ := getNextArg_tup hg
          cases hf : formatValue d.conv pv v with
          | error e => rw [hf] at h; cases h
          | ok u =>
            rw [hf] at h; simp only [] at h
            have hc : d.conv ≠ '%' := by
              intro hc; rw [hc, formatValue_percent] at hf; cases hf
            split at h
            · cases h
            · cases h
              refine ⟨rfl, hc, t1 ++ t2 ++ [v], r3, by simp, rfl, ?_⟩
              simp only [List.length_append, List.length_cons, List.length_nil, l1, l2]

theorem seqAdd_length {d : Directive} {tp : String} {parent : Nat} (hk : d.key = none) (hn : tp ≠ "None") :
    (seqAdd d tp parent).length = (widthEntries d.width 0).length + (precEntries d.prec 0).length + 1 := by
  simp only [seqAdd, hk, hn, if_false, List.length_append, List.length_cons, List.length_nil]
  cases d.width <;> cases d.prec <;> (try rename_i q; cases q) <;> rfl

/-- **If CPython formats the rest of the string with a tuple, the parser recorded exactly as many unnamed arguments as the
    tuple has items, and no named one.** -/
theorem loop_tuple_exact (w : Bool) : ∀ (fuel : Nat) (s text : List Char) (st st' : St), loop w fuel s text st = .ok st' →
    plainPercent fuel s = true → ∀ vs, run fuel s ⟨none, .tup vs⟩ = .ok () →
    st'.map = st.map ∧ st'.seq.length = st.seq.length + vs.length := by
  intro fuel
  induction fuel with
  | zero => intro s text st st' h; simp only [loop] at h; cases h
  | succ fuel ih =>
    intro s text st st' h hpl vs hr
    cases s with
    | nil =>
      simp only [loop] at h; cases h
      simp only [run, Ctx.unconverted, Option.isNone_none, Bool.and_true] at hr
      cases vs with
      | nil => simp
      | cons v vs => simp at hr
    | cons c cs =>
      simp only [loop] at h
      simp only [plainPercent] at hpl
      split at h
      · rename_i hc
        simp only [hc, if_true] at hpl
        have hc' : c ≠ '%' := by simpa using hc
        simp only [run, ne_eq, hc', not_false_eq_true, if_true] at hr
        exact ih _ _ _ _ h hpl vs hr
      · rename_i hc
        have hc' : c = '%' := by simpa using hc
        subst hc'
        simp only [bne_self_eq_false, Bool.false_eq_true, if_false] at hpl
        cases hs : scanDirective cs with
        | none => rw [hs] at h; cases h
        | some p =>
          obtain ⟨d, rest⟩ := p
          rw [hs] at h hpl; simp only [] at h hpl
          simp only [Bool.and_eq_true] at hpl
          obtain ⟨hdp, hpl'⟩ := hpl
          cases hcv : conversion w (flush text st) d with
          | error e => rw [hcv] at h; cases h
          | ok q =>
            obtain ⟨st1, tp⟩ := q
            rw [hcv] at h; simp only [] at h
            obtain ⟨hl, _, _, _, _, _⟩ := conversion_ok hcv
            obtain ⟨a, b⟩ := conversion_seq_map hcv
            simp only [flush_core_seq, flush_core_map] at a b
            rcases run_scan (fuel := fuel) ⟨none, .tup vs⟩ hs with ⟨_, rfl, hrr⟩ | ⟨_, hrr⟩
            · rw [hrr] at hr
              have := ih _ _ _ _ h hpl' vs hr
              simp only [] at this
              rw [percent_type] at hl; cases hl
              rw [seqAdd_percent] at a; rw [mapAdd_percent] at b
              rw [a, b] at this
              simpa using this
            · rw [hrr] at hr
              cases he : effect d ⟨none, .tup vs⟩ with
              | error e => rw [he] at hr; cases hr
              | ok c' =>
                rw [he] at hr; simp only [] at hr
                obtain ⟨hk, hcp, taken, rest', rfl, rfl, hlen⟩ := effect_tuple_inv he
                have hn : tp ≠ "None" := by
                  intro hn; subst hn
                  have hmem : d.conv ∈ allCvt := by simpa using (scanDirective_wf hs).2
                  exact hcp (typeTable_none _ hmem hl)
                have := ih _ _ _ _ h hpl' rest' hr
                simp only [] at this
                have hm : mapAdd d tp (flush text st).items.length = [] := by simp [mapAdd, hk]
                rw [a, b, hm, List.append_nil, List.length_append, seqAdd_length hk hn] at this
                refine ⟨this.1, ?_⟩
                rw [this.2, List.length_append, hlen]
                omega

/-! ## the mapping CPython needs has every reported key -/

theorem getNextArg_dict {c c' : Ctx} {v : Val} (h : getNextArg c = .ok (v, c')) : c'.dict = c.dict := by
  unfold getNextArg at h
  split at h
  · cases h; rfl
  · cases h
  · cases h; rfl
  · cases h

theorem widthStep_dict {w : Num} {c c' : Ctx} (h : widthStep w c = .ok c') : c'.dict = c.dict := by
  cases w with
  | star =>
    simp only [widthStep] at h
    cases hg : getNextArg c with
    | error e => rw [hg] at h; cases h
    | ok p =>
      obtain ⟨v, c1⟩ := p
      rw [hg] at h
      have := getNextArg_dict hg
      cases v with
      | int n =>
        simp only [] at h
        split at h
        · cases h
        · cases h; exact this
      | float => cases h
      | str l => cases h
      | other => cases h
  | num n =>
    simp only [widthStep] at h
    split at h
    · cases h; rfl
    · cases h

theorem precStep_dict {p : Option Num} {c c' : Ctx} {pv : Option Nat} (h : precStep p c = .ok (pv, c')) : c'.dict = c.dict := by
  cases p with
  | none => simp only [precStep] at h; cases h; rfl
  | some q =>
    cases q with
    | star =>
      simp only [precStep] at h
      cases hg : getNextArg c with
      | error e => rw [hg] at h; cases h
      | ok r =>
        obtain ⟨v, c1⟩ := r
        rw [hg] at h
        have := getNextArg_dict hg
        cases v with
        | int n =>
          simp only [] at h
          split at h
          · cases h
          · cases h; exact this
        | float => cases h
        | str l => cases h
        | other => cases h
    | num n =>
      simp only [precStep] at h
      split at h
      · cases h; rfl
      · cases h

/-- a successful `unicode_format_arg` with a mapping found the key in it (and keeps the mapping) -/
theorem effect_dict_inv {d : Directive} {m : List (List Char × Val)} {cur : Cur} {c' : Ctx}
    (h : effect d ⟨some m, cur⟩ = .ok c') :
    c'.dict = some m ∧ ∀ k, d.key = some k → (Spec.CPyPercent.lookup m k).isSome = true := by
  unfold effect at h
  cases hk : keyStep d.key ⟨some m, cur⟩ with
  | error e => rw [hk] at h; cases h
  | ok c1 =>
    rw [hk] at h; simp only [] at h
    have hk1 : c1.dict = some m ∧ ∀ k, d.key = some k → (Spec.CPyPercent.lookup m k).isSome = true := by
      unfold keyStep at hk
      cases hkey : d.key with
      | none => rw [hkey] at hk; cases hk; exact ⟨rfl, fun k hk' => by cases hk'⟩
      | some k =>
        rw [hkey] at hk; simp only [] at hk
        cases hl : Spec.CPyPercent.lookup m k with
        | none => rw [hl] at hk; cases hk
        | some v =>
          rw [hl] at hk; cases hk
          exact ⟨rfl, fun k' hk' => by cases hk'; rw [hl]; rfl⟩
    cases hw : widthStep d.width c1 with
    | error e => rw [hw] at h; cases h
    | ok c2 =>
      rw [hw] at h; simp only [] at h
      have d2 := widthStep_dict hw
      cases hp : precStep d.prec c2 with
      | error e => rw [hp] at h; cases h
      | ok q =>
        obtain ⟨pv, c3⟩ := q
        rw [hp] at h; simp only [] at h
        have d3 := precStep_dict hp
        cases hg : getNextArg c3 with
        | error e => rw [hg] at h; cases h
        | ok r =>
          obtain ⟨v, c4⟩ := r
          rw [hg] at h; simp only [] at h
          have d4 := getNextArg_dict hg
          cases hf : formatValue d.conv pv v with
          | error e => rw [hf] at h; cases h
          | ok u =>
            rw [hf] at h; simp only [] at h
            split at h
            · cases h
            · cases h
              exact ⟨by rw [d4, d3, d2]; exact hk1.1, hk1.2⟩

/-- **If CPython formats the rest of the string with a mapping, every key the parser recorded is in the mapping.** -/
theorem loop_dict_keys (w : Bool) : ∀ (fuel : Nat) (s text : List Char) (st st' : St), loop w fuel s text st = .ok st' →
    ∀ (m : List (List Char × Val)) (cur : Cur), run fuel s ⟨some m, cur⟩ = .ok () →
    ∀ k e, (k, e) ∈ st'.map → (k, e) ∈ st.map ∨ (Spec.CPyPercent.lookup m k).isSome = true := by
  intro fuel
  induction fuel with
  | zero => intro s text st st' h; simp only [loop] at h; cases h
  | succ fuel ih =>
    intro s text st st' h m cur hr k e hke
    cases s with
    | nil => simp only [loop] at h; cases h; exact Or.inl (by simpa using hke)
    | cons c cs =>
      simp only [loop] at h
      split at h
      · rename_i hc
        have hc' : c ≠ '%' := by simpa using hc
        simp only [run, ne_eq, hc', not_false_eq_true, if_true] at hr
        exact ih _ _ _ _ h m cur hr k e hke
      · rename_i hc
        have hc' : c = '%' := by simpa using hc
        subst hc'
        cases hs : scanDirective cs with
        | none => rw [hs] at h; cases h
        | some p =>
          obtain ⟨d, rest⟩ := p
          rw [hs] at h; simp only [] at h
          cases hcv : conversion w (flush text st) d with
          | error e' => rw [hcv] at h; cases h
          | ok q =>
            obtain ⟨st1, tp⟩ := q
            rw [hcv] at h; simp only [] at h
            obtain ⟨a, b⟩ := conversion_seq_map hcv
            simp only [flush_core_seq, flush_core_map] at a b
            rcases run_scan (fuel := fuel) ⟨some m, cur⟩ hs with ⟨_, rfl, hrr⟩ | ⟨_, hrr⟩
            · rw [hrr] at hr
              rcases ih _ _ _ _ h m cur hr k e hke with r | r
              · simp only [] at r
                rw [b] at r
                rcases List.mem_append.1 r with r | r
                · exact Or.inl r
                · simp [mapAdd, percentDirective] at r
              · exact Or.inr r
            · rw [hrr] at hr
              cases he : effect d ⟨some m, cur⟩ with
              | error e' => rw [he] at hr; cases hr
              | ok c' =>
                rw [he] at hr; simp only [] at hr
                obtain ⟨hd, hkeys⟩ := effect_dict_inv he
                obtain ⟨dict', cur'⟩ := c'
                simp only [] at hd
                subst hd
                rcases ih _ _ _ _ h m cur' hr k e hke with r | r
                · simp only [] at r
                  rw [b] at r
                  rcases List.mem_append.1 r with r | r
                  · exact Or.inl r
                  · right
                    unfold mapAdd at r
                    cases hk : d.key with
                    | none => rw [hk] at r; cases r
                    | some k' =>
                      rw [hk] at r; simp only [] at r
                      split at r
                      · cases r
                      · simp only [List.mem_singleton, Prod.mk.injEq] at r
                        obtain ⟨rfl, _⟩ := r
                        exact hkeys _ hk
                · exact Or.inr r

end I18n.PyFmt
