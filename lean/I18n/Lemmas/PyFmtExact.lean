import I18n.Lemmas.PyFmtLoop
/-!
# The tuple CPython needs has exactly the length the parser reports
-/
set_option linter.unusedSimpArgs false
namespace I18n.PyFmt
open I18n.Spec.CPyPercent I18n.Spec.PyFmtArgs
open I18n.Generated.PyFormatTables (flagChars lengthChars octCvt hexCvt intCvt floatCvt allCvt SSIZE_MAX typeTable
  variableWidthType variablePrecisionType)

theorem getNextArg_tup {vs : List Val} {v : Val} {c' : Ctx} (h : getNextArg ⟨none, .tup vs⟩ = .ok (v, c')) :
    ∃ rest, vs = v :: rest ∧ c' = ⟨none, .tup rest⟩ := by
  cases vs with
  | nil => simp [getNextArg] at h
  | cons x xs =>
    simp only [getNextArg, Except.ok.injEq, Prod.mk.injEq] at h
    obtain ⟨rfl, rfl⟩ := h
    exact ⟨xs, rfl, rfl⟩

theorem widthStep_tup {w : Num} {vs : List Val} {c' : Ctx} (h : widthStep w ⟨none, .tup vs⟩ = .ok c') :
    ∃ taken rest, vs = taken ++ rest ∧ c' = ⟨none, .tup rest⟩ ∧ taken.length = (widthEntries w 0).length := by
  cases w with
  | star =>
    simp only [widthStep] at h
    cases hg : getNextArg ⟨none, .tup vs⟩ with
    | error e => rw [hg] at h; cases h
    | ok p =>
      obtain ⟨v, c1⟩ := p
      rw [hg] at h
      obtain ⟨rest, rfl, rfl⟩ := getNextArg_tup hg
      cases v with
      | int n =>
        simp only [] at h
        split at h
        · cases h
        · cases h; exact ⟨[.int n], rest, rfl, rfl, rfl⟩
      | float => cases h
      | str l => cases h
      | other => cases h
  | num n =>
    simp only [widthStep] at h
    split at h
    · cases h; exact ⟨[], vs, rfl, rfl, rfl⟩
    · cases h

theorem precStep_tup {p : Option Num} {vs : List Val} {pv : Option Nat} {c' : Ctx} (h : precStep p ⟨none, .tup vs⟩ = .ok (pv, c')) :
    ∃ taken rest, vs = taken ++ rest ∧ c' = ⟨none, .tup rest⟩ ∧ taken.length = (precEntries p 0).length := by
  cases p with
  | none => simp only [precStep] at h; cases h; exact ⟨[], vs, rfl, rfl, rfl⟩
  | some q =>
    cases q with
    | star =>
      simp only [precStep] at h
      cases hg : getNextArg ⟨none, .tup vs⟩ with
      | error e => rw [hg] at h; cases h
      | ok r =>
        obtain ⟨v, c1⟩ := r
        rw [hg] at h
        obtain ⟨rest, rfl, rfl⟩ := getNextArg_tup hg
        cases v with
        | int n =>
          simp only [] at h
          split at h
          · cases h
          · cases h; exact ⟨[.int n], rest, rfl, rfl, rfl⟩
        | float => cases h
        | str l => cases h
        | other => cases h
    | num n =>
      simp only [precStep] at h
      split at h
      · cases h; exact ⟨[], vs, rfl, rfl, rfl⟩
      · cases h

theorem formatValue_percent (p : Option Nat) (v : Val) : formatValue '%' p v = .error .unsupportedChar := by
  unfold formatValue
  simp

/-- what a successful `unicode_format_arg` does to a tuple: no key, not `%`, and it takes exactly one value per `*` plus one -/
theorem effect_tuple_inv {d : Directive} {vs : List Val} {c' : Ctx} (h : effect d ⟨none, .tup vs⟩ = .ok c') :
    d.key = none ∧ d.conv ≠ '%' ∧ ∃ taken rest, vs = taken ++ rest ∧ c' = ⟨none, .tup rest⟩ ∧
      taken.length = (widthEntries d.width 0).length + (precEntries d.prec 0).length + 1 := by
  unfold effect at h
  cases hk : d.key with
  | some k => rw [hk] at h; simp [keyStep] at h
  | none =>
    rw [hk] at h
    simp only [keyStep] at h
    cases hw : widthStep d.width ⟨none, .tup vs⟩ with
    | error e => rw [hw] at h; cases h
    | ok c1 =>
      rw [hw] at h; simp only [] at h
      obtain ⟨t1, r1, rfl, rfl, l1⟩ := widthStep_tup hw
      cases hp : precStep d.prec ⟨none, .tup r1⟩ with
      | error e => rw [hp] at h; cases h
      | ok q =>
        obtain ⟨pv, c2⟩ := q
        rw [hp] at h; simp only [] at h
        obtain ⟨t2, r2, rfl, rfl, l2⟩ := precStep_tup hp
        cases hg : getNextArg ⟨none, .tup r2⟩ with
        | error e => rw [hg] at h; cases h
        | ok r =>
          obtain ⟨v, c3⟩ := r
          rw [hg] at h; simp only [] at h
          obtain ⟨r3, rfl, rfl⟩ := getNextArg_tup hg
          cases hf : formatValue d.conv pv v with
          | error e => rw [hf] at h; cases h
          | ok u =>
            rw [hf] at h; simp only [] at h
            have hc : d.conv ≠ '%' := by
              intro hc; rw [hc, formatValue_percent] at hf; cases hf
            split at h
            · cases h
            · cases h
              refine ⟨rfl, hc, t1 ++ t2 ++ [v], r3, by simp, rfl, ?_⟩
              simp only [List.length_append, List.length_cons, List.length_nil, l1, l2]

theorem seqAdd_length {d : Directive} {tp : String} {parent : Nat} (hk : d.key = none) (hn : tp ≠ "None") :
    (seqAdd d tp parent).length = (widthEntries d.width 0).length + (precEntries d.prec 0).length + 1 := by
  simp only [seqAdd, hk, hn, if_false, List.length_append, List.length_cons, List.length_nil]
  cases d.width <;> cases d.prec <;> (try rename_i q; cases q) <;> rfl

/-- **If CPython formats the rest of the string with a tuple, the parser recorded exactly as many unnamed arguments as the
    tuple has items, and no named one.** -/
theorem loop_tuple_exact (w : Bool) : ∀ (fuel : Nat) (s text : List Char) (st st' : St), loop w fuel s text st = .ok st' →
    plainPercent fuel s = true → ∀ vs, run fuel s ⟨none, .tup vs⟩ = .ok () →
    st'.map = st.map ∧ st'.seq.length = st.seq.length + vs.length := by
  intro fuel
  induction fuel with
  | zero => intro s text st st' h; simp only [loop] at h; cases h
  | succ fuel ih =>
    intro s text st st' h hpl vs hr
    cases s with
    | nil =>
      simp only [loop] at h; cases h
      simp only [run, Ctx.unconverted, Option.isNone_none, Bool.and_true] at hr
      cases vs with
      | nil => simp
      | cons v vs => simp at hr
    | cons c cs =>
      simp only [loop] at h
      simp only [plainPercent] at hpl
      split at h
      · rename_i hc
        simp only [hc, if_true] at hpl
        have hc' : c ≠ '%' := by simpa using hc
        simp only [run, ne_eq, hc', not_false_eq_true, if_true] at hr
        exact ih _ _ _ _ h hpl vs hr
      · rename_i hc
        have hc' : c = '%' := by simpa using hc
        subst hc'
        simp only [bne_self_eq_false, Bool.false_eq_true, if_false] at hpl
        cases hs : scanDirective cs with
        | none => rw [hs] at h; cases h
        | some p =>
          obtain ⟨d, rest⟩ := p
          rw [hs] at h hpl; simp only [] at h hpl
          simp only [Bool.and_eq_true] at hpl
          obtain ⟨hdp, hpl'⟩ := hpl
          cases hcv : conversion w (flush text st) d with
          | error e => rw [hcv] at h; cases h
          | ok q =>
            obtain ⟨st1, tp⟩ := q
            rw [hcv] at h; simp only [] at h
            obtain ⟨hl, _, _, _, _, _⟩ := conversion_ok hcv
            obtain ⟨a, b⟩ := conversion_seq_map hcv
            simp only [flush_core_seq, flush_core_map] at a b
            rcases run_scan (fuel := fuel) ⟨none, .tup vs⟩ hs with ⟨_, rfl, hrr⟩ | ⟨_, hrr⟩
            · rw [hrr] at hr
              have := ih _ _ _ _ h hpl' vs hr
              simp only [] at this
              rw [percent_type] at hl; cases hl
              rw [seqAdd_percent] at a; rw [mapAdd_percent] at b
              rw [a, b] at this
              simpa using this
            · rw [hrr] at hr
              cases he : effect d ⟨none, .tup vs⟩ with
              | error e => rw [he] at hr; cases hr
              | ok c' =>
                rw [he] at hr; simp only [] at hr
                obtain ⟨hk, hcp, taken, rest', rfl, rfl, hlen⟩ := effect_tuple_inv he
                have hn : tp ≠ "None" := by
                  intro hn; subst hn
                  have hmem : d.conv ∈ allCvt := by simpa using (scanDirective_wf hs).2
                  exact hcp (typeTable_none _ hmem hl)
                have := ih _ _ _ _ h hpl' rest' hr
                simp only [] at this
                have hm : mapAdd d tp (flush text st).items.length = [] := by simp [mapAdd, hk]
                rw [a, b, hm, List.append_nil, List.length_append, seqAdd_length hk hn] at this
                refine ⟨this.1, ?_⟩
                rw [this.2, List.length_append, hlen]
                omega

/-! ## the mapping CPython needs has every reported key -/

theorem getNextArg_dict {c c' : Ctx} {v : Val} (h : getNextArg c = .ok (v, c')) : c'.dict = c.dict := by
  unfold getNextArg at h
  split at h
  · cases h; rfl
  · cases h
  · cases h; rfl
  · cases h

theorem widthStep_dict {w : Num} {c c' : Ctx} (h : widthStep w c = .ok c') : c'.dict = c.dict := by
  cases w with
  | star =>
    simp only [widthStep] at h
    cases hg : getNextArg c with
    | error e => rw [hg] at h; cases h
    | ok p =>
      obtain ⟨v, c1⟩ := p
      rw [hg] at h
      have := getNextArg_dict hg
      cases v with
      | int n =>
        simp only [] at h
        split at h
        · cases h
        · cases h; exact this
      | float => cases h
      | str l => cases h
      | other => cases h
  | num n =>
    simp only [widthStep] at h
    split at h
    · cases h; rfl
    · cases h

theorem precStep_dict {p : Option Num} {c c' : Ctx} {pv : Option Nat} (h : precStep p c = .ok (pv, c')) : c'.dict = c.dict := by
  cases p with
  | none => simp only [precStep] at h; cases h; rfl
  | some q =>
    cases q with
    | star =>
      simp only [precStep] at h
      cases hg : getNextArg c with
      | error e => rw [hg] at h; cases h
      | ok r =>
        obtain ⟨v, c1⟩ := r
        rw [hg] at h
        have := getNextArg_dict hg
        cases v with
        | int n =>
          simp only [] at h
          split at h
          · cases h
          · cases h; exact this
        | float => cases h
        | str l => cases h
        | other => cases h
    | num n =>
      simp only [precStep] at h
      split at h
      · cases h; rfl
      · cases h

/-- a successful `unicode_format_arg` with a mapping found the key in it (and keeps the mapping) -/
theorem effect_dict_inv {d : Directive} {m : List (List Char × Val)} {cur : Cur} {c' : Ctx}
    (h : effect d ⟨some m, cur⟩ = .ok c') :
    c'.dict = some m ∧ ∀ k, d.key = some k → (Spec.CPyPercent.lookup m k).isSome = true := by
  unfold effect at h
  cases hk : keyStep d.key ⟨some m, cur⟩ with
  | error e => rw [hk] at h; cases h
  | ok c1 =>
    rw [hk] at h; simp only [] at h
    have hk1 : c1.dict = some m ∧ ∀ k, d.key = some k → (Spec.CPyPercent.lookup m k).isSome = true := by
      unfold keyStep at hk
      cases hkey : d.key with
      | none => rw [hkey] at hk; cases hk; exact ⟨rfl, fun k hk' => by cases hk'⟩
      | some k =>
        rw [hkey] at hk; simp only [] at hk
        cases hl : Spec.CPyPercent.lookup m k with
        | none => rw [hl] at hk; cases hk
        | some v =>
          rw [hl] at hk; cases hk
          exact ⟨rfl, fun k' hk' => by cases hk'; rw [hl]; rfl⟩
    cases hw : widthStep d.width c1 with
    | error e => rw [hw] at h; cases h
    | ok c2 =>
      rw [hw] at h; simp only [] at h
      have d2 := widthStep_dict hw
      cases hp : precStep d.prec c2 with
      | error e => rw [hp] at h; cases h
      | ok q =>
        obtain ⟨pv, c3⟩ := q
        rw [hp] at h; simp only [] at h
        have d3 := precStep_dict hp
        cases hg : getNextArg c3 with
        | error e => rw [hg] at h; cases h
        | ok r =>
          obtain ⟨v, c4⟩ := r
          rw [hg] at h; simp only [] at h
          have d4 := getNextArg_dict hg
          cases hf : formatValue d.conv pv v with
          | error e => rw [hf] at h; cases h
          | ok u =>
            rw [hf] at h; simp only [] at h
            split at h
            · cases h
            · cases h
              exact ⟨by rw [d4, d3, d2]; exact hk1.1, hk1.2⟩

/-- **If CPython formats the rest of the string with a mapping, every key the parser recorded is in the mapping.** -/
theorem loop_dict_keys (w : Bool) : ∀ (fuel : Nat) (s text : List Char) (st st' : St), loop w fuel s text st = .ok st' →
    ∀ (m : List (List Char × Val)) (cur : Cur), run fuel s ⟨some m, cur⟩ = .ok () →
    ∀ k e, (k, e) ∈ st'.map → (k, e) ∈ st.map ∨ (Spec.CPyPercent.lookup m k).isSome = true := by
  intro fuel
  induction fuel with
  | zero => intro s text st st' h; simp only [loop] at h; cases h
  | succ fuel ih =>
    intro s text st st' h m cur hr k e hke
    cases s with
    | nil => simp only [loop] at h; cases h; exact Or.inl (by simpa using hke)
    | cons c cs =>
      simp only [loop] at h
      split at h
      · rename_i hc
        have hc' : c ≠ '%' := by simpa using hc
        simp only [run, ne_eq, hc', not_false_eq_true, if_true] at hr
        exact ih _ _ _ _ h m cur hr k e hke
      · rename_i hc
        have hc' : c = '%' := by simpa using hc
        subst hc'
        cases hs : scanDirective cs with
        | none => rw [hs] at h; cases h
        | some p =>
          obtain ⟨d, rest⟩ := p
          rw [hs] at h; simp only [] at h
          cases hcv : conversion w (flush text st) d with
          | error e' => rw [hcv] at h; cases h
          | ok q =>
            obtain ⟨st1, tp⟩ := q
            rw [hcv] at h; simp only [] at h
            obtain ⟨a, b⟩ := conversion_seq_map hcv
            simp only [flush_core_seq, flush_core_map] at a b
            rcases run_scan (fuel := fuel) ⟨some m, cur⟩ hs with ⟨_, rfl, hrr⟩ | ⟨_, hrr⟩
            · rw [hrr] at hr
              rcases ih _ _ _ _ h m cur hr k e hke with r | r
              · simp only [] at r
                rw [b] at r
                rcases List.mem_append.1 r with r | r
                · exact Or.inl r
                · simp [mapAdd, percentDirective] at r
              · exact Or.inr r
            · rw [hrr] at hr
              cases he : effect d ⟨some m, cur⟩ with
              | error e' => rw [he] at hr; cases hr
              | ok c' =>
                rw [he] at hr; simp only [] at hr
                obtain ⟨hd, hkeys⟩ := effect_dict_inv he
                obtain ⟨dict', cur'⟩ := c'
                simp only [] at hd
                subst hd
                rcases ih _ _ _ _ h m cur' hr k e hke with r | r
                · simp only [] at r
                  rw [b] at r
                  rcases List.mem_append.1 r with r | r
                  · exact Or.inl r
                  · right
                    unfold mapAdd at r
                    cases hk : d.key with
                    | none => rw [hk] at r; cases r
                    | some k' =>
                      rw [hk] at r; simp only [] at r
                      split at r
                      · cases r
                      · simp only [List.mem_singleton, Prod.mk.injEq] at r
                        obtain ⟨rfl, _⟩ := r
                        exact hkeys _ hk
                · exact Or.inr r

/-! ## outside the domain -/

/-- a specification with conversion character `%` that is not the two characters `%%` is never formatted
    (CPython 3.12: "unsupported format character '%'" after the argument fetch, or an earlier error) -/
theorem effect_percent_fails {d : Directive} (hc : d.conv = '%') (c : Ctx) : ∃ e, effect d c = .error e := by
  unfold effect
  cases keyStep d.key c with
  | error e => exact ⟨_, rfl⟩
  | ok c1 =>
    simp only []
    cases widthStep d.width c1 with
    | error e => exact ⟨_, rfl⟩
    | ok c2 =>
      simp only []
      cases precStep d.prec c2 with
      | error e => exact ⟨_, rfl⟩
      | ok q =>
        obtain ⟨pv, c3⟩ := q
        simp only []
        cases getNextArg c3 with
        | error e => exact ⟨_, rfl⟩
        | ok r =>
          obtain ⟨v, c4⟩ := r
          simp only [hc, formatValue_percent]
          exact ⟨_, rfl⟩

/-- **Outside the domain CPython formats nothing**: a string with a `%` conversion that carries a key, flag, width,
    precision or length is rejected by (the model of) CPython 3.12 whatever the arguments -/
theorem run_nonplain : ∀ (fuel : Nat) (s : List Char), plainPercent fuel s = false → ∀ c : Ctx, run fuel s c ≠ .ok () := by
  intro fuel
  induction fuel with
  | zero => intro s h; simp [plainPercent] at h
  | succ fuel ih =>
    intro s h c
    cases s with
    | nil => simp [plainPercent] at h
    | cons ch cs =>
      simp only [plainPercent] at h
      split at h
      · rename_i hc
        have hc' : ch ≠ '%' := by simpa using hc
        simp only [run, ne_eq, hc', not_false_eq_true, if_true]
        exact ih _ h c
      · rename_i hc
        have hc' : ch = '%' := by simpa using hc
        subst hc'
        cases hs : scanDirective cs with
        | none => rw [hs] at h; cases h
        | some p =>
          obtain ⟨d, rest⟩ := p
          rw [hs] at h; simp only [] at h
          rcases run_scan (fuel := fuel) c hs with ⟨_, rfl, hrr⟩ | ⟨hne, hrr⟩
          · rw [hrr]
            have : percentDirective.plain = true := by decide
            rw [this, Bool.true_and] at h
            exact ih _ h c
          · rw [hrr]
            by_cases hp : d.plain = true
            · rw [hp, Bool.true_and] at h
              cases effect d c with
              | error e => intro hh; cases hh
              | ok c' => exact ih _ h c'
            · have hcv : d.conv = '%' := by
                by_cases hcv : d.conv = '%'
                · exact hcv
                · exfalso; apply hp; simp [Directive.plain, hcv]
              obtain ⟨e, he⟩ := effect_percent_fails hcv c
              rw [he]
              intro hh; cases hh

/-! ## a single value instead of a one-element tuple -/

theorem effect_single {d : Directive} {tp : String} {parent : Nat} {v : Val}
    (hin : d.inRange) (hl : typeTable.lookup d.conv = some tp) (hk : d.key = none) (hn : tp ≠ "None")
    (hs : seqAdd d tp parent = [⟨.conv, tp, parent⟩]) (hv : okFor ⟨.conv, tp, parent⟩ v) :
    effect d ⟨none, .one v false⟩ = .ok ⟨none, .one v true⟩ := by
  obtain ⟨key, flags, width, prec, length, conv⟩ := d
  dsimp only at hl hk
  subst hk
  obtain ⟨hw, hp⟩ := hin
  dsimp only at hw hp
  have fv_none : formatValue conv none v = .ok () := formatValue_ok (p := none) hl hn hv (fun n h => by cases h)
  have fv : ∀ q : Nat, (intCvt.contains conv = true → q ≤ INT_MAX - 3) → formatValue conv (some q) v = .ok () :=
    fun q hq => formatValue_ok (p := some q) hl hn hv (fun n h hi => by cases h; exact hq hi)
  simp only [effect, keyStep]
  cases width with
  | star => simp [seqAdd, widthEntries] at hs
  | num wn =>
    simp only [widthStep, if_pos (ssize_le_py (hw wn rfl))]
    cases prec with
    | none =>
      simp only [precStep, getNextArg, fv_none]
      rfl
    | some pr =>
      cases pr with
      | star => simp [seqAdd, widthEntries, precEntries, hn] at hs
      | num q =>
        obtain ⟨q1, q2⟩ := hp q rfl
        simp only [precStep, getNextArg, if_pos (ssize_le_int q1), fv _ (fun hi => ssize3_le_int3 (q2 hi))]
        rfl

theorem seqAdd_ne_nil {d : Directive} {tp : String} {parent : Nat} (hk : d.key = none) (hn : tp ≠ "None") :
    seqAdd d tp parent ≠ [] := by
  intro h
  have := congrArg List.length h
  rw [seqAdd_length hk hn] at this
  simp at this

/-- the loop against a single (non-tuple, non-mapping) right operand: exactly one unnamed argument is recorded, and the
    value has its type; or the value was already fetched and nothing more is recorded -/
theorem loop_single (w : Bool) : ∀ (fuel : Nat) (s text : List Char) (st st' : St), loop w fuel s text st = .ok st' →
    plainPercent fuel s = true → st'.map = [] → ∀ (v : Val) (fetched : Bool),
    (fetched = false → ∃ e, st'.seq.drop st.seq.length = [e] ∧ okFor e v) →
    (fetched = true → st'.seq.drop st.seq.length = []) →
    run fuel s ⟨none, .one v fetched⟩ = .ok () := by
  intro fuel
  induction fuel with
  | zero => intro s text st st' h; simp only [loop] at h; cases h
  | succ fuel ih =>
    intro s text st st' h hpl hmap v fetched hf0 hf1
    cases s with
    | nil =>
      simp only [loop] at h; cases h
      cases fetched with
      | true => rfl
      | false =>
        obtain ⟨e, he, _⟩ := hf0 rfl
        simp at he
    | cons c cs =>
      simp only [loop] at h
      simp only [plainPercent] at hpl
      split at h
      · rename_i hc
        simp only [hc, if_true] at hpl
        have hc' : c ≠ '%' := by simpa using hc
        simp only [run, ne_eq, hc', not_false_eq_true, if_true]
        exact ih _ _ _ _ h hpl hmap v fetched hf0 hf1
      · rename_i hc
        have hc' : c = '%' := by simpa using hc
        subst hc'
        simp only [bne_self_eq_false, Bool.false_eq_true, if_false] at hpl
        cases hs : scanDirective cs with
        | none => rw [hs] at h; cases h
        | some p =>
          obtain ⟨d, rest⟩ := p
          rw [hs] at h hpl; simp only [] at h hpl
          simp only [Bool.and_eq_true] at hpl
          obtain ⟨hdp, hpl'⟩ := hpl
          cases hcv : conversion w (flush text st) d with
          | error e => rw [hcv] at h; cases h
          | ok q =>
            obtain ⟨st1, tp⟩ := q
            rw [hcv] at h; simp only [] at h
            obtain ⟨hl, _, hin, hnk, _, _⟩ := conversion_ok hcv
            obtain ⟨a, b⟩ := conversion_seq_map hcv
            simp only [flush_core_seq, flush_core_map] at a b
            obtain ⟨X, Y, hX, hY⟩ := loop_mono w _ _ _ _ _ h
            simp only [] at hX hY
            have hmap1 : st1.map = [] := by
              rw [hY] at hmap; exact (List.append_eq_nil_iff.1 hmap).1
            have hmadd : mapAdd d tp (flush text st).items.length = [] := by
              rw [b] at hmap1; exact (List.append_eq_nil_iff.1 hmap1).2
            have hdrop : st'.seq.drop st.seq.length = seqAdd d tp (flush text st).items.length ++ X := by
              rw [hX, a, List.append_assoc, List.drop_left]
            have hdrop1 : st'.seq.drop st1.seq.length = X := by rw [hX, List.drop_left]
            rw [hdrop] at hf0 hf1
            by_cases hn : tp = "None"
            · subst hn
              obtain ⟨rfl, rfl⟩ := none_is_percent hs hl hdp
              rw [seqAdd_percent, List.nil_append] at hf0 hf1
              rw [run_literal]
              exact ih _ _ _ _ h hpl' hmap v fetched (by simp only []; rw [hdrop1]; exact hf0) (by simp only []; rw [hdrop1]; exact hf1)
            · have hk : d.key = none := by
                cases hk : d.key with
                | none => rfl
                | some k => simp [mapAdd, hk, hn] at hmadd
              have hne := seqAdd_ne_nil (parent := (flush text st).items.length) hk hn
              cases fetched with
              | true =>
                have := hf1 rfl
                exact absurd (List.append_eq_nil_iff.1 this).1 hne
              | false =>
                obtain ⟨e, he, hev⟩ := hf0 rfl
                -- the specification contributes exactly the one entry
                have hlen := seqAdd_length (parent := (flush text st).items.length) hk hn
                have hl1 := congrArg List.length he
                simp only [List.length_append, List.length_cons, List.length_nil] at hl1
                have hX0 : X = [] := by
                  cases X with
                  | nil => rfl
                  | cons x xs => simp only [List.length_cons] at hl1; omega
                subst hX0
                rw [List.append_nil] at he
                have hw0 : (widthEntries d.width 0).length = 0 := by omega
                have hp0 : (precEntries d.prec 0).length = 0 := by omega
                have hsa : seqAdd d tp (flush text st).items.length = [⟨.conv, tp, (flush text st).items.length⟩] := by
                  simp only [seqAdd, hk, hn, if_false]
                  cases hw : d.width with
                  | star => rw [hw] at hw0; simp [widthEntries] at hw0
                  | num n =>
                    cases hp : d.prec with
                    | none => rfl
                    | some q =>
                      cases q with
                      | star => rw [hp] at hp0; simp [precEntries] at hp0
                      | num m => rfl
                rw [hsa] at he
                cases he
                rcases run_scan (fuel := fuel) ⟨none, .one v false⟩ hs with ⟨_, rfl, _⟩ | ⟨_, hr⟩
                · rw [percent_type] at hl; cases hl; exact absurd rfl hn
                · rw [hr, effect_single hin hl hk hn hsa hev]
                  exact ih _ _ _ _ h hpl' hmap v true (fun hh => by cases hh) (fun _ => by simp only []; rw [hdrop1])

end I18n.PyFmt
