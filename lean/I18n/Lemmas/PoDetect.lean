import I18n.Model.Po
/-! `polib.detect_encoding` on a file whose first line mentioning `Content-Type:` is the usual header line. -/
namespace I18n.Lemmas.PoDetect
open I18n I18n.Po

/-- `text/plain;` -/
def mimeLit : Bytes := [116, 101, 120, 116, 47, 112, 108, 97, 105, 110, 59]

/-- `"Content-Type: text/plain; charset=` -/
def headerPrefix : Bytes := 34 :: (contentTypeLit ++ (32 :: (mimeLit ++ charsetLit)))

theorem takeWhile_name (name rest : Bytes) (hn : ∀ b ∈ name, isCharsetByte b = true)
    (hr : ∀ b r, rest = b :: r → isCharsetByte b = false) : (name ++ rest).takeWhile isCharsetByte = name := by
  induction name with
  | nil =>
    cases rest with
    | nil => rfl
    | cons b r => simp [List.takeWhile, hr b r rfl]
  | cons a as ih =>
    simp [List.takeWhile, hn a (by simp), ih (fun b hb => hn b (by simp [hb]))]

theorem bytesStartsWith_append (pat s : Bytes) : bytesStartsWith pat (pat ++ s) = true := by
  simp [bytesStartsWith]

theorem afterFirst_here (pat s : Bytes) (hne : pat ≠ []) : afterFirst pat (pat ++ s) = some s := by
  obtain ⟨a, as, rfl⟩ := List.exists_cons_of_ne_nil hne
  have := bytesStartsWith_append (a :: as) s
  simp only [List.cons_append] at this ⊢
  simp [afterFirst, this]

theorem findCharsetArg_skip (p s : Bytes) (hp : ∀ b ∈ p, b ≠ 32) : findCharsetArg (p ++ s) = findCharsetArg s := by
  induction p with
  | nil => rfl
  | cons a as ih =>
    have ha : a ≠ 32 := hp a (by simp)
    have hns : bytesStartsWith charsetLit (a :: (as ++ s)) = false := by
      simp [bytesStartsWith, charsetLit, ha]
    simp only [List.cons_append, findCharsetArg, hns, Bool.false_and]
    exact ih (fun b hb => hp b (by simp [hb]))

theorem findCharsetArg_here (name rest : Bytes) (hne : name ≠ []) (hn : ∀ b ∈ name, isCharsetByte b = true)
    (hr : ∀ b r, rest = b :: r → isCharsetByte b = false) : findCharsetArg (charsetLit ++ (name ++ rest)) = some name := by
  obtain ⟨a, as, rfl⟩ := List.exists_cons_of_ne_nil hne
  have ha : isCharsetByte a = true := hn a (by simp)
  have htw := takeWhile_name (a :: as) rest hn hr
  have hsw := bytesStartsWith_append charsetLit ((a :: as) ++ rest)
  have hdrop : (charsetLit ++ ((a :: as) ++ rest)).drop charsetLit.length = (a :: as) ++ rest := List.drop_left
  have hc : charsetLit ++ ((a :: as) ++ rest) = 32 :: ([99, 104, 97, 114, 115, 101, 116, 61] ++ ((a :: as) ++ rest)) := rfl
  rw [hc] at hsw hdrop ⊢
  simp only [findCharsetArg, hsw, hdrop, Bool.true_and]
  have htw' : List.takeWhile isCharsetByte (as ++ rest) = as := by
    simpa [List.takeWhile, ha] using htw
  simp [ha, htw']

/-- the usual header line: the charset is what follows `charset=` up to the first byte that cannot be part of a name -/
theorem detectLine_header (name rest : Bytes) (hne : name ≠ []) (hn : ∀ b ∈ name, isCharsetByte b = true)
    (hr : ∀ b r, rest = b :: r → isCharsetByte b = false) :
    detectLine (headerPrefix ++ (name ++ rest)) = some name := by
  have h1 : afterFirst contentTypeLit (headerPrefix ++ (name ++ rest)) =
      some (32 :: (mimeLit ++ (charsetLit ++ (name ++ rest)))) := by
    have hskip : bytesStartsWith contentTypeLit (headerPrefix ++ (name ++ rest)) = false := by
      simp [bytesStartsWith, headerPrefix, contentTypeLit]
    have : headerPrefix ++ (name ++ rest) = 34 :: (contentTypeLit ++ (32 :: (mimeLit ++ (charsetLit ++ (name ++ rest))))) := by
      simp [headerPrefix]
    rw [this] at hskip ⊢
    simp only [afterFirst, hskip]
    exact afterFirst_here contentTypeLit _ (by simp [contentTypeLit])
  simp only [detectLine, h1]
  rw [findCharsetArg_skip mimeLit _ (by decide)]
  exact findCharsetArg_here name rest hne hn hr

/-! ### any header line `… Content-Type:<x><params> charset=NAME…` -/

/-- no blank of `p` is followed by `c`, and `p` does not end in a blank: ` charset=` cannot start inside `p` -/
def SpaceNotC : Bytes → Prop
  | [] => True
  | [b] => b ≠ 32
  | a :: b :: r => (a = 32 → b ≠ 99) ∧ SpaceNotC (b :: r)

theorem findCharsetArg_skip' (p s : Bytes) (hp : SpaceNotC p) (hs : ∀ b r, s = b :: r → b = 32) :
    findCharsetArg (p ++ s) = findCharsetArg s := by
  induction p with
  | nil => rfl
  | cons a as ih =>
    cases as with
    | nil =>
      have ha : a ≠ 32 := hp
      have hns : bytesStartsWith charsetLit (a :: ([] ++ s)) = false := by simp [bytesStartsWith, charsetLit, ha]
      simp only [List.cons_append, findCharsetArg, hns, Bool.false_and]
      rfl
    | cons b r =>
      obtain ⟨h1, h2⟩ := hp
      have hns : bytesStartsWith charsetLit (a :: (b :: r ++ s)) = false := by
        by_cases ha : a = 32
        · have hb := h1 ha; simp [bytesStartsWith, charsetLit, hb]
        · simp [bytesStartsWith, charsetLit, ha]
      show findCharsetArg (a :: (b :: r ++ s)) = findCharsetArg s
      rw [findCharsetArg]
      simp only [hns, Bool.false_and, Bool.false_eq_true, if_false]
      exact ih h2

theorem afterFirst_skip (pat a s : Bytes) (c : UInt8) (hpat : ∃ r, pat = c :: r) (ha : c ∉ a) :
    afterFirst pat (a ++ s) = afterFirst pat s := by
  obtain ⟨r, rfl⟩ := hpat
  induction a with
  | nil => rfl
  | cons x xs ih =>
    have hx : x ≠ c := by intro e; apply ha; simp [e]
    have hns : bytesStartsWith (c :: r) (x :: (xs ++ s)) = false := by simp [bytesStartsWith, hx]
    simp only [List.cons_append, afterFirst, hns]
    exact ih (by intro h; apply ha; simp [h])

/-- the general header line: anything without a `C` before `Content-Type:`, one arbitrary byte, parameters in which ` charset=`
    cannot start (`SpaceNotC`), then ` charset=NAME` -/
theorem detectLine_general (a params name rest : Bytes) (x : UInt8) (ha : (67 : UInt8) ∉ a) (hp : SpaceNotC params)
    (hne : name ≠ []) (hn : ∀ b ∈ name, isCharsetByte b = true) (hr : ∀ b r, rest = b :: r → isCharsetByte b = false) :
    detectLine (a ++ (contentTypeLit ++ (x :: (params ++ (charsetLit ++ (name ++ rest)))))) = some name := by
  have h1 : afterFirst contentTypeLit (a ++ (contentTypeLit ++ (x :: (params ++ (charsetLit ++ (name ++ rest)))))) =
      some (x :: (params ++ (charsetLit ++ (name ++ rest)))) := by
    rw [afterFirst_skip contentTypeLit a _ 67 ⟨_, rfl⟩ ha]
    exact afterFirst_here contentTypeLit _ (by simp [contentTypeLit])
  simp only [detectLine, h1]
  rw [findCharsetArg_skip' params _ hp (by intro b r e; simp [charsetLit] at e; exact e.1.symm)]
  exact findCharsetArg_here name rest hne hn hr

theorem detectIn_skip (env : Env) (pre : List Bytes) (h : ∀ l ∈ pre, detectLine l = none) (rest : List Bytes) :
    detectIn env (pre ++ rest) = detectIn env rest := by
  induction pre with
  | nil => rfl
  | cons l ls ih =>
    simp only [List.cons_append, detectIn, h l (by simp)]
    exact ih (fun x hx => h x (by simp [hx]))

theorem detect_header_general (env : Env) (file : Bytes) (pre post : List Bytes) (a params name rest : Bytes) (x : UInt8)
    (hlines : byteLines file = pre ++ (a ++ (contentTypeLit ++ (x :: (params ++ (charsetLit ++ (name ++ rest)))))) :: post)
    (hpre : ∀ l ∈ pre, detectLine l = none) (ha : (67 : UInt8) ∉ a) (hp : SpaceNotC params)
    (hne : name ≠ []) (hn : ∀ b ∈ name, isCharsetByte b = true) (hr : ∀ b r, rest = b :: r → isCharsetByte b = false)
    (hex : env.codecExists name = true) : detectEncoding env file = name := by
  unfold detectEncoding
  rw [hlines, detectIn_skip env pre hpre]
  simp [detectIn, detectLine_general a params name rest x ha hp hne hn hr, hex]

/-- the first line that matches polib's pattern is the header's `Content-Type` line: its charset is detected -/
theorem detect_header (env : Env) (file : Bytes) (pre post : List Bytes) (name rest : Bytes)
    (hlines : byteLines file = pre ++ (headerPrefix ++ (name ++ rest)) :: post)
    (hpre : ∀ l ∈ pre, detectLine l = none) (hne : name ≠ []) (hn : ∀ b ∈ name, isCharsetByte b = true)
    (hr : ∀ b r, rest = b :: r → isCharsetByte b = false) (hex : env.codecExists name = true) :
    detectEncoding env file = name := by
  unfold detectEncoding
  rw [hlines, detectIn_skip env pre hpre]
  simp [detectIn, detectLine_header name rest hne hn hr, hex]

end I18n.Lemmas.PoDetect
