import I18n.Lemmas.PoComments
import I18n.Lemmas.PoPre
/-! The last line of a spelled catalog is a message line, and `Codecs.open` does not hold a message line back. -/
namespace I18n.Lemmas.PoFile
open I18n I18n.Po I18n.Spec.PoSpelling I18n.Lemmas.PoKit I18n.Lemmas.PoLines I18n.Lemmas.PoFsm I18n.Lemmas.PoPre

/-- a message line: padding, plain or obsolete prefix, then something that starts with a non-space other than `#` -/
def IsMsgLine (l : Text) : Prop :=
  ∃ lpad pre core rpad, l = lpad ++ (Prefix.render pre ++ core) ++ rpad ∧ Blank lpad ∧ MsgPrefix pre ∧
    ∃ c r, core = c :: r ∧ pyIsSpace c = false ∧ c ≠ '#'

theorem kwLine_isMsg (pre : Prefix) (hpre : MsgPrefix pre) (kw sep : Text) (g : Seg) (hl : Blank g.lpad)
    (hkw : ∃ c r, kw = c :: r ∧ pyIsSpace c = false ∧ c ≠ '#') : IsMsgLine (kwLine pre kw sep g) := by
  obtain ⟨c, r, rfl, h1, h2⟩ := hkw
  exact ⟨g.lpad, pre, (c :: r) ++ (sep ++ quoted g.choices), g.rpad, rfl, hl, hpre, c, r ++ (sep ++ quoted g.choices), by simp, h1, h2⟩

theorem contLine_isMsg (pre : Prefix) (hpre : MsgPrefix pre) (g : Seg) (hl : Blank g.lpad) : IsMsgLine (contLine pre g) :=
  ⟨g.lpad, pre, quoted g.choices, g.rpad, rfl, hl, hpre, '"', render g.choices ++ ['"'], by simp [quoted], by decide, by decide⟩

theorem not_held_msg (env : Env) (hsp : env.isSpace = pyIsSpace) (l : Text) (h : IsMsgLine l) : holdBack env l = false := by
  obtain ⟨lpad, pre, core, rpad, rfl, hl, hpre, c, r, rfl, hc, hc'⟩ := h
  have hlsp := blank_space lpad hl
  -- the first token is none of the ignored comment markers
  have htok : ∃ t0 rest, splitWs pyIsSpace 1 (lpad ++ (pre.render ++ (c :: r)) ++ rpad) = t0 :: rest ∧
      t0 ≠ ['#', '~', '|'] ∧ t0 ≠ ['#', '.'] ∧ t0 ≠ ['#', ':'] ∧ t0 ≠ ['#', ','] := by
    rw [List.append_assoc, splitWs_pad 1 lpad _ hlsp]
    rcases hpre with rfl | ⟨sep, rfl, hsep, hbl⟩
    · simp only [Prefix.render, List.nil_append, List.cons_append, splitWs, List.dropWhile, hc, List.takeWhile]
      exact ⟨_, _, rfl, by simp [hc'], by simp [hc'], by simp [hc'], by simp [hc']⟩
    · obtain ⟨b, bs, hb⟩ := List.exists_cons_of_ne_nil hsep
      have hbsp : pyIsSpace b = true := blank_space sep hbl b (by rw [hb]; simp)
      have := splitWs_tok (p := pyIsSpace) 0 ['#', '~'] (sep ++ (c :: r) ++ rpad) (by simp)
        (by intro x hx; simp at hx; rcases hx with rfl | rfl <;> decide)
        (by intro x y e; rw [hb] at e; simp at e; rw [← e.1]; exact hbsp)
      simp only [Prefix.render, List.cons_append, List.nil_append, List.append_assoc] at this ⊢
      rw [this]
      exact ⟨_, _, rfl, by decide, by decide, by decide, by decide⟩
  obtain ⟨t0, rest, hsplit, h1, h2, h3, h4⟩ := htok
  -- the first two characters are not `# `
  have htake : ((lpad ++ (pre.render ++ (c :: r)) ++ rpad).take 2 == ['#', ' ']) = false := by
    cases lpad with
    | cons x xs =>
      have hx : x ≠ '#' := by rcases hl x (by simp) with rfl | rfl <;> decide
      cases xs <;> simp [hx]
    | nil =>
      rcases hpre with rfl | ⟨sep, rfl, hsep, hbl⟩
      · cases r <;> simp [Prefix.render, hc']
      · simp [Prefix.render]
  have hne : ((lpad ++ (pre.render ++ (c :: r)) ++ rpad).take 2 == []) = false := by
    cases lpad with
    | cons x xs => cases xs <;> simp
    | nil =>
      rcases hpre with rfl | ⟨sep, rfl, hsep, hbl⟩
      · cases r <;> simp [Prefix.render]
      · simp [Prefix.render]
  have hall : allIn pyIsSpace (lpad ++ (pre.render ++ (c :: r)) ++ rpad) = false := by
    simp only [allIn, Bool.and_eq_false_iff]
    right
    simp only [List.all_eq_false]
    exact ⟨c, by simp, by simp [hc]⟩
  simp only [holdBack, hsp, htake, hne, hall, isIgnoredComment, hsplit, Bool.false_or]
  simp [h1, h2, h3, h4]

theorem getLast_split {α : Type} (l : List α) (x : α) (h : l.getLast? = some x) : ∃ init, l = init ++ [x] := by
  have hne : l ≠ [] := by intro e; rw [e] at h; simp at h
  refine ⟨l.dropLast, ?_⟩
  have := List.dropLast_concat_getLast hne
  rw [List.getLast?_eq_some_getLast hne] at h
  simp at h
  rw [← h]; exact this.symm

theorem strsp_last (E : Codec) (pre : Prefix) (hpre : MsgPrefix pre) (kw : Text) (hkw : ∃ c r, kw = c :: r ∧ pyIsSpace c = false ∧ c ≠ '#')
    (x : StrSp) (hx : x.Valid E) (hend : x.EndsReal) : ∃ b l, x.lines pre kw = b ++ [l] ∧ IsMsgLine l := by
  unfold StrSp.EndsReal at hend
  cases hm : x.more.getLast? with
  | none =>
    rw [hm] at hend
    have hmore : x.more = [] := by simpa [List.getLast?_eq_none_iff] using hm
    refine ⟨[], kwLine pre kw x.sep x.first, ?_, kwLine_isMsg pre hpre kw x.sep x.first hx.2.2.1.2.2.1 hkw⟩
    simp [StrSp.lines, hend, hmore, contLines]
  | some gn =>
    rw [hm] at hend
    obtain ⟨init, hinit⟩ := getLast_split x.more gn hm
    have hgn := hx.2.2.2.2 gn (by rw [hinit]; simp)
    refine ⟨kwLine pre kw x.sep x.first :: (x.firstNoise.map Noise.render ++ contLines pre init), contLine pre gn.1, ?_,
      contLine_isMsg pre hpre gn.1 hgn.1.2.2.1⟩
    simp [StrSp.lines, hinit, contLines, hend]

theorem isKw_head {kw : Text} {sym : I18n.Generated.PolibFsm.Sym} (h : IsKw kw sym) : ∃ c r, kw = c :: r ∧ pyIsSpace c = false ∧ c ≠ '#' := by
  obtain ⟨c, r, hc⟩ := List.exists_cons_of_ne_nil h.ne
  refine ⟨c, r, hc, h.nonspace c (by rw [hc]; simp), ?_⟩
  have := h.head.2; rw [hc] at this; simpa using this

theorem mxKw_head (j : Nat) : ∃ c r, mxKw j = c :: r ∧ pyIsSpace c = false ∧ c ≠ '#' :=
  ⟨'m', _, rfl, by decide, by decide⟩

theorem forms_last (E : Codec) (pre : Prefix) (hpre : MsgPrefix pre) (forms : List StrSp) (hne : forms ≠ [])
    (hv : ∀ x ∈ forms, x.Valid E) (hend : ∀ x, forms.getLast? = some x → x.EndsReal) (j : Nat) :
    ∃ b l, formsLines pre j forms = b ++ [l] ∧ IsMsgLine l := by
  induction forms generalizing j with
  | nil => exact absurd rfl hne
  | cons x rest ih =>
    cases rest with
    | nil =>
      obtain ⟨b, l, h1, h2⟩ := strsp_last E pre hpre (mxKw j) (mxKw_head j) x (hv x (by simp)) (hend x rfl)
      exact ⟨b, l, by simp [formsLines, h1], h2⟩
    | cons y ys =>
      obtain ⟨b, l, h1, h2⟩ := ih (by simp) (fun z hz => hv z (by simp [hz]))
        (fun z hz => hend z (by simpa [List.getLast?_cons_cons] using hz)) (j + 1)
      exact ⟨x.lines pre (mxKw j) ++ b, l, by rw [formsLines, h1, List.append_assoc], h2⟩

theorem msg_last (E : Codec) (m : MsgSp) (hm : m.Valid E) (hend : m.EndsReal) : ∃ b l, m.lines = b ++ [l] ∧ IsMsgLine l := by
  obtain ⟨mpre, mctxt, mid, mbody⟩ := m
  have hpre : MsgPrefix mpre := hm.1
  cases mbody with
  | singular x =>
    obtain ⟨b, l, h1, h2⟩ := strsp_last E mpre hpre _ (isKw_head isKw_msgstr) x hm.2.2.2 hend
    exact ⟨ctxtLines mpre mctxt ++ (mid.lines mpre "msgid".toList ++ b), l, by simp only [MsgSp.lines, bodyLines, h1, List.append_assoc], h2⟩
  | plural p forms =>
    obtain ⟨hp, hne, hlen, hfv⟩ := hm.2.2.2
    obtain ⟨b, l, h1, h2⟩ := forms_last E mpre hpre forms hne hfv hend 0
    exact ⟨ctxtLines mpre mctxt ++ (mid.lines mpre "msgid".toList ++ (p.lines mpre "msgid_plural".toList ++ b)), l,
      by simp only [MsgSp.lines, bodyLines, h1, List.append_assoc], h2⟩

theorem catalog_last (E : Codec) (cat : CatalogSp) (hv : cat.Valid E) : ∃ b l, cat.lines = b ++ [l] ∧ IsMsgLine l := by
  obtain ⟨_, _, _, hEs, hne, _, hlast⟩ := hv
  obtain ⟨e, he⟩ : ∃ e, cat.entries.getLast? = some e := by
    cases h : cat.entries.getLast? with
    | none => simp [List.getLast?_eq_none_iff] at h; exact absurd h hne
    | some e => exact ⟨e, rfl⟩
  obtain ⟨init, hinit⟩ := getLast_split cat.entries e he
  obtain ⟨b, l, h1, h2⟩ := msg_last E e.msg (hEs e (by rw [hinit]; simp)).2 (hlast e he)
  refine ⟨cat.noiseA.map Noise.render ++ (cat.header.map HeaderLine.render ++ (cat.noiseB.map Noise.render ++
    (init.flatMap EntrySp.lines ++ (e.comments.flatMap CommentSp.lines ++ b)))), l, ?_, h2⟩
  simp [CatalogSp.lines, hinit, EntrySp.lines, h1]

/-! ### what `Codecs.open` holds back -/

theorem normalise_blank_head (l : Text) (h : ∀ c r, l = c :: r → c ≠ '#') : normalise l = l := by
  unfold normalise atypical
  split
  · rename_i c rest heq
    exact absurd rfl (h '#' _ rfl)
  · rfl

/-- every noise line is held back by `Codecs.open` (so trailing noise is dropped, noise before a message line is flushed) -/
theorem noise_held (env : Env) (hsp : env.isSpace = pyIsSpace) (z : Noise) (hz : z.Valid) : Held env z.render := by
  unfold Held
  cases z with
  | blank ws =>
    have hn : normalise ws = ws := normalise_blank_head ws (by
      intro c r e hc; have := hz c (by rw [e]; simp); rw [hc] at this; exact absurd this (by decide))
    simp only [Noise.render, hn, holdBack, hsp]
    cases ws with
    | nil => simp
    | cons a as =>
      have : allIn pyIsSpace (a :: as) = true := by
        simp only [allIn, List.isEmpty_cons, Bool.not_false, Bool.true_and, List.all_eq_true]
        exact fun x hx => hz x hx
      simp [this]
  | ignoredPrev lpad mid rpad =>
    obtain ⟨hl, hr, hm1, hm2⟩ := hz
    have hn : normalise (lpad ++ ('#' :: '~' :: '|' :: mid) ++ rpad) = lpad ++ ('#' :: '~' :: '|' :: mid) ++ rpad := by
      cases lpad with
      | nil => simp [normalise, atypical]
      | cons x xs =>
        apply normalise_blank_head
        intro c r e; simp at e; rw [← e.1]; rcases hl x (by simp) with rfl | rfl <;> decide
    have hsplit : ∃ rest, splitWs pyIsSpace 1 (lpad ++ ('#' :: '~' :: '|' :: mid) ++ rpad) = ['#', '~', '|'] :: rest := by
      rw [List.append_assoc, splitWs_pad 1 lpad _ (blank_space lpad hl)]
      have := splitWs_tok (p := pyIsSpace) 0 ['#', '~', '|'] (mid ++ rpad) (by simp)
        (by intro c hc; simp at hc; rcases hc with rfl | rfl | rfl <;> decide)
        (by
          intro c r e
          cases mid with
          | nil => simp at e; exact hr c (by rw [e]; simp)
          | cons a as => simp at e; rw [← e.1]; exact hm1 a as rfl)
      exact ⟨_, by simpa using this⟩
    obtain ⟨rest, hsplit⟩ := hsplit
    simp only [Noise.render, hn, holdBack, hsp, isIgnoredComment, hsplit]
    simp
  | bare lpad k rpad =>
    obtain ⟨hl, hr, hk⟩ := hz
    have hksp : pyIsSpace k = false := by rcases hk with rfl | rfl | rfl <;> decide
    have hn : normalise (lpad ++ ['#', k] ++ rpad) = lpad ++ ['#', k] ++ rpad := by
      cases lpad with
      | nil => rcases hk with rfl | rfl | rfl <;> simp [normalise, atypical]
      | cons x xs =>
        apply normalise_blank_head
        intro c r e; simp at e; rw [← e.1]; rcases hl x (by simp) with rfl | rfl <;> decide
    have hsplit : splitWs pyIsSpace 1 (lpad ++ ['#', k] ++ rpad) = [['#', k]] := by
      rw [List.append_assoc, splitWs_pad 1 lpad _ (blank_space lpad hl)]
      have := splitWs_tok (p := pyIsSpace) 0 ['#', k] rpad (by simp)
        (by intro c hc; simp at hc; rcases hc with rfl | rfl; decide; exact hksp)
        (by intro c r e; exact hr c (by rw [e]; simp))
      rw [this, splitWs_blank 0 rpad hr]
    simp only [Noise.render, hn, holdBack, hsp, isIgnoredComment, hsplit]
    rcases hk with rfl | rfl | rfl <;> simp

/-- so is every translator comment that starts in the first column (`# …`, `#` alone, atypical `#text`) -/
theorem tcomment_held (env : Env) (rest : Text) (h : ∀ c r, rest = c :: r → c = ' ' ∨ ¬ (c = '.' ∨ c = ':' ∨ c = ',' ∨ c = '|' ∨ c = '~'))
    (hne : rest ≠ []) : Held env ('#' :: rest) := by
  obtain ⟨c, r, rfl⟩ := List.exists_cons_of_ne_nil hne
  unfold Held
  rcases h c r rfl with rfl | hc
  · simp [normalise, atypical, holdBack]
  · have : atypical ('#' :: c :: r) = true ∨ c = ' ' := by
      by_cases hsp : c = ' '
      · exact Or.inr hsp
      · left
        have hc' : ¬c = '.' ∧ ¬c = ':' ∧ ¬c = ',' ∧ ¬c = '|' ∧ ¬c = '~' := by simpa [not_or] using hc
        simp only [atypical]; simp
        exact ⟨⟨⟨⟨⟨hsp, hc'.1⟩, hc'.2.1⟩, hc'.2.2.1⟩, hc'.2.2.2.1⟩, hc'.2.2.2.2⟩
    rcases this with ha | rfl
    · simp [normalise, ha, holdBack]
    · simp [normalise, atypical, holdBack]

/-! ### `Spec.render`: from the bytes back to the text -/

theorem encodeText_pairs (E : Codec) (t : Text) (file : Bytes) (h : encodeText E t = some file) :
    ∃ pairs : List (Char × Bytes), file = (pairs.map (·.2)).flatten ∧ t = pairs.map (·.1) ∧ ∀ p ∈ pairs, E.encode p.1 = some p.2 := by
  induction t generalizing file with
  | nil => simp [encodeText] at h; exact ⟨[], by simp [h], rfl, by simp⟩
  | cons c cs ih =>
    simp only [encodeText] at h
    cases hc : E.encode c with
    | none => simp [hc] at h
    | some b =>
      cases hcs : encodeText E cs with
      | none => simp [hc, hcs] at h
      | some bs =>
        simp [hc, hcs] at h
        obtain ⟨pairs, h1, h2, h3⟩ := ih bs hcs
        refine ⟨(c, b) :: pairs, by simp [← h, h1], by simp [h2], ?_⟩
        intro p hp; simp at hp; rcases hp with rfl | hp
        · exact hc
        · exact h3 p hp

theorem tail_held (env : Env) (hsp : env.isSpace = pyIsSpace) (t : TailSp) (ht : t.Valid) : Held env t.render := by
  cases t with
  | noise z => exact noise_held env hsp z ht
  | comment rest => exact tcomment_held env rest ht.2 ht.1

theorem normalise_of_not_atypical (l : Text) (h : atypical l = false) : normalise l = l := by
  simp [normalise, h]

end I18n.Lemmas.PoFile
