import I18n.Lemmas.FmtCheckKinds
/-!
# `sorted(...)` emits the keys in increasing order: the output of the comparators is determined, not only its members
-/
namespace I18n.FmtCheck
open I18n I18n.FmtSig I18n.Spec.FmtCompare

/-- a strict total order given as a Boolean test -/
structure StrictTotal {α : Type} (lt : α → α → Bool) : Prop where
  irrefl : ∀ a, lt a a = false
  trans : ∀ a b c, lt a b = true → lt b c = true → lt a c = true
  total : ∀ a b, lt a b = false → lt b a = false → a = b

/-- strictly increasing -/
def Sorted {α : Type} (lt : α → α → Bool) (l : List α) : Prop := l.Pairwise (fun a b => lt a b = true)

theorem mem_insertBy {α : Type} (lt : α → α → Bool) (x y : α) : ∀ l : List α, y ∈ insertBy lt x l ↔ y = x ∨ y ∈ l :=
  fun l => by rw [(insertBy_perm lt x l).mem_iff, List.mem_cons]

theorem insertBy_sorted {α : Type} {lt : α → α → Bool} (h : StrictTotal lt) (x : α) :
    ∀ l : List α, Sorted lt l → x ∉ l → Sorted lt (insertBy lt x l)
  | [], _, _ => by simp [insertBy, Sorted]
  | y :: ys, hs, hx => by
    have hsy := List.pairwise_cons.1 hs
    simp only [insertBy]
    by_cases hxy : lt x y = true
    · simp only [hxy, ↓reduceIte]
      refine List.pairwise_cons.2 ⟨?_, hs⟩
      intro z hz
      rcases List.mem_cons.1 hz with rfl | hz
      · exact hxy
      · exact h.trans x y z hxy (hsy.1 z hz)
    · simp only [hxy, Bool.false_eq_true, ↓reduceIte]
      have hne : x ≠ y := fun e => hx (by simp [e])
      have hyx : lt y x = true := by
        cases hc : lt y x with
        | true => rfl
        | false => exact absurd (h.total x y (by simpa using hxy) hc) hne
      refine List.pairwise_cons.2 ⟨?_, insertBy_sorted h x ys hsy.2 (fun hm => hx (List.mem_cons_of_mem _ hm))⟩
      intro z hz
      rcases (mem_insertBy lt x z ys).1 hz with rfl | hz
      · exact hyx
      · exact hsy.1 z hz

theorem sortBy_sorted {α : Type} {lt : α → α → Bool} (h : StrictTotal lt) : ∀ l : List α, l.Nodup → Sorted lt (sortBy lt l)
  | [], _ => by simp [sortBy, Sorted]
  | x :: xs, hn => by
    have hn' := List.nodup_cons.1 hn
    have ih := sortBy_sorted h xs hn'.2
    simp only [sortBy, List.foldr_cons] at ih ⊢
    exact insertBy_sorted h x _ ih (fun hm => hn'.1 ((mem_sortBy lt xs x).1 hm))

/-- a strictly increasing list is determined by its members -/
theorem sorted_unique {α : Type} {lt : α → α → Bool} (h : StrictTotal lt) : ∀ (l l' : List α), Sorted lt l → Sorted lt l' →
    (∀ x, x ∈ l ↔ x ∈ l') → l = l'
  | [], [], _, _, _ => rfl
  | [], y :: ys, _, _, hm => by have := (hm y).2 (by simp); cases this
  | x :: xs, [], _, _, hm => by have := (hm x).1 (by simp); cases this
  | x :: xs, y :: ys, hs, hs', hm => by
    have hsx := List.pairwise_cons.1 hs
    have hsy := List.pairwise_cons.1 hs'
    have hxy : x = y := by
      have hx := (hm x).1 (by simp)
      have hy := (hm y).2 (by simp)
      rcases List.mem_cons.1 hx with e | hx
      · exact e
      · rcases List.mem_cons.1 hy with e | hy
        · exact e.symm
        · -- y < x (x in ys) and x < y (y in xs): impossible
          have h1 := hsy.1 x hx
          have h2 := hsx.1 y hy
          have := h.trans x y x h2 h1
          rw [h.irrefl] at this
          cases this
    subst hxy
    congr 1
    apply sorted_unique h xs ys hsx.2 hsy.2
    intro z
    have hzx : ∀ l : List α, (∀ w ∈ l, lt x w = true) → z ∈ l → z ≠ x := by
      intro l hl hz e
      subst e
      have := hl z hz
      rw [h.irrefl] at this
      cases this
    constructor
    · intro hz
      rcases List.mem_cons.1 ((hm z).1 (List.mem_cons_of_mem _ hz)) with e | h'
      · exact absurd e (hzx xs hsx.1 hz)
      · exact h'
    · intro hz
      rcases List.mem_cons.1 ((hm z).2 (List.mem_cons_of_mem _ hz)) with e | h'
      · exact absurd e (hzx ys hsy.1 hz)
      · exact h'

/-! ## the two orders -/

theorem strLt_irrefl : ∀ a : List Char, strLt a a = false
  | [] => rfl
  | c :: cs => by simp [strLt, Char.lt_irrefl, strLt_irrefl cs]

theorem strLt_total : ∀ a b : List Char, strLt a b = false → strLt b a = false → a = b
  | [], [], _, _ => rfl
  | [], _ :: _, h, _ => by simp [strLt] at h
  | _ :: _, [], _, h => by simp [strLt] at h
  | x :: xs, y :: ys, h1, h2 => by
    simp only [strLt] at h1 h2
    by_cases hxy : x < y
    · simp [hxy] at h1
    · by_cases hyx : y < x
      · simp [hyx] at h2
      · simp only [hxy, hyx, ↓reduceIte] at h1 h2
        have : x = y := Char.le_antisymm (Char.not_lt.1 hyx) (Char.not_lt.1 hxy)
        subst this
        rw [strLt_total xs ys h1 h2]

theorem strLt_trans : ∀ a b c : List Char, strLt a b = true → strLt b c = true → strLt a c = true
  | [], [], _, h, _ => by simp [strLt] at h
  | [], _ :: _, [], _, h => by simp [strLt] at h
  | [], _ :: _, _ :: _, _, _ => by simp [strLt]
  | _ :: _, [], _, h, _ => by simp [strLt] at h
  | _ :: _, _ :: _, [], _, h => by simp [strLt] at h
  | x :: xs, y :: ys, z :: zs, h1, h2 => by
    simp only [strLt] at h1 h2 ⊢
    by_cases hxy : x < y
    · by_cases hyz : y < z
      · simp [Char.lt_trans hxy hyz]
      · by_cases hzy : z < y
        · simp [hyz, hzy] at h2
        · have : y = z := Char.le_antisymm (Char.not_lt.1 hzy) (Char.not_lt.1 hyz)
          subst this
          simp [hxy]
    · by_cases hyx : y < x
      · simp [hxy, hyx] at h1
      · have : x = y := Char.le_antisymm (Char.not_lt.1 hyx) (Char.not_lt.1 hxy)
        subst this
        simp only [hxy, ↓reduceIte] at h1
        by_cases hxz : x < z
        · simp [hxz]
        · by_cases hzx : z < x
          · simp [hxz, hzx] at h2
          · simp only [hxz, hzx, ↓reduceIte] at h2 ⊢
            exact strLt_trans xs ys zs h1 h2

theorem strLt_strictTotal : StrictTotal strLt := ⟨strLt_irrefl, strLt_trans, strLt_total⟩

theorem bkeyLt_strictTotal : StrictTotal BKey.lt := by
  refine ⟨?_, ?_, ?_⟩
  · intro a; cases a <;> simp [BKey.lt, strLt_irrefl]
  · intro a b c h1 h2
    cases a <;> cases b <;> cases c <;> simp only [BKey.lt, decide_eq_true_eq, Bool.false_eq_true] at h1 h2 ⊢
    · omega
    · exact strLt_trans _ _ _ h1 h2
  · intro a b h1 h2
    cases a <;> cases b <;> simp only [BKey.lt, decide_eq_false_iff_not, Bool.true_eq_false] at h1 h2
    · congr 1; omega
    · congr 1; exact strLt_total _ _ h1 h2

/-! ## perl-brace: the output is determined -/

/-- **perl-brace `check_args` emits exactly**: the unknown-argument tags for the placeholders only in the translation, in
    increasing order of name, then the missing-argument tags for the placeholders only in the source (unless the single one is
    tolerated), in increasing order of name.  `U` and `M` are determined by these conditions (`sorted_unique`). -/
theorem checkArgsPerlBrace_determined (pfx : Extra) (srcLoc : List Char) (src : PerlBraceSig) (dstLoc : List Char) (dst : PerlBraceSig)
    (omittedOk : Bool) (hs : PerlWf src) (hd : PerlWf dst) :
    ∃ U M, checkArgsPerlBrace pfx srcLoc src dstLoc dst omittedOk =
        .ok (U.map (perlUnknownTag pfx srcLoc dstLoc) ++ M.map (perlMissingTag pfx srcLoc dstLoc)) ∧
      Sorted strLt U ∧ (∀ k, k ∈ U ↔ Unknown (perlNamed src) (perlNamed dst) k) ∧
      Sorted strLt M ∧ (∀ k, k ∈ M ↔ Missing (perlNamed src) (perlNamed dst) k ∧ perlTolerated src dst omittedOk = false) := by
  refine ⟨_, _, checkArgsPerlBrace_eq pfx srcLoc src dstLoc dst omittedOk, ?_, ?_, ?_, ?_⟩
  · exact sortBy_sorted strLt_strictTotal _ (hd.filter _)
  · intro k
    rw [mem_sortBy, mem_filter_not_contains]
    unfold Unknown; rw [keys_perlNamed, keys_perlNamed]
  · cases perlTolerated src dst omittedOk with
    | true => simp [sortBy, Sorted]
    | false => exact sortBy_sorted strLt_strictTotal _ (hs.filter _)
  · intro k
    rw [mem_sortBy]
    unfold Missing; rw [keys_perlNamed, keys_perlNamed]
    cases perlTolerated src dst omittedOk with
    | true => simp
    | false => simp only [Bool.false_eq_true, ↓reduceIte, mem_filter_not_contains, and_true]

/-- **python-brace `check_args` emits exactly**: for the common arguments in increasing key order (numbers before names) a
    type-mismatch tag where the type sets are disjoint; then the unknown-argument tags in increasing key order; then the
    missing-argument tags in increasing key order (unless the single one is tolerated). -/
theorem checkArgsPyBrace_determined (pfx : Extra) (srcLoc : List Char) (src : PyBraceSig) (dstLoc : List Char) (dst : PyBraceSig)
    (omittedOk : Bool) (hs : BraceWf src) (hd : BraceWf dst) :
    ∃ K U M, checkArgsPyBrace pfx srcLoc src dstLoc dst omittedOk =
        .ok (K.flatMap (clashAt (braceClash pfx srcLoc dstLoc) src.args dst.args) ++
          U.map (braceUnknownTag pfx srcLoc dstLoc) ++ M.map (braceMissingTag pfx srcLoc dstLoc)) ∧
      Sorted BKey.lt K ∧ (∀ k, k ∈ K ↔ k ∈ keys (braceNamed src) ∧ k ∈ keys (braceNamed dst)) ∧
      Sorted BKey.lt U ∧ (∀ k, k ∈ U ↔ Unknown (braceNamed src) (braceNamed dst) k) ∧
      Sorted BKey.lt M ∧ (∀ k, k ∈ M ↔ Missing (braceNamed src) (braceNamed dst) k ∧ braceTolerated src dst omittedOk = false) := by
  have hks : keys (braceNamed src) = src.args.map (·.1) := keys_viewOf _ _
  have hkd : keys (braceNamed dst) = dst.args.map (·.1) := keys_viewOf _ _
  refine ⟨_, _, _, checkArgsPyBrace_eq pfx srcLoc src dstLoc dst omittedOk hs hd, ?_, ?_, ?_, ?_, ?_, ?_⟩
  · exact sortBy_sorted bkeyLt_strictTotal _ (hd.1.filter _)
  · intro k
    rw [mem_sortBy, mem_filter_contains, hks, hkd]
    exact And.comm
  · exact sortBy_sorted bkeyLt_strictTotal _ (hd.1.filter _)
  · intro k
    rw [mem_sortBy, mem_filter_not_contains]
    unfold Unknown; rw [hks, hkd]
  · cases braceTolerated src dst omittedOk with
    | true => simp [sortBy, Sorted]
    | false => exact sortBy_sorted bkeyLt_strictTotal _ (hs.1.filter _)
  · intro k
    rw [mem_sortBy]
    unfold Missing; rw [hks, hkd]
    cases braceTolerated src dst omittedOk with
    | true => simp
    | false =>
      simp only [Bool.false_eq_true, ↓reduceIte, and_true]
      exact mem_filter_not_contains _ _ k

end I18n.FmtCheck
