import I18n.Lemmas.HdrCType
import I18n.Lemmas.DateSort
/-
C15 lemmas, part 12: on a header that follows every convention (`Conventional`) no rule of the rule set fires.
-/
set_option linter.unusedSimpArgs false
namespace I18n.Hdr
open I18n.Spec.HeaderRules I18n.Date

theorem fine_not (x : Ext) (b : List String) (a : Str) (h : AddrIs x b a .fine) :
    ¬ AddrIs x b a .reserved ∧ ¬ AddrIs x b a .boilerplate ∧ ¬ AddrIs x b a .dotless := by
  obtain ⟨h1, h2, h3⟩ := h
  exact ⟨fun r => h1 r, fun r => h2 r.2, fun r => h3 r.2.2⟩

theorem conventional_silent (x : Ext) (cs : CharsetCheck) (now : Int) (f : File) (c : Conventional x cs now f)
    (t : TagCall) : ¬ Reported x cs now f t := by
  unfold Reported
  simp only []
  obtain ⟨e, he, hocc, hpl, hfl, hun⟩ := c.entry
  have hH : headerEntry f.entries = some (e, 0) := by unfold headerEntry; rw [he]; rfl
  rintro (h | h | h | h | h | h | h | h | h | h | h | h)
  · -- comments
    obtain ⟨line, hl, hit, _⟩ := h
    rw [c.comments line hl] at hit; cases hit
  · -- entry
    unfold EntryRule at h
    rw [he, hH] at h
    rcases h with ⟨h, _⟩ | ⟨e', i, heq, h⟩
    · simp at h
    · simp only [Option.some.injEq, Prod.mk.injEq] at heq
      obtain ⟨rfl, rfl⟩ := heq
      rcases h with ⟨h, _⟩ | ⟨h, _⟩ | ⟨h, _⟩ | ⟨h, _⟩ | ⟨fl, h, _⟩ | ⟨fl, h, _⟩ | ⟨text, h, _⟩
      · exact h rfl
      · exact h hocc
      · exact h hpl
      · rw [hfl] at h; simp at h
      · rw [hfl] at h; simp at h
      · rw [hfl] at h; simp [count] at h
      · rw [hun] at h; exact h rfl
  · -- strays
    unfold StrayRule at h
    rw [c.noStray] at h
    rcases h with ⟨l, hl, _⟩ | ⟨pre, l, post, hs, _⟩
    · simp at hl
    · have := congrArg List.length hs; simp at this
  · -- names
    rcases h with ⟨k, hk, hx, hr, _⟩ | ⟨k, hk, hlen, _⟩
    · rcases (c.names k hk).1 with h | h
      · exact hx h
      · exact hr h
    · rw [(c.names k hk).2] at hlen; omega
  · -- MIME-Version
    unfold FixedRule cnt at h
    rw [c.mime] at h
    rcases h with ⟨h, _⟩ | ⟨h, _⟩ | ⟨v, hv, hne, _⟩
    · simp at h
    · simp at h
    · simp at hv; exact hne hv
  · unfold FixedRule cnt at h
    rw [c.cte] at h
    rcases h with ⟨h, _⟩ | ⟨h, _⟩ | ⟨v, hv, hne, _⟩
    · simp at h
    · simp at h
    · simp at hv; exact hne hv
  · -- Content-Type
    obtain ⟨enc, kept, hv, hof, hcs⟩ := c.ctype
    unfold ContentTypeRule cnt at h
    rw [hv] at h
    rcases h with ⟨h, _⟩ | ⟨h, _⟩ | ⟨ct, hct, h⟩
    · simp at h
    · simp at h
    · simp only [List.mem_singleton] at hct
      subst hct
      rcases h with ⟨hno, _⟩ | ⟨full, enc', ctags, kept', hof', hcs', h⟩
      · exact hno ⟨true, enc, hof.1⟩
      · have e1 := (matchContentType_some_iff x.db _ true enc).2 hof
        have e2 := (matchContentType_some_iff x.db _ full enc').2 hof'
        rw [e1] at e2
        simp only [Option.some.injEq, Prod.mk.injEq] at e2
        obtain ⟨rfl, rfl⟩ := e2
        rw [hcs] at hcs'
        simp only [Except.ok.injEq, Prod.mk.injEq] at hcs'
        obtain ⟨rfl, _⟩ := hcs'
        rcases h with ⟨c', hc', _⟩ | ⟨h, _⟩
        · simp at hc'
        · cases h
  · -- dates
    obtain ⟨ds, hd, d, hm, _⟩ := h
    rw [c.dates] at hd
    injection hd with hd; subst hd; simp at hm
  · -- project
    obtain ⟨v, hv, hnb, hl, hd⟩ := c.project
    unfold ProjectRule cnt at h
    rw [hv] at h
    rcases h with ⟨h, _⟩ | ⟨h, _⟩ | ⟨w, hw, h⟩
    · simp at h
    · simp at h
    · simp only [List.mem_singleton] at hw
      subst hw
      rcases h with ⟨h, _⟩ | ⟨_, ⟨h, _⟩ | ⟨h, _⟩⟩
      · exact hnb h
      · exact h hl
      · exact h hd
  · -- report
    obtain ⟨v, hv, hne, hok⟩ := c.report
    unfold ReportRule cnt at h
    rw [hv] at h
    rcases h with ⟨h, _⟩ | ⟨h, _⟩ | ⟨w, hw, _, h⟩
    · exact hne (h v (by simp))
    · simp at h
    · simp only [List.mem_singleton] at hw
      subst hw
      rcases hok with ⟨hna, s, hs, hsne⟩ | ⟨ha, hfine⟩
      · rcases h with ⟨_, hsch, _⟩ | ⟨ha, _⟩
        · rcases hsch with h1 | h1
          · rw [hs] at h1; cases h1
          · rw [hs] at h1; injection h1 with h1; exact hsne h1
        · exact hna ha
      · obtain ⟨n1, n2, n3⟩ := fine_not x _ _ hfine
        rcases h with ⟨hna, _⟩ | ⟨_, ⟨h, _⟩ | ⟨h, _⟩ | ⟨h, _⟩⟩
        · exact hna ha
        · exact n1 h
        · exact n2 h
        · exact n3 h
  · -- translator
    obtain ⟨v, hv, ha, hfine⟩ := c.translator
    obtain ⟨n1, n2, n3⟩ := fine_not x _ _ hfine
    unfold TranslatorRule cnt at h
    rw [hv] at h
    rcases h with ⟨h, _⟩ | ⟨h, _⟩ | ⟨w, hw, h⟩
    · simp at h
    · simp at h
    · simp only [List.mem_singleton] at hw
      subst hw
      rcases h with ⟨hna, _⟩ | ⟨_, ⟨h, _⟩ | ⟨h, _⟩ | ⟨h, _⟩⟩
      · exact hna ha
      · exact n1 h
      · exact n2 h
      · exact n3 h
  · -- team
    obtain ⟨v, hv, hok⟩ := c.team
    unfold TeamRule cnt at h
    rw [hv] at h
    rcases h with ⟨h, _⟩ | ⟨h, _⟩ | ⟨w, hw, ha, h⟩
    · simp at h
    · simp at h
    · simp only [List.mem_singleton] at hw
      subst hw
      rcases hok with hna | ⟨hfine, hdiff⟩
      · exact hna ha
      · obtain ⟨n1, n2, n3⟩ := fine_not x _ _ hfine
        rcases h with ⟨h, _⟩ | ⟨h, _⟩ | ⟨h, _⟩ | ⟨_, tr, htr, _⟩
        · exact n1 h
        · exact n2 h
        · exact n3 h
        · unfold SameTranslator at htr
          have := List.find?_some htr
          have hm := List.mem_of_find?_eq_some htr
          simp only [List.mem_reverse, mem_sortedSet] at hm
          simp only [decide_eq_true_eq] at this
          exact hdiff tr hm this

end I18n.Hdr
