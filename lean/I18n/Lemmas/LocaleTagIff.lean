import I18n.Lemmas.LocaleTags
/-
Per-tag readings of the reference verdict: when is `language-disparity`, `invalid-language`,
`unable-to-determine-language` among the tags.
-/
namespace I18n.Locale
open I18n I18n.Spec.LocaleTags

/-- some tag with this name is in the list -/
def hasName (n : String) (ts : List TagCall) : Prop := ∃ t ∈ ts, t.name = n

theorem hasName_nil (n : String) : hasName n [] ↔ False := by simp [hasName]
theorem hasName_append (n : String) (a b : List TagCall) : hasName n (a ++ b) ↔ hasName n a ∨ hasName n b := by
  simp only [hasName, List.mem_append]
  constructor
  · rintro ⟨t, h | h, e⟩
    · exact Or.inl ⟨t, h, e⟩
    · exact Or.inr ⟨t, h, e⟩
  · rintro (⟨t, h, e⟩ | ⟨t, h, e⟩)
    · exact ⟨t, Or.inl h, e⟩
    · exact ⟨t, Or.inr h, e⟩
theorem hasName_single (n : String) (t : TagCall) : hasName n [t] ↔ t.name = n := by simp [hasName]
theorem hasName_when (n : String) (c : Bool) (t : TagCall) : hasName n (when c t) ↔ c = true ∧ t.name = n := by
  unfold when; cases c <;> simp [hasName]

theorem mem_when (c : Bool) (t u : TagCall) : u ∈ when c t ↔ c = true ∧ u = t := by
  unfold when; cases c <;> simp

/-! ### the field's own tags -/

theorem fieldRules_invalid (munch : List Char → List Char) (v : List Char) :
    hasName "invalid-language" (fieldRules munch v) ↔
      ¬ ∃ l, parseLanguage v = some l ∧ ∃ l', canonical l = some (l', false) := by
  unfold fieldRules candidate
  cases hp : parseLanguage v with
  | none =>
    simp only [hasName_append]
    constructor
    · intro _; simp
    · intro _; left
      cases named munch v <;> simp [hasName, tag]
  | some l =>
    simp only [hasName_append, hasName_nil, hasName_when, false_or]
    cases hc : canonical l with
    | none => simp [hasName, tag, hc]
    | some r =>
      obtain ⟨l', changed⟩ := r
      cases changed <;> simp [hasName_when, tag, hc]

theorem fieldRules_names (munch : List Char → List Char) (v : List Char) (n : String)
    (h1 : n ≠ "invalid-language") (h2 : n ≠ "encoding-in-language-header-field")
    (h3 : n ≠ "language-variant-does-not-affect-translation") : ¬ hasName n (fieldRules munch v) := by
  unfold fieldRules
  simp only [hasName_append]
  have e1 : ¬ ("invalid-language" = n) := fun h => h1 h.symm
  have e2 : ¬ ("encoding-in-language-header-field" = n) := fun h => h2 h.symm
  have e3 : ¬ ("language-variant-does-not-affect-translation" = n) := fun h => h3 h.symm
  rintro (h | h)
  · split at h <;> simp [hasName, tag, e1] at h
  · split at h
    · simp [hasName] at h
    · simp only [hasName_append, hasName_when] at h
      rcases h with (h | h) | h
      · exact e2 h.2
      · exact e3 h.2
      · split at h
        · simp [hasName, tag, e1] at h
        · simp [hasName_when, tag, e1] at h

/-! ### the three tags of the statement -/

/-- `unable-to-determine-language` iff no source names a language -/
theorem unable_iff (munch : List Char → List Char) (inp : Input) :
    hasName "unable-to-determine-language" (verdictTags munch inp) ↔ inp.isTemplate = false ∧ finalLanguage munch inp = none := by
  unfold verdictTags
  by_cases ht : inp.isTemplate = true
  · simp [ht, hasName_append, hasName_when, tag]
  · have ht' : inp.isTemplate = false := by simpa using ht
    simp only [ht', Bool.false_eq_true, if_false, hasName_append, hasName_when, true_and, or_assoc]
    constructor
    · intro h
      rcases h with h | h | h | h | h | h | h
      · simp [tag] at h
      · split at h
        · simp [hasName] at h
        · split at h
          · simp [hasName] at h
          · exact absurd h (fieldRules_names munch _ _ (by decide) (by decide) (by decide))
      · split at h
        · simp [hasName_when, tag, disparity] at h
        · simp [hasName] at h
      · simp [tag] at h
      · simp [tag] at h
      · split at h
        · simp [hasName] at h
        · split at h
          · simp [hasName, tag] at h
          · split at h
            · simp [hasName] at h
            · simp [hasName_when, tag, disparity] at h
      · split at h
        · rename_i hf; exact hf
        · simp [hasName_when, tag] at h
    · intro h
      right; right; right; right; right; right
      simp [h, hasName_append, hasName_single, tag]

/-- `language-disparity` iff a source outside the header (after the LibreOffice exception) and the field name different
    languages, or the file's language and X-Poedit-Language have different language codes -/
theorem disparity_iff (munch : List Char → List Char) (inp : Input) :
    hasName "language-disparity" (verdictTags munch inp) ↔
      inp.isTemplate = false ∧
        ((∃ o m, effectiveOutside munch inp = some o ∧ fieldLanguage munch inp.metaLanguages = some m ∧ o.language ≠ m)
          ∨ (∃ p pl l src, poeditValue inp = some p ∧ named munch p = some pl ∧ primary munch inp = some (l, src) ∧ l.ll ≠ pl.ll)) := by
  unfold verdictTags
  by_cases ht : inp.isTemplate = true
  · simp [ht, hasName_append, hasName_when, tag]
  · have ht' : inp.isTemplate = false := by simpa using ht
    simp only [ht', Bool.false_eq_true, if_false, hasName_append, hasName_when, true_and, or_assoc]
    constructor
    · intro h
      rcases h with h | h | h | h | h | h | h
      · simp [tag] at h
      · split at h
        · simp [hasName] at h
        · split at h
          · simp [hasName] at h
          · exact absurd h (fieldRules_names munch _ _ (by decide) (by decide) (by decide))
      · split at h
        · rename_i o m ho hm
          simp only [hasName_when, decide_eq_true_eq] at h
          exact Or.inl ⟨o, m, ho, hm, h.1⟩
        · simp [hasName] at h
      · simp [tag] at h
      · simp [tag] at h
      · split at h
        · simp [hasName] at h
        · rename_i p hp
          split at h
          · simp [hasName, tag] at h
          · rename_i pl hpl
            split at h
            · simp [hasName] at h
            · rename_i l src hprim
              simp only [hasName_when, decide_eq_true_eq] at h
              exact Or.inr ⟨p, pl, l, src, hp, hpl, hprim, h.1⟩
      · split at h
        · simp [hasName_append, hasName_when, hasName_single, tag] at h
        · simp [hasName_when, tag] at h
    · rintro (⟨o, m, ho, hm, hne⟩ | ⟨p, pl, l, src, hp, hpl, hprim, hne⟩)
      · right; right; left
        simp [ho, hm, hasName_when, hne, disparity, tag]
      · right; right; right; right; right; left
        simp [hp, hpl, hprim, hasName_when, hne, disparity, tag]

/-- `invalid-language` iff the field has a (non-empty, unambiguous) value that is not a locale name with known, canonical
    codes (an encoding or `@euro` is judged separately) -/
theorem invalid_language_iff (munch : List Char → List Char) (inp : Input) :
    hasName "invalid-language" (verdictTags munch inp) ↔
      inp.isTemplate = false ∧ ∃ v, fieldValue inp.metaLanguages = some v ∧ v ≠ []
        ∧ ¬ ∃ l, parseLanguage v = some l ∧ ∃ l', canonical l = some (l', false) := by
  unfold verdictTags
  by_cases ht : inp.isTemplate = true
  · simp [ht, hasName_append, hasName_when, tag]
  · have ht' : inp.isTemplate = false := by simpa using ht
    simp only [ht', Bool.false_eq_true, if_false, hasName_append, hasName_when, true_and, or_assoc]
    constructor
    · intro h
      rcases h with h | h | h | h | h | h | h
      · simp [tag] at h
      · split at h
        · simp [hasName] at h
        · rename_i v hv
          split at h
          · simp [hasName] at h
          · rename_i hve
            exact ⟨v, hv, hve, (fieldRules_invalid munch v).1 h⟩
      · split at h
        · simp [hasName_when, tag, disparity] at h
        · simp [hasName] at h
      · simp [tag] at h
      · simp [tag] at h
      · split at h
        · simp [hasName] at h
        · split at h
          · simp [hasName, tag] at h
          · split at h
            · simp [hasName] at h
            · simp [hasName_when, tag, disparity] at h
      · split at h
        · simp [hasName_append, hasName_when, hasName_single, tag] at h
        · simp [hasName_when, tag] at h
    · rintro ⟨v, hv, hve, hn⟩
      right; left
      simp only [hv, hve, if_false]
      exact (fieldRules_invalid munch v).2 hn


/-! ### the remaining tags -/

theorem fieldRules_encoding (munch : List Char → List Char) (v : List Char) :
    hasName "encoding-in-language-header-field" (fieldRules munch v) ↔ ∃ l, candidate munch v = some l ∧ l.enc.isSome = true := by
  unfold fieldRules
  simp only [hasName_append]
  constructor
  · rintro (h | h)
    · split at h <;> simp [hasName, tag] at h
    · split at h
      · simp [hasName] at h
      · rename_i l hl
        simp only [hasName_append, hasName_when] at h
        rcases h with (h | h) | h
        · exact ⟨l, hl, h.1⟩
        · simp [tag] at h
        · split at h
          · simp [hasName, tag] at h
          · simp [hasName_when, tag] at h
  · rintro ⟨l, hl, he⟩
    right
    simp only [hl, hasName_append, hasName_when]
    left; left
    exact ⟨he, rfl⟩

theorem fieldRules_variant (munch : List Char → List Char) (v : List Char) :
    hasName "language-variant-does-not-affect-translation" (fieldRules munch v) ↔
      ∃ l, candidate munch v = some l ∧ l.mod = some "euro".toList := by
  unfold fieldRules
  simp only [hasName_append]
  constructor
  · rintro (h | h)
    · split at h <;> simp [hasName, tag] at h
    · split at h
      · simp [hasName] at h
      · rename_i l hl
        simp only [hasName_append, hasName_when] at h
        rcases h with (h | h) | h
        · simp [tag] at h
        · exact ⟨l, hl, by simpa using h.1⟩
        · split at h
          · simp [hasName, tag] at h
          · simp [hasName_when, tag] at h
  · rintro ⟨l, hl, he⟩
    right
    simp only [hl, hasName_append, hasName_when]
    left; right
    exact ⟨by simpa using he, rfl⟩

/-- the other parts of the verdict never carry a field-only tag name -/
theorem verdict_field_only (munch : List Char → List Char) (inp : Input) (n : String)
    (hn : n = "encoding-in-language-header-field" ∨ n = "language-variant-does-not-affect-translation") :
    hasName n (verdictTags munch inp) ↔
      inp.isTemplate = false ∧ ∃ v, fieldValue inp.metaLanguages = some v ∧ v ≠ [] ∧ hasName n (fieldRules munch v) := by
  unfold verdictTags
  by_cases ht : inp.isTemplate = true
  · rcases hn with rfl | rfl <;> simp [ht, hasName_append, hasName_when, tag]
  · have ht' : inp.isTemplate = false := by simpa using ht
    simp only [ht', Bool.false_eq_true, if_false, hasName_append, hasName_when, true_and, or_assoc]
    constructor
    · intro h
      rcases h with h | h | h | h | h | h | h
      · rcases hn with rfl | rfl <;> simp [tag] at h
      · split at h
        · simp [hasName] at h
        · rename_i v hv
          split at h
          · simp [hasName] at h
          · rename_i hve
            exact ⟨v, hv, hve, h⟩
      · split at h
        · rcases hn with rfl | rfl <;> simp [hasName_when, tag, disparity] at h
        · simp [hasName] at h
      · rcases hn with rfl | rfl <;> simp [tag] at h
      · rcases hn with rfl | rfl <;> simp [tag] at h
      · split at h
        · simp [hasName] at h
        · split at h
          · rcases hn with rfl | rfl <;> simp [hasName, tag] at h
          · split at h
            · simp [hasName] at h
            · rcases hn with rfl | rfl <;> simp [hasName_when, tag, disparity] at h
      · split at h
        · rcases hn with rfl | rfl <;> simp [hasName_append, hasName_when, hasName_single, tag] at h
        · rcases hn with rfl | rfl <;> simp [hasName_when, tag] at h
    · rintro ⟨v, hv, hve, h⟩
      right; left
      simp only [hv, hve, if_false]
      exact h

/-- `unknown-poedit-language` iff X-Poedit-Language is consulted and names no language -/
theorem unknown_poedit_iff (munch : List Char → List Char) (inp : Input) :
    hasName "unknown-poedit-language" (verdictTags munch inp) ↔
      inp.isTemplate = false ∧ ∃ p, poeditValue inp = some p ∧ named munch p = none := by
  unfold verdictTags
  by_cases ht : inp.isTemplate = true
  · simp [ht, hasName_append, hasName_when, tag]
  · have ht' : inp.isTemplate = false := by simpa using ht
    simp only [ht', Bool.false_eq_true, if_false, hasName_append, hasName_when, true_and, or_assoc]
    constructor
    · intro h
      rcases h with h | h | h | h | h | h | h
      · simp [tag] at h
      · split at h
        · simp [hasName] at h
        · split at h
          · simp [hasName] at h
          · exact absurd h (fieldRules_names munch _ _ (by decide) (by decide) (by decide))
      · split at h
        · simp [hasName_when, tag, disparity] at h
        · simp [hasName] at h
      · simp [tag] at h
      · simp [tag] at h
      · split at h
        · simp [hasName] at h
        · rename_i p hp
          split at h
          · rename_i hn; exact ⟨p, hp, hn⟩
          · split at h
            · simp [hasName] at h
            · simp [hasName_when, tag, disparity] at h
      · split at h
        · simp [hasName_append, hasName_when, hasName_single, tag] at h
        · simp [hasName_when, tag] at h
    · rintro ⟨p, hp, hn⟩
      right; right; right; right; right; left
      simp [hp, hn, hasName, tag]

/-- `no-language-header-field` iff (template) there is no single value, or (otherwise) the value is absent or empty and the
    field does not occur with conflicting values -/
theorem no_language_header_field_iff (munch : List Char → List Char) (inp : Input) :
    hasName "no-language-header-field" (verdictTags munch inp) ↔
      (if inp.isTemplate then (fieldValue inp.metaLanguages).isNone = true else fieldAbsent inp.metaLanguages = true) := by
  unfold verdictTags
  by_cases ht : inp.isTemplate = true
  · simp [ht, hasName_append, hasName_when, tag]
  · have ht' : inp.isTemplate = false := by simpa using ht
    simp only [ht', Bool.false_eq_true, if_false, hasName_append, hasName_when, true_and, or_assoc]
    constructor
    · intro h
      rcases h with h | h | h | h | h | h | h
      · simp [tag] at h
      · split at h
        · simp [hasName] at h
        · split at h
          · simp [hasName] at h
          · exact absurd h (fieldRules_names munch _ _ (by decide) (by decide) (by decide))
      · split at h
        · simp [hasName_when, tag, disparity] at h
        · simp [hasName] at h
      · simp [tag] at h
      · simp [tag] at h
      · split at h
        · simp [hasName] at h
        · split at h
          · simp [hasName, tag] at h
          · split at h
            · simp [hasName] at h
            · simp [hasName_when, tag, disparity] at h
      · split at h
        · simp only [hasName_append, hasName_when, hasName_single] at h
          rcases h with h | h
          · exact h.1
          · simp [tag] at h
        · simp only [hasName_when] at h
          exact h.1
    · intro h
      right; right; right; right; right; right
      split
      · simp [hasName_append, hasName_when, h, tag]
      · simp [hasName_when, h, tag]

end I18n.Locale
