import I18n.Lemmas.HdrLines
/-
C15 lemmas, part 10: `gettext.parse_header` — the lines are the `\n`-separated pieces (a final `\n` is a terminator), and a line
is classified as the field `k: v` exactly when it has the shape of the field grammar (`FieldLine`).
-/
set_option linter.unusedSimpArgs false
namespace I18n.Hdr
open I18n.Spec.HeaderRules

theorem splitColon_some (l k v : Str) : splitColon l = (k, some v) ↔ (l = k ++ ':' :: v ∧ ':' ∉ k) := by
  induction l generalizing k with
  | nil => simp [splitColon]
  | cons c cs ih =>
    unfold splitColon
    by_cases h : c = ':'
    · subst h
      simp only [if_true, Prod.mk.injEq, Option.some.injEq]
      constructor
      · rintro ⟨rfl, rfl⟩; simp
      · rintro ⟨e, hn⟩
        cases k with
        | nil => simp at e; exact ⟨rfl, e⟩
        | cons a r =>
          simp only [List.cons_append, List.cons.injEq] at e
          exact absurd (by rw [← e.1]; simp) hn
    · simp only [h, if_false, Prod.mk.injEq]
      constructor
      · rintro ⟨rfl, h2⟩
        have := (ih (splitColon cs).1).1 (by rw [← h2])
        refine ⟨by rw [this.1]; simp; exact this.1 ▸ rfl, ?_⟩
        simp only [List.mem_cons, not_or]
        exact ⟨fun e => h e.symm, this.2⟩
      · rintro ⟨e, hn⟩
        cases k with
        | nil => simp at e; exact absurd e.1 h
        | cons a r =>
          simp only [List.cons_append, List.cons.injEq] at e
          obtain ⟨rfl, e2⟩ := e
          have hr : ':' ∉ r := fun hm => hn (by simp [hm])
          have := (ih r).2 ⟨e2, hr⟩
          rw [this]; simp

theorem splitColon_none (l k : Str) : splitColon l = (k, none) ↔ (k = l ∧ ':' ∉ l) := by
  induction l generalizing k with
  | nil => simp [splitColon, eq_comm]
  | cons c cs ih =>
    unfold splitColon
    by_cases h : c = ':'
    · subst h; simp
    · simp only [h, if_false, Prod.mk.injEq]
      constructor
      · rintro ⟨rfl, h2⟩
        have := (ih (splitColon cs).1).1 (by rw [← h2])
        refine ⟨by rw [this.1], ?_⟩
        simp only [List.mem_cons, not_or]
        exact ⟨fun e => h e.symm, this.2⟩
      · rintro ⟨rfl, hn⟩
        have hr : ':' ∉ cs := fun hm => hn (by simp [hm])
        have := (ih cs).2 ⟨rfl, hr⟩
        rw [this]; simp

theorem isFieldNameChar_iff (c : Char) : isFieldNameChar c = true ↔ NameChar c := by
  unfold isFieldNameChar NameChar
  simp only [Bool.or_eq_true, Bool.and_eq_true, decide_eq_true_eq]
  have hc : c = ':' ↔ c.toNat = 0x3A := by
    constructor
    · rintro rfl; rfl
    · intro h; exact Char.toNat_inj.1 (by rw [h]; rfl)
  constructor
  · rintro (⟨a, b⟩ | ⟨a, b⟩)
    · exact ⟨a, by omega, fun e => by have := hc.1 e; omega⟩
    · exact ⟨by omega, b, fun e => by have := hc.1 e; omega⟩
  · rintro ⟨a, b, hne⟩
    have : c.toNat ≠ 0x3A := fun e => hne (hc.2 e)
    omega

theorem isValidFieldName_iff (k : Str) : isValidFieldName k = true ↔ (k ≠ [] ∧ ∀ c ∈ k, NameChar c) := by
  unfold isValidFieldName
  simp only [Bool.and_eq_true, Bool.not_eq_true', List.all_eq_true, isFieldNameChar_iff, List.isEmpty_iff]
  constructor
  · rintro ⟨h1, h2⟩; exact ⟨by intro e; simp [e] at h1, h2⟩
  · rintro ⟨h1, h2⟩; exact ⟨by cases k <;> simp_all, h2⟩

/-- **parse_line_field**: a line is classified as the field `k: v` iff it has the shape of the field grammar -/
theorem parseLine_field_iff (l k v : Str) : parseLine l = .field k v ↔ FieldLine l k v := by
  unfold parseLine FieldLine
  constructor
  · intro h
    cases hs : splitColon l with
    | mk k0 r0 =>
      rw [hs] at h
      cases r0 with
      | none => simp at h
      | some rest =>
        simp only [] at h
        split at h
        · rename_i hv
          injection h with h1 h2
          subst h1; subst h2
          obtain ⟨e, _⟩ := (splitColon_some l k0 rest).1 hs
          obtain ⟨hne, hall⟩ := (isValidFieldName_iff k0).1 hv
          exact ⟨rest, e, hne, hall, rfl⟩
        · cases h
  · rintro ⟨rest, e, hne, hall, rfl⟩
    have hnc : ':' ∉ k := fun hm => (hall ':' hm).2.2 rfl
    rw [(splitColon_some l k rest).2 ⟨e, hnc⟩]
    simp only []
    rw [if_pos ((isValidFieldName_iff k).2 ⟨hne, hall⟩)]

/-- **parse_line_stray**: every other line is a stray line, kept as it is -/
theorem parseLine_stray_iff (l s : Str) : parseLine l = .stray s ↔ (s = l ∧ ¬ ∃ k v, FieldLine l k v) := by
  constructor
  · intro h
    have hs : s = l := by
      unfold parseLine at h
      split at h
      · split at h
        · cases h
        · injection h with h; exact h.symm
      · injection h with h; exact h.symm
    refine ⟨hs, ?_⟩
    rintro ⟨k, v, hf⟩
    rw [(parseLine_field_iff l k v).2 hf] at h
    cases h
  · rintro ⟨rfl, hno⟩
    cases hp : parseLine s with
    | field k v => exact absurd ⟨k, v, (parseLine_field_iff s k v).1 hp⟩ hno
    | stray s' =>
      unfold parseLine at hp
      split at hp
      · split at hp
        · cases hp
        · injection hp with hp; rw [hp]
      · injection hp with hp; rw [hp]

/-! ### the lines -/

theorem splitOn_ne_nil (sep : Char) (s : Str) : splitOn sep s ≠ [] := by
  cases s with
  | nil => simp [splitOn]
  | cons c cs =>
    unfold splitOn
    split
    · simp
    · split <;> simp

theorem splitOn_no_sep (sep : Char) (s : Str) : ∀ l ∈ splitOn sep s, sep ∉ l := by
  induction s with
  | nil => intro l hl; simp [splitOn] at hl; subst hl; simp
  | cons c cs ih =>
    intro l hl
    unfold splitOn at hl
    split at hl
    · rcases List.mem_cons.1 hl with rfl | hl
      · simp
      · exact ih l hl
    · rename_i hne
      cases hs : splitOn sep cs with
      | nil => exact absurd hs (splitOn_ne_nil sep cs)
      | cons w ws =>
        rw [hs] at hl ih
        simp only [] at hl
        rcases List.mem_cons.1 hl with rfl | hl
        · simp only [List.mem_cons, not_or]
          exact ⟨fun e => hne e.symm, ih w (by simp)⟩
        · exact ih l (by simp [hl])

theorem joinWith_cons_cons (sep a b : Str) (r : List Str) :
    joinWith sep (a :: b :: r) = a ++ sep ++ joinWith sep (b :: r) := rfl

theorem join_splitOn (sep : Char) (s : Str) : joinWith [sep] (splitOn sep s) = s := by
  induction s with
  | nil => rfl
  | cons c cs ih =>
    unfold splitOn
    split
    · rename_i h
      subst h
      cases hs : splitOn c cs with
      | nil => exact absurd hs (splitOn_ne_nil c cs)
      | cons w ws => rw [joinWith_cons_cons, ← hs, ih]; simp
    · cases hs : splitOn sep cs with
      | nil => exact absurd hs (splitOn_ne_nil sep cs)
      | cons w ws =>
        rw [hs] at ih
        simp only []
        cases ws with
        | nil => simp only [joinWith] at ih ⊢; rw [ih]
        | cons w2 ws2 =>
          rw [joinWith_cons_cons] at ih ⊢
          rw [← ih]; simp

theorem joinWith_dropLast_snoc (sep : Str) (ls : List Str) (h : ls ≠ []) (hl : ls.getLast? = some []) (h2 : ls.dropLast ≠ []) :
    joinWith sep ls = joinWith sep ls.dropLast ++ sep := by
  induction ls with
  | nil => exact absurd rfl h
  | cons a r ih =>
    cases r with
    | nil => simp at h2
    | cons b r2 =>
      cases r2 with
      | nil =>
        simp only [List.getLast?_cons_cons, List.getLast?_singleton, Option.some.injEq] at hl
        subst hl
        simp [joinWith, List.dropLast]
      | cons c r3 =>
        have hl' : (b :: c :: r3).getLast? = some [] := by rw [List.getLast?_cons_cons] at hl; exact hl
        have := ih (by simp) hl' (by simp [List.dropLast])
        rw [joinWith_cons_cons, this]
        simp only [List.dropLast_cons_cons]
        rw [joinWith_cons_cons]
        simp

/-- **header_lines_spec**: the lines `parse_header` iterates over are the `\n`-free pieces of the text, a final `\n`
    being a terminator rather than the start of one more (empty) line -/
theorem headerLines_spec (s : Str) : LinesOf s (headerLines s) := by
  unfold headerLines LinesOf
  simp only []
  have hne := splitOn_ne_nil '\n' s
  have hno := splitOn_no_sep '\n' s
  have hj := join_splitOn '\n' s
  split
  · rename_i hl
    refine ⟨fun l hm => hno l (List.dropLast_subset _ hm), ?_⟩
    by_cases hd : (splitOn '\n' s).dropLast = []
    · -- the only piece is the empty one: the text is empty
      left
      have : splitOn '\n' s = [[]] := by
        cases hs : splitOn '\n' s with
        | nil => exact absurd hs hne
        | cons a r =>
          rw [hs] at hd hl
          cases r with
          | nil => simp at hl; rw [hl]
          | cons b r2 => simp [List.dropLast] at hd
      rw [this] at hj
      exact ⟨by simpa [joinWith] using hj.symm, hd⟩
    · right; left
      refine ⟨hd, ?_⟩
      rw [← joinWith_dropLast_snoc ['\n'] _ hne hl hd, hj]
  · rename_i hl
    refine ⟨hno, ?_⟩
    right; right
    have hsne : s ≠ [] := by
      intro e; subst e; simp [splitOn] at hl
    refine ⟨hne, hsne, hj.symm, ?_⟩
    -- the text does not end in `\n`: else the last piece would be empty
    intro hlast
    apply hl
    clear hl hj hno hne
    induction s with
    | nil => exact absurd rfl hsne
    | cons c cs ih =>
      unfold splitOn
      by_cases hc : c = '\n'
      · subst hc
        simp only [if_true]
        cases cs with
        | nil => simp [splitOn]
        | cons d ds =>
          have := ih (by simp) (by rw [List.getLast?_cons_cons] at hlast; exact hlast)
          cases hs : splitOn '\n' (d :: ds) with
          | nil => exact absurd hs (splitOn_ne_nil _ _)
          | cons w ws => rw [hs] at this; rw [List.getLast?_cons_cons]; exact this
      · simp only [hc, if_false]
        cases cs with
        | nil => simp at hlast; exact absurd hlast hc
        | cons d ds =>
          have := ih (by simp) (by rw [List.getLast?_cons_cons] at hlast; exact hlast)
          cases hs : splitOn '\n' (d :: ds) with
          | nil => exact absurd hs (splitOn_ne_nil _ _)
          | cons w ws =>
            rw [hs] at this
            simp only []
            cases ws with
            | nil => simp at this; subst this; exact absurd hs (by
                intro hs
                have := join_splitOn '\n' (d :: ds)
                rw [hs] at this; simp [joinWith] at this)
            | cons w2 ws2 => rw [List.getLast?_cons_cons] at this ⊢; exact this

end I18n.Hdr
