import I18n.Generated.IconvDl
/-!
# `lib/iconv.py` regenerated (`Generated/IconvDl.lean`) equals the loop model of `Model/Charset.lean`
-/
set_option linter.unusedSimpArgs false
set_option linter.unusedVariables false
namespace I18n.Charset.Gen
open I18n I18n.Charset I18n.Generated

/-! ## the search loop `for end in range(begin + 1, len(input)): if input[end] < 0x80: break` is `syncEnd` -/

theorem byteAt_nat (input : List UInt8) (w : Py.World) (i : Nat) (b : UInt8) (h : input[i]? = some b) :
    Py.byteAt input (i : Int) w = .ok (b.toNat : Int) := by
  simp [Py.byteAt, h]

/-- what the body of the search loop does on the indices the loop visits -/
def IsSyncBody (input : List UInt8) (p : Int → Except Py.Raise Bool) : Prop :=
  ∀ (i : Nat) (b : UInt8), input[i]? = some b → p (i : Int) = .ok (decide (b.toNat < 128))

theorem rangeFindFrom_sync (p : Int → Except Py.Raise Bool) : ∀ (n : Nat) (rest : List UInt8) (input : List UInt8) (lo : Nat),
    IsSyncBody input p → input.drop lo = rest → rest.length = n →
    Py.rangeFindFrom p (lo : Int) n =
      .ok (match rest.findIdx? (fun b => b.toNat < 0x80) with | some k => some ((lo + k : Nat) : Int) | none => none) := by
  intro n
  induction n with
  | zero =>
    intro rest input lo hp hd hl
    cases rest with
    | nil => simp [Py.rangeFindFrom]
    | cons => simp at hl
  | succ n ih =>
    intro rest input lo hp hd hl
    cases rest with
    | nil => simp at hl
    | cons b rest =>
      have hb : input[lo]? = some b := by
        have := congrArg (fun l => l[0]?) hd
        simpa using this
      have hd' : input.drop (lo + 1) = rest := by
        have := congrArg (List.drop 1) hd
        simpa [List.drop_drop, Nat.add_comm] using this
      have hl' : rest.length = n := by simpa using hl
      have ih' := ih rest input (lo + 1) hp hd' hl'
      simp only [Py.rangeFindFrom, hp lo b hb]
      by_cases hlt : b.toNat < 128
      · simp [List.findIdx?_cons, hlt]
      · simp only [hlt, decide_false]
        have hcast : ((lo : Int) + 1) = ((lo + 1 : Nat) : Int) := by omega
        rw [hcast, ih']
        simp only [List.findIdx?_cons, hlt, decide_false, Bool.false_eq_true, if_false]
        cases rest.findIdx? (fun b => decide (b.toNat < 0x80)) with
        | none => simp
        | some k => simp; omega

/-- the search loop as generated, for a start inside or outside the input -/
theorem rangeFind_sync (input : List UInt8) (s : Nat) (p : Int → Except Py.Raise Bool) (hp : IsSyncBody input p) :
    Py.rangeFind ((s : Int) + 1) (input.length : Int) p =
      .ok (match (input.drop (s + 1)).findIdx? (fun b => b.toNat < 0x80) with | some k => some ((s + 1 + k : Nat) : Int) | none => none) := by
  unfold Py.rangeFind
  have hcast : ((s : Int) + 1) = ((s + 1 : Nat) : Int) := by omega
  rw [hcast]
  have hn : ((input.length : Int) - ((s + 1 : Nat) : Int)).toNat = (input.drop (s + 1)).length := by
    simp only [List.length_drop]; omega
  rw [hn]
  exact rangeFindFrom_sync p _ _ input (s + 1) hp rfl rfl

/-! ## the loops -/

theorem double_cast (L : Nat) : ((L : Int) * 2) = ((L * 2 : Nat) : Int) := by omega
theorem double_cast' (L : Nat) : (2 * (L : Int)) = ((L * 2 : Nat) : Int) := by omega
theorem double_cast'' (L : Nat) : ((L : Int) + (L : Int)) = ((L * 2 : Nat) : Int) := by omega

@[simp] theorem failed_ok : Py.failed .ok = false := rfl
@[simp] theorem failed_e2big : Py.failed .e2big = true := rfl
@[simp] theorem failed_eilseq : Py.failed .eilseq = true := rfl
@[simp] theorem failed_einval : Py.failed .einval = true := rfl
@[simp] theorem failed_other (n : Nat) : Py.failed (.other n) = true := rfl

-- unfold one round of a generated loop and of the model's loop under a known `Round`
open Lean.Parser.Tactic in
macro "round_simp" "[" hs:simpLemma,* "]" : tactic =>
  `(tactic| simp only [IconvDl._decode_dl_loop, IconvDl._encode_dl_loop, decodeLoop, encodeLoop, Py.csize, Py.len, Py.createUnicodeBuffer,
      Py.createStringBuffer, Py.iconvReset, Py.iconvFlush, failed_ok, failed_e2big, failed_eilseq, failed_einval, failed_other, Py.getErrno,
      Py.iconvConv, callBoth, Int.toNat_natCast, beq_self_eq_true, if_true, Bool.false_eq_true, if_false, reduceCtorEq, Bool.not_true,
      Bool.not_false, ↓reduceIte, syncEnd, beq_iff_eq, Bool.true_or, Bool.or_true, Bool.or_false, Bool.false_or, Bool.or_self, double_cast, double_cast', double_cast'',
      Py.errnoNat, List.nil_append, $hs,*])

theorem decode_loop_eq (cd : Py.Cd) (enc : List Nat) (input : List UInt8) : ∀ (fuel L : Nat) (w : Py.World),
    Py.observe (IconvDl._decode_dl_loop input cd enc input fuel (L : Int) w) =
      (Py.ofOutcome (decodeLoop cd.step input fuel L).1, w.trace ++ (decodeLoop cd.step input fuel L).2) := by
  intro fuel
  induction fuel with
  | zero => intro L w; simp [IconvDl._decode_dl_loop, decodeLoop, Py.observe, Py.ofOutcome]
  | succ fuel ih =>
    intro L w
    cases hrd : cd.step L with
    | mk reset main flush =>
    obtain ⟨mrc, mcons, mwr⟩ := main
    obtain ⟨frc, fcons, fwr⟩ := flush
    have hs : ((input.length : Int) - ((input.length - mcons : Nat) : Int)) = ((input.length - (input.length - mcons) : Nat) : Int) := by omega
    cases reset with
    | some e =>
      round_simp [hrd]
      simp [Py.observe, Py.ofOutcome]
    | none =>
      cases mrc with
      | e2big =>
        round_simp [hrd]
        rw [ih]
        simp
      | eilseq =>
        round_simp [hrd, hs]
        rw [rangeFind_sync input _ _ (by intro i b h; simp [byteAt_nat _ _ _ _ h] <;> omega)]
        generalize List.findIdx? (fun b => decide (b.toNat < 128)) (List.drop (input.length - (input.length - mcons) + 1) input) = o
        cases o <;> simp [Py.observe, Py.ofOutcome]
      | einval =>
        round_simp [hrd, hs]
        rw [rangeFind_sync input _ _ (by intro i b h; simp [byteAt_nat _ _ _ _ h] <;> omega)]
        generalize List.findIdx? (fun b => decide (b.toNat < 128)) (List.drop (input.length - (input.length - mcons) + 1) input) = o
        cases o <;> simp [Py.observe, Py.ofOutcome]
      | other e =>
        round_simp [hrd]
        simp [Py.observe, Py.ofOutcome]
      | ok =>
        cases frc with
        | e2big =>
          round_simp [hrd]
          rw [ih]
          simp
        | eilseq =>
          round_simp [hrd, hs]
          rw [rangeFind_sync input _ _ (by intro i b h; simp [byteAt_nat _ _ _ _ h] <;> omega)]
          generalize List.findIdx? (fun b => decide (b.toNat < 128)) (List.drop (input.length - (input.length - mcons) + 1) input) = o
          cases o <;> simp [Py.observe, Py.ofOutcome]
        | einval =>
          round_simp [hrd, hs]
          rw [rangeFind_sync input _ _ (by intro i b h; simp [byteAt_nat _ _ _ _ h] <;> omega)]
          generalize List.findIdx? (fun b => decide (b.toNat < 128)) (List.drop (input.length - (input.length - mcons) + 1) input) = o
          cases o <;> simp [Py.observe, Py.ofOutcome]
        | other e =>
          round_simp [hrd]
          simp [Py.observe, Py.ofOutcome]
        | ok =>
          round_simp [hrd]
          have hP : ((L : Int) - ((L - mwr.length - fwr.length : Nat) : Int)) = ((L - (L - mwr.length - fwr.length) : Nat) : Int) := by omega
          simp only [hP, Py.sizeofWchar, Py.unicodeSlice, Py.sliceTo, Py.OutBuf.bytes]
          generalize L - (L - mwr.length - fwr.length) = P
          have h3 : (P : Int) / 4 = ((P / 4 : Nat) : Int) := by omega
          have h4 : ((P / 4 : Nat) : Int) ≥ 0 := by omega
          by_cases h1 : input.length - mcons = 0
          · have h1' : ((input.length - mcons : Nat) : Int) = 0 := by omega
            by_cases h2 : P % 4 = 0
            · have h2' : (P : Int) % 4 = 0 := by omega
              simp only [h1, h1', h2, h2', h3, h4, if_true, ne_eq, not_true_eq_false, if_false, Int.toNat_natCast, Int.natCast_zero]
              generalize ((List.take (P / 4) (wchars (mwr ++ fwr ++ List.replicate (4 * L - (mwr ++ fwr).length) 0))).any fun x => decide (x > 1114111)) = c
              cases c <;> simp [Py.observe, Py.ofOutcome]
            · have h2' : ¬ (P : Int) % 4 = 0 := by omega
              simp [h1, h1', h2, h2', Py.observe, Py.ofOutcome]
          · have h1' : ¬ ((input.length - mcons : Nat) : Int) = 0 := by omega
            simp [h1, h1', Py.observe, Py.ofOutcome]

theorem encode_loop_eq (cd : Py.Cd) (enc : List Nat) (input : List Nat) (binput cinput : List UInt8)
    (hb : binput.length = 4 * input.length) : ∀ (fuel L : Nat) (w : Py.World),
    Py.observe (IconvDl._encode_dl_loop binput cinput cd enc input fuel (L : Int) w) =
      (Py.ofOutcome (encodeLoop cd.step input.length fuel L).1, w.trace ++ (encodeLoop cd.step input.length fuel L).2) := by
  intro fuel
  induction fuel with
  | zero => intro L w; simp [IconvDl._encode_dl_loop, encodeLoop, Py.observe, Py.ofOutcome]
  | succ fuel ih =>
    intro L w
    cases hrd : cd.step L with
    | mk reset main flush =>
    obtain ⟨mrc, mcons, mwr⟩ := main
    obtain ⟨frc, fcons, fwr⟩ := flush
    have hs : ((input.length : Int) - ((4 * input.length - mcons : Nat) : Int) / 4) = ((input.length - (4 * input.length - mcons) / 4 : Nat) : Int) := by omega
    have hs1 : ((input.length - (4 * input.length - mcons) / 4 : Nat) : Int) + 1 = ((input.length - (4 * input.length - mcons) / 4 + 1 : Nat) : Int) := by omega
    cases reset with
    | some e =>
      round_simp [hrd]
      simp [Py.observe, Py.ofOutcome]
    | none =>
      cases mrc with
      | e2big =>
        round_simp [hrd]
        rw [ih]
        simp
      | eilseq =>
        round_simp [hrd, hb, hs, hs1]
        simp [Py.observe, Py.ofOutcome]
      | einval =>
        round_simp [hrd, hb, hs, hs1]
        simp [Py.observe, Py.ofOutcome]
      | other e =>
        round_simp [hrd]
        simp [Py.observe, Py.ofOutcome]
      | ok =>
        cases frc with
        | e2big =>
          round_simp [hrd]
          rw [ih]
          simp
        | eilseq =>
          round_simp [hrd, hb, hs, hs1]
          simp [Py.observe, Py.ofOutcome]
        | einval =>
          round_simp [hrd, hb, hs, hs1]
          simp [Py.observe, Py.ofOutcome]
        | other e =>
          round_simp [hrd]
          simp [Py.observe, Py.ofOutcome]
        | ok =>
          round_simp [hrd, hb]
          have hP : ((L : Int) - ((L - mwr.length - fwr.length : Nat) : Int)) = ((L - (L - mwr.length - fwr.length) : Nat) : Int) := by omega
          simp only [hP, Py.bytesSlice, Py.sliceTo, Py.OutBuf.bytes]
          generalize L - (L - mwr.length - fwr.length) = P
          have h4 : ((P : Nat) : Int) ≥ 0 := by omega
          by_cases h1 : 4 * input.length - mcons = 0
          · have h1' : ((4 * input.length - mcons : Nat) : Int) = 0 := by omega
            simp [h1, h1', h4, Py.observe, Py.ofOutcome]
          · have h1' : ¬ ((4 * input.length - mcons : Nat) : Int) = 0 := by omega
            simp [h1, h1', Py.observe, Py.ofOutcome]

/-! ## `iconv_open`, `try … finally: iconv_close` around the loop -/

/-- what open / close add to a run of the loop: a failing `iconv_open` is an OSError before anything is allocated; a failing
    `iconv_close` in `finally` replaces the outcome of a loop that ended (a loop that never ends never reaches it) -/
def openClose {α : Type} (openErrno closeErrno : Option Nat) (r : Outcome α × List Alloc) : Outcome α × List Alloc :=
  match openErrno with
  | some e => (.osError e, [])
  | none =>
    match closeErrno with
    | none => r
    | some e =>
      match r.1 with
      | .outOfFuel => r
      | _ => (.osError e, r.2)

theorem tryFinally_ok {α : Type} (r : Py.Res α) (fin : Py.World → Except Py.Raise Py.World) (h : ∀ w, fin w = .ok w) :
    Py.tryFinally r fin = r := by
  unfold Py.tryFinally
  cases r with
  | ok v => obtain ⟨v, w⟩ := v; simp [h]
  | error e => obtain ⟨e, w⟩ := e; cases e <;> simp [h]

theorem tryFinally_err {α : Type} (r : Py.Res α) (fin : Py.World → Except Py.Raise Py.World) (e : Nat)
    (h : ∀ w, fin w = .error (.os e, { w with errno := .other e })) :
    Py.observe (Py.tryFinally r fin) = (match (Py.observe r).1 with | .error .outOfFuel => (Py.observe r).1 | _ => .error (.os e), (Py.observe r).2) := by
  unfold Py.tryFinally
  cases r with
  | ok v => obtain ⟨v, w⟩ := v; simp [h, Py.observe]
  | error x => obtain ⟨x, w⟩ := x; cases x <;> simp [h, Py.observe]

theorem decode_dl_eq (ic : Py.Iconv) (input : List UInt8) (enc : List Nat) (fuel : Nat) (w : Py.World) :
    Py.observe (IconvDl._decode_dl ic input enc fuel w) =
      (Py.ofOutcome (openClose (ic.openErrno (Py.lit "WCHAR_T") enc) ic.closeErrno
          (decodeLoop (ic.step (Py.lit "WCHAR_T") enc) input fuel input.length)).1,
       w.trace ++ (openClose (ic.openErrno (Py.lit "WCHAR_T") enc) ic.closeErrno
          (decodeLoop (ic.step (Py.lit "WCHAR_T") enc) input fuel input.length)).2) := by
  cases ho : ic.openErrno (Py.lit "WCHAR_T") enc with
  | some e =>
    simp [IconvDl._decode_dl, Py.iconvOpen, ho, Py.Cd.isMinus1, Py.getErrno, Py.errnoNat, Py.observe, Py.ofOutcome, openClose]
  | none =>
    simp only [IconvDl._decode_dl, Py.iconvOpen, ho, Py.Cd.isMinus1, if_true, Bool.not_true, Bool.false_eq_true, if_false, openClose]
    cases hc : ic.closeErrno with
    | none =>
      rw [tryFinally_ok _ _ (by intro w; simp [Py.iconvClose])]
      exact decode_loop_eq ⟨true, ic.step (Py.lit "WCHAR_T") enc, none⟩ enc input fuel input.length w
    | some e =>
      rw [tryFinally_err _ _ e (by intro w; simp [Py.iconvClose, Py.getErrno, Py.errnoNat])]
      have := decode_loop_eq ⟨true, ic.step (Py.lit "WCHAR_T") enc, some e⟩ enc input fuel input.length w
      simp only [Py.len] at this ⊢
      rw [this]
      generalize decodeLoop (ic.step (Py.lit "WCHAR_T") enc) input fuel input.length = r
      obtain ⟨o, tr⟩ := r
      cases o <;> simp [Py.ofOutcome]

theorem utf32le_length : ∀ (s : List Nat), (Py.utf32le s).length = 4 * s.length
  | [] => rfl
  | c :: rest => by simp only [Py.utf32le, List.length_cons, utf32le_length rest]; omega

theorem encode_dl_eq (ic : Py.Iconv) (input : List Nat) (enc : List Nat) (fuel : Nat) (w : Py.World) :
    Py.observe (IconvDl._encode_dl ic input enc fuel w) =
      (Py.ofOutcome (openClose (ic.openErrno enc (Py.lit "UTF-32LE")) ic.closeErrno
          (encodeLoop (ic.step enc (Py.lit "UTF-32LE")) input.length fuel input.length)).1,
       w.trace ++ (openClose (ic.openErrno enc (Py.lit "UTF-32LE")) ic.closeErrno
          (encodeLoop (ic.step enc (Py.lit "UTF-32LE")) input.length fuel input.length)).2) := by
  have hlen : (Py.len (Py.utf32le input) == Py.len input * 4) = true := by
    simp only [Py.len, utf32le_length, beq_iff_eq]; omega
  cases ho : ic.openErrno enc (Py.lit "UTF-32LE") with
  | some e =>
    simp [IconvDl._encode_dl, hlen, Py.iconvOpen, ho, Py.Cd.isMinus1, Py.getErrno, Py.errnoNat, Py.observe, Py.ofOutcome, openClose]
  | none =>
    simp only [IconvDl._encode_dl, hlen, Py.iconvOpen, ho, Py.Cd.isMinus1, if_true, Bool.not_true, Bool.false_eq_true, if_false, openClose]
    cases hc : ic.closeErrno with
    | none =>
      rw [tryFinally_ok _ _ (by intro w; simp [Py.iconvClose])]
      exact encode_loop_eq ⟨true, ic.step enc (Py.lit "UTF-32LE"), none⟩ enc input _ _ (utf32le_length input) fuel input.length w
    | some e =>
      rw [tryFinally_err _ _ e (by intro w; simp [Py.iconvClose, Py.getErrno, Py.errnoNat])]
      have := encode_loop_eq ⟨true, ic.step enc (Py.lit "UTF-32LE"), some e⟩ enc input (Py.utf32le input) (Py.utf32le input) (utf32le_length input) fuel input.length w
      simp only [Py.len] at this ⊢
      rw [this]
      generalize encodeLoop (ic.step enc (Py.lit "UTF-32LE")) input.length fuel input.length = r
      obtain ⟨o, tr⟩ := r
      cases o <;> simp [Py.ofOutcome]

/-! ## the public wrappers -/

theorem decode_eq (ic : Py.Iconv) (input : List UInt8) (enc errors : List Nat) (fuel : Nat) (w : Py.World) :
    Py.observe (IconvDl.decode ic input enc errors fuel w) =
      if input.isEmpty then (.ok [], w.trace)
      else if errors ≠ Py.lit "strict" then (.error .notImplemented, w.trace)
      else Py.observe (IconvDl._decode_dl ic input enc fuel w) := by
  cases input with
  | nil => simp [IconvDl.decode, Py.len, Py.observe]
  | cons b rest =>
    have hne : ¬ ((rest.length : Int) + 1 = 0) := by omega
    by_cases he : errors = Py.lit "strict"
    · simp [IconvDl.decode, Py.len, he, hne]
    · simp [IconvDl.decode, Py.len, he, hne, Py.observe]

theorem encode_eq (ic : Py.Iconv) (input : List Nat) (enc errors : List Nat) (fuel : Nat) (w : Py.World) :
    Py.observe (IconvDl.encode ic input enc errors fuel w) =
      if input.isEmpty then (.ok [], w.trace)
      else if errors ≠ Py.lit "strict" then (.error .notImplemented, w.trace)
      else Py.observe (IconvDl._encode_dl ic input enc fuel w) := by
  cases input with
  | nil => simp [IconvDl.encode, Py.len, Py.observe]
  | cons b rest =>
    have hne : ¬ ((rest.length : Int) + 1 = 0) := by omega
    by_cases he : errors = Py.lit "strict"
    · simp [IconvDl.encode, Py.len, he, hne]
    · simp [IconvDl.encode, Py.len, he, hne, Py.observe]

end I18n.Charset.Gen
