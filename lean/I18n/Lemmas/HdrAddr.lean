import I18n.Lemmas.HdrFields
import I18n.Lemmas.HdrDomains
/-
C15 lemmas, part 3: the `if/elif` chains over an e-mail address (Report-Msgid-Bugs-To, Last-Translator, Language-Team)
decide the documented order of precedence `AddrIs`; per-field membership lemmas.
-/
set_option linter.unusedSimpArgs false
namespace I18n.Hdr
open I18n.Spec.HeaderRules I18n.Date I18n.Generated I18n.Domains

def addrVerdict (x : Ext) (boiler : List String) (addr : Str) : AddrVerdict :=
  if isEmailInSpecialDomain x.db.lower addr then .reserved
  else if (boiler.map String.toList).contains addr then .boilerplate
  else if isEmailInDotlessDomain addr then .dotless
  else .fine

theorem hasAt_iff (addr : Str) : hasAt addr = true ↔ HasAt addr := by simp [hasAt, HasAt]

theorem addrVerdict_iff (x : Ext) (boiler : List String) (addr : Str) (h : HasAt addr) (v : AddrVerdict) :
    addrVerdict x boiler addr = v ↔ AddrIs x boiler addr v := by
  have hs := isEmailInSpecialDomain_iff x addr h
  have hd := isEmailInDotlessDomain_iff addr h
  have hb : (boiler.map String.toList).contains addr = true ↔ addr ∈ boiler.map String.toList := by simp
  unfold addrVerdict
  by_cases c1 : isEmailInSpecialDomain x.db.lower addr = true
  · have s1 := hs.1 c1
    cases v <;> simp [c1, AddrIs, s1]
  · have s1 : ¬ SpecialEmail x addr := fun e => c1 (hs.2 e)
    by_cases c2 : (boiler.map String.toList).contains addr = true
    · have b1 := hb.1 c2
      cases v <;> simp [c1, c2, AddrIs, s1, b1]
    · have b1 : addr ∉ boiler.map String.toList := fun e => c2 (hb.2 e)
      by_cases c3 : isEmailInDotlessDomain addr = true
      · have d1 := hd.1 c3
        cases v <;> simp [c1, c2, c3, AddrIs, s1, b1, d1]
      · have d1 : ¬ DotlessEmail addr := fun e => c3 (hd.2 e)
        cases v <;> simp [c1, c2, c3, AddrIs, s1, b1, d1]

theorem reportOne_eq (x : Ext) (v : Str) :
    reportOne x v =
      if !hasAt (x.parseaddr v) then
        (if (x.urlScheme v).getD [] = [] then [tag "invalid-report-msgid-bugs-to" [sx v]] else [])
      else match addrVerdict x ["EMAIL@ADDRESS"] (x.parseaddr v) with
        | .reserved => [tag "invalid-report-msgid-bugs-to" [sx v]]
        | .boilerplate => [tag "boilerplate-in-report-msgid-bugs-to" [sx v]]
        | .dotless => [tag "invalid-report-msgid-bugs-to" [sx v]]
        | .fine => [] := by
  unfold reportOne addrVerdict
  have e1 : HeaderFields.reportBoilerplate = ["EMAIL@ADDRESS"] := rfl
  have e2 : HeaderFields.emptyScheme.toList = [] := rfl
  rw [e1, e2]
  simp only []
  split
  · rfl
  · split
    · rfl
    · split
      · rfl
      · split <;> rfl

theorem mem_reportOne (x : Ext) (v : Str) (t : TagCall) :
    t ∈ reportOne x v ↔
      (¬ HasAt (x.parseaddr v) ∧ (x.urlScheme v = none ∨ x.urlScheme v = some []) ∧
          t = ⟨"invalid-report-msgid-bugs-to", [.str v]⟩)
       ∨ (HasAt (x.parseaddr v) ∧
          ((AddrIs x ["EMAIL@ADDRESS"] (x.parseaddr v) .reserved ∧ t = ⟨"invalid-report-msgid-bugs-to", [.str v]⟩)
           ∨ (AddrIs x ["EMAIL@ADDRESS"] (x.parseaddr v) .boilerplate ∧ t = ⟨"boilerplate-in-report-msgid-bugs-to", [.str v]⟩)
           ∨ (AddrIs x ["EMAIL@ADDRESS"] (x.parseaddr v) .dotless ∧ t = ⟨"invalid-report-msgid-bugs-to", [.str v]⟩))) := by
  rw [reportOne_eq]
  by_cases ha : hasAt (x.parseaddr v) = true
  · have ha' := (hasAt_iff _).1 ha
    simp only [ha, Bool.not_true, Bool.false_eq_true, if_false]
    have key := addrVerdict_iff x ["EMAIL@ADDRESS"] (x.parseaddr v) ha'
    cases hv : addrVerdict x ["EMAIL@ADDRESS"] (x.parseaddr v) <;>
      simp [ha', ← key, hv, tag, sx]
  · have ha' : ¬ HasAt (x.parseaddr v) := fun e => ha ((hasAt_iff _).2 e)
    have ha2 : hasAt (x.parseaddr v) = false := by simpa using ha
    simp only [ha2, Bool.not_false, if_true, ha', not_false_eq_true, true_and, false_and, or_false]
    cases hs : x.urlScheme v with
    | none => simp [tag, sx]
    | some s =>
      by_cases hs2 : s = []
      · subst hs2; simp [tag, sx]
      · simp [hs2]

theorem dedup_eq_single_nil (vs : List Str) : dedup vs = [[]] ↔ (vs ≠ [] ∧ ∀ v ∈ vs, v = []) := by
  constructor
  · intro h
    have hm : ∀ v, v ∈ vs ↔ v ∈ [([] : Str)] := fun v => by rw [← h, mem_dedup]
    refine ⟨?_, fun v hv => by simpa using (hm v).1 hv⟩
    intro e; subst e; simp [dedup] at h
  · rintro ⟨hne, hall⟩
    unfold dedup
    split
    · -- sortedSet of an all-empty list
      have : ∀ l : List Str, l ≠ [] → (∀ v ∈ l, v = []) → sortedSet l = [[]] := by
        intro l
        induction l with
        | nil => intro h; exact absurd rfl h
        | cons a r ih =>
          intro _ hall
          have ha : a = [] := hall a (by simp)
          subst ha
          cases r with
          | nil => simp [sortedSet, Date.sortedSet, insertU]
          | cons b r' =>
            have := ih (by simp) (fun v hv => hall v (by simp [hv]))
            simp only [sortedSet, Date.sortedSet, List.foldr_cons] at this ⊢
            rw [this]; simp [insertU]
      exact this vs hne hall
    · rename_i hlen
      cases vs with
      | nil => exact absurd rfl hne
      | cons a r =>
        cases r with
        | nil => simp [hall a (by simp)]
        | cons b r' => simp at hlen

theorem mem_reportTags (x : Ext) (ls : List Line) (t : TagCall) :
    t ∈ reportTags x (buildMeta ls []) ↔ ReportRule x (fieldLines ls) t := by
  unfold reportTags ReportRule cnt
  rw [meta_getS]
  generalize vals (fieldLines ls) "Report-Msgid-Bugs-To" = vs
  by_cases hall : ∀ v ∈ vs, v = []
  · -- nothing but empty values: the field counts as absent
    have hvs : (if dedup vs = [[]] then [] else dedup vs) = [] := by
      by_cases hne : vs = []
      · subst hne; simp [dedup]
      · rw [if_pos ((dedup_eq_single_nil vs).2 ⟨hne, hall⟩)]
    simp only [hvs, List.length_nil, if_true, List.flatMap_nil, List.append_nil, List.mem_append]
    have hno : ¬ ∃ w ∈ vs, w ≠ [] := by
      rintro ⟨w, hw, hn⟩; exact hn (hall w hw)
    constructor
    · rintro (h | h)
      · split at h
        · right; left; simp_all [t0, tag]
        · simp at h
      · left; exact ⟨hall, by simpa [t0, tag] using h⟩
    · rintro (⟨_, rfl⟩ | ⟨h1, rfl⟩ | ⟨v, _, hw, _⟩)
      · right; simp [t0, tag]
      · left; simp [h1, t0, tag]
      · exact absurd hw hno
  · have hex : ∃ w ∈ vs, w ≠ [] := by
      simpa using hall
    have hne1 : dedup vs ≠ [[]] := fun e => hall ((dedup_eq_single_nil vs).1 e).2
    have hne0 : (dedup vs).length ≠ 0 := by
      obtain ⟨w, hw, _⟩ := hex
      intro e
      have := (dedup_length_zero vs).1 e
      have : vs = [] := List.length_eq_zero_iff.1 this
      simp [this] at hw
    simp only [hne1, if_false, hne0, List.mem_append, List.mem_flatMap, mem_dedup, mem_reportOne, List.not_mem_nil, or_false]
    constructor
    · rintro (h | ⟨v, hv, h⟩)
      · split at h
        · right; left; simp_all [t0, tag]
        · simp at h
      · right; right; exact ⟨v, hv, hex, h⟩
    · rintro (⟨h, _⟩ | ⟨h1, rfl⟩ | ⟨v, hv, _, h⟩)
      · exact absurd h hall
      · left; simp [h1, t0, tag]
      · right; exact ⟨v, hv, h⟩

theorem translatorOne_eq (x : Ext) (tmpl : Bool) (v : Str) :
    translatorOne x tmpl v =
      if !hasAt (x.parseaddr v) then [tag "invalid-last-translator" [sx v]]
      else match addrVerdict x ["EMAIL@ADDRESS"] (x.parseaddr v) with
        | .reserved => [tag "invalid-last-translator" [sx v]]
        | .boilerplate => if tmpl then [] else [tag "boilerplate-in-last-translator" [sx v]]
        | .dotless => [tag "invalid-last-translator" [sx v]]
        | .fine => [] := by
  unfold translatorOne addrVerdict
  have e1 : HeaderFields.translatorBoilerplate = ["EMAIL@ADDRESS"] := rfl
  rw [e1]
  simp only []
  split
  · rfl
  · split
    · rfl
    · split
      · rfl
      · split <;> rfl

theorem mem_translatorOne (x : Ext) (tmpl : Bool) (v : Str) (t : TagCall) :
    t ∈ translatorOne x tmpl v ↔
      (¬ HasAt (x.parseaddr v) ∧ t = ⟨"invalid-last-translator", [.str v]⟩)
      ∨ (HasAt (x.parseaddr v) ∧
          ((AddrIs x ["EMAIL@ADDRESS"] (x.parseaddr v) .reserved ∧ t = ⟨"invalid-last-translator", [.str v]⟩)
           ∨ (AddrIs x ["EMAIL@ADDRESS"] (x.parseaddr v) .boilerplate ∧ tmpl = false ∧
                t = ⟨"boilerplate-in-last-translator", [.str v]⟩)
           ∨ (AddrIs x ["EMAIL@ADDRESS"] (x.parseaddr v) .dotless ∧ t = ⟨"invalid-last-translator", [.str v]⟩))) := by
  rw [translatorOne_eq]
  by_cases ha : hasAt (x.parseaddr v) = true
  · have ha' := (hasAt_iff _).1 ha
    simp only [ha, Bool.not_true, Bool.false_eq_true, if_false]
    have key := addrVerdict_iff x ["EMAIL@ADDRESS"] (x.parseaddr v) ha'
    cases hv : addrVerdict x ["EMAIL@ADDRESS"] (x.parseaddr v) <;> cases tmpl <;>
      simp [ha', ← key, hv, tag, sx]
  · have ha' : ¬ HasAt (x.parseaddr v) := fun e => ha ((hasAt_iff _).2 e)
    have ha2 : hasAt (x.parseaddr v) = false := by simpa using ha
    simp [ha2, ha', tag, sx]

theorem dictGet_dictSet (k v k' : Str) (d : List (Str × Str)) :
    dictGet (dictSet k v d) k' = if k' = k then some v else dictGet d k' := by
  induction d with
  | nil =>
    by_cases h : k' = k
    · subst h; simp [dictSet, dictGet]
    · have : ¬ k = k' := fun e => h e.symm
      simp [dictSet, dictGet, h, this]
  | cons p rest ih =>
    obtain ⟨k0, v0⟩ := p
    unfold dictSet
    by_cases h0 : k0 = k
    · subst h0
      by_cases h : k' = k0
      · subst h; simp [dictGet]
      · have : ¬ k0 = k' := fun e => h e.symm
        simp [dictGet, h, this]
    · simp only [h0, if_false]
      by_cases h1 : k0 = k'
      · subst h1
        have : ¬ k0 = k := h0
        simp [dictGet, this]
      · have e1 : ∀ r : List (Str × Str), dictGet ((k0, v0) :: r) k' = dictGet r k' := by
          intro r; simp [dictGet, h1]
        rw [e1, e1, ih]

theorem dictGet_translatorEmails (x : Ext) (ts : List Str) (d : List (Str × Str)) (a : Str) :
    dictGet (translatorEmails x ts d) a =
      match ts.reverse.find? (fun v => decide (x.parseaddr v = a)) with
      | some v => some v
      | none => dictGet d a := by
  induction ts generalizing d with
  | nil => simp [translatorEmails]
  | cons v rest ih =>
    simp only [translatorEmails, ih, List.reverse_cons, List.find?_append]
    cases h : rest.reverse.find? (fun v => decide (x.parseaddr v = a)) with
    | some w => simp
    | none =>
      simp only [Option.none_or, dictGet_dictSet]
      by_cases e : x.parseaddr v = a
      · simp [e]
      · have : ¬ a = x.parseaddr v := fun h => e h.symm
        simp [e, this]

theorem dedup_eq_sortedSet (vs : List Str) : dedup vs = sortedSet vs := by
  unfold dedup
  split
  · rfl
  · rename_i h
    cases vs with
    | nil => rfl
    | cons a r =>
      cases r with
      | nil => simp [sortedSet, Date.sortedSet, insertU]
      | cons b r' => simp at h

theorem teamOne_eq (x : Ext) (tmpl : Bool) (emails : List (Str × Str)) (v : Str) :
    teamOne x tmpl emails v =
      if !hasAt (x.parseaddr v) then []
      else match addrVerdict x ["EMAIL@ADDRESS", "LL@li.org"] (x.parseaddr v) with
        | .reserved => [tag "invalid-language-team" [sx v]]
        | .boilerplate => if tmpl then [] else [tag "boilerplate-in-language-team" [sx v]]
        | .dotless => [tag "invalid-language-team" [sx v]]
        | .fine => match dictGet emails (x.parseaddr v) with
          | some translator => [tag "language-team-equal-to-last-translator" [sx v, sx translator]]
          | none => [] := by
  unfold teamOne addrVerdict
  have e1 : HeaderFields.teamBoilerplate = ["EMAIL@ADDRESS", "LL@li.org"] := rfl
  rw [e1]
  simp only []
  split
  · rfl
  · split
    · rfl
    · split
      · rfl
      · split <;> rfl

theorem mem_teamOne (x : Ext) (tmpl : Bool) (ts : List Str) (v : Str) (t : TagCall) :
    t ∈ teamOne x tmpl (translatorEmails x ts []) v ↔
      HasAt (x.parseaddr v) ∧
      ((AddrIs x ["EMAIL@ADDRESS", "LL@li.org"] (x.parseaddr v) .reserved ∧ t = ⟨"invalid-language-team", [.str v]⟩)
       ∨ (AddrIs x ["EMAIL@ADDRESS", "LL@li.org"] (x.parseaddr v) .boilerplate ∧ tmpl = false ∧
            t = ⟨"boilerplate-in-language-team", [.str v]⟩)
       ∨ (AddrIs x ["EMAIL@ADDRESS", "LL@li.org"] (x.parseaddr v) .dotless ∧ t = ⟨"invalid-language-team", [.str v]⟩)
       ∨ (AddrIs x ["EMAIL@ADDRESS", "LL@li.org"] (x.parseaddr v) .fine ∧
            ∃ tr, (ts.reverse.find? fun w => decide (x.parseaddr w = x.parseaddr v)) = some tr ∧
              t = ⟨"language-team-equal-to-last-translator", [.str v, .str tr]⟩)) := by
  rw [teamOne_eq, dictGet_translatorEmails]
  by_cases ha : hasAt (x.parseaddr v) = true
  · have ha' := (hasAt_iff _).1 ha
    simp only [ha, Bool.not_true, Bool.false_eq_true, if_false]
    have key := addrVerdict_iff x ["EMAIL@ADDRESS", "LL@li.org"] (x.parseaddr v) ha'
    cases hv : addrVerdict x ["EMAIL@ADDRESS", "LL@li.org"] (x.parseaddr v)
    · simp [ha', ← key, hv, tag, sx]
    · cases tmpl <;> simp [ha', ← key, hv, tag, sx]
    · simp [ha', ← key, hv, tag, sx]
    · cases hf : ts.reverse.find? (fun w => decide (x.parseaddr w = x.parseaddr v)) with
      | none => simp [ha', ← key, hv, dictGet]
      | some tr => simp [ha', ← key, hv, tag, sx]
  · have ha' : ¬ HasAt (x.parseaddr v) := fun e => ha ((hasAt_iff _).2 e)
    have ha2 : hasAt (x.parseaddr v) = false := by simpa using ha
    simp [ha2, ha']

theorem mem_checkTranslator (x : Ext) (tmpl : Bool) (ls : List Line) (t : TagCall) :
    t ∈ checkTranslator x tmpl (buildMeta ls []) ↔
      (((cnt (fieldLines ls) "Last-Translator" = 0 ∧ t = t0 "no-last-translator-header-field")
        ∨ (1 < cnt (fieldLines ls) "Last-Translator" ∧ t = t0 "duplicate-header-field-last-translator")
        ∨ ∃ v ∈ vals (fieldLines ls) "Last-Translator", t ∈ translatorOne x tmpl v)
      ∨ ((cnt (fieldLines ls) "Language-Team" = 0 ∧ t = t0 "no-language-team-header-field")
        ∨ (1 < cnt (fieldLines ls) "Language-Team" ∧ t = t0 "duplicate-header-field-language-team")
        ∨ ∃ v ∈ vals (fieldLines ls) "Language-Team",
            t ∈ teamOne x tmpl (translatorEmails x (sortedSet (vals (fieldLines ls) "Last-Translator")) []) v)) := by
  unfold checkTranslator cnt
  rw [meta_getS, meta_getS]
  dsimp only
  rw [dedup_eq_sortedSet (vals (fieldLines ls) "Last-Translator")]
  generalize vals (fieldLines ls) "Last-Translator" = ts
  generalize vals (fieldLines ls) "Language-Team" = teams
  simp only [List.mem_append, List.mem_flatMap, mem_dedup, mem_sortedSet]
  constructor
  · rintro (((h | ⟨v, hv, h⟩) | h) | ⟨v, hv, h⟩)
    · left
      split at h
      · right; left; simp_all [t0, tag]
      · split at h
        · left; simp_all [t0, tag]
        · simp at h
    · left; right; right; exact ⟨v, hv, h⟩
    · right
      split at h
      · right; left; simp_all [t0, tag]
      · split at h
        · left; simp_all [t0, tag]
        · simp at h
    · right; right; right; exact ⟨v, hv, h⟩
  · rintro ((⟨h0, rfl⟩ | ⟨h1, rfl⟩ | ⟨v, hv, h⟩) | (⟨h0, rfl⟩ | ⟨h1, rfl⟩ | ⟨v, hv, h⟩))
    · left; left; left
      have : ¬ ts.length > 1 := by omega
      simp [this, h0, t0, tag]
    · left; left; left; simp [h1, t0, tag]
    · left; left; right; exact ⟨v, hv, h⟩
    · left; right
      have : ¬ teams.length > 1 := by omega
      simp [this, h0, t0, tag]
    · left; right; simp [h1, t0, tag]
    · right; exact ⟨v, hv, h⟩

theorem mem_checkTranslator_rule (x : Ext) (f : File) (ls : List Line) (t : TagCall) :
    t ∈ checkTranslator x f.kind.isTemplate (buildMeta ls []) ↔
      TranslatorRule x f (fieldLines ls) t ∨ TeamRule x f (fieldLines ls) t := by
  rw [mem_checkTranslator]
  unfold TranslatorRule TeamRule SameTranslator
  simp only [mem_translatorOne, mem_teamOne]

end I18n.Hdr
