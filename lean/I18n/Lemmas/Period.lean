import I18n.Generated.Intexpr
import I18n.Lemmas.PyArith
import I18n.Lemmas.Eval
/-! Soundness of the periodicity analysis (`PeriodEvaluator`, `gcd`, `lcm`) w.r.t. `Evaluator`,
    stated about the definitions generated from lib/intexpr.py. -/
namespace I18n.Plural
open I18n I18n.Py I18n.Generated.Intexpr

/-! ## gcd: the `while` loop terminates within the declared variant and computes the gcd -/

theorem gcd_step (x y : Int) : Int.gcd y (x % y) = Int.gcd x y := by
  have h : x = x % y + y * (x / y) := (Int.emod_add_mul_ediv x y).symm
  conv => rhs; rw [h]
  rw [Int.gcd_comm (x % y + y * (x / y)) y, Int.gcd_add_mul_left_right]

theorem gcd_loop (fuel : Nat) : ∀ (x y : Int), 0 ≤ x → 0 ≤ y → y.toNat ≤ fuel →
    Py.whileLoop gcd.loop_cond gcd.loop_body fuel (x, y) = .ok ((Int.gcd x y : Int), 0) := by
  induction fuel with
  | zero =>
    intro x y hx hy hf
    have hy0 : y = 0 := by omega
    subst hy0
    simp only [Py.whileLoop, gcd.loop_cond]
    simp
    omega
  | succ k ih =>
    intro x y hx hy hf
    simp only [Py.whileLoop, gcd.loop_cond, gcd.loop_body]
    by_cases hy0 : y = 0
    · subst hy0
      simp
      omega
    · have hyp : 0 < y := by omega
      simp only [ne_eq, hy0, not_false_eq_true, decide_true, ↓reduceIte, mod_ok hyp]
      have h1 := Int.emod_nonneg x hy0
      have h2 := Int.emod_lt_of_pos x hyp
      rw [ih y (x % y) hy h1 (by omega), gcd_step]

theorem gcd_ok {x y : Int} (hx : 0 ≤ x) (hy : 0 ≤ y) : gcd x y = .ok (Int.gcd x y : Int) := by
  unfold gcd
  rw [gcd_loop (Int.toNat y + 1) x y hx hy (by omega)]

/-! ## lcm: a positive common multiple -/

/-- the loop body of `lcm`: `r //= gcd(r, y); r *= y` -/
theorem lcm_body {r y : Int} (hr : 0 < r) (hy : 0 < y) :
    ∃ r', lcm.loop_body r y = .ok r' ∧ 0 < r' ∧ r ∣ r' ∧ y ∣ r' := by
  unfold lcm.loop_body
  have hg : (0 : Int) < (Int.gcd r y : Int) := by
    have := Int.gcd_pos_of_ne_zero_left y (show r ≠ 0 by omega)
    omega
  rw [gcd_ok (Int.le_of_lt hr) (Int.le_of_lt hy)]
  simp only [floordiv_ok hg]
  refine ⟨_, rfl, ?_, ?_, ?_⟩
  · obtain ⟨k, hk⟩ := Int.gcd_dvd_left r y
    have hk0 : 0 < k := by
      rcases Int.lt_trichotomy 0 k with h | h | h
      · exact h
      · subst h; omega
      · have : (Int.gcd r y : Int) * k < 0 := Int.mul_neg_of_pos_of_neg hg h
        omega
    have : r / (Int.gcd r y : Int) = k := Int.ediv_eq_of_eq_mul_right (by omega) hk
    rw [this]
    exact Int.mul_pos hk0 hy
  · obtain ⟨k, hk⟩ := Int.gcd_dvd_left r y
    obtain ⟨l, hl⟩ := Int.gcd_dvd_right r y
    have : r / (Int.gcd r y : Int) = k := Int.ediv_eq_of_eq_mul_right (by omega) hk
    rw [this]
    refine ⟨l, ?_⟩
    have e1 : k * y = k * ((Int.gcd r y : Int) * l) := by rw [← hl]
    have e2 : r * l = (Int.gcd r y : Int) * k * l := by rw [← hk]
    rw [e1, e2]
    simp only [Int.mul_comm, Int.mul_left_comm]
  · exact ⟨_, Int.mul_comm _ _⟩

theorem lcm_spec (ys : List Int) : ∀ (x : Int), 0 < x → (∀ y ∈ ys, 0 < y) →
    ∃ r, lcm x ys = .ok r ∧ 0 < r ∧ x ∣ r ∧ ∀ y ∈ ys, y ∣ r := by
  unfold lcm
  induction ys with
  | nil =>
    intro x hx _
    exact ⟨x, by simp [Py.forLoop], hx, Int.dvd_refl x, by simp⟩
  | cons y ys ih =>
    intro x hx hys
    obtain ⟨r', hb, hr', hxr, hyr⟩ := lcm_body hx (hys y (by simp))
    simp only [Py.forLoop, hb]
    obtain ⟨r, hl, hr, hdr, hall⟩ := ih r' hr' (fun z hz => hys z (by simp [hz]))
    refine ⟨r, hl, hr, Int.dvd_trans hxr hdr, ?_⟩
    intro z hz
    rcases List.mem_cons.mp hz with h | h
    · subst h; exact Int.dvd_trans hyr hdr
    · exact hall z h


/-! ## periodic outcome functions -/

def toOpt (r : Except Exc Int) : Option Int :=
  match r with
  | .ok v => some v
  | .error _ => none

/-- `f` is periodic from `O` on with period `P`, below `M` -/
def Periodic (M : Int) (f : Int → Option Int) (O P : Int) : Prop :=
  0 ≤ O ∧ 0 < P ∧ ∀ n : Int, O ≤ n → n + P < M → f n = f (n + P)

theorem periodic_mul_nat {M : Int} {f : Int → Option Int} {O P : Int} (h : Periodic M f O P) :
    ∀ (k : Nat) (n : Int), O ≤ n → n + P * k < M → f n = f (n + P * k) := by
  intro k
  induction k with
  | zero => intro n _ _; simp
  | succ k ih =>
    intro n hn hlt
    have hP := h.2.1
    have hk : (0 : Int) ≤ P * (k : Int) := Int.mul_nonneg (Int.le_of_lt hP) (Int.natCast_nonneg k)
    have hexp : P * ((k + 1 : Nat) : Int) = P * (k : Int) + P := by
      rw [Int.natCast_succ, Int.mul_add, Int.mul_one]
    rw [hexp] at hlt ⊢
    rw [ih n hn (by omega), h.2.2 (n + P * k) (by omega) (by omega)]
    congr 1
    omega

theorem periodic_weaken {M : Int} {f : Int → Option Int} {O P O' P' : Int} (h : Periodic M f O P)
    (hO : O ≤ O') (hP' : 0 < P') (hd : P ∣ P') : Periodic M f O' P' := by
  obtain ⟨k, hk⟩ := hd
  have hk0 : 0 < k := by
    rcases Int.lt_trichotomy 0 k with hh | hh | hh
    · exact hh
    · subst hh; omega
    · have : P * k < 0 := Int.mul_neg_of_pos_of_neg h.2.1 hh
      omega
  refine ⟨by have := h.1; omega, hP', ?_⟩
  intro n hn hlt
  have := periodic_mul_nat h k.toNat n (by omega)
  have hkk : ((k.toNat : Nat) : Int) = k := Int.toNat_of_nonneg (Int.le_of_lt hk0)
  rw [hkk, ← hk] at this
  exact this hlt

theorem periodic_combine2 {M : Int} {fa fb f : Int → Option Int} {F : Option Int → Option Int → Option Int}
    (hf : ∀ n, f n = F (fa n) (fb n)) {O P : Int}
    (ha : Periodic M fa O P) (hb : Periodic M fb O P) : Periodic M f O P := by
  refine ⟨ha.1, ha.2.1, ?_⟩
  intro n hn hlt
  rw [hf n, hf (n + P), ha.2.2 n hn hlt, hb.2.2 n hn hlt]

/-! ## outcomes of composite nodes are functions of the outcomes of their children -/

theorem check_overflow_indep (M n n' k : Int) :
    Evaluator._check_overflow M n k = Evaluator._check_overflow M n' k := rfl

theorem dispatch_BinOp_indep (M n n' : Int) (op : BinOp) (x y : Int) :
    Evaluator.dispatch_BinOp M n op x y = Evaluator.dispatch_BinOp M n' op x y := by
  cases op <;> rfl

theorem dispatch_CmpOp_indep (M n n' : Int) (op : CmpOp) (x y : Int) :
    Evaluator.dispatch_CmpOp M n op x y = Evaluator.dispatch_CmpOp M n' op x y := by
  cases op <;> rfl

theorem dispatch_UnOp_indep (M n n' : Int) (op : UnOp) (x : Int) :
    Evaluator.dispatch_UnOp M n op x = Evaluator.dispatch_UnOp M n' op x := by
  cases op; rfl

def unF (M : Int) (op : UnOp) (o : Option Int) : Option Int :=
  match o with
  | some x => toOpt (Evaluator.dispatch_UnOp M 0 op x)
  | none => none

def binF (M : Int) (op : BinOp) (oa ob : Option Int) : Option Int :=
  match oa, ob with
  | some x, some y => toOpt (Evaluator.dispatch_BinOp M 0 op x y)
  | _, _ => none

def cmpF (M : Int) (op : CmpOp) (oa ob : Option Int) : Option Int :=
  match oa, ob with
  | some x, some y => toOpt (Evaluator.dispatch_CmpOp M 0 op x y)
  | _, _ => none

theorem outcome_unaryop (M n : Int) (op : UnOp) (a : Expr) :
    toOpt (Evaluator.visit M n (.unaryop op a)) = unF M op (toOpt (Evaluator.visit M n a)) := by
  simp only [Evaluator.visit, unF]
  cases Evaluator.visit M n a with
  | error e => rfl
  | ok x => simp only [toOpt]; rw [dispatch_UnOp_indep M n 0]

theorem outcome_binop (M n : Int) (op : BinOp) (a b : Expr) :
    toOpt (Evaluator.visit M n (.binop a op b)) =
      binF M op (toOpt (Evaluator.visit M n a)) (toOpt (Evaluator.visit M n b)) := by
  simp only [Evaluator.visit, binF]
  cases Evaluator.visit M n a with
  | error e => rfl
  | ok x =>
    cases Evaluator.visit M n b with
    | error e => rfl
    | ok y => simp only [toOpt]; rw [dispatch_BinOp_indep M n 0]

theorem outcome_compare (M n : Int) (op : CmpOp) (a b : Expr) :
    toOpt (Evaluator.visit M n (.compare a op b)) =
      cmpF M op (toOpt (Evaluator.visit M n a)) (toOpt (Evaluator.visit M n b)) := by
  simp only [Evaluator.visit, cmpF]
  cases Evaluator.visit M n a with
  | error e => rfl
  | ok x =>
    cases Evaluator.visit M n b with
    | error e => rfl
    | ok y => simp only [toOpt]; rw [dispatch_CmpOp_indep M n 0]

/-- lazy `&&` / `||`: still a function of the two outcomes -/
def boolF (op : BoolOp) (oa ob : Option Int) : Option Int :=
  match op, oa with
  | _, none => none
  | .and, some x => if x = 0 then some 0 else (match ob with | none => none | some y => if y = 0 then some 0 else some 1)
  | .or, some x => if x ≠ 0 then some 1 else (match ob with | none => none | some y => if y ≠ 0 then some 1 else some 0)

theorem outcome_boolop (M n : Int) (op : BoolOp) (a b : Expr) :
    toOpt (Evaluator.visit M n (.boolop op a b)) =
      boolF op (toOpt (Evaluator.visit M n a)) (toOpt (Evaluator.visit M n b)) := by
  cases op <;> simp only [Evaluator.visit, boolF] <;>
    cases Evaluator.visit M n a <;> cases Evaluator.visit M n b <;> simp only [toOpt] <;>
    (repeat' split) <;> simp_all

def ifF (oc oa ob : Option Int) : Option Int :=
  match oc with
  | none => none
  | some t => if t ≠ 0 then oa else ob

theorem outcome_ifexp (M n : Int) (c a b : Expr) :
    toOpt (Evaluator.visit M n (.ifexp c a b)) =
      ifF (toOpt (Evaluator.visit M n c)) (toOpt (Evaluator.visit M n a)) (toOpt (Evaluator.visit M n b)) := by
  simp only [Evaluator.visit, ifF]
  cases Evaluator.visit M n c with
  | error e => rfl
  | ok t =>
    by_cases ht : t = 0 <;> simp [toOpt, ht]


/-! ## main induction -/

def PSound (M : Int) (r : Option (Int × Int)) (e : Expr) : Prop :=
  match r with
  | some p => Periodic M (fun n => toOpt (Evaluator.visit M n e)) p.1 p.2
  | none => True

theorem periodic_map1 {M : Int} {fa f : Int → Option Int} {G : Option Int → Option Int}
    (hf : ∀ n, f n = G (fa n)) {O P : Int} (ha : Periodic M fa O P) : Periodic M f O P := by
  refine ⟨ha.1, ha.2.1, ?_⟩
  intro n hn hlt
  rw [hf n, hf (n + P), ha.2.2 n hn hlt]

/-- two children combined through `lcm`, as in `_visit_binop`/`_visit_compare` -/
theorem combine_lcm2 {M : Int} {fa fb f : Int → Option Int} {F : Option Int → Option Int → Option Int}
    (hf : ∀ n, f n = F (fa n) (fb n)) {xo xp yo yp : Int}
    (ha : Periodic M fa xo xp) (hb : Periodic M fb yo yp) :
    ∃ rp, lcm xp [yp] = .ok rp ∧ 0 < rp ∧ Periodic M f (max xo yo) rp := by
  obtain ⟨rp, hl, hpos, hdx, hdy⟩ := lcm_spec [yp] xp ha.2.1 (by intro y hy; simp at hy; subst hy; exact hb.2.1)
  refine ⟨rp, hl, hpos, ?_⟩
  have hdy' : yp ∣ rp := hdy yp (by simp)
  exact periodic_combine2 hf (periodic_weaken ha (by omega) hpos hdx) (periodic_weaken hb (by omega) hpos hdy')

theorem period_main {M : Int} (e : Expr) :
    ∃ r, Period.visit M e = .ok r ∧ PSound M r e := by
  induction e with
  | num k =>
    simp only [Period.visit]
    split
    · exact ⟨_, rfl, trivial⟩
    · refine ⟨_, rfl, ?_⟩
      refine ⟨Int.le_refl 0, by decide, ?_⟩
      intro n _ _
      simp only [Evaluator.visit]
      rfl
  | name => exact ⟨_, rfl, trivial⟩
  | unaryop op a iha =>
    obtain ⟨ra, ha, sa⟩ := iha
    simp only [Period.visit, ha]
    refine ⟨_, rfl, ?_⟩
    cases ra with
    | none => trivial
    | some p =>
      exact periodic_map1 (G := unF M op) (fun n => outcome_unaryop M n op a) sa
  | binop a op b iha ihb =>
    obtain ⟨ra, ha, sa⟩ := iha
    obtain ⟨rb, hb, sb⟩ := ihb
    simp only [Period.visit, ha, hb]
    by_cases hc : op = BinOp.mod ∧ a.isName = true ∧ b.isNum = true
    · -- `n % C`
      obtain ⟨hop, hna, hnb⟩ := hc
      subst hop
      cases a <;> simp only [Expr.isName] at hna <;> try cases hna
      cases b <;> simp only [Expr.isNum] at hnb <;> try cases hnb
      rename_i C
      simp only [Expr.isName, Expr.isNum, and_self, decide_true, ↓reduceIte, Expr.attrN]
      split
      · exact ⟨_, rfl, trivial⟩
      · rename_i hC
        refine ⟨_, rfl, ?_⟩
        refine ⟨Int.le_refl 0, by simp only; omega, ?_⟩
        intro n hn hlt
        simp only at hn hlt
        have hC0 : 0 < C := by omega
        simp only [Evaluator.visit, Evaluator.dispatch_BinOp, Evaluator._visit_mod]
        rw [check_overflow_of (n := n) (k := n) hn (by omega),
            check_overflow_of (n := n + C) (k := n + C) (by omega) hlt,
            check_overflow_of (n := n) (k := C) (by omega) (by omega),
            check_overflow_of (n := n + C) (k := C) (by omega) (by omega)]
        simp only [mod_ok hC0]
        rw [Int.add_emod_right]
    · simp only [hc, decide_false, Bool.false_eq_true, ↓reduceIte]
      cases ra with
      | none => exact ⟨_, rfl, trivial⟩
      | some x =>
        cases rb with
        | none => exact ⟨_, rfl, trivial⟩
        | some y =>
          obtain ⟨rp, hl, hpos, hper⟩ := combine_lcm2 (F := binF M op) (fun n => outcome_binop M n op a b) sa sb
          simp only [hl]
          split
          · exact ⟨_, rfl, trivial⟩
          · exact ⟨_, rfl, hper⟩
  | compare a op b iha ihb =>
    obtain ⟨ra, ha, sa⟩ := iha
    obtain ⟨rb, hb, sb⟩ := ihb
    simp only [Period.visit, ha, hb]
    by_cases hc : a.isName = true ∧ b.isNum = true
    · -- `n <cmp> C`
      obtain ⟨hna, hnb⟩ := hc
      cases a <;> simp only [Expr.isName] at hna <;> try cases hna
      cases b <;> simp only [Expr.isNum] at hnb <;> try cases hnb
      rename_i C
      simp only [Expr.isName, Expr.isNum, and_self, decide_true, ↓reduceIte, Expr.attrN]
      split
      · exact ⟨_, rfl, trivial⟩
      · rename_i hC
        have hkey : ∀ (n O : Int), 0 ≤ O → (op = CmpOp.lt ∨ op = CmpOp.gte → C ≤ O) →
            (¬ (op = CmpOp.lt ∨ op = CmpOp.gte) → C + 1 ≤ O) → O ≤ n → n + 1 < M →
            toOpt (Evaluator.visit M n (.compare .name op (.num C))) =
              toOpt (Evaluator.visit M (n + 1) (.compare .name op (.num C))) := by
          intro n O hO h1 h2 hn hlt
          simp only [Evaluator.visit]
          rw [check_overflow_of (n := n) (k := n) (by omega) (by omega),
              check_overflow_of (n := n + 1) (k := n + 1) (by omega) hlt,
              check_overflow_of (n := n) (k := C) (by omega) (by omega),
              check_overflow_of (n := n + 1) (k := C) (by omega) (by omega)]
          cases op <;> simp only [Evaluator.dispatch_CmpOp, Evaluator._visit_eq, Evaluator._visit_noteq,
            Evaluator._visit_lt, Evaluator._visit_lte, Evaluator._visit_gt, Evaluator._visit_gte, toOpt] <;>
            simp at h1 h2 <;> congr 2 <;> simp <;> omega
        split
        · rename_i hop
          refine ⟨_, rfl, ?_⟩
          refine ⟨by simp only; omega, by simp only; omega, ?_⟩
          intro n hn hlt
          exact hkey n C (by omega) (fun _ => Int.le_refl C) (fun h => absurd hop h) hn hlt
        · rename_i hop
          split
          · exact ⟨_, rfl, trivial⟩
          · refine ⟨_, rfl, ?_⟩
            refine ⟨by simp only; omega, by simp only; omega, ?_⟩
            intro n hn hlt
            exact hkey n (C + 1) (by omega) (fun h => absurd h hop) (fun _ => Int.le_refl _) hn hlt
    · simp only [hc, decide_false, Bool.false_eq_true, ↓reduceIte]
      cases ra with
      | none => exact ⟨_, rfl, trivial⟩
      | some x =>
        cases rb with
        | none => exact ⟨_, rfl, trivial⟩
        | some y =>
          obtain ⟨rp, hl, hpos, hper⟩ := combine_lcm2 (F := cmpF M op) (fun n => outcome_compare M n op a b) sa sb
          simp only [hl]
          split
          · exact ⟨_, rfl, trivial⟩
          · exact ⟨_, rfl, hper⟩
  | boolop op a b iha ihb =>
    obtain ⟨ra, ha, sa⟩ := iha
    obtain ⟨rb, hb, sb⟩ := ihb
    simp only [Period.visit, ha, hb]
    cases ra with
    | none => exact ⟨_, rfl, trivial⟩
    | some x =>
      obtain ⟨t4, hl4, hpos4, _, hd4⟩ := lcm_spec [x.2] 1 (by decide) (by intro y hy; simp at hy; subst hy; exact sa.2.1)
      simp only [hl4]
      split
      · exact ⟨_, rfl, trivial⟩
      · cases rb with
        | none => exact ⟨_, rfl, trivial⟩
        | some y =>
          obtain ⟨t7, hl7, hpos7, hd7a, hd7⟩ := lcm_spec [y.2] t4 hpos4 (by intro z hz; simp at hz; subst hz; exact sb.2.1)
          simp only [hl7]
          split
          · exact ⟨_, rfl, trivial⟩
          · refine ⟨_, rfl, ?_⟩
            have hxa : x.2 ∣ t7 := Int.dvd_trans (hd4 x.2 (by simp)) hd7a
            have hyb : y.2 ∣ t7 := hd7 y.2 (by simp)
            have h1 := sa.1
            have h2 := sb.1
            exact periodic_combine2 (F := boolF op) (fun n => outcome_boolop M n op a b)
              (periodic_weaken sa (by simp only; omega) hpos7 hxa)
              (periodic_weaken sb (by simp only; omega) hpos7 hyb)
  | ifexp c a b ihc iha ihb =>
    obtain ⟨rc, hc, sc⟩ := ihc
    obtain ⟨ra, ha, sa⟩ := iha
    obtain ⟨rb, hb, sb⟩ := ihb
    simp only [Period.visit, hc, ha, hb]
    cases rc with
    | none => exact ⟨_, rfl, trivial⟩
    | some t =>
      cases ra with
      | none => exact ⟨_, rfl, trivial⟩
      | some x =>
        cases rb with
        | none => exact ⟨_, rfl, trivial⟩
        | some y =>
          obtain ⟨t7, hl7, hpos7, hdt, hd7⟩ := lcm_spec [x.2, y.2] t.2 sc.2.1
            (by intro z hz; simp at hz; rcases hz with h | h <;> subst h; exact sa.2.1; exact sb.2.1)
          simp only [hl7]
          split
          · exact ⟨_, rfl, trivial⟩
          · refine ⟨_, rfl, ?_⟩
            have hxa : x.2 ∣ t7 := hd7 x.2 (by simp)
            have hyb : y.2 ∣ t7 := hd7 y.2 (by simp)
            have pc := periodic_weaken (O' := max (max t.1 x.1) y.1) sc (by omega) hpos7 hdt
            have pa := periodic_weaken (O' := max (max t.1 x.1) y.1) sa (by omega) hpos7 hxa
            have pb := periodic_weaken (O' := max (max t.1 x.1) y.1) sb (by omega) hpos7 hyb
            refine ⟨pc.1, pc.2.1, ?_⟩
            intro n hn hlt
            simp only at hn hlt ⊢
            have e1 := pc.2.2 n hn hlt
            have e2 := pa.2.2 n hn hlt
            have e3 := pb.2.2 n hn hlt
            simp only at e1 e2 e3
            rw [outcome_ifexp, outcome_ifexp, e1, e2, e3]

end I18n.Plural
