import I18n.Lemmas.HdrCType
import I18n.Lemmas.HdrNoCrash
/-
C15 lemmas, part 14: declarative readings of the two remaining scanners — `find_unusual_characters` (which characters of a
text are unusual, and that they are reported once each in code-point order) and the regex search of `check_comments`
(a line is boilerplate iff at some position one of the patterns matches, each pattern spelled out).
-/
set_option linter.unusedSimpArgs false
namespace I18n.Hdr
open I18n.Spec.HeaderRules I18n.Generated

/-- the character `c`, standing between `pre` and `post`, is unusual: a C0 control other than TAB, LF, ESC / DEL / a C1
    control / U+FEFF / U+FFFD / U+FFFE / U+FFFF (`unusualAlways`), an ESC that does not start a CSI sequence, or an inverted
    question mark directly after a word character -/
def UnusualAt (db : UDB) (prev : Option Char) (pre : Str) (c : Char) (post : Str) : Prop :=
  inRanges HeaderFields.unusualAlways c = true
  ∨ (c.toNat = HeaderFields.unusualUnlessBracket ∧ post.head? ≠ some '[')
  ∨ (c.toNat = HeaderFields.unusualAfterWord ∧ ∃ p, lastOr prev pre = some p ∧ db.isWord p = true)

theorem mem_unusualAux (db : UDB) (prev : Option Char) (s : Str) (c : Char) :
    c ∈ unusualAux db prev s ↔ ∃ pre post, s = pre ++ c :: post ∧ UnusualAt db prev pre c post := by
  induction s generalizing prev with
  | nil => simp [unusualAux]
  | cons a rest ih =>
    have step : ∀ (w : Bool), (w = true ↔ ∃ p, prev = some p ∧ db.isWord p = true) →
        (c ∈ (if (inRanges HeaderFields.unusualAlways a
            || (a.toNat = HeaderFields.unusualUnlessBracket && rest.head? != some '[')
            || (a.toNat = HeaderFields.unusualAfterWord && w)) = true
          then a :: unusualAux db (some a) rest else unusualAux db (some a) rest)
        ↔ ∃ pre post, a :: rest = pre ++ c :: post ∧ UnusualAt db prev pre c post) := by
      intro w hw
      have hhere : (inRanges HeaderFields.unusualAlways a
            || (a.toNat = HeaderFields.unusualUnlessBracket && rest.head? != some '[')
            || (a.toNat = HeaderFields.unusualAfterWord && w)) = true ↔ UnusualAt db prev [] a rest := by
        unfold UnusualAt lastOr
        simp only [Bool.or_eq_true, Bool.and_eq_true, decide_eq_true_eq, bne_iff_ne, ne_eq, List.getLast?_nil, hw, or_assoc]
      have htail : (c ∈ unusualAux db (some a) rest) ↔ ∃ pre post, a :: rest = (a :: pre) ++ c :: post ∧ UnusualAt db prev (a :: pre) c post := by
        rw [ih (some a)]
        constructor
        · rintro ⟨pre, post, e, hu⟩
          refine ⟨pre, post, by rw [e]; rfl, ?_⟩
          unfold UnusualAt at hu ⊢; rw [lastOr_cons]; exact hu
        · rintro ⟨pre, post, e, hu⟩
          refine ⟨pre, post, by simpa using e, ?_⟩
          unfold UnusualAt at hu ⊢; rw [lastOr_cons] at hu; exact hu
      constructor
      · intro hc
        split at hc
        · rename_i hit
          rcases List.mem_cons.1 hc with rfl | hc
          · exact ⟨[], rest, rfl, hhere.1 hit⟩
          · obtain ⟨pre, post, e, hu⟩ := htail.1 hc
            exact ⟨a :: pre, post, e, hu⟩
        · obtain ⟨pre, post, e, hu⟩ := htail.1 hc
          exact ⟨a :: pre, post, e, hu⟩
      · rintro ⟨pre, post, e, hu⟩
        cases pre with
        | nil =>
          simp only [List.nil_append, List.cons.injEq] at e
          obtain ⟨rfl, rfl⟩ := e
          rw [if_pos (hhere.2 hu)]; simp
        | cons b pre' =>
          simp only [List.cons_append, List.cons.injEq] at e
          obtain ⟨rfl, e2⟩ := e
          have : c ∈ unusualAux db (some a) rest := htail.2 ⟨pre', post, by rw [e2]; rfl, hu⟩
          split
          · exact List.mem_cons_of_mem _ this
          · exact this
    unfold unusualAux
    cases prev with
    | none => exact step false (by simp)
    | some p => exact step (db.isWord p) (by simp)

/-- which characters `find_unusual_characters` reports -/
def Unusual (db : UDB) (text : Str) (c : Char) : Prop :=
  ∃ pre post, text = pre ++ c :: post ∧ UnusualAt db none pre c post

theorem insertC_sorted (x : Char) (l : List Char) (h : l.Pairwise (fun a b => a.toNat < b.toNat)) :
    (insertC x l).Pairwise (fun a b => a.toNat < b.toNat) := by
  induction l with
  | nil => simp [insertC]
  | cons a r ih =>
    unfold insertC
    have h' := List.pairwise_cons.1 h
    split
    · exact h
    · split
      · rename_i hne hlt
        refine List.pairwise_cons.2 ⟨?_, h⟩
        intro b hb
        rcases List.mem_cons.1 hb with rfl | hb
        · exact hlt
        · exact Nat.lt_trans hlt (h'.1 b hb)
      · rename_i hne hnlt
        refine List.pairwise_cons.2 ⟨?_, ih h'.2⟩
        intro b hb
        rcases (mem_insertC x b r).1 hb with rfl | hb
        · have : a.toNat ≠ b.toNat := fun e => hne (Char.toNat_inj.1 e).symm
          omega
        · exact h'.1 b hb

theorem sortedChars_sorted (l : List Char) : (sortedChars l).Pairwise (fun a b => a.toNat < b.toNat) := by
  induction l with
  | nil => simp [sortedChars]
  | cons a r ih =>
    have : sortedChars (a :: r) = insertC a (sortedChars r) := rfl
    rw [this]; exact insertC_sorted a _ ih

/-! ### `check_comments` -/

theorem anyPos_iff (p : Option Char → Str → Bool) (prev : Option Char) (s : Str) :
    anyPos p prev s = true ↔ ∃ pre rest, s = pre ++ rest ∧ p (lastOr prev pre) rest = true := by
  induction s generalizing prev with
  | nil =>
    unfold anyPos
    constructor
    · intro h; exact ⟨[], [], rfl, by simpa [lastOr] using h⟩
    · rintro ⟨pre, rest, e, h⟩
      have : pre = [] ∧ rest = [] := by simpa using e.symm
      obtain ⟨rfl, rfl⟩ := this
      simpa [lastOr] using h
  | cons c cs ih =>
    unfold anyPos
    rw [Bool.or_eq_true, ih]
    constructor
    · rintro (h | ⟨pre, rest, e, h⟩)
      · exact ⟨[], c :: cs, rfl, by simpa [lastOr] using h⟩
      · exact ⟨c :: pre, rest, by rw [e]; rfl, by rw [lastOr_cons]; exact h⟩
    · rintro ⟨pre, rest, e, h⟩
      cases pre with
      | nil =>
        left
        simp only [List.nil_append] at e
        subst e; simpa [lastOr] using h
      | cons b pre' =>
        simp only [List.cons_append, List.cons.injEq] at e
        obtain ⟨rfl, e2⟩ := e
        right
        exact ⟨pre', rest, e2, by rw [lastOr_cons] at h; exact h⟩

/-- `\b<lit>\b` matches at this position -/
theorem wordLit_iff (db : UDB) (l : Str) (prev : Option Char) (rest : Str) :
    wordLit db l prev rest = true ↔
      ∃ after, rest = l ++ after ∧ boundary db prev l.head? = true ∧ boundary db l.getLast? after.head? = true := by
  unfold wordLit
  cases hs : stripPrefix l rest with
  | none =>
    simp only [false_iff, Bool.false_eq_true]
    rintro ⟨after, e, _⟩
    rw [(stripPrefix_eq_some l rest after).2 e] at hs; cases hs
  | some after =>
    have e := (stripPrefix_eq_some l rest after).1 hs
    simp only [Bool.and_eq_true]
    constructor
    · intro h; exact ⟨after, e, h.1, h.2⟩
    · rintro ⟨after', e', h1, h2⟩
      have : after' = after := List.append_cancel_left (e'.symm.trans e)
      subst this; exact ⟨h1, h2⟩

theorem litThenBoundary_iff (db : UDB) (l : Str) (rest : Str) :
    litThenBoundary db l rest = true ↔ ∃ after, rest = l ++ after ∧ boundary db l.getLast? after.head? = true := by
  unfold litThenBoundary
  cases hs : stripPrefix l rest with
  | none =>
    simp only [false_iff, Bool.false_eq_true]
    rintro ⟨after, e, _⟩
    rw [(stripPrefix_eq_some l rest after).2 e] at hs; cases hs
  | some after =>
    have e := (stripPrefix_eq_some l rest after).1 hs
    constructor
    · intro h; exact ⟨after, e, h⟩
    · rintro ⟨after', e', h⟩
      have : after' = after := List.append_cancel_left (e'.symm.trans e)
      subst this; exact h

/-- the tail of `\S+ YEAR\b` after the first `\S`: some further non-space characters, then ` YEAR` and a word boundary -/
theorem copyrightTail_iff (db : UDB) (s : Str) :
    copyrightTail db s = true ↔
      ∃ run after, s = run ++ " YEAR".toList ++ after ∧ (∀ c ∈ run, db.isSpace c = false) ∧
        boundary db (some 'R') after.head? = true := by
  induction s with
  | nil =>
    simp only [copyrightTail, Bool.false_eq_true, false_iff]
    rintro ⟨run, after, e, _⟩
    have := congrArg List.length e
    simp at this
  | cons c cs ih =>
    unfold copyrightTail
    rw [Bool.or_eq_true, Bool.and_eq_true, litThenBoundary_iff, ih]
    have hlast : (" YEAR".toList).getLast? = some 'R' := by decide
    constructor
    · rintro (⟨after, e, hb⟩ | ⟨hc, run, after, e, hr, hb⟩)
      · exact ⟨[], after, by simpa using e, by simp, by rw [hlast] at hb; exact hb⟩
      · refine ⟨c :: run, after, by rw [e]; simp, ?_, hb⟩
        intro d hd
        rcases List.mem_cons.1 hd with rfl | hd
        · simpa using hc
        · exact hr d hd
    · rintro ⟨run, after, e, hr, hb⟩
      cases run with
      | nil => left; exact ⟨after, by simpa using e, by rw [hlast]; exact hb⟩
      | cons d run' =>
        simp only [List.cons_append, List.cons.injEq] at e
        obtain ⟨rfl, e2⟩ := e
        right
        exact ⟨by simpa using hr c (by simp), run', after, e2, fun x hx => hr x (by simp [hx]), hb⟩

/-- `\bCopyright \S+ YEAR\b` matches at this position -/
theorem copyrightYear_iff (db : UDB) (prev : Option Char) (rest : Str) :
    copyrightYear db prev rest = true ↔
      ∃ run after, rest = "Copyright ".toList ++ run ++ " YEAR".toList ++ after ∧ run ≠ [] ∧ (∀ c ∈ run, db.isSpace c = false) ∧
        boundary db prev (some 'C') = true ∧ boundary db (some 'R') after.head? = true := by
  unfold copyrightYear
  cases hs : stripPrefix "Copyright ".toList rest with
  | none =>
    simp only [false_iff, Bool.false_eq_true]
    rintro ⟨run, after, e, _⟩
    have : rest = "Copyright ".toList ++ (run ++ " YEAR".toList ++ after) := by rw [e]; simp
    rw [(stripPrefix_eq_some _ rest _).2 this] at hs; cases hs
  | some r =>
    have e := (stripPrefix_eq_some _ _ _).1 hs
    cases r with
    | nil =>
      simp only [false_iff, Bool.false_eq_true]
      rintro ⟨run, after, e', hne, _⟩
      rw [e] at e'
      have := congrArg List.length e'
      simp at this
    | cons c cs =>
      simp only [Bool.and_eq_true, Bool.not_eq_true', copyrightTail_iff]
      constructor
      · rintro ⟨⟨hb, hc⟩, run, after, e2, hr, hb2⟩
        refine ⟨c :: run, after, by rw [e, e2]; simp, by simp, ?_, hb, hb2⟩
        intro d hd
        rcases List.mem_cons.1 hd with rfl | hd
        · exact hc
        · exact hr d hd
      · rintro ⟨run, after, e', hne, hr, hb, hb2⟩
        have e3 : c :: cs = run ++ " YEAR".toList ++ after := by
          have : "Copyright ".toList ++ (c :: cs) = "Copyright ".toList ++ (run ++ " YEAR".toList ++ after) := by
            rw [← e, e']; simp
          exact List.append_cancel_left this
        cases run with
        | nil => exact absurd rfl hne
        | cons d run' =>
          simp only [List.cons_append, List.cons.injEq] at e3
          obtain ⟨rfl, e4⟩ := e3
          exact ⟨⟨hb, hr c (by simp)⟩, run', after, e4, fun x hx => hr x (by simp [hx]), hb2⟩

end I18n.Hdr
