import I18n.Model.Plural
import I18n.Model.PluralParse
import I18n.Driver.Util
/- Driver for the plural-expression models: prefix (Polish) encoding of `Expr`. -/
namespace I18n.Driver.Plural
open I18n I18n.Plural

/-- tokens: `N`, `I<int>`, `!`, `+ - * / %`, `== != < <= > >=`, `&& ||`, `?` -/
partial def parseExpr : List String → Option (Expr × List String)
  | [] => none
  | t :: rest =>
    let bin (op : BinOp) := do
      let (a, r1) ← parseExpr rest
      let (b, r2) ← parseExpr r1
      pure (Expr.binop a op b, r2)
    let cmp (op : CmpOp) := do
      let (a, r1) ← parseExpr rest
      let (b, r2) ← parseExpr r1
      pure (Expr.compare a op b, r2)
    let bool (op : BoolOp) := do
      let (a, r1) ← parseExpr rest
      let (b, r2) ← parseExpr r1
      pure (Expr.boolop op a b, r2)
    match t with
    | "N" => some (.name, rest)
    | "!" => do
      let (a, r1) ← parseExpr rest
      pure (.unaryop .not a, r1)
    | "+" => bin .add | "-" => bin .sub | "*" => bin .mult | "/" => bin .div | "%" => bin .mod
    | "==" => cmp .eq | "!=" => cmp .noteq | "<" => cmp .lt | "<=" => cmp .lte | ">" => cmp .gt | ">=" => cmp .gte
    | "&&" => bool .and | "||" => bool .or
    | "?" => do
      let (c, r1) ← parseExpr rest
      let (a, r2) ← parseExpr r1
      let (b, r3) ← parseExpr r2
      pure (.ifexp c a b, r3)
    | _ =>
      if t.startsWith "I" then some (.num (Driver.parseInt (t.drop 1).toString), rest) else none

def showExpr : Expr → String
  | .num n => s!"I{n}"
  | .name => "N"
  | .unaryop .not a => s!"! {showExpr a}"
  | .binop a op b =>
    let o := match op with | .add => "+" | .sub => "-" | .mult => "*" | .div => "/" | .mod => "%"
    s!"{o} {showExpr a} {showExpr b}"
  | .compare a op b =>
    let o := match op with | .eq => "==" | .noteq => "!=" | .lt => "<" | .lte => "<=" | .gt => ">" | .gte => ">="
    s!"{o} {showExpr a} {showExpr b}"
  | .boolop op a b =>
    let o := match op with | .and => "&&" | .or => "||"
    s!"{o} {showExpr a} {showExpr b}"
  | .ifexp c a b => s!"? {showExpr c} {showExpr a} {showExpr b}"

def showOptPair : Except Py.Exc (Option (Int × Int)) → String
  | .ok none => "ok none"
  | .ok (some (a, b)) => s!"ok {a} {b}"
  | .error e => s!"err {e.name}"

def showInt : Except Py.Exc Int → String
  | .ok v => s!"ok {v}"
  | .error e => s!"err {e.name}"

def handle (op : String) (args : List String) : String :=
  match op, args with
  | "eval", bits :: n :: e =>
    match parseExpr e with
    | some (e, []) => showInt (evalAt bits.toNat! (Driver.parseInt n) e)
    | _ => "bad-op"
  | "codomain", bits :: e =>
    match parseExpr e with
    | some (e, []) => showOptPair (codomain bits.toNat! e)
    | _ => "bad-op"
  | "period", bits :: e =>
    match parseExpr e with
    | some (e, []) => showOptPair (period bits.toNat! e)
    | _ => "bad-op"
  | "parse", [h] =>
    match I18n.PluralParse.parse (Driver.unhexChars h) with
    | .ok e => s!"ok {showExpr e}"
    | .syntaxError => "err syntax"
    | .valueError => "err ValueError"
  | "gcd", [x, y] => showInt (I18n.Generated.Intexpr.gcd (Driver.parseInt x) (Driver.parseInt y))
  | "lcm", x :: ys => showInt (I18n.Generated.Intexpr.lcm (Driver.parseInt x) (ys.map Driver.parseInt))
  | _, _ => "bad-op"

end I18n.Driver.Plural
