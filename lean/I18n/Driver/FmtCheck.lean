import I18n.Model.FmtCheck
import I18n.Model.FmtCheckGen
import I18n.Model.FmtMsgGen
import I18n.Driver.Util
/- Driver for the message-format argument checks (C14).

   fmtcheck run <tmpl> <enc> <pre> <fuzzy> <rmin> <rmax|inf> <pfx> <repr> <nfmt> { <name> <msgid> <plural|N> <msgstr> <k> { <i> <str> }* }*
     <pre>  = N | E | <fi>:<i>,<i>…/<fi>:… | H:<hex Plural-Forms value>[,<hex>…]   (H: run the check_plurals model)
     <str>  = hex code points (c, python, formats without checker)
            | <truthy>|E | <truthy>|X:<exception> | <truthy>|O:<nitems>:<args>   (brace kinds)
     <args> = - | <key>=<ts>,<ts>…;…  with <key> = i<n> | s<hex>, <ts> ⊆ "fis" or 0    (python-brace)
            | - | <hex>;<hex>…                                                          (perl-brace)
   fmtcheck lastint <hex c-format string> <n>
-/
namespace I18n.Driver.FmtCheck
open I18n I18n.FmtCheck I18n.FmtSig

def showExtra : Extra → String
  | .str s => "s:" ++ Driver.hexChars s
  | .safe s => "S:" ++ Driver.hexChars s
  | .int n => s!"i:{n}"

def showTag (t : TagCall) : String :=
  t.name ++ "(" ++ ",".intercalate (t.extras.map showExtra) ++ ")"

def showResult : Except Py.Exc (List TagCall) → String
  | .error e => s!"err {e.name}"
  | .ok ts => "ok " ++ ";".intercalate (ts.map showTag)

def excOfName (s : String) : Py.Exc :=
  match s with
  | "ZeroDivisionError" => .ZeroDivision | "OverflowError" => .Overflow | "ValueError" => .ValueError
  | "TypeError" => .TypeError | "IndexError" => .IndexError | "KeyError" => .KeyError
  | "AttributeError" => .AttributeError | "UnboundLocalError" => .UnboundLocal | "AssertionError" => .AssertionError
  | "RecursionError" => .RecursionError | "UnicodeDecodeError" => .UnicodeDecodeError
  | "UnicodeEncodeError" => .UnicodeEncodeError | _ => .NotImplemented

def parsePre (tmpl : Bool) (t : String) : Option CheckPlurals.Preimage :=
  if t == "N" then none
  else if t == "E" then some []
  else if t.startsWith "H:" then
    preimageOfHeader tmpl (((t.drop 2).toString.splitOn ",").map Driver.unhexChars)
  else
    some ((t.splitOn "/").map fun kv =>
      match kv.splitOn ":" with
      | [k, v] => (Driver.parseInt k, if v.isEmpty then [] else (v.splitOn ",").map String.toNat!)
      | _ => (0, []))

def parseTySet (t : String) : TySet := ⟨t.contains 'f', t.contains 'i', t.contains 's'⟩

def parseBKey (t : String) : BKey :=
  if t.startsWith "i" then .idx (t.drop 1).toString.toNat! else .name (Driver.unhexChars (t.drop 1).toString)

def parsePyBraceArgs (t : String) : List (BKey × List TySet) :=
  if t == "-" then [] else
    (t.splitOn ";").map fun kv =>
      match kv.splitOn "=" with
      | [k, v] => (parseBKey k, if v.isEmpty then [] else (v.splitOn ",").map parseTySet)
      | _ => (.idx 0, [])

def parsePerlArgs (t : String) : List (List Char) :=
  if t == "-" then [] else (t.splitOn ";").map Driver.unhexChars

def parseBrace {F : Type} (mk : Nat → String → F) (t : String) : BraceStr F :=
  match t.splitOn "|" with
  | [tr, o] =>
    let truthy := tr == "1"
    if o == "E" then ⟨truthy, .own⟩
    else if o.startsWith "X:" then ⟨truthy, .crash (excOfName (o.drop 2).toString)⟩
    else
      match o.splitOn ":" with
      | [_, n, a] => ⟨truthy, .ok (mk n.toNat! a)⟩
      | _ => ⟨truthy, .own⟩
  | _ => ⟨false, .own⟩

def mkMsg {σ : Type} (conv : String → σ) (pfx repr : Extra) (msgid plural msgstr : String) (forms : List (Nat × String)) : Msg σ :=
  { msgid := conv msgid, msgidPlural := if plural == "N" then none else some (conv plural), msgstr := conv msgstr,
    msgstrPlural := forms.map fun p => (p.1, conv p.2), pfx := pfx, repr := repr }

partial def takeForms : Nat → List String → List (Nat × String) × List String
  | 0, rest => ([], rest)
  | k + 1, i :: s :: rest => let (fs, r) := takeForms k rest; ((i.toNat!, s) :: fs, r)
  | _, rest => ([], rest)

partial def parseFormats (raw : Bool) (pfx repr : Extra) : Nat → List String → List (List Char × KMsg)
  | 0, _ => []
  | n + 1, name :: msgid :: plural :: msgstr :: k :: rest =>
    let (forms, rest') := takeForms k.toNat! rest
    let nm := Driver.unhexChars name
    let km : KMsg :=
      if nm == "c".toList then .c (mkMsg Driver.unhexChars pfx repr msgid plural msgstr forms)
      else if nm == "python".toList then .python (mkMsg Driver.unhexChars pfx repr msgid plural msgstr forms)
      else if nm == "python-brace".toList && raw then .pyBraceStr (mkMsg Driver.unhexChars pfx repr msgid plural msgstr forms)
      else if nm == "perl-brace".toList && raw then .perlBraceStr (mkMsg Driver.unhexChars pfx repr msgid plural msgstr forms)
      else if nm == "python-brace".toList then
        .pyBrace (mkMsg (parseBrace fun n a => (⟨parsePyBraceArgs a, n⟩ : PyBraceSig)) pfx repr msgid plural msgstr forms)
      else if nm == "perl-brace".toList then
        .perlBrace (mkMsg (parseBrace fun n a => (⟨parsePerlArgs a, n⟩ : PerlBraceSig)) pfx repr msgid plural msgstr forms)
      else .other
    (nm, km) :: parseFormats raw pfx repr n rest'
  | _, _ => []

def handle (op : String) (args : List String) : String :=
  match op, args with
  | "run", tmpl :: enc :: pre :: fuzzy :: rmin :: rmax :: pfx :: repr :: nfmt :: rest =>
    let ctx : Ctx := ⟨tmpl == "1", enc == "1", parsePre (tmpl == "1") pre⟩
    let fl : Flags := ⟨fuzzy == "1", rmin.toNat!, if rmax == "inf" then none else some rmax.toNat!⟩
    let formats := parseFormats false (.safe (Driver.unhexChars pfx)) (.safe (Driver.unhexChars repr)) nfmt.toNat! rest
    showResult (checkFormats ctx fl formats)
  -- `runs`: every string raw (hex code points); python-brace / perl-brace strings are parsed by the models of C13
  | "runs", tmpl :: enc :: pre :: fuzzy :: rmin :: rmax :: pfx :: repr :: nfmt :: rest =>
    let ctx : Ctx := ⟨tmpl == "1", enc == "1", parsePre (tmpl == "1") pre⟩
    let fl : Flags := ⟨fuzzy == "1", rmin.toNat!, if rmax == "inf" then none else some rmax.toNat!⟩
    let formats := parseFormats true (.safe (Driver.unhexChars pfx)) (.safe (Driver.unhexChars repr)) nfmt.toNat! rest
    showResult (checkFormats ctx fl formats)
  -- `grun` / `gruns` / `glastint`: the same over the definitions REGENERATED from the source (Generated.FmtArgs, tools/translate/fmtargs2lean.py)
  | "grun", tmpl :: enc :: pre :: fuzzy :: rmin :: rmax :: pfx :: repr :: nfmt :: rest =>
    let ctx : Ctx := ⟨tmpl == "1", enc == "1", parsePre (tmpl == "1") pre⟩
    let fl : Flags := ⟨fuzzy == "1", rmin.toNat!, if rmax == "inf" then none else some rmax.toNat!⟩
    let formats := parseFormats false (.safe (Driver.unhexChars pfx)) (.safe (Driver.unhexChars repr)) nfmt.toNat! rest
    showResult (Gen.checkFormats ctx fl formats)
  | "gruns", tmpl :: enc :: pre :: fuzzy :: rmin :: rmax :: pfx :: repr :: nfmt :: rest =>
    let ctx : Ctx := ⟨tmpl == "1", enc == "1", parsePre (tmpl == "1") pre⟩
    let fl : Flags := ⟨fuzzy == "1", rmin.toNat!, if rmax == "inf" then none else some rmax.toNat!⟩
    let formats := parseFormats true (.safe (Driver.unhexChars pfx)) (.safe (Driver.unhexChars repr)) nfmt.toNat! rest
    showResult (Gen.checkFormats ctx fl formats)
  -- `mrun` / `mruns`: check_message itself REGENERATED from lib/check/msgformat/__init__.py (Generated.FmtMsg) over the regenerated check_args
  | "mrun", tmpl :: enc :: pre :: fuzzy :: rmin :: rmax :: pfx :: repr :: nfmt :: rest =>
    let ctx : Ctx := ⟨tmpl == "1", enc == "1", parsePre (tmpl == "1") pre⟩
    let fl : Flags := ⟨fuzzy == "1", rmin.toNat!, if rmax == "inf" then none else some rmax.toNat!⟩
    let formats := parseFormats false (.safe (Driver.unhexChars pfx)) (.safe (Driver.unhexChars repr)) nfmt.toNat! rest
    showResult (GenMsg.checkFormats ctx fl formats)
  | "mruns", tmpl :: enc :: pre :: fuzzy :: rmin :: rmax :: pfx :: repr :: nfmt :: rest =>
    let ctx : Ctx := ⟨tmpl == "1", enc == "1", parsePre (tmpl == "1") pre⟩
    let fl : Flags := ⟨fuzzy == "1", rmin.toNat!, if rmax == "inf" then none else some rmax.toNat!⟩
    let formats := parseFormats true (.safe (Driver.unhexChars pfx)) (.safe (Driver.unhexChars repr)) nfmt.toNat! rest
    showResult (GenMsg.checkFormats ctx fl formats)
  | "glastint", [h, n] =>
    match cParse (Driver.unhexChars h) with
    | .ok f =>
      match I18n.Generated.FmtArgs.get_last_integer_conversion f (n.toInt?.getD 0) with
      | .error e => s!"err {e.name}"
      | .ok none => "ok none"
      | .ok (some c) => s!"ok {c}"
    | _ => "err parse"
  | "lastint", [h, n] =>
    match cParse (Driver.unhexChars h) with
    | .ok f =>
      match getLastIntConv f n.toNat! with
      | .error e => s!"err {e.name}"
      | .ok none => "ok none"
      | .ok (some c) => s!"ok {c}"
    | _ => "err parse"
  | "pre", [t] =>
    match parsePre false t with
    | none => "none"
    | some p => "/".intercalate (p.map fun kv => s!"{kv.1}:" ++ ",".intercalate (kv.2.map toString))
  | _, _ => "bad-op"

end I18n.Driver.FmtCheck
