/- Line-protocol helpers for the driver (not part of any proof). -/
namespace I18n.Driver

def hexVal (c : Char) : Nat :=
  if '0' ≤ c ∧ c ≤ '9' then c.toNat - '0'.toNat
  else if 'a' ≤ c ∧ c ≤ 'f' then c.toNat - 'a'.toNat + 10
  else if 'A' ≤ c ∧ c ≤ 'F' then c.toNat - 'A'.toNat + 10
  else 0

/-- hex string → bytes -/
def unhex (s : String) : List UInt8 :=
  let rec go : List Char → List UInt8
    | a :: b :: rest => (UInt8.ofNat (hexVal a * 16 + hexVal b)) :: go rest
    | _ => []
  go s.toList

def hexDigit (n : Nat) : Char :=
  if n < 10 then Char.ofNat ('0'.toNat + n) else Char.ofNat ('a'.toNat + n - 10)

def hexBytes (bs : List UInt8) : String :=
  String.ofList (bs.foldr (fun b acc => hexDigit (b.toNat / 16) :: hexDigit (b.toNat % 16) :: acc) [])

/-- code points as `.`-separated hex (`-` for the empty string) -/
def hexChars (cs : List Char) : String :=
  if cs.isEmpty then "-" else ".".intercalate (cs.map fun c => String.ofList (Nat.toDigits 16 c.toNat))

def unhexChars (s : String) : List Char :=
  if s == "-" then [] else
    (s.splitOn ".").map fun t => Char.ofNat (t.toList.foldl (fun acc c => acc * 16 + hexVal c) 0)

def parseInt (s : String) : Int :=
  match s.toInt? with
  | some v => v
  | none => 0

end I18n.Driver
