import I18n.Model.Mo
import I18n.Generated.MoParser
import I18n.Driver.Util
/- Driver for the MO parser model.
   `mo parse <enc|-> <file-hex|-> <oracle|->`  and  `mo check <file-hex|-> <oracle|->`;
   `mo gparse <enc|-> <file-hex|-> <oracle|->` runs the definition REGENERATED from lib/moparser.py
   (`Generated.MoParser.parse`, tools/translate/mo2lean.py) instead of the hand-written model.
   The oracle lists the encoding names for which `is_ascii_compatible_encoding` is true, each with the
   codec family the harness found for it by asking Python directly: `<name-hex>:<a|l|u|m…>,…`
   (`a` ASCII, `l` ISO-8859-1, `u` UTF-8, `m<256 code points>` a single-byte charmap; names outside the
   oracle are not ASCII-compatible).  The three decoders below are driver code, not part of any proof. -/
namespace I18n.Driver.Mo
open I18n I18n.Mo

inductive Kind where
  | ascii | latin1 | utf8
  | charmap (table : Array (Option Char))

def decodeAscii (bs : Bytes) : Option Text :=
  if bs.all (· < 128) then some (bs.map fun b => Char.ofNat b.toNat) else none

def decodeLatin1 (bs : Bytes) : Option Text := some (bs.map fun b => Char.ofNat b.toNat)

/-- strict UTF-8 (no overlong forms, no surrogates, ≤ U+10FFFF), as CPython's decoder -/
partial def decodeUtf8 : Bytes → Option Text
  | [] => some []
  | b0 :: rest =>
    let n0 := b0.toNat
    let cont (b : UInt8) : Bool := b.toNat / 64 == 2
    if n0 < 0x80 then (Char.ofNat n0 :: ·) <$> decodeUtf8 rest
    else if n0 < 0xC2 then none
    else if n0 < 0xE0 then
      match rest with
      | b1 :: r => if cont b1 then (Char.ofNat ((n0 - 0xC0) * 64 + (b1.toNat - 0x80)) :: ·) <$> decodeUtf8 r else none
      | _ => none
    else if n0 < 0xF0 then
      match rest with
      | b1 :: b2 :: r =>
        let cp := (n0 - 0xE0) * 4096 + (b1.toNat - 0x80) * 64 + (b2.toNat - 0x80)
        if cont b1 && cont b2 && cp ≥ 0x800 && !(0xD800 ≤ cp && cp ≤ 0xDFFF) then (Char.ofNat cp :: ·) <$> decodeUtf8 r else none
      | _ => none
    else if n0 < 0xF5 then
      match rest with
      | b1 :: b2 :: b3 :: r =>
        let cp := (n0 - 0xF0) * 262144 + (b1.toNat - 0x80) * 4096 + (b2.toNat - 0x80) * 64 + (b3.toNat - 0x80)
        if cont b1 && cont b2 && cont b3 && cp ≥ 0x10000 && cp ≤ 0x10FFFF then (Char.ofNat cp :: ·) <$> decodeUtf8 r else none
      | _ => none
    else none

def decodeCharmap (t : Array (Option Char)) : Bytes → Option Text
  | [] => some []
  | b :: bs =>
    match t[b.toNat]? with
    | some (some c) => (c :: ·) <$> decodeCharmap t bs
    | _ => none

def parseKind (s : String) : Option Kind :=
  match s.toList with
  | ['a'] => some .ascii
  | ['l'] => some .latin1
  | ['u'] => some .utf8
  | 'm' :: rest =>
    let items := (String.ofList rest).splitOn "."
    some (.charmap (items.toArray.map fun t =>
      if t == "x" then none else some (Char.ofNat (t.toList.foldl (fun acc c => acc * 16 + hexVal c) 0))))
  | _ => none

def parseOracle (s : String) : List (Bytes × Kind) :=
  if s == "-" then [] else
    (s.splitOn ",").filterMap fun item =>
      match item.splitOn ":" with
      | [n, k] => (parseKind k).map fun k => (unhex n, k)
      | _ => none

def mkDb (oracle : List (Bytes × Kind)) : CodecDB where
  asciiCompatible name := (oracle.find? (·.1 == name)).isSome
  decode name bs :=
    match oracle.find? (·.1 == name) with
    | some (_, .ascii) => decodeAscii bs
    | some (_, .latin1) => decodeLatin1 bs
    | some (_, .utf8) => decodeUtf8 bs
    | some (_, .charmap t) => decodeCharmap t bs
    | none => if name == asciiName then decodeAscii bs else none

def showSyn : SynErr → String
  | .truncated => "truncated"
  | .magic => "magic"
  | .major n => s!"major:{n}"
  | .msgidNotTerminated => "msgid-not-terminated"
  | .msgidNul => "msgid-nul"
  | .msgstrNotTerminated => "msgstr-not-terminated"
  | .msgstrNul => "msgstr-nul"
  | .duplicate => "duplicate"
  | .notSorted => "not-sorted"

def showCrash : Crash → String
  | .structError => "error"            -- struct.error
  | .unpackValueError => "ValueError"
  | .typeError => "TypeError"
  | .assertion => "AssertionError"
  | .indexError => "IndexError"
  | .other name => name

def showErr : Err → String
  | .syntax e => s!"err syntax {showSyn e}"
  | .decode => "err decode"
  | .crash c => s!"err crash {showCrash c}"

def showEntry (e : Entry) : String :=
  let c := match e.msgctxt with | none => "~" | some t => hexChars t
  match e.body with
  | .singular s => s!"i={hexChars e.msgid} c={c} s={hexChars s}"
  | .plural p fs => s!"i={hexChars e.msgid} c={c} p={hexChars p} f={"/".intercalate (fs.map hexChars)}"

def showFile (f : MoFile) : String :=
  s!"hidden={if f.possibleHiddenStrings then 1 else 0} n={f.entries.length}" ++
    String.join (f.entries.map fun e => " | " ++ showEntry e)

def showTag : Tag → String
  | .invalidMoFile e => s!"invalid-mo-file:{showSyn e}"
  | .brokenEncoding => "broken-encoding"

def unhexOpt (s : String) : Bytes := if s == "-" then [] else unhex s

def handle (op : String) (args : List String) : String :=
  match op, args with
  | "parse", [enc, file, oracle] =>
    let db := mkDb (parseOracle oracle)
    let enc := if enc == "-" then none else some (unhex enc)
    match parse db enc (unhexOpt file) with
    | .ok f => "ok " ++ showFile f
    | .error e => showErr e
  | "gparse", [enc, file, oracle] =>
    let db := mkDb (parseOracle oracle)
    let enc := if enc == "-" then none else some (unhex enc)
    match I18n.Generated.MoParser.parse db enc (unhexOpt file) with
    | .ok f => "ok " ++ showFile f
    | .error e => showErr e
  | "check", [file, oracle] =>
    let db := mkDb (parseOracle oracle)
    let r := checkerLoad db (unhexOpt file)
    let tags := if r.tags.isEmpty then "-" else ",".intercalate (r.tags.map showTag)
    match r.uncaught with
    | some e => s!"uncaught {showErr e} tags={tags}"
    | none => s!"loaded={if r.file.isSome then 1 else 0} tags={tags}"
  | _, _ => "bad-op"

end I18n.Driver.Mo
