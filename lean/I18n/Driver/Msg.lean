import I18n.Model.Msg
import I18n.Generated.MsgChk
import I18n.Spec.MessageRules
import I18n.Driver.Tags
/- Driver for the message-check model (`msg …`).  Strings: `.`-separated hexadecimal code points, `-` = empty, `~` = None.
   An entry is one token `msgid/msgctxt/msgid_plural/msgstr/forms/flags/obsolete/prev_msgctxt/prev_msgid/prev_msgid_plural/comment`
   with forms = `k:str+k:str…` or `_`, flags = `str+str…` or `_`.  expat verdicts: `x=<str>=<~ | ! | e<msg>>`. -/
namespace I18n.Driver.Msg
open I18n I18n.Msg
open I18n.Tags (Str Extra)
open I18n.Driver.Tags (unhexCps hexCps)

def optStr (s : String) : Option Str := if s == "~" then none else some (unhexCps s)

def parseForms (s : String) : List (Nat × Str) :=
  if s == "_" then [] else
    (s.splitOn "+").filterMap fun t =>
      match t.splitOn ":" with
      | [k, v] => some (k.toNat!, unhexCps v)
      | _ => none

def parseFlags (s : String) : List Str := if s == "_" then [] else (s.splitOn "+").map unhexCps

def parseEntry (s : String) : Option Entry :=
  match s.splitOn "/" with
  | [msgid, ctxt, plural, msgstr, forms, flags, obs, pc, pi, pp, comment] =>
    some { msgid := unhexCps msgid, msgctxt := optStr ctxt, msgidPlural := optStr plural, msgstr := optStr msgstr,
           msgstrPlural := parseForms forms, flags := parseFlags flags, obsolete := obs == "1",
           prevMsgctxt := optStr pc, prevMsgid := optStr pi, prevMsgidPlural := optStr pp, comment := unhexCps comment }
  | _ => none

def parseVerdict (s : String) : XmlVerdict :=
  if s == "~" then .ok else if s == "!" then .other else .syntaxError (unhexCps (s.drop 1).toString)

def parseXml (toks : List String) : List (Str × XmlVerdict) :=
  toks.filterMap fun t =>
    match t.splitOn "=" with
    | ["x", s, v] => some (unhexCps s, parseVerdict v)
    | _ => none

def xmlOf (table : List (Str × XmlVerdict)) (s : Str) : XmlVerdict := (assocGet s table).getD .ok

def parseCtx (s : String) : Ctx :=
  match s.toList with
  | [t, b, h, e] => ⟨t == '1', b == '1', h == '1', e == '1'⟩
  | _ => ⟨false, false, false, true⟩

def showExtra : Extra → String
  | .safe s => "S:" ++ hexCps s
  | .str s => "s:" ++ hexCps s
  | .int n => s!"i:{n}"
  | .bytes b => "b:" ++ Driver.hexBytes b

def showInfo (i : Info) : String :=
  let mx := match i.rangeMax with | some m => toString m | none => "inf"
  let fs := if i.formats.isEmpty then "_" else "+".intercalate (i.formats.map hexCps)
  s!"{if i.fuzzy then 1 else 0},{i.rangeMin},{mx},{fs}"

def showEmit : Emit → String
  | .tag t extras => String.ofList (t.name.map Char.ofNat) ++ "(" ++ ",".intercalate (extras.map showExtra) ++ ")"
  | .fmt name info => "@format(" ++ hexCps name ++ "," ++ showInfo info ++ ")"
  | .crash .valueError => "!ValueError"
  | .crash (.format .valueError) => "!ValueError"
  | .crash (.format .indexError) => "!IndexError"
  | .crash (.format .keyError) => "!KeyError"
  | .crash (.format .unsupported) => "!unsupported"
  | .crash .xmlOther => "!other"

def showEmits (l : List Emit) : String := if l.isEmpty then "-" else ";".intercalate (l.map showEmit)

def handle (op : String) (args : List String) : String :=
  match op, args with
  | "check", ctx :: n :: rest =>
    let k := n.toNat!
    match (rest.take k).mapM parseEntry with
    | some entries =>
      let env := liveEnv (xmlOf (parseXml (rest.drop k)))
      "ok " ++ showEmits (run env (parseCtx ctx) entries)
    | none => "bad-op"
  -- `gcheck`: `check_messages` REGENERATED from lib/check/__init__.py (Generated.MsgChk; `_check_message_formats` is the model's opaque stage)
  | "gcheck", ctx :: n :: rest =>
    let k := n.toNat!
    match (rest.take k).mapM parseEntry with
    | some entries =>
      let env := liveEnv (xmlOf (parseXml (rest.drop k)))
      let c := parseCtx ctx
      match Generated.MsgChk.check_messages env c env.flag entries c.isTemplate (if c.hasEncoding then some () else none) c.isBinary c.possibleHiddenStrings [] with
      | .ok out => "ok " ++ showEmits (observe out)
      | .error _ => "err crash"
    | none => "bad-op"
  | "spec", ctx :: n :: rest =>
    -- the reference rules (Spec.MessageRules), evaluated: compared with the REAL code by the `spec-vs-code` stream
    let k := n.toNat!
    match (rest.take k).mapM parseEntry with
    | some entries =>
      let env := liveEnv (xmlOf (parseXml (rest.drop k)))
      let r := Spec.MessageRules.messageRules env (parseCtx ctx) entries
      "ok " ++ showEmits (r.1.flatten ++ r.2)
    | none => "bad-op"
  | "flags", [e] =>
    match parseEntry e with
    | some e =>
      let r := checkMessageFlags liveFlagEnv e
      "ok " ++ showInfo r.1 ++ " " ++ showEmits (observe r.2)
    | none => "bad-op"
  -- `gflags`: `_check_message_flags` REGENERATED from lib/check/__init__.py (Generated.MsgChk, tools/translate/msgchk2lean.py; proved equal to
  -- `checkMessageFlags` in Props/C16Tie.lean); an exception loses what was emitted before it: `err crash`
  | "gflags", [e] =>
    match parseEntry e with
    | some e =>
      match Generated.MsgChk.check_message_flags liveFlagEnv [] e with
      | .ok ((fz, rmin, rmax, fs), out) => "ok " ++ showInfo ⟨fz, rmin, rmax, toSorted strLt fs⟩ ++ " " ++ showEmits out
      | .error _ => "err crash"
    | none => "bad-op"
  | "unusual", [s] => "ok " ++ hexCps ((liveEnv fun _ => .ok).findUnusual (unhexCps s))
  | "marker", [s] =>
    match (liveEnv fun _ => .ok).searchMarker (unhexCps s) with
    | some m => "ok " ++ hexCps m
    | none => "ok ~"
  | "gate", [s] => if (liveEnv fun _ => .ok).xmlGate (unhexCps s) then "ok 1" else "ok 0"
  | "range", [s] =>
    match parseRange liveFlagEnv (unhexCps s) with
    | some (i, j) => s!"ok {i},{j}"
    | none => "ok ~"
  | "repr", [colon, msgid, ctxt] => "ok " ++ hexCps (msgRepr Tags.liveDb (unhexCps msgid) (optStr ctxt) (colon == "1"))
  | _, _ => "bad-op"

end I18n.Driver.Msg
