import I18n.Model.Date
import I18n.Generated.GettextDate
import I18n.Generated.CheckDates
import I18n.Driver.Util
/- Driver for the date model:
   `date fix <hex s> <hex hint|none>`, `date instant <hex t>`,
   `date check <hex content-type|none> <bin 0/1> <template 0/1> <now µs> <pot list> <po list>` (list = `_` or `,`-joined hex). -/
namespace I18n.Driver.Date
open I18n I18n.Date

def showOutcome : Outcome → String
  | .ok t => s!"ok {Driver.hexChars t}"
  | .syntaxErr => "err DateSyntaxError"
  | .boilerplate => "err BoilerplateDate"
  | .hintErr => "err ValueError"
  | .assertErr => "err AssertionError"

def optStr (s : String) : Option (List Char) := if s == "none" then none else some (Driver.unhexChars s)

def strList (s : String) : List (List Char) :=
  if s == "_" then [] else (s.splitOn ",").map Driver.unhexChars

def showArg : Arg → String
  | .safe s => "S:" ++ Driver.hexChars s
  | .str s => "s:" ++ Driver.hexChars s

def showTags : Option (List Tag) → String
  | none => "err crash"
  | some ts => "ok " ++ ";".intercalate (ts.map fun t => t.name ++ "(" ++ ",".intercalate (t.args.map showArg) ++ ")")

def handle (op : String) (args : List String) : String :=
  match op, args with
  -- the definitions REGENERATED from lib/gettext.py (`I18n.Generated.GettextDate`), on the protocol of `fix` / `instant`
  | "gfix", [s, h] => match Generated.GettextDate.fix_date_format (Driver.unhexChars s) (optStr h) with
    | .ok t => s!"ok {Driver.hexChars t}"
    | .error e => "err " ++ e.name
  | "gcheck", [ct, b, t, now, pot, po] =>
    match Generated.CheckDates.check_dates [] ⟨optStr ct, b == "1", t == "1", strList pot, strList po, Driver.parseInt now⟩ with
    | .ok ts => showTags (some ts)
    | .error e => "err " ++ e.name
  | "ginstant", [t] => match Generated.GettextDate.parse_date (Driver.unhexChars t) with
    | .ok st => s!"ok {st.minutes}"
    | .error e => "err " ++ e.name
  | "fix", [s, h] => showOutcome (fix (Driver.unhexChars s) (optStr h))
  | "instant", [t] => match parseCanon (Driver.unhexChars t) with
    | some st => s!"ok {st.minutes}"
    | none => "err DateSyntaxError"
  | "check", [ct, b, t, now, pot, po] =>
    showTags (checkDates ⟨optStr ct, b == "1", t == "1", strList pot, strList po, Driver.parseInt now⟩)
  | "strip", [s] => "ok " ++ Driver.hexChars (strip (Driver.unhexChars s))
  | _, _ => "bad-op"

end I18n.Driver.Date
