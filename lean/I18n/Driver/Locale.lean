import I18n.Model.Locale
import I18n.Generated.Ling
import I18n.Driver.Util
/- Driver for the locale model: `locale <op> <hex args…>` (see tools/checks/locale_common.py for the grammar). -/
namespace I18n.Driver.Locale
open I18n I18n.Locale

def hx (s : List Char) : String := Driver.hexChars s
def hxo : Option (List Char) → String
  | none => "~"
  | some s => hx s

def showLang (l : Language) : String :=
  s!"{hx l.ll} {hxo l.cc} {hxo l.enc} {hxo l.mod} str={hx l.str}"

def showLangE : Except LErr Language → String
  | .ok l => "ok " ++ showLang l
  | .error e => "err " ++ e.name

def showExtra : Extra → String
  | .str s => "s:" ++ hx s
  | .safe s => "S:" ++ hx s
  | .int n => s!"i:{n}"

def showCalls (ts : List TagCall) : String :=
  ";".intercalate (ts.map fun t => t.name ++ "(" ++ ",".intercalate (t.extras.map showExtra) ++ ")")

/-- `~` = empty list, else `,`-separated hex strings -/
def unlist (s : String) : List (List Char) :=
  if s == "~" then [] else (s.splitOn ",").map Driver.unhexChars

/-- `~` = empty table, else `,`-separated `hex=hex` -/
def untable (s : String) : List (List Char × List Char) :=
  if s == "~" then [] else (s.splitOn ",").filterMap fun e =>
    match e.splitOn "=" with
    | [a, b] => some (Driver.unhexChars a, Driver.unhexChars b)
    | _ => none

/-- the definitions REGENERATED from lib/ling.py (`I18n.Generated.Ling`), on the protocol of the hand-written ops above -/
def showLangG (l : Language) : String :=
  match Generated.Ling.Language.__str__ l with
  | .ok s => s!"{hx l.ll} {hxo l.cc} {hxo l.enc} {hxo l.mod} str={hx s}"
  | .error e => "err " ++ e.name

def handleGenerated (op : String) (args : List String) : Option String :=
  match op, args with
  | "gparse", [h] =>
    some (match Generated.Ling.parse_language (Driver.unhexChars h) with
      | .ok l => "ok " ++ showLangG l
      | .error e => "err " ++ e.name)
  | "gfix", [h] =>
    some (match Generated.Ling.parse_language (Driver.unhexChars h) with
      | .error e => "err " ++ e.name
      | .ok l =>
        match Generated.Ling.Language.fix_codes l with
        | .error e => "err " ++ e.name
        | .ok (fixed, l') => s!"ok fixed={if fixed == some true then 1 else 0} " ++ showLangG l')
  | "glookup", [h] =>
    some (match Generated.Ling._lookup_language_code (Driver.unhexChars h) with
      | .ok r => "ok " ++ hxo r
      | .error e => "err " ++ e.name)
  | "gterritory", [h] =>
    some (match Generated.Ling.lookup_territory_code (Driver.unhexChars h) with
      | .ok r => "ok " ++ hxo r
      | .error e => "err " ++ e.name)
  | "galmost", [a, b] =>
    some (match Generated.Ling.parse_language (Driver.unhexChars a), Generated.Ling.parse_language (Driver.unhexChars b) with
      | .ok x, .ok y =>
        match Generated.Ling.Language.is_almost_equal x y, Generated.Ling.Language.__eq__ x y with
        | .ok r, .ok e => s!"ok {if r then 1 else 0} {if e then 1 else 0}"
        | .error e, _ => "err " ++ e.name
        | _, .error e => "err " ++ e.name
      | _, _ => "err LanguageSyntaxError")
  | "gcli", [h] =>
    -- the statements of lib/cli.py for `-l`, over the regenerated methods
    some (match Generated.Ling.parse_language (Driver.unhexChars h) with
      | .error e => if e.isLanguageError then "err invalid-language" else "err " ++ e.name
      | .ok l =>
        match Generated.Ling.Language.fix_codes l with
        | .error e => if e.isLanguageError then "err invalid-language" else "err " ++ e.name
        | .ok (_, l) =>
          match Generated.Ling.Language.remove_encoding l with
          | .error e => "err " ++ e.name
          | .ok (_, l) =>
            match Generated.Ling.Language.remove_nonlinguistic_modifier l with
            | .error e => "err " ++ e.name
            | .ok (_, l) => "ok " ++ showLangG l)
  | _, _ => none

def handle (op : String) (args : List String) : String :=
  match handleGenerated op args with
  | some r => r
  | none =>
  match op, args with
  | "parse", [h] => showLangE (parseLanguageE (Driver.unhexChars h))
  | "fix", [h] =>
    match parseLanguageE (Driver.unhexChars h) with
    | .error e => "err " ++ e.name
    | .ok l =>
      match fixCodes l with
      | .error e => "err " ++ e.name
      | .ok (l', fixed) => s!"ok fixed={if fixed then 1 else 0} " ++ showLang l'
  | "lookup", [h] => "ok " ++ hxo (lookupLanguage (Driver.unhexChars h))
  | "territory", [h] => "ok " ++ hxo (lookupTerritory (Driver.unhexChars h))
  | "almost", [a, b] =>
    match parseLanguage (Driver.unhexChars a), parseLanguage (Driver.unhexChars b) with
    | some x, some y => s!"ok {if isAlmostEqual x y then 1 else 0} {if x == y then 1 else 0}"
    | _, _ => "err LanguageSyntaxError"
  | "munch", [h] => "ok " ++ hx (munchName (Driver.unhexChars h))
  | "name-raw", [h] => showLangE (getLanguageForName (munchName (Driver.unhexChars h)))
  | "name", [h] => showLangE (getLanguageForName (Driver.unhexChars h))
  | "cli", [h] =>
    match cliLanguage (Driver.unhexChars h) with
    | .ok l => "ok " ++ showLang l
    | .error e => if e.isLanguageError then "err invalid-language" else "err " ++ e.name
  | "normpath", [h] => "ok " ++ hx (normpath (Driver.unhexChars h))
  | "splitext", [h] =>
    let b := basename (Driver.unhexChars h)
    let se := splitext b
    s!"ok {hx b} {hx se.1} {hx se.2}"
  | "check", [tmpl, opt, path, metas, pls, pcs, munch] =>
    let tbl := untable munch
    -- `*`: the model's own `_munch_language_name`; else a table supplied by the harness
    let munchF : List Char → List Char := if munch == "*" then munchName else fun s => (tbl.lookup s).getD s
    let optL : Except LErr (Option Language) :=
      if opt == "~" then .ok none else
      match cliLanguage (Driver.unhexChars opt) with
      | .ok l => .ok (some l)
      | .error e => .error e
    match optL with
    | .error e => "err cli " ++ e.name
    | .ok o =>
      match checkLanguage munchF ⟨tmpl == "1", o, Driver.unhexChars path, unlist metas, unlist pls, unlist pcs⟩ with
      | .error e => "err " ++ e.name
      | .ok out =>
        let lang := match out.language with | none => "~" | some l => hx l.str
        s!"ok lang={lang} tags={showCalls out.tags}"
  | _, _ => "bad-op"

end I18n.Driver.Locale
