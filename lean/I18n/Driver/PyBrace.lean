import I18n.Model.PyBrace
import I18n.Model.PyBraceG
import I18n.Model.PerlBrace
import I18n.Spec.StrFormat
import I18n.Driver.Util
/- Driver for the brace-format models:
   `pybrace parse <hex code points>`, `pybrace spec <hex>` (the `_format_spec_re` reading of a specification),
   `perlbrace parse <hex>`.  (The reference `Spec.StrFormat` is served by `pybrace cpy-parse` / `pybrace cpy-format`,
   see below.) -/
namespace I18n.Driver.PyBrace
open I18n

def showTypes (t : PyBrace.TySet) : String := "+".intercalate t.names

def showKey : PyBrace.Key → String
  | .idx n => s!"i{n}"
  | .name s => s!"s{Driver.hexChars s}"

def showArg (a : PyBrace.Arg) : String := (if a.nested then "N:" else "F:") ++ showTypes a.types

def showItem : PyBrace.Item → String
  | .lit t => s!"L:{Driver.hexChars t}"
  | .field tp => s!"F:{showTypes tp}"

def showErrArg : PyBrace.ErrArg → String
  | .text s => Driver.hexChars s
  | .nestedFieldObject => "OBJ"

def showResult : Except PyBrace.PErr PyBrace.Result → String
  | .error (.own c a) => s!"err {c.name} {showErrArg a}"
  | .error (.crash e) => s!"err crash:{e.name}"
  | .ok r =>
    let items := ",".intercalate (r.items.map showItem)
    let map := ";".intercalate (r.argMap.map fun (k, as) => s!"{showKey k}={",".intercalate (as.map showArg)}")
    s!"ok items=[{items}] map=[{map}]"

def showOptChars : Option (List Char) → String
  | none => "~"
  | some s => Driver.hexChars s

def showOptChar : Option Char → String
  | none => "~"
  | some c => Driver.hexChars [c]

def showSpec : Option PyBrace.Spec → String
  | none => "nomatch"
  | some f => s!"fill={showOptChar f.fill} align={showOptChar f.align} sign={showOptChar f.sign} alt={f.alt} zero={f.zero} width={showOptChars f.width} comma={f.comma} precision={showOptChars f.precision} type={showOptChar f.type}"

def lexLe : List Char → List Char → Bool
  | [], _ => true
  | _ :: _, [] => false
  | a :: as, b :: bs => if a.toNat < b.toNat then true else if b.toNat < a.toNat then false else lexLe as bs

def showPerlItem : PerlBrace.Item → String
  | .lit t => s!"L:{Driver.hexChars t}"
  | .field n => s!"F:{Driver.hexChars n}"

def showPerl : Except PerlBrace.PErr PerlBrace.Result → String
  | .error (.error a) => s!"err Error {Driver.hexChars a}"
  | .error (.crash e) => s!"err crash:{e.name}"
  | .ok r =>
    let items := ",".intercalate (r.items.map showPerlItem)
    let args := ",".intercalate ((r.arguments.mergeSort lexLe).map Driver.hexChars)
    s!"ok items=[{items}] args=[{args}]"

open I18n.Spec.StrFormat in
def showChunk (c : Chunk) : String :=
  match c.field with
  | none => s!"L:{Driver.hexChars c.literal}"
  | some f => s!"L:{Driver.hexChars c.literal}|N:{Driver.hexChars f.name}|S:{Driver.hexChars f.spec}|C:{showOptChar f.conversion}"

open I18n.Spec.StrFormat in
def showMarkup : Except MErr (List Chunk) → String
  | .error e => s!"err {e.name}"
  | .ok cs => "ok " ++ ";".intercalate (cs.map showChunk)

open I18n.Spec.StrFormat in
def parseVal (t : String) : Val :=
  match t.toList with
  | 'i' :: r => .int (Driver.parseInt (String.ofList r))
  | 'f' :: _ => .float
  | _ => .str

open I18n.Spec.StrFormat in
/-- `P:v,v,…|K:<hexkey>=v;…` -/
def parseArgs (t : String) : Args :=
  match t.splitOn "|" with
  | [p, k] =>
    let pb := (p.drop 2).toString
    let kb := (k.drop 2).toString
    { pos := if pb.isEmpty then [] else (pb.splitOn ",").map parseVal,
      kw := if kb.isEmpty then [] else (kb.splitOn ";").map fun kv =>
        match kv.splitOn "=" with
        | [key, v] => (Driver.unhexChars key, parseVal v)
        | _ => ([], .str) }
  | _ => { pos := [], kw := [] }

open I18n.Spec.StrFormat in
def showFormat : Except FErr Unit → String
  | .ok () => "ok"
  | .error e => s!"err {e.name}"

def handle (op : String) (args : List String) : String :=
  match op, args with
  | "parse", [h] => showResult (PyBrace.parse (Driver.unhexChars h))
  -- the parser with `Field.__init__` / `add_argument` REGENERATED from lib/strformat/pybrace.py (`I18n.Generated.PyBraceField`)
  | "gparse", [h] => showResult (PyBrace.G.parseG (Driver.unhexChars h))
  | "gparse-cfg", [m, d, h] => showResult (PyBrace.G.parseWithG { ssizeMax := m.toNat!, digitLimit := d.toNat! } (Driver.unhexChars h))
  | "parse-cfg", [m, d, h] => showResult (PyBrace.parseWith { ssizeMax := m.toNat!, digitLimit := d.toNat! } (Driver.unhexChars h))
  | "cpy-parse", [h] => showMarkup (Spec.StrFormat.markup (Driver.unhexChars h))
  | "cpy-format", [h, a] => showFormat (Spec.StrFormat.format (Driver.unhexChars h) (parseArgs a))
  | "spec", [h] => showSpec (PyBrace.scanSpec (Driver.unhexChars h))
  | _, _ => "bad-op"

def handlePerl (op : String) (args : List String) : String :=
  match op, args with
  | "parse", [h] => showPerl (PerlBrace.parse (Driver.unhexChars h))
  | _, _ => "bad-op"

end I18n.Driver.PyBrace
