import I18n.Generated.Polib4us
import I18n.Model.Po
import I18n.Driver.Util
/- Driver for the PO loader model (`po <op> …`).  Not part of any proof.

   Oracle (one argument): `<name-hex>:<compat 0|1>:<kind>,…` — the encoding names `codecs.lookup` knows, whether
   `is_ascii_compatible_encoding` holds, and the codec family the harness found by asking Python directly:
   `a` ASCII, `l` ISO-8859-1, `u` UTF-8, `m<256 code points|x>` a single-byte charmap,
   `k<bytes-hex>=<cp>;…` a prefix-free multi-byte table (anything else is undecodable), `e` fails on every non-ASCII byte,
   `q` unknown to the driver (the answer is `oracle-miss`).  Names outside the oracle do not exist. -/
namespace I18n.Driver.Po
open I18n I18n.Po
open I18n.Generated.PolibFsm (St Sym Handler)

inductive Kind where
  | ascii | latin1 | utf8 | unknown
  | charmap (table : Array (Option Char))
  | multi (table : List (Bytes × Char))

def decodeLatin1 (bs : Bytes) : Option Text := some (bs.map fun b => Char.ofNat b.toNat)

partial def decodeUtf8 : Bytes → Option Text
  | [] => some []
  | b0 :: rest =>
    let n0 := b0.toNat
    let cont (b : UInt8) : Bool := b.toNat / 64 == 2
    if n0 < 0x80 then (Char.ofNat n0 :: ·) <$> decodeUtf8 rest
    else if n0 < 0xC2 then none
    else if n0 < 0xE0 then
      match rest with
      | b1 :: r => if cont b1 then (Char.ofNat ((n0 - 0xC0) * 64 + (b1.toNat - 0x80)) :: ·) <$> decodeUtf8 r else none
      | _ => none
    else if n0 < 0xF0 then
      match rest with
      | b1 :: b2 :: r =>
        let cp := (n0 - 0xE0) * 4096 + (b1.toNat - 0x80) * 64 + (b2.toNat - 0x80)
        if cont b1 && cont b2 && cp ≥ 0x800 && !(0xD800 ≤ cp && cp ≤ 0xDFFF) then (Char.ofNat cp :: ·) <$> decodeUtf8 r else none
      | _ => none
    else if n0 < 0xF5 then
      match rest with
      | b1 :: b2 :: b3 :: r =>
        let cp := (n0 - 0xF0) * 262144 + (b1.toNat - 0x80) * 4096 + (b2.toNat - 0x80) * 64 + (b3.toNat - 0x80)
        if cont b1 && cont b2 && cont b3 && cp ≥ 0x10000 && cp ≤ 0x10FFFF then (Char.ofNat cp :: ·) <$> decodeUtf8 r else none
      | _ => none
    else none

def decodeCharmap (t : Array (Option Char)) : Bytes → Option Text
  | [] => some []
  | b :: bs =>
    match t[b.toNat]? with
    | some (some c) => (c :: ·) <$> decodeCharmap t bs
    | _ => none

partial def decodeMulti (t : List (Bytes × Char)) : Bytes → Option Text
  | [] => some []
  | b :: bs =>
    if b < 128 then (Char.ofNat b.toNat :: ·) <$> decodeMulti t bs
    else match t.find? (fun (k, _) => (b :: bs).take k.length == k) with
      | some (k, c) => (c :: ·) <$> decodeMulti t ((b :: bs).drop k.length)
      | none => none

def hexNat (s : String) : Nat := s.toList.foldl (fun acc c => acc * 16 + hexVal c) 0

def parseKind (s : String) : Kind :=
  match s.toList with
  | ['a'] => .ascii
  | ['e'] => .ascii
  | ['l'] => .latin1
  | ['u'] => .utf8
  | 'm' :: rest =>
    let items := (String.ofList rest).splitOn "."
    .charmap (items.toArray.map fun t => if t == "x" then none else some (Char.ofNat (hexNat t)))
  | 'k' :: rest =>
    .multi (((String.ofList rest).splitOn ";").filterMap fun item =>
      match item.splitOn "=" with
      | [k, v] => some (unhex k, Char.ofNat (hexNat v))
      | _ => none)
  | _ => .unknown

structure Codec where
  name : Bytes
  compat : Bool
  kind : Kind

def parseOracle (s : String) : List Codec :=
  if s == "-" then [] else
    (s.splitOn ",").filterMap fun item =>
      match item.splitOn ":" with
      | [n, c, k] => some { name := unhex n, compat := c == "1", kind := parseKind k }
      | _ => none

/-- `.other` doubles as the oracle-miss marker: the harness never lets a real "other" outcome reach the model
    except through kind `q`, where the line is skipped. -/
def mkEnv (oracle : List Codec) : Env where
  asciiCompatible name := match oracle.find? (·.name == name) with | some c => c.compat | none => false
  codecExists name := (oracle.find? (·.name == name)).isSome
  decode name bs :=
    let wrap (o : Option Text) : Dec := match o with | some t => .text t | none => .ude
    match oracle.find? (·.name == name) with
    | some ⟨_, _, .ascii⟩ => wrap (decodeAscii bs)
    | some ⟨_, _, .latin1⟩ => wrap (decodeLatin1 bs)
    | some ⟨_, _, .utf8⟩ => wrap (decodeUtf8 bs)
    | some ⟨_, _, .charmap t⟩ => wrap (decodeCharmap t bs)
    | some ⟨_, _, .multi t⟩ => wrap (decodeMulti t bs)
    | some ⟨_, _, .unknown⟩ => .other
    | none => if name == latin1Name then wrap (decodeLatin1 bs) else if name == asciiName then wrap (decodeAscii bs) else .other
  isSpace := pyIsSpace
  isDigit := pyIsDigit
  decimal := pyDecimal

def optText : Option Text → String
  | none => "~"
  | some t => hexChars t

def showList (xs : List String) : String := s!"{xs.length}:" ++ "/".intercalate xs

def showEntry (e : Entry) : String :=
  s!"c={optText e.msgctxt} i={hexChars e.msgid} p={optText e.msgidPlural} s={optText e.msgstr} " ++
  s!"x={showList (e.msgstrPlural.map fun (k, v) => s!"{k}={hexChars v}")} o={if e.obsolete then 1 else 0} " ++
  s!"f={showList (e.flags.map hexChars)} r={showList (e.occurrences.map fun (a, b) => s!"{hexChars a}@{hexChars b}")} " ++
  s!"e={hexChars e.comment} t={hexChars e.tcomment} pc={optText e.previousMsgctxt} pm={optText e.previousMsgid} " ++
  s!"pp={optText e.previousMsgidPlural} l={e.linenum} tr={if translated e then 1 else 0}"

def showMsg : SynMsg → String
  | .plain => "plain"
  | .unescapedQuote => "unescaped-quote"
  | .invalidContinuation => "invalid-continuation"
  | .unknownKeyword k => s!"unknown-keyword:{hexChars k}"

def showErr : Err → String
  | .syntax n m => s!"err syntax {n} {showMsg m}"
  | .decode => "err decode"
  | .crash => "err crash"

def showFile : Except Err PoFile → String
  | .error e => showErr e
  | .ok f => s!"ok h={hexChars f.header} n={f.entries.length}" ++ String.join (f.entries.map fun e => " | " ++ showEntry e)

def unhexOpt (s : String) : Bytes := if s == "-" then [] else unhex s

def handle (op : String) (args : List String) : String :=
  match op, args with
  | "unescape", [oracle, enc, text] =>
    match unescape (mkEnv (parseOracle oracle)) (unhexOpt enc) (unhexChars text) with
    | some t => s!"ok {hexChars t}"
    | none => "err"
  | "setflags", items =>
    showList ((setFlags (items.map unhexChars)).map hexChars)
  | "flagline", [text] =>
    let env := mkEnv []
    showList ((setFlags ((splitOn ',' ((unhexChars text).drop 3)).map (strip env.isSpace))).map hexChars)
  | "preprocess", [text] =>
    showList ((preprocess (mkEnv []) (unhexChars text)).map hexChars)
  -- `gunescape` / `gsetflags` / `gpreprocess`: the same over the functions REGENERATED from lib/polib4us.py (Generated.Polib4us,
  -- tools/translate/polib4us2lean.py); `gpreprocess` runs the generator `Codecs.open` on a file that decodes to `text`
  | "gunescape", [oracle, enc, text] =>
    match I18n.Generated.Polib4us.polib_unescape (mkEnv (parseOracle oracle)) (unhexOpt enc) (unhexChars text) with
    | .ok t => s!"ok {hexChars t}"
    | .error _ => "err"
  | "gsetflags", items =>
    match I18n.Generated.Polib4us.set_flags (items.map unhexChars) with
    | .ok fs => showList (fs.map hexChars)
    | .error _ => "err"
  | "gpreprocess", [text] =>
    let env : Env := { mkEnv [] with asciiCompatible := fun _ => true, decode := fun _ _ => .text (unhexChars text) }
    match I18n.Generated.Polib4us.Codecs_open env [] ['r', 't'] [] with
    | .ok ls => showList (ls.map hexChars)
    | .error _ => "err"
  | "detect", [oracle, file] =>
    s!"ok {hexBytes (detectEncoding (mkEnv (parseOracle oracle)) (unhexOpt file))}"
  | "load", [oracle, file] =>
    showFile (load (mkEnv (parseOracle oracle)) (unhexOpt file))
  | "loadwith", [oracle, enc, file] =>
    showFile (loadWith (mkEnv (parseOracle oracle)) (unhexOpt enc) (unhexOpt file))
  | "check", [oracle, file] =>
    let (r, broken) := checkerLoad (mkEnv (parseOracle oracle)) (unhexOpt file)
    s!"broken={if broken then 1 else 0} " ++ showFile r
  | "loadseq", oracle :: files =>
    let env := mkEnv (parseOracle oracle)
    " || ".intercalate ((loadSeq env (files.map unhexOpt)).map fun (r, broken) => s!"broken={if broken then 1 else 0} " ++ showFile r)
  | _, _ => "bad-op"

end I18n.Driver.Po
