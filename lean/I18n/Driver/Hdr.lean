import I18n.Model.Hdr
import I18n.Generated.Domains
import I18n.Generated.GettextHdr
import I18n.Generated.HdrChk
import I18n.Driver.Util
import I18n.Driver.Charset
/-!
Driver for the header model (`hdr <op> <args…>`).  Strings travel as `.`-separated hex code points (`-` = empty), "no value"
as `~`, empty lists / tables as `_`.

* `parse <s>`                       → `ok F<k>:<v>;S<l>;…`
* `splitlines <s>`                  → `ok <l>,<l>,…`
* `special <lowered domain>`        → `ok 0|1`;  `email <addr> <lower table>` → `ok <domain> <special> <dotless>`
* `ctype <ct>`                      → `ok ~` | `ok <0|1> <enc>`
* `unusual <s>`                     → `ok <chars> <text|!>`
* `comments <template> <text>`      → `ok <tags>`
* `headers <template> <entries> <fuzzy set> <field table>` → `ok <tags> meta=<lines>` | `err crash`
* `mime <template> <lines> <chars> <encs>`                 → `ok <tags> enc=<e|~>` | `err crash`
* `project <lines> <addr table> <scheme table> <lower table>` → `ok <tags>`
* `translator <template> <lines> <addr table> <lower table>`  → `ok <tags>`
* `all <template> <binary> <comments> <entries> <now> <fuzzy set> <field table> <addr table> <scheme table> <lower table> <chars> <encs>`

`<lines>` = `;`-separated `k:v` (field lines in order); `<entries>` = `|`-separated
`msgid/msgctxt/obsolete/occurrences/msgid_plural/msgstr/msgstr0/flags` (occurrences `,`-separated `path:line`);
`<encs>` = `;`-separated `<enc>=<dec>/<codec|~>/<joined outcome>:<per-character outcomes>` (see Driver/Charset);
`<chars>` = `~` (no language) | `^` (no list) | `,`-separated characters.

`g<op>` = the same operation through the definitions REGENERATED from the source (`Generated.Domains`, `Generated.GettextHdr`,
`Generated.HdrChk`; proved equal to the model in `Props/C15Tie.lean`): `gparse`, `gemail` (→ `ok <special> <dotless>` | `err <exc>`),
`gcomments`, `gheaders`, `gmime` (`err crash` for any exception), `gproject`, `gtranslator`; an exception is `err <name>`.
-/
namespace I18n.Driver.Hdr
open I18n I18n.Hdr I18n.Generated

def S (s : String) : Str := Driver.unhexChars s
def H (s : Str) : String := Driver.hexChars s
def optS (s : String) : Option Str := if s == "~" then none else some (S s)
def listOf (sep : String) (s : String) : List String := if s == "_" then [] else s.splitOn sep

def tableOf (s : String) : List (Str × String) :=
  (listOf "," s).filterMap fun item =>
    match item.splitOn "=" with
    | [k, v] => some (S k, v)
    | _ => none

def lookupT (t : List (Str × String)) (k : Str) : Option String := (t.find? (·.1 = k)).map (·.2)

def miss : Str := "<oracle-miss>".toList

def udb (lowerT : List (Str × String)) : UDB := {
  isWord := Hdr.inRanges HeaderFields.reWord
  isSpace := Hdr.inRanges HeaderFields.reSpace
  isDigit := Hdr.inRanges HeaderFields.reDigit
  lower := fun s => match lookupT lowerT s with
    | some v => S v
    | none => if s.all (·.toNat < 128) then asciiLower s else miss }

def ext (lowerT addrT schemeT fieldT : List (Str × String)) (fuzzy : List Str) : Ext := {
  db := udb lowerT
  parseaddr := fun v => match lookupT addrT v with | some a => S a | none => miss
  urlScheme := fun v => match lookupT schemeT v with
    | some "~" => none
    | some s => some (S s)
    | none => some miss
  closeFuzzy := fun f => fuzzy.contains f
  closeField := fun k => (lookupT fieldT k).map S }

def showExtra : Extra → String
  | .str s => "s:" ++ H s
  | .safe s => "S:" ++ H s
  | .int n => s!"i:{n}"

def showTags (ts : List TagCall) : String :=
  if ts.isEmpty then "-" else
  ";".intercalate (ts.map fun t => t.name ++ "(" ++ ",".intercalate (t.extras.map showExtra) ++ ")")

def showLine : Line → String
  | .field k v => "F" ++ H k ++ ":" ++ H v
  | .stray l => "S" ++ H l

def linesOf (s : String) : List Line :=
  (listOf ";" s).filterMap fun item =>
    match item.splitOn ":" with
    | [k, v] => some (.field (S k) (S v))
    | _ => none

def metaOf (s : String) : Meta := buildMeta (linesOf s) []

def showMeta (m : Meta) : String :=
  if m.isEmpty then "_" else ";".intercalate (m.map fun kv => H kv.1 ++ "=" ++ ",".intercalate (kv.2.map H))

def entryOf (s : String) : Entry :=
  match s.splitOn "/" with
  | [msgid, ctxt, obs, occ, plural, msgstr, msgstr0, flags] =>
    { msgid := S msgid, msgctxt := optS ctxt, obsolete := obs == "1",
      occurrences := (listOf "," occ).filterMap fun o =>
        match o.splitOn ":" with
        | [p, l] => some (S p, S l)
        | _ => none,
      msgidPlural := optS plural, msgstr := S msgstr, msgstr0 := optS msgstr0,
      flags := (listOf "," flags).map S }
  | _ => default

def entriesOf (s : String) : List Entry := (listOf "|" s).map entryOf

/-- the world of C20's charset fragment as measured for every encoding of the line: the codec environment and `ctx.language`'s characters -/
def charsetEnv (chars encs : String) : Charset.Env × Option (Option (List (List Nat))) :=
  let characters : Option (Option (List (List Nat))) :=
    if chars == "~" then none else if chars == "^" then some none else some (some (Charset.charsOf chars))
  let cl := match characters with | some (some c) => c | _ => []
  let entries : List (Charset.Name × String × String × Charset.Enc × List Charset.Enc) :=
    (listOf ";" encs).filterMap fun item =>
      match item.splitOn "=" with
      | [e, rest] => match rest.splitOn "/" with
        | [d, codec, orc] => match orc.splitOn ":" with
          | [j, per] => some (Charset.nameOf e, d, codec, Charset.encOf (j.toList.headD 'c'), per.toList.map Charset.encOf)
          | _ => none
        | _ => none
      | _ => none
  let find := fun (n : Charset.Name) => entries.find? (·.1 == n)
  let env : Charset.Env := {
    interestingStr := Generated.Charset.interestingStr, tbl := Generated.Charset.portableEncodings,
    c2e := Generated.Charset.pycodecToEncoding,
    dec := fun n => match find n with | some (_, d, _, _, _) => Charset.decOf d | none => .other,
    lookup := fun n => match find n with | some (_, _, c, _, _) => Charset.nameOpt c | none => none,
    encode := fun n text => match find n with
      | some (_, _, _, j, per) => Charset.oracle cl j per text
      | none => .crash }
  (env, characters)

/-- C20's charset fragment on the measured classification of every encoding of the line -/
def charsetCheck (isTemplate : Bool) (chars encs : String) : CharsetCheck :=
  let w := charsetEnv chars encs
  fun n => I18n.Charset.checkCharset w.1 n isTemplate w.2

def handle (op : String) (args : List String) : String :=
  match op, args with
  | "parse", [s] =>
    let ls := parseHeader (S s)
    "ok " ++ (if ls.isEmpty then "-" else ";".intercalate (ls.map showLine))
  | "splitlines", [s] =>
    let ls := splitlines (S s)
    "ok " ++ (if ls.isEmpty then "_" else ",".intercalate (ls.map H))
  | "special", [d] => if Domains.isSpecialLowered (S d) then "ok 1" else "ok 0"
  | "email", [a, lowerT] =>
    let db := udb (tableOf lowerT)
    let b := fun (x : Bool) => if x then "1" else "0"
    s!"ok {H (Domains.domainOf (S a))} {b (Domains.isEmailInSpecialDomain db.lower (S a))} {b (Domains.isEmailInDotlessDomain (S a))}"
  | "ctype", [ct] =>
    match matchContentType (udb []) (S ct) with
    | none => "ok ~"
    | some (p, e) => s!"ok {if p then 1 else 0} {H e}"
  | "unusual", [s] =>
    let cs := sortedChars (unusualChars (udb []) (S s))
    s!"ok {H cs} {match unusualText cs with | some t => H t | none => "!"}"
  | "comments", [t, text] => "ok " ++ showTags (checkComments (udb []) (t == "1") (S text))
  | "headers", [t, es, fuzzy, fieldT] =>
    match checkHeaders (ext [] [] [] (tableOf fieldT) ((listOf "," fuzzy).map S)) (t == "1") (entriesOf es) with
    | none => "err crash"
    | some o => s!"ok {showTags o.tags} meta={showMeta o.metadata}"
  | "mime", [t, ls, chars, encs] =>
    match checkMime (udb []) (charsetCheck (t == "1") chars encs) (metaOf ls) with
    | .error () => "err crash"
    | .ok o => s!"ok {showTags o.tags} enc={match o.encoding with | some e => H e | none => "~"}"
  | "project", [ls, addrT, schemeT, lowerT] =>
    "ok " ++ showTags (checkProject (ext (tableOf lowerT) (tableOf addrT) (tableOf schemeT) [] []) (metaOf ls))
  | "translator", [t, ls, addrT, lowerT] =>
    "ok " ++ showTags (checkTranslator (ext (tableOf lowerT) (tableOf addrT) [] [] []) (t == "1") (metaOf ls))
  | "all", [t, b, comments, es, now, fuzzy, fieldT, addrT, schemeT, lowerT, chars, encs] =>
    let x := ext (tableOf lowerT) (tableOf addrT) (tableOf schemeT) (tableOf fieldT) ((listOf "," fuzzy).map S)
    match checkAll x (charsetCheck (t == "1") chars encs) (Driver.parseInt now) ⟨⟨t == "1", b == "1"⟩, S comments, entriesOf es⟩ with
    | none => "err crash"
    | some ts => "ok " ++ showTags ts
  -- the definitions regenerated from lib/domains.py, lib/gettext.py, lib/check/__init__.py
  | "gparse", [s] =>
    match Generated.GettextHdr.parse_header (S s) with
    | .error e => "err " ++ e.name
    | .ok ls => "ok " ++ (if ls.isEmpty then "-" else ";".intercalate (ls.map showLine))
  | "gemail", [a, lowerT] =>
    let db := udb (tableOf lowerT)
    let b := fun (x : Bool) => if x then "1" else "0"
    match Generated.Domains.is_email_in_special_domain db.lower (S a), Generated.Domains.is_email_in_dotless_domain (S a) with
    | .ok sp, .ok dl => s!"ok {b sp} {b dl}"
    | .error e, _ => "err " ++ e.name
    | _, .error e => "err " ++ e.name
  | "gcomments", [t, text] =>
    match Generated.HdrChk.check_comments (ext [] [] [] [] []) (t == "1") (S text) [] with
    | .error e => "err " ++ e.name
    | .ok ts => "ok " ++ showTags ts
  | "gheaders", [t, es, fuzzy, fieldT] =>
    match Generated.HdrChk.check_headers (ext [] [] [] (tableOf fieldT) ((listOf "," fuzzy).map S)) (entriesOf es) (t == "1") [] with
    | .error _ => "err crash"
    | .ok (ts, _, m) => s!"ok {showTags ts} meta={showMeta m}"
  | "gmime", [t, ls, chars, encs] =>
    let w := charsetEnv chars encs
    match Generated.HdrChk.check_mime (ext [] [] [] [] []) w.1 (metaOf ls) (t == "1") w.2 [] with
    | .error _ => "err crash"
    | .ok (ts, enc) => s!"ok {showTags ts} enc={match enc with | some e => H e | none => "~"}"
  | "gproject", [ls, addrT, schemeT, lowerT] =>
    match Generated.HdrChk.check_project (ext (tableOf lowerT) (tableOf addrT) (tableOf schemeT) [] []) (metaOf ls) [] with
    | .error e => "err " ++ e.name
    | .ok ts => "ok " ++ showTags ts
  | "gtranslator", [t, ls, addrT, lowerT] =>
    match Generated.HdrChk.check_translator (ext (tableOf lowerT) (tableOf addrT) [] [] []) (metaOf ls) (t == "1") [] with
    | .error e => "err " ++ e.name
    | .ok ts => "ok " ++ showTags ts
  | _, _ => "bad-op"

end I18n.Driver.Hdr
