import I18n.Model.Cli
import I18n.Model.CliState
import I18n.Driver.Util
/- Line protocol for the models of `cli.check_all` (C03).

   cli checkall <jobs> <completion order a.b.c | -> <token of file 0> <token of file 1> …
       stateless model: each stub file prints its token; answer = the tokens in the order `check_all` writes them
   cli seqcache <full|lossy> <jobs> <execution order i:w.i:w… | -> <file spec> …
       stateful model: a file spec `cs/t1+t2` is a file declaring charset `cs` that decodes the texts t1, t2 through ONE memoised
       function (value `cs:t`); `full` = cache keyed on (text, charset), `lossy` = keyed on the text only; answer = printed values
   cli patchseq <ops over p,c>
       `p` = Checker.patch_environment(), `c` = create a Checker; answer = outcome of each op -/
namespace I18n.Driver.Cli
open I18n.CliState

def progOf (cs : String) : List String → List String → Prog (String × String) String
  | [], acc => .done acc.reverse
  | t :: ts, acc => .ask (t, cs) (fun v => progOf cs ts (v :: acc))

def specProg (spec : String) : Prog (String × String) String :=
  match spec.splitOn "/" with
  | [cs, texts] => progOf cs (texts.splitOn "+") []
  | _ => .done []

def decodeF : String × String → String := fun k => k.2 ++ ":" ++ k.1

def parseSched (s : String) : List (Nat × Nat) :=
  if s == "-" then [] else
    (s.splitOn ".").map fun p =>
      match p.splitOn ":" with
      | [i, w] => (i.toNat!, w.toNat!)
      | _ => (0, 0)

def showRes : Except Err (List String) → String
  | .ok l => "ok " ++ ",".intercalate l
  | .error .environmentNotPatched => "err EnvironmentNotPatched"
  | .error .environmentAlreadyPatched => "err EnvironmentAlreadyPatched"

def patchSeq : List Char → G (String × String) String → List String
  | [], _ => []
  | 'p' :: rest, g =>
    match patchEnvironment g with
    | .ok g1 => "ok" :: patchSeq rest g1
    | .error _ => "EnvironmentAlreadyPatched" :: patchSeq rest g
  | _ :: rest, g =>
    let r := step (O := Unit) id decodeF (fun _ => false) (fun _ spec => specProg spec) (fun _ _ => none) colourOfCode (fun _ l => l) () g "x/"
    (match r.2 with | .ok _ => "ok" | .error _ => "EnvironmentNotPatched") :: patchSeq rest r.1

def handle (op : String) (args : List String) : String :=
  match op, args with
  | "checkall", jobs :: sched :: files =>
    let s := if sched == "-" then [] else (sched.splitOn ".").map (fun t => t.toNat!)
    "ok " ++ ",".intercalate (I18n.Cli.checkAll (fun p => [p]) files jobs.toNat! s)
  | "seqcache", mode :: jobs :: sched :: specs =>
    let proj : String × String → String × String := if mode == "lossy" then (fun k => (k.1, "")) else id
    let g0 : G (String × String) String := { patched := true, cache := [] }
    showRes (checkAll (O := Unit) proj decodeF (fun _ => false) (fun _ spec => specProg spec) (fun _ _ => none) colourOfCode (fun _ l => l) () jobs.toNat! g0 specs (parseSched sched)).2
  | "patchseq", [ops] => ",".intercalate (patchSeq ops.toList fresh)
  | _, _ => "bad-op"

end I18n.Driver.Cli
