import I18n.Model.Cli
import I18n.Driver.Util
/- Line protocol for the model of `cli.check_all` (C03): `cli checkall <jobs> <completion order a.b.c | -> <token of file 0> <token of file 1> …`
   Each stub file prints its token; the model answers with the tokens in the order `check_all` writes them. -/
namespace I18n.Driver.Cli

def handle (op : String) (args : List String) : String :=
  match op, args with
  | "checkall", jobs :: sched :: files =>
    let s := if sched == "-" then [] else (sched.splitOn ".").map (fun t => t.toNat!)
    "ok " ++ ",".intercalate (I18n.Cli.checkAll (fun p => [p]) files jobs.toNat! s)
  | _, _ => "bad-op"

end I18n.Driver.Cli
