import I18n.Model.PluralLR
import I18n.Model.PluralLex
import I18n.Driver.Plural
/- Driver for the LR-driver model: `plurallr parse <hex>` prints the outcome and the sequence of productions the
   run reduced by (comparable with the real rply parser whose action functions the harness wraps). -/
namespace I18n.Driver.PluralLR
open I18n I18n.PluralLR

/-- production the next turn reduces by, if it is a reduction (driver-side bookkeeping only) -/
def reducing (T : Tables) (c : Config) : Option Nat :=
  match c.stack with
  | [] => none
  | (s, _) :: _ =>
    match T.defaultRed s with
    | none => none
    | some d =>
      if d ≠ 0 then some (-d).toNat
      else match T.actionAt s (col c.rest.head?) with
        | some (some t) => if t < 0 then some (-t).toNat else none
        | _ => none

def runTrace (T : Tables) : Nat → Config → List Nat → Result × List Nat
  | 0, _, tr => (.crash, tr.reverse)
  | f + 1, c, tr =>
    let tr' := match reducing T c with | some p => p :: tr | none => tr
    match step T c with
    | .next c' => runTrace T f c' tr'
    | .accept (.expr e) => (.ok e, tr'.reverse)
    | .accept _ => (.crash, tr'.reverse)
    | .parsingError => (.syntaxError, tr'.reverse)
    | .crash => (.crash, tr'.reverse)

def showTrace (tr : List Nat) : String := ",".intercalate (tr.map toString)

/-- rply token name and canonical text of a token -/
def showTok : PluralParse.Tok → String
  | .qm => "IF:?" | .colon => "ELSE::"
  | .bool .or => "OR:||" | .bool .and => "AND:&&"
  | .cmp .eq => "EQ:==" | .cmp .noteq => "EQ:!="
  | .cmp .lt => "CMP:<" | .cmp .lte => "CMP:<=" | .cmp .gt => "CMP:>" | .cmp .gte => "CMP:>="
  | .bin .add => "ADDSUB:+" | .bin .sub => "ADDSUB:-"
  | .bin .mult => "MULDIV:*" | .bin .div => "MULDIV:/" | .bin .mod => "MULDIV:%"
  | .not => "NOT:!" | .lpar => "LPAR:(" | .rpar => "RPAR:)" | .var => "VAR:n"
  | .int n => s!"INT:{n}"

def handle (op : String) (args : List String) : String :=
  match op, args with
  | "lex", [h] =>
    -- the lexer interpreted from the dumped regular expressions
    match I18n.PluralLex.lex (Driver.unhexChars h) with
    | .ok ts => "ok " ++ " ".intercalate (ts.map showTok)
    | .lexingError => "err lex"
    | .crash => "err crash"
  | "parse", [h] =>
    match I18n.PluralParse.lex (Driver.unhexChars h) with
    | .syntaxError => "err syntax ; lex"
    | .valueError => "err ValueError"
    | .ok ts =>
      match tables with
      | none => "err crash ; tables"
      | some T =>
        let (r, tr) := runTrace T (fuelFor ts) ⟨[(0, .bottom)], ts⟩ []
        -- the traced run and the model's `lrParse` are the same loop; print both so that a slip here would show
        let r' := lrParse ts
        let tag := if r == r' then "" else " MISMATCH"
        match r with
        | .ok e => s!"ok {Driver.Plural.showExpr e} ; r={showTrace tr}{tag}"
        | .syntaxError => s!"err syntax ; r={showTrace tr}{tag}"
        | .crash => s!"err crash ; r={showTrace tr}{tag}"
  | _, _ => "bad-op"

end I18n.Driver.PluralLR
