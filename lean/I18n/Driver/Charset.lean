import I18n.Model.Charset
import I18n.Generated.IconvDl
import I18n.Generated.EncodingsFn
import I18n.Generated.LingFn
import I18n.Model.CharsetCns
import I18n.Spec.CharsetIconv
import I18n.Driver.Util
/-!
Driver for the charset model (`charset <op> <args…>`).  Names and texts travel as `.`-separated hex code points (`-` = empty),
byte strings as plain hex (`-` = empty), "no value" as `~`.

* `portable <python 0|1> <name>` → `0|1`
* `propose <name> <codec name | ~>` → `none | some <name> | assert`
* `ascii <missing_ok 0|1> <dec>` → `0|1|ELE`; `<dec>` = `T<text>` | `U` | `L` | `O` | `N`
* `search <name>` → `none | charmap <file> | iconv <name>`
* `cmdecode <file> <bytes>` / `cmencode <file> <text>` → `ok … | err <start> <end>`
* `decloop <bytes> <fuel> <script>` / `encloop <nchars> <fuel> <script>` → `<outcome> trace=<alloc>:<told>,…`;
  `<script>` = `;`-separated `<told>=<reset|~>/<rc>:<consumed>:<written>/<rc>:<consumed>:<written>`, rc ∈ ok,e2big,eilseq,einval,<errno>
* `gdecloop <bytes> <fuel> <script>` / `gencloop <text> <fuel> <script>`: the same through `decode` / `encode` as REGENERATED from the
  current lib/iconv.py (`Generated.IconvDl`; proved equal to the model in `Props/C20Tie.lean`)
* `gportable`, `gpropose`, `gascii`, `gsearch`, `gloader`: as `portable` … `loader`, through the functions REGENERATED from the current
  lib/encodings.py (`Generated.EncodingsFn`; proved equal to the model in `Props/C20Tie.lean`)
* `chars <strict 0|1> <value>` → tokens joined by `,`
* `unrep <joined outcome> <per-character outcomes> <characters joined by ,>` → `ok <characters> | crash`; outcome letters `o e i c`
* `check <name> <is_template> <dec> <codec | ~> <characters | ~ (no language) | ^ (no list)> <oracle>` →
  tags and the encoding kept; `<oracle>` = `;`-separated `<enc name>=<joined outcome>:<per-character outcomes>` (or `~`)
* `loader <len> <raw decode outcome>` → `ok <text> | ude <start> <stop> | crash`
* `euctw-rdec <bytes>` → `ok <text> rt=<0|1> | err <offset> <eilseq|einval>` and `euctw-renc <text>` → `ok <bytes> | err <index>`: the same over
  the tables of the system iconv (`Generated.CharsetCns*`); `rt` = no redundant unit, i.e. encode(decode(b)) = b by `euctw_roundtrip`
* `lookup <name>` → `none | some <codec name>`: the model of `codecs.lookup(name).name` with the tool installed
* `refdec <euctw|koi8t> <bytes> <told>` / `refenc <euctw|koi8t> <text> <told>` → `<rc> <consumed> <written>`: ONE conversion call of the
  reference iconv (`Spec/CharsetIconv.lean`) told `<told>` bytes of room — compared with the call the real glibc answered
* `euctw-dec <bytes> <cns oracle>` → `ok <text> | err <offset> <eilseq|einval>`; `euctw-enc <text> <inverse oracle>` → `ok <bytes> | err <index>`
-/
namespace I18n.Driver.Charset
open I18n I18n.Charset I18n.Generated.Charset

def nameOf (s : String) : Name := if s == "-" then [] else
  (s.splitOn ".").map fun t => t.toList.foldl (fun acc c => acc * 16 + Driver.hexVal c) 0
def bytesOf (s : String) : List UInt8 := if s == "-" then [] else Driver.unhex s
def showName (n : Name) : String :=
  if n.isEmpty then "-" else ".".intercalate (n.map fun c => String.ofList (Nat.toDigits 16 c))
def showBytes (b : List UInt8) : String := if b.isEmpty then "-" else Driver.hexBytes b
def nameOpt (s : String) : Option Name := if s == "~" then none else some (nameOf s)

def decOf (s : String) : Dec :=
  match s.toList with
  | 'T' :: rest => .text (nameOf (String.ofList rest))
  | ['U'] => .ude
  | ['L'] => .lookup
  | ['N'] => .notstr
  | _ => .other

def rcOf (s : String) : Rc :=
  if s == "ok" then .ok else if s == "e2big" then .e2big else if s == "eilseq" then .eilseq
  else if s == "einval" then .einval else .other s.toNat!

def callOf (s : String) : Call :=
  match s.splitOn ":" with
  | [rc, consumed, written] => ⟨rcOf rc, consumed.toNat!, bytesOf written⟩
  | _ => ⟨.other 0, 0, []⟩

def roundOf (s : String) : Round :=
  match s.splitOn "/" with
  | [reset, main, flush] => ⟨if reset == "~" then none else some reset.toNat!, callOf main, callOf flush⟩
  | _ => ⟨some 0, callOf "", callOf ""⟩

def stepOf (script : String) : Step :=
  let table : List (Nat × Round) := (script.splitOn ";").filterMap fun item =>
    match item.splitOn "=" with
    | [told, r] => some (told.toNat!, roundOf r)
    | _ => none
  fun told => match table.find? (·.1 == told) with
    | some (_, r) => r
    | none => ⟨some 999999, callOf "", callOf ""⟩

def showTrace (tr : List Alloc) : String :=
  "trace=" ++ ",".intercalate (tr.map fun a => s!"{a.allocated}:{a.told}")

def showOutcome {α : Type} (f : α → String) : Outcome α → String
  | .ok out => s!"ok {f out}"
  | .unicodeError s e => s!"uerr {s} {e}"
  | .osError n => s!"oserr {n}"
  | .assertion => "assert"
  | .valueError => "valerr"
  | .outOfFuel => "fuel"

def encOf (c : Char) : Enc :=
  if c == 'o' then .ok else if c == 'e' then .encodeError false else if c == 'i' then .encodeError true else .crash

/-- the encode oracle for a fixed list of characters: the joined text gets `joined`, the i-th character `per[i]` -/
def oracle (characters : List (List Nat)) (joined : Enc) (per : List Enc) : List Nat → Enc := fun text =>
  match (characters.zip per).find? (·.1 == text) with
  | some (_, e) => e
  | none => if text == characters.flatten then joined else .crash

def charsOf (s : String) : List (List Nat) := if s == "-" then [] else (s.splitOn ",").map nameOf
def showChars (cs : List (List Nat)) : String := if cs.isEmpty then "-" else ",".intercalate (cs.map showName)

def showTag : Tag → String
  | .boilerplate => "boilerplate-in-content-type"
  | .unknownEncoding e => s!"unknown-encoding({showName e})"
  | .nonAsciiCompatible e => s!"non-ascii-compatible-encoding({showName e})"
  | .nonPortable e none => s!"non-portable-encoding({showName e})"
  | .nonPortable e (some p) => s!"non-portable-encoding({showName e},=>,{showName p})"
  | .unrepresentable e cs => s!"unrepresentable-characters({showName e},{showChars cs})"

def tableOf (file : Name) : List Nat := ((charmaps.find? (·.1 == file)).map (·.2)).getD []

def showCall (c : Call) : String :=
  let rc := match c.rc with
    | .ok => "ok" | .e2big => "e2big" | .eilseq => "eilseq" | .einval => "einval" | .other n => toString n
  s!"{rc} {c.consumed} {showBytes c.written}"

def handle (op : String) (args : List String) : String :=
  match op, args with
  | "portable", [py, n] => if isPortable portableEncodings (py == "1") (nameOf n) then "1" else "0"
  | "propose", [n, codec] =>
    match propose portableEncodings pycodecToEncoding (fun _ => nameOpt codec) (nameOf n) with
    | .error () => "assert"
    | .ok none => "none"
    | .ok (some p) => s!"some {showName p}"
  | "ascii", [mo, d] =>
    match isAsciiCompatible interestingStr (decOf d) (mo == "1") with
    | .error () => "ELE"
    | .ok b => if b then "1" else "0"
  | "search", [n] =>
    match codecSearch unmangle portableEncodings extraEncodings (charmaps.map (·.1)) (nameOf n) with
    | .notOurs => "none"
    | .charmap f => s!"charmap {showName f}"
    | .iconv e => s!"iconv {showName e}"
  -- `gportable` / `gpropose` / `gascii` / `gsearch` / `gloader`: the same over the functions REGENERATED from lib/encodings.py
  -- (Generated.EncodingsFn, tools/translate/encodings2lean.py)
  | "gportable", [py, n] =>
    match I18n.Generated.EncodingsFn.is_portable_encoding portableEncodings (nameOf n) (py == "1") with
    | .ok b => if b then "1" else "0"
    | .error _ => "exc"
  | "gpropose", [n, codec] =>
    match I18n.Generated.EncodingsFn.propose_portable_encoding portableEncodings pycodecToEncoding (fun _ => nameOpt codec) (nameOf n) true with
    | .error .assertion => "assert"
    | .error _ => "exc"
    | .ok none => "none"
    | .ok (some p) => s!"some {showName p}"
  | "gascii", [mo, d] =>
    match I18n.Generated.EncodingsFn.is_ascii_compatible_encoding (fun _ _ => decOf d) [] (mo == "1") with
    | .error .encodingLookup => "ELE"
    | .error _ => "exc"
    | .ok b => if b then "1" else "0"
  | "gsearch", [n] =>
    match (I18n.Generated.EncodingsFn._codec_search_function portableEncodings extraEncodings unmangle
        (fun f => (charmaps.find? (·.1 == f)).map (·.2)) (nameOf n)).map EPy.searchOf with
    | .ok .notOurs => "none"
    | .ok (.charmap f) => s!"charmap {showName f}"
    | .ok (.iconv e) => s!"iconv {showName e}"
    | .error _ => "exc"
  | "gloader", [len, raw] =>
    let r : RawDecode := match raw.toList with
      | 'T' :: rest => .text (nameOf (String.ofList rest))
      | 'D' :: rest => match nameOf (String.ofList rest) with
        | [a, b] => .ude a b
        | _ => .other
      | ['U'] => .unicodeError
      | _ => .other
    match I18n.Generated.EncodingsFn.decode (fun _ _ => r) (List.replicate len.toNat! 0) [] with
    | .ok cs => s!"ok {showName cs}"
    | .error (.unicodeDecode a b) => s!"ude {a} {b}"
    | .error _ => "crash"
  | "cmdecode", [f, b] =>
    match charmapDecode (tableOf (nameOf f)) (bytesOf b) with
    | .ok cs => s!"ok {showName cs}"
    | .error (s, e) => s!"err {s} {e}"
  | "cmencode", [f, t] =>
    match charmapEncode (tableOf (nameOf f)) (nameOf t) with
    | .ok bs => s!"ok {showBytes bs}"
    | .error (s, e) => s!"err {s} {e}"
  | "decloop", [b, fuel, script] =>
    let (o, tr) := decodeDl (stepOf script) (bytesOf b) fuel.toNat!
    s!"{showOutcome showName o} {showTrace tr}"
  | "encloop", [n, fuel, script] =>
    let (o, tr) := encodeDl (stepOf script) n.toNat! fuel.toNat!
    s!"{showOutcome showBytes o} {showTrace tr}"
  -- `gdecloop` / `gencloop`: the same over `decode` / `encode` REGENERATED from lib/iconv.py (Generated.IconvDl, tools/translate/iconv2lean.py);
  -- `gencloop` takes the text itself
  | "gdecloop", [b, fuel, script] =>
    let (o, tr) := Py.observe (I18n.Generated.IconvDl.decode ⟨fun _ _ => none, fun _ _ => stepOf script, none⟩ (bytesOf b)
      (Py.lit "X-SCRIPTED") (Py.lit "strict") fuel.toNat! Py.World.init)
    match Py.toOutcome o with
    | some o => s!"{showOutcome showName o} {showTrace tr}"
    | none => s!"other {showTrace tr}"
  | "gencloop", [t, fuel, script] =>
    let (o, tr) := Py.observe (I18n.Generated.IconvDl.encode ⟨fun _ _ => none, fun _ _ => stepOf script, none⟩ (nameOf t)
      (Py.lit "X-SCRIPTED") (Py.lit "strict") fuel.toNat! Py.World.init)
    match Py.toOutcome o with
    | some o => s!"{showOutcome showBytes o} {showTrace tr}"
    | none => s!"other {showTrace tr}"
  | "chars", [strict, v] => showChars (getCharacters (strict == "1") (nameOf v))
  | "unrep", [j, per, cs] =>
    let characters := charsOf cs
    match getUnrepresentable (oracle characters (encOf (j.toList.headD 'c')) (per.toList.map encOf)) characters with
    | .error () => "crash"
    | .ok r => s!"ok {showChars r}"
  -- `gunrep`: the same through `Language.get_unrepresentable_characters` REGENERATED from lib/ling.py (Generated.LingFn,
  -- tools/translate/ling2lean.py); the language lists exactly `<characters>`
  | "gunrep", [j, per, cs] =>
    let characters := charsOf cs
    match I18n.Generated.LingFn.get_unrepresentable_characters (fun _ _ _ => some characters)
        (oracle characters (encOf (j.toList.headD 'c')) (per.toList.map encOf)) ⟨[120, 120], none, none⟩ false with
    | .error _ => "crash"
    | .ok none => "none"
    | .ok (some r) => s!"ok {showChars r}"
  | "check", [n, tmpl, d, codec, cs, orc] =>
    let characters : Option (Option (List (List Nat))) :=
      if cs == "~" then none else if cs == "^" then some none else some (some (charsOf cs))
    let chars := match characters with | some (some c) => c | _ => []
    let entries : List (Name × Enc × List Enc) := if orc == "~" then [] else (orc.splitOn ";").filterMap fun item =>
      match item.splitOn "=" with
      | [e, rest] => match rest.splitOn ":" with
        | [j, per] => some (nameOf e, encOf (j.toList.headD 'c'), per.toList.map encOf)
        | _ => none
      | _ => none
    let env : Env := {
      interestingStr := interestingStr, tbl := portableEncodings, c2e := pycodecToEncoding,
      dec := fun _ => decOf d, lookup := fun _ => nameOpt codec,
      encode := fun e text => match entries.find? (·.1 == e) with
        | some (_, j, per) => oracle chars j per text
        | none => .crash }
    match checkCharset env (nameOf n) (tmpl == "1") characters with
    | .error () => "crash"
    | .ok (tags, enc) =>
      let ts := if tags.isEmpty then "-" else ";".intercalate (tags.map showTag)
      s!"ok {ts} enc={match enc with | none => "~" | some e => showName e}"
  | "loader", [len, raw] =>
    -- `<raw>` = `T<text>` | `D<start>.<stop>` (hex) | `U` (bare UnicodeError) | `O`
    let r : RawDecode := match raw.toList with
      | 'T' :: rest => .text (nameOf (String.ofList rest))
      | 'D' :: rest => match nameOf (String.ofList rest) with
        | [a, b] => .ude a b
        | _ => .other
      | ['U'] => .unicodeError
      | _ => .other
    match loaderDecode len.toNat! r with
    | .text cs => s!"ok {showName cs}"
    | .ude a b => s!"ude {a} {b}"
    | .crash => "crash"
  | "euctw-dec", [b, orc] =>
    -- oracle: `;`-separated `<plane>.<row>.<col>=<code point>` (hex), the table entries the input could touch
    let entries : List ((Nat × Nat × Nat) × Nat) := if orc == "~" then [] else (orc.splitOn ";").filterMap fun item =>
      match item.splitOn "=" with
      | [k, v] => match nameOf k with
        | [p, r, c] => some ((p, r, c), (nameOf v).headD 0)
        | _ => none
      | _ => none
    let cns : CnsTable := fun p r c => (entries.find? (·.1 == (p, r, c))).map (·.2)
    match eucTwDecode cns (bytesOf b) with
    | .ok cs => s!"ok {showName cs}"
    | .error (i, incomplete) => s!"err {i} {if incomplete then "einval" else "eilseq"}"
  | "euctw-enc", [t, orc] =>
    -- oracle: `;`-separated `<code point>=<plane>.<row>.<col>`
    let entries : List (Nat × (Nat × Nat × Nat)) := if orc == "~" then [] else (orc.splitOn ";").filterMap fun item =>
      match item.splitOn "=" with
      | [k, v] => match nameOf v with
        | [p, r, c] => some ((nameOf k).headD 0, (p, r, c))
        | _ => none
      | _ => none
    let inv : CnsInverse := fun ch => (entries.find? (·.1 == ch)).map (·.2)
    match eucTwEncode inv (nameOf t) with
    | .ok bs => s!"ok {showBytes bs}"
    | .error i => s!"err {i}"
  | "euctw-rdec", [b] =>
    -- the tables of the system iconv (Generated.CharsetCns*): text + "does encode(decode(b)) = b hold" as the theorem predicts
    let bs := bytesOf b
    match eucTwDecodeReal bs with
    | .ok cs => s!"ok {showName cs} rt={if eucTwNoRedundant cnsReal bs.length bs then 1 else 0}"
    | .error (i, incomplete) => s!"err {i} {if incomplete then "einval" else "eilseq"}"
  | "euctw-renc", [t] =>
    match eucTwEncodeReal (nameOf t) with
    | .ok bs => s!"ok {showBytes bs}"
    | .error i => s!"err {i}"
  | "lookup", [n] =>
    match registryLookup pyAliases pyModules unmangle portableEncodings extraEncodings (nameOf n) with
    | none => "none"
    | some c => s!"some {showName c}"
  | "refdec", [cs, b, told] =>
    let bs := bytesOf b
    let unit : UnitFn := if cs == "euctw" then eucUnitFn cnsReal else tableUnitFn (iconv_KOI8_T.map fun o => o.getD undefinedCp)
    showCall (refDecGo unit bs.length bs 0 told.toNat!)
  | "refenc", [cs, t, told] =>
    let enc := if cs == "euctw" then eucTwEncodeChar invReal else sbEncodeChar (iconv_KOI8_T.map fun o => o.getD undefinedCp)
    showCall (refEncGo enc (nameOf t) 0 told.toNat!)
  | _, _ => "bad-op"

end I18n.Driver.Charset
