import I18n.Model.PyFmt
import I18n.Model.PyFmtG
import I18n.Spec.CPyPercent
import I18n.Driver.Util
/- Driver for the Python %-format model and the CPython `%` reference:
   `pyfmt parse <hex code points>`, `pyfmt parse-nowarn <hex>`, `pyfmt plain <hex>`,
   `pyfmt cpy <hex format> <args>` with `<args>` = `T:v,v,…` | `D:<hexkey>=v;…` | `S:v`, `v` = `i<decimal>` | `f` | `s<len>` | `o`. -/
namespace I18n.Driver.PyFmt
open I18n I18n.PyFmt

def showEntry (e : Entry) : String :=
  let k := match e.kind with | .width => "W" | .prec => "P" | .conv => "C"
  s!"{k}:{e.type}@{e.parent}"

def showItem : Item → String
  | .lit cs => s!"L:{Driver.hexChars cs}"
  | .conv tp => s!"D:{tp}"

def showResult : Except PErr Result → String
  | .error e => s!"err {e.name}"
  | .ok r =>
    let items := ",".intercalate (r.items.map showItem)
    let seq := ",".intercalate (r.seq.map showEntry)
    let map := ";".intercalate (r.map.map fun (k, es) => s!"{Driver.hexChars k}={",".intercalate (es.map showEntry)}")
    let ws := ",".intercalate (r.warnings.map Warn.name)
    let sc := ",".intercalate (r.seqConversions.map fun e => toString e.parent)
    s!"ok items=[{items}] seq=[{seq}] map=[{map}] warnings=[{ws}] sc=[{sc}]"

open I18n.Spec.CPyPercent in
def parseVal (t : String) : Val :=
  match t.toList with
  | 'i' :: r => .int (Driver.parseInt (String.ofList r))
  | 'f' :: _ => .float
  | 's' :: r => .str (Driver.parseInt (String.ofList r)).toNat
  | _ => .other

open I18n.Spec.CPyPercent in
def parseArgs (t : String) : Args :=
  let body := (t.drop 2).toString
  if t.startsWith "T:" then
    .tuple (if body.isEmpty then [] else (body.splitOn ",").map parseVal)
  else if t.startsWith "D:" then
    .dict (if body.isEmpty then [] else (body.splitOn ";").map fun kv =>
      match kv.splitOn "=" with
      | [k, v] => (Driver.unhexChars k, parseVal v)
      | _ => ([], .other))
  else .single (parseVal body)

open I18n.Spec.CPyPercent in
def showCpy : Except Err Unit → String
  | .ok () => "ok"
  | .error e => s!"err {e.name}"

def handle (op : String) (args : List String) : String :=
  match op, args with
  | "parse", [h] => showResult (parse (Driver.unhexChars h))
  -- the parser with `Conversion.__init__` REGENERATED from lib/strformat/python.py (`I18n.Generated.PyFmtConv`)
  | "gparse", [h] => showResult (G.parseG (Driver.unhexChars h))
  | "gparse-nowarn", [h] => showResult (G.parseWG false (Driver.unhexChars h))
  | "parse-nowarn", [h] => showResult (parseW false (Driver.unhexChars h))
  | "plain", [h] => let s := Driver.unhexChars h; if plainPercent (s.length + 1) s then "plain" else "not-plain"
  | "cpy", [h, a] => showCpy (Spec.CPyPercent.format (Driver.unhexChars h) (parseArgs a))
  | _, _ => "bad-op"

end I18n.Driver.PyFmt
