import I18n.Model.Deb
import I18n.Driver.Util
/- Driver for the packaging model.
   `deb fakepath <real_root|~> <fake_root|~> <path>`                         (`~` in the first slot: `fake_root is None`)
   `deb checkfile <unpack 0|1> <ignore> <path> <tmpdir> <unpackOk 0|1> <walk> <links> <nonfiles> <raw>`
     ignore   : names joined by `,`                         (`~` = none)
     walk     : `root:name,name;root:;…`                    (`~` = empty)
     links    : paths joined by `,` for which islink is true; nonfiles: paths for which isfile is false
     raw      : `path=name|prio|rest/name|prio|rest[!];…`   (`!` = check() raised after these calls; unlisted path: no calls)
   every string is `.`-separated hex code points (`-` = empty string). -/
namespace I18n.Driver.Deb
open I18n I18n.Deb

def splitNonEmpty (s : String) (sep : String) : List String :=
  if s == "~" then [] else (s.splitOn sep).filter (· ≠ "")

def hexLine (l : Line) : String := s!"{hexChars l.prio}:{hexChars l.target}:{hexChars l.rest}"

def parseCall (s : String) : Option TagCall :=
  match s.splitOn "|" with
  | [n, p, r] => some ⟨unhexChars n, unhexChars p, unhexChars r⟩
  | _ => none

def parseRaw (s : String) : List (Str × List TagCall × Bool) :=
  (splitNonEmpty s ";").filterMap fun item =>
    match item.splitOn "=" with
    | [p, body] =>
      let raised := body.endsWith "!"
      let body := if raised then (body.dropEnd 1).toString else body
      let calls := (if body == "" then [] else body.splitOn "/").filterMap parseCall
      some (unhexChars p, calls, raised)
    | _ => none

def parseWalk (s : String) : List (Str × List Str) :=
  (splitNonEmpty s ";").filterMap fun item =>
    match item.splitOn ":" with
    | [r, names] => some (unhexChars r, (if names == "" then [] else names.splitOn ",").map unhexChars)
    | _ => none

def showExit : Exit → String
  | .normal => "normal"
  | .valueError => "ValueError"
  | .raised => "raised"

def handle (op : String) (args : List String) : String :=
  match op, args with
  | "fakepath", [r, f, p] =>
    let root : Option (Str × Str) := if r == "~" then none else some (unhexChars r, unhexChars f)
    match fakePath root (unhexChars p) with
    | .ok q => s!"ok {hexChars q}"
    | .error _ => "err ValueError"
  | "checkfile", [unpack, ignore, path, tmpdir, unpackOk, walk, links, nonfiles, raw] =>
    let linkSet := (splitNonEmpty links ",").map unhexChars
    let nonfileSet := (splitNonEmpty nonfiles ",").map unhexChars
    let table := parseRaw raw
    let w : World := {
      tmpdir := unhexChars tmpdir, unpackOk := unpackOk == "1", walk := parseWalk walk,
      islink := fun p => linkSet.contains p, isfile := fun p => !nonfileSet.contains p }
    let rawFn : Str → List TagCall × Bool := fun p =>
      match table.find? (fun e => e.1 == p) with
      | some e => e.2
      | none => ([], false)
    let o : Options := ⟨(splitNonEmpty ignore ",").map unhexChars, none, unpack == "1"⟩
    let r := checkFile w rawFn o (unhexChars path)
    s!"{showExit r.exit} n={r.lines.length}" ++ String.join (r.lines.map fun l => " | " ++ hexLine l)
  | _, _ => "bad-op"

end I18n.Driver.Deb
