import I18n.Model.Pipeline
import I18n.Driver.Util
/- Driver for the pipeline model (C01):
   `pipeline check <stat 0/1> <ext po|pot|mo|other> <first> <retry> <stages>`
        first/retry = `ok` or `<class name>:<errno 0/1>:<text 0/1>` (what the loader raises, classified through the generated tables)
        stages = `_` or `,`-joined `<n>` / `<n>!` (a stage printing n tags, `!` = then raising)
        → `<lines joined by ,> <uncaught 0/1>`
   `pipeline main <lang absent|valid|invalid> <jobs> <files>`  files = `_` or `,`-joined `<n>` / `<n>!`  → `<stdout tokens> <stderr 0/1> <rc>`
   `pipeline file <unpack 0/1> <deb n|f|m:<members>> <regular n or n!>`   members = `_` or `;`-joined `<n>` / `<n>!`
   `pipeline cstring <hex>` / `pystring` / `pybstring` / `perlstring <hex>` → `<fmt 0/1> <tags joined by ,> <uncaught class or ->`
   `pipeline dispatch <file> <func> <ord> <class name>` → `<index of the clause or ->` -/
namespace I18n.Driver.Pipeline
open I18n I18n.Check I18n.ExcFlow I18n.Pipeline I18n.Generated.ExcMap

def parseExt : String → Ext
  | "po" => .po | "pot" => .pot | "mo" => .mo | _ => .other

def parseLoad (retry : Bool) (s : String) : Except LoadErr Unit :=
  if s == "ok" then .ok () else
    match s.splitOn ":" with
    | [name, en, tx] =>
      let r : Raised := ⟨clsId name, en == "1", tx == "1"⟩
      .error (if retry then loadErrOfRetry r else loadErrOf r)
    | _ => .error .other

def parseRuns (sep : String) (s : String) : List (Nat × Bool) :=
  if s == "_" then [] else
    (s.splitOn sep).map fun t =>
      let raises := t.endsWith "!"
      let n := ((t.toList.filter Char.isDigit).foldl (fun acc c => acc * 10 + (c.toNat - '0'.toNat)) 0)
      (n, raises)

def showLine : Line String → String
  | .osError => "os-error" | .unknownFileType => "unknown-file-type" | .invalidMoFile => "invalid-mo-file"
  | .syntaxErrorInPoFile => "syntax-error-in-po-file" | .brokenEncoding => "broken-encoding" | .tag t => t

def joinOr (l : List String) : String := if l.isEmpty then "-" else ",".intercalate l

def fileRun (i : Nat) (r : Nat × Bool) : Cli.FileRun := ⟨(List.range r.1).map (fun k => s!"f{i}.{k}"), r.2⟩

def handle (op : String) (args : List String) : String :=
  match op, args with
  | "check", [st, ext, first, retry, stages] =>
    let sts : List (Stage Nat String) := (parseRuns "," stages).zipIdx.map fun (r, i) =>
      fun s => (s + 1, (List.range r.1).map (fun k => s!"s{i}.{k}"), r.2)
    let load : Bool → Except LoadErr Unit := fun b => if b then parseLoad true retry else parseLoad false first
    let run := check (st == "1") (parseExt ext) load (fun _ _ => 0) sts
    joinOr (run.lines.map showLine) ++ " " ++ (if run.uncaught then "1" else "0")
  | "main", [lang, jobs, files] =>
    let l : Cli.LangOpt := if lang == "absent" then .absent else if lang == "valid" then .valid else .invalid
    let fs := (parseRuns "," files).zipIdx
    let p := Cli.main l (fun (x : (Nat × Bool) × Nat) => fileRun x.2 x.1) fs jobs.toNat!
    joinOr p.stdout ++ " " ++ (if p.stderr then "1" else "0") ++ " " ++ toString p.rc
  | "file", [unpack, deb, regular] =>
    let reg := (parseRuns "," regular).headD (0, false)
    let d : Nat → Cli.DebOutcome Nat := fun _ =>
      if deb == "n" then .notPackage else if deb == "f" then .unpackFailed
      else .members (List.range (parseRuns ";" (deb.drop 2).toString).length |>.map (· + 1))
    let ms := parseRuns ";" (deb.drop 2).toString
    let r := Cli.checkFile (unpack == "1") d (fun _ => fileRun 0 reg) (fun i => fileRun i (ms.getD (i - 1) (0, false))) 0
    joinOr r.lines ++ " " ++ (if r.uncaught then "1" else "0")
  | "cstring", [h] =>
    let r := cCheckString (Driver.unhexChars h)
    (if r.fmt.isSome then "1" else "0") ++ " " ++ joinOr r.tags ++ " " ++ (match r.uncaught with | none => "-" | some c => classNames.getD c "?")
  | "pystring", [h] =>
    let r := pyCheckString (Driver.unhexChars h)
    (if r.fmt.isSome then "1" else "0") ++ " " ++ joinOr r.tags ++ " " ++ (match r.uncaught with | none => "-" | some c => classNames.getD c "?")
  | "pybstring", [h] =>
    let r := pybraceCheckString (Driver.unhexChars h)
    (if r.fmt.isSome then "1" else "0") ++ " " ++ joinOr r.tags ++ " " ++ (match r.uncaught with | none => "-" | some c => classNames.getD c "?")
  | "perlstring", [h] =>
    let r := perlbraceCheckString (Driver.unhexChars h)
    (if r.fmt.isSome then "1" else "0") ++ " " ++ joinOr r.tags ++ " " ++ (match r.uncaught with | none => "-" | some c => classNames.getD c "?")
  | "dispatch", [file, func, ord, name] =>
    let t := site file func ord.toNat!
    match t.handlers.findIdx? (catches · (clsId name)) with
    | some i => toString i
    | none => "-"
  | _, _ => "bad-op"

end I18n.Driver.Pipeline
