import I18n.Model.CFmt
import I18n.Driver.Util
/- Driver for the C format-string model: `cfmt parse <hex code points>`. -/
namespace I18n.Driver.CFmt
open I18n I18n.CFmt I18n.Spec.Printf

def showEntry (e : Entry) : String :=
  let k := match e.kind with | .width => "W" | .prec => "P" | .conv => "C"
  s!"{k}:{e.type.replace " " "~"}@{e.parent}"

def showResult : Except CErr Result → String
  | .error e => s!"err {e.name}"
  | .ok r =>
    let args := ";".intercalate (r.arguments.map fun uses => ",".intercalate (uses.map showEntry))
    let ws := ",".intercalate (r.warnings.map Warn.name)
    s!"ok n={r.arguments.length} items={r.nitems} args=[{args}] warnings=[{ws}]"

def showItems (s : List Char) : String :=
  let (items, complete) := scan s
  let one : Item → String
    | .lit cs => s!"L{cs.length}"
    | .dir d => match itemInfo (.dir d) with
      | some (tp, integer) => s!"D:{tp.replace " " "~"}:{if integer then 1 else 0}"
      | none => "D:?"
  s!"{if complete then "complete" else "partial"} " ++ " ".intercalate (items.map one)

def handle (op : String) (args : List String) : String :=
  match op, args with
  | "parse", [h] => showResult (parse (Driver.unhexChars h))
  | "parse-nowarn", [h] => showResult (parseW false (Driver.unhexChars h))
  | "items", [h] => showItems (Driver.unhexChars h)
  | _, _ => "bad-op"

end I18n.Driver.CFmt
