import I18n.Generated.TagsFmt
import I18n.Model.Tags
import I18n.Model.TagsLive
import I18n.Driver.Util
/- Driver for the tags model.  Strings travel as `.`-separated hexadecimal code points (`-` = empty), bytes as hex
   pairs (`-` = empty); an extra is `<kind>:<payload>` with kind s (safestr), u (str), b (bytes), i (int). -/
namespace I18n.Driver.Tags
open I18n I18n.Tags

def unhexCps (s : String) : Str :=
  if s == "-" then [] else
    (s.splitOn ".").map fun t => t.toList.foldl (fun acc c => acc * 16 + Driver.hexVal c) 0

def hexCps (s : Str) : String :=
  if s.isEmpty then "-" else ".".intercalate (s.map fun c => String.ofList (Nat.toDigits 16 c))

def parseExtra (s : String) : Option Extra :=
  match s.splitOn ":" with
  | ["s", p] => some (.safe (unhexCps p))
  | ["u", p] => some (.str (unhexCps p))
  | ["b", p] => some (.bytes (if p == "-" then [] else Driver.unhex p))
  | ["i", p] => some (.int (Driver.parseInt p))
  | _ => none

def parseExtras (xs : List String) : Option (List Extra) := xs.mapM parseExtra

/-- `a:<str>` positional, `w:<key>:<str>` keyword -/
def parseFmtArgs : List String → Option (List Str × List (Str × Str))
  | [] => some ([], [])
  | x :: rest => do
    let (as, ks) ← parseFmtArgs rest
    match x.splitOn ":" with
    | ["a", p] => some (unhexCps p :: as, ks)
    | ["w", k, p] => some (as, (unhexCps k, unhexCps p) :: ks)
    | _ => none

/-- `a:<kind>:<payload>` positional, `w:<key>:<kind>:<payload>` keyword -/
def parseSafeArgs : List String → Option (List Extra × List (Str × Extra))
  | [] => some ([], [])
  | x :: rest => do
    let (as, ks) ← parseSafeArgs rest
    match x.splitOn ":" with
    | ["a", k, p] => do let e ← parseExtra s!"{k}:{p}"; some (e :: as, ks)
    | ["w", key, k, p] => do let e ← parseExtra s!"{k}:{p}"; some (as, (unhexCps key, e) :: ks)
    | _ => none

def showFmt : Except FmtErr Str → String
  | .ok s => s!"ok {hexCps s}"
  | .error .valueError => "err ValueError"
  | .error .indexError => "err IndexError"
  | .error .keyError => "err KeyError"
  | .error .unsupported => "err unsupported"

def handle (op : String) (args : List String) : String :=
  match op, args with
  | "escape", [x] =>
    match parseExtra x with
    | some e => s!"ok {hexCps (escape liveDb e)}"
    | none => "bad-op"
  -- `gescape` / `gpriority` / `gformat` / `gsformat`: the same over the definitions REGENERATED from lib/tags.py (Generated.TagsFmt)
  | "gescape", [x] =>
    match parseExtra x with
    | some e => showFmt (I18n.Generated.TagsFmt._escape liveDb e)
    | none => "bad-op"
  | "gpriority", [s, c] =>
    match Severity.ofRank s.toNat!, Certainty.ofRank c.toNat! with
    | some s, some c =>
      match I18n.Generated.TagsFmt.Tag.get_priority liveDb ⟨[], s, c⟩ with
      | .ok l => s!"ok {String.ofList (l.map Char.ofNat)}"
      | .error _ => "err"
    | _, _ => "err bad-rank"
  | "gformat", s :: c :: name :: path :: col :: on :: off :: extras =>
    match Severity.ofRank s.toNat!, Certainty.ofRank c.toNat!, parseExtras extras with
    | some s, some c, some xs =>
      let t : Tag := ⟨unhexCps name, s, c⟩
      showFmt (I18n.Generated.TagsFmt.Tag.format liveDb (unhexCps on, unhexCps off) t (unhexCps path) xs (col == "1"))
    | _, _, _ => "bad-op"
  | "gsformat", template :: rest =>
    match parseSafeArgs rest with
    | some (as, ks) => showFmt (I18n.Generated.TagsFmt.safe_format liveDb (unhexCps template) as ks)
    | none => "bad-op"
  | "reprs", [s] => s!"ok {hexCps (reprStr liveDb (unhexCps s))}"
  | "reprb", [b] => s!"ok {hexCps (reprBytes (if b == "-" then [] else Driver.unhex b))}"
  | "strint", [n] => s!"ok {hexCps (strInt (Driver.parseInt n))}"
  | "issafe", [s] => if isSafe (unhexCps s) then "ok 1" else "ok 0"
  | "priority", [s, c] =>
    match Severity.ofRank s.toNat!, Certainty.ofRank c.toNat! with
    | some s, some c => s!"ok {(priority s c).toChar}"
    | _, _ => "err bad-rank"
  | "format", s :: c :: name :: path :: col :: on :: off :: extras =>
    match Severity.ofRank s.toNat!, Certainty.ofRank c.toNat!, parseExtras extras with
    | some s, some c, some xs =>
      let t : Tag := ⟨unhexCps name, s, c⟩
      let colour := if col == "1" then some (unhexCps on, unhexCps off) else none
      s!"ok {hexCps (format liveDb t (unhexCps path) xs colour)}"
    | _, _, _ => "bad-op"
  | "pyformat", template :: rest =>
    match parseFmtArgs rest with
    | some (as, ks) => showFmt (pyFormat (unhexCps template) as ks)
    | none => "bad-op"
  | "sformat", template :: rest =>
    match parseSafeArgs rest with
    | some (as, ks) => showFmt (safeFormat liveDb (unhexCps template) as ks)
    | none => "bad-op"
  | "msgrepr", [template, msgid, ctxt] =>
    showFmt (messageRepr liveDb (unhexCps msgid) (if ctxt == "~" then none else some (unhexCps ctxt)) (unhexCps template))
  | "tag", ign :: name :: path :: extras =>
    match parseExtras extras with
    | some xs =>
      let n := unhexCps name
      let cfg : Config := { registry := liveRegistry, ignore := if ign == "1" then [n] else [], path := unhexCps path,
                            colours := fun _ => ([], []) }
      match checkerTag liveDb cfg n xs with
      | .ok out => s!"ok {hexCps out}"
      | .error .dataIntegrity => "err DataIntegrityError"
    | none => "bad-op"
  | _, _ => "bad-op"

end I18n.Driver.Tags
