import I18n.Generated.GettextPf
import I18n.Model.ChkPluralsGen
import I18n.Model.CheckPlurals
import I18n.Generated.PluralForms
import I18n.Driver.Util
/- Driver for `check_plurals`:
   research <s>: the REFERENCE regex engine (`Spec.PluralFormsRe.search`) on the live pattern's tree — compared with Python's `re`
   parsepf <s>: the model's header reader
   run <isTemplate> <npf> <pf…> <correct: N | k c1…ck e1…ek> <nmsgs> (<obsolete> <hasPlural> <translated> <nforms> <repr>)… -/
namespace I18n.Driver.CheckPlurals
open I18n I18n.CheckPlurals

def showExtra : Extra → String
  | .str s => "s:" ++ Driver.hexChars s
  | .safe s => "S:" ++ Driver.hexChars s
  | .int n => s!"i:{n}"

def showTag (t : TagCall) : String :=
  t.name ++ "(" ++ ",".intercalate (t.extras.map showExtra) ++ ")"

def showPre : Option Preimage → String
  | none => "none"
  | some p =>
    let keys := sortedKeys p
    "/".intercalate (keys.map fun k =>
      s!"{k}:" ++ ",".intercalate (((p.find? (·.1 = k)).map (·.2)).getD [] |>.map toString))

def takeN (n : Nat) (xs : List String) : List String × List String := (xs.take n, xs.drop n)

partial def parseMsgs : Nat → List String → List MsgFacts
  | 0, _ => []
  | k + 1, o :: h :: t :: nf :: r :: rest =>
    ⟨o == "1", h == "1", t == "1", nf.toNat!, Driver.unhexChars r⟩ :: parseMsgs k rest
  | _, _ => []

def handle (op : String) (args : List String) : String :=
  match op, args with
  | "run", tmpl :: npf :: rest | "grun", tmpl :: npf :: rest =>
    let (pfs, rest) := takeN npf.toNat! rest
    let (correct, esc, rest) : Option (List (List Char)) × List (List Char) × List String :=
      match rest with
      | "N" :: r => (none, [], r)
      | k :: r =>
        let (cs, r1) := takeN k.toNat! r
        let (es, r2) := takeN k.toNat! r1
        (some (cs.map Driver.unhexChars), es.map Driver.unhexChars, r2)
      | [] => (none, [], [])
    match rest with
    | nm :: r =>
      let inp : Input := ⟨pfs.map Driver.unhexChars, correct, esc, parseMsgs nm.toNat! r, tmpl == "1"⟩
      -- `grun`: everything after the parse of the header value REGENERATED from lib/check/__init__.py (Generated.ChkPlurals, chkplurals2lean.py)
      match (if op == "grun" then I18n.CheckPlurals.GenChk.checkPlurals inp else checkPlurals inp) with
      | .error ex => s!"err {ex.name}"
      | .ok out => "ok " ++ ";".intercalate (out.tags.map showTag) ++ " | " ++ showPre out.preimage
    | [] => "bad-op"
  | "research", [h] =>
    match Spec.PluralFormsRe.search Generated.PluralForms.headerRe (Driver.unhexChars h) with
    | none => "none"
    | some f =>
      let g (n : Nat) : String := match f.group n with | some t => Driver.hexChars t | none => "N"
      s!"ok {Driver.hexChars f.pre} {Driver.hexChars f.matched} {Driver.hexChars f.post} {g 1} {g 2}"
  | "parsepf", [h] =>
    match parsePluralForms (Driver.unhexChars h) with
    | .ok n _ lj rj => s!"ok {n} {Driver.hexChars lj} {Driver.hexChars rj}"
    | .syntaxError => "err syntax"
    | .valueError => "err ValueError"
  | "parsepfs", [h] =>
    match parsePluralFormsStrict (Driver.unhexChars h) with
    | .ok n _ _ _ => s!"ok {n}"
    | .syntaxError => "err syntax"
    | .valueError => "err ValueError"
  -- `gparsepf` / `gparsepfs`: the definitions REGENERATED from lib/gettext.py (Generated.GettextPf, tools/translate/gettextpf2lean.py)
  | "gparsepf", [h] =>
    match I18n.Generated.GettextPf.parse_plural_forms_lax (Driver.unhexChars h) with
    | .ok (n, _, lj, rj) => s!"ok {n} {Driver.hexChars lj} {Driver.hexChars rj}"
    | .error .syntax => "err syntax"
    | .error .value => "err ValueError"
  | "gparsepfs", [h] =>
    match I18n.Generated.GettextPf.parse_plural_forms_strict (Driver.unhexChars h) with
    | .ok (n, _) => s!"ok {n}"
    | .error .syntax => "err syntax"
    | .error .value => "err ValueError"
  | _, _ => "bad-op"

end I18n.Driver.CheckPlurals
