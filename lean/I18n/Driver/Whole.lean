import I18n.Model.MetaReal
import I18n.Driver.Util
import I18n.Driver.Hdr
import I18n.Driver.Msg
import I18n.Driver.Po
import I18n.Driver.Mo
import I18n.Driver.Locale
/-!
Driver for the COMPOSED checker (`whole …`): the loader models (C10 / C08) and `Real.pipeline` (the stage models of C15, C19,
C07, C20, C18, C16, C14) on the bytes of one file — `Real.wholeCheck`, the very function `Props/C17.lean` `whole_is_composition`
is about.  Not part of any proof.

`whole check <path> <file-type|~> <-l value|~> <stat 0|1> <file hex|-> <po oracle> <mo oracle> <now>
             <fuzzy set> <field table> <addr table> <scheme table> <lower table> <xml table> <language oracle…>`

* `<po oracle>` / `<mo oracle>`: the codec facts of Driver/Po.lean / Driver/Mo.lean (`-` = none);
* `<fuzzy set>` … `<lower table>`: the library answers of Driver/Hdr.lean (difflib close matches, parseaddr, urlparse, str.lower);
* `<xml table>`: `_` or `,`-joined `<str>=<verdict>` (expat, Driver/Msg.lean);
* `<language oracle…>`: either the single token `?` — then the op answers `lang=<str|~>`, the language `check_language` leaves in
  `ctx.language` (the model computes it; nothing language-dependent is needed before) — or
  `<lang str|~> <chars> <encs> <plural forms>`: the answers that depend on that language: its characters and how every
  charset named in a Content-Type field encodes them (Driver/Hdr.lean `charsetCheck`), and `language.get_plural_forms()` as
  `N` or `<form>+<form>…/<escaped>+<escaped>…`.  If the model arrives at another language than `<lang str>` the charset
  fragment and the plural-forms look-up answer `oracle-miss` (an exception / a marker string), never silently.

Output: `<line>;<line>… uncaught=<0|1>` with `<line>` = `name(extras)` in the notation of tools/checks/checker_harness.py.
-/
namespace I18n.Driver.Whole
open I18n I18n.Check I18n.Meta I18n.Meta.Real

def S (s : String) : List Char := Driver.unhexChars s
def H (s : List Char) : String := Driver.hexChars s

def optLang (s : String) : Except Locale.LErr (Option Locale.Language) :=
  if s == "~" then .ok none else
    match Locale.cliLanguage (S s) with
    | .ok l => .ok (some l)
    | .error e => .error e

def langStr : Option Locale.Language → String
  | none => "~"
  | some l => H l.str

def xmlTable (s : String) : List (Tags.Str × Msg.XmlVerdict) :=
  if s == "_" then [] else
    (s.splitOn ",").filterMap fun t =>
      match t.splitOn "=" with
      | [k, v] => some (Driver.Tags.unhexCps k, Driver.Msg.parseVerdict v)
      | _ => none

def pluralOracle (s : String) : Option (List Str) × List Str :=
  if s == "N" then (none, []) else
    match s.splitOn "/" with
    | [a, b] =>
      let l := fun (t : String) => if t == "_" then [] else (t.splitOn "+").map S
      (some (l a), l b)
    | _ => (none, [])

/-- the world of one `whole check` line -/
def mkWorld (path lang : String) (optL : Option Locale.Language) (now fuzzy fieldT addrT schemeT lowerT xml : String)
    (langOracle : List String) : World :=
  let hx := Driver.Hdr.ext (Driver.Hdr.tableOf lowerT) (Driver.Hdr.tableOf addrT) (Driver.Hdr.tableOf schemeT) (Driver.Hdr.tableOf fieldT)
    ((Driver.Hdr.listOf "," fuzzy).map S)
  let _ := lang
  let (langFor, chars, encs, pf) := match langOracle with
    | [l, c, e, p] => (l, c, e, p)
    | _ => ("?", "~", "_", "N")
  { hx := hx
    now := Driver.parseInt now
    menv := Msg.liveEnv (Driver.Msg.xmlOf (xmlTable xml))
    munch := Locale.munchName
    path := S path
    optLanguage := optL
    charset := fun tpl l =>
      if langStr l == langFor then Driver.Hdr.charsetCheck tpl chars encs else fun _ => .error ()
    pluralForms := fun l =>
      if langStr l == langFor then pluralOracle pf else (some ["<oracle-miss>".toList], ["<oracle-miss>".toList])
    reprParen := reprParenOf Tags.liveDb
    kmsg := kmsgOf Tags.liveDb }

def showExtra : Extra → String
  | .str s => "s:" ++ H s
  | .safe s => "S:" ++ H s
  | .int n => s!"i:{n}"

def showCall (t : TagCall) : String := t.name ++ "(" ++ ",".intercalate (t.extras.map showExtra) ++ ")"

def showRTag : RTag → String
  | .comments t | .headers t | .language t | .plurals t | .mime t | .project t | .translator t | .fmt t => showCall t
  | .date t => showCall (Hdr.ofDateTag t)
  | .msg t ex => String.ofList (t.name.map Char.ofNat) ++ "(" ++ ",".intercalate (ex.map Driver.Msg.showExtra) ++ ")"

def showLine : Line RTag → String
  | .osError => "os-error()"
  | .unknownFileType => "unknown-file-type()"
  | .invalidMoFile => "invalid-mo-file()"
  | .syntaxErrorInPoFile => "syntax-error-in-po-file()"
  | .brokenEncoding => "broken-encoding()"
  | .tag t => showRTag t

/-- the `ctx` the stages start from (the load logic of `check`, for the `?` op only) -/
def startCtx (w : World) (env : Po.Env) (db : Mo.CodecDB) (fileType : Option Str) (file : List UInt8) : Option (BinFlags × RCtx) :=
  let viaPo := fun (tpl : Bool) =>
    match poLoad env file false with
    | .ok f => some (ctxOfPo tpl (poView f) false)
    | .error .unicodeDecode =>
      match poLoad env file true with
      | .ok f => some (ctxOfPo tpl (poView f) true)
      | .error _ => none
    | .error _ => none
  match extOf fileType w.path with
  | .po => viaPo false
  | .pot => viaPo true
  | .mo =>
    match moLoad db file false with
    | .ok f => some (ctxOfMo f false)
    | .error .unicodeDecode =>
      match moLoad db file true with
      | .ok f => some (ctxOfMo f true)
      | .error _ => none
    | .error _ => none
  | .other => none

def handle (op : String) (args : List String) : String :=
  match op, args with
  | "check", path :: ft :: lang :: stat :: file :: poOr :: moOr :: now :: fuzzy :: fieldT :: addrT :: schemeT :: lowerT :: xml :: langOracle =>
    match optLang lang with
    | .error e => "err cli " ++ e.name
    | .ok optL =>
      let w := mkWorld path lang optL now fuzzy fieldT addrT schemeT lowerT xml langOracle
      let env := Driver.Po.mkEnv (Driver.Po.parseOracle poOr)
      let db := Driver.Mo.mkDb (Driver.Mo.parseOracle moOr)
      let fileType := if ft == "~" then none else some (S ft)
      let bytes := if file == "-" then [] else Driver.unhex file
      if langOracle == ["?"] then
        match startCtx w env db fileType bytes with
        | none => "lang=~"
        | some s0 =>
          let r := runStages ((pipeline w).take 3) s0
          let _ := r
          -- the state after the third stage: run them by hand to read `ctx.language`
          let s1 := (lift (commentsStage w) s0).1
          let h := lift (headersStage w) s1
          if h.2.2 then "lang=~" else
          let l := lift (languageStage w) h.1
          if l.2.2 then "lang=~" else "lang=" ++ langStr l.1.2.language
      else
        let run := wholeCheck w env db fileType (stat == "1") bytes
        (if run.lines.isEmpty then "-" else ";".intercalate (run.lines.map showLine)) ++ s!" uncaught={if run.uncaught then 1 else 0}"
  | "ext", [path, ft] =>
    match extOf (if ft == "~" then none else some (S ft)) (S path) with
    | .po => "po" | .pot => "pot" | .mo => "mo" | .other => "other"
  | _, _ => "bad-op"

end I18n.Driver.Whole
