import I18n.Model.Check
import I18n.Model.Cli
import I18n.Model.ExcFlow
import I18n.Model.Mo
import I18n.Model.CheckPlurals
import I18n.Model.Date
import I18n.Model.Locale
import I18n.Model.CFmt
import I18n.Model.PyFmt
import I18n.Model.PyBrace
import I18n.Model.PerlBrace
/-
The pipeline `cli.main → check_all → check_file → Checker.check → check_*` assembled from the component models:
each component model is wrapped as a `Check.Stage` (an exception of the component = the stage raises), the parsers of the
message-format backends are wrapped as `ExcFlow.Parse` (their error constructors are mapped to the classes of the live
modules BY NAME, so that the generated handler tables decide whether `check_string` catches them).
Only the wrapping is here; what the wrapped functions can raise is the business of the component theorems.
-/
namespace I18n.Pipeline
open I18n I18n.Check I18n.ExcFlow

/-! ## stages -/

/-- the name of a tag call is all C01 needs of a diagnostic (its line grammar is C02's) -/
abbrev TagName := String

/-- `check_plurals` (Model/CheckPlurals) as a stage: reads its input from the shared state, stores `ctx.plural_preimage` -/
def pluralsStage {σ : Type} (input : σ → CheckPlurals.Input) (store : σ → Option CheckPlurals.Preimage → σ) : Stage σ TagName := fun s =>
  match CheckPlurals.checkPlurals (input s) with
  | .ok out => (store s out.preimage, out.tags.map (·.name), false)
  | .error _ => (s, [], true)

/-- `check_dates` (Model/Date): `none` is "an exception escaped" -/
def datesStage {σ : Type} (input : σ → Date.Ctx) : Stage σ TagName := fun s =>
  match Date.checkDates (input s) with
  | some tags => (s, tags.map (·.name), false)
  | none => (s, [], true)

/-- `check_language` (Model/Locale): stores `ctx.language` -/
def languageStage {σ : Type} (munch : List Char → List Char) (input : σ → Locale.Input) (store : σ → Option Locale.Language → σ) :
    Stage σ TagName := fun s =>
  match Locale.checkLanguage munch (input s) with
  | .ok out => (store s out.language, out.tags.map (·.name), false)
  | .error _ => (s, [], true)

/-- the nine calls of `Checker.check` in source order -/
structure Stages (σ : Type) where
  comments : Stage σ TagName
  headers : Stage σ TagName
  language : Stage σ TagName
  plurals : Stage σ TagName
  mime : Stage σ TagName
  dates : Stage σ TagName
  project : Stage σ TagName
  translator : Stage σ TagName
  messages : Stage σ TagName

def Stages.list {σ : Type} (st : Stages σ) : List (Stage σ TagName) :=
  [st.comments, st.headers, st.language, st.plurals, st.mime, st.dates, st.project, st.translator, st.messages]

/-! ## loaders -/

/-- `polib.mofile(path[, encoding='ISO-8859-1'])` as `check` sees it (Model/Mo) -/
def moLoad (db : Mo.CodecDB) (view : Mo.Bytes) (retry : Bool) : Except LoadErr Mo.MoFile :=
  match Mo.parse db (if retry then some Mo.latin1Name else none) view with
  | .ok f => .ok f
  | .error (.syntax _) => .error .moSyntax
  | .error .decode => .error .unicodeDecode
  | .error (.crash _) => .error .other

/-- how `Checker.check` classifies an exception of the loader, READ OFF the generated handler tables of its two `try`
    statements: the inner one (`except UnicodeDecodeError`) first, then the outer one; inside the `OSError` clause the branch
    is chosen by `exc.errno` and by the text of the message (lines 150-174) -/
def loadErrOf (r : Raised) : LoadErr :=
  if siteCatches checkInner r.cls then .unicodeDecode
  else
    match dispatch checkOuter.handlers r.cls with
    | none => .other
    | some h =>
      if h.tags = ["invalid-mo-file"] then .moSyntax
      else if r.errno then .osErrno
      else if r.poSyntaxText then .poSyntax
      else .osOther

/-- the same for the retry, which runs INSIDE the `except UnicodeDecodeError` clause: only the outer `try` applies, so a second
    `UnicodeDecodeError` is not handled -/
def loadErrOfRetry (r : Raised) : LoadErr :=
  match dispatch checkOuter.handlers r.cls with
  | none => if siteCatches checkInner r.cls then .unicodeDecode else .other
  | some h =>
    if h.tags = ["invalid-mo-file"] then .moSyntax
    else if r.errno then .osErrno
    else if r.poSyntaxText then .poSyntax
    else .osOther

/-! ## message-format backends as `ExcFlow.Parse` -/

def cErrCls (e : CFmt.CErr) : Cls :=
  match e with
  | .crash x => clsId ("builtins." ++ x.name)
  | e => clsId ("lib.strformat.c." ++ e.name)

def cWarnCls (w : CFmt.Warn) : Cls := clsId ("lib.strformat.c." ++ w.name)

/-- `strformat.c.FormatString(s)` -/
def cParse (s : List Char) : Parse CFmt.Result :=
  match CFmt.parse s with
  | .ok r => .ok (r, r.warnings.map cWarnCls)
  | .error e => .raised (cErrCls e)

def pErrCls (e : PyFmt.PErr) : Cls :=
  match e with
  | .crash x => clsId ("builtins." ++ x.name)
  | e => clsId ("lib.strformat.python." ++ e.name)

def pWarnCls (w : PyFmt.Warn) : Cls := clsId ("lib.strformat.python." ++ w.name)

/-- `strformat.python.FormatString(s)` -/
def pyParse (s : List Char) : Parse PyFmt.Result :=
  match PyFmt.parse s with
  | .ok r => .ok (r, r.warnings.map pWarnCls)
  | .error e => .raised (pErrCls e)

def cErrSite : Generated.ExcMap.TrySite := site "lib/check/msgformat/c.py" "Checker.check_string" 0
def cWarnSite : Generated.ExcMap.TrySite := site "lib/check/msgformat/c.py" "Checker.check_string" 1
def pyErrSite : Generated.ExcMap.TrySite := site "lib/check/msgformat/python.py" "Checker.check_string" 0
def pyWarnSite : Generated.ExcMap.TrySite := site "lib/check/msgformat/python.py" "Checker.check_string" 1
def pybraceErrSite : Generated.ExcMap.TrySite := site "lib/check/msgformat/pybrace.py" "Checker.check_string" 0
def perlbraceErrSite : Generated.ExcMap.TrySite := site "lib/check/msgformat/perlbrace.py" "Checker.check_string" 0

/-- `msgformat.c.Checker.check_string(ctx, message, s)` -/
def cCheckString (s : List Char) : StringCheck CFmt.Result := checkString cErrSite (some cWarnSite) (cParse s)

/-- `msgformat.python.Checker.check_string(ctx, message, s)` (exception flow; the two extra tags about unnamed arguments
    raise nothing) -/
def pyCheckString (s : List Char) : StringCheck PyFmt.Result := checkString pyErrSite (some pyWarnSite) (pyParse s)

def braceErrCls (e : PyBrace.PErr) : Cls :=
  match e with
  | .crash x => clsId ("builtins." ++ x.name)
  | .own c _ => clsId ("lib.strformat.pybrace." ++ c.name)

/-- `strformat.pybrace.FormatString(s)` (C13's model; the parser records no warnings) -/
def pybraceParse (s : List Char) : Parse PyBrace.Result :=
  match PyBrace.parse s with
  | .ok r => .ok (r, [])
  | .error e => .raised (braceErrCls e)

def perlErrCls (e : PerlBrace.PErr) : Cls :=
  match e with
  | .crash x => clsId ("builtins." ++ x.name)
  | .error _ => clsId "lib.strformat.perlbrace.Error"

/-- `strformat.perlbrace.FormatString(s)` (C13's model) -/
def perlbraceParse (s : List Char) : Parse PerlBrace.Result :=
  match PerlBrace.parse s with
  | .ok r => .ok (r, [])
  | .error e => .raised (perlErrCls e)

/-- `msgformat.pybrace.Checker.check_string(ctx, message, s)` -/
def pybraceCheckString (s : List Char) : StringCheck PyBrace.Result := checkString pybraceErrSite none (pybraceParse s)

/-- `msgformat.perlbrace.Checker.check_string(ctx, message, s)` -/
def perlbraceCheckString (s : List Char) : StringCheck PerlBrace.Result := checkString perlbraceErrSite none (perlbraceParse s)

/-! ## one regular file -/

/-- `check_regular_file(path)`: `Checker(path).check()` with every tag call printed through `fmt` (C02's `Tag.format`) -/
def regularRun {F σ : Type} (fmt : Line TagName → String) (statOk : Bool) (ext : Ext) (load : Bool → Except LoadErr F)
    (init : F → Bool → σ) (st : Stages σ) : Cli.FileRun :=
  let r := check statOk ext load init st.list
  ⟨r.lines.map fmt, r.uncaught⟩

end I18n.Pipeline
