import I18n.Model.Charset
/-!
# The Python/ctypes kit the regenerated `lib/iconv.py` targets (`tools/translate/iconv2lean.py` → `Generated/IconvDl.lean`)

One Lean function per Python / ctypes operation that `_decode_dl` / `_encode_dl` use.  Core Lean only (the driver links it).

What the kit fixes — the trusted base of the tie `Props/C20Tie.lean`:

* **ints** are `Int`; `len(x)` is `(x.length : Int)`; `//` and `%` by a positive literal are `Int` `/` and `%` (floor = Euclidean there).
* **`ctypes.c_size_t(n)`** is `n` itself and `.value` reads it back: sizes stay below 2^64 (memory).  The `assert x.value == n` that
  follows each cell in the source is kept in the generated code (and is then provable).
* **the world**: what the binding touches besides its locals — C `errno` (`ctypes.get_errno()` reads what the last failing C call
  left), the state of the conversion descriptor (`round`: what iconv will do until the next reset), and the ghost log `trace` of
  (bytes allocated behind the output pointer, count told in `outbytesleft`) appended by every conversion call.  An exception carries
  the world at the time it was raised (`Raise`), so `try … finally` can go on from it.
* **iconv(3)** is the abstract `Charset.Step` of the model: per round (reset call, conversion call, flush call) a `Round`, keyed by
  the count told in that round.  The reset call `_iconv(cd, None, None, None, None)` selects the round: the translator hands it the
  out-count cell that the same loop iteration passes to the conversion call (so the key is read from the source, at the reset call).
  The conversion call is given the whole input from its start in every round (its pointer argument is not looked at).
* **buffers**: `create_string_buffer(n)` is `n` zero bytes, `create_unicode_buffer(n)` `4·n` (`sizeof(wchar_t) = 4`, glibc); iconv
  writes at the pointer `outbufptr` and advances it, so an output buffer is its size and the bytes written so far (a pointer can only
  be made to a buffer nothing was written to yet: checked by the translator).  `outbuf[:n]` reads the buffer with zero padding;
  on a unicode buffer it yields little-endian 32-bit units and raises ValueError above U+10FFFF.
-/
namespace I18n.Charset.Py
open I18n I18n.Charset

/-- the exceptions `lib/iconv.py` can leave with (+ the model's fuel) -/
inductive Exn where
  | os (errno : Nat)               -- `OSError(errno, os.strerror(errno))`
  | unicode (start stop : Int)     -- `UnicodeDecodeError / UnicodeEncodeError(encoding, input, start, end, reason)`
  | assertion
  | value                          -- `outbuf[:n]`: a wchar_t above U+10FFFF
  | index                          -- `input[i]` out of range
  | type                           -- `TypeError` of the argument checks
  | notImplemented                 -- `errors != 'strict'`
  | outOfFuel                      -- the model's fuel ran out (the Python loop has none)
  deriving DecidableEq, Repr

instance : Inhabited Call := ⟨⟨.ok, 0, []⟩⟩
instance : Inhabited Round := ⟨⟨none, default, default⟩⟩

structure World where
  errno : Rc
  round : Round
  trace : List Alloc

def World.init : World := ⟨.ok, default, []⟩

abbrev Raise := Exn × World
abbrev Res (α : Type) := Except Raise (α × World)

/-- the C library's iconv as the binding sees it: `iconv_open(tocode, fromcode)` (names as code points), the descriptor's
    behaviour, `iconv_close` -/
structure Iconv where
  openErrno : List Nat → List Nat → Option Nat
  step : List Nat → List Nat → Step
  closeErrno : Option Nat

/-- the value `iconv_open` returned: `(iconv_t)-1` or a descriptor -/
structure Cd where
  valid : Bool
  step : Step
  closeErrno : Option Nat

/-- an output buffer: bytes allocated, bytes written through the output pointer so far -/
structure OutBuf where
  size : Nat
  data : List UInt8

/-- `b'…'` / a str constant naming a charset, as code points -/
def lit (s : String) : List Nat := s.toList.map Char.toNat

def len {α : Type} (xs : List α) : Int := (xs.length : Int)

/-- `bytes(input, encoding='UTF-32LE')` (a str without lone surrogates) -/
def utf32le : List Nat → List UInt8
  | [] => []
  | c :: rest => UInt8.ofNat (c % 256) :: UInt8.ofNat (c / 256 % 256) :: UInt8.ofNat (c / 65536 % 256) :: UInt8.ofNat (c / 16777216 % 256) :: utf32le rest

/-- `ctypes.c_size_t(n)`; `.value` -/
def csize (n : Int) : Int := n

/-- `ctypes.sizeof(ctypes.c_wchar)` -/
def sizeofWchar : Int := 4

def createStringBuffer (n : Int) : OutBuf := ⟨n.toNat, []⟩
def createUnicodeBuffer (n : Int) : OutBuf := ⟨4 * n.toNat, []⟩

/-- `_iconv_open(tocode, fromcode)` -/
def iconvOpen (ic : Iconv) (tocode fromcode : List Nat) (w : World) : Cd × World :=
  match ic.openErrno tocode fromcode with
  | some e => (⟨false, ic.step tocode fromcode, ic.closeErrno⟩, { w with errno := .other e })
  | none => (⟨true, ic.step tocode fromcode, ic.closeErrno⟩, w)

/-- `cd == ctypes.c_void_p(-1).value` -/
def Cd.isMinus1 (cd : Cd) : Bool := !cd.valid

/-- `rc == ctypes.c_size_t(-1).value` for the result of an `_iconv` call -/
def failed (rc : Rc) : Bool := rc != .ok

/-- `ctypes.get_errno()` -/
def getErrno (w : World) : Rc := w.errno

/-- the number `OSError` is raised with -/
def errnoNat : Rc → Nat
  | .ok => 0
  | .e2big => errnoE2BIG
  | .eilseq => errnoEILSEQ
  | .einval => errnoEINVAL
  | .other n => n

/-- `_iconv(cd, None, None, None, None)`; `told`: the out-count of the round that begins (see the header) -/
def iconvReset (cd : Cd) (told : Int) (w : World) : Rc × World :=
  let r := cd.step told.toNat
  match r.reset with
  | none => (.ok, { w with round := r })
  | some e => (.other e, { w with round := r, errno := .other e })

/-- `_iconv(cd, inbufptr, byref(inbytesleft), outbufptr, byref(outbytesleft))`: result, `inbytesleft`, the buffer, `outbytesleft` -/
def iconvConv (_cd : Cd) (_inptr : List UInt8) (inLeft : Int) (out : OutBuf) (told : Int) (w : World) : Rc × Int × OutBuf × Int × World :=
  let c := w.round.main
  (c.rc, ((inLeft.toNat - c.consumed : Nat) : Int), { out with data := out.data ++ c.written }, ((told.toNat - c.written.length : Nat) : Int),
   { w with errno := if c.rc = .ok then w.errno else c.rc, trace := w.trace ++ [⟨out.size, told.toNat⟩] })

/-- `_iconv(cd, None, None, outbufptr, byref(outbytesleft))` -/
def iconvFlush (_cd : Cd) (out : OutBuf) (told : Int) (w : World) : Rc × OutBuf × Int × World :=
  let c := w.round.flush
  (c.rc, { out with data := out.data ++ c.written }, ((told.toNat - c.written.length : Nat) : Int),
   { w with errno := if c.rc = .ok then w.errno else c.rc })

/-- `_iconv_close(cd)`: 0 or -1 -/
def iconvClose (cd : Cd) (w : World) : Int × World :=
  match cd.closeErrno with
  | none => (0, w)
  | some e => (-1, { w with errno := .other e })

/-- `xs[:n]` -/
def sliceTo {α : Type} (xs : List α) (n : Int) : List α :=
  if n ≥ 0 then xs.take n.toNat else xs.take (xs.length - (-n).toNat)

/-- the bytes of a ctypes buffer -/
def OutBuf.bytes (b : OutBuf) : List UInt8 := b.data ++ List.replicate (b.size - b.data.length) 0

/-- `outbuf[:n]` of a `create_string_buffer` -/
def bytesSlice (b : OutBuf) (n : Int) : List UInt8 := sliceTo b.bytes n

/-- `outbuf[:n]` of a `create_unicode_buffer` -/
def unicodeSlice (b : OutBuf) (n : Int) (w : World) : Except Raise (List Nat) :=
  let units := sliceTo (wchars b.bytes) n
  if units.any (· > 0x10FFFF) then .error (.value, w) else .ok units

/-- `input[i]` on bytes -/
def byteAt (input : List UInt8) (i : Int) (w : World) : Except Raise Int :=
  let j := if i ≥ 0 then i else i + input.length
  if j < 0 then .error (.index, w) else
  match input[j.toNat]? with
  | some b => .ok (b.toNat : Int)
  | none => .error (.index, w)

/-- `for i in range(lo, hi): if p(i): break` — the first `i` the loop breaks at, `none` when it runs to the end -/
def rangeFindFrom {ε : Type} (p : Int → Except ε Bool) (lo : Int) : Nat → Except ε (Option Int)
  | 0 => .ok none
  | n + 1 =>
    match p lo with
    | .error e => .error e
    | .ok true => .ok (some lo)
    | .ok false => rangeFindFrom p (lo + 1) n

def rangeFind {ε : Type} (lo hi : Int) (p : Int → Except ε Bool) : Except ε (Option Int) :=
  rangeFindFrom p lo (hi - lo).toNat

/-- `try: body  finally: fin` — `fin` runs in the world the body left, its exception replaces the body's outcome; a body that never
    ends (fuel) never reaches it -/
def tryFinally {α : Type} (body : Res α) (fin : World → Except Raise World) : Res α :=
  match body with
  | .error (.outOfFuel, w) => .error (.outOfFuel, w)
  | .error (e, w) =>
    match fin w with
    | .error x => .error x
    | .ok w' => .error (e, w')
  | .ok (v, w) =>
    match fin w with
    | .error x => .error x
    | .ok w' => .ok (v, w')

/-- what the model observes of a run: the outcome and the log -/
def ofOutcome {α : Type} : Outcome α → Except Exn α
  | .ok v => .ok v
  | .unicodeError a b => .error (.unicode a b)
  | .osError e => .error (.os e)
  | .assertion => .error .assertion
  | .valueError => .error .value
  | .outOfFuel => .error .outOfFuel

def observe {α : Type} : Res α → Except Exn α × List Alloc
  | .ok (v, w) => (.ok v, w.trace)
  | .error (e, w) => (.error e, w.trace)

/-- back to the model's vocabulary (for the driver): exceptions the model has no name for become `other` -/
def toOutcome {α : Type} : Except Exn α → Option (Outcome α)
  | .ok v => some (.ok v)
  | .error (.unicode a b) => if a ≥ 0 ∧ b ≥ 0 then some (.unicodeError a.toNat b.toNat) else none
  | .error (.os e) => some (.osError e)
  | .error .assertion => some .assertion
  | .error .value => some .valueError
  | .error .outOfFuel => some .outOfFuel
  | .error _ => none

end I18n.Charset.Py
