import I18n.Generated.HeaderFields
/-
Model of `lib/domains.py`: special-use domain names and dot-less domains of an e-mail address.

`_is_special` is `re.compile('(' + '|'.join(_regexps) + ')').fullmatch`; every alternative has the shape `.+[.]S`,
`(.+[.])S` or `(.+[.])?S` with `S` a finite set of literal suffixes, which the translator enumerates into
`Generated.HeaderFields.specialDomains : List (prefixRequired × suffix)`.  `.` (no DOTALL) is any character but `\n`.
`str.lower()` is a parameter (Unicode).  Core Lean only.
-/
namespace I18n.Domains

abbrev Str := List Char

def stripPrefix : Str → Str → Option Str
  | [], s => some s
  | _ :: _, [] => none
  | a :: p, b :: s => if a = b then stripPrefix p s else none

/-- `re.fullmatch('.+[.]' + escape(suffix), d)`: `d = p ++ "." ++ suffix`, `p` non-empty and free of `\n` -/
def hasLabelSuffix (suffix : Str) (d : Str) : Bool :=
  match stripPrefix suffix.reverse d.reverse with
  | some ('.' :: p) => !p.isEmpty && !p.contains '\n'
  | _ => false

/-- one alternative of the regex on an already lower-cased domain -/
def matchesAlt (alt : Bool × String) (d : Str) : Bool :=
  (!alt.1 && d == alt.2.toList) || hasLabelSuffix alt.2.toList d

/-- `_is_special(domain)` on the lower-cased domain -/
def isSpecialLowered (d : Str) : Bool :=
  Generated.HeaderFields.specialDomains.any fun alt => matchesAlt alt d

/-- `is_special_domain(domain)`: `domain = domain.lower(); return _is_special(domain)` -/
def isSpecialDomain (lower : Str → Str) (d : Str) : Bool := isSpecialLowered (lower d)

/-- `email.rsplit('@', 1)[1]` for an e-mail address that contains `@`: what follows the last `@`
    (for a string without `@` Python's unpacking raises; the callers test `'@' in email` first) -/
def domainOfAux : Str → Str → Str
  | acc, [] => acc
  | acc, c :: cs => if c = '@' then domainOfAux cs cs else domainOfAux acc cs

def domainOf (email : Str) : Str := domainOfAux email email

def isEmailInSpecialDomain (lower : Str → Str) (email : Str) : Bool :=
  isSpecialDomain lower (domainOf email)

/-- `'.' not in domain` -/
def isDotlessDomain (d : Str) : Bool := !d.contains '.'

def isEmailInDotlessDomain (email : Str) : Bool := isDotlessDomain (domainOf email)

end I18n.Domains
