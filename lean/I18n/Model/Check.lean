/-
Model of `lib.check.Checker.check` (lib/check/__init__.py:116-208) as far as *control flow and exceptions* go:
`os.stat`, the extension dispatch, the loader call with its `UnicodeDecodeError` retry, the exception-to-tag
mapping of the two nested `try` statements with the `finally` clause, and the nine `check_*` stages run in source
order.  The loader and the stages are parameters: what they can raise is exactly what the theorems of
Props/C01 quantify over, and what the component models (Mo, Po, CheckPlurals, …) discharge.
-/
namespace I18n.Check

/-- how `Checker.check` tells apart what a loader call (`polib.pofile` / `polib.mofile`) raised -/
inductive LoadErr where
  | unicodeDecode        -- `UnicodeDecodeError`: retried with `encoding='ISO-8859-1'`, `broken-encoding` pending
  | moSyntax             -- `moparser.SyntaxError`: `invalid-mo-file`, return
  | osErrno              -- `OSError` with `errno`: `os-error`, return
  | poSyntax             -- `OSError` without errno whose text starts with 'Syntax error in po file ': tag, return
  | osOther              -- `OSError` without errno, any other text: re-raised by the bare `raise`
  | other                -- any other exception type: no handler
  deriving DecidableEq, Repr

/-- the extension (or `--file-type`) as `check` classifies it -/
inductive Ext where
  | po | pot | mo | other
  deriving DecidableEq, Repr

/-- one printed diagnostic: the five tags `check` itself emits, or a tag call of a `check_*` stage -/
inductive Line (τ : Type) where
  | osError | unknownFileType | invalidMoFile | syntaxErrorInPoFile | brokenEncoding
  | tag (t : τ)
  deriving Repr

structure Run (τ : Type) where
  lines : List (Line τ)
  /-- an exception left `check()`: traceback on stderr, exit status 1 -/
  uncaught : Bool

/-- a `check_*` method: reads and updates the shared `ctx`, prints tag lines, and may raise (third component);
    the lines printed before the exception are already on stdout -/
abbrev Stage (σ τ : Type) := σ → σ × List τ × Bool

/-- `self.check_comments(ctx); self.check_headers(ctx); …` -/
def runStages {σ τ : Type} : List (Stage σ τ) → σ → List τ × Bool
  | [], _ => ([], false)
  | st :: rest, s =>
    match st s with
    | (_, out, true) => (out, true)
    | (s', out, false) =>
      let r := runStages rest s'
      (out ++ r.1, r.2)

/-- the part after a successful load: `ctx = …; self.check_comments(ctx); …; self.check_messages(ctx)` -/
def afterLoad {σ τ : Type} (pre : List (Line τ)) (stages : List (Stage σ τ)) (s : σ) : Run τ :=
  let r := runStages stages s
  ⟨pre ++ r.1.map .tag, r.2⟩

/-- `Checker.check()`.  `load false` is `constructor(self.path)`, `load true` the retry
    `constructor(self.path, encoding='ISO-8859-1')`; `init f broken` builds `ctx` (with `ctx.encoding = None` forced
    later when `broken`). -/
def check {F σ τ : Type} (statOk : Bool) (ext : Ext) (load : Bool → Except LoadErr F) (init : F → Bool → σ)
    (stages : List (Stage σ τ)) : Run τ :=
  if !statOk then ⟨[.osError], false⟩                                   -- os.stat failed: tag, return
  else if ext = .other then ⟨[.unknownFileType], false⟩
  else
    match load false with
    | .ok f => afterLoad [] stages (init f false)
    | .error .moSyntax => ⟨[.invalidMoFile], false⟩
    | .error .osErrno => ⟨[.osError], false⟩
    | .error .poSyntax => ⟨[.syntaxErrorInPoFile], false⟩
    | .error .osOther => ⟨[], true⟩
    | .error .other => ⟨[], true⟩
    | .error .unicodeDecode =>
      -- inside `except UnicodeDecodeError`: the retry.  Whatever it raises passes the handlers of the OUTER try;
      -- the `finally` clause prints `broken-encoding` last (after a handler's tag, before the exception propagates)
      match load true with
      | .ok f => afterLoad [.brokenEncoding] stages (init f true)
      | .error .moSyntax => ⟨[.invalidMoFile, .brokenEncoding], false⟩
      | .error .osErrno => ⟨[.osError, .brokenEncoding], false⟩
      | .error .poSyntax => ⟨[.syntaxErrorInPoFile, .brokenEncoding], false⟩
      | .error .unicodeDecode => ⟨[.brokenEncoding], true⟩
      | .error .osOther => ⟨[.brokenEncoding], true⟩
      | .error .other => ⟨[.brokenEncoding], true⟩

/-- the exceptions `check` is written to turn into tags on the first / on the second loader call -/
def LoadErr.handledFirst : LoadErr → Bool
  | .unicodeDecode | .moSyntax | .osErrno | .poSyntax => true
  | _ => false

def LoadErr.handledRetry : LoadErr → Bool
  | .moSyntax | .osErrno | .poSyntax => true
  | _ => false

end I18n.Check
