import I18n.Model.CliState
/-
Concrete instances of the state-threading model used as WITNESSES in Props/C03.lean (what the pins exclude):
a cache keyed on less than its inputs (seeded change C03-a), and a per-file function writing into the shared options
(seeded change C03-d / the defect repaired by 6966f22).
-/
namespace I18n.CliWitness
open I18n.CliState

/-- key = (escaped text, charset of the file on the stack); the cache sees the text only -/
def staleProj : String × String → String := Prod.fst
/-- decoding depends on the charset -/
def staleF : String × String → String := fun k => k.2 ++ ":" ++ k.1
/-- a file = its declared charset; it contains the escaped text `\xa4` and prints its decoding -/
def staleCheck : Unit → String → Prog (String × String) String :=
  fun _ cs => .ask ("\\xa4", cs) (fun v => .done [v])
def lines : Except Err (List String) → List String
  | .ok l => l
  | .error _ => ["<exception>"]


/-- a file = (path, is it a package that unpacks?); it prints `unknown-file-type` unless that tag is ignored -/
def fileLines (ignore : List String) (file : String × Bool) : List String :=
  if file.2 then [] else if ignore.contains "unknown-file-type" then [] else ["I: " ++ file.1 ++ ": unknown-file-type"]
/-- `check_deb` as in the code: works on a private copy of `ignore_tags` -/
def stepCopy (ignore : List String) (file : String × Bool) : List String × List String :=
  (ignore, fileLines ignore file)
/-- the seeded variant: `options.ignore_tags.add('unknown-file-type')` on the shared set -/
def stepShared (ignore : List String) (file : String × Bool) : List String × List String :=
  (if file.2 then "unknown-file-type" :: ignore else ignore, fileLines ignore file)
def runWith (stp : List String → String × Bool → List String × List String) : List String → List (String × Bool) → List String
  | _, [] => []
  | ig, file :: rest => (stp ig file).2 ++ runWith stp (stp ig file).1 rest


/-! `check_messages` (lib/check/__init__.py:815-897), reduced to its two accumulators: `found_unusual_characters` (a character is
reported once per file) and `msgid_counter` (`duplicate-message-definition` at the second occurrence).  A message = (msgid, unusual
characters of its msgstr as code points). -/

/-- one message against the accumulators: new accumulators, tags -/
def checkMessage (acc : List Nat × List String) (m : String × List Nat) : (List Nat × List String) × List String :=
  let dup := if (acc.2.filter (· == m.1)).length == 1 then ["duplicate-message-definition " ++ m.1] else []
  let fresh := m.2.filter (fun c => !acc.1.contains c)
  let uc := if fresh.isEmpty then [] else ["unusual-character-in-translation " ++ m.1]
  ((acc.1 ++ fresh, m.1 :: acc.2), dup ++ uc)

def checkMessagesFrom (acc : List Nat × List String) : List (String × List Nat) → (List Nat × List String) × List String
  | [] => (acc, [])
  | m :: ms =>
    let r := checkMessage acc m
    let r2 := checkMessagesFrom r.1 ms
    (r2.1, r.2 ++ r2.2)

/-- the code: `found_unusual_characters = set()`, `msgid_counter = Counter()` at the top of every call -/
def checkMessagesPerCall (file : List (String × List Nat)) : List String := (checkMessagesFrom ([], []) file).2

/-- the variant the pin `accumulators_per_call` excludes: the accumulators live at module level and survive the call -/
def runSharedAccumulators : List Nat × List String → List (List (String × List Nat)) → List String
  | _, [] => []
  | acc, file :: rest =>
    let r := checkMessagesFrom acc file
    r.2 ++ runSharedAccumulators r.1 rest

/-! the colour decision (seeded change X1-b) -/

/-- X1-b: `color = sys.stdout.isatty()` inside `Checker.tag` — the CURRENT `sys.stdout`: the StringIO of `check_file_s` when the
    file is checked in a pool worker (never a tty), the real stdout otherwise (a tty iff the terminal was initialised) -/
def colourOfProbe : Bool → Bool → Bool := fun terminal captured => terminal && !captured
/-- `Tag.format(..., color=c)` reduced to one pair of escape sequences -/
def renderEsc (c : Bool) (line : String) : String := if c then "\x1b[33m" ++ line ++ "\x1b[0m" else line
/-- a file with one problem: prints one line -/
def tagCheck : Unit → String → Prog String String := fun _ path => .done [path ++ ": tag"]

end I18n.CliWitness
