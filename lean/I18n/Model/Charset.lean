import I18n.Generated.Charset
/-!
# Model of the charset machinery: `lib/encodings.py`, `lib/iconv.py`, `ling.get_unrepresentable_characters`,
# and the charset fragment of `check_headers`

Core Lean only.  Follows the source statement by statement.  Names and texts are lists of code points
(`List Nat`), byte strings are `List UInt8`.

What is environment (Python's codec registry, glibc's iconv, `str.encode`) enters as a parameter:
`lookup` (`codecs.lookup(name).name`), `Dec` (the outcome of `bytes.decode(name)` on the ASCII repertoire),
`Step` (one round of iconv(3) calls), `encode` (does this text encode in this charset).

`str.lower()`/`str.upper()` are modelled on ASCII letters only; the correspondence feeds names on which Python's
full-Unicode case mapping coincides with that (every name known to Python, gettext or the tool is ASCII).
-/
namespace I18n.Charset
open I18n.Generated.Charset (Dec Row)

abbrev Name := List Nat

/-! ## small Python kit -/

def lowerCp (c : Nat) : Nat := if 65 ≤ c ∧ c ≤ 90 then c + 32 else c
def upperCp (c : Nat) : Nat := if 97 ≤ c ∧ c ≤ 122 then c - 32 else c
/-- `str.lower()` on ASCII -/
def lower (s : Name) : Name := s.map lowerCp
/-- `str.upper()` on ASCII -/
def upper (s : Name) : Name := s.map upperCp

/-- `dict.get(k)` on an association list in insertion order with unique keys -/
def assoc? {β : Type} (k : Name) : List (Name × β) → Option β
  | [] => none
  | (k', v) :: rest => if k' = k then some v else assoc? k rest

/-- `d[k] = v` -/
def dictSet {β : Type} (k : Name) (v : β) : List (Name × β) → List (Name × β)
  | [] => [(k, v)]
  | (k', v') :: rest => if k' = k then (k', v) :: rest else (k', v') :: dictSet k v rest

/-- `d.setdefault(k, v)` -/
def dictSetDefault {β : Type} (k : Name) (v : β) (d : List (Name × β)) : List (Name × β) :=
  match assoc? k d with
  | some _ => d
  | none => d ++ [(k, v)]

/-- `"iso_"` -/
def isoUnderscore : Name := [105, 115, 111, 95]
/-- `"iso-"` -/
def isoHyphen : Name := [105, 115, 111, 45]

/-! ## `_read_encodings` -/

/-- the loop of `_read_encodings` over the `[portable-encodings]` section.  `entries` = (key as written, marked
    `not-python`) — configparser lower-cases option names; `lookup` = `codecs.lookup(encoding).name` of the vanilla
    interpreter, `none` = LookupError (which would propagate: the module cannot be imported) -/
def readPortable (lookup : Name → Option Name) :
    List (Name × Bool) → List (Name × Bool) × List (Name × Name) → Option (List (Name × Bool) × List (Name × Name))
  | [], acc => some acc
  | (written, notPython) :: rest, (e2c, c2e) =>
    let encoding := lower written
    -- e2c[encoding] = None
    let e2c := dictSet encoding false e2c
    if notPython then readPortable lookup rest (e2c, c2e)
    else
      match lookup encoding with
      | none => none
      | some codec =>
        -- e2c[encoding] = pycodec; c2e.setdefault(pycodec.name, encoding)
        readPortable lookup rest (dictSet encoding true e2c, dictSetDefault codec encoding c2e)

/-- `_unmangle_encoding`: for every key of the two tables, `key.replace('-', '_') ↦ key` -/
def mangle (s : Name) : Name := s.map fun c => if c = 45 then 95 else c

/-! ## classification -/

/-- the first lines of `is_portable_encoding`: `lower()`, then `iso_…` ↦ `iso-…` -/
def normalise (encoding : Name) : Name :=
  let e := lower encoding
  if isoUnderscore.isPrefixOf e then isoHyphen ++ e.drop 4 else e

/-- `is_portable_encoding(encoding, python=…)`; `tbl` = `_portable_encodings` as (key, value is not None) -/
def isPortable (tbl : List (Name × Bool)) (python : Bool) (encoding : Name) : Bool :=
  let e := normalise encoding
  if python then assoc? e tbl == some true        -- `.get(encoding, None) is not None`
  else (assoc? e tbl).isSome                      -- `encoding in _portable_encodings`

/-- `propose_portable_encoding(encoding)`.  `lookup` = `codecs.lookup(encoding).name` (`none` = LookupError),
    `c2e` = `_pycodec_to_encoding`.  `.error ()` = the `assert` fired. -/
def propose (tbl : List (Name × Bool)) (c2e : List (Name × Name)) (lookup : Name → Option Name) (encoding : Name) :
    Except Unit (Option Name) :=
  match lookup encoding with
  | none => .ok none                                -- `except LookupError: return`
  | some codec =>
    match assoc? codec c2e with
    | none => .ok none                              -- KeyError is a LookupError
    | some newEncoding =>
      if isPortable tbl true newEncoding then .ok (some (upper newEncoding)) else .error ()

/-- `is_ascii_compatible_encoding(encoding, missing_ok=…)` given the outcome of
    `_interesting_ascii_bytes.decode(encoding)`; `.error ()` = `EncodingLookupError` -/
def isAsciiCompatible (interestingStr : List Nat) (d : Dec) (missingOk : Bool) : Except Unit Bool :=
  match d with
  | .text cs => .ok (cs == interestingStr)
  | .ude => .ok false
  | .notstr | .lookup | .other => if missingOk then .ok false else .error ()

/-! ## the codec registry: `codecs.lookup(name).name` as CPython computes it, then the tool's search function

`_PyCodec_Lookup` normalises the name in C (`_Py_normalize_encoding`), then asks the search functions in order of registration:
`encodings.search_function` (alias table, then `import encodings.<module>`), then `lib.encodings._codec_search_function`. -/

/-- `Py_ISALNUM(c) || c == '.'` — ASCII only; the UTF-8 bytes of anything else are punctuation -/
def isAlnumDot (c : Nat) : Bool := (48 ≤ c && c ≤ 57) || (65 ≤ c && c ≤ 90) || (97 ≤ c && c ≤ 122) || c == 46

/-- `_Py_normalize_encoding`: lower-case; every run of other characters becomes one `_`, dropped at both ends -/
def cNormalizeAux : List Nat → Bool → Bool → List Nat
  | [], _, _ => []
  | c :: cs, punct, started =>
    if isAlnumDot c then (if punct && started then [95] else []) ++ lowerCp c :: cNormalizeAux cs false true
    else cNormalizeAux cs true started

def cNormalize (name : Name) : Name := cNormalizeAux name false false

/-- `encodings.search_function` on a name the C side has normalised (`encodings.normalize_encoding` leaves such a name alone):
    `aliases` = `encodings.aliases.aliases`, `modules` = the importable modules of the package with `getregentry().name` -/
def pySearch (aliases : List (Name × Name)) (modules : List (Name × Option Name)) (n : Name) : Option Name :=
  -- `_aliases.get(norm_encoding) or _aliases.get(norm_encoding.replace('.', '_'))`
  let aliased := match assoc? n aliases with
    | some a => if a.isEmpty then assoc? (n.map fun c => if c = 46 then 95 else c) aliases else some a
    | none => assoc? (n.map fun c => if c = 46 then 95 else c) aliases
  let modnames := match aliased with
    | some a => [a, n]
    | none => [n]
  -- `if not modname or '.' in modname: continue`; the first module that imports ends the search
  match (modnames.filter fun m => !m.isEmpty && !m.contains 46).findSome? (fun m => assoc? m modules) with
  | some (some codec) => some codec
  | _ => none                                      -- nothing importable, or no `getregentry`

/-- `codecs.lookup(name).name` with the tool's search function installed (`none` = LookupError); names without NUL -/
def registryLookup (aliases : List (Name × Name)) (modules : List (Name × Option Name))
    (unm : List (Name × Name)) (tbl : List (Name × Bool)) (extra : List Name) (name : Name) : Option Name :=
  let n := cNormalize name
  match pySearch aliases modules n with
  | some codec => some codec
  | none =>
    -- `_codec_search_function`: `charmap_encoding(encoding)` / `iconv_encoding(encoding)` both carry `name=encoding`
    let encoding := (assoc? n unm).getD n
    if assoc? encoding tbl == some false || extra.contains encoding then some encoding else none

/-! ## `encodings.decode` — the decode every loader uses (PO text, PO escapes, MO strings) -/

/-- what `data.decode(encoding)` did -/
inductive RawDecode where
  | text (cs : List Nat)
  | ude (start stop : Nat)     -- UnicodeDecodeError
  | unicodeError               -- a bare UnicodeError (idna, punycode)
  | other                      -- anything else propagates
  deriving DecidableEq, Repr

inductive Loaded where
  | text (cs : List Nat)
  | ude (start stop : Nat)
  | crash
  deriving DecidableEq, Repr

/-- `encodings.decode(data, encoding)`: a bare UnicodeError becomes `UnicodeDecodeError(encoding, data, 0, len(data), …)` -/
def loaderDecode (len : Nat) : RawDecode → Loaded
  | .text cs => .text cs
  | .ude s e => .ude s e
  | .unicodeError => .ude 0 len
  | .other => .crash

/-! ## the codec search function -/

inductive Search where
  | notOurs                  -- `return` (None): not one of the tool's encodings
  | charmap (file : Name)    -- `charmap_encoding`: data/charmaps/<file> exists
  | iconv (encoding : Name)  -- `iconv_encoding`
  deriving DecidableEq, Repr

/-- `_codec_search_function(encoding)`; `files` = the names in data/charmaps -/
def codecSearch (unm : List (Name × Name)) (tbl : List (Name × Bool)) (extra : List Name) (files : List Name)
    (encoding : Name) : Search :=
  let encoding := (assoc? encoding unm).getD encoding
  if assoc? encoding tbl == some false              -- `.get(encoding, False) is None`
      || extra.contains encoding then
    if files.contains (upper encoding) then .charmap (upper encoding) else .iconv encoding
  else .notOurs

/-! ## charmap codecs (`codecs.charmap_decode` / `charmap_build` / `charmap_encode` with `errors='strict'`) -/

/-- U+FFFE marks an undefined entry of a decoding table -/
def undefinedCp : Nat := 0xFFFE

/-- `codecs.charmap_decode(input, 'strict', table)`: `.error (start, end)` = UnicodeDecodeError -/
def charmapDecodeFrom (table : List Nat) (i : Nat) : List UInt8 → Except (Nat × Nat) (List Nat)
  | [] => .ok []
  | b :: bs =>
    match table[b.toNat]? with
    | none => .error (i, i + 1)
    | some c =>
      if c = undefinedCp then .error (i, i + 1)
      else match charmapDecodeFrom table (i + 1) bs with
        | .error e => .error e
        | .ok cs => .ok (c :: cs)

def charmapDecode (table : List Nat) (bs : List UInt8) : Except (Nat × Nat) (List Nat) :=
  charmapDecodeFrom table 0 bs

/-- `PyUnicode_BuildEncodingMap` falls back to a plain dict (which then also maps U+FFFE) unless entry 0 is NUL and the
    other entries are non-zero BMP code points -/
def needDict (table : List Nat) : Bool :=
  let t := table.take 256
  (t.head? != some 0) || (t.drop 1).any fun c => c == 0 || c > 0xFFFF

/-- last index `< 256` at which the table holds `c` -/
def lastIndexFrom (c : Nat) (i : Nat) : List Nat → Option Nat
  | [] => none
  | x :: xs =>
    match lastIndexFrom c (i + 1) xs with
    | some j => some j
    | none => if x = c then some i else none

/-- `codecs.charmap_build(table)` as a function: the byte a code point encodes to -/
def encLookup (table : List Nat) (c : Nat) : Option UInt8 :=
  if c = undefinedCp ∧ needDict table = false then none
  else (lastIndexFrom c 0 (table.take 256)).map UInt8.ofNat

/-- `codecs.charmap_encode(input, 'strict', map)`: `.error (start, end)` = UnicodeEncodeError; `end` covers the whole run
    of consecutive unencodable characters -/
def charmapEncodeFrom (enc : Nat → Option UInt8) (i : Nat) : List Nat → Except (Nat × Nat) (List UInt8)
  | [] => .ok []
  | c :: cs =>
    match enc c with
    | none => .error (i, i + 1 + (cs.takeWhile fun c => (enc c).isNone).length)
    | some b =>
      match charmapEncodeFrom enc (i + 1) cs with
      | .error e => .error e
      | .ok bs => .ok (b :: bs)

def charmapEncode (table : List Nat) (cs : List Nat) : Except (Nat × Nat) (List UInt8) :=
  charmapEncodeFrom (encLookup table) 0 cs

/-! ## the iconv(3) binding: `_decode_dl` / `_encode_dl` over an abstract iconv -/

/-- return value / errno of an `iconv()` call -/
inductive Rc where
  | ok | e2big | eilseq | einval | other (errno : Nat)
  deriving DecidableEq, Repr

/-- what one conversion call did: result, input bytes consumed, bytes it wrote at the output pointer -/
structure Call where
  rc : Rc
  consumed : Nat
  written : List UInt8
  deriving Repr

/-- one round of the loop body, as a function of the byte count told in `outbytesleft`:
    the reset call `iconv(cd, NULL…)` (`some errno` = failed), the conversion call, the flush call -/
structure Round where
  reset : Option Nat
  main : Call
  flush : Call
  deriving Repr

abbrev Step := Nat → Round

/-- buffer bookkeeping of one round: bytes allocated, bytes told to iconv -/
structure Alloc where
  allocated : Nat
  told : Nat
  deriving DecidableEq, Repr

inductive Outcome (α : Type) where
  | ok (out : α)
  | unicodeError (start stop : Nat)   -- UnicodeDecodeError / UnicodeEncodeError with `.start`, `.end`
  | osError (errno : Nat)
  | assertion                         -- an `assert` fired
  | valueError                        -- `outbuf[:n]`: a wchar_t above U+10FFFF cannot become a `str`
  | outOfFuel                         -- the model's fuel ran out (the Python loop has none)
  deriving Repr

def errnoE2BIG : Nat := 7
def errnoEINVAL : Nat := 22
def errnoEILSEQ : Nat := 84

/-- little-endian 32-bit units of a byte string (`outbuf[:n]` of a `c_wchar` array on Linux) -/
def wchars : List UInt8 → List Nat
  | a :: b :: c :: d :: rest => (a.toNat + 256 * b.toNat + 65536 * c.toNat + 16777216 * d.toNat) :: wchars rest
  | _ => []

/-- `for end in range(begin + 1, len(input)): if input[end] < 0x80: break  else: end = len(input)` -/
def syncEnd (input : List UInt8) (start : Nat) : Nat :=
  let tail := input.drop (start + 1)
  match tail.findIdx? (fun b => b.toNat < 0x80) with
  | some k => start + 1 + k
  | none => input.length

/-- the outcome of the two conversion calls: `rc`, `inbytesleft`, `outbytesleft`, buffer contents -/
structure Called where
  rc : Rc
  inLeft : Nat
  outLeft : Nat
  buf : List UInt8

/-- `rc = iconv(cd, in…, out…); if rc != -1: rc = iconv(cd, NULL, NULL, out…)` -/
def callBoth (inLen : Nat) (told : Nat) (r : Round) : Called :=
  let inLeft := inLen - r.main.consumed
  let outLeft := told - r.main.written.length
  match r.main.rc with
  | .ok => ⟨r.flush.rc, inLeft, outLeft - r.flush.written.length, r.main.written ++ r.flush.written⟩
  | rc => ⟨rc, inLeft, outLeft, r.main.written⟩

/-- the `while True:` loop of `_decode_dl`.  Returns the outcome and, per round, what was allocated
    (`create_unicode_buffer(output_len)`: `4 * output_len` bytes) and told (`output_len` bytes). -/
def decodeLoop (step : Step) (input : List UInt8) : Nat → Nat → Outcome (List Nat) × List Alloc
  | 0, _ => (.outOfFuel, [])
  | fuel + 1, outputLen =>
    let a : Alloc := ⟨4 * outputLen, outputLen⟩
    let r := step outputLen
    match r.reset with
    | some errno => (.osError errno, [])
    | none =>
      let c := callBoth input.length outputLen r
      match c.rc with
      | .e2big =>
        let (o, tr) := decodeLoop step input fuel (outputLen * 2)
        (o, a :: tr)
      | .eilseq | .einval =>
        let start := input.length - c.inLeft
        (.unicodeError start (syncEnd input start), [a])
      | .other errno => (.osError errno, [a])
      | .ok =>
        if c.inLeft ≠ 0 then (.assertion, [a])
        else
          let produced := outputLen - c.outLeft
          if produced % 4 ≠ 0 then (.assertion, [a])
          else
            let units := (wchars (c.buf ++ List.replicate (4 * outputLen - c.buf.length) 0)).take (produced / 4)
            if units.any (· > 0x10FFFF) then (.valueError, [a]) else (.ok units, [a])

/-- `_decode_dl(input, encoding=…)` after a successful `iconv_open` (`decode()` returns `''` for empty input first) -/
def decodeDl (step : Step) (input : List UInt8) (fuel : Nat) : Outcome (List Nat) × List Alloc :=
  if input.isEmpty then (.ok [], []) else decodeLoop step input fuel input.length

/-- the `while True:` loop of `_encode_dl`; `n` = `len(input)` in characters, the input buffer has `4 * n` bytes
    (UTF-32LE); `create_string_buffer(output_len)` allocates `output_len` bytes and `output_len` are told -/
def encodeLoop (step : Step) (n : Nat) : Nat → Nat → Outcome (List UInt8) × List Alloc
  | 0, _ => (.outOfFuel, [])
  | fuel + 1, outputLen =>
    let a : Alloc := ⟨outputLen, outputLen⟩
    let r := step outputLen
    match r.reset with
    | some errno => (.osError errno, [])
    | none =>
      let c := callBoth (4 * n) outputLen r
      match c.rc with
      | .e2big =>
        let (o, tr) := encodeLoop step n fuel (outputLen * 2)
        (o, a :: tr)
      | .eilseq | .einval =>
        let start := n - c.inLeft / 4
        (.unicodeError start (start + 1), [a])
      | .other errno => (.osError errno, [a])
      | .ok =>
        if c.inLeft ≠ 0 then (.assertion, [a])
        else
          let produced := outputLen - c.outLeft
          (.ok ((c.buf ++ List.replicate (outputLen - c.buf.length) 0).take produced), [a])

def encodeDl (step : Step) (n : Nat) (fuel : Nat) : Outcome (List UInt8) × List Alloc :=
  if n = 0 then (.ok [], []) else encodeLoop step n fuel n

/-! ## EUC-TW as glibc's `euc-tw.c` parses and produces it, over an abstract CNS 11643 table

The tool delegates EUC-TW to iconv; this is the structure of the encoding (which bytes form a unit, which unit a character
is written as), with the character tables as parameters.  `cns plane row col` takes the raw row/column bytes (0xA1..0xFE);
`inv ch` is the position the encoder chooses for a character. -/

abbrev CnsTable := Nat → Nat → Nat → Option Nat
abbrev CnsInverse := Nat → Option (Nat × Nat × Nat)

/-- what stands at the head of a byte string -/
inductive EucUnit where
  | done                                             -- end of input
  | ascii (c : Nat)
  | two (row col : Nat) (ch : Nat)                   -- code set 1: plane 1
  | four (plane row col : Nat) (ch : Nat)            -- code set 2: 8E, 0xA0+plane, row, col
  | illegal                                          -- EILSEQ
  | incomplete                                       -- EINVAL
  deriving DecidableEq, Repr

def eucTwUnit (cns : CnsTable) : List UInt8 → EucUnit
  | [] => .done
  | b :: rest =>
    if b.toNat ≤ 0x7F then .ascii b.toNat
    else if (b.toNat ≤ 0xA0 ∧ b.toNat ≠ 0x8E) ∨ b.toNat > 0xFE then .illegal
    else match rest with
      | [] => .incomplete
      | b2 :: rest2 =>
        if b2.toNat < 0xA1 ∨ b2.toNat = 0xFF then .illegal
        else if b.toNat = 0x8E then
          -- `cns11643_to_ucs4`: the plane byte is looked at before the number of bytes available
          if b2.toNat > 0xB0 then .illegal
          else match rest2 with
          | r :: c :: _ =>
            match cns (b2.toNat - 0xA0) r.toNat c.toNat with
            | some ch => .four (b2.toNat - 0xA0) r.toNat c.toNat ch
            | none => .illegal
          | _ => .incomplete
        else
          match cns 1 b.toNat b2.toNat with
          | some ch => .two b.toNat b2.toNat ch
          | none => .illegal

/-- decoding: the text, or the offset of the offending unit and whether it is merely incomplete -/
def eucTwDecodeLoop (cns : CnsTable) : Nat → Nat → List UInt8 → Except (Nat × Bool) (List Nat)
  | 0, i, bs => if bs.isEmpty then .ok [] else .error (i, false)
  | fuel + 1, i, bs =>
    match eucTwUnit cns bs with
    | .done => .ok []
    | .illegal => .error (i, false)
    | .incomplete => .error (i, true)
    | .ascii c => (eucTwDecodeLoop cns fuel (i + 1) (bs.drop 1)).map (c :: ·)
    | .two _ _ ch => (eucTwDecodeLoop cns fuel (i + 2) (bs.drop 2)).map (ch :: ·)
    | .four _ _ _ ch => (eucTwDecodeLoop cns fuel (i + 4) (bs.drop 4)).map (ch :: ·)

def eucTwDecode (cns : CnsTable) (bs : List UInt8) : Except (Nat × Bool) (List Nat) :=
  eucTwDecodeLoop cns bs.length 0 bs

/-- glibc's conversion skeleton drops the Unicode TAG characters U+E0000..U+E007F when the target charset has no code for
    them (`STANDARD_TO_LOOP_ERR_HANDLER`: `(ch >> 7) == (0xe0000 >> 7)` → `continue`) -/
def isTag (c : Nat) : Bool := c / 128 == 0xE0000 / 128

/-- the bytes a character is written as (`some []`: silently dropped) -/
def eucTwEncodeChar (inv : CnsInverse) (c : Nat) : Option (List UInt8) :=
  if c ≤ 0x7F then some [UInt8.ofNat c]
  else match inv c with
    | none => if isTag c then some [] else none
    | some (p, r, k) =>
      if p = 1 then some [UInt8.ofNat r, UInt8.ofNat k]
      else some [0x8E, UInt8.ofNat (0xA0 + p), UInt8.ofNat r, UInt8.ofNat k]

/-- encoding: the bytes, or the index of the first character without a code -/
def eucTwEncodeFrom (inv : CnsInverse) (i : Nat) : List Nat → Except Nat (List UInt8)
  | [] => .ok []
  | c :: cs =>
    match eucTwEncodeChar inv c with
    | none => .error i
    | some bs => (eucTwEncodeFrom inv (i + 1) cs).map (bs ++ ·)

def eucTwEncode (inv : CnsInverse) (cs : List Nat) : Except Nat (List UInt8) := eucTwEncodeFrom inv 0 cs

/-- a unit is the form the encoder itself writes for its character -/
def EucUnit.canonical (inv : CnsInverse) : EucUnit → Bool
  | .two r c ch => ch > 0x7F && inv ch == some (1, r, c)
  | .four p r c ch => ch > 0x7F && p != 1 && inv ch == some (p, r, c)
  | _ => true

/-- every unit of the byte string is canonical -/
def eucTwCanonical (cns : CnsTable) (inv : CnsInverse) : Nat → List UInt8 → Bool
  | 0, _ => true
  | fuel + 1, bs =>
    match eucTwUnit cns bs with
    | .ascii _ => eucTwCanonical cns inv fuel (bs.drop 1)
    | .two r c ch => (EucUnit.two r c ch).canonical inv && eucTwCanonical cns inv fuel (bs.drop 2)
    | .four p r c ch => (EucUnit.four p r c ch).canonical inv && eucTwCanonical cns inv fuel (bs.drop 4)
    | _ => true

/-! ## `ling._get_characters` and `Language.get_unrepresentable_characters` -/

/-- `str.isspace()` code points (what `str.split()` splits on) -/
def isSpace (c : Nat) : Bool :=
  (9 ≤ c && c ≤ 13) || (28 ≤ c && c ≤ 32) || c == 0x85 || c == 0xA0 || c == 0x1680 || (0x2000 ≤ c && c ≤ 0x200A)
  || c == 0x2028 || c == 0x2029 || c == 0x202F || c == 0x205F || c == 0x3000

/-- `str.split()` -/
def splitWs : List Nat → List Nat → List (List Nat)
  | [], cur => if cur.isEmpty then [] else [cur.reverse]
  | c :: cs, cur =>
    if isSpace c then (if cur.isEmpty then splitWs cs [] else cur.reverse :: splitWs cs [])
    else splitWs cs (c :: cur)

def isParen (c : Nat) : Bool := c == 40 || c == 41

/-- `ch.strip('()')` -/
def stripParens (s : List Nat) : List Nat :=
  ((s.dropWhile isParen).reverse.dropWhile isParen).reverse

/-- `_get_characters(…, strict=…)` applied to the value of the `characters` option -/
def getCharacters (strict : Bool) (value : List Nat) : List (List Nat) :=
  let toks := splitWs value []
  if strict then toks.map stripParens
  else toks.filter fun ch => !(ch.head? == some 40 && ch.getLast? == some 41)

/-- outcome of `text.encode(encoding)` -/
inductive Enc where
  | ok
  | encodeError (iconvCli : Bool)   -- UnicodeEncodeError; `iconvCli` = its reason starts with "iconv:"
  | crash                           -- anything else propagates
  deriving DecidableEq, Repr

/-- the `for character in characters:` loop -/
def unrepLoop (encode : List Nat → Enc) : List (List Nat) → Except Unit (List (List Nat))
  | [] => .ok []
  | ch :: rest =>
    match encode ch with
    | .ok => unrepLoop encode rest
    | .crash => .error ()
    | .encodeError true => .ok [ch]                     -- `break`
    | .encodeError false =>
      match unrepLoop encode rest with
      | .error e => .error e
      | .ok r => .ok (ch :: r)

/-- `get_unrepresentable_characters` after the characters were found; `.error ()` = an exception other than
    UnicodeEncodeError escaped -/
def getUnrepresentable (encode : List Nat → Enc) (characters : List (List Nat)) : Except Unit (List (List Nat)) :=
  match encode characters.flatten with
  | .ok => .ok []
  | .crash => .error ()
  | .encodeError _ => unrepLoop encode characters

/-- the two look-ups: `ll_CC` (if a territory is present), then `ll`; `sect code modifier` = the value of
    `characters[@modifier]` in the section of that primary language -/
def languageCharacters (sect : Name → Option Name → Option (List Nat)) (strict : Bool)
    (ll : Name) (cc : Option Name) (modifier : Option Name) : Option (List (List Nat)) :=
  let first : Option (List Nat) := match cc with
    | some t => sect (ll ++ [95] ++ t) modifier
    | none => none
  match first with
  | some v => some (getCharacters strict v)
  | none => (sect ll modifier).map (getCharacters strict)

/-! ## the charset fragment of `check_headers` (one `Content-Type` value whose `charset=` matched) -/

inductive Tag where
  | boilerplate                                   -- boilerplate-in-content-type <ct>
  | unknownEncoding (enc : Name)
  | nonAsciiCompatible (enc : Name)
  | nonPortable (enc : Name) (proposal : Option Name)
  | unrepresentable (enc : Name) (chars : List (List Nat))
  deriving DecidableEq, Repr

/-- `"CHARSET"` -/
def charsetLiteral : Name := [67, 72, 65, 82, 83, 69, 84]
/-- `"..."` -/
def ellipsis : List Nat := [46, 46, 46]

/-- `if len(x) > 5: x[4:] = ['...']` -/
def truncateChars (x : List (List Nat)) : List (List Nat) :=
  if x.length > 5 then x.take 4 ++ [ellipsis] else x

/-- what the fragment needs to know about the world -/
structure Env where
  interestingStr : List Nat
  tbl : List (Name × Bool)
  c2e : List (Name × Name)
  /-- `_interesting_ascii_bytes.decode(name)` -/
  dec : Name → Dec
  /-- `codecs.lookup(name).name` -/
  lookup : Name → Option Name
  /-- `text.encode(name)` -/
  encode : Name → List Nat → Enc

/-- lines 545–572 of `check_headers`: the tags emitted and the encoding kept (`none` after unknown-encoding).
    `characters` = the language's list (`none`: no language, or no list for it).  `.error ()` = crash. -/
def checkCharset (env : Env) (encoding : Name) (isTemplate : Bool) (characters : Option (Option (List (List Nat)))) :
    Except Unit (List Tag × Option Name) :=
  match isAsciiCompatible env.interestingStr (env.dec encoding) false with
  | .error () =>
    if encoding = charsetLiteral then .ok (if isTemplate then [] else [.boilerplate], none)
    else .ok ([.unknownEncoding encoding], none)
  | .ok compatible =>
    let step1 : Except Unit (List Tag × Name) :=
      if !compatible then .ok ([.nonAsciiCompatible encoding], encoding)
      else if isPortable env.tbl true encoding then .ok ([], encoding)
      else match propose env.tbl env.c2e env.lookup encoding with
        | .error () => .error ()
        | .ok (some p) => .ok ([.nonPortable encoding (some p)], p)
        | .ok none => .ok ([.nonPortable encoding none], encoding)
    match step1 with
    | .error () => .error ()
    | .ok (tags, enc) =>
      match characters with
      | none | some none => .ok (tags, some enc)
      | some (some chars) =>
        match getUnrepresentable (env.encode enc) chars with
        | .error () => .error ()
        | .ok [] => .ok (tags, some enc)
        | .ok u => .ok (tags ++ [.unrepresentable enc (truncateChars u)], some enc)

end I18n.Charset
