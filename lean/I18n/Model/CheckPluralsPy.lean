import I18n.Model.CheckPlurals
/-!
Python operations used by the definitions regenerated from `lib/gettext.py` `parse_plural_forms`
(`Generated/GettextPf.lean`, `tools/translate/gettextpf2lean.py`).  Core Lean only.
-/
namespace I18n.CheckPlurals.Py

/-- the exceptions that leave `parse_plural_forms` -/
inductive PfErr where
  | syntax     -- gettext.PluralFormsSyntaxError (incl. its subclass PluralExpressionSyntaxError)
  | value      -- ValueError from `int()` on an over-long numeral
  deriving DecidableEq, Repr

/-- `int(g, 10)` for a numeral matched by `[1-9][0-9]*` -/
def intOfNumeral (ds : List Char) : Except PfErr Nat :=
  if PluralParse.tooLong ds.length then .error .value else .ok (digitsToNat ds)

/-- `parse_plural_expression(t)`: the parser of C04 -/
def parseExpression (t : List Char) : Except PfErr Expr :=
  match PluralParse.parse t with
  | .ok e => .ok e
  | .syntaxError => .error .syntax
  | .valueError => .error .value

/-- the model's result type, as exceptions -/
def ofResult : PfResult → Except PfErr (Nat × Expr × List Char × List Char)
  | .ok n e lj rj => .ok (n, e, lj, rj)
  | .syntaxError => .error .syntax
  | .valueError => .error .value

end I18n.CheckPlurals.Py
