import I18n.Model.CheckPlurals
/-!
Python operations used by the definitions regenerated from `lib/gettext.py` `parse_plural_forms`
(`Generated/GettextPf.lean`, `tools/translate/gettextpf2lean.py`).  Core Lean only.
-/
namespace I18n.CheckPlurals.Py

/-- the exceptions that leave `parse_plural_forms` -/
inductive PfErr where
  | syntax     -- gettext.PluralFormsSyntaxError (incl. its subclass PluralExpressionSyntaxError)
  | value      -- ValueError from `int()` on an over-long numeral
  deriving DecidableEq, Repr

/-- `int(g, 10)` for a numeral matched by `[1-9][0-9]*` -/
def intOfNumeral (ds : List Char) : Except PfErr Nat :=
  if PluralParse.tooLong ds.length then .error .value else .ok (digitsToNat ds)

/-- `parse_plural_expression(t)`: the parser of C04 -/
def parseExpression (t : List Char) : Except PfErr Expr :=
  match PluralParse.parse t with
  | .ok e => .ok e
  | .syntaxError => .error .syntax
  | .valueError => .error .value

/-- the model's result type, as exceptions -/
def ofResult : PfResult → Except PfErr (Nat × Expr × List Char × List Char)
  | .ok n e lj rj => .ok (n, e, lj, rj)
  | .syntaxError => .error .syntax
  | .valueError => .error .value

/-! ## round 3: `misc.format_range` and `Checker.check_plurals` (`Generated/ChkPlurals.lean`, `tools/translate/chkplurals2lean.py`) -/

/-- an element of a list that holds ints and strs (`format_range`'s `result`) -/
inductive IntOrStr where
  | int (i : Int)
  | str (s : List Char)
  deriving DecidableEq, Repr

/-- `str(x)` -/
def IntOrStr.toStr : IntOrStr → List Char
  | .int i => intStr i
  | .str s => s

/-- what `check_plurals` does with a parsed plural expression `expr`: `expr(i)`, `expr.codomain()`, `expr.period()` -/
structure ExprOps (E : Type) where
  call : E → Int → Except I18n.Py.Exc Int
  codomain : E → Except I18n.Py.Exc (Option (Int × Int))
  period : E → Except I18n.Py.Exc (Option (Int × Int))
  /-- `gettext.parse_plural_forms(s)` (strict): the number of forms and the expression object -/
  parse : List Char → Except I18n.Py.Exc (Nat × E)

/-- an exception of `gettext.parse_plural_forms` leaving `check_plurals` (the model does not tell the two apart) -/
def pfExc : PfErr → I18n.Py.Exc
  | .syntax => .ValueError
  | .value => .ValueError

/-- `f(x)` where the exceptions of `f` are `PfErr` -/
def liftPf {α : Type} : Except PfErr α → Except I18n.Py.Exc α
  | .ok a => .ok a
  | .error e => .error (pfExc e)

end I18n.CheckPlurals.Py
