/-
Hash-seed independence inside the model (C03).

A Python `set`/`frozenset` is modelled by the list `s` of its (pairwise distinct) elements; ITERATING it yields
`ord.order s`, where `ord : SetOrder α` is an ARBITRARY rearrangement (`(order s).Perm s`) — one `SetOrder` per value of
PYTHONHASHSEED / insertion history / table size.  Nothing else is assumed of it.

The definitions below are the shapes of the sites that `Generated/StateSites.iterSites` classifies (one per verdict);
`Props/C03.lean` proves each of them independent of `ord`.

  sortedJoin      `str.join(', ', sorted(types))`                       check/msgformat/pybrace.py (after fix ef37847), c.py, python.py
  sortedFor       `for fmt in sorted(flags.formats): checker.check_message(...)`      check/__init__.py `_check_message_formats`
                  `x = sorted(set(x))` followed by a loop over x                      check/__init__.py, 14 header-field sites
  sortedByKey     `sorted(keys, key=sort_key)` with `sort_key(item) = (isinstance(item, str), item)`   msgformat/pybrace.py
  anyMatch        `re.compile('|'.join(regexs)).search(line) is None`                 check/__init__.py `check_comments`
  dictOfSet/get   `{str.lower(s): s for s in header_fields}` then `.get(key.lower())` check/__init__.py `check_headers`
                  `for k in set: d[k'] = k` (encodings._unmangle_encoding)
  bestMatch       `difflib.get_close_matches(key, header_fields, n=1, cutoff)`        check/__init__.py `check_headers`
  theOnly         `[x] = s`, `s.pop()` under `len(s) == 1`                            check_mime, ling.get_language_for_name
-/
namespace I18n.HashOrder

/-- one possible iteration order of sets -/
structure SetOrder (α : Type) where
  order : List α → List α
  perm : ∀ xs, (order xs).Perm xs

/-- the order in which the elements were written down (a legitimate `SetOrder`) -/
def SetOrder.asWritten {α : Type} : SetOrder α := ⟨id, fun _ => List.Perm.refl _⟩
/-- the reverse order (another one) -/
def SetOrder.reversed {α : Type} : SetOrder α := ⟨List.reverse, fun xs => List.reverse_perm xs⟩

variable {α β : Type}

/-- insert `a` in front of the first element it is `le` to (ties: in front — `a` came earlier in the input) -/
def insertBy (le : α → α → Bool) (a : α) : List α → List α
  | [] => [a]
  | b :: l => if le a b then a :: b :: l else b :: insertBy le a l

/-- Python `sorted(iterable)` / `sorted(iterable, key=…)`: a STABLE sort by `le` (here: insertion sort; for a total
    preorder every stable sort computes the same list) -/
def pySorted (le : α → α → Bool) : List α → List α
  | [] => []
  | a :: l => insertBy le a (pySorted le l)

/-- `sep.join(sorted(s))` -/
def sortedJoin (ord : SetOrder String) (le : String → String → Bool) (sep : String) (s : List String) : String :=
  sep.intercalate (pySorted le (ord.order s))

/-- `for x in sorted(s): <emit x>` — the lines printed -/
def sortedFor (ord : SetOrder α) (le : α → α → Bool) (emit : α → List String) (s : List α) : List String :=
  (pySorted le (ord.order s)).flatMap emit

/-- `sorted(s, key=key)`: compares keys only (ties keep their input order: stability) -/
def sortedByKey (ord : SetOrder α) (key : α → β) (leKey : β → β → Bool) (s : List α) : List α :=
  pySorted (fun a b => leKey (key a) (key b)) (ord.order s)

/-- WITHOUT `sorted`: `sep.join(s)` — what msgformat/pybrace.py did before ef37847 -/
def rawJoin (ord : SetOrder String) (sep : String) (s : List String) : String :=
  sep.intercalate (ord.order s)

/-- a regex alternation built from a set, used for match existence only: some alternative matches `line` -/
def anyMatch (ord : SetOrder α) (matchesAlt : α → Bool) (s : List α) : Bool :=
  (ord.order s).any matchesAlt

/-- a dict built by iterating a set: later insertions overwrite earlier ones (last writer wins) -/
def dictOfSet [DecidableEq β] (ord : SetOrder α) (key : α → β) (s : List α) : List (β × α) :=
  (ord.order s).map (fun x => (key x, x))
def dictGet [DecidableEq β] (d : List (β × α)) (k : β) : Option α :=
  ((d.filter (fun kv => kv.1 == k)).getLast?).map (·.2)

/-- `heapq.nlargest(1, scored)` = `max` over (score, word) pairs, as `difflib.get_close_matches(…, n=1)` computes it:
    a running maximum over the iteration -/
def bestMatch (ord : SetOrder α) (better : α → α → α) (s : List α) : Option α :=
  (ord.order s).foldl (fun acc x => some (match acc with | none => x | some a => better a x)) none

/-- `[x] = s` / `s.pop()` under `len(s) == 1` -/
def theOnly (ord : SetOrder α) (s : List α) : Option α :=
  match ord.order s with
  | [x] => some x
  | _ => none

end I18n.HashOrder
