import I18n.Model.Tags
import I18n.Generated.StringFormats
/-
Hand-written model of `Checker._check_message_flags` (lib/check/__init__.py:888-1010), statement by statement, with the
pieces of Python it rests on (`collections.Counter`, `sorted`, `str.startswith/endswith/strip/rstrip`, slices,
`re.match` of the `range:` pattern, `heapq.nsmallest`, `min`, `frozenset &`).

What comes from /repo on every run (Generated/StringFormats.lean, see tools/translate/msg2lean.py) is DATA the model
interprets: `gettext.string_formats`, the prefix tuple of the `-format` branch, the (positive, negative) pairs of the
conflict loop, the `range:` prefix / strip set / separator.  The model is parameterised by an `Env`; `liveEnv`
(Model/Msg.lean) instantiates it with the generated data.  Core Lean only.

NOTE for C14: the `range:` flag parse (`parseRange`, `Info.rangeMin/rangeMax`) lives here; the format-string checks
receive the resulting `Info` through the opaque dispatch stage (`Emit.fmt`).
-/
namespace I18n.Msg
open I18n.Tags (Str lit Extra)

/-! ## the tags `check_messages`, `_check_message_flags` and the XML gate can emit -/

inductive MTag where
  | conflictMarkerInTranslation | duplicateMessageDefinition | emptyFile | inconsistentLeadingNewlines
  | inconsistentTrailingNewlines | partiallyTranslatedMessage | strayPreviousMsgid | translationInTemplate
  | unusualCharacterInTranslation
  | conflictingMessageFlags | duplicateMessageFlag | invalidRangeFlag | rangeFlagWithoutPluralString
  | redundantMessageFlag | unknownMessageFlag
  | malformedXml
  deriving DecidableEq, Repr

def MTag.name : MTag → Str
  | .conflictMarkerInTranslation => lit "conflict-marker-in-translation"
  | .duplicateMessageDefinition => lit "duplicate-message-definition"
  | .emptyFile => lit "empty-file"
  | .inconsistentLeadingNewlines => lit "inconsistent-leading-newlines"
  | .inconsistentTrailingNewlines => lit "inconsistent-trailing-newlines"
  | .partiallyTranslatedMessage => lit "partially-translated-message"
  | .strayPreviousMsgid => lit "stray-previous-msgid"
  | .translationInTemplate => lit "translation-in-template"
  | .unusualCharacterInTranslation => lit "unusual-character-in-translation"
  | .conflictingMessageFlags => lit "conflicting-message-flags"
  | .duplicateMessageFlag => lit "duplicate-message-flag"
  | .invalidRangeFlag => lit "invalid-range-flag"
  | .rangeFlagWithoutPluralString => lit "range-flag-without-plural-string"
  | .redundantMessageFlag => lit "redundant-message-flag"
  | .unknownMessageFlag => lit "unknown-message-flag"
  | .malformedXml => lit "malformed-xml"

/-- tags of `check_messages` / `_check_message_flags` / `_check_message_xml_format`, each list sorted by name -/
def MTag.ofCheckMessages : List MTag :=
  [.conflictMarkerInTranslation, .duplicateMessageDefinition, .emptyFile, .inconsistentLeadingNewlines,
   .inconsistentTrailingNewlines, .partiallyTranslatedMessage, .strayPreviousMsgid, .translationInTemplate,
   .unusualCharacterInTranslation]
def MTag.ofCheckMessageFlags : List MTag :=
  [.conflictingMessageFlags, .duplicateMessageFlag, .invalidRangeFlag, .rangeFlagWithoutPluralString,
   .redundantMessageFlag, .unknownMessageFlag]
def MTag.ofXmlFormat : List MTag := [.malformedXml]

/-- the Python exceptions the modelled code can run into -/
inductive Exc where
  | valueError        -- `unicodedata.name` without a name (`encinfo.get_character_name` re-raises)
  | format (e : Tags.FmtErr)   -- `str.format` on a template with stray braces (`tags.safe_format`)
  | xmlOther          -- anything but `ExpatError` out of `xml.check_fragment`
  deriving DecidableEq, Repr

/-- the namespace `_check_message_flags` returns -/
structure Info where
  fuzzy : Bool
  rangeMin : Nat
  /-- `none` = `1e999` (+inf) -/
  rangeMax : Option Nat
  /-- `frozenset(positive_format_flags)`, listed in sorted order -/
  formats : List Str
  deriving DecidableEq, Repr

/-- what the modelled methods do that is visible outside: tag calls, the dispatch to a format checker (opaque stage,
    property C14), and an exception leaving the method (everything after the first `crash` did not happen) -/
inductive Emit where
  | tag (t : MTag) (extras : List Extra)
  | fmt (name : Str) (info : Info)
  | crash (e : Exc)
  deriving DecidableEq, Repr

/-- what is observable of a run: the emissions up to and including the first exception -/
def observe : List Emit → List Emit
  | [] => []
  | .crash e :: _ => [.crash e]
  | x :: rest => x :: observe rest

/-! ## Python pieces -/

/-- `a < b` on `str` (code points, lexicographic) -/
def strLt : Str → Str → Bool
  | [], [] => false
  | [], _ :: _ => true
  | _ :: _, [] => false
  | a :: as, b :: bs => if a < b then true else if b < a then false else strLt as bs

/-- `a < b` on pairs of ints -/
def pairLt (a b : Nat × Nat) : Bool := a.1 < b.1 || (a.1 = b.1 && a.2 < b.2)

/-- insert into a strictly sorted list (no duplicates) -/
def sinsert {α : Type} [DecidableEq α] (lt : α → α → Bool) (x : α) : List α → List α
  | [] => [x]
  | y :: ys => if lt x y then x :: y :: ys else if x = y then y :: ys else y :: sinsert lt x ys

/-- `sorted(set(l))` -/
def toSorted {α : Type} [DecidableEq α] (lt : α → α → Bool) (l : List α) : List α := l.foldr (sinsert lt) []

def startsWith (p s : Str) : Bool := p.isPrefixOf s
def endsWith (p s : Str) : Bool := p.isSuffixOf s

/-- `s.strip(chars)` -/
def strip (chars : Str) (s : Str) : Str :=
  ((s.dropWhile chars.contains).reverse.dropWhile chars.contains).reverse

/-- `s.rstrip(chars)` -/
def rstrip (chars : Str) (s : Str) : Str := (s.reverse.dropWhile chars.contains).reverse

/-- `s[a:-b]` for `b > 0` -/
def sliceTo (s : Str) (a b : Nat) : Str := (s.take (s.length - b)).drop a

def isAsciiDigit (c : Nat) : Bool := 48 ≤ c && c ≤ 57

/-- `int(s)` on ASCII digits -/
def decVal (s : Str) : Nat := s.foldl (fun acc c => acc * 10 + (c - 48)) 0

/-- dictionary look-up on an association list -/
def assocGet {α β : Type} [DecidableEq α] (k : α) : List (α × β) → Option β
  | [] => none
  | (k', v) :: rest => if k' = k then some v else assocGet k rest

/-- `d[k] = v`: replace in place, or append -/
def assocSet {α β : Type} [DecidableEq α] (k : α) (v : β) : List (α × β) → List (α × β)
  | [] => [(k, v)]
  | (k', v') :: rest => if k' = k then (k, v) :: rest else (k', v') :: assocSet k v rest

/-- `min(l)` on a non-empty list of `str` (`[]` for the empty list, which the callers exclude) -/
def minStr : List Str → Str
  | [] => []
  | x :: rest => rest.foldl (fun m y => if strLt y m then y else m) x

/-! ## environment: data taken from /repo -/

structure FlagEnv where
  /-- `gettext.string_formats` -/
  formats : List (Str × List Str)
  /-- `for prefix in 'no-', 'possible-', 'impossible-', ''` -/
  prefixes : List Str
  /-- `[('', 'no'), ('', 'impossible'), ('possible', 'impossible')]` -/
  conflictPairs : List (Str × Str)
  rangePrefix : Str
  rangeStrip : Str
  rangeSep : Str
  /-- Unicode data for `repr()` in `tags._escape` -/
  db : Tags.UnicodeDB

def FlagEnv.isFormat (env : FlagEnv) (name : Str) : Bool := env.formats.any (·.1 = name)

/-- `gettext.string_formats[name]` -/
def FlagEnv.examples (env : FlagEnv) (name : Str) : List Str := (assocGet name env.formats).getD []

/-! ## the entry as the checks read it -/

structure Entry where
  msgid : Str
  msgctxt : Option Str
  msgidPlural : Option Str
  /-- `None` when the entry has no `msgstr` line (polib4us `base_entry_init_patch`) -/
  msgstr : Option Str
  /-- `msgstr_plural`: an `IntDict`, in insertion order, keys distinct -/
  msgstrPlural : List (Nat × Str)
  /-- `message.flags` (already split at `,` and stripped by the polib4us flags patch) -/
  flags : List Str
  obsolete : Bool
  prevMsgctxt : Option Str
  prevMsgid : Option Str
  prevMsgidPlural : Option Str
  /-- `message.comment or ''` (extracted comments) -/
  comment : Str
  deriving DecidableEq, Repr

/-- `message_repr(message, template)` for the two templates in use, `'{}'` and `'{}:'` (`colon`): the closed form of
    `tags.safe_format('msgid {id}[ msgctxt {ctxt}][:]', id=msgid, ctxt=msgctxt)` (the fixed templates cannot fail; that this IS what
    `Tags.messageRepr` computes is Lemmas/MsgRepr.lean, and the `msg repr` correspondence stream) -/
def msgRepr (db : Tags.UnicodeDB) (msgid : Str) (msgctxt : Option Str) (colon : Bool) : Str :=
  lit "msgid " ++ Tags.escapeStr db msgid ++
    (match msgctxt with | some c => lit " msgctxt " ++ Tags.escapeStr db c | none => []) ++ (if colon then [58] else [])

/-- the `message_repr` extra of an entry (a `safestr`) -/
def Entry.repr (db : Tags.UnicodeDB) (e : Entry) (colon : Bool) : Extra := .safe (msgRepr db e.msgid e.msgctxt colon)

/-- `self.tag(t, message_repr(message[, template='{}:']), *rest)` -/
def tagR (db : Tags.UnicodeDB) (e : Entry) (colon : Bool) (t : MTag) (rest : List Extra) : Emit :=
  .tag t (e.repr db colon :: rest)

def tplPlain : Bool := false
def tplColon : Bool := true

/-! ## the `range:` flag -/

/-- `re.match(r'\A([0-9]+)[.][.]([0-9]+)\Z', s)` and `map(int, match.groups())` -/
def matchRange (sep : Str) (s : Str) : Option (Nat × Nat) :=
  let d1 := s.takeWhile isAsciiDigit
  let r := s.dropWhile isAsciiDigit
  if d1.isEmpty then none
  else if !startsWith sep r then none
  else
    let d2 := r.drop sep.length
    if d2.isEmpty || !d2.all isAsciiDigit then none
    else some (decVal d1, decVal d2)

/-- the flag text after `range:`, stripped, parsed, and `i < j` required -/
def parseRange (env : FlagEnv) (flag : Str) : Option (Nat × Nat) :=
  match matchRange env.rangeSep (strip env.rangeStrip (flag.drop env.rangePrefix.length)) with
  | some (i, j) => if i < j then some (i, j) else none
  | none => none

/-! ## the `-format` branch -/

def formatSuffix : Str := lit "-format"

/-- the prefix loop: the first prefix (in source order) the flag starts with and whose remainder names a known format;
    result `(tp, string_format)` with `tp = prefix.rstrip('-')` -/
def classifyFormat (env : FlagEnv) (flag : Str) : List Str → Option (Str × Str)
  | [] => none
  | p :: rest =>
    if !startsWith p flag then classifyFormat env flag rest
    else
      let stringFormat := sliceTo flag p.length 7
      if env.isFormat stringFormat then some (rstrip [45] p, stringFormat)
      else classifyFormat env flag rest

/-! ## the loop over `sorted(flags.items())` -/

structure FSt where
  fuzzy : Bool := false
  rangeMin : Nat := 0
  rangeMax : Option Nat := none
  wrap : Option Bool := none
  /-- `format_flags[tp][string_format] = flag`, flattened: key `(tp, string_format)` -/
  formatFlags : List ((Str × Str) × Str) := []
  /-- `range_flags[i, j][flag] += n` -/
  rangeFlags : List ((Nat × Nat) × List (Str × Nat)) := []
  out : List Emit := []

/-- `range_flags[i, j][flag] += n` (defaultdict of Counters) -/
def rangeAdd (k : Nat × Nat) (flag : Str) (n : Nat) (d : List ((Nat × Nat) × List (Str × Nat))) :
    List ((Nat × Nat) × List (Str × Nat)) :=
  let c := (assocGet k d).getD []
  assocSet k (assocSet flag ((assocGet flag c).getD 0 + n) c) d

/-- the `if / elif` chain of one iteration: `(known_flag, n, state)` -/
def flagBranch (env : FlagEnv) (e : Entry) (st : FSt) (flag : Str) (n : Nat) : Bool × Nat × FSt :=
  if flag = lit "fuzzy" then (true, n, { st with fuzzy := true })
  else if flag = lit "wrap" ∨ flag = lit "no-wrap" then
    let newWrap : Bool := flag = lit "wrap"
    if st.wrap = some (!newWrap) then
      (true, n, { st with out := st.out ++ [tagR env.db e tplColon .conflictingMessageFlags [.str (lit "wrap"), .str (lit "no-wrap")]] })
    else (true, n, { st with wrap := some newWrap })
  else if startsWith env.rangePrefix flag then
    let st := if e.msgidPlural.isNone then { st with out := st.out ++ [.tag .rangeFlagWithoutPluralString []] } else st
    match parseRange env flag with
    | some (i, j) =>
      -- `range_flags[i, j][flag] += n; n = 0`
      (true, 0, { st with rangeMin := i, rangeMax := some j, rangeFlags := rangeAdd (i, j) flag n st.rangeFlags })
    | none =>
      (true, n, { st with out := st.out ++ [tagR env.db e tplColon .invalidRangeFlag [.str flag]] })
  else if endsWith formatSuffix flag then
    match classifyFormat env flag env.prefixes with
    | some (tp, sf) => (true, n, { st with formatFlags := assocSet (tp, sf) flag st.formatFlags })
    | none => (false, n, st)
  else if flag = lit "markdown-text" then (true, n, st)
  else (false, n, st)

/-- one iteration of `for flag, n in sorted(flags.items())` -/
def flagStep (env : FlagEnv) (e : Entry) (st : FSt) (flag : Str) (n : Nat) : FSt :=
  let (known, n, st) := flagBranch env e st flag n
  let st := if !known then { st with out := st.out ++ [tagR env.db e tplColon .unknownMessageFlag [.str flag]] } else st
  if n > 1 ∧ flag ≠ [] then { st with out := st.out ++ [tagR env.db e tplColon .duplicateMessageFlag [.str flag]] } else st

/-- `format_flags[tp]`: `string_format ↦ flag` -/
def formatFlagsOf (ff : List ((Str × Str) × Str)) (tp : Str) : List (Str × Str) :=
  (ff.filter (·.1.1 = tp)).map fun kv => (kv.1.2, kv.2)

def keysOf {α β : Type} (d : List (α × β)) : List α := d.map (·.1)

/-- `sorted(frozenset(a) & frozenset(b))` on dictionaries -/
def commonKeys (a b : List (Str × Str)) : List Str :=
  toSorted strLt ((keysOf a).filter (keysOf b).contains)

/-- `fmt_ex1 & fmt_ex2` is non-empty -/
def shareExample (env : FlagEnv) (f1 f2 : Str) : Bool := (env.examples f1).any (env.examples f2).contains

/-- the nested loop over `sorted(positive_format_flags.items())` -/
def positivePairs (env : FlagEnv) (e : Entry) (pos : List (Str × Str)) : List Emit :=
  let ks := toSorted strLt (keysOf pos)
  ks.flatMap fun f1 => ks.flatMap fun f2 =>
    if !strLt f1 f2 then []                                  -- `if fmt1 >= fmt2: continue`
    else if shareExample env f1 f2 then []
    else [tagR env.db e tplColon .conflictingMessageFlags
            [.str ((assocGet f1 pos).getD []), .str ((assocGet f2 pos).getD [])]]

/-- `for positive_key, negative_key in [...]` -/
def conflictLoop (env : FlagEnv) (e : Entry) (ff : List ((Str × Str) × Str)) : List Emit :=
  env.conflictPairs.flatMap fun pn =>
    let pos := formatFlagsOf ff pn.1
    let neg := formatFlagsOf ff pn.2
    (commonKeys pos neg).map fun f =>
      tagR env.db e tplColon .conflictingMessageFlags [.str ((assocGet f pos).getD []), .str ((assocGet f neg).getD [])]

/-- `tags.safe_format(f'(implied by {flag})')`: the interpolated text is used as a TEMPLATE -/
def impliedBy (flag : Str) : Except Tags.FmtErr Str := Tags.pyFormat (lit "(implied by " ++ flag ++ lit ")") [] []

def redundantLoop (env : FlagEnv) (e : Entry) (ff : List ((Str × Str) × Str)) : List Emit :=
  let pos := formatFlagsOf ff []
  let possible := formatFlagsOf ff (lit "possible")
  (commonKeys pos possible).map fun f =>
    match impliedBy ((assocGet f pos).getD []) with
    | .ok s => tagR env.db e tplColon .redundantMessageFlag [.str ((assocGet f possible).getD []), .safe s]
    | .error err => .crash (.format err)

/-- what follows the loop, up to `positive_format_flags = format_flags['']` -/
def rangeTail (env : FlagEnv) (e : Entry) (rf : List ((Nat × Nat) × List (Str × Nat))) : List Emit :=
  if rf.length > 1 then
    -- `[range1, range2] = heapq.nsmallest(2, range_flags.keys())`
    match toSorted pairLt (keysOf rf) with
    | r1 :: r2 :: _ =>
      [tagR env.db e tplColon .conflictingMessageFlags
        [.str (minStr (keysOf ((assocGet r1 rf).getD []))), .str (minStr (keysOf ((assocGet r2 rf).getD [])))]]
    | _ => []
  else match rf with
    | [(_, c)] =>
      if (c.map (·.2)).sum > 1 then [tagR env.db e tplColon .duplicateMessageFlag [.str (minStr (keysOf c))]] else []
    | _ => []

/-- `collections.Counter(message.flags)` then `sorted(flags.items())` -/
def sortedFlagItems (flags : List Str) : List (Str × Nat) :=
  (toSorted strLt flags).map fun f => (f, flags.count f)

/-- the `for` loop -/
def flagLoop (env : FlagEnv) (e : Entry) (st : FSt) : List (Str × Nat) → FSt
  | [] => st
  | (f, n) :: rest => flagLoop env e (flagStep env e st f n) rest

/-- `Checker._check_message_flags(message)`: the returned namespace and the emissions -/
def checkMessageFlags (env : FlagEnv) (e : Entry) : Info × List Emit :=
  let st := flagLoop env e {} (sortedFlagItems e.flags)
  let positive := formatFlagsOf st.formatFlags []
  let info : Info := ⟨st.fuzzy, st.rangeMin, st.rangeMax, toSorted strLt (keysOf positive)⟩
  (info, st.out ++ rangeTail env e st.rangeFlags ++ positivePairs env e positive
          ++ conflictLoop env e st.formatFlags ++ redundantLoop env e st.formatFlags)

end I18n.Msg
