import I18n.Py
import I18n.Generated.PyBraceTables
/-
Model of `lib/strformat/perlbrace.py` (Perl `Locale::TextDomain` placeholders `{name}`), statement by statement.

    _field_re = (?P<literal> [^{]+ ) | (?: [{] (?P<name> [^\W\d]\w* ) [}] )        (re.VERBOSE)

`FormatString.__init__` walks `_field_re.finditer(s)` and raises `Error(_printable_prefix(s[last_pos:]))` as soon as a match
does not start where the previous one ended, or when the matches stop before the end of the string.  Every match is
non-empty, so `finditer` tries the pattern at `last_pos` first: a match there is the one the loop sees; if there is none, a
later match (`match.start() != last_pos`) and no match at all (`last_pos != len(s)`) raise the same exception with the same
argument.  The loop is therefore: at the end → done; else the first match (in the backtracking matcher's priority order) at
the current position, or `Error`.

`scanItem` is the deterministic reading of that first match: a literal is the maximal run of characters other than `{`
(the pattern ends after the greedy `+`, so the first successful path is the longest); a placeholder is `{`, an identifier
start, the maximal run of `\w` (a shorter run would have to be followed by `}`, which is not `\w`), `}`.
`Lemmas/PerlBraceRe.lean` proves that `scanItem` IS the first match of the generated parse tree `perlFieldRe` under the
backtracking semantics `Spec.BraceRe.bt`.

Character classes: `\w`, `\d` are the tables dumped from the running interpreter (`Generated.PyBraceTables.wordRanges`,
`digitRanges`: sorted inclusive ranges, looked up with early exit).
Core Lean only.
-/
namespace I18n.BraceChars
open I18n.Generated.PyBraceTables

/-- membership in a sorted list of inclusive ranges, with early exit (the generated tables are sorted; `Lemmas/PerlBrace`
    proves this equal to plain membership for them) -/
def inSorted : List (Nat × Nat) → Nat → Bool
  | [], _ => false
  | (a, b) :: rs, n => if n < a then false else if n ≤ b then true else inSorted rs n

/-- `\w` -/
def isWord (c : Char) : Bool := inSorted wordRanges c.toNat
/-- `\d` (= `str.isdecimal` for one character) -/
def isDigit (c : Char) : Bool := inSorted digitRanges c.toNat
/-- `[^\W\d]` -/
def isIdStart (c : Char) : Bool := isWord c && !isDigit c

/-- `[ -\x7E]` -/
def isPrintableAscii (c : Char) : Bool := 0x20 ≤ c.toNat && c.toNat ≤ 0x7E

/-- `_printable_prefix(s)`: `re.compile('[ -\x7E]+').match(s).group()`; `none` = the `AttributeError` of `None.group()` -/
def printablePrefix (s : List Char) : Option (List Char) :=
  match s.takeWhile isPrintableAscii with
  | [] => none
  | p => some p

end I18n.BraceChars

namespace I18n.PerlBrace
open I18n.BraceChars

/-- what `FormatString(s)` can raise: the module's `Error(arg)` or (never, see `perl_error_own`) a crash -/
inductive PErr where
  | error (arg : List Char)
  | crash (e : Py.Exc)
  deriving DecidableEq, Repr, Inhabited

def PErr.name : PErr → String
  | .error _ => "Error"
  | .crash e => "crash:" ++ e.name

/-- an element of `_items` (`match.group()`), with the `name` group for a placeholder -/
inductive Item where
  | lit (text : List Char)
  | field (name : List Char)
  deriving DecidableEq, Repr, Inhabited

def Item.text : Item → List Char
  | .lit t => t
  | .field n => '{' :: n ++ ['}']

structure Result where
  items : List Item
  /-- the names in order of appearance (`arguments.add(argname)` per match); `arguments` is the set of these -/
  names : List (List Char)
  deriving DecidableEq, Repr, Inhabited

/-- `frozenset(arguments)` as a duplicate-free list in order of first appearance -/
def Result.arguments (r : Result) : List (List Char) := r.names.eraseDups

/-- the first match of `_field_re` at the beginning of `cs` (`none`: no match here) -/
def scanItem : List Char → Option (Item × List Char)
  | [] => none
  | c :: cs =>
    if c ≠ '{' then
      some (.lit (c :: cs.takeWhile (· ≠ '{')), cs.dropWhile (· ≠ '{'))
    else
      match cs with
      | [] => none
      | d :: ds =>
        if isIdStart d then
          match ds.dropWhile isWord with
          | '}' :: rest => some (.field (d :: ds.takeWhile isWord), rest)
          | _ => none
        else none

/-- `argname = match.group('name'); if argname is not None: arguments.add(argname)` -/
def Item.addName : Item → List (List Char) → List (List Char)
  | .field n, names => n :: names
  | .lit _, names => names

/-- the `for match in _field_re.finditer(s)` loop with its two tests; `fuel` ≥ the number of characters left -/
def loop : Nat → List Char → List Item → List (List Char) → Except PErr Result
  | _, [], items, names => .ok { items := items.reverse, names := names.reverse }
  | 0, _ :: _, _, _ => .error (.crash .NonTermination)
  | fuel + 1, c :: cs, items, names =>
    match scanItem (c :: cs) with
    | none =>
      match printablePrefix (c :: cs) with
      | none => .error (.crash .AttributeError)
      | some p => .error (.error p)
    | some (it, rest) =>
      loop fuel rest (it :: items) (it.addName names)

/-- `FormatString(s)` -/
def parse (s : List Char) : Except PErr Result := loop s.length s [] []

end I18n.PerlBrace
