import I18n.Generated.DateTables
/-
Model of the date machinery of i18nspector (property C18), statement by statement:

* `lib/gettext.py`: `_search_for_date_boilerplate` (`hasBoilerplate`), `_parse_date` (`parseDate`: a deterministic
  scanner standing for the regex whose text is pinned in `Generated.DateTables`), `fix_date_format` (`fix`),
  `parse_date` on the 21-character strings `fix_date_format` assembles (`parseCanon`: the model of
  `strptime(…, '%Y-%m-%d %H:%M%z')` + `datetime` construction), `epoch`;
* `lib/check/__init__.py`: `check_dates` (`checkDates`), with `misc.utc_now()` as the input `now`.

Strings are `List Char` (code points).  Python's partial operations are explicit: `Outcome` for `fix_date_format`
(`hintErr` = the `ValueError` for a malformed `tz_hint`, `assertErr` = the `assert len(s) == 21`),
`Option` for `check_dates` (`none` = an exception escaped).
-/
namespace I18n.Date
open I18n.Generated

/-! ## characters -/

/-- `[0-9]` -/
def isDigit (c : Char) : Bool := 48 ≤ c.toNat && c.toNat ≤ 57

/-- `str.isspace` = `\s` (generated from the running interpreter) -/
def isSpace (c : Char) : Bool := DateTables.whitespace.any fun r => r.1 ≤ c.toNat && c.toNat ≤ r.2

/-- `str.strip()` -/
def strip (s : List Char) : List Char :=
  ((s.dropWhile isSpace).reverse.dropWhile isSpace).reverse

/-- `s` starts with the literal `p`: the rest -/
def stripPre : List Char → List Char → Option (List Char)
  | [], s => some s
  | _ :: _, [] => none
  | p :: ps, c :: cs => if p = c then stripPre ps cs else none

/-! ## `_search_for_date_boilerplate` -/

/-- `- DA \s` here -/
def altDA (s : List Char) : Bool :=
  match stripPre ['-','D','A'] s with | some (c :: _) => isSpace c | _ => false

/-- `\s HO :` here -/
def altHO (s : List Char) : Bool :=
  match s with | c :: r => isSpace c && (stripPre ['H','O',':'] r).isSome | [] => false

/-- `: MI (?:[+]|$)` here -/
def altMI (s : List Char) : Bool :=
  match stripPre [':','M','I'] s with | some [] => true | some (c :: _) => c = '+' | none => false

/-- `[+] ZONE $` here -/
def altZONE (s : List Char) : Bool :=
  match stripPre ['+','Z','O','N','E'] s with | some [] => true | _ => false

/-- the alternatives `-MO-`, `-DA\s`, `\sHO:`, `:MI(?:[+]|$)`, `[+]ZONE$` tried at one position -/
def boilerAt (s : List Char) : Bool :=
  (stripPre ['-','M','O','-'] s).isSome || altDA s || altHO s || altMI s || altZONE s

def boilerAny : List Char → Bool
  | [] => false
  | c :: r => boilerAt (c :: r) || boilerAny r

/-- `_search_for_date_boilerplate(s) is not None` (`^YEAR-` only at the start) -/
def hasBoilerplate (s : List Char) : Bool :=
  (stripPre ['Y','E','A','R','-'] s).isSome || boilerAny s

/-! ## `_parse_date` -/

inductive Zone where
  | none
  | num (zh zm : List Char)     -- `([+-][0-9]{2})`, `([0-9]{2})`
  | abbr (a : List Char)
  deriving Repr, DecidableEq

structure Groups where
  date : List Char
  time : List Char
  zone : Zone
  deriving Repr, DecidableEq

/-- `[0-9]{n}` -/
def digits : Nat → List Char → Option (List Char × List Char)
  | 0, s => some ([], s)
  | _ + 1, [] => none
  | n + 1, c :: s =>
    if isDigit c then
      match digits n s with
      | some (d, r) => some (c :: d, r)
      | none => none
    else none

def lit (c : Char) : List Char → Option (List Char)
  | [] => none
  | x :: s => if x = c then some s else none

/-- `[0-9]{4}-[0-9]{2}-[0-9]{2}` -/
def scanDate (s : List Char) : Option (List Char × List Char) :=
  match digits 4 s with
  | none => none
  | some (y, s) =>
  match lit '-' s with
  | none => none
  | some s =>
  match digits 2 s with
  | none => none
  | some (m, s) =>
  match lit '-' s with
  | none => none
  | some s =>
  match digits 2 s with
  | none => none
  | some (d, s) => some (y ++ '-' :: m ++ '-' :: d, s)

/-- `(?: \s+ | T )` -/
def scanSep : List Char → Option (List Char)
  | [] => none
  | c :: s => if isSpace c then some (s.dropWhile isSpace) else if c = 'T' then some s else none

/-- `[0-9]{2}:[0-9]{2}` -/
def scanTime (s : List Char) : Option (List Char × List Char) :=
  match digits 2 s with
  | none => none
  | some (h, s) =>
  match lit ':' s with
  | none => none
  | some s =>
  match digits 2 s with
  | none => none
  | some (m, s) => some (h ++ ':' :: m, s)

/-- `(?: : [0-9]{2} )?` — nothing after it can start with `:`, so a `:` commits to the seconds -/
def scanSecs : List Char → Option (List Char)
  | ':' :: r => match digits 2 r with | some (_, s) => some s | none => none
  | s => some s

/-- an optional literal character (`:?`, `[+]?`) -/
def skipChar (c : Char) : List Char → List Char
  | [] => []
  | x :: r => if x = c then r else x :: r

/-- `( [+-] [0-9]{2} ) :? ( [0-9]{2} )` up to the end of the string -/
def scanNum : List Char → Option Zone
  | sg :: s =>
    if sg = '+' ∨ sg = '-' then
      match digits 2 s with
      | none => none
      | some (h, s) =>
        let s := skipChar ':' s
        match digits 2 s with
        | some (m, []) => some (.num (sg :: h) m)
        | _ => none
    else none
  | [] => none

/-- `_timezones.get(a)` -/
def lookupTz (a : List Char) : Option (List (List Char)) :=
  match DateTables.timezones.find? (fun e => e.1 == a) with
  | some e => some e.2
  | none => none

/-- `(?: GMT | UTC )` -/
def zonePrefix (s : List Char) : Option (List Char) :=
  (stripPre ['G','M','T'] s).or (stripPre ['U','T','C'] s)

/-- `[+]? (abbr)` up to the end of the string; or no zone at all -/
def scanAbbr (s : List Char) : Option Zone :=
  let a := skipChar '+' s
  match lookupTz a with
  | some _ => some (.abbr a)
  | none => if s = [] then some .none else none

/-- the optional zone group followed by `$`, on the text after `\s*`: the numeric alternative with a prefix, without
    one, then the abbreviation alternative, then no zone (regex alternation order; at most one can reach `$`) -/
def scanZone (s : List Char) : Option Zone :=
  ((zonePrefix s).bind scanNum).or ((scanNum s).or (scanAbbr s))

/-- `_parse_date(s)`: `none` = no match -/
def parseDate (s : List Char) : Option Groups :=
  match scanDate s with
  | none => none
  | some (date, s) =>
  match scanSep s with
  | none => none
  | some s =>
  match scanTime s with
  | none => none
  | some (time, s) =>
  match scanSecs s with
  | none => none
  | some s =>
  match scanZone (s.dropWhile isSpace) with
  | none => none
  | some z => some ⟨date, time, z⟩

/-! ## the calendar (`datetime`) -/

structure Stamp where
  year : Nat
  month : Nat
  day : Nat
  hour : Nat
  minute : Nat
  neg : Bool
  zh : Nat
  zm : Nat
  deriving Repr, DecidableEq

def isLeap (y : Nat) : Bool := y % 4 = 0 && (y % 100 ≠ 0 || y % 400 = 0)

/-- `datetime._days_in_month` -/
def daysInMonth (y m : Nat) : Nat :=
  if m = 2 then (if isLeap y then 29 else 28)
  else if m = 4 ∨ m = 6 ∨ m = 9 ∨ m = 11 then 30 else 31

/-- what `strptime` + `datetime(...)` + `timezone(timedelta(...))` accept -/
def Stamp.valid (t : Stamp) : Bool :=
  1 ≤ t.year && 1 ≤ t.month && t.month ≤ 12 && 1 ≤ t.day && t.day ≤ daysInMonth t.year t.month
  && t.hour ≤ 23 && t.minute ≤ 59 && t.zm ≤ 59 && t.zh * 60 + t.zm < 1440

/-- `datetime._days_before_year` -/
def daysBeforeYear (y : Nat) : Nat :=
  let p := y - 1
  p * 365 + p / 4 - p / 100 + p / 400

/-- `datetime._days_before_month` -/
def daysBeforeMonth (y m : Nat) : Nat :=
  (match m with
   | 1 => 0 | 2 => 31 | 3 => 59 | 4 => 90 | 5 => 120 | 6 => 151 | 7 => 181
   | 8 => 212 | 9 => 243 | 10 => 273 | 11 => 304 | _ => 334)
  + (if m > 2 ∧ isLeap y then 1 else 0)

/-- `date.toordinal()` (0001-01-01 ↦ 1) -/
def ordinal (y m d : Nat) : Nat := daysBeforeYear y + daysBeforeMonth y m + d

/-- offset in minutes east of UTC -/
def Stamp.offset (t : Stamp) : Int :=
  if t.neg then - ((t.zh * 60 + t.zm : Nat) : Int) else ((t.zh * 60 + t.zm : Nat) : Int)

/-- minutes since 1970-01-01T00:00Z of the instant (`ordinal 1970 1 1 = 719163`) -/
def Stamp.minutes (t : Stamp) : Int :=
  ((ordinal t.year t.month t.day : Nat) - 719163 : Int) * 1440 + (t.hour * 60 + t.minute : Nat) - t.offset

def dval (c : Char) : Nat := c.toNat - 48
def num2 (a b : Char) : Nat := dval a * 10 + dval b
def num4 (a b c d : Char) : Nat := ((dval a * 10 + dval b) * 10 + dval c) * 10 + dval d

/-- `parse_date(t)` for a 21-character `t`: `strptime(t, '%Y-%m-%d %H:%M%z')`, `none` = `ValueError`
    (re-raised as `DateSyntaxError`) -/
def parseCanon : List Char → Option Stamp
  | [y1, y2, y3, y4, c1, m1, m2, c2, d1, d2, c3, h1, h2, c4, n1, n2, sg, z1, z2, z3, z4] =>
    if c1 = '-' ∧ c2 = '-' ∧ c3 = ' ' ∧ c4 = ':' ∧ (sg = '+' ∨ sg = '-')
       ∧ [y1, y2, y3, y4, m1, m2, d1, d2, h1, h2, n1, n2, z1, z2, z3, z4].all isDigit then
      let t : Stamp := ⟨num4 y1 y2 y3 y4, num2 m1 m2, num2 d1 d2, num2 h1 h2, num2 n1 n2, sg = '-', num2 z1 z2, num2 z3 z4⟩
      if t.valid then some t else none
    else none
  | _ => none

/-! ## `fix_date_format` -/

inductive Outcome where
  | ok (t : List Char)
  | syntaxErr        -- DateSyntaxError
  | boilerplate      -- BoilerplateDate
  | hintErr          -- ValueError: malformed tz_hint (caller error)
  | assertErr        -- AssertionError: len(s) != 21
  deriving Repr, DecidableEq

/-- the syntax check of `tz_hint`: `[+-][0-9]{4}` and accepted by `strptime(tz_hint, '%z')` -/
def hintOk : List Char → Bool
  | [sg, a, b, c, d] =>
    (sg = '+' || sg = '-') && [a, b, c, d].all isDigit && num2 c d ≤ 59 && num2 a b * 60 + num2 c d < 1440
  | _ => false

/-- the zone text of the result: the written offset, `[zone] = _timezones[zabbr]` (`none` = `ValueError` on unpacking,
    re-raised as DateSyntaxError), else the hint (`none` = DateSyntaxError) -/
def resolveZone (z : Zone) (hint : Option (List Char)) : Option (List Char) :=
  match z with
  | .num zh zm => some (zh ++ zm)
  | .abbr a => (match lookupTz a with | some [z] => some z | _ => none)
  | .none => hint

def hintBad (hint : Option (List Char)) : Bool :=
  match hint with
  | some h => !hintOk h
  | none => false

def fix (s : List Char) (hint : Option (List Char)) : Outcome :=
  let s := strip s
  if hasBoilerplate s then .boilerplate else
  if hintBad hint then .hintErr else
  match parseDate s with
  | none => .syntaxErr
  | some g =>
    match resolveZone g.zone hint with
    | none => .syntaxErr
    | some zone =>
      let t := g.date ++ ' ' :: g.time ++ zone
      if t.length ≠ 21 then .assertErr else
      match parseCanon t with
      | none => .syntaxErr
      | some _ => .ok t

/-! ## `check_dates` -/

inductive Arg where
  | safe (s : List Char)     -- `tags.safestr(...)`
  | str (s : List Char)
  deriving Repr, DecidableEq

structure Tag where
  name : String
  args : List Arg
  deriving Repr, DecidableEq

inductive Field where
  | pot | po
  deriving Repr, DecidableEq

def Field.name : Field → List Char
  | .pot => ['P','O','T','-','C','r','e','a','t','i','o','n','-','D','a','t','e']
  | .po => ['P','O','-','R','e','v','i','s','i','o','n','-','D','a','t','e']

structure Ctx where
  contentType : Option (List Char)    -- `ctx.metadata['Content-Type'][0]` if there is one
  isBinary : Bool
  isTemplate : Bool
  pot : List (List Char)
  po : List (List Char)
  now : Int                           -- `misc.utc_now()` in microseconds since 1970-01-01T00:00Z
  deriving Repr

def publicanPrefix : List Char :=
  ['a','p','p','l','i','c','a','t','i','o','n','/','x','-','p','u','b','l','i','c','a','n',';']

def isPublican (ct : Option (List Char)) : Bool :=
  match ct with
  | some c => (stripPre publicanPrefix c).isSome
  | none => false

/-- `str.__lt__`: lexicographic by code point -/
def strLt : List Char → List Char → Bool
  | [], [] => false
  | [], _ :: _ => true
  | _ :: _, [] => false
  | a :: as, b :: bs => if a.toNat < b.toNat then true else if b.toNat < a.toNat then false else strLt as bs

def insertU (x : List Char) : List (List Char) → List (List Char)
  | [] => [x]
  | y :: ys => if x = y then y :: ys else if strLt x y then x :: y :: ys else y :: insertU x ys

/-- `sorted(set(dates))` -/
def sortedSet (l : List (List Char)) : List (List Char) := l.foldr insertU []

def hintPublican : List Char := ['-','0','0','0','0']

/-- one iteration of `for date in dates`; `none` = an uncaught exception -/
def checkOne (now : Int) (f : Field) (isTemplate publican : Bool) (date : List Char) : Option (List Tag) :=
  if isTemplate ∧ f = .po ∧ date = DateTables.boilerplateDate then some [] else
  let hint := if date.contains 'T' ∧ publican then some hintPublican else none
  let label := Arg.safe (f.name ++ [':'])
  match fix date hint with
  | .boilerplate => some [⟨"boilerplate-in-date", [label, .str date]⟩]
  | .syntaxErr => some [⟨"invalid-date", [label, .str date]⟩]
  | .hintErr => none
  | .assertErr => none
  | .ok fixed =>
    let t1 := if date ≠ fixed then [Tag.mk "invalid-date" [label, .str date, .str ['=','>'], .str fixed]] else []
    match parseCanon fixed with
    | none => none              -- `parse_date(fixed_date)` raising DateSyntaxError: uncaught here
    | some stamp =>
      let t2 := if stamp.minutes * 60000000 > now then [Tag.mk "date-from-future" [label, .str date]] else []
      let t3 := if stamp.minutes * 60000000 < DateTables.epochMicros then [Tag.mk "ancient-date" [label, .str date]] else []
      some (t1 ++ t2 ++ t3)

def checkAll (now : Int) (f : Field) (isTemplate publican : Bool) : List (List Char) → Option (List Tag)
  | [] => some []
  | d :: ds =>
    match checkOne now f isTemplate publican d with
    | none => none
    | some a =>
      match checkAll now f isTemplate publican ds with
      | none => none
      | some b => some (a ++ b)

def checkField (c : Ctx) (f : Field) (dates : List (List Char)) : Option (List Tag) :=
  let pub := isPublican c.contentType
  if dates.length > 1 then
    match checkAll c.now f c.isTemplate pub (sortedSet dates) with
    | none => none
    | some ts => some (⟨"duplicate-header-field-date", [.str f.name]⟩ :: ts)
  else if dates.length = 0 then
    if f = .pot ∧ c.isBinary then some []
    else some [⟨"no-date-header-field", [.str f.name]⟩]
  else checkAll c.now f c.isTemplate pub dates

/-- `Checker.check_dates(ctx)`: the tags in emission order, `none` = an exception escaped -/
def checkDates (c : Ctx) : Option (List Tag) :=
  match checkField c .pot c.pot with
  | none => none
  | some a =>
    match checkField c .po c.po with
    | none => none
    | some b => some (a ++ b)

/-! ## pins -/

/-- `re.VERBOSE | re.UNICODE` -/
def pinnedFlags : Nat := 96

end I18n.Date
