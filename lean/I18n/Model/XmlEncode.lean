import I18n.Model.Msg
/-!
# `lib/xml.py check_fragment`: the tool's own encode step in front of expat (for C01)

`check_fragment(s)` hands expat `s.encode('UTF-8', <errors>)`.  Python strings are sequences of CODE POINTS, surrogates
included (a file declared in `raw_unicode_escape` / `unicode_escape` decodes the six ASCII characters `\ud800` to a lone
surrogate): with `errors='strict'` the encode itself raises `UnicodeEncodeError` — not an `ExpatError`, so nobody catches it —
before expat sees a byte.  Since /repo 14c240b the handler is `surrogatepass`: the encode is total and expat rejects the bytes
as an invalid token.

Strings here are lists of code points (`Msg.Str = List Nat`), NOT `List Char`: a Lean `Char` is a Unicode scalar value and
cannot be a surrogate.  Every model whose text type is `List Char` (`Meta.Obs`, the PO loader, the format parsers) therefore
silently assumes `TextIsScalar`; see `Props/C01.lean` §9.
-/
namespace I18n.XmlEncode

inductive Errors where
  | strict
  | surrogatepass
  deriving DecidableEq, Repr

def isSurrogate (c : Nat) : Bool := 0xD800 ≤ c && c ≤ 0xDFFF

def b (n : Nat) : UInt8 := UInt8.ofNat n

/-- the UTF-8 bit pattern of a code point (generalised UTF-8: surrogates get their three bytes) -/
def pattern (c : Nat) : List UInt8 :=
  if c < 0x80 then [b c]
  else if c < 0x800 then [b (0xC0 + c / 64), b (0x80 + c % 64)]
  else if c < 0x10000 then [b (0xE0 + c / 4096), b (0x80 + c / 64 % 64), b (0x80 + c % 64)]
  else [b (0xF0 + c / 262144 % 8), b (0x80 + c / 4096 % 64), b (0x80 + c / 64 % 64), b (0x80 + c % 64)]

/-- `chr(c).encode('UTF-8', errors)`; `none` = `UnicodeEncodeError: surrogates not allowed` -/
def encodeCp (e : Errors) (c : Nat) : Option (List UInt8) :=
  if isSurrogate c && e == .strict then none else some (pattern c)

/-- `s.encode('UTF-8', errors)` -/
def encode (e : Errors) : List Nat → Option (List UInt8)
  | [] => some []
  | c :: cs =>
    match encodeCp e c, encode e cs with
    | some x, some y => some (x ++ y)
    | _, _ => none

/-- `xml.check_fragment(s)` as `_check_message_xml_format` sees it: expat's verdict on the bytes, or — when the tool's own
    encode raises — an exception that is not `xml.SyntaxError` -/
def checkFragment (e : Errors) (expat : List UInt8 → Msg.XmlVerdict) (s : List Nat) : Msg.XmlVerdict :=
  match encode e s with
  | none => .other
  | some bytes => expat bytes

/-- every element is a Unicode scalar value (what a Lean `Char` can hold) -/
def TextIsScalar (s : List Nat) : Prop := ∀ c ∈ s, c.isValidChar

end I18n.XmlEncode
