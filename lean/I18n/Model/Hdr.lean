import I18n.Model.TagCall
import I18n.Model.Date
import I18n.Model.Charset
import I18n.Model.Domains
import I18n.Generated.HeaderFields
/-
Model of the header checks of `lib/check/__init__.py` and of `lib.gettext.parse_header`, statement by statement:

* `parseHeader`     — `gettext.parse_header` (split at `\n`, drop a final empty line, `line.split(':', 1)`,
                      `is_valid_field_name`, `strip(' \t')`);
* `checkComments`   — `Checker.check_comments` (the six regexes as scanners over `ctx.file.header.splitlines()`);
* `checkHeaders`    — `Checker.check_headers` (header-entry discovery loop with `break`, occurrences, plural, the
                      `defaultdict(list)` metadata, flags `Counter`, distant entry, unusual characters, stray lines with the
                      conflict-marker state, unknown / duplicate field names with the two hint sources);
* `checkMime`       — `Checker.check_mime` (early `return`, the Content-Type regex as a scanner, the charset fragment is
                      `Charset.checkCharset` of C20, `ctx.encoding`);
* `checkProject`, `checkTranslator` — with the `if/elif` chains in source order and the `translator_emails` dict;
* `checkAll`        — the header stages of `Checker.check` in source order (`check_dates` is `Date.checkDates` of C18).

External results are parameters (`Ext`): `parse_address(v)[1]` (= `email.utils.parseaddr(v)[1]`, `''` on `RecursionError`), `urllib.parse.urlparse(v).scheme` (`none` = it
raised `ValueError`), `difflib.get_close_matches` (two call sites), `str.lower`, the `re` classes `\w \s \d`.
Core Lean only.
-/
namespace I18n.Hdr
open I18n.Generated

abbrev Str := List Char

/-! ## Python kit -/

/-- `s.split(sep)` for a one-character separator: never empty -/
def splitOn (sep : Char) : Str → List Str
  | [] => [[]]
  | c :: cs =>
    if c = sep then [] :: splitOn sep cs
    else match splitOn sep cs with
      | [] => [[c]]
      | w :: ws => (c :: w) :: ws

def stripPrefix : Str → Str → Option Str
  | [], s => some s
  | _ :: _, [] => none
  | a :: p, b :: s => if a = b then stripPrefix p s else none

def startsWith (p s : Str) : Bool := (stripPrefix p s).isSome

def endsWith (p s : Str) : Bool := startsWith p.reverse s.reverse

def isBlank (c : Char) : Bool := c = ' ' || c = '\t'

/-- `s.strip(' \t')` -/
def stripBlanks (s : Str) : Str := ((s.dropWhile isBlank).reverse.dropWhile isBlank).reverse

/-- `str.__lt__` and `sorted(set(·))` are those of the date model -/
abbrev sortedSet := Date.sortedSet

def count (x : Str) (l : List Str) : Nat := (l.filter (· = x)).length

/-- the `re` character classes and `str.lower`, of the running interpreter -/
structure UDB where
  isWord : Char → Bool
  isSpace : Char → Bool
  isDigit : Char → Bool
  lower : Str → Str

/-- results of library calls -/
structure Ext where
  db : UDB
  /-- `parse_address(v)[1]`: `email.utils.parseaddr(v)[1]`, and `''` when the library raises `RecursionError` (fix 875595a) -/
  parseaddr : Str → Str
  /-- `urllib.parse.urlparse(v).scheme`; `none` = `ValueError` -/
  urlScheme : Str → Option Str
  /-- `bool(difflib.get_close_matches(flag.lower(), ['fuzzy'], cutoff=0.8))` -/
  closeFuzzy : Str → Bool
  /-- `difflib.get_close_matches(key, header_fields, n=1, cutoff=0.8)`, as an optional element -/
  closeField : Str → Option Str

def tag (name : String) (extras : List Extra) : TagCall := ⟨name, extras⟩
def sx (s : Str) : Extra := .str s
def lit (s : String) : Extra := .str s.toList
def safe (s : String) : Extra := .safe s.toList
def arrow : Extra := lit "=>"

/-! ## `gettext.parse_header` -/

inductive Line where
  | field (key value : Str)
  | stray (line : Str)
  deriving DecidableEq, Repr, Inhabited

/-- `lines = s.split('\n'); if lines[-1] == '': lines.pop()` -/
def headerLines (s : Str) : List Str :=
  let ls := splitOn '\n' s
  if ls.getLast? = some [] then ls.dropLast else ls

/-- `[\x21-\x39\x3B-\x7E]` -/
def isFieldNameChar (c : Char) : Bool :=
  (0x21 ≤ c.toNat && c.toNat ≤ 0x39) || (0x3B ≤ c.toNat && c.toNat ≤ 0x7E)

/-- `is_valid_field_name(key)` (`^[…]+$` with `match`) for a key without `\n` -/
def isValidFieldName (k : Str) : Bool := !k.isEmpty && k.all isFieldNameChar

/-- `key, *values = line.split(':', 1)` -/
def splitColon : Str → Str × Option Str
  | [] => ([], none)
  | c :: cs =>
    if c = ':' then ([], some cs)
    else let r := splitColon cs; (c :: r.1, r.2)

def parseLine (l : Str) : Line :=
  match splitColon l with
  | (k, some v) => if isValidFieldName k then .field k (stripBlanks v) else .stray l
  | (_, none) => .stray l

def parseHeader (s : Str) : List Line := (headerLines s).map parseLine

/-! ## `ctx.metadata`: `collections.defaultdict(list)` in insertion order -/

abbrev Meta := List (Str × List Str)

/-- `metadata[key] += [value]` -/
def Meta.add (k v : Str) : Meta → Meta
  | [] => [(k, [v])]
  | (k', vs) :: rest => if k' = k then (k', vs ++ [v]) :: rest else (k', vs) :: Meta.add k v rest

/-- `metadata[key]` (the default is the empty list) -/
def Meta.get (m : Meta) (k : Str) : List Str :=
  match m.find? (·.1 = k) with
  | some (_, vs) => vs
  | none => []

/-- `key in metadata` -/
def Meta.has (m : Meta) (k : Str) : Bool := m.any (·.1 = k)

def Meta.getS (m : Meta) (k : String) : List Str := m.get k.toList

/-! ## `check_comments` -/

/-- `\b` between two positions: exactly one side is a word character -/
def boundary (db : UDB) (prev next : Option Char) : Bool :=
  (match prev with | some c => db.isWord c | none => false) != (match next with | some c => db.isWord c | none => false)

/-- does `p prev rest` hold at some position of the string (`re.search`) -/
def anyPos (p : Option Char → Str → Bool) : Option Char → Str → Bool
  | prev, [] => p prev []
  | prev, c :: cs => p prev (c :: cs) || anyPos p (some c) cs

/-- `\b<literal>\b` at this position -/
def wordLit (db : UDB) (l : Str) (prev : Option Char) (rest : Str) : Bool :=
  match stripPrefix l rest with
  | some after => boundary db prev l.head? && boundary db l.getLast? after.head?
  | none => false

/-- `<literal>\b` -/
def litThenBoundary (db : UDB) (l : Str) (rest : Str) : Bool :=
  match stripPrefix l rest with
  | some after => boundary db l.getLast? after.head?
  | none => false

/-- the rest of `\S+ YEAR\b` once one `\S` has been consumed (backtracking: any split) -/
def copyrightTail (db : UDB) : Str → Bool
  | [] => false
  | c :: cs => litThenBoundary db " YEAR".toList (c :: cs) || (!db.isSpace c && copyrightTail db cs)

/-- `\bCopyright \S+ YEAR\b` -/
def copyrightYear (db : UDB) (prev : Option Char) (rest : Str) : Bool :=
  match stripPrefix "Copyright ".toList rest with
  | some (c :: cs) => boundary db prev (some 'C') && !db.isSpace c && copyrightTail db cs
  | _ => false

/-- `<EMAIL@ADDRESS>` -/
def plainLit (l : Str) (_prev : Option Char) (rest : Str) : Bool := startsWith l rest

/-- `(?<=>), YEAR\b` -/
def commaYear (db : UDB) (prev : Option Char) (rest : Str) : Bool :=
  prev = some '>' && litThenBoundary db ", YEAR".toList rest

def commentHit (db : UDB) (isTemplate : Bool) (prev : Option Char) (rest : Str) : Bool :=
  wordLit db "PACKAGE package".toList prev rest
  || copyrightYear db prev rest
  || wordLit db "THE PACKAGE'S COPYRIGHT HOLDER".toList prev rest
  || (!isTemplate && (wordLit db "FIRST AUTHOR".toList prev rest
                      || plainLit "<EMAIL@ADDRESS>".toList prev rest
                      || commaYear db prev rest))

/-- `regex.search(line) is not None` -/
def commentLineHit (db : UDB) (isTemplate : Bool) (line : Str) : Bool :=
  anyPos (commentHit db isTemplate) none line

def isLineBreak (c : Char) : Bool := HeaderFields.lineBreaks.contains c.toNat

/-- `str.splitlines()` -/
def splitlinesAux : Str → Str → List Str
  | cur, [] => if cur.isEmpty then [] else [cur.reverse]
  | cur, '\r' :: '\n' :: rest => cur.reverse :: splitlinesAux [] rest
  | cur, c :: rest =>
    if isLineBreak c then cur.reverse :: splitlinesAux [] rest
    else splitlinesAux (c :: cur) rest

def splitlines (s : Str) : List Str := splitlinesAux [] s

def checkComments (db : UDB) (isTemplate : Bool) (header : Str) : List TagCall :=
  (splitlines header).filterMap fun line =>
    if commentLineHit db isTemplate line then some (tag "boilerplate-in-initial-comments" [sx line]) else none

/-! ## `check_headers` -/

structure Entry where
  msgid : Str
  msgctxt : Option Str
  obsolete : Bool
  occurrences : List (Str × Str)
  msgidPlural : Option Str
  /-- `entry.msgstr or ''` -/
  msgstr : Str
  /-- `entry.msgstr_plural.get(0)` -/
  msgstr0 : Option Str
  flags : List Str
  deriving DecidableEq, Repr, Inhabited

/-- `is_header_entry(entry)` -/
def isHeaderEntry (e : Entry) : Bool := e.msgid = [] && e.msgctxt.isNone

/-- `entry.msgstr_plural.get(0, entry.msgstr) or ''` -/
def Entry.headerText (e : Entry) : Str := e.msgstr0.getD e.msgstr

def inRanges (rs : List (Nat × Nat)) (c : Char) : Bool := rs.any fun r => r.1 ≤ c.toNat && c.toNat ≤ r.2

/-- `find_unusual_characters(s)`: the matched characters, in order.  `prev` = the character before the position. -/
def unusualAux (db : UDB) : Option Char → Str → List Char
  | _, [] => []
  | prev, c :: cs =>
    let hit :=
      inRanges HeaderFields.unusualAlways c
      || (c.toNat = HeaderFields.unusualUnlessBracket && cs.head? != some '[')
      || (c.toNat = HeaderFields.unusualAfterWord && (match prev with | some p => db.isWord p | none => false))
    if hit then c :: unusualAux db (some c) cs else unusualAux db (some c) cs

def unusualChars (db : UDB) (s : Str) : List Char := unusualAux db none s

def insertC (x : Char) : List Char → List Char
  | [] => [x]
  | y :: ys => if x = y then y :: ys else if x.toNat < y.toNat then x :: y :: ys else y :: insertC x ys

/-- `sorted(set(chars))` -/
def sortedChars (l : List Char) : List Char := l.foldr insertC []

/-- `f'{n:04X}'` -/
def hex04 (n : Nat) : Str :=
  let ds := (Nat.toDigits 16 n).map fun c => if 'a' ≤ c ∧ c ≤ 'f' then Char.ofNat (c.toNat - 32) else c
  List.replicate (4 - ds.length) '0' ++ ds

/-- `encinfo.get_character_name(ch)` on the code points `find_unusual_characters` can report; `none` = it raises -/
def charName (c : Char) : Option Str :=
  match HeaderFields.unusualNames.find? (·.1 = c.toNat) with
  | some (_, some n) => some n.toList
  | _ => none

def joinWith (sep : Str) : List Str → Str
  | [] => []
  | [x] => x
  | x :: y :: rest => x ++ sep ++ joinWith sep (y :: rest)

/-- `', '.join(f'U+{ord(ch):04X} {get_character_name(ch)}' for ch in sorted(unusual_chars))`; `none` = a name look-up raised -/
def unusualText (cs : List Char) : Option Str :=
  (cs.mapM fun c => (charName c).map fun n => 'U' :: '+' :: (hex04 c.toNat ++ ' ' :: n)).map (joinWith ", ".toList)

/-- `search_for_conflict_marker(stray)` for a line without `\n`: `#-#-#-#-#  .+  #-#-#-#-#` -/
def isConflictMarker (l : Str) : Bool :=
  startsWith "#-#-#-#-#  ".toList l && endsWith "  #-#-#-#-#".toList l && l.length ≥ 23

def asciiLowerC (c : Char) : Char := if 'A' ≤ c ∧ c ≤ 'Z' then Char.ofNat (c.toNat + 32) else c

/-- `str.lower` on ASCII text (field names are ASCII by `is_valid_field_name`) -/
def asciiLower (s : Str) : Str := s.map asciiLowerC

def headerFields : List Str := HeaderFields.headerFields.map String.toList
def dedicatedFields : List Str := HeaderFields.dedicated.map String.toList

/-- `header_fields_lc.get(key.lower())` -/
def lcHint (key : Str) : Option Str := headerFields.find? fun f => asciiLower f = asciiLower key

/-- the per-entry part of the loop body: tags of one header entry, and its parsed lines -/
def entryTags (x : Ext) (isTemplate : Bool) (idx : Nat) (e : Entry) : Option (List TagCall) :=
  let t1 := if e.occurrences.isEmpty then [] else
    [tag "empty-msgid-message-with-source-code-references" (e.occurrences.map fun o => sx (o.1 ++ ':' :: o.2))]
  let t2 := if e.msgidPlural.isSome then [tag "empty-msgid-message-with-plural-forms" []] else []
  -- `flags = collections.Counter(entry.flags); for flag, n in sorted(flags.items())`
  let t3 := (sortedSet e.flags).flatMap fun flag =>
    (if flag = HeaderFields.headerFlag.toList then
       (if isTemplate then [] else [tag "fuzzy-header-entry" []])
     else if x.closeFuzzy flag then [tag "unexpected-flag-for-header-entry" [sx flag, arrow, lit "fuzzy"]]
     else [tag "unexpected-flag-for-header-entry" [sx flag]])
    ++ (if count flag e.flags > 1 then [tag "duplicate-flag-for-header-entry" [sx flag]] else [])
  let t4 := if idx ≠ 0 then [tag "distant-header-entry" []] else []
  let unusual := sortedChars (unusualChars x.db e.headerText)
  if unusual.isEmpty then some (t1 ++ t2 ++ t3 ++ t4)
  else match unusualText unusual with
    | none => none
    | some text => some (t1 ++ t2 ++ t3 ++ t4 ++ [tag "unusual-character-in-header-entry" [.safe text]])

structure LoopState where
  tags : List TagCall
  lines : List Line
  seen : Bool
  crashed : Bool
  deriving Inhabited

/-- `for entry in ctx.file: …` with its `continue` and `break` -/
def entryLoop (x : Ext) (isTemplate : Bool) : Nat → List Entry → LoopState → LoopState
  | _, [], st => st
  | idx, e :: es, st =>
    if !isHeaderEntry e || e.obsolete then entryLoop x isTemplate (idx + 1) es st
    else if st.seen then { st with tags := st.tags ++ [tag "duplicate-header-entry" []] }
    else match entryTags x isTemplate idx e with
      | none => { st with crashed := true }
      | some ts =>
        entryLoop x isTemplate (idx + 1) es
          { st with tags := st.tags ++ ts, lines := st.lines ++ parseHeader e.headerText, seen := true }

/-- `metadata[key] += [value]` for the field lines, in order -/
def buildMeta : List Line → Meta → Meta
  | [], m => m
  | .field k v :: rest, m => buildMeta rest (Meta.add k v m)
  | .stray _ :: rest, m => buildMeta rest m

def strayLines : List Line → List Str
  | [] => []
  | .field _ _ :: rest => strayLines rest
  | .stray l :: rest => l :: strayLines rest

/-- `for stray in strays: …` with `seen_conflict_marker` -/
def strayTags : Bool → List Str → List TagCall
  | _, [] => []
  | seenMarker, l :: rest =>
    if isConflictMarker l then
      (if seenMarker then [] else [tag "conflict-marker-in-header-entry" [sx l]]) ++ strayTags true rest
    else tag "stray-header-line" [sx l] :: strayTags seenMarker rest

/-- the body of `for key, values in sorted(metadata.items())` -/
def fieldNameTags (x : Ext) (m : Meta) (key : Str) : List TagCall :=
  let values := m.get key
  let t1 :=
    if startsWith "X-".toList key || startsWith "x-".toList key then []
    else if headerFields.contains key then []
    else
      let hint := match lcHint key with
        | some h => some h
        | none => x.closeField key
      let hint := match hint with
        | some h => if m.has h then none else some h
        | none => none
      match hint with
      | none => [tag "unknown-header-field" [sx key]]
      | some h => [tag "unknown-header-field" [sx key, arrow, sx h]]
  let t2 := if values.length > 1 && !dedicatedFields.contains key then [tag "duplicate-header-field" [sx key]] else []
  t1 ++ t2

structure HeadersOut where
  tags : List TagCall
  /-- `ctx.metadata` -/
  metadata : Meta
  deriving Inhabited

/-- `Checker.check_headers(ctx)`; `none` = an exception escaped (`get_character_name`) -/
def checkHeaders (x : Ext) (isTemplate : Bool) (entries : List Entry) : Option HeadersOut :=
  let st := entryLoop x isTemplate 0 entries ⟨[], [], false, false⟩
  if st.crashed then none else
  let m := buildMeta st.lines []
  let t2 := strayTags false (strayLines st.lines)
  let t3 := (sortedSet (m.map (·.1))).flatMap (fieldNameTags x m)
  some ⟨st.tags ++ t2 ++ t3, m⟩

/-! ## `check_mime` -/

/-- `if len(vs) > 1: vs = sorted(set(vs))` -/
def dedup (vs : List Str) : List Str := if vs.length > 1 then sortedSet vs else vs

def toName (s : Str) : Charset.Name := s.map Char.toNat
def ofName (n : Charset.Name) : Str := n.map Char.ofNat

/-- `charset=([^\s;]+)\Z` at this position: the encoding -/
def charsetAt (db : UDB) (rest : Str) : Option Str :=
  match stripPrefix "charset=".toList rest with
  | some enc => if !enc.isEmpty && enc.all (fun c => !db.isSpace c && c != ';') then some enc else none
  | none => none

/-- leftmost position ≥ the current one where `\bcharset=([^\s;]+)\Z` matches -/
def charsetSearch (db : UDB) : Option Char → Str → Option Str
  | prev, [] => if boundary db prev none then charsetAt db [] else none
  | prev, c :: cs =>
    match (if boundary db prev (some c) then charsetAt db (c :: cs) else none) with
    | some enc => some enc
    | none => charsetSearch db (some c) cs

/-- `re.search(r'(\Atext/plain; )?\bcharset=([^\s;]+)\Z', ct)`: `(group(1) is not None, group(2))` -/
def matchContentType (db : UDB) (ct : Str) : Option (Bool × Str) :=
  match stripPrefix "text/plain; ".toList ct with
  | some rest =>
    match (if boundary db (some ' ') rest.head? then charsetAt db rest else none) with
    | some enc => some (true, enc)
    | none => (charsetSearch db none ct).map fun enc => (false, enc)
  | none => (charsetSearch db none ct).map fun enc => (false, enc)

def ofCharsetTag (ct : Str) : Charset.Tag → TagCall
  | .boilerplate => tag "boilerplate-in-content-type" [sx ct]
  | .unknownEncoding e => tag "unknown-encoding" [sx (ofName e)]
  | .nonAsciiCompatible e => tag "non-ascii-compatible-encoding" [sx (ofName e)]
  | .nonPortable e (some p) => tag "non-portable-encoding" [sx (ofName e), arrow, sx (ofName p)]
  | .nonPortable e none => tag "non-portable-encoding" [sx (ofName e)]
  | .unrepresentable e cs => tag "unrepresentable-characters" (sx (ofName e) :: cs.map fun c => sx (ofName c))

def contentTypeHint : Str := "text/plain; charset=<encoding>".toList

/-- the charset fragment of `check_mime` for one encoding name: C20's `Charset.checkCharset` with the template flag
    and the language's characters already supplied -/
abbrev CharsetCheck := Charset.Name → Except Unit (List Charset.Tag × Option Charset.Name)

/-- one iteration of `for ct in cts`: tags and the encoding added to `encodings` -/
def contentTypeOne (db : UDB) (cs : CharsetCheck) (ct : Str) : Except Unit (List TagCall × Option Str) :=
  match matchContentType db ct with
  | some (hasPrefix, encoding) =>
    match cs (toName encoding) with
    | .error () => .error ()
    | .ok (ctags, kept) =>
      let kept := kept.map ofName
      let t1 := ctags.map (ofCharsetTag ct)
      let t2 := if hasPrefix then [] else
        [tag "invalid-content-type" [sx ct, arrow,
          sx (match kept with | some e => "text/plain; charset=".toList ++ e | none => contentTypeHint)]]
      .ok (t1 ++ t2, kept)
  | none => .ok ([tag "invalid-content-type" [sx ct, arrow, sx contentTypeHint]], none)

def contentTypeLoop (db : UDB) (cs : CharsetCheck) : List Str → Except Unit (List TagCall × List Str)
  | [] => .ok ([], [])
  | ct :: rest =>
    match contentTypeOne db cs ct with
    | .error () => .error ()
    | .ok (t, e) =>
      match contentTypeLoop db cs rest with
      | .error () => .error ()
      | .ok (ts, es) => .ok (t ++ ts, (match e with | some e => [e] | none => []) ++ es)

structure MimeOut where
  tags : List TagCall
  /-- `ctx.encoding` -/
  encoding : Option Str
  deriving DecidableEq, Repr, Inhabited

def mimeVersionTags (m : Meta) : List TagCall :=
  let vs := m.getS "MIME-Version"
  let t1 := if vs.length > 1 then [tag "duplicate-header-field-mime-version" []] else []
  let vs := dedup vs
  let t2 := (vs.filter (· ≠ HeaderFields.mimeVersionGood.toList)).map fun v => tag "invalid-mime-version" [sx v, arrow, lit "1.0"]
  let t3 := if vs.length = 0 then [tag "no-mime-version-header-field" [safe "MIME-Version: 1.0"]] else []
  t1 ++ t2 ++ t3

def cteTags (m : Meta) : List TagCall :=
  let vs := m.getS "Content-Transfer-Encoding"
  let t1 := if vs.length > 1 then [tag "duplicate-header-field-content-transfer-encoding" []] else []
  let vs := dedup vs
  let t2 := (vs.filter (· ≠ HeaderFields.cteGood.toList)).map fun v => tag "invalid-content-transfer-encoding" [sx v, arrow, lit "8bit"]
  let t3 := if vs.length = 0 then [tag "no-content-transfer-encoding-header-field" [safe "Content-Transfer-Encoding: 8bit"]] else []
  t1 ++ t2 ++ t3

/-- `Checker.check_mime(ctx)`; `.error ()` = an exception escaped from the charset fragment -/
def checkMime (db : UDB) (cs : CharsetCheck) (m : Meta) : Except Unit MimeOut :=
  let a := mimeVersionTags m ++ cteTags m
  let cts := m.getS "Content-Type"
  if cts.length = 0 then
    .ok ⟨a ++ [tag "no-content-type-header-field" [safe "Content-Type: text/plain; charset=<encoding>"]], none⟩
  else
    let t1 := if cts.length > 1 then [tag "duplicate-header-field-content-type" []] else []
    match contentTypeLoop db cs (dedup cts) with
    | .error () => .error ()
    | .ok (ts, encs) =>
      .ok ⟨a ++ t1 ++ ts, (match sortedSet encs with | [e] => some e | _ => none)⟩

/-! ## `check_project` -/

def isAsciiDigit (c : Char) : Bool := '0' ≤ c && c ≤ '9'

/-- `re.search(r'[^_\d\W]', v)` -/
def hasNameChar (db : UDB) (v : Str) : Bool := v.any fun c => db.isWord c && c != '_' && !db.isDigit c

def projectOne (db : UDB) (v : Str) : List TagCall :=
  if (HeaderFields.projectBoilerplate.map String.toList).contains v then [tag "boilerplate-in-project-id-version" [sx v]]
  else
    (if !hasNameChar db v then [tag "no-package-name-in-project-id-version" [sx v]] else [])
    ++ (if !v.any isAsciiDigit then [tag "no-version-in-project-id-version" [sx v]] else [])

def projectIdTags (db : UDB) (m : Meta) : List TagCall :=
  let vs := m.getS "Project-Id-Version"
  let t1 := if vs.length > 1 then [tag "duplicate-header-field-project-id-version" []]
            else if vs.length = 0 then [tag "no-project-id-version-header-field" []] else []
  t1 ++ (dedup vs).flatMap (projectOne db)

def hasAt (s : Str) : Bool := s.contains '@'

def reportOne (x : Ext) (v : Str) : List TagCall :=
  let addr := x.parseaddr v
  if !hasAt addr then
    -- `try: uri_scheme = urlparse(v).scheme except ValueError: uri_scheme = ''`
    let scheme := (x.urlScheme v).getD []
    if scheme = HeaderFields.emptyScheme.toList then [tag "invalid-report-msgid-bugs-to" [sx v]] else []
  else if Domains.isEmailInSpecialDomain x.db.lower addr then [tag "invalid-report-msgid-bugs-to" [sx v]]
  else if (HeaderFields.reportBoilerplate.map String.toList).contains addr then [tag "boilerplate-in-report-msgid-bugs-to" [sx v]]
  else if Domains.isEmailInDotlessDomain addr then [tag "invalid-report-msgid-bugs-to" [sx v]]
  else []

def reportTags (x : Ext) (m : Meta) : List TagCall :=
  let vs := m.getS "Report-Msgid-Bugs-To"
  let t1 := if vs.length > 1 then [tag "duplicate-header-field-report-msgid-bugs-to" []] else []
  let vs := dedup vs
  let vs := if vs = [[]] then [] else vs
  let t2 := if vs.length = 0 then [tag "no-report-msgid-bugs-to-header-field" []] else []
  t1 ++ t2 ++ vs.flatMap (reportOne x)

def checkProject (x : Ext) (m : Meta) : List TagCall := projectIdTags x.db m ++ reportTags x m

/-! ## `check_translator` -/

def translatorOne (x : Ext) (isTemplate : Bool) (v : Str) : List TagCall :=
  let addr := x.parseaddr v
  if !hasAt addr then [tag "invalid-last-translator" [sx v]]
  else if Domains.isEmailInSpecialDomain x.db.lower addr then [tag "invalid-last-translator" [sx v]]
  else if (HeaderFields.translatorBoilerplate.map String.toList).contains addr then
    (if isTemplate then [] else [tag "boilerplate-in-last-translator" [sx v]])
  else if Domains.isEmailInDotlessDomain addr then [tag "invalid-last-translator" [sx v]]
  else []

/-- `translator_emails[translator_email] = translator` -/
def dictSet (k v : Str) : List (Str × Str) → List (Str × Str)
  | [] => [(k, v)]
  | (k', v') :: rest => if k' = k then (k', v) :: rest else (k', v') :: dictSet k v rest

def dictGet (d : List (Str × Str)) (k : Str) : Option Str := (d.find? (·.1 = k)).map (·.2)

def translatorEmails (x : Ext) : List Str → List (Str × Str) → List (Str × Str)
  | [], d => d
  | v :: rest, d => translatorEmails x rest (dictSet (x.parseaddr v) v d)

def teamOne (x : Ext) (isTemplate : Bool) (emails : List (Str × Str)) (v : Str) : List TagCall :=
  let addr := x.parseaddr v
  if !hasAt addr then []
  else if Domains.isEmailInSpecialDomain x.db.lower addr then [tag "invalid-language-team" [sx v]]
  else if (HeaderFields.teamBoilerplate.map String.toList).contains addr then
    (if isTemplate then [] else [tag "boilerplate-in-language-team" [sx v]])
  else if Domains.isEmailInDotlessDomain addr then [tag "invalid-language-team" [sx v]]
  else match dictGet emails addr with
    | some translator => [tag "language-team-equal-to-last-translator" [sx v, sx translator]]
    | none => []

def checkTranslator (x : Ext) (isTemplate : Bool) (m : Meta) : List TagCall :=
  let ts := m.getS "Last-Translator"
  let t1 := if ts.length > 1 then [tag "duplicate-header-field-last-translator" []]
            else if ts.length = 0 then [tag "no-last-translator-header-field" []] else []
  let ts := dedup ts
  let emails := translatorEmails x ts []
  let t2 := ts.flatMap (translatorOne x isTemplate)
  let teams := m.getS "Language-Team"
  let t3 := if teams.length > 1 then [tag "duplicate-header-field-language-team" []]
            else if teams.length = 0 then [tag "no-language-team-header-field" []] else []
  let t4 := (dedup teams).flatMap (teamOne x isTemplate emails)
  t1 ++ t2 ++ t3 ++ t4

/-! ## the header stages of `Checker.check` -/

structure Kind where
  isTemplate : Bool
  isBinary : Bool
  deriving DecidableEq, Repr, Inhabited

def Kind.po : Kind := ⟨false, false⟩
def Kind.pot : Kind := ⟨true, false⟩
def Kind.mo : Kind := ⟨false, true⟩

structure File where
  kind : Kind
  /-- `ctx.file.header`: the initial comments -/
  comments : Str
  entries : List Entry
  deriving Inhabited

def ofDateTag (t : Date.Tag) : TagCall :=
  ⟨t.name, t.args.map fun a => match a with | .safe s => .safe s | .str s => .str s⟩

def dateCtx (k : Kind) (m : Meta) (now : Int) : Date.Ctx :=
  ⟨(m.getS "Content-Type").head?, k.isBinary, k.isTemplate, m.getS "POT-Creation-Date", m.getS "PO-Revision-Date", now⟩

/-- `check_comments; check_headers; [check_language; check_plurals;] check_mime; check_dates; check_project; check_translator`:
    the tags in emission order (`check_language` / `check_plurals` are C19 / C07: what `check_language` leaves in
    `ctx.language` reaches `check_mime` through `cs`).  `none` = an exception escaped. -/
def checkAll (x : Ext) (cs : CharsetCheck) (now : Int) (f : File) : Option (List TagCall) :=
  let c := checkComments x.db f.kind.isTemplate f.comments
  match checkHeaders x f.kind.isTemplate f.entries with
  | none => none
  | some h =>
    match checkMime x.db cs h.metadata with
    | .error () => none
    | .ok mime =>
      match Date.checkDates (dateCtx f.kind h.metadata now) with
      | none => none
      | some dates =>
        some (c ++ h.tags ++ mime.tags ++ dates.map ofDateTag
              ++ checkProject x h.metadata ++ checkTranslator x f.kind.isTemplate h.metadata)

end I18n.Hdr
