import I18n.Model.Charset
/-!
# The Python kit the regenerated `lib/ling.py` fragment targets (`tools/translate/ling2lean.py` → `Generated/LingFn.lean`)

`Language.get_unrepresentable_characters` and `Language._simple_format`.  Core Lean only.  The trusted base of the third part of
`Props/C20Tie.lean`:

* a `Language` object is its `language_code`, `territory_code`, `modifier` (str or `None`); str = code points.
* `_get_characters(code, modifier, strict=…)` is a parameter `chars` (the model composes the section look-up with `getCharacters`).
* `text.encode(encoding)` is the parameter `encode : text ↦ Enc` of the model (the encoding is fixed during a call): success,
  UnicodeEncodeError (with "its reason starts with `iconv:`" — `getattr(exc, 'reason', '').startswith('iconv:')`), or anything else;
  `UnicodeError` catches the second.  `str.join('', xs)` is `xs.flatten`.
* `for x in xs:` with `break`: `forEachBrk` (the body says whether it broke).
-/
namespace I18n.Charset.LPy
open I18n I18n.Charset

structure Language where
  language_code : Name
  territory_code : Option Name
  modifier : Option Name

inductive Exn where
  | unicodeEncode (iconvCli : Bool)
  | other
  deriving DecidableEq, Repr

def Exn.isUnicodeError : Exn → Bool
  | .unicodeEncode _ => true
  | .other => false

/-- `getattr(exc, 'reason', '').startswith('iconv:')` -/
def Exn.reasonIsIconv : Exn → Bool
  | .unicodeEncode b => b
  | .other => false

def lit (s : String) : Name := s.toList.map Char.toNat

/-- `text.encode(encoding)` as a statement: only whether it raises matters -/
def strEncode (encode : List Nat → Enc) (text : List Nat) : Except Exn Unit :=
  match encode text with
  | .ok => .ok ()
  | .encodeError b => .error (.unicodeEncode b)
  | .crash => .error .other

/-- `for x in xs: body` where the body may `break` (`true`) -/
def forEachBrk {α σ ε : Type} (xs : List α) (body : α → σ → Except ε (Bool × σ)) (s : σ) : Except ε σ :=
  match xs with
  | [] => .ok s
  | x :: rest =>
    match body x s with
    | .error e => .error e
    | .ok (true, s') => .ok s'
    | .ok (false, s') => forEachBrk rest body s'

end I18n.Charset.LPy
