/-
The abstract syntax of plural expressions, with the shape of the Python `ast` nodes that
`lib/intexpr.py` builds: `BoolOp` always has exactly two operands and `Compare` exactly one
operator (that is what the grammar actions construct).
-/
import I18n.Py
namespace I18n

inductive UnOp where
  | not
  deriving DecidableEq, Repr, Inhabited

inductive BinOp where
  | add | sub | mult | div | mod
  deriving DecidableEq, Repr, Inhabited

inductive CmpOp where
  | eq | noteq | lt | lte | gt | gte
  deriving DecidableEq, Repr, Inhabited

inductive BoolOp where
  | and | or
  deriving DecidableEq, Repr, Inhabited

/-- `ast.Num(n)`, `ast.Name('n')`, `ast.UnaryOp`, `ast.BinOp`, `ast.Compare`, `ast.BoolOp`,
    `ast.IfExp`.  `num` carries a Python int (the parser only ever produces `n ≥ 0`, the
    evaluators nevertheless test `n < 0`, so the model keeps `Int`). -/
inductive Expr where
  | num (n : Int)
  | name
  | unaryop (op : UnOp) (operand : Expr)
  | binop (left : Expr) (op : BinOp) (right : Expr)
  | compare (left : Expr) (op : CmpOp) (right : Expr)
  | boolop (op : BoolOp) (l r : Expr)
  | ifexp (test body orelse : Expr)
  deriving DecidableEq, Repr, Inhabited

/-- `isinstance(node, ast.Name)` -/
def Expr.isName : Expr → Bool
  | .name => true
  | _ => false

/-- `isinstance(node, ast.Num)` -/
def Expr.isNum : Expr → Bool
  | .num _ => true
  | _ => false

/-- `node.n` — `AttributeError` unless the node is a `Num`. -/
def Expr.attrN : Expr → Except Py.Exc Int
  | .num n => .ok n
  | _ => .error .AttributeError

end I18n
