import I18n.Model.FmtCheck
import I18n.PyKit
/-!
Python operations used by the definition regenerated from `lib/check/msgformat/__init__.py` `check_message`
(`Generated/FmtMsg.lean`, `tools/translate/fmtmsg2lean.py`).  Core Lean only.
-/
namespace I18n.FmtCheck.Py

/-- `d[k]` where `d` is `None` or a dict: `TypeError` on `None`, `KeyError` on a missing key -/
def optDictGet {κ ν : Type} [DecidableEq κ] (d : Option (List (κ × ν))) (k : κ) : Except I18n.Py.Exc ν :=
  match d with
  | none => .error .TypeError
  | some d => PyKit.dictGet d k

end I18n.FmtCheck.Py
