import I18n.Model.Tags
/-!
Python operations on tag arguments used by the definitions regenerated from `lib/tags.py` (`Generated/TagsFmt.lean`,
`tools/translate/tagsfmt2lean.py`).  Core Lean only.
-/
namespace I18n.Tags.Py

/-- `str(s)` for a tag argument: a `str` (or `safestr`) is itself, an `int` its decimal digits, `bytes` their `repr` -/
def pyStr : Extra → Str
  | .safe s => s
  | .str s => s
  | .int n => strInt n
  | .bytes b => reprBytes b

end I18n.Tags.Py
