import I18n.Py
import I18n.Generated.PyFormatTables
/-!
# Model of `lib/strformat/python.py` (`FormatString`, `Conversion`, `add_argument`)

Core Lean only.  Follows the source statement by statement.

* The hand-written scanner of `FormatString.__init__` reads the string through one iterator `si = enumerate(s)`;
  `next_si()` raises `Error` when the iterator is exhausted.  Here the iterator is the list of characters not yet
  read: every scanner function takes the current character `ch` and the rest of the iterator, and `none` stands for
  "`Error` was raised" (by `next_si()` or by the final `else: raise Error(s[i:])`).
* `ch in _info.flags`, `ch in _info.lengths`, `ch in _info.all_cvt`, `conv in i.int_cvt + …` are substring tests with
  a one-character needle, i.e. membership in the character lists that `tools/translate/pyfmt2lean.py` dumps from the
  live `_info` class (`Generated.PyFormatTables`).  `'0' <= ch <= '9'` compares one-character strings, i.e. code points;
  `int(ch)` is then total (the ten ASCII digits), `width *= 10; width += int(ch)` is unbounded integer arithmetic.
* The type of a conversion is read from the table the translator probes from the live module (`typeTable`);
  flags, width, precision, length and key handling are modelled by hand, in source order.
* `_seq_arguments` is a list; `_map_arguments` (a `defaultdict(list)`) is kept as its insertion log
  `List (key × Entry)`: `map[key]` = the entries with that key in order, `if self._map_arguments` = log non-empty
  (an entry is only ever created by `self._map_arguments[key] += [arg]`).
* `text` (an `io.StringIO`) is the list of characters written since the last `seek(0); truncate()`, kept reversed;
  `text.tell()` is non-zero iff that list is non-empty.
* `fuel` in `loop` is a termination device only (`parse` supplies `len(s) + 1`; each round consumes at least one
  character: `Lemmas.PyFmtScan.loop_fuel`).
-/
namespace I18n.PyFmt
open I18n.Generated.PyFormatTables (flagChars lengthChars octCvt hexCvt intCvt floatCvt allCvt SSIZE_MAX typeTable
  variableWidthType variablePrecisionType)

/-- the module's `Error` classes that are *raised*, plus anything else as `crash` -/
inductive PErr
  | Error | ForbiddenArgumentKey | ArgumentIndexingMixture | ArgumentTypeMismatch | WidthRangeError | PrecisionRangeError
  | crash (e : Py.Exc)
  deriving DecidableEq, Repr, Inhabited

def PErr.name : PErr → String
  | .Error => "Error" | .ForbiddenArgumentKey => "ForbiddenArgumentKey" | .ArgumentIndexingMixture => "ArgumentIndexingMixture"
  | .ArgumentTypeMismatch => "ArgumentTypeMismatch" | .WidthRangeError => "WidthRangeError"
  | .PrecisionRangeError => "PrecisionRangeError" | .crash e => e.name

/-- one of the module's own `Error` classes (what callers catch) -/
def PErr.own : PErr → Bool
  | .crash _ => false
  | _ => true

/-- the `Error` subclasses that are only ever *recorded* (`parent.warn`) -/
inductive Warn | RedundantFlag | RedundantPrecision | RedundantLength | ObsoleteConversion
  deriving DecidableEq, Repr, Inhabited

def Warn.name : Warn → String
  | .RedundantFlag => "RedundantFlag" | .RedundantPrecision => "RedundantPrecision"
  | .RedundantLength => "RedundantLength" | .ObsoleteConversion => "ObsoleteConversion"

/-- a width or precision: `*` (`var_width` / `var_prec`) or a number -/
inductive Num | star | num (n : Nat)
  deriving DecidableEq, Repr, Inhabited

/-- the keyword arguments of `Conversion(...)` -/
structure Directive where
  key : Option (List Char)
  /-- the flag characters in the order read (`collections.Counter` remembers first occurrences and counts) -/
  flags : List Char
  /-- `width` (0 when there are no width digits) or `var_width` -/
  width : Num
  /-- `prec` (`none` without a `.`; 0 for a `.` without digits) or `var_prec` -/
  prec : Option Num
  length : Option Char
  conv : Char
  deriving DecidableEq, Repr, Inhabited

/-! ## The scanner -/

/-- `'0' <= ch <= '9'` -/
def isDigit (ch : Char) : Bool := '0' ≤ ch && ch ≤ '9'

/-- `int(ch)` for `'0' <= ch <= '9'` -/
def digitVal (ch : Char) : Nat := ch.toNat - '0'.toNat

/-- the `while True:` loop that skips over balanced parentheses, entered after the opening `(` with `pcount`
    open parentheses: the key characters read up to (not including) the matching `)` and the iterator after it -/
def scanKey : Nat → List Char → Option (List Char × List Char)
  | _, [] => none                                             -- next_si() raises Error
  | pcount, c :: cs =>
    if c == '(' then
      match scanKey (pcount + 1) cs with
      | none => none
      | some (k, r) => some (c :: k, r)
    else if c == ')' then
      if pcount == 1 then some ([], cs)                       -- pcount -= 1; if pcount == 0: … break
      else
        match scanKey (pcount - 1) cs with
        | none => none
        | some (k, r) => some (c :: k, r)
    else
      match scanKey pcount cs with
      | none => none
      | some (k, r) => some (c :: k, r)

/-- `while ch in _info.flags: flags[ch] += 1; j, ch = next_si()` -/
def scanFlags (ch : Char) : List Char → Option (List Char × Char × List Char)
  | [] => if flagChars.contains ch then none else some ([], ch, [])
  | c :: r =>
    if flagChars.contains ch then
      match scanFlags c r with
      | none => none
      | some (f, x) => some (ch :: f, x)
    else some ([], ch, c :: r)

/-- `while '0' <= ch <= '9': width *= 10; width += int(ch); j, ch = next_si()` -/
def scanDigits (acc : Nat) (ch : Char) : List Char → Option (Nat × Char × List Char)
  | [] => if isDigit ch then none else some (acc, ch, [])
  | c :: r =>
    if isDigit ch then scanDigits (acc * 10 + digitVal ch) c r
    else some (acc, ch, c :: r)

/-- `if ch == '*': var_width = True; j, ch = next_si()  else: width = 0; while …` -/
def scanWidth (ch : Char) (rest : List Char) : Option (Num × Char × List Char) :=
  if ch == '*' then
    match rest with
    | [] => none
    | c :: r => some (.star, c, r)
  else
    match scanDigits 0 ch rest with
    | none => none
    | some (w, x) => some (.num w, x)

/-- `if ch == '.': j, ch = next_si(); if ch == '*': … else: prec = 0; while …` -/
def scanPrec (ch : Char) (rest : List Char) : Option (Option Num × Char × List Char) :=
  if ch == '.' then
    match rest with
    | [] => none
    | c :: r =>
      if c == '*' then
        match r with
        | [] => none
        | c' :: r' => some (some .star, c', r')
      else
        match scanDigits 0 c r with
        | none => none
        | some (p, x) => some (some (.num p), x)
  else some (none, ch, rest)

/-- `if ch in _info.lengths: length = ch; j, ch = next_si()` -/
def scanLength (ch : Char) (rest : List Char) : Option (Option Char × Char × List Char) :=
  if lengthChars.contains ch then
    match rest with
    | [] => none
    | c :: r => some (some ch, c, r)
  else some (none, ch, rest)

/-- the key part: `if ch == '(': …; key = s[i+2:j-1]` -/
def scanKeyPart (ch : Char) (rest : List Char) : Option (Option (List Char) × Char × List Char) :=
  if ch == '(' then
    match scanKey 1 rest with
    | none => none
    | some (_, []) => none                                    -- the `j, ch = next_si()` after the closing parenthesis
    | some (k, c :: r) => some (some k, c, r)
  else some (none, ch, rest)

/-- one conversion specification, the `%` already consumed: from `j, ch = next_si()` to `conv = ch` /
    `raise Error(s[i:])`; `none` = `Error` raised -/
def scanDirective (cs : List Char) : Option (Directive × List Char) :=
  match cs with
  | [] => none
  | ch :: rest =>
    match scanKeyPart ch rest with
    | none => none
    | some (key, ch, rest) =>
      match scanFlags ch rest with
      | none => none
      | some (flags, ch, rest) =>
        match scanWidth ch rest with
        | none => none
        | some (width, ch, rest) =>
          match scanPrec ch rest with
          | none => none
          | some (prec, ch, rest) =>
            match scanLength ch rest with
            | none => none
            | some (length, ch, rest) =>
              if allCvt.contains ch then some ({ key, flags, width, prec, length, conv := ch }, rest)
              else none

/-! ## `FormatString` state -/

inductive ArgKind | width | prec | conv
  deriving DecidableEq, Repr, Inhabited

/-- what is stored in `_seq_arguments` / `_map_arguments`: a `VariableWidth`, `VariablePrecision` or the
    `Conversion` itself; `parent` = index in `_items` of the conversion it belongs to -/
structure Entry where
  kind : ArgKind
  type : String
  parent : Nat
  deriving DecidableEq, Repr, Inhabited

inductive Item
  | lit (text : List Char)
  | conv (type : String)
  deriving DecidableEq, Repr, Inhabited

structure St where
  /-- `_seq_arguments` -/
  seq : List Entry
  /-- `_map_arguments` as an insertion log -/
  map : List (List Char × Entry)
  /-- `_items` -/
  items : List Item
  warnings : List Warn
  deriving Repr

def St.init : St := { seq := [], map := [], items := [], warnings := [] }

/-- `parent.warn(...)`; `w = false` is the same code with the warnings dropped -/
def warn (w : Bool) (st : St) (x : Warn) : St :=
  if w then { st with warnings := st.warnings ++ [x] } else st

/-- `add_argument` with the callers' `except IndexError: raise ArgumentIndexingMixture(s)` applied -/
def addArgument (st : St) (key : Option (List Char)) (arg : Entry) : Except PErr St :=
  -- `if self._map_arguments is None: raise RuntimeError`: only set to None after the scan
  match key with
  | none =>
    if !st.map.isEmpty then .error .ArgumentIndexingMixture    -- raise IndexError
    else .ok { st with seq := st.seq ++ [arg] }
  | some k =>
    if !st.seq.isEmpty then .error .ArgumentIndexingMixture    -- raise IndexError
    else .ok { st with map := st.map ++ [(k, arg)] }

/-! ## `Conversion.__init__` -/

/-- keys of `collections.Counter` in iteration (= first occurrence) order -/
def distinct : List Char → List Char
  | [] => []
  | c :: cs => c :: (distinct cs).filter (fun x => x != c)

/-- `for flag, count in flags.items(): …` -/
def flagLoop (w : Bool) (flags : List Char) (conv : Char) : List Char → St → Except PErr St
  | [], st => .ok st
  | flag :: more, st =>
    let st := if flags.count flag != 1 then warn w st .RedundantFlag else st
    if flag == '#' then
      let st := if (octCvt ++ hexCvt ++ floatCvt).contains conv then st else warn w st .RedundantFlag
      flagLoop w flags conv more st
    else if flag == '-' then flagLoop w flags conv more st
    else if flag == '0' || flag == ' ' || flag == '+' then         -- assert flag in '0 +'
      let st := if (intCvt ++ floatCvt).contains conv then st else warn w st .RedundantFlag
      flagLoop w flags conv more st
    else .error (.crash .AssertionError)

def checkFlags (w : Bool) (st : St) (flags : List Char) (conv : Char) : Except PErr St :=
  match flagLoop w flags conv (distinct flags) st with
  | .error e => .error e
  | .ok st =>
    -- for f1, f2 in [('-', '0'), ('+', ' ')]: if (f1 in flags) and (f2 in flags): warn
    let st := if flags.contains '-' && flags.contains '0' then warn w st .RedundantFlag else st
    let st := if flags.contains '+' && flags.contains ' ' then warn w st .RedundantFlag else st
    .ok st

/-- `if var_width: … elif width > SSIZE_MAX: raise WidthRangeError` -/
def doWidth (st : St) (width : Num) (parent : Nat) : Except PErr St :=
  match width with
  | .star => addArgument st none ⟨.width, variableWidthType, parent⟩
  | .num n => if n > SSIZE_MAX then .error .WidthRangeError else .ok st

/-- `if var_prec: … elif prec is not None: if prec > SSIZE_MAX: raise PrecisionRangeError;
    if (conv in i.int_cvt) and (prec > SSIZE_MAX - 3): raise PrecisionRangeError` (the second test: fix 84eb507) -/
def doPrec (st : St) (prec : Option Num) (conv : Char) (parent : Nat) : Except PErr St :=
  match prec with
  | none => .ok st
  | some .star => addArgument st none ⟨.prec, variablePrecisionType, parent⟩
  | some (.num n) =>
    if n > SSIZE_MAX then .error .PrecisionRangeError
    else if intCvt.contains conv && n > SSIZE_MAX - 3 then .error .PrecisionRangeError
    else .ok st

/-- the warnings recorded after the width and precision tests, in source order: `if prec is not None: …`,
    `if length is not None: …`, and `if conv == 'u': parent.warn(ObsoleteConversion, …)` inside `if conv in i.int_cvt` -/
def lateWarnings (w : Bool) (st : St) (d : Directive) : St :=
  let st :=
    if d.prec.isSome then
      let st := if intCvt.contains d.conv && d.flags.contains '0' then warn w st .RedundantFlag else st
      if d.conv == 'c' || d.conv == '%' then warn w st .RedundantPrecision else st
    else st
  let st := if d.length.isSome then warn w st .RedundantLength else st
  if d.conv == 'u' && intCvt.contains d.conv then warn w st .ObsoleteConversion else st

/-- `Conversion(parent, s[i:j+1], key=…, flags=…, …)`; returns the state and the conversion's `type` -/
def conversion (w : Bool) (st : St) (d : Directive) : Except PErr (St × String) :=
  let parent := st.items.length
  match checkFlags w st d.flags d.conv with
  | .error e => .error e
  | .ok st =>
    match doWidth st d.width parent with
    | .error e => .error e
    | .ok st =>
      match doPrec st d.prec d.conv parent with
      | .error e => .error e
      | .ok st =>
        let st := lateWarnings w st d
        match typeTable.lookup d.conv with
        | none => .error (.crash .AssertionError)               -- `assert False  # no coverage`
        | some tp =>
          if tp == "None" then
            if d.key.isSome then .error .ForbiddenArgumentKey else .ok (st, tp)
          else
            match addArgument st d.key ⟨.conv, tp, parent⟩ with
            | .error e => .error e
            | .ok st => .ok (st, tp)

/-! ## `FormatString.__init__` -/

/-- `if text.tell(): items += [text.getvalue()]` (`text` is kept reversed) -/
def flush (text : List Char) (st : St) : St :=
  if text.isEmpty then st else { st with items := st.items ++ [.lit text.reverse] }

/-- the `while True:` loop over `si`; `text` = what was written to the `StringIO` since it was last emptied -/
def loop (w : Bool) : Nat → List Char → List Char → St → Except PErr St
  | 0, _, _, _ => .error (.crash .NonTermination)
  | _ + 1, [], text, st => .ok (flush text st)
  | fuel + 1, c :: cs, text, st =>
    if c != '%' then loop w fuel cs (c :: text) st
    else
      match scanDirective cs with
      | none => .error .Error
      | some (d, rest) =>
        let st := flush text st
        match conversion w st d with
        | .error e => .error e
        | .ok (st, tp) => loop w fuel rest [] { st with items := st.items ++ [.conv tp] }

/-- `types = frozenset(a.type for a in args); if len(types) > 1: raise ArgumentTypeMismatch` -/
def sameType : List Entry → Bool
  | [] => true
  | e :: es => es.all (fun e' => e'.type == e.type)

def distinctKeys : List (List Char) → List (List Char)
  | [] => []
  | k :: ks => k :: (distinctKeys ks).filter (fun x => x != k)

/-- `self._map_arguments.items()`: keys in first-insertion order with their entries in order -/
def groups (log : List (List Char × Entry)) : List (List Char × List Entry) :=
  (distinctKeys (log.map (·.1))).map fun k => (k, (log.filter (fun p => p.1 == k)).map (·.2))

structure Result where
  /-- `.seq_arguments` -/
  seq : List Entry
  /-- `.seq_conversions`: `[arg for arg in self._seq_arguments if isinstance(arg, Conversion)]` -/
  seqConversions : List Entry
  /-- `.map_arguments` -/
  map : List (List Char × List Entry)
  warnings : List Warn
  items : List Item
  deriving Repr

def parseW (w : Bool) (s : List Char) : Except PErr Result :=
  match loop w (s.length + 1) s [] St.init with
  | .error e => .error e
  | .ok st =>
    let gs := groups st.map
    if gs.all (fun g => sameType g.2) then
      .ok { seq := st.seq, seqConversions := st.seq.filter (fun e => e.kind == .conv), map := gs, warnings := st.warnings, items := st.items }
    else .error .ArgumentTypeMismatch

/-- `FormatString(s)` -/
def parse (s : List Char) : Except PErr Result := parseW true s

/-! ## The domain of property C12 -/

/-- the conversion is not `%`, or the specification is exactly `%%` (no key, flag, width, precision, length) -/
def Directive.plain (d : Directive) : Bool :=
  d.conv != '%' || (d.key.isNone && d.flags.isEmpty && d.width == .num 0 && d.prec.isNone && d.length.isNone)

/-- every conversion specification the scanner reads whose conversion character is `%` is exactly `%%` -/
def plainPercent : Nat → List Char → Bool
  | 0, _ => true
  | _ + 1, [] => true
  | fuel + 1, c :: cs =>
    if c != '%' then plainPercent fuel cs
    else
      match scanDirective cs with
      | none => true
      | some (d, rest) => d.plain && plainPercent fuel rest

end I18n.PyFmt
