/-
Model of `cli.check_all` (lib/cli.py:128-138): sequential loop, or one captured output per file through
`ProcessPoolExecutor.map`, written to stdout in SUBMISSION order whatever the completion order.
`checkFile` is a parameter: in the model the output for a file is a function of that file alone
(there is no state argument), which is exactly what the `determinism` correspondence tests of the code.
-/
namespace I18n.Cli

/-- the sequential branch: `for path in paths: check_file(path)` (each call prints its lines) -/
def checkAllSeq {α : Type} (checkFile : α → List String) (paths : List α) : List String :=
  (paths.map checkFile).flatten

/-- Assumed contract of `Executor.map(f, paths)`: every task is run once, tasks COMPLETE in an arbitrary order
    (`sched` = task indices in completion order), each result is kept under its submission index, and the
    consumer receives them in submission order. -/
def executorMap {α β : Type} (f : α → β) (paths : List α) (sched : List Nat) : List (Option β) :=
  let done : List (Nat × β) := sched.filterMap (fun i => paths[i]?.map (fun p => (i, f p)))
  (List.range paths.length).map (fun i => (done.find? (fun q => q.1 == i)).map (·.2))

/-- `check_all(paths, options=options)` with `options.jobs = jobs` -/
def checkAll {α : Type} (checkFile : α → List String) (paths : List α) (jobs : Nat) (sched : List Nat) : List String :=
  if paths.length ≤ 1 ∨ jobs ≤ 1 then checkAllSeq checkFile paths
  else ((executorMap checkFile paths sched).filterMap id).flatten

end I18n.Cli
