/-
Model of `cli.check_all` (lib/cli.py:128-138): sequential loop, or one captured output per file through
`ProcessPoolExecutor.map`, written to stdout in SUBMISSION order whatever the completion order.
`checkFile` is a parameter: in the model the output for a file is a function of that file alone
(there is no state argument), which is exactly what the `determinism` correspondence tests of the code.
-/
namespace I18n.Cli

/-- the sequential branch: `for path in paths: check_file(path)` (each call prints its lines) -/
def checkAllSeq {α : Type} (checkFile : α → List String) (paths : List α) : List String :=
  (paths.map checkFile).flatten

/-- Assumed contract of `Executor.map(f, paths)`: every task is run once, tasks COMPLETE in an arbitrary order
    (`sched` = task indices in completion order), each result is kept under its submission index, and the
    consumer receives them in submission order. -/
def executorMap {α β : Type} (f : α → β) (paths : List α) (sched : List Nat) : List (Option β) :=
  let done : List (Nat × β) := sched.filterMap (fun i => paths[i]?.map (fun p => (i, f p)))
  (List.range paths.length).map (fun i => (done.find? (fun q => q.1 == i)).map (·.2))

/-- `check_all(paths, options=options)` with `options.jobs = jobs` -/
def checkAll {α : Type} (checkFile : α → List String) (paths : List α) (jobs : Nat) (sched : List Nat) : List String :=
  if paths.length ≤ 1 ∨ jobs ≤ 1 then checkAllSeq checkFile paths
  else ((executorMap checkFile paths sched).filterMap id).flatten

/-! ## exit status, stderr, and what an escaping exception does to the output (for C01)

`i18nspector` ends in `cli.main()`; nothing calls `sys.exit`, so the exit status is 0 unless an exception reaches the top
(traceback on stderr, status 1) or `argparse` rejects the command line (`ap.error`: usage message on stderr, status 2). -/

/-- one `check_file(path)` call: the lines it printed, and whether an exception left it -/
structure FileRun where
  lines : List String
  uncaught : Bool

/-- the process as the shell sees it -/
structure Proc where
  stdout : List String
  /-- stderr is non-empty (traceback or usage error) -/
  stderr : Bool
  rc : Nat
  deriving DecidableEq, Repr

/-- `for path in paths: check_file(path)`: the first exception ends the loop; what was printed before it stays printed -/
def runSeq {α : Type} (checkFile : α → FileRun) : List α → List String × Bool
  | [] => ([], false)
  | p :: ps =>
    let r := checkFile p
    if r.uncaught then (r.lines, true)
    else
      let rest := runSeq checkFile ps
      (r.lines ++ rest.1, rest.2)

/-- `for s in executor.map(check_file_s, paths): sys.stdout.write(s)`: results are consumed in submission order; an exception
    raised in a worker is re-raised by the iterator at that position, and what `check_file_s` had captured for that file is
    lost with the worker's `StringIO` -/
def runPar {α : Type} (checkFile : α → FileRun) : List α → List String × Bool
  | [] => ([], false)
  | p :: ps =>
    let r := checkFile p
    if r.uncaught then ([], true)
    else
      let rest := runPar checkFile ps
      (r.lines ++ rest.1, rest.2)

/-- how `main()` leaves `-l LANG`: absent, accepted (`parse_language` + `fix_codes` succeed), or rejected -/
inductive LangOpt where
  | absent | valid | invalid
  deriving DecidableEq, Repr

/-- `cli.main()` after option parsing: `-l` rejected → `ap.error('invalid language')`; else `check_all` -/
def main {α : Type} (lang : LangOpt) (checkFile : α → FileRun) (paths : List α) (jobs : Nat) : Proc :=
  if lang = .invalid then ⟨[], true, 2⟩
  else
    let r := if paths.length ≤ 1 ∨ jobs ≤ 1 then runSeq checkFile paths else runPar checkFile paths
    ⟨r.1, r.2, if r.2 then 1 else 0⟩

/-- `check_file`: with `--unpack-deb`, a `*.deb` / `*.dsc` path is unpacked and every regular member is checked (members are
    checked as regular files, /repo f04d144); a path with another suffix, or one the helper cannot unpack (/repo 4ff67ee),
    raises `UnsupportedFileType` inside `check_deb`, which `check_file` catches, and is checked as a regular file -/
inductive DebOutcome (α : Type) where
  | notPackage                -- suffix is neither `.deb` nor `.dsc`
  | unpackFailed              -- dpkg-deb / dpkg-source returned non-zero (CalledProcessError → UnsupportedFileType)
  | members (ms : List α)     -- unpacked: the regular files found by `os.walk`

def checkFile {α : Type} (unpackDeb : Bool) (deb : α → DebOutcome α) (regular members : α → FileRun) (p : α) : FileRun :=
  if unpackDeb then
    match deb p with
    | .notPackage => regular p
    | .unpackFailed => regular p
    | .members ms =>
      let r := runSeq members ms
      ⟨r.1, r.2⟩
  else regular p

end I18n.Cli
