import I18n.Model.CFmt
import I18n.Model.PyFmt
import I18n.Model.FmtSig
import I18n.Model.CheckPlurals
import I18n.Model.PyBrace
/-!
# Model of the message-format argument checks (property C14)

`lib/check/msgformat/__init__.py` (`Checker.check_message`), the four back ends
`lib/check/msgformat/{c,python,pybrace,perlbrace}.py` (`check_string`, `check_msgids`, `check_args`),
`lib/strformat/c.py` `FormatString.get_last_integer_conversion`, and the dispatch
`lib/check/__init__.py` `Checker._check_message_formats`.  Core Lean only; statement by statement.

* C and Python-% strings are parsed by the models of C11 / C12 (`CFmt.parse`, `PyFmt.parse`).  For the two brace
  kinds the parsed object is an *input* (`FmtSig`), extracted by the harness from the real parser.
* `message_repr(message, template='{}:')` and `message_repr(message)` are inputs (`pfx`, `repr`: safestrs built by
  `tags.safe_format`, C02's model).
* `check_string`'s diagnostics about a *single* string (`…-format-string-error` with the parser's message and
  arguments, the warning tags) are modelled by NAME and prefix only — their remaining extras quote the directive
  text, which is the parsers' business (C11–C13) and the escaper's (C02).  All tags of `check_args` and
  `check_msgids` are modelled with every extra.
* Python exceptions that would leave `check_message` are `Except.error`.
-/
namespace I18n.FmtCheck
open I18n I18n.FmtSig

/-! ## small helpers -/

def natStr (n : Nat) : List Char := (toString n).toList

/-- `tags.safestr(f'({loc})')` -/
def locExtra (loc : List Char) : Extra := .safe ('(' :: (loc ++ [')']))

/-- `FormatString(s)`: accepted, one of the back end's own `Error` classes, or anything else -/
inductive ParseOutcome (F : Type) where
  | ok (f : F)
  | own
  | crash (e : Py.Exc)
  deriving Repr, Inhabited

/-! ## `lib/strformat/c.py`: `get_last_integer_conversion` -/

abbrev CEntry := I18n.Spec.Printf.Entry

/-- what the C checker reads of a parsed C format string -/
structure CFmtX where
  /-- `.arguments`: per argument 1..k its uses (a `VariableWidth`, `VariablePrecision` or the `Conversion` itself;
      `parent` = index of the conversion among the items, which stands for object identity) -/
  arguments : List (List CEntry)
  warnings : List CFmt.Warn
  /-- `len(fmt)` -/
  nitems : Nat
  /-- per item: `conv.integer` (false for literal runs) -/
  integer : List Bool
  deriving Repr, Inhabited

/-- the inner loop body, over all uses of the examined arguments in order; `(vconv, conv)` as item indices;
    `none` = a `return` (of `None`) inside the loop -/
def lastIntScan : List CEntry → Option Nat → Option Nat → Option (Option Nat × Option Nat)
  | [], v, c => some (v, c)
  | e :: es, v, c =>
    if e.kind != .conv then
      -- isinstance(arg, (VariableWidth, VariablePrecision))
      let v := v.getD e.parent                                   -- if vconv is None: vconv = arg.parent
      if v != e.parent then none                                  -- if vconv is not arg.parent: return
      else lastIntScan es (some v) c
    else
      let v := v.getD e.parent                                   -- if vconv is None: vconv = arg
      let c := if c.isNone && v == e.parent then some e.parent else c   -- if (conv is None) and (vconv is arg): conv = arg
      if c != some e.parent then none                             -- if conv is not arg: return
      else lastIntScan es (some v) c

/-- `fmt.get_last_integer_conversion(n=n)`: the item index of the returned conversion, `none` for `None` -/
def getLastIntConv (f : CFmtX) (n : Nat) : Except Py.Exc (Option Nat) :=
  if n > f.arguments.length then .error .IndexError
  else if n = 0 then .error .IndexError
  else
    match lastIntScan (f.arguments.drop (f.arguments.length - n)).flatten none none with
    | none => .ok none
    | some (_, none) => .ok none                                  -- if conv is None: return
    | some (_, some c) => if f.integer.getD c false then .ok (some c) else .ok none   -- if not conv.integer: return

/-! ## the four `check_args` -/

def tagExcessOrMissing (name : String) (pfx : Extra) (nd : Nat) (dstLoc : List Char) (op : String) (ns : Nat) (srcLoc : List Char) : TagCall :=
  ⟨name, [pfx, .int nd, locExtra dstLoc, .str op.toList, .int ns, locExtra srcLoc]⟩

/-- `self.tag('…-argument-type-mismatch', prefix, safestr(dst type), safestr('(dst_loc)'), '!=', safestr(src type), safestr('(src_loc)'))` -/
def tagTypeMismatch (name : String) (pfx : Extra) (dt : List Char) (dstLoc : List Char) (st : List Char) (srcLoc : List Char) : TagCall :=
  ⟨name, [pfx, .safe dt, locExtra dstLoc, .str "!=".toList, .safe st, locExtra srcLoc]⟩

/-- `self.tag('…-unknown-argument', prefix, key, safestr('in'), safestr(dst_loc), safestr('but not in'), safestr(src_loc))` -/
def tagUnknown (name : String) (pfx key : Extra) (srcLoc dstLoc : List Char) : TagCall :=
  ⟨name, [pfx, key, .safe "in".toList, .safe dstLoc, .safe "but not in".toList, .safe srcLoc]⟩

/-- `self.tag('…-missing-argument', prefix, key, safestr('not in'), safestr(dst_loc), safestr('while in'), safestr(src_loc))` -/
def tagMissing (name : String) (pfx key : Extra) (srcLoc dstLoc : List Char) : TagCall :=
  ⟨name, [pfx, key, .safe "not in".toList, .safe dstLoc, .safe "while in".toList, .safe srcLoc]⟩

/-- `for src_arg, dst_arg in zip(src_args, dst_args): src_arg = src_arg[0]; dst_arg = dst_arg[0]; if types differ: tag` -/
def cTypeTags (pfx : Extra) (srcLoc dstLoc : List Char) : List (List CEntry) → List (List CEntry) → Except Py.Exc (List TagCall)
  | (s0 :: _) :: ss, (d0 :: _) :: ds =>
    match cTypeTags pfx srcLoc dstLoc ss ds with
    | .error e => .error e
    | .ok rest =>
      .ok ((if s0.type != d0.type then
              [tagTypeMismatch "c-format-string-argument-type-mismatch" pfx d0.type.toList dstLoc s0.type.toList srcLoc]
            else []) ++ rest)
  | [] :: _, _ :: _ => .error .IndexError       -- `src_arg[0]` on an argument without uses (never built by the parser)
  | (_ :: _) :: _, [] :: _ => .error .IndexError
  | [], _ => .ok []
  | _ :: _, [] => .ok []

/-- `lib/check/msgformat/c.py` `Checker.check_args` -/
def checkArgsC (pfx : Extra) (srcLoc : List Char) (src : CFmtX) (dstLoc : List Char) (dst : CFmtX) (omittedOk : Bool) :
    Except Py.Exc (List TagCall) :=
  let ns := src.arguments.length
  let nd := dst.arguments.length
  let count : Except Py.Exc (List TagCall) :=
    if nd > ns then .ok [tagExcessOrMissing "c-format-string-excess-arguments" pfx nd dstLoc ">" ns srcLoc]
    else if nd < ns then
      let missing := [tagExcessOrMissing "c-format-string-missing-arguments" pfx nd dstLoc "<" ns srcLoc]
      if omittedOk then
        match getLastIntConv src (ns - nd) with
        | .error e => .error e
        | .ok (some _) => .ok []
        | .ok none => .ok missing
      else .ok missing
    else .ok []
  match count with
  | .error e => .error e
  | .ok t1 =>
    match cTypeTags pfx srcLoc dstLoc src.arguments dst.arguments with
    | .error e => .error e
    | .ok t2 => .ok (t1 ++ t2)

abbrev PEntry := I18n.PyFmt.Entry

/-- unnamed arguments: `for src_arg, dst_arg in zip(src_args, dst_args): if src_arg.type != dst_arg.type: tag` -/
def pySeqTypeTags (pfx : Extra) (srcLoc dstLoc : List Char) : List PEntry → List PEntry → List TagCall
  | s :: ss, d :: ds =>
    (if s.type != d.type then
       [tagTypeMismatch "python-format-string-argument-type-mismatch" pfx d.type.toList dstLoc s.type.toList srcLoc]
     else []) ++ pySeqTypeTags pfx srcLoc dstLoc ss ds
  | [], _ => []
  | _ :: _, [] => []

/-- `d[key]` for a dict kept as an association list with distinct keys -/
def lookupKey {κ ν : Type} [DecidableEq κ] (k : κ) : List (κ × ν) → Option ν
  | [] => none
  | (k', v) :: rest => if k' = k then some v else lookupKey k rest

/-- the loop shared by the Python-% and python-brace checkers:
    `for key in sorted(dst_args.keys() & src_args.keys() …): src_arg = src_args[key][0]; dst_arg = dst_args[key][0]; if <clash>: self.tag(…)`;
    `clash s0 d0` is the tag to emit, if any -/
def mapTypeTags {κ ν : Type} [DecidableEq κ] (clash : ν → ν → Option TagCall) (src dst : List (κ × List ν)) :
    List κ → Except Py.Exc (List TagCall)
  | [] => .ok []
  | k :: ks =>
    match lookupKey k src, lookupKey k dst with
    | some (s0 :: _), some (d0 :: _) =>
      match mapTypeTags clash src dst ks with
      | .error e => .error e
      | .ok rest => .ok ((clash s0 d0).toList ++ rest)
    | some [], _ => .error .IndexError
    | some (_ :: _), some [] => .error .IndexError
    | none, _ => .error .KeyError
    | some (_ :: _), none => .error .KeyError

/-- shared by the Python-% and python-brace checkers:
    `missing_keys = src_args.keys() - dst_args.keys()`
    `if len(missing_keys) == 1 and omitted_int_conv_ok: [missing_key] = missing_keys; if all(<int> for arg in src_args[missing_key]): missing_keys = set()` -/
def missingKeys {κ ν : Type} [DecidableEq κ] (isInt : ν → Bool) (src : List (κ × List ν)) (missing : List κ) (omittedOk : Bool) :
    Except Py.Exc (List κ) :=
  match missing with
  | [k] =>
    if omittedOk then
      match lookupKey k src with
      | none => .error .KeyError
      | some uses => if uses.all isInt then .ok [] else .ok [k]
    else .ok [k]
  | _ => .ok missing

/-- Python-%: `if src_arg.type != dst_arg.type: self.tag('python-format-string-argument-type-mismatch', …)` -/
def pyClash (pfx : Extra) (srcLoc dstLoc : List Char) (s0 d0 : PEntry) : Option TagCall :=
  if s0.type != d0.type then
    some (tagTypeMismatch "python-format-string-argument-type-mismatch" pfx d0.type.toList dstLoc s0.type.toList srcLoc)
  else none

/-- `lib/check/msgformat/python.py` `Checker.check_args` -/
def checkArgsPython (pfx : Extra) (srcLoc : List Char) (src : PyFmt.Result) (dstLoc : List Char) (dst : PyFmt.Result)
    (omittedOk : Bool) : Except Py.Exc (List TagCall) :=
  -- unnamed arguments
  let t1 : List TagCall :=
    if dst.seq.length != src.seq.length then
      [tagExcessOrMissing "python-format-string-argument-number-mismatch" pfx dst.seq.length dstLoc "!=" src.seq.length srcLoc]
    else []
  let t2 := pySeqTypeTags pfx srcLoc dstLoc src.seq dst.seq
  -- named arguments
  let sk := src.map.map (·.1)
  let dk := dst.map.map (·.1)
  match mapTypeTags (pyClash pfx srcLoc dstLoc) src.map dst.map (sortBy strLt (dk.filter (fun k => sk.contains k))) with
  | .error e => .error e
  | .ok t3 =>
    let t4 := (sortBy strLt (dk.filter (fun k => !sk.contains k))).map fun k =>
      tagUnknown "python-format-string-unknown-argument" pfx (.str k) srcLoc dstLoc
    match missingKeys (fun a => a.type == "int") src.map (sk.filter (fun k => !dk.contains k)) omittedOk with
    | .error e => .error e
    | .ok missing =>
      let t5 := (sortBy strLt missing).map fun k =>
        tagMissing "python-format-string-missing-argument" pfx (.str k) srcLoc dstLoc
      .ok (t1 ++ t2 ++ t3 ++ t4 ++ t5)

/-- python-brace: `if not (src_arg.types & dst_arg.types): self.tag('python-brace-format-string-argument-type-mismatch', …)` -/
def braceClash (pfx : Extra) (srcLoc dstLoc : List Char) (s0 d0 : TySet) : Option TagCall :=
  if !(s0.inter d0).nonempty then
    some (tagTypeMismatch "python-brace-format-string-argument-type-mismatch" pfx d0.joined dstLoc s0.joined srcLoc)
  else none

/-- `lib/check/msgformat/pybrace.py` `Checker.check_args` (every `sorted` has `key=sort_key` since fix 56d8ddf) -/
def checkArgsPyBrace (pfx : Extra) (srcLoc : List Char) (src : PyBraceSig) (dstLoc : List Char) (dst : PyBraceSig)
    (omittedOk : Bool) : Except Py.Exc (List TagCall) :=
  let sk := src.args.map (·.1)
  let dk := dst.args.map (·.1)
  match mapTypeTags (braceClash pfx srcLoc dstLoc) src.args dst.args (sortBy BKey.lt (dk.filter (fun k => sk.contains k))) with
  | .error e => .error e
  | .ok t1 =>
    let t2 := (sortBy BKey.lt (dk.filter (fun k => !sk.contains k))).map fun k =>
      tagUnknown "python-brace-format-string-unknown-argument" pfx k.extra srcLoc dstLoc
    match missingKeys (fun a => a.int) src.args (sk.filter (fun k => !dk.contains k)) omittedOk with
    | .error e => .error e
    | .ok missing =>
      let t3 := (sortBy BKey.lt missing).map fun k =>
        tagMissing "python-brace-format-string-missing-argument" pfx k.extra srcLoc dstLoc
      .ok (t1 ++ t2 ++ t3)

/-- `lib/check/msgformat/perlbrace.py` `Checker.check_args` -/
def checkArgsPerlBrace (pfx : Extra) (srcLoc : List Char) (src : PerlBraceSig) (dstLoc : List Char) (dst : PerlBraceSig)
    (omittedOk : Bool) : Except Py.Exc (List TagCall) :=
  let t1 := (sortBy strLt (dst.args.filter (fun k => !src.args.contains k))).map fun k =>
    tagUnknown "perl-brace-format-string-unknown-argument" pfx (.str k) srcLoc dstLoc
  let missing := src.args.filter (fun k => !dst.args.contains k)
  let missing := if missing.length == 1 && omittedOk then [] else missing
  let t2 := (sortBy strLt missing).map fun k =>
    tagMissing "perl-brace-format-string-missing-argument" pfx (.str k) srcLoc dstLoc
  .ok (t1 ++ t2)

/-! ## the back ends as seen by `check_message` -/

/-- what `check_message` needs of a back end: `σ` = how a string is given, `F` = a parsed format string -/
structure Backend (σ F : Type) where
  /-- `bool(s)` -/
  truthy : σ → Bool
  /-- `backend.FormatString(s)` -/
  parse : σ → ParseOutcome F
  /-- the `…-format-string-error` tag of `check_string` -/
  errTag : String
  /-- the tags `check_string` emits for an accepted string (warnings; template-only diagnostics):
      `okTags isTemplate hasPlural pfx repr fmt` -/
  okTags : Bool → Bool → Extra → Extra → F → List TagCall
  /-- `len(fmt)` -/
  len : F → Nat
  /-- `check_msgids(message, msgid_fmts)` given `msgid_fmts.get(0)` and `message_repr(message)` -/
  checkMsgids : Extra → Option F → List TagCall
  checkArgs : Extra → List Char → F → List Char → F → Bool → Except Py.Exc (List TagCall)

def cParse (s : List Char) : ParseOutcome CFmtX :=
  match CFmt.parse s with
  | .ok r =>
    .ok { arguments := r.arguments, warnings := r.warnings, nitems := r.nitems,
          integer := (CFmt.scan s).1.map fun it => match CFmt.itemInfo it with | some (_, i) => i | none => false }
  | .error (.crash e) => .crash e
  | .error _ => .own

def cWarnTag (pfx : Extra) : CFmt.Warn → TagCall
  | .RedundantFlag => ⟨"c-format-string-redundant-flag", [pfx]⟩
  | .NonPortableConversion => ⟨"c-format-string-non-portable-conversion", [pfx]⟩

/-- `check_msgids` of the C checker: `[[arg]] = msgid_fmts[0].arguments` (exactly one argument with exactly one use)
    and `arg.type == 'int *'` -/
def cCheckMsgids (repr : Extra) : Option CFmtX → List TagCall
  | some f =>
    match f.arguments with
    | [[arg]] => if arg.type == "int *" then [⟨"qt-plural-format-mistaken-for-c-format", [repr]⟩] else []
    | _ => []
  | none => []

def cBackend : Backend (List Char) CFmtX where
  truthy s := !s.isEmpty
  parse := cParse
  errTag := "c-format-string-error"
  okTags _ _ pfx _ f := f.warnings.map (cWarnTag pfx)
  len f := f.nitems
  checkMsgids := cCheckMsgids
  checkArgs := checkArgsC

def pyParse (s : List Char) : ParseOutcome PyFmt.Result :=
  match PyFmt.parse s with
  | .ok r => .ok r
  | .error (.crash e) => .crash e
  | .error _ => .own

def pyWarnTag (pfx : Extra) : PyFmt.Warn → TagCall
  | .RedundantFlag => ⟨"python-format-string-redundant-flag", [pfx]⟩
  | .RedundantPrecision => ⟨"python-format-string-redundant-precision", [pfx]⟩
  | .RedundantLength => ⟨"python-format-string-redundant-length", [pfx]⟩
  | .ObsoleteConversion => ⟨"python-format-string-obsolete-conversion", [pfx]⟩

/-- the tail of the Python checker's `check_string`: warnings, then `if ctx.is_template: …` -/
def pyOkTags (isTemplate hasPlural : Bool) (pfx repr : Extra) (f : PyFmt.Result) : List TagCall :=
  f.warnings.map (pyWarnTag pfx) ++
  (if isTemplate then
    match f.seqConversions with
    | _ :: _ :: _ => [⟨"python-format-string-multiple-unnamed-arguments", [repr]⟩]
    | [c] => if hasPlural && c.type == "int" then [⟨"python-format-string-unnamed-plural-argument", [repr]⟩] else []
    | [] => []
   else [])

def pyBackend : Backend (List Char) PyFmt.Result where
  truthy s := !s.isEmpty
  parse := pyParse
  errTag := "python-format-string-error"
  okTags := pyOkTags
  len f := f.items.length
  checkMsgids _ _ := []
  checkArgs := checkArgsPython

/-- a string of a brace kind as the harness hands it over: its truthiness and what the real parser made of it -/
structure BraceStr (F : Type) where
  truthy : Bool
  outcome : ParseOutcome F
  deriving Repr, Inhabited

def pyBraceBackend : Backend (BraceStr PyBraceSig) PyBraceSig where
  truthy s := s.truthy
  parse s := s.outcome
  errTag := "python-brace-format-string-error"
  okTags _ _ _ _ _ := []
  len f := f.nitems
  checkMsgids _ _ := []
  checkArgs := checkArgsPyBrace

def perlBraceBackend : Backend (BraceStr PerlBraceSig) PerlBraceSig where
  truthy s := s.truthy
  parse s := s.outcome
  errTag := "perl-brace-format-string-error"
  okTags _ _ _ _ _ := []
  len f := f.nitems
  checkMsgids _ _ := []
  checkArgs := checkArgsPerlBrace

/-! ## the brace kinds on strings: composition with the parser models of C13 -/

/-- `frozenset` of type names: the C13 parser model's set, as the comparator reads it -/
def tyOfBrace (t : PyBrace.TySet) : TySet := ⟨t.float, t.int, t.str⟩

def keyOfBrace : PyBrace.Key → BKey
  | .idx n => .idx n
  | .name s => .name s

/-- what the python-brace checker reads of a parsed `FormatString`: `argument_map` (same keys, same dict order, the `.types` of
    every `Field` / `NestedField` filed under the key) and `len(fmt)` -/
def braceSigOf (r : PyBrace.Result) : PyBraceSig :=
  { args := r.argMap.map fun p => (keyOfBrace p.1, p.2.map fun a => tyOfBrace a.types), nitems := r.items.length }

/-- what the perl-brace checker reads: `arguments` (the set of names) and `len(fmt)` -/
def perlSigOf (r : PerlBrace.Result) : PerlBraceSig := { args := r.arguments, nitems := r.items.length }

/-- `lib.strformat.pybrace.FormatString(s)` as `check_message` sees it -/
def pyBraceParse (s : List Char) : ParseOutcome PyBraceSig :=
  match PyBrace.parse s with
  | .ok r => .ok (braceSigOf r)
  | .error (.own _ _) => .own
  | .error (.crash e) => .crash e

/-- `lib.strformat.perlbrace.FormatString(s)` as `check_message` sees it -/
def perlBraceParse (s : List Char) : ParseOutcome PerlBraceSig :=
  match PerlBrace.parse s with
  | .ok r => .ok (perlSigOf r)
  | .error (.error _) => .own
  | .error (.crash e) => .crash e

/-- the python-brace checker on raw strings: the parser model of C13 composed with `check_args` -/
def pyBraceStrBackend : Backend (List Char) PyBraceSig where
  truthy s := !s.isEmpty
  parse := pyBraceParse
  errTag := "python-brace-format-string-error"
  okTags _ _ _ _ _ := []
  len f := f.nitems
  checkMsgids _ _ := []
  checkArgs := checkArgsPyBrace

/-- the perl-brace checker on raw strings -/
def perlBraceStrBackend : Backend (List Char) PerlBraceSig where
  truthy s := !s.isEmpty
  parse := perlBraceParse
  errTag := "perl-brace-format-string-error"
  okTags _ _ _ _ _ := []
  len f := f.nitems
  checkMsgids _ _ := []
  checkArgs := checkArgsPerlBrace

/-! ## `Checker.check_message` -/

structure Ctx where
  isTemplate : Bool
  /-- `ctx.encoding is not None` -/
  hasEncoding : Bool
  /-- `ctx.plural_preimage` -/
  preimage : Option CheckPlurals.Preimage
  deriving Repr

structure Msg (σ : Type) where
  msgid : σ
  msgidPlural : Option σ
  msgstr : σ
  /-- `message.msgstr_plural` in dict order -/
  msgstrPlural : List (Nat × σ)
  /-- `message_repr(message, template='{}:')` -/
  pfx : Extra
  /-- `message_repr(message)` -/
  repr : Extra

structure Flags where
  fuzzy : Bool
  rangeMin : Nat
  /-- `none` = `1e999` -/
  rangeMax : Option Nat
  deriving Repr

/-- `flags.range_min <= x <= flags.range_max` -/
def Flags.inRange (fl : Flags) (x : Nat) : Bool :=
  decide (fl.rangeMin ≤ x) && (match fl.rangeMax with | none => true | some m => decide (x ≤ m))

/-- `check_string(ctx, message, s)`: the tags it emits and the format object or `None` -/
def checkString {σ F : Type} (b : Backend σ F) (ctx : Ctx) (msg : Msg σ) (s : σ) : Except Py.Exc (List TagCall × Option F) :=
  match b.parse s with
  | .ok f => .ok (b.okTags ctx.isTemplate msg.msgidPlural.isSome msg.pfx msg.repr f, some f)
  | .own => .ok ([⟨b.errTag, [msg.pfx]⟩], none)
  | .crash e => .error e

/-- one round of `for i, s in enumerate(msgids)`: `none` = the `return` of the non-template branch -/
def msgidFmt {σ F : Type} (b : Backend σ F) (ctx : Ctx) (msg : Msg σ) (s : σ) :
    Except Py.Exc (Option (List TagCall × Option F)) :=
  if ctx.isTemplate then
    match checkString b ctx msg s with
    | .error e => .error e
    | .ok r => .ok (some r)
  else
    match b.parse s with
    | .ok f => .ok (some ([], some f))
    | .own => .ok none                      -- except self.backend.Error: return
    | .crash e => .error e

/-- one of the `d = types.SimpleNamespace()` records -/
structure Plan (F : Type) where
  srcLoc : List Char
  src : Option F
  dstLoc : List Char
  dst : Option F
  omittedOk : Bool

def msgstrLoc (i : Nat) : List Char := "msgstr[".toList ++ natStr i ++ [']']

/-- the `if preimage == [1]: … elif … else …` cascade for one `msgstr[i]` whose string parsed to `dst`;
    `p` = the preimage of `i` filtered by the range flag -/
def pluralPlan {σ F : Type} (b : Backend σ F) (f0 f1 : Option F) (i : Nat) (dst : F) (p : List Nat) : Plan F :=
  if p = [1] then
    { srcLoc := "msgid".toList, src := f0, dstLoc := msgstrLoc i, dst := some dst,
      omittedOk := match f0, f1 with
        | some a, some c => b.len a == b.len c
        | _, _ => false }
  else if p.length ≤ 1 then
    { srcLoc := "msgid_plural".toList, src := f1, dstLoc := msgstrLoc i, dst := some dst, omittedOk := true }
  else if p.length == 2 && p.head? == some 0 then
    { srcLoc := "msgid_plural".toList, src := f1, dstLoc := msgstrLoc i, dst := some dst, omittedOk := true }
  else
    { srcLoc := "msgid_plural".toList, src := f1, dstLoc := msgstrLoc i, dst := some dst, omittedOk := false }

/-- `ctx.plural_preimage[i]` -/
def preimageGet (pre : CheckPlurals.Preimage) (i : Nat) : Option (List Nat) := lookupKey (i : Int) pre

/-- `for i, s in sorted(message.msgstr_plural.items()): …` — the `check_string` tags and the plans -/
def pluralPlans {σ F : Type} (b : Backend σ F) (ctx : Ctx) (msg : Msg σ) (fl : Flags) (f0 f1 : Option F)
    (pre : CheckPlurals.Preimage) : List (Nat × σ) → Except Py.Exc (List TagCall × List (Plan F))
  | [] => .ok ([], [])
  | (i, s) :: rest =>
    match checkString b ctx msg s with
    | .error e => .error e
    | .ok (tg, dst) =>
      match pluralPlans b ctx msg fl f0 f1 pre rest with
      | .error e => .error e
      | .ok (tgs, plans) =>
        match dst with
        | none => .ok (tg ++ tgs, plans)                           -- if d.dst_fmt is None: continue
        | some d =>
          match preimageGet pre i with
          | none => .ok (tg ++ tgs, plans)                         -- except KeyError: continue
          | some pi => .ok (tg ++ tgs, pluralPlan b f0 f1 i d (pi.filter fl.inRange) :: plans)

/-- the final `for d in strings: …` -/
def runPlans {σ F : Type} (b : Backend σ F) (pfx : Extra) : List (Plan F) → Except Py.Exc (List TagCall)
  | [] => .ok []
  | d :: rest =>
    match d.dst, d.src with
    | some dst, some src =>
      match b.checkArgs pfx d.srcLoc src d.dstLoc dst d.omittedOk with
      | .error e => .error e
      | .ok t =>
        match runPlans b pfx rest with
        | .error e => .error e
        | .ok ts => .ok (t ++ ts)
    | _, _ => runPlans b pfx rest

def keyLt (a b : Nat × σ) : Bool := decide (a.1 < b.1)

/-- `if has_msgstr: d = …; d.dst_fmt = self.check_string(ctx, message, message.msgstr); strings += [d]` -/
def msgstrPlan {σ F : Type} (b : Backend σ F) (ctx : Ctx) (msg : Msg σ) (f0 : Option F) :
    Except Py.Exc (List TagCall × List (Plan F)) :=
  if b.truthy msg.msgstr then
    match checkString b ctx msg msg.msgstr with
    | .error e => .error e
    | .ok (tg, dst) => .ok (tg, [{ srcLoc := "msgid".toList, src := f0, dstLoc := "msgstr".toList, dst := dst, omittedOk := false }])
  else .ok ([], [])

/-- `if has_msgstr_plural and ctx.plural_preimage: for i, s in sorted(message.msgstr_plural.items()): …` -/
def msgstrPluralPlans {σ F : Type} (b : Backend σ F) (ctx : Ctx) (msg : Msg σ) (fl : Flags) (f0 f1 : Option F) :
    Except Py.Exc (List TagCall × List (Plan F)) :=
  match ctx.preimage with
  | some (q :: pre) =>
    if msg.msgstrPlural.any (fun p => b.truthy p.2) then pluralPlans b ctx msg fl f0 f1 (q :: pre) (sortBy keyLt msg.msgstrPlural)
    else .ok ([], [])
  | _ => .ok ([], [])                                        -- `ctx.plural_preimage` is None or empty

/-- the part of `check_message` after `check_msgids`: translations -/
def checkTranslations {σ F : Type} (b : Backend σ F) (ctx : Ctx) (msg : Msg σ) (fl : Flags) (f0 f1 : Option F) :
    Except Py.Exc (List TagCall) :=
  if fl.fuzzy then .ok []
  else if !ctx.hasEncoding then .ok []
  else
    match msgstrPlan b ctx msg f0 with
    | .error e => .error e
    | .ok (tg1, plans1) =>
      match msgstrPluralPlans b ctx msg fl f0 f1 with
      | .error e => .error e
      | .ok (tg2, plans2) =>
        match runPlans b msg.pfx (plans1 ++ plans2) with
        | .error e => .error e
        | .ok t => .ok (tg1 ++ tg2 ++ t)

/-- `msgid_fmts.get(1)`: the second round of `for i, s in enumerate(msgids)`, if there is a `msgid_plural` -/
def pluralMsgidFmt {σ F : Type} (b : Backend σ F) (ctx : Ctx) (msg : Msg σ) : Except Py.Exc (Option (List TagCall × Option F)) :=
  match msg.msgidPlural with
  | none => .ok (some ([], none))
  | some s => msgidFmt b ctx msg s

/-- `if ctx.is_template and (len(msgid_fmts) == 2): self.check_args(message, 'msgid_plural', msgid_fmts[1], 'msgid', msgid_fmts[0], omitted_int_conv_ok=True)` -/
def templateArgs {σ F : Type} (b : Backend σ F) (ctx : Ctx) (msg : Msg σ) (f0 f1 : Option F) : Except Py.Exc (List TagCall) :=
  match ctx.isTemplate, f0, f1 with
  | true, some a, some c => b.checkArgs msg.pfx "msgid_plural".toList c "msgid".toList a true
  | _, _, _ => .ok []

/-- `Checker.check_message(ctx, message, flags)` -/
def checkMessage {σ F : Type} (b : Backend σ F) (ctx : Ctx) (msg : Msg σ) (fl : Flags) : Except Py.Exc (List TagCall) :=
  match msgidFmt b ctx msg msg.msgid with
  | .error e => .error e
  | .ok none => .ok []
  | .ok (some (tg0, f0)) =>
    match pluralMsgidFmt b ctx msg with
    | .error e => .error e
    | .ok none => .ok []
    | .ok (some (tg1, f1)) =>
      match templateArgs b ctx msg f0 f1 with
      | .error e => .error e
      | .ok tg2 =>
        let tg3 := b.checkMsgids msg.repr f0
        match checkTranslations b ctx msg fl f0 f1 with
        | .error e => .error e
        | .ok tg4 => .ok (tg0 ++ tg1 ++ tg2 ++ tg3 ++ tg4)

/-! ## `Checker._check_message_formats`: dispatch on the format flags -/

/-- a message as one back end sees it -/
inductive KMsg where
  | c (m : Msg (List Char))
  | python (m : Msg (List Char))
  | pyBrace (m : Msg (BraceStr PyBraceSig))
  | perlBrace (m : Msg (BraceStr PerlBraceSig))
  /-- the brace kinds given as raw strings (the model parses them itself) -/
  | pyBraceStr (m : Msg (List Char))
  | perlBraceStr (m : Msg (List Char))
  /-- a format without a checker (`except KeyError: continue`) -/
  | other

def KMsg.check (ctx : Ctx) (fl : Flags) : KMsg → Except Py.Exc (List TagCall)
  | .c m => checkMessage cBackend ctx m fl
  | .python m => checkMessage pyBackend ctx m fl
  | .pyBrace m => checkMessage pyBraceBackend ctx m fl
  | .perlBrace m => checkMessage perlBraceBackend ctx m fl
  | .pyBraceStr m => checkMessage pyBraceStrBackend ctx m fl
  | .perlBraceStr m => checkMessage perlBraceStrBackend ctx m fl
  | .other => .ok []

/-- the keys of `self._message_format_checkers` -/
def checkerNames : List (List Char) := ["c".toList, "perl-brace".toList, "python".toList, "python-brace".toList]

def runAll (ctx : Ctx) (fl : Flags) : List (List Char × KMsg) → Except Py.Exc (List TagCall)
  | [] => .ok []
  | (name, m) :: rest =>
    if checkerNames.contains name then
      match m.check ctx fl with
      | .error e => .error e
      | .ok t =>
        match runAll ctx fl rest with
        | .error e => .error e
        | .ok ts => .ok (t ++ ts)
    else runAll ctx fl rest

def nameLt (a b : List Char × KMsg) : Bool := strLt a.1 b.1

/-- `for fmt in sorted(flags.formats): checker = self._message_format_checkers[fmt] …; checker.check_message(ctx, message, flags)` -/
def checkFormats (ctx : Ctx) (fl : Flags) (formats : List (List Char × KMsg)) : Except Py.Exc (List TagCall) :=
  runAll ctx fl (sortBy nameLt formats)

/-- `ctx.plural_preimage` as `check_plurals` leaves it for a catalog with the given `Plural-Forms` field(s) -/
def preimageOfHeader (isTemplate : Bool) (pluralForms : List (List Char)) : Option CheckPlurals.Preimage :=
  match CheckPlurals.checkPlurals ⟨pluralForms, none, [], [], isTemplate⟩ with
  | .ok out => out.preimage
  | .error _ => none

end I18n.FmtCheck
