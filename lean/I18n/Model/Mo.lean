import I18n.Model.MoKit
/-
Model of `lib/moparser.py` (`Parser.__init__/_parse/_read_ints/_parse_entry`) and of the part of
`lib/check/__init__.py: Checker.check` that loads an MO file and maps the loader's exceptions to tags.
Core Lean only.  The primitives (error type, codec parameter, `slice`, `unpack`, `split`, `bytesLt`, `findCharset`,
`Entry`, …) live in `I18n/Model/MoKit.lean` and are shared with the definitions regenerated from the source
(`I18n/Generated/MoParser.lean`; `Props/C08Tie.lean` proves the two equal).  The model follows the Python statement by statement; Python's partial operations
(`struct.unpack` on a slice of the wrong size, tuple unpacking, `bytes < None`, `assert`) are explicit
`Err.crash` outcomes, so "cannot happen" is a theorem (Props/C09 `parse_total_closed`), not a modelling choice.

Text decoding is a parameter (`CodecDB`): the model never looks inside a codec.
-/
namespace I18n.Mo

/-- `Parser._read_ints` -/
def readInts (be : Bool) (view : Bytes) (at_ n : Nat) : Except Err (List Nat) :=
  let begin_ := at_
  let end_ := at_ + 4 * n
  if end_ > view.length then .error (.syntax .truncated)
  else unpack be n (slice view begin_ end_)

/-- `[x] = self._read_ints(at=…)` -/
def read1 (be : Bool) (view : Bytes) (at_ : Nat) : Except Err Nat :=
  match readInts be view at_ 1 with
  | .ok [w] => .ok w
  | .ok _ => .error (.crash .unpackValueError)
  | .error e => .error e

/-- `[x, y] = self._read_ints(at=…, n=2)` -/
def read2 (be : Bool) (view : Bytes) (at_ : Nat) : Except Err (Nat × Nat) :=
  match readInts be view at_ 2 with
  | .ok [v, w] => .ok (v, w)
  | .ok _ => .error (.crash .unpackValueError)
  | .error e => .error e

/-- `msgids == self._last_msgid`: a `list` compared with a `bytes` object — never equal.
    (This is the "duplicate message definition" test exactly as written: it is inert.) -/
def pyListEqBytes (_ : List Bytes) (_ : Bytes) : Bool := false

/-- lines 134–148: which encoding the first entry selects -/
def selectEncoding (db : CodecDB) (encoding : Option Bytes) (msgid msgstr : Bytes) : Bytes :=
  let encoding :=
    if encoding.isNone && msgid.isEmpty then
      match findCharset msgstr with
      | some name => if name.all (· < 128) then some name else none   -- `.decode('ASCII')`; UnicodeError: pass
      | none => none
    else encoding
  match encoding with
  | none => asciiName
  | some e => if db.asciiCompatible e then e else asciiName

/-- lines 155–170.  `*msgctxt, msgid = msgid.split(b'\x04', 1)`: the part AFTER the first EOT (the whole key
    when there is none) is bound to `msgid`, the part before it to `msgctxt`; `msgid` is decoded first. -/
def buildEntry (db : CodecDB) (enc : Bytes) (msgids : List Bytes) (msgstr : Bytes) (msgstrs : List Bytes) :
    Except Err Entry :=
  let parts := split 4 1 (msgids.headD [])
  match dec db enc (parts.getLastD []) with
  | .error e => .error e
  | .ok msgid =>
    let ctxt : Except Err (Option Text) :=
      match parts.dropLast with
      | [] => .ok none
      | [c] =>
        match dec db enc c with
        | .error e => .error e
        | .ok t => .ok (some t)
      | _ => .error (.crash .unpackValueError)     -- `[msgctxt] = msgctxt`
    match ctxt with
    | .error e => .error e
    | .ok msgctxt =>
      if msgids.length = 1 then
        if [msgstr] ≠ msgstrs then .error (.crash .assertion)
        else match dec db enc msgstr with
          | .error e => .error e
          | .ok s => .ok ⟨msgid, msgctxt, .singular s⟩
      else
        if msgids.length ≠ 2 then .error (.crash .assertion)
        else if msgstrs.length < 1 then .error (.crash .assertion)
        else match dec db enc (msgids.getD 1 []) with
          | .error e => .error e
          | .ok pl =>
            match decAll db enc msgstrs with
            | .error e => .error e
            | .ok forms => .ok ⟨msgid, msgctxt, .plural pl forms⟩

/-- `self._encoding`, `self._last_msgid` -/
structure St where
  encoding : Option Bytes
  last : Option Bytes

/-- descriptor + slice + terminator probe (lines 113–119 and 124–130) -/
def readString (be : Bool) (view : Bytes) (at_ : Nat) (notTerminated : SynErr) : Except Err Bytes :=
  match read2 be view at_ with
  | .error e => .error e
  | .ok (length, offset) =>
    let s := slice view offset (offset + length)
    match view[offset + length]? with
    | none => .error (.syntax .truncated)             -- IndexError → 'truncated file'
    | some c => if c ≠ 0 then .error (.syntax notTerminated) else .ok s

/-- `Parser._parse_entry` -/
def parseEntry (db : CodecDB) (be : Bool) (view : Bytes) (st : St) (i msgidOffset msgstrOffset : Nat) :
    Except Err (Entry × St) :=
  match readString be view msgidOffset .msgidNotTerminated with
  | .error e => .error e
  | .ok msgid =>
    let msgids := split 0 2 msgid
    let msgid := msgids.headD []
    if msgids.length > 2 then .error (.syntax .msgidNul) else
    match readString be view msgstrOffset .msgstrNotTerminated with
    | .error e => .error e
    | .ok msgstr =>
      let msgstrs := splitAll 0 msgstr
      if msgids.length = 1 ∧ msgstrs.length > 1 then .error (.syntax .msgstrNul) else
      let encoding := st.encoding
      let sel : Except Err (Option Bytes × Option Bytes) :=   -- (local `encoding`, `self._encoding`)
        if i = 0 then
          let e := selectEncoding db encoding msgid msgstr
          .ok (some e, some e)
        else
          match st.last with
          | none => .error (.crash .typeError)
          | some last =>
            if pyListEqBytes msgids last then .error (.syntax .duplicate)
            else if bytesLt msgid last then .error (.syntax .notSorted)
            else .ok (encoding, st.encoding)
      match sel with
      | .error e => .error e
      | .ok (encoding, selfEncoding) =>
        match encoding with
        | none => .error (.crash .assertion)            -- `assert encoding is not None`
        | some enc =>
          match buildEntry db enc msgids msgstr msgstrs with
          | .error e => .error e
          | .ok entry => .ok (entry, ⟨selfEncoding, some msgid⟩)

/-- `for i in range(n_strings): …` (first argument: iterations left) -/
def loop (db : CodecDB) (be : Bool) (view : Bytes) (msgidOffset msgstrOffset : Nat) :
    Nat → Nat → St → Except Err (List Entry)
  | 0, _, _ => .ok []
  | k + 1, i, st =>
    match parseEntry db be view st i (msgidOffset + 8 * i) (msgstrOffset + 8 * i) with
    | .error e => .error e
    | .ok (entry, st') =>
      match loop db be view msgidOffset msgstrOffset k (i + 1) st' with
      | .error e => .error e
      | .ok es => .ok (entry :: es)

/-- `Parser._parse` after the magic test -/
def parseBody (db : CodecDB) (encoding : Option Bytes) (view : Bytes) (be : Bool) : Except Err MoFile :=
  match read1 be view 4 with
  | .error e => .error e
  | .ok revision =>
    let majorRevision := revision / 65536
    let minorRevision := revision % 65536
    if majorRevision > 1 then .error (.syntax (.major majorRevision)) else
    match read1 be view 8 with
    | .error e => .error e
    | .ok nStrings =>
      let hidden : Except Err Bool :=
        if minorRevision > 1 then .ok true
        else if minorRevision = 1 then
          match read1 be view 36 with
          | .error e => .error e
          | .ok nSysdep => .ok (decide (nSysdep > 0))
        else .ok false
      match hidden with
      | .error e => .error e
      | .ok possibleHiddenStrings =>
        match read2 be view 12 with
        | .error e => .error e
        | .ok (msgidOffset, msgstrOffset) =>
          match loop db be view msgidOffset msgstrOffset nStrings 0 ⟨encoding, none⟩ with
          | .error e => .error e
          | .ok entries => .ok ⟨entries, possibleHiddenStrings⟩

/-- `Parser(path, encoding=encoding)` on a file with contents `view` -/
def parse (db : CodecDB) (encoding : Option Bytes) (view : Bytes) : Except Err MoFile :=
  let magic := slice view 0 4
  if magic = leMagic then parseBody db encoding view false
  else if magic = beMagic then parseBody db encoding view true
  else .error (.syntax .magic)

/-! ## `Checker.check`: loading an MO file (lib/check/__init__.py:140–188) -/

inductive Tag where
  | invalidMoFile (e : SynErr)
  | brokenEncoding
  deriving DecidableEq, Repr

/-- tags emitted while loading, the loaded file (if the method goes on to the `check_*` calls) and the
    `broken_encoding` flag; `uncaught` = an exception that leaves `check()` -/
structure Load where
  tags : List Tag
  file : Option MoFile
  brokenEncoding : Bool
  uncaught : Option Err
  deriving DecidableEq, Repr

def checkerLoad (db : CodecDB) (view : Bytes) : Load :=
  match parse db none view with
  | .ok f => ⟨[], some f, false, none⟩
  | .error (.syntax e) => ⟨[.invalidMoFile e], none, false, none⟩          -- tag; return
  | .error (.crash c) => ⟨[], none, false, some (.crash c)⟩
  | .error .decode =>
    -- broken_encoding = exc; file = constructor(path, encoding='ISO-8859-1'); the `finally` clause
    -- emits broken-encoding after any handler of the outer `try` has run
    match parse db (some latin1Name) view with
    | .ok f => ⟨[.brokenEncoding], some f, true, none⟩
    | .error (.syntax e) => ⟨[.invalidMoFile e, .brokenEncoding], none, true, none⟩
    | .error e => ⟨[.brokenEncoding], none, true, some e⟩

/-- `check_messages` (lib/check/__init__.py:877–882): is `empty-file` emitted for a file in which `counted`
    messages (non-obsolete, not the header entry) were seen? -/
def emptyFileTag (isBinary : Bool) (f : MoFile) (counted : Nat) : Bool :=
  if counted = 0 then
    let possibleHiddenStrings := if isBinary then f.possibleHiddenStrings else false
    !possibleHiddenStrings
  else false

/-- the smallest codec database: only `'ASCII'` (used for concrete witnesses) -/
def asciiDB : CodecDB where
  asciiCompatible name := name == asciiName
  decode _ bs := if bs.all (· < 128) then some (bs.map fun b => Char.ofNat b.toNat) else none

end I18n.Mo
