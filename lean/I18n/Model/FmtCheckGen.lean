import I18n.Model.FmtCheck
import I18n.Generated.FmtArgs
/-!
# `check_message` over the REGENERATED `check_args`

The model of C14 (`Model/FmtCheck.lean`) with the four hand-written argument comparators replaced by the definitions that
`tools/translate/fmtargs2lean.py` regenerates from `lib/check/msgformat/*.py` (`Generated.FmtArgs.*.check_args`) and with
`get_last_integer_conversion` from `lib/strformat/c.py`.  `Props/C14Tie.lean` proves these equal to the originals; the
driver runs them in the `-generated` twin streams.  Core Lean only.
-/
namespace I18n.FmtCheck.Gen
open I18n I18n.FmtSig I18n.Generated

/-- a back end with its `check_args` replaced -/
def withArgs {σ F : Type} (b : Backend σ F)
    (f : List TagCall → Extra → Unit → List Char → F → List Char → F → Bool → Except Py.Exc (List TagCall)) : Backend σ F :=
  { b with checkArgs := fun pfx srcLoc src dstLoc dst ok => f [] pfx () srcLoc src dstLoc dst ok }

def cBackend := withArgs FmtCheck.cBackend FmtArgs.C.check_args
def pyBackend := withArgs FmtCheck.pyBackend FmtArgs.Python.check_args
def pyBraceBackend := withArgs FmtCheck.pyBraceBackend FmtArgs.PyBrace.check_args
def perlBraceBackend := withArgs FmtCheck.perlBraceBackend FmtArgs.PerlBrace.check_args
def pyBraceStrBackend := withArgs FmtCheck.pyBraceStrBackend FmtArgs.PyBrace.check_args
def perlBraceStrBackend := withArgs FmtCheck.perlBraceStrBackend FmtArgs.PerlBrace.check_args

def check (ctx : Ctx) (fl : Flags) : KMsg → Except Py.Exc (List TagCall)
  | .c m => checkMessage cBackend ctx m fl
  | .python m => checkMessage pyBackend ctx m fl
  | .pyBrace m => checkMessage pyBraceBackend ctx m fl
  | .perlBrace m => checkMessage perlBraceBackend ctx m fl
  | .pyBraceStr m => checkMessage pyBraceStrBackend ctx m fl
  | .perlBraceStr m => checkMessage perlBraceStrBackend ctx m fl
  | .other => .ok []

def runAll (ctx : Ctx) (fl : Flags) : List (List Char × KMsg) → Except Py.Exc (List TagCall)
  | [] => .ok []
  | (name, m) :: rest =>
    if checkerNames.contains name then
      match check ctx fl m with
      | .error e => .error e
      | .ok t =>
        match runAll ctx fl rest with
        | .error e => .error e
        | .ok ts => .ok (t ++ ts)
    else runAll ctx fl rest

/-- `Checker._check_message_formats` over the regenerated comparators -/
def checkFormats (ctx : Ctx) (fl : Flags) (formats : List (List Char × KMsg)) : Except Py.Exc (List TagCall) :=
  runAll ctx fl (sortBy nameLt formats)

end I18n.FmtCheck.Gen
