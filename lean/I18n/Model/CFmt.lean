import I18n.Py
import I18n.Spec.Printf
import I18n.Generated.CFormatTables
/-!
# Model of `lib/strformat/c.py` (`FormatString`, `Conversion`)

Core Lean only.  Follows the source statement by statement; Python's partial operations are explicit:
`int()` on more than `sys.get_int_max_str_digits()` digits raises `ValueError`, `assert`s that could
fire become `crash AssertionError`.

* `scanAll` stands for `_directive_re.finditer` plus the two `match.start() != last_pos` /
  `last_pos != len(s)` tests.  That it IS the first match of the live parse tree of the regex, and that the `finditer`
  loop yields this segmentation, is proved in `Props.C11Tie` (`directive_regex`, `segmentation_is_finditer`).  Informally, why a deterministic
  scanner is the same as Python's backtracking matcher here: at a `%` every optional group is followed
  by something that starts with a character the group itself cannot contain or start with
  (`[0-9]+[$]`: the `$` must be there — without the index group nothing else can consume a `$`;
  flags `[#0 +'I-]*`: what follows starts with `[1-9]`, `*`, `.`, a length/conversion letter or `<`, none
  of them a flag; width digits: followed by a non-digit; `[.]` precision `[0-9]*` tried first and `*`
  second: `*` is not a digit and not a body start; `hh?`/`ll?`: `h`, `l` are not conversions; the length
  letters are disjoint from the conversion letters; `<` is neither).  Hence a directive has at most one
  successful parse and greedy-first finds it; a literal `[^%]+` is a maximal `%`-free run.  When no
  directive matches at a `%`, `finditer` skips ahead, so the next match (or the end) does not start at
  `last_pos` and `Error` is raised — *after* all earlier conversions have been constructed, which is why
  the loop below processes the items scanned so far before reporting an incomplete scan.
* `_argument_map` (a `defaultdict(list)`) is kept as its insertion log `List (Nat × Entry)`:
  `map[n]` = the entries with key `n` in order, `not map` = empty log, `pop(i)` = remove key `i`.
* The type of a conversion is read from the table that `tools/translate/cfmt2lean.py` probes from the
  live module (`Generated.CFormatTables.typeTable`/`priTable`); flags, width, precision and index checks
  are modelled by hand, in source order, from the `_info` strings the translator dumps.
-/
namespace I18n.CFmt
open I18n.Spec.Printf (Len PriKind PriBits PriLen Body Width Prec Directive Item ArgKind Entry decimal lenName)
open I18n.Generated.CFormatTables (NL_ARGMAX INT_MAX intMaxStrDigits octCvt hexCvt decCvt floatCvt uintCvt intCvt strCvt
  typeTable priTable variableWidthType variablePrecisionType)

/-- the module's `Error` subclasses that are *raised*, plus anything else as `crash` -/
inductive CErr
  | Error | ForbiddenArgumentIndex | ArgumentRangeError | MissingArgument | ArgumentTypeMismatch
  | ArgumentNumberingMixture | LengthError | FlagError | WidthError | WidthRangeError
  | PrecisionError | PrecisionRangeError
  | crash (e : Py.Exc)
  deriving DecidableEq, Repr, Inhabited

def CErr.name : CErr → String
  | .Error => "Error" | .ForbiddenArgumentIndex => "ForbiddenArgumentIndex" | .ArgumentRangeError => "ArgumentRangeError"
  | .MissingArgument => "MissingArgument" | .ArgumentTypeMismatch => "ArgumentTypeMismatch"
  | .ArgumentNumberingMixture => "ArgumentNumberingMixture" | .LengthError => "LengthError" | .FlagError => "FlagError"
  | .WidthError => "WidthError" | .WidthRangeError => "WidthRangeError" | .PrecisionError => "PrecisionError"
  | .PrecisionRangeError => "PrecisionRangeError" | .crash e => e.name

/-- one of the module's own `Error` classes (what callers catch) -/
def CErr.own : CErr → Bool
  | .crash _ => false
  | _ => true

inductive Warn | NonPortableConversion | RedundantFlag
  deriving DecidableEq, Repr, Inhabited

def Warn.name : Warn → String
  | .NonPortableConversion => "NonPortableConversion" | .RedundantFlag => "RedundantFlag"

/-! ## `_directive_re` as a scanner -/

/-- the text of `_directive_re` (compiled with `re.VERBOSE`) that the scanner below was written against;
    (kept for the record; since `Props.C11Tie.directive_regex` the tie is to the live parse tree, not to this text) -/
def pinnedDirectiveRe : String := "\n    (?P<literal> [^%]+ ) |\n    (\n        %\n        (?P<index> [0-9]+[$] )?\n        (?P<flags> [#0 +'I-]* )\n        (?:\n            (?P<width> [1-9][0-9]* ) |\n            (?P<varwidth> [*] ) (?P<varwidth_index> [0-9]+[$] )?\n        )?\n        (?:\n            [.]\n            (?:\n                (?P<precision> [0-9]* ) |\n                (?P<varprec> [*] ) (?P<varprec_index> [0-9]+[$] )?\n            )\n        )?\n        (?:\n            (?P<length>\n                hh? | ll? | [qjzZt] | L\n            )?\n            (?P<conversion>\n                [diouxXeEfFgGaAcsCSpnm%]\n            ) |\n            < (?: PRI (?P<c99conv>[diouxX]) (?P<c99len> (?:LEAST|FAST)?(?:8|16|32|64)|MAX|PTR) ) >\n        )\n    )\n"

/-- `re.VERBOSE | re.UNICODE` -/
def pinnedDirectiveReFlags : Nat := 96

/-- longest prefix whose elements satisfy `p`, and the rest (a greedy `[class]*`) -/
def spanP {α : Type} (p : α → Bool) : List α → List α × List α
  | [] => ([], [])
  | x :: xs => if p x then ((spanP p xs).1.cons x, (spanP p xs).2) else ([], x :: xs)

/-- `[#0 +'I-]` -/
def isFlag (c : Char) : Bool :=
  c == '#' || c == '0' || c == ' ' || c == '+' || c == '\'' || c == 'I' || c == '-'

/-- `[diouxXeEfFgGaAcsCSpnm%]` -/
def isConv (c : Char) : Bool := I18n.Spec.Printf.convChars.contains c

/-- `[diouxX]` -/
def isPriConv (c : Char) : Bool := I18n.Spec.Printf.priConvChars.contains c

/-- `( [0-9]+[$] )?` -/
def scanIndex (s : List Char) : Option (List Char) × List Char :=
  match spanP Char.isDigit s with
  | (d :: ds, '$' :: rest) => (some (d :: ds), rest)
  | _ => (none, s)

/-- `(?: (?P<width> [1-9][0-9]* ) | (?P<varwidth> [*] ) (?P<varwidth_index> [0-9]+[$] )? )?` -/
def scanWidth (s : List Char) : Width × List Char :=
  match s with
  | '*' :: rest =>
    let (i, rest') := scanIndex rest
    (.star i, rest')
  | c :: _ =>
    if c.isDigit && c != '0' then
      let (ds, rest) := spanP Char.isDigit s
      (.num ds, rest)
    else (.none, s)
  | [] => (.none, s)

/-- `(?: [.] (?: (?P<precision> [0-9]* ) | (?P<varprec> [*] ) (?P<varprec_index> [0-9]+[$] )? ) )?` -/
def scanPrec (s : List Char) : Prec × List Char :=
  match s with
  | '.' :: '*' :: rest =>
    let (i, rest') := scanIndex rest
    (.star i, rest')
  | '.' :: rest =>
    let (ds, rest') := spanP Char.isDigit rest
    (.num ds, rest')
  | _ => (.none, s)

/-- `( hh? | ll? | [qjzZt] | L )?` -/
def scanLen (s : List Char) : Option Len × List Char :=
  match s with
  | 'h' :: 'h' :: r => (some .hh, r)
  | 'h' :: r => (some .h, r)
  | 'l' :: 'l' :: r => (some .ll, r)
  | 'l' :: r => (some .l, r)
  | 'q' :: r => (some .q, r)
  | 'j' :: r => (some .j, r)
  | 'z' :: r => (some .z, r)
  | 'Z' :: r => (some .Z, r)
  | 't' :: r => (some .t, r)
  | 'L' :: r => (some .L, r)
  | _ => (none, s)

/-- `(?:8|16|32|64)` -/
def scanBits (s : List Char) : Option (PriBits × List Char) :=
  match s with
  | '8' :: r => some (.b8, r)
  | '1' :: '6' :: r => some (.b16, r)
  | '3' :: '2' :: r => some (.b32, r)
  | '6' :: '4' :: r => some (.b64, r)
  | _ => none

/-- `(?:LEAST|FAST)?(?:8|16|32|64)|MAX|PTR` -/
def scanPriLen (s : List Char) : Option (PriLen × List Char) :=
  match s with
  | 'L' :: 'E' :: 'A' :: 'S' :: 'T' :: r => (scanBits r).map fun (b, r') => (.sized .least b, r')
  | 'F' :: 'A' :: 'S' :: 'T' :: r => (scanBits r).map fun (b, r') => (.sized .fast b, r')
  | 'M' :: 'A' :: 'X' :: r => some (.max, r)
  | 'P' :: 'T' :: 'R' :: r => some (.ptr, r)
  | _ => (scanBits s).map fun (b, r') => (.sized .exact b, r')

/-- `(length)? (conversion) | < PRI c99conv c99len >` -/
def scanBody (s : List Char) : Option (Body × List Char) :=
  match s with
  | '<' :: 'P' :: 'R' :: 'I' :: c :: r =>
    if isPriConv c then
      match scanPriLen r with
      | some (l, '>' :: rest) => some (.pri c l, rest)
      | _ => none
    else none
  | _ =>
    let (len, r) := scanLen s
    match r with
    | c :: rest => if isConv c then some (.std len c, rest) else none
    | [] => none

/-- one directive, the `%` already consumed -/
def scanDirective (s : List Char) : Option (Directive × List Char) :=
  let (index, s1) := scanIndex s
  let (flags, s2) := spanP isFlag s1
  let (width, s3) := scanWidth s2
  let (prec, s4) := scanPrec s3
  match scanBody s4 with
  | some (body, rest) => some ({ index, flags, width, prec, body }, rest)
  | none => none

/-- the matches `finditer` yields while they are contiguous from the start, and whether they cover the
    string.  `fuel` is a termination device only (`scan` uses the length, every match is non-empty). -/
def scanAll : Nat → List Char → List Item × Bool
  | 0, s => ([], s.isEmpty)
  | _ + 1, [] => ([], true)
  | fuel + 1, c :: cs =>
    if c == '%' then
      match scanDirective cs with
      | none => ([], false)
      | some (d, rest) =>
        let (items, complete) := scanAll fuel rest
        (.dir d :: items, complete)
    else
      let (lit, rest) := spanP (fun x => x != '%') (c :: cs)
      let (items, complete) := scanAll fuel rest
      (.lit lit :: items, complete)

def scan (s : List Char) : List Item × Bool := scanAll s.length s

/-! ## `FormatString` state -/

structure St where
  /-- `_next_arg_index`; `none` = `None` (numbered arguments in use) -/
  next : Option Nat
  /-- `_argument_map` as an insertion log -/
  map : List (Nat × Entry)
  /-- `len(self._items)` -/
  nitems : Nat
  warnings : List Warn
  deriving Repr

def St.init : St := { next := some 1, map := [], nitems := 0, warnings := [] }

/-- `parent.warn(...)`; `w = false` is the same code with the warnings dropped (`warnings_inert`) -/
def warn (w : Bool) (st : St) (x : Warn) : St :=
  if w then { st with warnings := st.warnings ++ [x] } else st

/-- `add_argument` with the callers' `except IndexError → ArgumentNumberingMixture`,
    `except OverflowError → ArgumentRangeError` applied. -/
def addArgument (st : St) (n : Option Nat) (value : Entry) : Except CErr St :=
  -- `if self._argument_map is None: raise RuntimeError`: only set to None after the scan
  match n with
  | none =>
    match st.next with
    | none => .error .ArgumentNumberingMixture                -- IndexError
    | some k =>
      -- n = self._next_arg_index; self._next_arg_index += 1
      if k > NL_ARGMAX then .error .ArgumentRangeError        -- OverflowError(n)
      else .ok { st with next := some (k + 1), map := st.map ++ [(k, value)] }
  | some n =>
    match st.next with
    | none =>
      if n > NL_ARGMAX then .error .ArgumentRangeError
      else .ok { st with map := st.map ++ [(n, value)] }
    | some k =>
      if k == 1 then
        -- assert not self._argument_map
        if !st.map.isEmpty then .error (.crash .AssertionError)
        else if n > NL_ARGMAX then .error .ArgumentRangeError
        else .ok { st with next := none, map := st.map ++ [(n, value)] }
      else .error .ArgumentNumberingMixture                   -- IndexError

/-! ## `Conversion.__init__` -/

/-- CPython's `int()` refuses a decimal string of more than `sys.get_int_max_str_digits()` digits - unless that limit
    is 0 (= no limit; what lib/__init__.py sets since the `fix:` commit 871d4d7). -/
def IntFits (n : Nat) : Prop := intMaxStrDigits = 0 ∨ n ≤ intMaxStrDigits

instance : DecidablePred IntFits := fun n => by unfold IntFits; infer_instance

/-- Python `int(s)` on a string of ASCII digits -/
def pyInt (ds : List Char) : Except CErr Nat :=
  if IntFits ds.length then .ok (decimal ds) else .error (.crash .ValueError)

/-- `n = int(x.rstrip('$')); if not (0 < n <= NL_ARGMAX): raise ArgumentRangeError` -/
def argIndex (ds : List Char) : Except CErr Nat :=
  match pyInt ds with
  | .error e => .error e
  | .ok n => if 0 < n && n ≤ NL_ARGMAX then .ok n else .error .ArgumentRangeError

def optIndex : Option (List Char) → Except CErr (Option Nat)
  | none => .ok none
  | some ds =>
    match argIndex ds with
    | .error e => .error e
    | .ok n => .ok (some n)

/-- type, `integer`, whether NonPortableConversion is warned — from the probed tables -/
def typeInfo (b : Body) : Except CErr (String × Bool × Bool) :=
  match b with
  | .std len conv =>
    match typeTable.lookup (lenName len, conv) with
    | none => .error (.crash .AssertionError)        -- `assert False  # should not happen`
    | some (none, _, _) => .error .LengthError       -- `if tp is None: raise LengthError`
    | some (some tp, integer, np) => .ok (tp, integer, np)
  | .pri conv len =>
    match priTable.lookup (conv, len.name) with
    | none => .error (.crash .AssertionError)
    | some tp => .ok (tp, true, false)

/-- the error, if any, of one round of `for flag, count in flags.items()` -/
def flagErr (flag conv : Char) : Option CErr :=
  if conv == 'n' then some .FlagError
  else if flag == '#' then
    if (octCvt ++ hexCvt ++ floatCvt).contains conv then none else some .FlagError
  else if flag == '0' then
    if (intCvt ++ floatCvt).contains conv then none else some .FlagError
  else if flag == '\'' then
    if decCvt.contains conv then none else some .FlagError
  else if conv == '%' then some .FlagError
  else if flag == '-' || flag == ' ' || flag == '+' || flag == 'I' then none
  else some (.crash .AssertionError)                 -- `assert flag in {'-', ' ', '+', 'I'}`

/-- keys of `collections.Counter(flags)` in iteration (= first occurrence) order -/
def distinct : List Char → List Char
  | [] => []
  | c :: cs => c :: (distinct cs).filter (fun x => x != c)

def flagLoop (w : Bool) (flags : List Char) (conv : Char) : List Char → St → Except CErr St
  | [], st => .ok st
  | flag :: more, st =>
    let st := if flags.count flag != 1 then warn w st .RedundantFlag else st
    match flagErr flag conv with
    | some e => .error e
    | none => flagLoop w flags conv more st

def checkFlags (w : Bool) (st : St) (flags : List Char) (conv : Char) : Except CErr St :=
  match flagLoop w flags conv (distinct flags) st with
  | .error e => .error e
  | .ok st =>
    -- for f1, f2 in [('-', '0'), ('+', ' ')]: if (f1 in flags) and (f2 in flags): warn
    let st := if flags.contains '-' && flags.contains '0' then warn w st .RedundantFlag else st
    let st := if flags.contains '+' && flags.contains ' ' then warn w st .RedundantFlag else st
    .ok st

def doWidth (st : St) (width : Width) (conv : Char) (parent : Nat) : Except CErr St :=
  match width with
  | .none => .ok st
  | .num ds =>
    match pyInt ds with
    | .error e => .error e
    | .ok v =>
      if v > INT_MAX then .error .WidthRangeError
      else if conv == '%' || conv == 'n' then .error .WidthError
      else .ok st
  | .star idx =>
    match optIndex idx with
    | .error e => .error e
    | .ok i =>
      match addArgument st i ⟨.width, variableWidthType, parent⟩ with
      | .error e => .error e
      | .ok st => if conv == '%' || conv == 'n' then .error .WidthError else .ok st

def doPrec (w : Bool) (st : St) (prec : Prec) (flags : List Char) (conv : Char) (parent : Nat) : Except CErr St :=
  let tail (st : St) : Except CErr St :=
    if (intCvt ++ floatCvt ++ strCvt).contains conv then
      .ok (if intCvt.contains conv && flags.contains '0' then warn w st .RedundantFlag else st)
    else .error .PrecisionError
  match prec with
  | .none => .ok st
  | .num ds =>
    match pyInt (if ds.isEmpty then ['0'] else ds) with       -- int(precision or '0')
    | .error e => .error e
    | .ok v => if v > INT_MAX then .error .PrecisionRangeError else tail st
  | .star idx =>
    match optIndex idx with
    | .error e => .error e
    | .ok i =>
      match addArgument st i ⟨.prec, variablePrecisionType, parent⟩ with
      | .error e => .error e
      | .ok st => tail st

def doIndex (st : St) (index : Option (List Char)) (tp : String) (conv : Char) (parent : Nat) : Except CErr St :=
  match optIndex index with
  | .error e => .error e
  | .ok i =>
    if tp == "void" then
      if i.isSome && conv == '%' then .error .ForbiddenArgumentIndex else .ok st
    else addArgument st i ⟨.conv, tp, parent⟩

/-- `Conversion(parent, match)` -/
def conversion (w : Bool) (st : St) (d : Directive) : Except CErr St :=
  match typeInfo d.body with
  | .error e => .error e
  | .ok (tp, _integer, np) =>
    let conv := d.body.conv
    let st := if np then warn w st .NonPortableConversion else st
    match checkFlags w st d.flags conv with
    | .error e => .error e
    | .ok st =>
      match doWidth st d.width conv st.nitems with
      | .error e => .error e
      | .ok st =>
        match doPrec w st d.prec d.flags conv st.nitems with
        | .error e => .error e
        | .ok st => doIndex st d.index tp conv st.nitems

/-! ## `FormatString.__init__` -/

/-- the body of `for match in _directive_re.finditer(s)` for one contiguous match -/
def step (w : Bool) (st : St) : Item → Except CErr St
  | .lit _ => .ok { st with nitems := st.nitems + 1 }
  | .dir d =>
    match conversion w st d with
    | .error e => .error e
    | .ok st => .ok { st with nitems := st.nitems + 1 }

def steps (w : Bool) : List Item → St → Except CErr St
  | [], st => .ok st
  | it :: rest, st =>
    match step w st it with
    | .error e => .error e
    | .ok st => steps w rest st

/-- `for i in range(1, NL_ARGMAX + 1): …` from `i` on with `fuel` iterations left, then `assert not map` -/
def collect : Nat → Nat → List (Nat × Entry) → Except CErr (List (List Entry))
  | 0, _, log => if log.isEmpty then .ok [] else .error (.crash .AssertionError)
  | fuel + 1, i, log =>
    if log.isEmpty then .ok []                        -- if not self._argument_map: break
    else
      match log.filter (fun p => p.1 == i) with
      | [] => .error .MissingArgument                 -- KeyError
      | g :: gs =>
        match collect fuel (i + 1) (log.filter (fun p => p.1 != i)) with
        | .error e => .error e
        | .ok args => .ok ((g :: gs).map (·.2) :: args)

/-- `types = frozenset(a.type for a in args); if len(types) > 1: raise ArgumentTypeMismatch` -/
def sameType : List Entry → Bool
  | [] => true
  | e :: es => es.all (fun e' => e'.type == e.type)

structure Result where
  /-- `.arguments` -/
  arguments : List (List Entry)
  warnings : List Warn
  nitems : Nat
  deriving Repr

def parseW (w : Bool) (s : List Char) : Except CErr Result :=
  let (items, complete) := scan s
  match steps w items St.init with
  | .error e => .error e
  | .ok st =>
    if !complete then .error .Error
    else
      match collect NL_ARGMAX 1 st.map with
      | .error e => .error e
      | .ok args =>
        if args.all sameType then .ok { arguments := args, warnings := st.warnings, nitems := st.nitems }
        else .error .ArgumentTypeMismatch

/-- `FormatString(s)` -/
def parse (s : List Char) : Except CErr Result := parseW true s

/-- per item: `none` for a literal, `some (type, integer)` for a conversion (for the clients of the parser) -/
def itemInfo : Item → Option (String × Bool)
  | .lit _ => none
  | .dir d =>
    match typeInfo d.body with
    | .ok (tp, integer, _) => some (tp, integer)
    | .error _ => none

end I18n.CFmt
