import I18n.Model.PluralParse
import I18n.Generated.PluralLR
/-
Model of what the tool really runs to parse a plural expression: rply's table-driven `LRParser.parse`
(rply/parser.py) over the LALR tables that `ParserGenerator.build()` produced for lib/intexpr.py's grammar, with
the grammar's action functions (`expr_ifelse`, `expr_bool`, … lib/intexpr.py:91-137) as reductions.

The tables are NOT written here: `Generated/PluralLR.lean` is dumped from the live parser object on every run
(states renamed breadth-first, which the driver cannot observe).  Hand-written, statement by statement:

* `step`/`run`   — the `while True` loop of `LRParser.parse`: default reduction first; else fetch the lookahead
                   (`$end` once the token stream is exhausted); no table entry → `ParsingError`; `t > 0` shift;
                   `t < 0` reduce; `t == 0` return the top of the symbol stack;
* `reduce`       — `_reduce_production`: pop `len(p)` symbols and states, call the action on the popped symbols,
                   push the result and `lr_goto[statestack[-1]][p.name]`;
* `applyAction`  — the action functions.  Python is untyped; the model's symbol values are typed (`Val`), and an
                   action applied to symbols of an unexpected shape yields `crash` (in Python: ValueError/KeyError/
                   a malformed AST).  Likewise a missing table row, a missing goto entry, popping the bottom marker.
* `lrParse`      — `intexpr.Parser.parse` on an already tokenised input; `parse` — `gettext.parse_plural_expression`
                   (lexer model of `PluralParse`, then the LR driver; LexingError and ParsingError are one outcome).
-/
namespace I18n.PluralLR
open I18n I18n.PluralParse

/-- the grammar's action functions, by the name dumped with each production -/
inductive Action where
  | none | evalStart | ifelse | bool | cmp | arithmetic | not | par | var | int
  deriving DecidableEq, Repr, Inhabited

def Action.ofName : String → Option Action
  | "" => some .none
  | "eval_start" => some .evalStart
  | "expr_ifelse" => some .ifelse
  | "expr_bool" => some .bool
  | "expr_cmp" => some .cmp
  | "expr_arithmetic" => some .arithmetic
  | "expr_not" => some .not
  | "expr_par" => some .par
  | "expr_var" => some .var
  | "expr_int" => some .int
  | _ => Option.none

/-- a production, resolved: index of the left-hand side among the goto columns, length of the right-hand side, action -/
structure Prod where
  lhs : Nat
  len : Nat
  act : Action
  deriving DecidableEq, Repr, Inhabited

structure Tables where
  action : List (List (Option Int))
  goto : List (List (Option Nat))
  defaultReductions : List Int
  prods : List Prod
  deriving DecidableEq, Repr

def resolveProd (nonterminals : List String) (p : String × List String × String) : Option Prod :=
  match Action.ofName p.2.2 with
  | some a => some ⟨nonterminals.idxOf p.1, p.2.1.length, a⟩
  | none => Option.none

/-- the dumped tables, with the productions resolved (`none`: an action function the model does not know) -/
def tables : Option Tables :=
  match Generated.PluralLR.productions.mapM (resolveProd Generated.PluralLR.nonterminals) with
  | some ps => some ⟨Generated.PluralLR.action, Generated.PluralLR.goto, Generated.PluralLR.defaultReductions, ps⟩
  | none => Option.none

/-- column of a lookahead in the action table: the rply token name of each token, in the lexer's declaration
    order (`Generated.PluralLR.terminals`, pinned by `Props.C04.lr_columns_pin`); `none` = `$end` -/
def col : Option Tok → Nat
  | some .qm => 0
  | some .colon => 1
  | some (.bool .or) => 2
  | some (.bool .and) => 3
  | some (.cmp .eq) => 4
  | some (.cmp .noteq) => 4
  | some (.cmp _) => 5
  | some (.bin .add) => 6
  | some (.bin .sub) => 6
  | some (.bin _) => 7
  | some .not => 8
  | some .lpar => 9
  | some .rpar => 10
  | some .var => 11
  | some (.int _) => 12
  | none => 13

/-- the names `col` stands for -/
def colNames : List String :=
  ["IF", "ELSE", "OR", "AND", "EQ", "CMP", "ADDSUB", "MULDIV", "NOT", "LPAR", "RPAR", "VAR", "INT", "$end"]

/-- values on the symbol stack -/
inductive Val where
  | bottom                 -- `Token("$end", "$end")` that `parse` starts with
  | tok (t : Tok)
  | node (e : Expr)        -- an `ast` expression node
  | expr (e : Expr)        -- `ast.Expr(e)`, built by `eval_start`
  deriving DecidableEq, Repr, Inhabited

def applyAction : Action → List Val → Option Val
  | .evalStart, [.node e] => some (.expr e)
  | .ifelse, [.node c, .tok .qm, .node a, .tok .colon, .node b] => some (.node (.ifexp c a b))
  | .bool, [.node l, .tok (.bool op), .node r] => some (.node (.boolop op l r))
  | .cmp, [.node l, .tok (.cmp op), .node r] => some (.node (.compare l op r))
  | .arithmetic, [.node l, .tok (.bin op), .node r] => some (.node (.binop l op r))
  | .not, [.tok .not, .node v] => some (.node (.unaryop .not v))
  | .par, [.tok .lpar, .node e, .tok .rpar] => some (.node e)
  | .var, [.tok .var] => some (.node .name)
  | .int, [.tok (.int n)] => some (.node (.num n))
  | _, _ => none

/-- state stack and symbol stack, zipped, top first; the unread tokens -/
structure Config where
  stack : List (Nat × Val)
  rest : List Tok
  deriving DecidableEq, Repr

inductive Outcome where
  | next (c : Config)
  | accept (v : Val)
  | parsingError
  | crash
  deriving DecidableEq, Repr

def Tables.defaultRed (T : Tables) (s : Nat) : Option Int := T.defaultReductions[s]?

def Tables.actionAt (T : Tables) (s c : Nat) : Option (Option Int) :=
  match T.action[s]? with
  | some row => row[c]?
  | none => none

def Tables.gotoAt (T : Tables) (s nt : Nat) : Option Nat :=
  match T.goto[s]? with
  | some row => (row[nt]?).join
  | none => none

/-- `_reduce_production` -/
def reduce (T : Tables) (p : Nat) (c : Config) : Outcome :=
  match T.prods[p]? with
  | none => .crash
  | some pr =>
    if c.stack.length ≤ pr.len then .crash              -- `assert start >= 0`
    else
      match applyAction pr.act ((c.stack.take pr.len).reverse.map (·.2)) with
      | none => .crash
      | some v =>
        match c.stack.drop pr.len with
        | [] => .crash
        | (s, u) :: below =>
          match T.gotoAt s pr.lhs with
          | none => .crash                              -- KeyError
          | some s' => .next ⟨(s', v) :: (s, u) :: below, c.rest⟩

/-- one turn of the `while True` loop -/
def step (T : Tables) (c : Config) : Outcome :=
  match c.stack with
  | [] => .crash
  | (s, _) :: _ =>
    match T.defaultRed s with
    | none => .crash
    | some d =>
      if d ≠ 0 then reduce T (-d).toNat c
      else
        match T.actionAt s (col c.rest.head?) with
        | none => .crash
        | some none => .parsingError
        | some (some t) =>
          if t > 0 then
            match c.rest with
            | [] => .crash                              -- shifting `$end` (no table does that)
            | tok :: rest => .next ⟨(t.toNat, .tok tok) :: c.stack, rest⟩
          else if t < 0 then reduce T (-t).toNat c
          else
            match c.stack with
            | (_, v) :: _ => .accept v
            | [] => .crash

inductive Result where
  | ok (e : Expr)
  | syntaxError
  | crash
  deriving DecidableEq, Repr

def run (T : Tables) : Nat → Config → Result
  | 0, _ => .crash
  | f + 1, c =>
    match step T c with
    | .next c' => run T f c'
    | .accept (.expr e) => .ok e
    | .accept _ => .crash                               -- `assert isinstance(node, ast.Expr)`
    | .parsingError => .syntaxError
    | .crash => .crash

/-- every turn shifts a token or reduces, and a token takes part in one reduction: `2 * length + 3` turns at most -/
def fuelFor (ts : List Tok) : Nat := 2 * ts.length + 4

def lrParseWith (T : Tables) (ts : List Tok) : Result := run T (fuelFor ts) ⟨[(0, .bottom)], ts⟩

def lrParse (ts : List Tok) : Result :=
  match tables with
  | some T => lrParseWith T ts
  | none => .crash

/-- `gettext.parse_plural_expression` with the LR driver in the place of the recursive-descent model -/
def parse (s : List Char) : PluralParse.ParseResult ⊕ Unit :=
  match PluralParse.lex s with
  | .syntaxError => .inl .syntaxError
  | .valueError => .inl .valueError
  | .ok ts =>
    match lrParse ts with
    | .ok e => .inl (.ok e)
    | .syntaxError => .inl .syntaxError
    | .crash => .inr ()

end I18n.PluralLR
