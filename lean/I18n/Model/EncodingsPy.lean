import I18n.Model.Charset
import I18n.Model.CharsetPy
/-!
# The Python kit the regenerated `lib/encodings.py` targets (`tools/translate/encodings2lean.py` → `Generated/EncodingsFn.lean`)

One Lean function per Python operation the classification functions, the loaders' `decode`, the codec search function and
`charmap_encoding` use.  Core Lean only.  What the kit fixes — the trusted base of the second part of `Props/C20Tie.lean`:

* **str** is a list of code points (`Charset.Name`), `bytes` a list of `UInt8` (`_interesting_ascii_bytes`: code points below 128,
  the same list as a str after `.decode()`); `.lower()` / `.upper()` are `Charset.lower` / `upper` (ASCII letters: the names the
  streams carry are ASCII, see DESIGN-notes/charset.md); `s.startswith(p)` is `p.isPrefixOf s`, `s[n:]` `s.drop n`, `a + b` `a ++ b`.
* **the module's tables** are parameters: `_portable_encodings` as (key, value is not None), `_pycodec_to_encoding`,
  `_extra_encodings`, `_unmangle_encoding` as association lists / lists in the model's representation.  A value of
  `_portable_encodings` is `None` or a codec (`PVal`); `.get(k, None)` / `.get(k, False)` keep the default apart (`PVal.false_`).
* **the codec registry** is a parameter: `codecs.lookup(name)` yields the codec's `.name` or LookupError; a `CodecInfo` is its name.
* **`bytes.decode(encoding)`** is a parameter: on `_interesting_ascii_bytes` an outcome `Generated.Charset.Dec` (str, bytes on PyPy,
  UnicodeDecodeError, LookupError, anything else), on loader data a `Charset.RawDecode`.
* **files**: `open(os.path.join(paths.datadir, 'charmaps', NAME), 'rb')` is a parameter `NAME ↦ the text the file's bytes decode to as
  UTF-8` (`none`: FileNotFoundError); `file.read()` followed by `.decode('UTF-8')` yields that text (the shipped files are valid UTF-8:
  the table translator `charset2lean.py` decodes them the same way).
* `codecs.charmap_build(t)` is the model's `encLookup t`; a charmap `CodecInfo` is the record `Codec.charmap`; the nested `encode` /
  `decode` closures must be `codecs.charmap_encode(input, errors, encoding_table)` / `codecs.charmap_decode(input, errors,
  decoding_table)` (checked by the translator), whose `errors='strict'` behaviour is the model's `charmapEncodeFrom` / `charmapDecode`.
-/
namespace I18n.Charset.EPy
open I18n I18n.Charset I18n.Generated.Charset

inductive Exn where
  | lookup                       -- LookupError from the registry / bytes.decode
  | key                          -- KeyError (a LookupError)
  | encodingLookup               -- lib.encodings.EncodingLookupError (a LookupError)
  | unicodeDecode (s e : Int)    -- UnicodeDecodeError(…, start, end, …)
  | unicodeError                 -- a bare UnicodeError
  | runtime                      -- RuntimeError
  | assertion
  | dataIntegrity                -- misc.DataIntegrityError
  | fileNotFound                 -- FileNotFoundError from open()
  | other                        -- any other exception of the environment
  deriving DecidableEq, Repr

def Exn.isLookupError : Exn → Bool
  | .lookup | .key | .encodingLookup => true
  | _ => false
def Exn.isKeyError : Exn → Bool
  | .key => true
  | _ => false
def Exn.isEncodingLookupError : Exn → Bool
  | .encodingLookup => true
  | _ => false
def Exn.isUnicodeDecodeError : Exn → Bool
  | .unicodeDecode _ _ => true
  | _ => false
def Exn.isUnicodeError : Exn → Bool
  | .unicodeDecode _ _ | .unicodeError => true
  | _ => false
def Exn.isFileNotFound : Exn → Bool
  | .fileNotFound => true
  | _ => false
/-- `except Exception` -/
def Exn.isException : Exn → Bool := fun _ => true

def lit (s : String) : Name := s.toList.map Char.toNat

/-- a value of `_portable_encodings` / a `.get` default -/
inductive PVal where
  | none | codec | false_
  deriving DecidableEq, Repr

def PVal.ofBool : Bool → PVal
  | true => .codec
  | false => .none

/-- `_portable_encodings.get(k, default)` -/
def tableGet (tbl : List (Name × Bool)) (k : Name) (default : PVal) : PVal :=
  match assoc? k tbl with
  | some v => PVal.ofBool v
  | Option.none => default

/-- `k in _portable_encodings` -/
def tableHas (tbl : List (Name × Bool)) (k : Name) : Bool := (assoc? k tbl).isSome

/-- `d.get(k, default)` on a str → str dict -/
def dictGetD (d : List (Name × Name)) (k default : Name) : Name := (assoc? k d).getD default

/-- `d[k]` on a str → str dict -/
def dictIndex (d : List (Name × Name)) (k : Name) : Except Exn Name :=
  match assoc? k d with
  | some v => .ok v
  | Option.none => .error .key

/-- `codecs.lookup(name)`: the codec, known by its `.name` -/
def codecsLookup (registry : Name → Option Name) (name : Name) : Except Exn Name :=
  match registry name with
  | some c => .ok c
  | Option.none => .error .lookup

/-- what `bytes.decode` returned: a str, or (PyPy, non-text codecs) bytes -/
inductive StrOrBytes where
  | str (cs : List Nat)
  | bytes
  deriving DecidableEq, Repr

/-- `isinstance(v, bytes)` -/
def StrOrBytes.isBytes : StrOrBytes → Bool
  | .bytes => true
  | .str _ => false

/-- `v == s` for a str `s` -/
def StrOrBytes.eqStr (v : StrOrBytes) (s : List Nat) : Bool := v == .str s

/-- `_interesting_ascii_bytes.decode(encoding)` given its outcome -/
def decodeAscii (dec : List Nat → Name → Dec) (data : List Nat) (encoding : Name) : Except Exn StrOrBytes :=
  match dec data encoding with
  | .text cs => .ok (.str cs)
  | .notstr => .ok .bytes
  | .ude => .error (.unicodeDecode 0 0)
  | .lookup => .error .lookup
  | .other => .error .other

/-- `data.decode(encoding)` of a loader, given its outcome -/
def decodeRaw (dec : List UInt8 → Name → RawDecode) (data : List UInt8) (encoding : Name) : Except Exn (List Nat) :=
  match dec data encoding with
  | .text cs => .ok cs
  | .ude s e => .error (.unicodeDecode s e)
  | .unicodeError => .error .unicodeError
  | .other => .error .other

/-- a `codecs.CodecInfo` made by `charmap_encoding` / `iconv_encoding` -/
inductive Codec where
  | charmap (name : Name) (decodingTable : List Nat) (encodingTable : Nat → Option UInt8)
  | iconv (name : Name)

/-- `open(os.path.join(paths.datadir, 'charmaps', name), 'rb')` then `.read()`: the file, known by the text it holds -/
def openCharmap (files : Name → Option (List Nat)) (name : Name) : Option (List Nat) := files name

/-- the outcome for the driver / the model's vocabulary -/
def searchOf : Option Codec → Search
  | Option.none => .notOurs
  | some (.charmap n _ _) => .charmap (upper n)      -- the file served is data/charmaps/<NAME.upper()>
  | some (.iconv n) => .iconv n

end I18n.Charset.EPy
