import I18n.Model.Meta
import I18n.Model.Hdr
import I18n.Model.Msg
import I18n.Model.Locale
import I18n.Model.CheckPlurals
import I18n.Model.FmtCheck
/-!
`Meta.pipeline` instantiated with the stage models of the other properties — the composed checker of C17:

| stage of `Checker.check` | model |
|---|---|
| `check_comments`   | `Hdr.checkComments` (C15) |
| `check_headers`    | `Hdr.checkHeaders` (C15) — writes `ctx.metadata` |
| `check_language`   | `Locale.checkLanguage` (C19) — writes `ctx.language` |
| `check_plurals`    | `CheckPlurals.checkPlurals` (C04–C07) — writes `ctx.plural_preimage` |
| `check_mime`       | `Hdr.checkMime` (C15) over C20's charset fragment — writes `ctx.encoding` |
| `if broken_encoding: ctx.encoding = None` | here |
| `check_dates`      | `Date.checkDates` (C18) through `Hdr.dateCtx` — READS `ctx.is_binary` |
| `check_project`, `check_translator` | `Hdr.checkProject`, `Hdr.checkTranslator` (C15) |
| `check_messages`   | `Msg.trace` (C16) with every `Emit.fmt` dispatch expanded by `FmtCheck.KMsg.check` (C14) — READS `ctx.is_binary` |

Adapters (`toHdrEntry`, `toMsgFacts`, `toMsgEntry`) turn the observation of a polib entry (`Meta.Obs`) into the record each
stage model reads.  What is still a parameter (`World`): the library results the stage models already take as inputs
(`Hdr.Ext`, `Msg.Env`, `munch`, the clock), C20's charset fragment as a function of the template flag and `ctx.language`,
`language.get_plural_forms()` with its escaped spellings, `message_repr(message, '({})')` for `check_plurals`, and how a
message is presented to a format back end (`kmsg`: the strings for `c`/`python`, the parsed signatures for the brace kinds).
-/
namespace I18n.Meta.Real
open I18n I18n.Check I18n.Meta

abbrev Str := List Char

/-- a printed tag with its origin (the stage that made the `self.tag` call) -/
inductive RTag where
  | comments (t : TagCall)
  | headers (t : TagCall)
  | language (t : TagCall)
  | plurals (t : TagCall)
  | mime (t : TagCall)
  | date (t : Date.Tag)
  | project (t : TagCall)
  | translator (t : TagCall)
  | msg (t : Msg.MTag) (extras : List Tags.Extra)
  | fmt (t : TagCall)

/-- everything outside the file -/
structure World where
  hx : Hdr.Ext
  now : Int
  menv : Msg.Env
  munch : List Char → List Char
  /-- `self.path` and `options.language` -/
  path : Str
  optLanguage : Option Locale.Language
  /-- C20: the charset fragment of `check_mime`, given `ctx.is_template` and `ctx.language` -/
  charset : Bool → Option Locale.Language → Hdr.CharsetCheck
  /-- `ctx.language.get_plural_forms()` (None without language) and `tags._escape` of each -/
  pluralForms : Option Locale.Language → Option (List Str) × List Str
  /-- `message_repr(message, template='({})')`: a function of msgid and msgctxt -/
  reprParen : Str → Option Str → Str
  /-- the message as the format back end `name` sees it -/
  kmsg : Obs → Str → FmtCheck.KMsg

/-- `ctx` without `is_binary` / `possible_hidden_strings` -/
structure RCtx where
  isTemplate : Bool
  /-- `broken_encoding` -/
  broken : Bool
  /-- `ctx.file.header` -/
  comments : Str
  /-- `ctx.file`, as lib/check/ observes each entry -/
  entries : List Obs
  metadata : Hdr.Meta := []
  language : Option Locale.Language := none
  preimage : Option CheckPlurals.Preimage := none
  encoding : Option Str := none

/-! ## adapters -/

/-- the `msgstr_plural.get(0)` of `check_headers` -/
def form0 (d : List (Nat × Text)) : Option Text := (d.find? (·.1 = 0)).map (·.2)

def toHdrEntry (o : Obs) : Hdr.Entry :=
  { msgid := o.msgid, msgctxt := o.msgctxt, obsolete := o.obsolete, occurrences := o.occurrences, msgidPlural := o.msgidPlural,
    msgstr := o.msgstrOrEmpty, msgstr0 := form0 o.msgstrPlural, flags := o.flags }

def toMsgFacts (w : World) (o : Obs) : CheckPlurals.MsgFacts :=
  { obsolete := o.obsolete, hasPlural := o.msgidPlural.isSome, translated := o.translated, nforms := o.msgstrPlural.length,
    repr := w.reprParen o.msgid o.msgctxt }

def nat (s : Str) : Tags.Str := s.map Char.toNat

def toMsgEntry (o : Obs) : Msg.Entry :=
  { msgid := nat o.msgid, msgctxt := o.msgctxt.map nat, msgidPlural := o.msgidPlural.map nat, msgstr := some (nat o.msgstrOrEmpty),
    msgstrPlural := o.msgstrPlural.map (fun kv => (kv.1, nat kv.2)), flags := o.flags.map nat, obsolete := o.obsolete,
    prevMsgctxt := if o.hasPrevious.1 then some [] else none,
    prevMsgid := if o.hasPrevious.2.1 then some [] else none,
    prevMsgidPlural := if o.hasPrevious.2.2 then some [] else none,
    comment := nat o.commentOrEmpty }

/-! ## the eight stages that cannot see `is_binary` -/

def commentsStage (w : World) : Blind RCtx RTag := fun k =>
  (k, (Hdr.checkComments w.hx.db k.isTemplate k.comments).map .comments, false)

def headersStage (w : World) : Blind RCtx RTag := fun k =>
  match Hdr.checkHeaders w.hx k.isTemplate (k.entries.map toHdrEntry) with
  | none => (k, [], true)
  | some h => ({ k with metadata := h.metadata }, h.tags.map .headers, false)

def languageInput (w : World) (k : RCtx) : Locale.Input :=
  ⟨k.isTemplate, w.optLanguage, w.path, k.metadata.getS "Language", k.metadata.getS "X-Poedit-Language", k.metadata.getS "X-Poedit-Country"⟩

def languageStage (w : World) : Blind RCtx RTag := fun k =>
  match Locale.checkLanguage w.munch (languageInput w k) with
  | .error _ => (k, [], true)
  | .ok out => ({ k with language := out.language }, out.tags.map .language, false)

def pluralsInput (w : World) (k : RCtx) : CheckPlurals.Input :=
  ⟨k.metadata.getS "Plural-Forms", (w.pluralForms k.language).1, (w.pluralForms k.language).2, k.entries.map (toMsgFacts w), k.isTemplate⟩

def pluralsStage (w : World) : Blind RCtx RTag := fun k =>
  match CheckPlurals.checkPlurals (pluralsInput w k) with
  | .error _ => (k, [], true)
  | .ok out => ({ k with preimage := out.preimage }, out.tags.map .plurals, false)

def mimeStage (w : World) : Blind RCtx RTag := fun k =>
  match Hdr.checkMime w.hx.db (w.charset k.isTemplate k.language) k.metadata with
  | .error () => (k, [], true)
  | .ok out => ({ k with encoding := out.encoding }, out.tags.map .mime, false)

/-- `if broken_encoding: ctx.encoding = None` -/
def resetStage : Blind RCtx RTag := fun k =>
  ((if k.broken then { k with encoding := none } else k), [], false)

def projectStage (w : World) : Blind RCtx RTag := fun k =>
  (k, (Hdr.checkProject w.hx k.metadata).map .project, false)

def translatorStage (w : World) : Blind RCtx RTag := fun k =>
  (k, (Hdr.checkTranslator w.hx k.isTemplate k.metadata).map .translator, false)

/-- a stage that cannot see the flags, as a stage of the run -/
def lift (f : Blind RCtx RTag) : Stage (BinFlags × RCtx) RTag := fun s =>
  let r := f s.2
  ((s.1, r.1), r.2.1, r.2.2)

/-! ## the two stages that read `ctx.is_binary` -/

def datesStage (w : World) : Stage (BinFlags × RCtx) RTag := fun s =>
  match Date.checkDates (Hdr.dateCtx ⟨s.2.isTemplate, s.1.isBinary⟩ s.2.metadata w.now) with
  | none => (s, [], true)
  | some ts => (s, ts.map .date, false)

def msgCtx (fl : BinFlags) (k : RCtx) : Msg.Ctx := ⟨k.isTemplate, fl.isBinary, fl.hidden, k.encoding.isSome⟩
def fmtCtx (k : RCtx) : FmtCheck.Ctx := ⟨k.isTemplate, k.encoding.isSome, k.preimage⟩

/-- one emission of `check_messages`: its lines, and whether an exception left the method there -/
def expandEmit (w : World) (fctx : FmtCheck.Ctx) (o : Obs) : Msg.Emit → List RTag × Bool
  | .tag t ex => ([.msg t ex], false)
  | .crash _ => ([], true)
  | .fmt name info =>
    match FmtCheck.KMsg.check fctx ⟨info.fuzzy, info.rangeMin, info.rangeMax⟩ (w.kmsg o (name.map Char.ofNat)) with
    | .ok ts => (ts.map .fmt, false)
    | .error _ => ([], true)

/-- the part after the loop only makes tag calls -/
def expandFinal : Msg.Emit → List RTag × Bool
  | .tag t ex => ([.msg t ex], false)
  | .crash _ => ([], true)
  | .fmt _ _ => ([], false)

/-- in order, up to the first exception -/
def seqEmits : List (List RTag × Bool) → List RTag × Bool
  | [] => ([], false)
  | (ts, true) :: _ => (ts, true)
  | (ts, false) :: rest =>
    let r := seqEmits rest
    (ts ++ r.1, r.2)

def messagesOut (w : World) (fl : BinFlags) (k : RCtx) : List RTag × Bool :=
  let t := Msg.trace w.menv (msgCtx fl k) (k.entries.map toMsgEntry)
  seqEmits (((k.entries.zip t.1).flatMap fun p => p.2.map (expandEmit w (fmtCtx k) p.1)) ++ t.2.map expandFinal)

def messagesStage (w : World) : Stage (BinFlags × RCtx) RTag := fun s =>
  let r := messagesOut w s.1 s.2
  (s, r.1, r.2)

/-- lines 193-203 of `Checker.check` with the stage models of C15, C19, C07, C20, C18, C16, C14 -/
def pipeline (w : World) : List (Stage (BinFlags × RCtx) RTag) :=
  [lift (commentsStage w), lift (headersStage w), lift (languageStage w), lift (pluralsStage w), lift (mimeStage w),
   lift resetStage, datesStage w, lift (projectStage w), lift (translatorStage w), messagesStage w]

/-! ## `ctx` from a loaded file -/

/-- from `polib.pofile`'s result, as far as lib/check/ sees it (`poView`) -/
def ctxOfPo (isTemplate : Bool) (v : Po.Text × List Po.Entry) (broken : Bool) : BinFlags × RCtx :=
  (⟨false, false⟩, { isTemplate := isTemplate, broken := broken, comments := v.1, entries := v.2.map (observe ∘ ofPoEntry) })

/-- from `polib.mofile`'s result (moparser) -/
def ctxOfMo (f : Mo.MoFile) (broken : Bool) : BinFlags × RCtx :=
  (⟨true, f.possibleHiddenStrings⟩, { isTemplate := false, broken := broken, comments := [], entries := f.entries.map (observe ∘ ofMo) })

/-- `Checker.check()` on a PO (`isTemplate = false`) or POT file with contents `file` -/
def checkPo (w : World) (env : Po.Env) (isTemplate : Bool) (statOk : Bool) (file : Po.Bytes) : Run RTag :=
  check statOk (if isTemplate then .pot else .po) (poLoad env file) (fun f b => ctxOfPo isTemplate (poView f) b) (pipeline w)

/-- `Checker.check()` on an MO file with contents `file` -/
def checkMo (w : World) (db : Mo.CodecDB) (statOk : Bool) (file : Mo.Bytes) : Run RTag :=
  check statOk .mo (moLoad db file) ctxOfMo (pipeline w)

/-! ## the whole of `Checker.check` on a path: `--file-type`, the extension, the loaders -/

/-- lines 137-146: `.po` / `.pot` / `.mo`, `.gmo`, anything else -/
def classifyExt (extension : Str) : Ext :=
  if extension = ".po".toList then .po
  else if extension = ".pot".toList then .pot
  else if extension = ".mo".toList ∨ extension = ".gmo".toList then .mo
  else .other

/-- lines 133-136: `extension = os.path.splitext(self.path)[-1]` unless `--file-type` is given -/
def extOf (fileType : Option Str) (path : Str) : Ext :=
  classifyExt (match fileType with
    | some t => '.' :: t
    | none => (Locale.splitext (Locale.basename path)).2)

/-- how a message is handed to the format back end `name` (`_check_message_formats`): the strings as they are; the two
    `message_repr` safestrs are C02's `Msg.msgRepr` -/
def kmsgOf (db : Tags.UnicodeDB) (o : Obs) (name : Str) : FmtCheck.KMsg :=
  let rp := fun (colon : Bool) => Extra.safe ((Msg.msgRepr db (nat o.msgid) (o.msgctxt.map nat) colon).map Char.ofNat)
  let m : FmtCheck.Msg (List Char) :=
    { msgid := o.msgid, msgidPlural := o.msgidPlural, msgstr := o.msgstrOrEmpty, msgstrPlural := o.msgstrPlural,
      pfx := rp true, repr := rp false }
  if name = "c".toList then .c m
  else if name = "python".toList then .python m
  else if name = "python-brace".toList then .pyBraceStr m
  else if name = "perl-brace".toList then .perlBraceStr m
  else .other

/-- `message_repr(message, template='({})')` -/
def reprParenOf (db : Tags.UnicodeDB) (msgid : Str) (msgctxt : Option Str) : Str :=
  '(' :: ((Msg.msgRepr db (nat msgid) (msgctxt.map nat) false).map Char.ofNat ++ [')'])

/-- **`Checker.check()` of the composed model** for the file at `path` with contents `file` (`statOk` = `os.stat` succeeded):
    this is the function the `whole check` driver op runs -/
def wholeCheck (w : World) (env : Po.Env) (db : Mo.CodecDB) (fileType : Option Str) (statOk : Bool) (file : List UInt8) : Run RTag :=
  match extOf fileType w.path with
  | .po => checkPo w env false statOk file
  | .pot => checkPo w env true statOk file
  | .mo => checkMo w db statOk file
  | .other => check statOk .other (moLoad db file) ctxOfMo (pipeline w)

end I18n.Meta.Real
