import I18n.Model.Po
/-!
# The Python kit the regenerated `lib/polib4us.py` targets (`tools/translate/polib4us2lean.py` → `Generated/Polib4us.lean`)

One Lean function per Python operation that `polib_unescape`, `_wrap_octal_escape`, the `POEntry.flags` setter, the patched
`POEntry.translated` and `Codecs.open` / `Codecs._is_ignored_comment` use.  Core Lean only.  What the kit fixes — the trusted base
of `Props/C10Tie.lean`:

* **str** is `Po.Text` (`List Char`), **bytes** `Po.Bytes`; a charset name is the bytes of its ASCII spelling (as in `Model/Po.lean`).
* **the regexes** are the model's hand-written scanners, shared by both sides, selected by the PINNED pattern text (the translator
  refuses any other text): `_escapes_re` is `Po.escapeRun` (a match object is the list of escape bodies of a maximal run: `Run`),
  `_escapes_re.sub(f, s)` is `escapesSub f` (left to right, non-overlapping, the unmatched characters kept);
  `Codecs._iterlines` is `Po.iterlines`, `Codecs._atypical_comment` `Po.atypical`.  `match.group()` of a run is the run itself as
  a string *known to be a run of escapes* (`Run`): on such a string `_short_x_escape_re.sub(r'\\x0\1', ·)` and
  `_big_octal_escape_re.sub(f, ·)` act escape by escape (`shortXSub`, `bigOctalSub`: inside a run a `\x` or a `\[4-7]` can only
  start at the start of an escape, because the only escape body that ends in a backslash is `\\` and what follows it is the backslash
  of the next escape; `\xH` is followed by a backslash or the end exactly when `H` is the escape's last character), and
  `ast.literal_eval(f"b'{s}'")` is the byte each escape denotes (`literalEval`; `\xH` alone is a SyntaxError, an octal escape above
  `\377` keeps its low 8 bits — CPython warns about it, which is what the fix-up is for).
* **the stack-frame hack** `inspect.stack()[2][0].f_locals['self'].instance.encoding` is a parameter: the charset of the file being
  parsed (as in the model).
* **the environment** is `Po.Env` (`encodings.is_ascii_compatible_encoding`, `encodings.decode`, `str.isspace` per character);
  `open(path, 'rb').read()` is a parameter (the file's bytes).
* **a generator** is the list of what it yields (`yield x`: append; `yield from xs`: append all).
* an entry is `Po.Entry`: `self.msgstr` is `None` or a str, `self.msgstr_plural.values()` the values in order, `self.flags` the list.
-/
namespace I18n.Po.Py
open I18n I18n.Po

inductive Exn where
  | unicodeDecode      -- UnicodeDecodeError
  | other              -- LookupError "not a text encoding", SyntaxError of literal_eval, …
  | index              -- IndexError
  | notImplemented
  deriving DecidableEq, Repr

def Exn.isUnicodeDecodeError : Exn → Bool
  | .unicodeDecode => true
  | _ => false

/-- a string known to be a run of escapes (`match.group()` of `_escapes_re`): the escape bodies, each without its backslash -/
abbrev Run := List Text

/-- `_escapes_re.sub(f, s)`; `fuel` ≥ `len(s) + 1` -/
def escapesSub (f : Run → Except Exn Text) : Nat → Text → Except Exn Text
  | 0, _ => .ok []
  | fuel + 1, s =>
    match s with
    | [] => .ok []
    | c :: cs =>
      match escapeRun (c :: cs).length (c :: cs) with
      | ([], _) =>
        match escapesSub f fuel cs with
        | .error e => .error e
        | .ok t => .ok (c :: t)
      | (bodies, rest) =>
        match f bodies with
        | .error e => .error e
        | .ok t =>
          match escapesSub f fuel rest with
          | .error e => .error e
          | .ok t' => .ok (t ++ t')

/-- one escape under `_short_x_escape_re.sub(r'\\x0\1', ·)`: `\xH` followed by a backslash or the end becomes `\x0H` -/
def shortX1 (body : Text) : Text :=
  match body with
  | [c, d] => if c = 'x' then ['x', '0', d] else body
  | b => b

/-- `_short_x_escape_re.sub(r'\\x0\1', run)` -/
def shortXSub (run : Run) : Run := run.map shortX1

/-- one escape under `_big_octal_escape_re.sub(f, ·)`: `f` gets group 1 (the three digits `[4-7][0-7]{2}`) and returns the replacement
    text, a backslash and what stands for the escape now -/
def bigOctal1 (f : Text → Text) (body : Text) : Text :=
  match body with
  | [c, d, e] => if '4' ≤ c ∧ c ≤ '7' ∧ isOct d ∧ isOct e then (f [c, d, e]).drop 1 else body
  | b => b

/-- `_big_octal_escape_re.sub(f, run)` -/
def bigOctalSub (f : Text → Text) (run : Run) : Run := run.map (bigOctal1 f)

/-- `int(digits, 8)` for octal digits -/
def intOct (digits : Text) : Nat := digits.foldl (fun n c => n * 8 + octVal c) 0

/-- `format(n, 'o')` -/
def formatOct (n : Nat) : Text := (Nat.toDigits 8 n)

/-- the value of one escape body in a bytes literal; `none`: SyntaxError (`\xH`) -/
def bodyByte (body : Text) : Option UInt8 :=
  match body with
  | [c] => match simpleByte c with
    | some b => some b
    | none => some (UInt8.ofNat (octVal c))
  | [c, d] => if c = 'x' then none else some (UInt8.ofNat (octVal c * 8 + octVal d))
  | [c, d, e] =>
    if c = 'x' then some (UInt8.ofNat (hexVal d * 16 + hexVal e))
    else some (UInt8.ofNat ((octVal c * 64 + octVal d * 8 + octVal e) % 256))
  | _ => none

def bodyBytes : Run → Option Bytes
  | [] => some []
  | b :: rest =>
    match bodyByte b, bodyBytes rest with
    | some x, some xs => some (x :: xs)
    | _, _ => none

/-- `ast.literal_eval(f"b'{run}'")` -/
def literalEval (run : Run) : Except Exn Bytes :=
  match bodyBytes run with
  | some bs => .ok bs
  | none => .error .other

/-- `b.decode('ASCII')` -/
def decodeAsciiBytes (bs : Bytes) : Except Exn Text :=
  match decodeAscii bs with
  | some t => .ok t
  | none => .error .unicodeDecode

/-- `encodings.decode(bs, encoding)` -/
def encodingsDecode (env : Env) (bs : Bytes) (encoding : Bytes) : Except Exn Text :=
  match env.decode encoding bs with
  | .text t => .ok t
  | .ude => .error .unicodeDecode
  | .other => .error .other

/-- `s.strip(chars)`; `codes`: the code points of `chars` -/
def stripCodes (s : Text) (codes : List Nat) : Text := strip (fun c => codes.contains c.toNat) s

/-- truth value of `None` / a str -/
def truthyOpt : Option Text → Bool
  | some (_ :: _) => true
  | _ => false

/-- truth value of a str -/
def truthy (s : Text) : Bool := !s.isEmpty

/-- `xs[i]` for a literal `i` -/
def listGet {α : Type} (xs : List α) (i : Nat) : Except Exn α :=
  match xs[i]? with
  | some x => .ok x
  | none => .error .index

/-- `for x in xs: body` over the loop-carried variables -/
def forEach {α σ : Type} (xs : List α) (body : α → σ → Except Exn σ) (s : σ) : Except Exn σ :=
  match xs with
  | [] => .ok s
  | x :: rest =>
    match body x s with
    | .error e => .error e
    | .ok s' => forEach rest body s'

end I18n.Po.Py
