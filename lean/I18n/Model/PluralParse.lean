import I18n.Model.Expr
/-
Hand-written model of `intexpr.Parser.parse` (rply lexer + LALR parser generated from the
declarations in lib/intexpr.py:37-143): a lexer following rply's loop (ignore rules first, then
rules in declaration order, first match wins) and a recursive-descent parser over the nine C
precedence levels.  Tied to the real parser by the `plural-parse` correspondence stream (all
token strings up to length 5, plus grammar-directed strings); the declarations themselves are
dumped by the translator into `Generated/PluralGrammar.lean` and pinned against `Spec.pluralY`.
-/
namespace I18n.PluralParse
open I18n

inductive Tok where
  | qm | colon
  | bool (op : BoolOp)
  | cmp (op : CmpOp)
  | bin (op : BinOp)
  | not | lpar | rpar | var
  | int (n : Nat)
  deriving DecidableEq, Repr, Inhabited

def isDigit (c : Char) : Bool := '0' ≤ c && c ≤ '9'

def digitVal (c : Char) : Nat := c.toNat - '0'.toNat

/-- number of decimal digits beyond which CPython's `int(str)` raises `ValueError`
    (`sys.get_int_max_str_digits()`, pinned to the generated constant by `Props.C04.grammar_pin`); 0 = no limit, which is
    what lib/__init__.py arranges since `fix:` 871d4d7 -/
def maxStrDigits : Nat := 0

/-- does `int()` refuse a numeral of `len` digits? -/
def tooLong (len : Nat) : Bool := maxStrDigits != 0 && decide (len > maxStrDigits)

inductive LexResult where
  | ok (ts : List Tok)
  | syntaxError                -- rply LexingError
  | valueError                 -- int() on an over-long numeral (unreachable while `maxStrDigits = 0`)
  deriving DecidableEq, Repr

def LexResult.cons (t : Tok) : LexResult → LexResult
  | .ok ts => .ok (t :: ts)
  | r => r

/-- pending numeral: value and digit count -/
abbrev Pending := Option (Nat × Nat)

def flush (p : Pending) (r : LexResult) : LexResult :=
  match p with
  | none => r
  | some (v, len) =>
    match r with
    | .ok ts => if tooLong len then .valueError else .ok (.int v :: ts)
    | .syntaxError => .syntaxError
    | .valueError => .valueError

/-- the single-character rules, in rply's order (after the two-character ones have failed) -/
def oneCharTok (c : Char) : Option Tok :=
  if c = '?' then some .qm
  else if c = ':' then some .colon
  else if c = '<' then some (.cmp .lt)
  else if c = '>' then some (.cmp .gt)
  else if c = '+' then some (.bin .add)
  else if c = '-' then some (.bin .sub)
  else if c = '*' then some (.bin .mult)
  else if c = '/' then some (.bin .div)
  else if c = '%' then some (.bin .mod)
  else if c = '!' then some .not
  else if c = '(' then some .lpar
  else if c = ')' then some .rpar
  else if c = 'n' then some .var
  else none

/-- rply's `LexerStream.next` iterated: `[ \t]+` ignored; `?`, `:`, `||`, `&&`, `[!=]=`, `[<>]=?`,
    `[+-]`, `[*/%]`, `!`, `(`, `)`, `n`, `[0-9]+` in that order. -/
def lexGo : List Char → Pending → LexResult
  | [], p => flush p (.ok [])
  | '|' :: '|' :: r, p => flush p ((lexGo r none).cons (.bool .or))
  | '&' :: '&' :: r, p => flush p ((lexGo r none).cons (.bool .and))
  | '!' :: '=' :: r, p => flush p ((lexGo r none).cons (.cmp .noteq))
  | '=' :: '=' :: r, p => flush p ((lexGo r none).cons (.cmp .eq))
  | '<' :: '=' :: r, p => flush p ((lexGo r none).cons (.cmp .lte))
  | '>' :: '=' :: r, p => flush p ((lexGo r none).cons (.cmp .gte))
  | c :: rest, p =>
    if isDigit c then
      match p with
      | none => lexGo rest (some (digitVal c, 1))
      | some (v, len) => lexGo rest (some (v * 10 + digitVal c, len + 1))
    else
      flush p <|
        if c = ' ' ∨ c = '\t' then lexGo rest none
        else match oneCharTok c with
          | some t => (lexGo rest none).cons t
          | none => .syntaxError

def lex (s : List Char) : LexResult := lexGo s none

/-- precedence level of a binary operator token: 1 `||`, 2 `&&`, 3 `== !=`, 4 `< <= > >=`,
    5 `+ -`, 6 `* / %` — with the constructor that builds its node -/
def binInfo : Tok → Option (Nat × (Expr → Expr → Expr))
  | .bool .or => some (1, fun a b => .boolop .or a b)
  | .bool .and => some (2, fun a b => .boolop .and a b)
  | .cmp .eq => some (3, fun a b => .compare a .eq b)
  | .cmp .noteq => some (3, fun a b => .compare a .noteq b)
  | .cmp op => some (4, fun a b => .compare a op b)
  | .bin .add => some (5, fun a b => .binop a .add b)
  | .bin .sub => some (5, fun a b => .binop a .sub b)
  | .bin op => some (6, fun a b => .binop a op b)
  | _ => none

abbrev PResult := Option (Expr × List Tok)

mutual
/-- level 0: `cond := or_expr ('?' cond ':' cond)?` -/
def parseCond : Nat → List Tok → PResult
  | 0, _ => none
  | f + 1, ts =>
    match parseLevel f 1 ts with
    | none => none
    | some (c, .qm :: r1) =>
      match parseCond f r1 with
      | some (a, .colon :: r3) =>
        match parseCond f r3 with
        | some (b, r4) => some (.ifexp c a b, r4)
        | none => none
      | _ => none
    | some (c, r) => some (c, r)
/-- levels 1–6 (left-associative binary operators), level ≥ 7 = unary -/
def parseLevel : Nat → Nat → List Tok → PResult
  | 0, _, _ => none
  | f + 1, k, ts =>
    if k ≥ 7 then parseUnary f ts
    else
      match parseLevel f (k + 1) ts with
      | none => none
      | some (a, r) => parseLoop f k a r
/-- `(op_k operand_{k+1})*`, folding to the left -/
def parseLoop : Nat → Nat → Expr → List Tok → PResult
  | 0, _, _, _ => none
  | f + 1, k, a, ts =>
    match ts with
    | [] => some (a, [])
    | t :: r =>
      match binInfo t with
      | some (k', mk) =>
        if k' = k then
          match parseLevel f (k + 1) r with
          | none => none
          | some (b, r2) => parseLoop f k (mk a b) r2
        else some (a, ts)
      | none => some (a, ts)
/-- `unary := '!' unary | 'n' | INT | '(' cond ')'` -/
def parseUnary : Nat → List Tok → PResult
  | 0, _ => none
  | f + 1, ts =>
    match ts with
    | .not :: r =>
      match parseUnary f r with
      | some (e, r2) => some (.unaryop .not e, r2)
      | none => none
    | .var :: r => some (.name, r)
    | .int n :: r => some (.num n, r)
    | .lpar :: r =>
      match parseCond f r with
      | some (e, .rpar :: r3) => some (e, r3)
      | _ => none
    | _ => none
end

/-- recursion depth that always suffices: at most 9 nested calls per consumed token -/
def fuelFor (ts : List Tok) : Nat := 9 * ts.length + 9

def parseToks (ts : List Tok) : Option Expr :=
  match parseCond (fuelFor ts) ts with
  | some (e, []) => some e
  | _ => none

inductive ParseResult where
  | ok (e : Expr)
  | syntaxError
  | valueError
  deriving DecidableEq, Repr

/-- `gettext.parse_plural_expression` -/
def parse (s : List Char) : ParseResult :=
  match lex s with
  | .syntaxError => .syntaxError
  | .valueError => .valueError
  | .ok ts =>
    match parseToks ts with
    | some e => .ok e
    | none => .syntaxError

end I18n.PluralParse
