import I18n.Generated.PyBraceField
/-!
# The python-brace parser with the REGENERATED `Field.__init__` / `add_argument` in place of the modelled ones

`Generated.PyBraceField.Field.__init__` (rewritten from `lib/strformat/pybrace.py` on every run) inside the hand-written `finditer` loop
of `FormatString.__init__` (`PyBrace.loop`): run by the driver (`pybrace gparse`) and proved equal to `PyBrace.parseWith` in
`Props/C13Tie.lean`.  The value `self.types` will have (a parameter of the regenerated constructor, because the object is stored in the
map before the attribute is assigned) is supplied as `PyBrace.ownTypes`; the constructor's own result is compared with it
(`prophecyMismatch` is unreachable: `C13Tie.generated_field_init_types`).  Core Lean only.
-/
namespace I18n.PyBrace.G
open I18n I18n.PyBrace I18n.Generated

/-- `Field(parent, match)` as regenerated -/
def fieldInitG (cfg : Cfg) (st : State) (f : RawField) : Except PErr (State × TySet) :=
  match PyBraceField.Field.__init__ cfg (ownTypes cfg f) st f with
  | .error e => .error e
  | .ok (tp, st') => if tp = ownTypes cfg f then .ok (st', tp) else .error (.crash .NotImplemented)

/-- the model's `loop` with the regenerated `Field.__init__` in place of `fieldInit` -/
def loopG (cfg : Cfg) : Nat → List Char → State → List PreItem → Except PErr (State × List PreItem)
  | _, [], st, items => .ok (st, items.reverse)
  | 0, _ :: _, _, _ => .error (.crash .NonTermination)
  | fuel + 1, c :: cs, st, items =>
    match scanLiteral (c :: cs).length (c :: cs) with
    | (t :: ts, rest) => loopG cfg fuel rest st (.lit (t :: ts) :: items)
    | ([], _) =>
      match scanField (c :: cs) with
      | none => .error (scanError (c :: cs))
      | some (f, rest) =>
        match fieldInitG cfg st f with
        | .error e => .error e
        | .ok (st', _) => loopG cfg fuel rest st' (.field (keyOf st f.name) :: items)

/-- `FormatString(s)` with the regenerated `Field.__init__` / `add_argument` -/
def parseWithG (cfg : Cfg) (s : List Char) : Except PErr Result :=
  match loopG cfg s.length s { next := some 0, map := [] } [] with
  | .error e => .error e
  | .ok (st, items) =>
    match unify s st.map with
    | .error e => .error e
    | .ok m =>
      .ok { items := items.map fun
              | .lit t => .lit t
              | .field k => .field (lookupTypes m k),
            argMap := m }

def parseG (s : List Char) : Except PErr Result := parseWithG liveCfg s

end I18n.PyBrace.G
