import I18n.Model.Tags
import I18n.Generated.UnicodeClasses
import I18n.Generated.TagRegistry
/-
The model's parameters instantiated with what the translators dumped from the running interpreter and from the live
`lib.tags` module: the Unicode tables and the tag registry.  Used by the driver (so the correspondence runs with the
interpreter's own tables) and by the pin theorems of Props/C02.
-/
namespace I18n.Tags

/-- membership in a list of inclusive ranges -/
def inRanges (rs : List (Nat × Nat)) (c : Nat) : Bool := rs.any fun r => r.1 ≤ c && c ≤ r.2

/-- `str.isprintable` and category Cf of the running interpreter -/
def liveDb : UnicodeDB where
  printable := inRanges Generated.UnicodeClasses.printable
  format := inRanges Generated.UnicodeClasses.cf

/-- injective numeric encoding of a string (code points as base-2^21 digits after a leading 1); the translators
    emit tag names in this form because the kernel is slow on `String` -/
def nameKey (s : Str) : Nat := s.foldl (fun k c => k * 2097152 + c) 1

def entryTag (e : Nat × List Nat × Nat × Nat × Char) : Option Tag :=
  match Severity.ofRank e.2.2.1, Certainty.ofRank e.2.2.2.1 with
  | some s, some c => some ⟨e.2.1, s, c⟩
  | _, _ => none

/-- `tags._tags` as loaded by the tool -/
def liveRegistry : List Tag := Generated.TagRegistry.tags.filterMap entryTag

end I18n.Tags
