/-
Model of the per-file path of lib/cli.py WITH explicit process-global state (C03).

  main                      lib/cli.py:214-241   `Checker.patch_environment()` once, then `check_all(files)`
  check_all                 lib/cli.py:128-137   sequential loop printing directly  |  capture per file + `executor.map`
  check_file_s              lib/cli.py:116-126   `check_file` with stdout captured (restored in `finally`: kind scopedRedirect)
  check_file                lib/cli.py:108-114   `check_deb` (C17's: a parameter) unless `UnsupportedFileType`, else regular
  check_regular_file        lib/cli.py:68-70     a NEW `Checker(path, options)` per call, then `.check()`
  Checker.__init__          lib/check/__init__.py:99-101   raises `EnvironmentNotPatched` unless the class flag is set
  Checker.patch_environment lib/check/__init__.py:91-97    raises `EnvironmentAlreadyPatched` when called twice

The global state `G` has exactly the components that the state inventory (`Generated/StateSites.lean`) classifies as
written after import:
  * `patched`  — kinds startupInit / patchAtStartup / onceInstaller (class flag, polib patches, codec registry):
                 written once on the start-up path, before the first file;
  * `cache`    — kind pureCache (`intexpr.create_lexer`, `create_parser`; codec lookups memoised by the interpreter):
                 a finite table `key ↦ value` consulted and extended by the per-file path.
Import tables (kinds constant / importTable / importRegistry) are never written, so they are constants of the model:
they live inside the parameters `f`, `checkRegular`, `checkDeb`.

Everything a file's check creates for itself (the Checker instance, `ctx`, `found_unusual_characters`, `msgid_counter`, the
StringIO of check_file_s) is local to the program `checkRegular o file` — pins `accumulators_per_call`,
`per_file_mutations_hit_per_call_objects`.

The only way a per-file program can observe `G` is `Prog.ask`: the call of a memoised function.
-/
namespace I18n.CliState

/-- a per-file computation: prints lines; may call memoised functions (key `k`, continuing with the value) -/
inductive Prog (K V : Type) where
  | done : List String → Prog K V
  | ask : K → (V → Prog K V) → Prog K V

/-- the process-global state that outlives a file -/
structure G (K' V : Type) where
  patched : Bool
  cache : List (K' × V)
  /-- `sys.stdout` currently replaced by a `StringIO` (kind scopedRedirect: only inside `check_file_s`) -/
  captured : Bool := false
  /-- terminal state of the PROCESS: `lib.terminal` initialised because the real stdout was a colour terminal when `main` started
      (`cli.initialize_terminal`, kinds terminalProbe / startupInit).  Written once on the start-up path; forked workers inherit it. -/
  terminal : Bool := false

variable {K K' V : Type} [DecidableEq K']

/-- `functools.lru_cache` look-up: first entry stored under the (projected) key -/
def cacheGet (c : List (K' × V)) (k : K') : Option V :=
  match c with
  | [] => none
  | (k1, v) :: rest => if k1 = k then some v else cacheGet rest k

/-- Run a per-file program against the cache.  `proj` is what the cache uses as its key: the identity for a sound
    `lru_cache` (all arguments), a lossy projection for a cache "keyed on less than its inputs" (seeded change C03-a:
    `polib_unescape` keyed on the escaped text while the result also depends on the charset of the file on the stack). -/
def Prog.run (proj : K → K') (f : K → V) : Prog K V → List (K' × V) → List (K' × V) × List String
  | .done out, c => (c, out)
  | .ask k cont, c =>
    match cacheGet c (proj k) with
    | some v => (cont v).run proj f c
    | none => (cont (f k)).run proj f ((proj k, f k) :: c)

/-- the same program without any cache: every memoised call computes `f k` -/
def Prog.pure (f : K → V) : Prog K V → List String
  | .done out => out
  | .ask k cont => (cont (f k)).pure f

/-- every stored value is the value of the function at every argument with that key -/
def Consistent (proj : K → K') (f : K → V) (c : List (K' × V)) : Prop :=
  ∀ k v, cacheGet c (proj k) = some v → v = f k

inductive Err where
  | environmentNotPatched       -- Checker.__init__ before patch_environment
  | environmentAlreadyPatched   -- patch_environment twice
  deriving DecidableEq, Repr

section Path
variable {O F : Type}
variable (proj : K → K') (f : K → V)
-- `options.unpack_deb`  (`options.jobs` is read by `check_all` and `main` only — pin `jobs_option_read_by_driver_only` — so it is a separate argument `j`)
variable (unpackDeb : O → Bool)
-- `Checker(path, options=options).check()` after the patched-flag test: a program of the file and the options alone
variable (checkRegular : O → F → Prog K V)
-- `check_deb`: `none` = `UnsupportedFileType` (not a package, or dpkg cannot unpack it) — C17's parameter
variable (checkDeb : O → F → Option (Prog K V))
-- the colour decision of `Checker.tag`, as a function of (terminal state of the process, is `sys.stdout` currently swapped by
-- `check_file_s`); the code passes `color=True` and lets the terminal state decide: `colourOfCode`
variable (colourOf : Bool → Bool → Bool)
-- `Tag.format(..., color=c)`: the line with or without the escape sequences of the terminal
variable (render : Bool → String → String)

/-- `check_file(path, options=options)` as a program -/
def checkFileProg (o : O) (file : F) : Prog K V :=
  if unpackDeb o then
    match checkDeb o file with
    | some p => p
    | none => checkRegular o file
  else checkRegular o file

/-- one `check_file` call inside a process whose global state is `g`: new state, printed lines (or the exception of
    `Checker.__init__`; nothing is printed and nothing is cached in that case).
    With `unpack_deb` and a package, `check_deb` creates one Checker per member: the same flag test. -/
def step (o : O) (g : G K' V) (file : F) : G K' V × Except Err (List String) :=
  if g.patched then
    let r := (checkFileProg unpackDeb checkRegular checkDeb o file).run proj f g.cache
    ({ g with cache := r.1 }, .ok (r.2.map (render (colourOf g.terminal g.captured))))
  else (g, .error .environmentNotPatched)

/-- sequential branch of `check_all`: `for path in paths: check_file(path)`; an exception ends the loop (and the run) -/
def seqRun (o : O) : G K' V → List F → G K' V × Except Err (List String)
  | g, [] => (g, .ok [])
  | g, file :: rest =>
    match step proj f unpackDeb checkRegular checkDeb colourOf render o g file with
    | (g1, .error e) => (g1, .error e)
    | (g1, .ok out) =>
      match seqRun o g1 rest with
      | (g2, .error e) => (g2, .error e)
      | (g2, .ok outs) => (g2, .ok (out ++ outs))

/-- `check_file_s(path, options=options)`: `sys.stdout = io.StringIO()`; `try: check_file(...)`; `finally: sys.stdout = orig_stdout`;
    returns what was captured.  The redirect is undone whether or not `check_file` raised. -/
def checkFileS (o : O) (g : G K' V) (file : F) : G K' V × Except Err (List String) :=
  let r := step proj f unpackDeb checkRegular checkDeb colourOf render o { g with captured := true } file
  ({ r.1 with captured := g.captured }, r.2)

/-- the per-file blocks of the sequential loop, one per file, each produced in the state its predecessors left behind -/
def seqBlocks (o : O) : G K' V → List F → List (Except Err (List String))
  | _, [] => []
  | g, file :: rest =>
    let r := step proj f unpackDeb checkRegular checkDeb colourOf render o g file
    r.2 :: seqBlocks o r.1 rest

/-- worker states of the process pool: every worker starts as a copy (fork) of the parent's state -/
def setWorker (W : Nat → G K' V) (w : Nat) (g : G K' V) : Nat → G K' V :=
  fun n => if n = w then g else W n

/-- `ProcessPoolExecutor.map(check_file_s, paths)`: `sched` lists (task index, worker) in the order in which the tasks are
    EXECUTED; each worker threads its own global state through the tasks it happens to get.  Result: (index, captured
    output) in completion order. -/
def parExec (o : O) (paths : List F) : List (Nat × Nat) → (Nat → G K' V) → List (Nat × Except Err (List String))
  | [], _ => []
  | (i, w) :: rest, W =>
    match paths[i]? with
    | none => parExec o paths rest W
    | some file =>
      let r := checkFileS proj f unpackDeb checkRegular checkDeb colourOf render o (W w) file
      (i, r.2) :: parExec o paths rest (setWorker W w r.1)

/-- results are consumed in SUBMISSION order; the first failed task re-raises in the parent -/
def collect : List (Option (Except Err (List String))) → Except Err (List String)
  | [] => .ok []
  | none :: rest => collect rest
  | some (.error e) :: _ => .error e
  | some (.ok out) :: rest =>
    match collect rest with
    | .error e => .error e
    | .ok outs => .ok (out ++ outs)

/-- `check_all(paths, options=options)`; the parent's state is untouched by the parallel branch (workers are processes) -/
def checkAll (o : O) (j : Nat) (g : G K' V) (paths : List F) (sched : List (Nat × Nat)) : G K' V × Except Err (List String) :=
  if paths.length ≤ 1 ∨ j ≤ 1 then seqRun proj f unpackDeb checkRegular checkDeb colourOf render o g paths
  else
    let done := parExec proj f unpackDeb checkRegular checkDeb colourOf render o paths sched (fun _ => g)
    (g, collect ((List.range paths.length).map (fun i => (done.find? (fun q => q.1 == i)).map (·.2))))

/-- `Checker.patch_environment()` -/
def patchEnvironment (g : G K' V) : Except Err (G K' V) :=
  if g.patched then .error .environmentAlreadyPatched else .ok { g with patched := true }

/-- `initialize_terminal()`: `if sys.stdout.isatty(): terminal.initialize()` — asked ONCE, of the real stdout (`tty` = it is a terminal
    with colours) -/
def initializeTerminal (tty : Bool) (g : G K' V) : G K' V := { g with terminal := tty }

/-- `main()` after option parsing: terminal, patch once, then `check_all`.  Exit status 0 when it returns (diagnostics do not
    change the exit status); an uncaught exception is a traceback and status 1. -/
def main (o : O) (j : Nat) (tty : Bool) (g : G K' V) (files : List F) (sched : List (Nat × Nat)) : Except Err (List String) × Nat :=
  match patchEnvironment (initializeTerminal tty g) with
  | .error e => (.error e, 1)
  | .ok g1 =>
    match (checkAll proj f unpackDeb checkRegular checkDeb colourOf render o j g1 files sched).2 with
    | .error e => (.error e, 1)
    | .ok out => (.ok out, 0)

/-- the state of a freshly started interpreter after importing lib/: nothing patched, nothing cached -/
def fresh : G K' V := { patched := false, cache := [] }

end Path

/-- the code: `tag.format(self.fake_path, *extra, color=True)` — whether escape sequences come out is decided by the terminal state of
    the process alone (`terminal.attr_fg` returns `''` unless `terminal.initialize()` ran) -/
def colourOfCode : Bool → Bool → Bool := fun terminal _captured => terminal

end I18n.CliState
