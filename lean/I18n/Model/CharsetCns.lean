import I18n.Model.Charset
import I18n.Generated.CharsetCns
/-!
# The CNS 11643 tables behind EUC-TW, as the system iconv implements them

`Generated.CharsetCns*` holds what glibc answered, unit by unit and character by character; here they become the two
parameters of the EUC-TW model (`eucTwUnit`, `eucTwDecode`, `eucTwEncode` in `Model/Charset.lean`).  A table is ONE natural
number (the kernel computes on literals with GMP): a look-up is a shift and a mask, tests are `Nat.ble` / `Nat.beq`.
Core Lean only.
-/
namespace I18n.Charset
open I18n.Generated.CharsetCns

/-- entry `i` of a plane table: 20 bits, 0 = iconv rejects the unit -/
def tableEntry (t i : Nat) : Nat := (t >>> (20 * i)) &&& 0xFFFFF

/-- a row or column byte -/
def inRange (x : Nat) : Bool := Nat.ble 0xA1 x && Nat.ble x 0xFE

/-- **the decoder's table**: the character of row byte `r`, column byte `c` (0xA1..0xFE) of plane `p` -/
def cnsReal : CnsTable := fun p r c =>
  bif inRange r && inRange c then
    let v := tableEntry (cnsPlane p) ((r - 0xA1) * 94 + (c - 0xA1))
    bif Nat.beq v 0 then none else some v
  else none

/-- entry of a character in the encoder's pages: 24 bits `p * 65536 + r * 256 + c`, 0 = iconv rejects the character -/
def invEntry (ch : Nat) : Nat := (invPage (ch / 4096) >>> (24 * (ch % 4096))) &&& 0xFFFFFF

/-- **the encoder's table**: the position iconv writes a character at -/
def invReal : CnsInverse := fun ch =>
  let w := invEntry ch
  bif Nat.beq w 0 then none else some (w / 65536, w / 256 % 256, w % 256)

/-! ## notions the theorems about the real tables are stated with -/

/-- the four-byte form of plane 1, and `8E A3 A1 B8` -/
def EucUnit.redundant : EucUnit → Bool
  | .four p r c _ => p == 1 || (p == 3 && r == 0xA1 && c == 0xB8)
  | _ => false

/-- no unit of the byte string is redundant -/
def eucTwNoRedundant (cns : CnsTable) : Nat → List UInt8 → Bool
  | 0, _ => true
  | fuel + 1, bs =>
    match eucTwUnit cns bs with
    | .ascii _ => eucTwNoRedundant cns fuel (bs.drop 1)
    | .two _ _ _ => eucTwNoRedundant cns fuel (bs.drop 2)
    | .four p r c ch => !(EucUnit.four p r c ch).redundant && eucTwNoRedundant cns fuel (bs.drop 4)
    | _ => true

/-- a character Python can hold in a `str` -/
def isScalar (c : Nat) : Bool := c ≤ 0x10FFFF && !(0xD800 ≤ c && c ≤ 0xDFFF)

/-- EUC-TW of the system iconv -/
def eucTwDecodeReal (bs : List UInt8) : Except (Nat × Bool) (List Nat) := eucTwDecode cnsReal bs
def eucTwEncodeReal (cs : List Nat) : Except Nat (List UInt8) := eucTwEncode invReal cs

end I18n.Charset
