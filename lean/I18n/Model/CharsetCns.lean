import I18n.Model.Charset
import I18n.Generated.CharsetCns
/-!
# The CNS 11643 tables behind EUC-TW, as the system iconv implements them

`Generated.CharsetCns*` holds what glibc answered, unit by unit and character by character; here they become the two
parameters of the EUC-TW model (`eucTwUnit`, `eucTwDecode`, `eucTwEncode` in `Model/Charset.lean`).  A table is ONE natural
number (the kernel computes on literals with GMP): a look-up is a shift and a mask, tests are `Nat.ble` / `Nat.beq`.
Core Lean only.
-/
namespace I18n.Charset
open I18n.Generated.CharsetCns

/-- entry `i` of a plane table: 20 bits, 0 = iconv rejects the unit -/
def tableEntry (t i : Nat) : Nat := (t >>> (20 * i)) &&& 0xFFFFF

/-- a row or column byte -/
def inRange (x : Nat) : Bool := Nat.ble 0xA1 x && Nat.ble x 0xFE

/-- **the decoder's table**: the character of row byte `r`, column byte `c` (0xA1..0xFE) of plane `p` -/
def cnsReal : CnsTable := fun p r c =>
  bif inRange r && inRange c then
    let v := tableEntry (cnsPlane p) ((r - 0xA1) * 94 + (c - 0xA1))
    bif Nat.beq v 0 then none else some v
  else none

/-- entry of a character in the encoder's pages: 24 bits `p * 65536 + r * 256 + c`, 0 = iconv rejects the character -/
def invEntry (ch : Nat) : Nat := (invPage (ch / 4096) >>> (24 * (ch % 4096))) &&& 0xFFFFFF

/-- **the encoder's table**: the position iconv writes a character at -/
def invReal : CnsInverse := fun ch =>
  let w := invEntry ch
  bif Nat.beq w 0 then none else some (w / 65536, w / 256 % 256, w % 256)

/-- EUC-TW of the system iconv -/
def eucTwDecodeReal (bs : List UInt8) : Except (Nat × Bool) (List Nat) := eucTwDecode cnsReal bs
def eucTwEncodeReal (cs : List Nat) : Except Nat (List UInt8) := eucTwEncode invReal cs

end I18n.Charset
