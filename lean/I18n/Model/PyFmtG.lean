import I18n.Generated.PyFmtConv
/-!
# The Python %-format parser with the REGENERATED `Conversion.__init__` in place of the modelled one

`Generated.PyFmtConv.Conversion.__init__` (rewritten from `lib/strformat/python.py` on every run) inside the hand-written loop of
`FormatString.__init__` (`PyFmt.loop`): run by the driver (`pyfmt gparse`) and proved equal to `PyFmt.parse` in `Props/C12Tie.lean`.
Core Lean only.
-/
namespace I18n.PyFmt.G
open I18n I18n.PyFmt I18n.Generated

/-- the keyword arguments `width=`, `var_width=`, `prec=`, `var_prec=` the scanner passes for a directive -/
def widthArgOf (d : Directive) : Option Int := match d.width with | .star => none | .num n => some (n : Int)
def varWidthOf (d : Directive) : Bool := match d.width with | .star => true | .num _ => false
def precArgOf (d : Directive) : Option Int := match d.prec with | some (.num n) => some (n : Int) | _ => none
def varPrecOf (d : Directive) : Bool := match d.prec with | some .star => true | _ => false

/-- `Conversion(self, s[i:j+1], …)` as regenerated, on a scanned directive (the directive text is represented by its last
    character, which is all `Conversion.__init__` looks at) -/
def conversionG (w : Bool) (st : St) (d : Directive) : Except PErr (St × String) :=
  (PyFmtConv.Conversion.__init__ w st [d.conv] d.key d.flags (widthArgOf d) (varWidthOf d) (precArgOf d) (varPrecOf d)
    d.length d.conv).map (fun r => (r.2, String.ofList r.1))

/-- the model's `loop` with the regenerated `Conversion.__init__` in place of `conversion` -/
def loopG (w : Bool) : Nat → List Char → List Char → St → Except PErr St
  | 0, _, _, _ => .error (.crash .NonTermination)
  | _ + 1, [], text, st => .ok (flush text st)
  | fuel + 1, c :: cs, text, st =>
    if c != '%' then loopG w fuel cs (c :: text) st
    else
      match scanDirective cs with
      | none => .error .Error
      | some (d, rest) =>
        let st := flush text st
        match conversionG w st d with
        | .error e => .error e
        | .ok (st, tp) => loopG w fuel rest [] { st with items := st.items ++ [.conv tp] }

/-- `FormatString(s)` with the regenerated `Conversion.__init__` (`w`: record warnings) -/
def parseWG (w : Bool) (s : List Char) : Except PErr Result :=
  match loopG w (s.length + 1) s [] St.init with
  | .error e => .error e
  | .ok st =>
    let gs := groups st.map
    if gs.all (fun g => sameType g.2) then
      .ok { seq := st.seq, seqConversions := st.seq.filter (fun e => e.kind == .conv), map := gs, warnings := st.warnings, items := st.items }
    else .error .ArgumentTypeMismatch

def parseG (s : List Char) : Except PErr Result := parseWG true s

end I18n.PyFmt.G
