import I18n.Generated.ChkPlurals
import I18n.Generated.GettextPf
/-!
The regenerated `check_plurals_tail` (Generated/ChkPlurals.lean) over the regenerated pieces it calls: the expression objects of
lib/intexpr.py at their default width (`bits=32`; `Plural.evalAt/codomain/period` are the regenerated evaluators of C03–C06 behind
`Expression.__call__/codomain/period`) and the regenerated strict `gettext.parse_plural_forms` (Generated/GettextPf.lean).
-/
namespace I18n.CheckPlurals.GenChk
open I18n I18n.Generated

/-- what `check_plurals` does with expression objects -/
def pluralOps : Py.ExprOps Expr where
  call e i := Plural.evalAt 32 i e
  codomain := Plural.codomain 32
  period := Plural.period 32
  parse s := Py.liftPf (GettextPf.parse_plural_forms_strict s)

/-- `check_plurals` with everything after the parse of the header value REGENERATED (`check_plurals_tail`: the three seams and their glue);
    the part before the parse (duplicates, the scan over the messages, the hint, the early exits) is the model's — the glue that stays
    hand-written.  Run against CPython by the `check-plurals-generated` stream. -/
def checkPlurals (inp : Input) : Except I18n.Py.Exc Output :=
  let dup : Bool := inp.pluralForms.length > 1
  let dupTag : List TagCall := if dup then [⟨"duplicate-header-field-plural-forms", []⟩] else []
  let pfs : List (List Char) := if dup then sortedSet inp.pluralForms else inp.pluralForms
  if pfs.length > 1 then .ok ⟨dupTag, none⟩
  else
    let (hp, expected) := scanMsgs inp.msgs false []
    let t1 : List TagCall :=
      if expected.length > 1 then
        let args : List Extra := ((sortExpected expected).map fun p => [Extra.int p.1, .safe p.2, .str "!=".toList]).flatten
        [⟨"inconsistent-number-of-plural-forms", args.dropLast⟩]
      else []
    let hint := hintOf inp
    let tags0 := dupTag ++ t1
    match pfs.head? with
    | none =>
      if hp then
        if !expected.isEmpty then .ok ⟨tags0 ++ [⟨"no-required-plural-forms-header-field", [hint]⟩], none⟩
        else .ok ⟨tags0 ++ [⟨"no-plural-forms-header-field", [hint]⟩], none⟩
      else .ok ⟨tags0, none⟩
    | some pf =>
      if inp.isTemplate then .ok ⟨tags0, none⟩
      else
        match parsePluralForms pf with
        | .valueError => .error .ValueError
        | .syntaxError => .ok ⟨tags0 ++ [⟨tagName "syntax-error-in" hp, [.str pf, .str "=>".toList, hint]⟩], none⟩
        | .ok n e lj rj =>
          match ChkPlurals.check_plurals_tail pluralOps tags0 none pf hint hp expected inp.correct n e lj rj with
          | .error ex => .error ex
          | .ok (tags, pre) => .ok ⟨tags, pre⟩

end I18n.CheckPlurals.GenChk
