import I18n.Generated.ChkPlurals
import I18n.Generated.GettextPf
/-!
The regenerated `check_plurals_tail` (Generated/ChkPlurals.lean) over the regenerated pieces it calls: the expression objects of
lib/intexpr.py at their default width (`bits=32`; `Plural.evalAt/codomain/period` are the regenerated evaluators of C03–C06 behind
`Expression.__call__/codomain/period`) and the regenerated strict `gettext.parse_plural_forms` (Generated/GettextPf.lean).
-/
namespace I18n.CheckPlurals.GenChk
open I18n I18n.Generated

/-- what `check_plurals` does with expression objects -/
def pluralOps : Py.ExprOps Expr where
  call e i := Plural.evalAt 32 i e
  codomain := Plural.codomain 32
  period := Plural.period 32
  parse s := Py.liftPf (GettextPf.parse_plural_forms_strict s)

end I18n.CheckPlurals.GenChk
