import I18n.Generated.Intexpr
/-
`Expression.__call__ / codomain / period` (lib/intexpr.py:694-717): the only hand-written glue
around the generated evaluators — `self._ctxt.max = 1 << bits`.  Tied by the
`plural-eval`, `plural-codomain`, `plural-period` correspondence streams.
-/
namespace I18n.Plural
open I18n I18n.Generated.Intexpr

/-- `Expression.__call__(n, bits=bits)` -/
def evalAt (bits : Nat) (n : Int) (e : Expr) : Except Py.Exc Int :=
  Evaluator.visit ((2 : Int) ^ bits) n e

/-- `Expression.codomain(bits=bits)` -/
def codomain (bits : Nat) (e : Expr) : Except Py.Exc (Option (Int × Int)) :=
  Codomain.visit ((2 : Int) ^ bits) e

/-- `Expression.period(bits=bits)` -/
def period (bits : Nat) (e : Expr) : Except Py.Exc (Option (Int × Int)) :=
  Period.visit ((2 : Int) ^ bits) e

/-- the observable outcome of an evaluation: the value, or "failed" (all failures identified) -/
def outcome (bits : Nat) (n : Int) (e : Expr) : Option Int :=
  match evalAt bits n e with
  | .ok v => some v
  | .error _ => none

end I18n.Plural
