import I18n.Model.FmtCheckGen
import I18n.Generated.FmtMsg
/-!
# `_check_message_formats` over the REGENERATED `check_message` and the regenerated `check_args`

`Model/FmtCheckGen.lean` replaced the comparators; here `check_message` itself is the definition regenerated from
`lib/check/msgformat/__init__.py` (`Generated.FmtMsg.check_message`).  `Props/C14MsgTie.lean` proves it equal to the model; the
driver runs it in the `-generated-msg` twin streams.  Core Lean only.
-/
namespace I18n.FmtCheck.GenMsg
open I18n I18n.FmtSig I18n.Generated

def check (ctx : Ctx) (fl : Flags) : KMsg → Except Py.Exc (List TagCall)
  | .c m => FmtMsg.check_message Gen.cBackend [] ctx m fl
  | .python m => FmtMsg.check_message Gen.pyBackend [] ctx m fl
  | .pyBrace m => FmtMsg.check_message Gen.pyBraceBackend [] ctx m fl
  | .perlBrace m => FmtMsg.check_message Gen.perlBraceBackend [] ctx m fl
  | .pyBraceStr m => FmtMsg.check_message Gen.pyBraceStrBackend [] ctx m fl
  | .perlBraceStr m => FmtMsg.check_message Gen.perlBraceStrBackend [] ctx m fl
  | .other => .ok []

def runAll (ctx : Ctx) (fl : Flags) : List (List Char × KMsg) → Except Py.Exc (List TagCall)
  | [] => .ok []
  | (name, m) :: rest =>
    if checkerNames.contains name then
      match check ctx fl m with
      | .error e => .error e
      | .ok t =>
        match runAll ctx fl rest with
        | .error e => .error e
        | .ok ts => .ok (t ++ ts)
    else runAll ctx fl rest

def checkFormats (ctx : Ctx) (fl : Flags) (formats : List (List Char × KMsg)) : Except Py.Exc (List TagCall) :=
  runAll ctx fl (sortBy nameLt formats)

end I18n.FmtCheck.GenMsg
