/- Tag calls as the checker makes them: `self.tag(name, *extras)` with typed extras. -/
namespace I18n

inductive Extra where
  | str (s : List Char)      -- a Python str: will be escaped by `tags._escape`
  | safe (s : List Char)     -- a `tags.safestr`: printed verbatim
  | int (n : Int)
  deriving DecidableEq, Repr, Inhabited

structure TagCall where
  name : String
  extras : List Extra
  deriving DecidableEq, Repr, Inhabited

end I18n
