import I18n.Model.PluralParse
import I18n.Generated.PluralGrammar
/-
The lexer, regenerated from the source: an interpreter for the regular expressions that lib/intexpr.py hands to
rply (`Generated.PluralGrammar.lexerRules` / `ignoreRules`, dumped from the live `Lexer` object on every run), driven
by rply's `LexerStream.next` loop.  `Props.C04.lex_regex_eq` proves that this is the same function as the
hand-written `PluralParse.lex`.

* `parseRegex` reads the subset of Python's `re` syntax the rules use: a sequence of atoms — a literal character or
  a class `[...]` of literal members, `a-b` ranges and the escapes `\t` and `\<punctuation>` — each optionally followed by `+` or `?`.
  Anything else (other metacharacters, other escapes, negated classes, lazy/stacked quantifiers) is *not read*:
  `none`, and the lexer's outcome is `crash`.  No regex flag is set (`Generated.PluralGrammar.extraFlags = []`).
* `matchRe` is `re.match` at the current position: leftmost alternative first, greedy quantifiers with
  backtracking; it returns the length of the match Python would return.
* `lexLoop` is `LexerStream.next` iterated to exhaustion: at the end of the input stop; if an ignore rule matches,
  skip the match and start over; else the first rule (in declaration order) that matches yields a token of that
  name and text; no rule matches → `LexingError`.
* `toTok` turns (rule name, text) into the token value the parser model works with (`tok.getstr()` looked up in
  `ast_bool`/`ast_cmp`/`ast_arithmetic`, `int(tok.getstr())`).
-/
namespace I18n.PluralLex
open I18n I18n.PluralParse

/-- a character class: literal members and inclusive ranges (a literal character is a one-member class) -/
structure Atom where
  members : List Char
  ranges : List (Char × Char)
  deriving DecidableEq, Repr

inductive Quant where
  | one | plus | opt
  deriving DecidableEq, Repr

abbrev Regex := List (Atom × Quant)

def Atom.matches (a : Atom) (c : Char) : Bool :=
  a.members.contains c || a.ranges.any fun r => decide (r.1 ≤ c) && decide (c ≤ r.2)

/-- `\c` for an ASCII punctuation character `c` is the literal `c` in Python's `re` (letters and digits after a
    backslash are classes, anchors or back-references: not read here, except `\t`) -/
def isPunctEscapable (c : Char) : Bool :=
  ['!', '"', '#', '$', '%', '&', '\'', '(', ')', '*', '+', ',', '-', '.', '/', ':', ';', '<', '=', '>', '?', '@', '[', '\\', ']',
   '^', '_', '`', '{', '|', '}', '~', ' '].contains c

/-- characters that mean something outside a class in Python's `re` -/
def isMeta (c : Char) : Bool := ['.', '^', '$', '*', '+', '?', '{', '}', '(', ')', '|', '\\', '[', ']'].contains c

/-- the inside of `[...]`, after the opening bracket; returns the class and what follows the closing bracket -/
def parseClass : Nat → List Char → Atom → Option (Atom × List Char)
  | 0, _, _ => none
  | _ + 1, [], _ => none
  | _ + 1, ']' :: rest, a => if a.members.isEmpty && a.ranges.isEmpty then none else some (a, rest)
  | f + 1, '\\' :: 't' :: rest, a => parseClass f rest { a with members := a.members ++ ['\t'] }
  | f + 1, '\\' :: c :: rest, a =>
    -- an escaped punctuation character is itself; as a range bound it is not read
    if isPunctEscapable c && !(rest.head? == some '-' && rest.tail.head? != some ']') then
      parseClass f rest { a with members := a.members ++ [c] }
    else none
  | _ + 1, ['\\'], _ => none
  | f + 1, lo :: '-' :: hi :: rest, a =>
    if hi = ']' then parseClass f ('-' :: hi :: rest) { a with members := a.members ++ [lo] }
    else if hi = '\\' || hi = '[' then none
    else parseClass f rest { a with ranges := a.ranges ++ [(lo, hi)] }
  | f + 1, c :: rest, a =>
    if c = '^' && a.members.isEmpty && a.ranges.isEmpty then none
    else if c = '[' then none
    else parseClass f rest { a with members := a.members ++ [c] }

def insertChar (c : Char) : List Char → List Char
  | [] => [c]
  | d :: ds => if c.toNat < d.toNat then c :: d :: ds else if c = d then d :: ds else d :: insertChar c ds

/-- the order and multiplicity of the members of a class do not matter: sort them -/
def Atom.norm (a : Atom) : Atom := { a with members := a.members.foldr insertChar [] }

def parseQuant (a : Atom) : List Char → (Atom × Quant) × List Char
  | '+' :: rest => ((a, .plus), rest)
  | '?' :: rest => ((a, .opt), rest)
  | rest => ((a, .one), rest)

def parseRegexGo : Nat → List Char → Option Regex
  | 0, _ => none
  | _ + 1, [] => some []
  | f + 1, '[' :: rest =>
    match parseClass (rest.length + 1) rest ⟨[], []⟩ with
    | none => none
    | some (a, rest') =>
      let (q, rest'') := parseQuant a.norm rest'
      (parseRegexGo f rest'').map (q :: ·)
  | f + 1, '\\' :: c :: rest =>
    if c = 't' || isPunctEscapable c then
      let (q, rest') := parseQuant ⟨[if c = 't' then '\t' else c], []⟩ rest
      (parseRegexGo f rest').map (q :: ·)
    else none
  | f + 1, c :: rest =>
    if isMeta c then none
    else
      let (q, rest') := parseQuant ⟨[c], []⟩ rest
      (parseRegexGo f rest').map (q :: ·)

def parseRegex (s : String) : Option Regex := parseRegexGo (s.length + 1) s.toList

def orElse' : Option Nat → Option Nat → Option Nat
  | some n, _ => some n
  | none, o => o

/-- `a+` followed by the continuation `k`: as many as possible, giving back one at a time -/
def plusLoop (a : Atom) (k : List Char → Option Nat) : List Char → Option Nat
  | [] => none
  | c :: s => if a.matches c then (orElse' (plusLoop a k s) (k s)).map (· + 1) else none

/-- `re.match(regex, s)`: length of the match, if any -/
def matchRe : Regex → List Char → Option Nat
  | [], _ => some 0
  | (a, .one) :: r, s =>
    match s with
    | c :: s' => if a.matches c then (matchRe r s').map (· + 1) else none
    | [] => none
  | (a, .opt) :: r, s =>
    orElse' (match s with
      | c :: s' => if a.matches c then (matchRe r s').map (· + 1) else none
      | [] => none) (matchRe r s)
  | (a, .plus) :: r, s => plusLoop a (matchRe r) s

def firstMatch : List (String × Regex) → List Char → Option (String × Nat)
  | [], _ => none
  | (name, re) :: rs, s =>
    match matchRe re s with
    | some n => some (name, n)
    | none => firstMatch rs s

def ignoreMatch : List Regex → List Char → Option Nat
  | [], _ => none
  | re :: rs, s =>
    match matchRe re s with
    | some n => some n
    | none => ignoreMatch rs s

def decimal (ds : List Char) : Nat := ds.foldl (fun v c => v * 10 + digitVal c) 0

/-- token value from the rule name and the matched text -/
def toTok (name : String) (text : List Char) : Option Tok :=
  if name = "IF" then some .qm
  else if name = "ELSE" then some .colon
  else if name = "OR" then some (.bool .or)
  else if name = "AND" then some (.bool .and)
  else if name = "EQ" then (if text = ['=', '='] then some (.cmp .eq) else if text = ['!', '='] then some (.cmp .noteq) else none)
  else if name = "CMP" then
    (if text = ['<'] then some (.cmp .lt) else if text = ['<', '='] then some (.cmp .lte)
     else if text = ['>'] then some (.cmp .gt) else if text = ['>', '='] then some (.cmp .gte) else none)
  else if name = "ADDSUB" then (if text = ['+'] then some (.bin .add) else if text = ['-'] then some (.bin .sub) else none)
  else if name = "MULDIV" then
    (if text = ['*'] then some (.bin .mult) else if text = ['/'] then some (.bin .div) else if text = ['%'] then some (.bin .mod) else none)
  else if name = "NOT" then some .not
  else if name = "LPAR" then some .lpar
  else if name = "RPAR" then some .rpar
  else if name = "VAR" then some .var
  else if name = "INT" then some (.int (decimal text))      -- `int()`: no digit limit (`PluralParse.maxStrDigits = 0`, pinned)
  else none

inductive Out where
  | ok (ts : List Tok)
  | lexingError
  | crash
  deriving DecidableEq, Repr

def Out.cons (t : Tok) : Out → Out
  | .ok ts => .ok (t :: ts)
  | o => o

/-- `LexerStream.next` until `StopIteration` -/
def lexLoop (rules : List (String × Regex)) (ignore : List Regex) : Nat → List Char → Out
  | 0, _ => .crash
  | f + 1, s =>
    if s.isEmpty then .ok []
    else
      match ignoreMatch ignore s with
      | some n => if n = 0 then .crash else lexLoop rules ignore f (s.drop n)
      | none =>
        match firstMatch rules s with
        | none => .lexingError
        | some (name, n) =>
          if n = 0 then .crash
          else
            match toTok name (s.take n) with
            | none => .crash
            | some t => (lexLoop rules ignore f (s.drop n)).cons t

def parseRules (rs : List (String × String)) : Option (List (String × Regex)) :=
  rs.mapM fun r => (parseRegex r.2).map fun re => (r.1, re)

/-- the lexer built from the dumped rules -/
def lex (s : List Char) : Out :=
  match parseRules Generated.PluralGrammar.lexerRules, Generated.PluralGrammar.ignoreRules.mapM parseRegex with
  | some rules, some ignore => lexLoop rules ignore (s.length + 1) s
  | _, _ => .crash

end I18n.PluralLex
