/-
Primitives shared by the hand-written model of `lib/moparser.py` (`I18n/Model/Mo.lean`) and by the definitions that
`tools/translate/mo2lean.py` regenerates from the current source (`I18n/Generated/MoParser.lean`): the error type,
the codec parameter, CPython's `bytes`/`memoryview`/`struct`/`re` operations the parser uses, the entry record.
Core Lean only.  The second half (`namespace I18n.Mo.Py`) is the target language of the translator: one Lean
function per Python operation, partial operations explicit (`Except Err`).
-/
namespace I18n.Mo


abbrev Bytes := List UInt8
abbrev Text := List Char

/-- message classes of `moparser.SyntaxError` -/
inductive SynErr where
  | truncated             -- 'truncated file'
  | magic                 -- 'unexpected magic'
  | major (n : Nat)       -- f'unexpected major revision number: {n}'
  | msgidNotTerminated    -- 'msgid is not null-terminated'
  | msgidNul              -- 'unexpected null byte in msgid'
  | msgstrNotTerminated   -- 'msgstr is not null-terminated'
  | msgstrNul             -- 'unexpected null byte in msgstr'
  | duplicate             -- 'duplicate message definition'
  | notSorted             -- 'messages are not sorted'
  deriving DecidableEq, Repr

/-- exceptions the code is not written to raise (each is a Python partial operation present in the source) -/
inductive Crash where
  | structError        -- struct.unpack: buffer size ≠ calcsize
  | unpackValueError   -- `[a, b] = …` with the wrong number of items
  | typeError          -- `bytes < None`
  | assertion          -- `assert …`
  | indexError         -- `xs[i]` out of range (caught by the source's `except IndexError`)
  | other (name : String)   -- any other exception class (`ZeroDivisionError`, `NotImplementedError`, …)
  deriving DecidableEq, Repr

inductive Err where
  | syntax (e : SynErr)   -- moparser.SyntaxError
  | decode                -- UnicodeDecodeError
  | crash (c : Crash)
  deriving DecidableEq, Repr

/-- Python codecs as seen by the parser.  Encoding names are ASCII strings, kept as bytes.
    `decode name bs = none` is `UnicodeDecodeError`.  (`LookupError` cannot arise: `decode` is only called
    with `'ASCII'` or with a name for which `is_ascii_compatible_encoding` just decoded successfully.) -/
structure CodecDB where
  /-- `lib.encodings.is_ascii_compatible_encoding(name)` -/
  asciiCompatible : Bytes → Bool
  /-- `bs.decode(name)` -/
  decode : Bytes → Bytes → Option Text

/-- `'ASCII'` -/
def asciiName : Bytes := [65, 83, 67, 73, 73]
/-- `'ISO-8859-1'` -/
def latin1Name : Bytes := [73, 83, 79, 45, 56, 56, 53, 57, 45, 49]

def leMagic : Bytes := [0xDE, 0x12, 0x04, 0x95]
def beMagic : Bytes := [0x95, 0x04, 0x12, 0xDE]

/-- `view[b:e]` for `0 ≤ b, e` (slices clamp) -/
def slice (v : Bytes) (b e : Nat) : Bytes := (v.take e).drop b

/-- one `I` item of `struct.unpack` -/
def word (be : Bool) (a b c d : UInt8) : Nat :=
  if be then ((a.toNat * 256 + b.toNat) * 256 + c.toNat) * 256 + d.toNat
  else a.toNat + 256 * (b.toNat + 256 * (c.toNat + 256 * d.toNat))

/-- `struct.unpack(endian + 'I' * n, buf)`: `struct.error` unless `len(buf) == 4 * n` -/
def unpack (be : Bool) : Nat → Bytes → Except Err (List Nat)
  | 0, [] => .ok []
  | n + 1, a :: b :: c :: d :: rest =>
    match unpack be n rest with
    | .ok ws => .ok (word be a b c d :: ws)
    | .error e => .error e
  | _, _ => .error (.crash .structError)

/-- `bs.split(sep, k)` (at most `k` splits, from the left) -/
def split (sep : UInt8) : Nat → Bytes → List Bytes
  | _, [] => [[]]
  | 0, b :: bs => [b :: bs]
  | k + 1, b :: bs =>
    if b = sep then [] :: split sep k bs
    else match split sep (k + 1) bs with
      | p :: ps => (b :: p) :: ps
      | [] => [[b]]

/-- `bs.split(sep)` -/
def splitAll (sep : UInt8) : Bytes → List Bytes
  | [] => [[]]
  | b :: bs =>
    if b = sep then [] :: splitAll sep bs
    else match splitAll sep bs with
      | p :: ps => (b :: p) :: ps
      | [] => [[b]]

/-- `a < b` on `bytes` -/
def bytesLt : Bytes → Bytes → Bool
  | [], [] => false
  | [], _ :: _ => true
  | _ :: _, [] => false
  | a :: as, b :: bs => if a < b then true else if b < a then false else bytesLt as bs

/-- `b'charset='` -/
def charsetKey : Bytes := [99, 104, 97, 114, 115, 101, 116, 61]

/-- `[ \t\n]` -/
def isDelim (b : UInt8) : Bool := b == 32 || b == 9 || b == 10

/-- `re.search(b'charset=([^ \t\n]+)', s)` → group 1: leftmost position where `charset=` is followed by
    at least one non-delimiter; the group is the maximal run (greedy, no backtracking needed). -/
def findCharset : Bytes → Option Bytes
  | [] => none
  | b :: bs =>
    if charsetKey.isPrefixOf (b :: bs) then
      let run := ((b :: bs).drop 8).takeWhile (fun c => !isDelim c)
      if run.isEmpty then findCharset bs else some run
    else findCharset bs

inductive Body where
  | singular (msgstr : Text)
  | plural (msgidPlural : Text) (msgstrPlural : List Text)   -- `{i: s for i, s in enumerate(…)}`
  deriving DecidableEq, Repr

/-- the keyword arguments of `polib.MOEntry(**kwargs)` -/
structure Entry where
  msgid : Text
  msgctxt : Option Text
  body : Body
  deriving DecidableEq, Repr

structure MoFile where
  entries : List Entry
  possibleHiddenStrings : Bool
  deriving DecidableEq, Repr

def dec (db : CodecDB) (enc : Bytes) (b : Bytes) : Except Err Text :=
  match db.decode enc b with
  | some t => .ok t
  | none => .error .decode

def decAll (db : CodecDB) (enc : Bytes) : List Bytes → Except Err (List Text)
  | [] => .ok []
  | b :: bs =>
    match dec db enc b with
    | .error e => .error e
    | .ok t =>
      match decAll db enc bs with
      | .error e => .error e
      | .ok ts => .ok (t :: ts)

/-! ## Python operations: the target language of `tools/translate/mo2lean.py` -/
namespace Py

/-- `struct.unpack(fmt, buf)` for formats `'<' + 'I'*n` and `'>' + 'I'*n` (standard size, no alignment):
    `struct.error` unless `len(buf) == 4*n`.  Any other format string is outside the kit and reported as the
    distinguished outcome `other "struct-format"` (never produced for the formats above). -/
def structUnpack (fmt buf : Bytes) : Except Err (List Nat) :=
  match fmt with
  | 60 :: items => if items.all (· == 73) then unpack false items.length buf else .error (.crash (.other "struct-format"))
  | 62 :: items => if items.all (· == 73) then unpack true items.length buf else .error (.crash (.other "struct-format"))
  | _ => .error (.crash (.other "struct-format"))

/-- `view[i]` on a `memoryview` cast to `'c'` (`i ≥ 0`): a `bytes` object of length one, or `IndexError` -/
def viewIndex (v : Bytes) (i : Nat) : Except Err Bytes :=
  match v[i]? with
  | some c => .ok [c]
  | none => .error (.crash .indexError)

/-- `xs[i]` on a list (`i ≥ 0`) -/
def listGet {α : Type} (xs : List α) (i : Nat) : Except Err α :=
  match xs[i]? with
  | some x => .ok x
  | none => .error (.crash .indexError)

/-- `divmod(a, b)` on non-negative ints -/
def divmod (a b : Nat) : Except Err (Nat × Nat) :=
  if b = 0 then .error (.crash (.other "ZeroDivisionError")) else .ok (a / b, a % b)

/-- `bs.decode('ASCII')` for a value that is then used as an encoding NAME: names are kept as their ASCII bytes
    (exact: the decode succeeds iff every byte is < 128 and then the code points are the bytes) -/
def decodeAsciiName (bs : Bytes) : Except Err Bytes :=
  if bs.all (· < 128) then .ok bs else .error .decode

/-- `except IndexError:` -/
def isIndexError : Err → Bool
  | .crash .indexError => true
  | _ => false

/-- `except UnicodeError:` (the only member of the family in `Err` is `UnicodeDecodeError`) -/
def isUnicodeError : Err → Bool
  | .decode => true
  | _ => false

/-- `try: body  except <class>: handler` (no `as`, no `else`/`finally`); `body`/`handler` deliver the variables
    assigned in them that are used afterwards -/
def tryExcept {α : Type} (body : Except Err α) (caught : Err → Bool) (handler : Except Err α) : Except Err α :=
  match body with
  | .ok v => .ok v
  | .error e => if caught e then handler else .error e

/-- `[f(x) for x in xs]` / `{i: f(x) for i, x in enumerate(xs)}` (keys `0..n-1` = list positions), left to right -/
def mapM {α β : Type} (f : α → Except Err β) : List α → Except Err (List β)
  | [] => .ok []
  | x :: xs =>
    match f x with
    | .error e => .error e
    | .ok y =>
      match mapM f xs with
      | .error e => .error e
      | .ok ys => .ok (y :: ys)

/-- `for i in range(n): body` over the loop-carried variables `σ` (no `break`/`continue`/`return` inside);
    first argument: iterations left, second: the current `i` -/
def forRangeFrom {σ : Type} (body : Nat → σ → Except Err σ) : Nat → Nat → σ → Except Err σ
  | 0, _, s => .ok s
  | k + 1, i, s =>
    match body i s with
    | .error e => .error e
    | .ok s' => forRangeFrom body k (i + 1) s'

def forRange {σ : Type} (n : Nat) (body : Nat → σ → Except Err σ) (s : σ) : Except Err σ :=
  forRangeFrom body n 0 s

/-- the keyword arguments collected for `polib.MOEntry(**kwargs)` -/
structure Kwargs where
  msgid : Option Text := none
  msgctxt : Option Text := none
  msgstr : Option Text := none
  msgid_plural : Option Text := none
  msgstr_plural : Option (List Text) := none

/-- `polib.MOEntry(**kwargs)` as the harness reads the entry back.  Only the two shapes the parser builds are
    in the kit (`msgid` + `msgstr`; `msgid` + `msgid_plural` + `msgstr_plural`, each with or without `msgctxt`);
    any other combination is the distinguished outcome `other "MOEntry-kwargs"`. -/
def Kwargs.toEntry (kw : Kwargs) : Except Err Entry :=
  match kw.msgid, kw.msgstr, kw.msgid_plural, kw.msgstr_plural with
  | some i, some s, none, none => .ok ⟨i, kw.msgctxt, .singular s⟩
  | some i, none, some p, some fs => .ok ⟨i, kw.msgctxt, .plural p fs⟩
  | _, _, _, _ => .error (.crash (.other "MOEntry-kwargs"))

end Py

end I18n.Mo
