import I18n.Model.CFmtRe
/-!
# The Python operations `tools/translate/cfmtconv2lean.py` translates `Conversion.__init__` into

Target language of the shallow translation of the decision code of `lib/strformat/c.py` (the part of `Conversion.__init__`
after the type has been determined — flags, width, precision, index — and `FormatString.add_argument`).  One Lean function per
Python operation; operations that can raise are explicit (`R = Except CErr`, Python-level exceptions as `CErr.crash`).
Local variables are dynamically typed, as in Python (`Val`): `width` is a `str`, then an `int`, then `...`.
Core Lean only.
-/
namespace I18n.CFmt.Py
open I18n.Spec.Printf (Directive Width Prec Body Entry ArgKind renderIdx)
open I18n.Generated.CFormatTables (NL_ARGMAX INT_MAX variableWidthType variablePrecisionType)

/-- the values local variables take in the translated code -/
inductive Val
  | none
  | str (s : List Char)
  | int (n : Nat)
  | ellipsis
  deriving DecidableEq, Repr, Inhabited

abbrev R := Except CErr

/-- `raise <Class>(…)`: the module's own classes by name; `IndexError` / `OverflowError` (raised by `add_argument` for its
    callers to catch), anything else is a crash -/
def raiseOf (cls : String) : CErr :=
  if cls = "Error" then .Error
  else if cls = "ForbiddenArgumentIndex" then .ForbiddenArgumentIndex
  else if cls = "ArgumentRangeError" then .ArgumentRangeError
  else if cls = "MissingArgument" then .MissingArgument
  else if cls = "ArgumentTypeMismatch" then .ArgumentTypeMismatch
  else if cls = "ArgumentNumberingMixture" then .ArgumentNumberingMixture
  else if cls = "LengthError" then .LengthError
  else if cls = "FlagError" then .FlagError
  else if cls = "WidthError" then .WidthError
  else if cls = "WidthRangeError" then .WidthRangeError
  else if cls = "PrecisionError" then .PrecisionError
  else if cls = "PrecisionRangeError" then .PrecisionRangeError
  else if cls = "IndexError" then .crash .IndexError
  else if cls = "OverflowError" then .crash .Overflow
  else if cls = "AssertionError" then .crash .AssertionError
  else if cls = "ValueError" then .crash .ValueError
  else if cls = "TypeError" then .crash .TypeError
  else .crash .NotImplemented

/-- warning classes by name (`parent.warn(<Class>, …)`) -/
def warnOf (cls : String) : Warn :=
  if cls = "NonPortableConversion" then .NonPortableConversion else .RedundantFlag

/-! ## control -/

/-- `if c: a else: b` where evaluating `c` may raise -/
def ite {α : Type} (c : R Bool) (a b : R α) : R α :=
  match c with
  | .error e => .error e
  | .ok true => a
  | .ok false => b

def bind {α β : Type} (x : R α) (k : α → R β) : R β :=
  match x with
  | .error e => .error e
  | .ok v => k v

/-- `try: x except <exc>: h` for one exception class (a Python-level exception, i.e. `CErr.crash exc`) -/
def except1 {α : Type} (x : R α) (exc : I18n.Py.Exc) (h : R α) : R α :=
  match x with
  | .error (.crash e) => if e = exc then h else .error (.crash e)
  | other => other

/-- `a and b` (short circuit: `b` is evaluated only when `a` is true) -/
def andR (a b : R Bool) : R Bool :=
  match a with
  | .error e => .error e
  | .ok false => .ok false
  | .ok true => b

def notR (a : R Bool) : R Bool :=
  match a with
  | .error e => .error e
  | .ok b => .ok (!b)

/-! ## values -/

def isNone : Val → Bool
  | .none => true
  | _ => false

/-- truth value (`if x:`) -/
def truthy : Val → Bool
  | .none => false
  | .str s => !s.isEmpty
  | .int n => n != 0
  | .ellipsis => true

/-- `a == b` on values (never raises; values of different types are unequal) -/
def eq (a b : Val) : Bool := a == b

/-- `a or b` -/
def orV (a b : Val) : Val := if truthy a then a else b

/-- `s` occurs in `hay` as a substring -/
def isInfix (s : List Char) : List Char → Bool
  | [] => s.isEmpty
  | c :: hay => s.isPrefixOf (c :: hay) || isInfix s hay

/-- `x in '<chars>'`: substring test; `TypeError` unless `x` is a `str` -/
def inStr (x : Val) (hay : List Char) : R Bool :=
  match x with
  | .str [c] => .ok (hay.contains c)
  | .str s => .ok (isInfix s hay)
  | _ => .error (.crash .TypeError)

/-- `x in {a, b, …}` (set display of strings): equality with a member -/
def inSet (x : Val) (members : List Val) : Bool := members.contains x

/-- `int(x)` for a `str` of ASCII digits (CPython's digit limit as in the model: `IntFits`); anything else that can reach
    it here — `None`, the empty string, a non-digit — raises -/
def int (x : Val) : R Val :=
  match x with
  | .str ds =>
    if ds.isEmpty || !ds.all Char.isDigit then .error (.crash .ValueError)
    else if IntFits ds.length then .ok (.int (I18n.Spec.Printf.decimal ds)) else .error (.crash .ValueError)
  | .int n => .ok (.int n)
  | _ => .error (.crash .TypeError)

/-- `x.rstrip('$')` -/
def rstripDollar (x : Val) : R Val :=
  match x with
  | .str s => .ok (.str (I18n.CFmt.rstripDollar s))
  | _ => .error (.crash .AttributeError)

/-- `a < b` on ints (`TypeError` otherwise) -/
def lt (a b : Val) : R Bool :=
  match a, b with
  | .int x, .int y => .ok (decide (x < y))
  | _, _ => .error (.crash .TypeError)

def le (a b : Val) : R Bool :=
  match a, b with
  | .int x, .int y => .ok (decide (x ≤ y))
  | _, _ => .error (.crash .TypeError)

def gt (a b : Val) : R Bool := lt b a

/-! ## `collections.Counter(str)` -/

abbrev Counter := List (Char × Nat)

/-- `collections.Counter(s)`: keys in first-occurrence order with their counts -/
def counter (x : Val) : R Counter :=
  match x with
  | .str s => .ok ((distinct s).map fun c => (c, s.count c))
  | _ => .error (.crash .TypeError)

/-- `x in counter` -/
def counterHas (c : Counter) (x : Val) : Bool :=
  match x with
  | .str [ch] => c.any (fun p => p.1 == ch)
  | _ => false

/-- `for key, count in counter.items(): body` -/
def forItems (body : Val → Val → St → R St) : Counter → St → R St
  | [], st => .ok st
  | (k, n) :: rest, st =>
    match body (.str [k]) (.int n) st with
    | .error e => .error e
    | .ok st => forItems body rest st

/-! ## the match object and the parent `FormatString` -/

def idxVal : Option (List Char) → Val
  | none => .none
  | some ds => .str (ds ++ ['$'])
def widthVal : Width → Val
  | .num ds => .str ds
  | _ => .none
def varwidthVal : Width → Val
  | .star _ => .str ['*']
  | _ => .none
def varwidthIndexVal : Width → Val
  | .star i => idxVal i
  | _ => .none
def precVal : Prec → Val
  | .num ds => .str ds
  | _ => .none
def varprecVal : Prec → Val
  | .star _ => .str ['*']
  | _ => .none
def varprecIndexVal : Prec → Val
  | .star i => idxVal i
  | _ => .none

/-- `match.group(name)` for the named groups, as a function of the directive the match decodes to
    (`Props.C11Tie.match_decodes`: the group texts of a real match are these) -/
def groupOf (d : Directive) (name : String) : Val :=
  if name = "index" then idxVal d.index
  else if name = "flags" then .str d.flags
  else if name = "width" then widthVal d.width
  else if name = "varwidth" then varwidthVal d.width
  else if name = "varwidth_index" then varwidthIndexVal d.width
  else if name = "precision" then precVal d.prec
  else if name = "varprec" then varprecVal d.prec
  else if name = "varprec_index" then varprecIndexVal d.prec
  else .none

/-- `parent.warn(<Class>, …)` -/
def warnS (w : Bool) (st : St) (cls : String) : St := warn w st (warnOf cls)

/-- the index argument of `add_argument`: `None` or an `int` -/
def argIndexOf : Val → R (Option Nat)
  | .none => .ok none
  | .int n => .ok (some n)
  | _ => .error (.crash .TypeError)

/-- `FormatString.add_argument(n, value)` with its Python-level exceptions (`IndexError`, `OverflowError`, the `assert`) -/
def addArgumentRaw (st : St) (n : Option Nat) (value : Entry) : R St :=
  match n with
  | none =>
    match st.next with
    | none => .error (.crash .IndexError)
    | some k =>
      if k > NL_ARGMAX then .error (.crash .Overflow)
      else .ok { st with next := some (k + 1), map := st.map ++ [(k, value)] }
  | some n =>
    match st.next with
    | none =>
      if n > NL_ARGMAX then .error (.crash .Overflow)
      else .ok { st with map := st.map ++ [(n, value)] }
    | some k =>
      if k == 1 then
        if !st.map.isEmpty then .error (.crash .AssertionError)
        else if n > NL_ARGMAX then .error (.crash .Overflow)
        else .ok { st with next := none, map := st.map ++ [(n, value)] }
      else .error (.crash .IndexError)

/-- `parent.add_argument(n, value)` -/
def addArgument (st : St) (n : Val) (value : Entry) : R St :=
  match argIndexOf n with
  | .error e => .error e
  | .ok i => addArgumentRaw st i value

/-! ### the attributes of the parent `FormatString` (for the translation of `add_argument` itself) -/

/-- `self._next_arg_index` -/
def nextVal (st : St) : Val :=
  match st.next with
  | none => .none
  | some k => .int k

/-- `self._next_arg_index = v` (`None` or an `int`) -/
def setNext (st : St) (v : Val) : R St :=
  match v with
  | .none => .ok { st with next := none }
  | .int k => .ok { st with next := some k }
  | _ => .error (.crash .TypeError)

/-- `x + k` on ints -/
def addInt (x : Val) (k : Nat) : R Val :=
  match x with
  | .int n => .ok (.int (n + k))
  | _ => .error (.crash .TypeError)

/-- `self._argument_map is None`: the attribute is set to `None` only after the `finditer` loop of `__init__`; while
    conversions are being constructed it is the `defaultdict` (the model's insertion log has no `None` state) -/
def mapIsNone (_st : St) : Bool := false

/-- `not self._argument_map` -/
def mapEmpty (st : St) : Bool := st.map.isEmpty

/-- `self._argument_map[n] += [value]` (`n` an `int`) -/
def mapAppend (st : St) (n : Val) (value : Entry) : R St :=
  match n with
  | .int k => .ok { st with map := st.map ++ [(k, value)] }
  | _ => .error (.crash .TypeError)

/-- `VariableWidth(self)`, `VariablePrecision(self)`, `self` as `add_argument`'s value; `selfId` is the position of the
    conversion among the items (what `parent` in an entry refers to) -/
def variableWidth (selfId : Nat) : Entry := ⟨.width, variableWidthType, selfId⟩
def variablePrecision (selfId : Nat) : Entry := ⟨.prec, variablePrecisionType, selfId⟩
def selfEntry (tp : String) (selfId : Nat) : Entry := ⟨.conv, tp, selfId⟩

end I18n.CFmt.Py
