import I18n.Generated.PolibFsm
/-
Model of how i18nspector loads a PO file: `polib.pofile(path)` after `lib.polib4us.install_patches()`.
Core Lean only.  Statement by statement:

* `polib.detect_encoding` (binary mode, file path)                                   → `detectEncoding`
* `lib.polib4us.Codecs.open` (the generator polib iterates instead of a text file)   → `decodeFile`, `preprocess`
* `lib.polib4us.polib_unescape`                                                      → `unescape`
* the `POEntry.flags` setter, `IntDict`, the `None` defaults, `translated()`         → `setFlags`, `Entry`, `translated`
* polib 1.2.0 `_POFileParser.parse / process / handle_*` (third-party)               → `stepLine`, `process`, `handle`, `parse`
* `lib/check/__init__.py` `Checker.check`: the ISO-8859-1 retry                      → `checkerLoad`

Python's codecs and the interpreter's character classes are parameters (`Env`).  Python's partial operations that the
code relies on `except Exception` to turn into "Syntax error" (`None += str`, a missing dict key, `int()` of a
non-digit, an index out of range, a failing decode inside a handler) are explicit and end in `Err.syntax`.
-/
namespace I18n.Po
open I18n.Generated.PolibFsm (St Sym Handler)

abbrev Bytes := List UInt8
abbrev Text := List Char

/-- outcome of `encodings.decode(data, name)` -/
inductive Dec where
  | text (t : Text)
  | ude            -- UnicodeDecodeError (incl. a bare UnicodeError, converted by `encodings.decode`)
  | other          -- anything else (LookupError "not a text encoding", …)
  deriving DecidableEq, Repr

/-- the environment: Python's codec registry and the interpreter's Unicode tables -/
structure Env where
  /-- `lib.encodings.is_ascii_compatible_encoding(name)` -/
  asciiCompatible : Bytes → Bool
  /-- `codecs.lookup(name)` succeeds (polib's `charset_exists`) -/
  codecExists : Bytes → Bool
  /-- `lib.encodings.decode(bs, name)` -/
  decode : Bytes → Bytes → Dec
  /-- `str.isspace` of one character -/
  isSpace : Char → Bool
  /-- `str.isdigit` of one character -/
  isDigit : Char → Bool
  /-- `int(ch)` for a one-character string; `none` = ValueError -/
  decimal : Char → Option Nat

/-! ## Python string kit (the operations the loader uses) -/

def lstrip (p : Char → Bool) (s : Text) : Text := s.dropWhile p
def rstrip (p : Char → Bool) (s : Text) : Text := (s.reverse.dropWhile p).reverse
/-- `s.strip()` with `p = isspace`; `s.strip(chars)` with `p = (· ∈ chars)` -/
def strip (p : Char → Bool) (s : Text) : Text := rstrip p (lstrip p s)

/-- `s.split(None, maxsplit)` -/
def splitWs (sp : Char → Bool) : Nat → Text → List Text
  | 0, s =>
    let r := s.dropWhile sp
    if r.isEmpty then [] else [r]
  | n + 1, s =>
    let r := s.dropWhile sp
    if r.isEmpty then [] else
      (r.takeWhile fun c => !sp c) :: splitWs sp n (r.dropWhile fun c => !sp c)

/-- `s.split()` -/
def splitAllWs (sp : Char → Bool) (s : Text) : List Text := splitWs sp s.length s

/-- `s.split(sep)` for a one-character separator -/
def splitOn (sep : Char) : Text → List Text
  | [] => [[]]
  | c :: cs =>
    if c = sep then [] :: splitOn sep cs
    else match splitOn sep cs with
      | [] => [[c]]
      | l :: ls => (c :: l) :: ls

/-- `s.rsplit(sep, 1)` when `sep` occurs: (before the last `sep`, after it) -/
def rsplit1 (sep : Char) (s : Text) : Option (Text × Text) :=
  let after := (s.reverse.takeWhile fun c => c != sep).reverse
  if after.length = s.length then none
  else some (s.take (s.length - after.length - 1), after)

/-- `s.isspace()` / `s.isdigit()`: non-empty and every character in the class -/
def allIn (p : Char → Bool) (s : Text) : Bool := !s.isEmpty && s.all p

/-- `s[1:-1]` -/
def inner (s : Text) : Text := (s.drop 1).dropLast

def startsWith (pre s : Text) : Bool := s.take pre.length == pre

/-- `b.decode('ASCII')` -/
def decodeAscii (bs : Bytes) : Option Text :=
  if bs.all (· < 128) then some (bs.map fun b => Char.ofNat b.toNat) else none

def asciiName : Bytes := [65, 83, 67, 73, 73]
def latin1Name : Bytes := [73, 83, 79, 45, 56, 56, 53, 57, 45, 49]

/-! ## `polib.detect_encoding(path)` — on the raw bytes, line by line -/

/-- `[\w_\-:\.]` of a bytes pattern -/
def isCharsetByte (b : UInt8) : Bool :=
  (48 ≤ b && b ≤ 57) || (65 ≤ b && b ≤ 90) || (97 ≤ b && b ≤ 122) || b == 95 || b == 45 || b == 58 || b == 46

/-- `Content-Type:` -/
def contentTypeLit : Bytes := [67, 111, 110, 116, 101, 110, 116, 45, 84, 121, 112, 101, 58]
/-- ` charset=` -/
def charsetLit : Bytes := [32, 99, 104, 97, 114, 115, 101, 116, 61]

def bytesStartsWith (pre s : Bytes) : Bool := s.take pre.length == pre

/-- what follows the first occurrence of `pat` -/
def afterFirst (pat : Bytes) : Bytes → Option Bytes
  | [] => if pat.isEmpty then some [] else none
  | b :: bs => if bytesStartsWith pat (b :: bs) then some ((b :: bs).drop pat.length) else afterFirst pat bs

/-- first position where ` charset=` is followed by at least one charset byte: the maximal run of them -/
def findCharsetArg : Bytes → Option Bytes
  | [] => none
  | b :: bs =>
    let s := b :: bs
    if bytesStartsWith charsetLit s && ((s.drop charsetLit.length).head?.map isCharsetByte).getD false
    then some ((s.drop charsetLit.length).takeWhile isCharsetByte)
    else findCharsetArg bs

/-- `rx.search(line)` for `"?Content-Type:.+? charset=([\w_\-:\.]+)` on one line (without its `\n`): group 1.
    (Unique answer whatever the backtracking order: the candidates after a later `Content-Type:` are a subset of
    those after the first, and `.+?` takes the first candidate.) -/
def detectLine (line : Bytes) : Option Bytes :=
  match afterFirst contentTypeLit line with
  | none => none
  | some [] => none
  | some (_ :: rest) => findCharsetArg rest

/-- `f.readlines()` of a binary file, each line without its terminating `\n` -/
def byteLines : Bytes → List Bytes
  | [] => []
  | b :: bs =>
    if b = 10 then [] :: byteLines bs
    else match byteLines bs with
      | [] => [[b]]
      | l :: ls => (b :: l) :: ls

def detectIn (env : Env) : List Bytes → Bytes
  | [] => asciiName           -- `polib.default_encoding`, set to 'ASCII' by the patch
  | l :: ls =>
    match detectLine l with
    | some enc => if env.codecExists enc then enc else detectIn env ls
    | none => detectIn env ls

def detectEncoding (env : Env) (file : Bytes) : Bytes := detectIn env (byteLines file)

/-! ## `Codecs.open` -/

/-- `_iterlines` without the final empty match: the physical lines, each with its `\n` (the last one maybe without) -/
def physLines : Text → List Text
  | [] => []
  | c :: cs =>
    if c = '\n' then ['\n'] :: physLines cs
    else match physLines cs with
      | [] => [[c]]
      | l :: ls => (c :: l) :: ls

/-- `re.compile(r'[^\n]*(?:\n|\Z)').findall(contents)`: always ends with an empty match -/
def iterlines (contents : Text) : List Text := physLines contents ++ [[]]

/-- `_atypical_comment`: `#[^ .:,|~]` at the start (the class also matches `\n`) -/
def atypical : Text → Bool
  | '#' :: c :: _ => !(c == ' ' || c == '.' || c == ':' || c == ',' || c == '|' || c == '~')
  | _ => false

def normalise (line : Text) : Text := if atypical line then '#' :: ' ' :: line.drop 1 else line

/-- `_is_ignored_comment` (fix ed9c45c).  `tokens[0]` cannot fail: the caller has excluded '' and all-space lines. -/
def isIgnoredComment (env : Env) (line : Text) : Bool :=
  let tokens := splitWs env.isSpace 1 line
  match tokens with
  | [] => false
  | t :: _ => t == ['#', '~', '|'] || tokens == [['#', '.']] || tokens == [['#', ':']] || tokens == [['#', ',']]

def holdBack (env : Env) (line : Text) : Bool :=
  line.take 2 == [] || line.take 2 == ['#', ' '] || allIn env.isSpace line || isIgnoredComment env line

/-- the `for` loop of `Codecs.open` with its two variables; the lines it yields -/
def preLoop (env : Env) : List Text → List Text → Bool → List Text
  | [], _, empty => if empty then [['#', ' ']] else []
  | l :: ls, pending, empty =>
    let l' := normalise l
    if holdBack env l' then preLoop env ls (pending ++ [l']) empty
    else pending ++ l' :: preLoop env ls [] false

def preprocess (env : Env) (contents : Text) : List Text := preLoop env (iterlines contents) [] true

/-- the detail after `Syntax error in po file … (line N)` -/
inductive SynMsg where
  | plain
  | unescapedQuote                 -- ': unescaped double quote found'
  | invalidContinuation            -- ': invalid continuation line'
  | unknownKeyword (k : Text)      -- ': unknown keyword K'
  deriving DecidableEq, Repr

inductive Err where
  | syntax (line : Nat) (msg : SynMsg)        -- IOError 'Syntax error in po file … (line N)[: msg]'
  | decode                                    -- UnicodeDecodeError from `Codecs.open`
  | crash                                     -- anything else
  deriving DecidableEq, Repr

/-- the decode at the top of `Codecs.open` -/
def decodeFile (env : Env) (enc : Bytes) (file : Bytes) : Except Err Text :=
  if env.asciiCompatible enc then
    match env.decode enc file with
    | .text t => .ok t
    | .ude => .error .decode
    | .other => .error .crash
  else
    match decodeAscii file with
    | some t => .ok t
    | none => .error .decode

/-! ## `polib_unescape` -/

def isOct (c : Char) : Bool := '0' ≤ c && c ≤ '7'
def isHex (c : Char) : Bool := ('0' ≤ c && c ≤ '9') || ('a' ≤ c && c ≤ 'f') || ('A' ≤ c && c ≤ 'F')
def hexVal (c : Char) : Nat :=
  if '0' ≤ c && c ≤ '9' then c.toNat - 48 else if 'a' ≤ c && c ≤ 'f' then c.toNat - 87 else c.toNat - 55
def octVal (c : Char) : Nat := c.toNat - 48

/-- the single-character escapes of `_escapes_re` (`[ntbrfva]`, `\\`, `"`) and the byte `ast.literal_eval` gives them -/
def simpleByte (c : Char) : Option UInt8 :=
  if c = 'n' then some 10 else if c = 't' then some 9 else if c = 'b' then some 8 else if c = 'r' then some 13
  else if c = 'f' then some 12 else if c = 'v' then some 11 else if c = 'a' then some 7
  else if c = '\\' then some 92 else if c = '"' then some 34 else none

/-- one iteration of the group of `_escapes_re` at the head of `s` (which starts *after* the backslash):
    the characters of the escape after the backslash, and the rest.  Alternatives in the regex's order, greedy counts. -/
def escapeBody : Text → Option (Text × Text)
  | c :: rest =>
    if (simpleByte c).isSome then some ([c], rest)
    else if isOct c then
      match rest with
      | d :: rest' =>
        if isOct d then
          match rest' with
          | e :: rest'' => if isOct e then some ([c, d, e], rest'') else some ([c, d], rest')
          | [] => some ([c, d], rest')
        else some ([c], rest)
      | [] => some ([c], rest)
    else if c = 'x' then
      match rest with
      | d :: rest' =>
        if isHex d then
          match rest' with
          | e :: rest'' => if isHex e then some (['x', d, e], rest'') else some (['x', d], rest')
          | [] => some (['x', d], rest')
        else none
      | [] => none
    else none
  | [] => none

/-- the maximal run of escapes at the head of `s` (the `+` of `_escapes_re` is greedy and nothing follows it, so the
    engine never gives an iteration back): the bodies, and the rest of the string -/
def escapeRun : Nat → Text → List Text × Text
  | 0, s => ([], s)
  | fuel + 1, s =>
    match s with
    | '\\' :: t =>
      match escapeBody t with
      | some (body, rest) => let (bs, r) := escapeRun fuel rest; (body :: bs, r)
      | none => ([], s)
    | _ => ([], s)

/-- `_short_x_escape_re.sub(r'\\x0\1', s)`: inside a run every `\xH` is followed by a backslash or the end -/
def fixShortX (body : Text) : Text :=
  match body with
  | [c, d] => if c = 'x' then ['x', '0', d] else body
  | b => b

/-- the byte `ast.literal_eval(b'\…')` gives one escape.  `_big_octal_escape_re.sub(_wrap_octal_escape, s)` (fix 9de4551):
    three octal digits above `\377` keep their low 8 bits (re-spelled with `format(…, 'o')`: only the value matters) -/
def escapeByte (body : Text) : UInt8 :=
  match body with
  | [c] => match simpleByte c with
    | some b => b
    | none => UInt8.ofNat (octVal c)
  | [c, d] => UInt8.ofNat (octVal c * 8 + octVal d)
  | [c, d, e] =>
    if c = 'x' then UInt8.ofNat (hexVal d * 16 + hexVal e)
    else UInt8.ofNat ((octVal c * 64 + octVal d * 8 + octVal e) % 256)
  | _ => 0

/-- the inner `unescape(match)`: bytes of the run, ASCII first, else the file's charset -/
def decodeRun (env : Env) (enc : Bytes) (bodies : List Text) : Option Text :=
  let bytes := bodies.map fun b => escapeByte (fixShortX b)
  match decodeAscii bytes with
  | some t => some t
  | none =>
    match env.decode enc bytes with
    | .text t => some t
    | _ => none

/-- `_escapes_re.sub(unescape, s)`; `none` = an exception inside (the handler's caller turns it into a syntax error) -/
def unescapeAux (env : Env) (enc : Bytes) : Nat → Text → Option Text
  | 0, _ => some []
  | fuel + 1, s =>
    match s with
    | [] => some []
    | c :: cs =>
      match escapeRun (c :: cs).length (c :: cs) with
      | ([], _) => (c :: ·) <$> unescapeAux env enc fuel cs
      | (bodies, rest) =>
        match decodeRun env enc bodies with
        | none => none
        | some t => (t ++ ·) <$> unescapeAux env enc fuel rest

def unescape (env : Env) (enc : Bytes) (s : Text) : Option Text := unescapeAux env enc (s.length + 1) s

/-! ## entries -/

structure Entry where
  msgctxt : Option Text := none
  msgid : Text := []
  msgidPlural : Option Text := none          -- `None` default (base_entry_init_patch)
  msgstr : Option Text := none               -- `None` default (base_entry_init_patch)
  msgstrPlural : List (Nat × Text) := []     -- IntDict, insertion order
  obsolete : Bool := false
  flags : List Text := []
  occurrences : List (Text × Text) := []
  comment : Text := []
  tcomment : Text := []
  previousMsgctxt : Option Text := none
  previousMsgid : Option Text := none
  previousMsgidPlural : Option Text := none
  linenum : Nat := 0
  deriving DecidableEq, Repr

/-- the strip set of the flags setter (`' \t\r\f\v'`), as probed from the live setter by the translator -/
def isFlagSpace (c : Char) : Bool := I18n.Generated.PolibFsm.flagStripSet.contains c.toNat

/-- the `POEntry.flags` setter -/
def setFlags (flags : List Text) : List Text :=
  flags.flatMap fun subflags => (splitOn ',' subflags).map (strip isFlagSpace)

/-- dict assignment `d[k] = v` (insertion order kept, value replaced) -/
def dictSet (k : Nat) (v : Text) : List (Nat × Text) → List (Nat × Text)
  | [] => [(k, v)]
  | (k', v') :: rest => if k' = k then (k, v) :: rest else (k', v') :: dictSet k v rest

def dictGet? (k : Nat) : List (Nat × Text) → Option Text
  | [] => none
  | (k', v') :: rest => if k' = k then some v' else dictGet? k rest

/-- `POEntry.translated()` as patched -/
def translated (e : Entry) : Bool :=
  if e.obsolete then false
  else if e.flags.contains ['f', 'u', 'z', 'z', 'y'] then false
  else (match e.msgstr with | some (_ :: _) => true | _ => false) || e.msgstrPlural.any fun kv => !kv.2.isEmpty

/-! ## the state machine -/

structure PState where
  entries : List Entry := []        -- `self.instance` (a list), in order
  header : Text := []               -- `self.instance.header`
  cur : Entry := {}                 -- `self.current_entry`
  state : St := I18n.Generated.PolibFsm.startState
  msgstrIndex : Nat := 0
  entryObsolete : Bool := false
  /-- `tokens[0]` of the last non-blank line (`tokens` survives the loop) -/
  lastTok : Option Text := none
  deriving Repr

def lookupTransition (sym : Sym) (cs : St) : List (Sym × St × Handler) → Option Handler
  | [] => none
  | (a, b, h) :: rest => if a = sym ∧ b = cs then some h else lookupTransition sym cs rest

/-- `self.transitions[(symbol, state)]` -/
def transition (sym : Sym) (cs : St) : Option Handler :=
  lookupTransition sym cs I18n.Generated.PolibFsm.transitions

/-- `if self.current_state in ['mc', 'ms', 'mx']: append the entry, start a new one` -/
def flushIfDone (lineno : Nat) (s : PState) : PState :=
  if s.state = .ms ∨ s.state = .mx then { s with entries := s.entries ++ [s.cur], cur := { linenum := lineno } } else s

/-- `x += token` for an attribute that may be `None` (TypeError) -/
def appendOpt (x : Option Text) (token : Text) : Option (Option Text) :=
  match x with
  | some v => some (some (v ++ token))
  | none => none

def lstripHash (s : Text) : Text := s.dropWhile (· == '#')

/-- `handle_oc`: one occurrence -/
def occurrence (env : Env) (occ : Text) : Text × Text :=
  match rsplit1 ':' occ with
  | some (fil, line) => if allIn env.isDigit line then (fil, line) else (occ, [])
  | none => (occ, [])

/-- the handlers: `none` = an exception (→ syntax error), `some (s', changeState)` otherwise -/
def handle (env : Env) (enc : Bytes) (lineno : Nat) (h : Handler) (token : Text) (s : PState) : Option (PState × Bool) :=
  match h with
  | .he =>
    let hd := if s.header != [] then s.header ++ ['\n'] else s.header
    some ({ s with header := hd ++ token.drop 2 }, true)
  | .tc =>
    let s := flushIfDone lineno s
    let tc := if s.cur.tcomment != [] then s.cur.tcomment ++ ['\n'] else s.cur.tcomment
    let t := lstripHash token
    let t := match t with | ' ' :: r => r | _ => t
    some ({ s with cur := { s.cur with tcomment := tc ++ t } }, true)
  | .gc =>
    let s := flushIfDone lineno s
    let c := if s.cur.comment != [] then s.cur.comment ++ ['\n'] else s.cur.comment
    some ({ s with cur := { s.cur with comment := c ++ token.drop 3 } }, true)
  | .oc =>
    let s := flushIfDone lineno s
    let occs := (splitAllWs env.isSpace (token.drop 3)).map (occurrence env)
    some ({ s with cur := { s.cur with occurrences := s.cur.occurrences ++ occs } }, true)
  | .fl =>
    let s := flushIfDone lineno s
    let items := (splitOn ',' (token.drop 3)).map (strip env.isSpace)
    some ({ s with cur := { s.cur with flags := setFlags (s.cur.flags ++ items) } }, true)
  | .pp =>
    let s := flushIfDone lineno s
    (unescape env enc (inner token)).map fun v => ({ s with cur := { s.cur with previousMsgidPlural := some v } }, true)
  | .pm =>
    let s := flushIfDone lineno s
    (unescape env enc (inner token)).map fun v => ({ s with cur := { s.cur with previousMsgid := some v } }, true)
  | .pc =>
    let s := flushIfDone lineno s
    (unescape env enc (inner token)).map fun v => ({ s with cur := { s.cur with previousMsgctxt := some v } }, true)
  | .ct =>
    let s := flushIfDone lineno s
    (unescape env enc (inner token)).map fun v => ({ s with cur := { s.cur with msgctxt := some v } }, true)
  | .mi =>
    let s := flushIfDone lineno s
    (unescape env enc (inner token)).map fun v => ({ s with cur := { s.cur with obsolete := s.entryObsolete, msgid := v } }, true)
  | .mp =>
    (unescape env enc (inner token)).map fun v => ({ s with cur := { s.cur with msgidPlural := some v } }, true)
  | .ms =>
    (unescape env enc (inner token)).map fun v => ({ s with cur := { s.cur with msgstr := some v } }, true)
  | .mx =>
    -- index = token[7]; value = token[token.find('"') + 1 : -1]; msgstr_plural[int(index)] = unescape(value)
    match token.drop 7 with
    | [] => none                                  -- IndexError
    | ic :: _ =>
      let start := match token.idxOf? '"' with | some i => i + 1 | none => 0
      let value := (token.drop start).take (token.length - 1 - start)
      match unescape env enc value with           -- evaluated before `int(index)`
      | none => none
      | some v =>
        match env.decimal ic with
        | none => none                            -- ValueError
        | some i => some ({ s with cur := { s.cur with msgstrPlural := dictSet i v s.cur.msgstrPlural }, msgstrIndex := i }, true)
  | .mc =>
    match unescape env enc (inner token) with
    | none => none
    | some t =>
      match s.state with
      | .ct => (appendOpt s.cur.msgctxt t).map fun v => ({ s with cur := { s.cur with msgctxt := v } }, false)
      | .mi => some ({ s with cur := { s.cur with msgid := s.cur.msgid ++ t } }, false)
      | .mp => (appendOpt s.cur.msgidPlural t).map fun v => ({ s with cur := { s.cur with msgidPlural := v } }, false)
      | .ms => (appendOpt s.cur.msgstr t).map fun v => ({ s with cur := { s.cur with msgstr := v } }, false)
      | .mx =>
        match dictGet? s.msgstrIndex s.cur.msgstrPlural with
        | none => none                            -- KeyError
        | some v => some ({ s with cur := { s.cur with msgstrPlural := dictSet s.msgstrIndex (v ++ t) s.cur.msgstrPlural } }, false)
      | .pp => (appendOpt s.cur.previousMsgidPlural t).map fun v => ({ s with cur := { s.cur with previousMsgidPlural := v } }, false)
      | .pm => (appendOpt s.cur.previousMsgid t).map fun v => ({ s with cur := { s.cur with previousMsgid := v } }, false)
      | .pc => (appendOpt s.cur.previousMsgctxt t).map fun v => ({ s with cur := { s.cur with previousMsgctxt := v } }, false)
      | _ => some (s, false)

/-- `self.process(symbol)` with `self.current_token = token` -/
def process (env : Env) (enc : Bytes) (lineno : Nat) (sym : Sym) (token : Text) (s : PState) : Except Err PState :=
  match transition sym s.state with
  | none => .error (.syntax lineno .plain)           -- KeyError inside the try
  | some h =>
    match handle env enc lineno h token s with
    | none => .error (.syntax lineno .plain)
    | some (s', change) =>
      if change then
        match h.toSt? with
        | some nx => .ok { s' with state := nx }
        | none => .ok s'
      else .ok s'

/-- `re.search(r'([^\\]|^)"', line[1:-1])` -/
def quoteAfterOther : Text → Bool
  | a :: b :: rest => (a != '\\' && b == '"') || quoteAfterOther (b :: rest)
  | _ => false

def hasUnescapedQuote : Text → Bool
  | '"' :: _ => true
  | s => quoteAfterOther s

def lookupKw (k : Text) : List (List Char × Sym) → Option Sym
  | [] => none
  | (n, v) :: rest => if n = k then some v else lookupKw k rest

def bom : Char := Char.ofNat 0xFEFF

/-- the part of the loop body after the `#~` handling: `line` is `self`'s local `line`, `t0 :: trest` is `tokens` -/
def dispatch (env : Env) (enc : Bytes) (lineno : Nat) (line : Text) (t0 : Text) (trest : List Text) (s : PState) : Except Err PState :=
  let s := { s with lastTok := some t0 }
  let nb := trest.length + 1
  match (if nb > 1 then lookupKw t0 I18n.Generated.PolibFsm.keywords else none) with
  | some sym =>
    let line := lstrip env.isSpace (line.drop t0.length)
    if hasUnescapedQuote (inner line) then .error (.syntax lineno .unescapedQuote)
    else process env enc lineno sym line s
  | none =>
  if t0 == ['#', ':'] then
    if nb ≤ 1 then .ok s else process env enc lineno .oc line s
  else if line.take 1 == ['"'] then
    if hasUnescapedQuote (inner line) then .error (.syntax lineno .unescapedQuote)
    else process env enc lineno .mc line s
  else if line.take 7 == ['m', 's', 'g', 's', 't', 'r', '['] then process env enc lineno .mx line s
  else if t0 == ['#', ','] then
    if nb ≤ 1 then .ok s else process env enc lineno .fl line s
  else if t0 == ['#'] || startsWith ['#', '#'] t0 then process env enc lineno .tc line s
  else if t0 == ['#', '.'] then
    if nb ≤ 1 then .ok s else process env enc lineno .gc line s
  else if t0 == ['#', '|'] then
    match trest with
    | [] => .error (.syntax lineno .plain)
    | t1 :: _ =>
      let line := lstrip env.isSpace (line.drop 2)
      if startsWith ['"'] t1 then process env enc lineno .mc line s
      else if nb = 2 then .error (.syntax lineno .invalidContinuation)
      else match lookupKw t1 I18n.Generated.PolibFsm.prevKeywords with
        | none => .error (.syntax lineno (.unknownKeyword t1))
        | some sym => process env enc lineno sym (lstrip env.isSpace (line.drop t1.length)) s
  else .error (.syntax lineno .plain)

/-- `line.startswith(BOM)` on the first line -/
def dropBom (lineno : Nat) (raw : Text) : Text :=
  if lineno = 1 then (match raw with | c :: r => if c = bom then r else raw | [] => raw) else raw

/-- the body of `for line in self.fhandle` (`lineno` = `self.current_line` after the increment) -/
def stepLine (env : Env) (enc : Bytes) (lineno : Nat) (raw : Text) (s : PState) : Except Err PState :=
  let line := strip env.isSpace (dropBom lineno raw)
  if line.isEmpty then .ok s else
  match splitWs env.isSpace 2 line with
  | [] => .ok s          -- unreachable: `line` is non-empty and starts with a non-space
  | t0 :: trest =>
  if t0 == ['#', '~', '|'] then .ok { s with lastTok := some t0 } else
  -- obsolete marker: `line = line[3:].strip(); tokens = tokens[1:]`
  match (if t0 == ['#', '~'] then trest else []) with
  | t1 :: trest' => dispatch env enc lineno (strip env.isSpace (line.drop 3)) t1 trest' { s with entryObsolete := true }
  | [] => dispatch env enc lineno line t0 trest { s with entryObsolete := false }

def parseLoop (env : Env) (enc : Bytes) : Nat → List Text → PState → Except Err PState
  | _, [], s => .ok s
  | n, l :: ls, s =>
    match stepLine env enc (n + 1) l s with
    | .error e => .error e
    | .ok s' => parseLoop env enc (n + 1) ls s'

structure PoFile where
  header : Text
  entries : List Entry
  deriving DecidableEq, Repr

/-- after the loop: the last entry is added unless the last non-blank line was a comment; `find('')` is patched to
    return None, so no metadata entry is removed -/
def finish (s : PState) : PoFile :=
  let add := match s.lastTok with
    | some t => !startsWith ['#'] t
    | none => false
  { header := s.header, entries := if add then s.entries ++ [s.cur] else s.entries }

/-- `_POFileParser(path, encoding=enc).parse()` on the lines `Codecs.open` yields -/
def parseLines (env : Env) (enc : Bytes) (lines : List Text) : Except Err PoFile :=
  match parseLoop env enc 0 lines {} with
  | .error e => .error e
  | .ok s => .ok (finish s)

/-- `polib.pofile(path, encoding=enc)` -/
def loadWith (env : Env) (enc : Bytes) (file : Bytes) : Except Err PoFile :=
  match decodeFile env enc file with
  | .error e => .error e
  | .ok contents => parseLines env enc (preprocess env contents)

/-- `polib.pofile(path)` -/
def load (env : Env) (file : Bytes) : Except Err PoFile := loadWith env (detectEncoding env file) file

/-- `Checker.check`: retry with ISO-8859-1 on UnicodeDecodeError; the flag is `broken_encoding` -/
def checkerLoad (env : Env) (file : Bytes) : Except Err PoFile × Bool :=
  match load env file with
  | .error .decode => (loadWith env latin1Name file, true)
  | r => (r, false)

/-- One process, several files: `cli.check_all` calls `Checker(path).check()` for one path after the other and nothing the loader
    keeps survives from one file to the next (a fresh `_POFileParser`, a fresh generator from `Codecs.open`, no module-level
    state in `polib_unescape`).  The loop, with the list of results as its only variable. -/
def loadSeq (env : Env) (files : List Bytes) : List (Except Err PoFile × Bool) :=
  files.foldl (fun results file => results ++ [checkerLoad env file]) []

/-! ## the interpreter's character classes as dumped by the translator (`Generated.PolibFsm`) -/

def inRanges (rs : List (Nat × Nat)) (n : Nat) : Bool := rs.any fun r => r.1 ≤ n && n ≤ r.2

/-- `str.isspace` of the interpreter the tool runs on -/
def pyIsSpace (c : Char) : Bool := inRanges I18n.Generated.PolibFsm.spaceRanges c.toNat
/-- `str.isdigit` -/
def pyIsDigit (c : Char) : Bool := inRanges I18n.Generated.PolibFsm.digitRanges c.toNat
/-- `int(ch)` -/
def pyDecimal (c : Char) : Option Nat :=
  (I18n.Generated.PolibFsm.decimalRanges.find? fun r => r.1 ≤ c.toNat && c.toNat ≤ r.2).map fun r => (c.toNat - r.1) % 10

end I18n.Po
