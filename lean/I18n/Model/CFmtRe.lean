import I18n.Model.CFmt
import I18n.Spec.BraceRe
/-!
# `_directive_re` at work: one match, the group spans, and the `finditer` loop of `FormatString.__init__`

Core Lean only.  Definitions for `Props.C11Tie`:

* `scanItem` — one step of the model's scanner (`CFmt.scanAll` iterates it: `scanAll_succ`);
* `itemCaps` — the spans of the groups of `_directive_re` for an item starting at `pos`
  (`match.span(g)`; a group that does not take part has no entry);
* `findFrom` — `_directive_re.finditer(s)`: the engine's search loop (try a match at the current position, else move one
  character on; after a match continue at its end), over the live parse tree under `Spec.BraceRe.bt`;
* `decodeMatch` — what the loop body reads from a match object: `match.group('literal')`, else `Conversion(self, match)`
  reading `match.group(name)` for the named groups — rebuilt from the spans as slices of the subject string;
* `walk` — the loop of `FormatString.__init__` over the matches:
  `if match.start() != last_pos: raise Error` … `last_pos = match.end()` … and the final `if last_pos != len(s)`.
-/
namespace I18n.CFmt
open I18n.Spec.Printf (Len PriKind PriBits PriLen Body Width Prec Directive Item renderIdx)
open I18n.Spec.BraceRe (Re Caps CharDB matchAt)

/-- one match of `_directive_re` as the model's scanner reads it: a maximal `%`-free run, or one directive -/
def scanItem : List Char → Option (Item × List Char)
  | [] => none
  | c :: cs =>
    if c == '%' then
      match scanDirective cs with
      | none => none
      | some (d, rest) => some (.dir d, rest)
    else
      some (.lit (spanP (fun x => x != '%') (c :: cs)).1, (spanP (fun x => x != '%') (c :: cs)).2)

/-! ## group spans -/

/-- `index` / `varwidth_index` / `varprec_index` (group `g`): the digits and the `$` -/
def idxCaps (g pos : Nat) : Option (List Char) → Caps
  | none => []
  | some ds => [(g, pos, pos + (ds.length + 1))]

/-- groups 5 `width`, 6 `varwidth`, 7 `varwidth_index` -/
def widthCaps (pos : Nat) : Width → Caps
  | .none => []
  | .num ds => [(5, pos, pos + ds.length)]
  | .star idx => idxCaps 7 (pos + 1) idx ++ [(6, pos, pos + 1)]

/-- groups 8 `precision`, 9 `varprec`, 10 `varprec_index`; `pos` is the position of the `.` -/
def precCaps (pos : Nat) : Prec → Caps
  | .none => []
  | .num ds => [(8, pos + 1, pos + 1 + ds.length)]
  | .star idx => idxCaps 10 (pos + 2) idx ++ [(9, pos + 1, pos + 2)]

/-- groups 11 `length`, 12 `conversion`, 13 `c99conv`, 14 `c99len` -/
def bodyCaps (pos : Nat) : Body → Caps
  | .std none _ => [(12, pos, pos + 1)]
  | .std (some ln) _ => [(12, pos + ln.chars.length, pos + ln.chars.length + 1), (11, pos, pos + ln.chars.length)]
  | .pri _ l => [(14, pos + 5, pos + 5 + l.chars.length), (13, pos + 4, pos + 5)]

/-- the captures made after the `%`, which is at `pos - 1`: most recently closed group first (group 3 `index`,
    group 4 `flags`, then width, precision, body) -/
def tailCaps (pos : Nat) (d : Directive) : Caps :=
  let p2 := pos + (renderIdx d.index).length
  let p3 := p2 + d.flags.length
  let p4 := p3 + d.width.render.length
  let p5 := p4 + d.prec.render.length
  bodyCaps p5 d.body ++ (precCaps p4 d.prec ++ (widthCaps p3 d.width ++ ((4, p2, p3) :: idxCaps 3 pos d.index)))

/-- the captures of a directive whose `%` is at `pos` (group 2 is the unnamed parenthesis around the whole directive;
    it closes last) -/
def dirCaps (pos : Nat) (d : Directive) : Caps :=
  (2, pos, pos + 1 + d.renderTail.length) :: tailCaps (pos + 1) d

def itemCaps (pos : Nat) : Item → Caps
  | .lit cs => [(1, pos, pos + cs.length)]
  | .dir d => dirCaps pos d

/-- the names `FormatString`/`Conversion` use for the groups -/
def expectedGroups : List (String × Nat) :=
  [("literal", 1), ("index", 3), ("flags", 4), ("width", 5), ("varwidth", 6), ("varwidth_index", 7), ("precision", 8),
   ("varprec", 9), ("varprec_index", 10), ("length", 11), ("conversion", 12), ("c99conv", 13), ("c99len", 14)]

/-! ## `finditer` -/

/-- a match object: where it starts, and the final matcher state (rest of the subject, end position, captures) -/
structure Match where
  start : Nat
  st : I18n.Spec.BraceRe.St
  deriving Repr

/-- `pattern.finditer(s)` from position `pos` on, `cs` being `s[pos:]`: try to match here; on success yield the match and go
    on at its end; else move one character on.  (After an EMPTY match sre moves on by one character as well; the pattern
    cannot match the empty string — `match_nonempty` —, so that branch is dead.)  `fuel` only has to exceed the number of
    characters left. -/
def findFrom (db : CharDB) (r : Re) : Nat → List Char → Nat → List Match
  | 0, _, _ => []
  | fuel + 1, cs, pos =>
    match matchAt db r cs pos with
    | some st =>
      if st.pos > pos then ⟨pos, st⟩ :: findFrom db r fuel st.rest st.pos
      else
        match cs with
        | [] => [⟨pos, st⟩]
        | _ :: cs' => ⟨pos, st⟩ :: findFrom db r fuel cs' (pos + 1)
    | none =>
      match cs with
      | [] => []
      | _ :: cs' => findFrom db r fuel cs' (pos + 1)

/-- `pattern.finditer(s)` for the pattern with parse tree `r` -/
def finditer (db : CharDB) (r : Re) (s : List Char) : List Match :=
  findFrom db r (s.length + 1) s 0

/-! ## what the loop body reads from a match -/

/-- `s[a:b]` -/
def slice (s : List Char) (a b : Nat) : List Char := (s.drop a).take (b - a)

/-- `match.group(g)` (`none` = `None`) -/
def groupText (s : List Char) (m : Match) (g : Nat) : Option (List Char) :=
  (m.st.span g).map fun (a, b) => slice s a b

/-- `x.rstrip('$')` for the index groups, as `Conversion.__init__` applies it -/
def rstripDollar (cs : List Char) : List Char := (cs.reverse.dropWhile (· == '$')).reverse

def lenOfChars (cs : List Char) : Option Len :=
  [Len.hh, .h, .l, .ll, .q, .j, .z, .Z, .t, .L].find? (fun ln => ln.chars == cs)

def priLenOfChars (cs : List Char) : Option PriLen :=
  I18n.Spec.Printf.allPriLens.find? (fun l => l.chars == cs)

/-- `width = match.group('width'); if width is not None: … elif match.group('varwidth'): varwidth_index = match.group('varwidth_index') …` -/
def decodeWidth (g5 g6 g7 : Option (List Char)) : Width :=
  match g5 with
  | some ds => .num ds
  | none => if g6.isSome then .star (g7.map rstripDollar) else .none

/-- the same for `precision`, `varprec`, `varprec_index` -/
def decodePrec (g8 g9 g10 : Option (List Char)) : Prec :=
  match g8 with
  | some ds => .num ds
  | none => if g9.isSome then .star (g10.map rstripDollar) else .none

/-- `c99conversion = match.group('c99conv'); c99length = match.group('c99len'); length = match.group('length');
    conversion = match.group('conversion'); if c99conversion is not None: … else …` -/
def decodeBody (g11 g12 g13 g14 : Option (List Char)) : Option Body :=
  match g13 with
  | some [c] =>
    match g14 with
    | some l => (priLenOfChars l).map fun pl => .pri c pl
    | none => none
  | _ =>
    match g12 with
    | some [c] =>
      match g11 with
      | none => some (.std none c)
      | some l => (lenOfChars l).map fun ln => .std (some ln) c
    | _ => none

/-- the fields `Conversion.__init__` reads: `match.group('index')`, `'flags'`, `'width'`, `'varwidth'`, `'varwidth_index'`,
    `'precision'`, `'varprec'`, `'varprec_index'`, `'length'`, `'conversion'`, `'c99conv'`, `'c99len'` -/
def decodeDirective (s : List Char) (m : Match) : Option Directive :=
  let g := groupText s m
  (decodeBody (g 11) (g 12) (g 13) (g 14)).map fun body =>
    { index := (g 3).map rstripDollar, flags := (g 4).getD [], width := decodeWidth (g 5) (g 6) (g 7),
      prec := decodePrec (g 8) (g 9) (g 10), body := body }

/-- `literal = match.group('literal'); if literal is not None: items += [literal] else: items += [Conversion(self, match)]` -/
def decodeMatch (s : List Char) (m : Match) : Option Item :=
  match groupText s m 1 with
  | some lit => some (.lit lit)
  | none => (decodeDirective s m).map .dir

/-! ## the loop of `FormatString.__init__` -/

/-- `for match in finditer: if match.start() != last_pos: raise Error … last_pos = match.end() … items += […]`,
    then `if last_pos != len(s): raise Error`.  Result: the items appended before the loop ended or `Error` was raised,
    whether the string was covered (`false` = `Error` raised), and the `last_pos` at that moment (the argument of
    `_printable_prefix(s[last_pos:])`).  A match that cannot be decoded (`decodeMatch = none`: never, `walk_decodes`)
    counts as not covered. -/
def walk (s : List Char) : List Match → Nat → List Item × Bool × Nat
  | [], lastPos => ([], lastPos == s.length, lastPos)
  | m :: ms, lastPos =>
    if m.start != lastPos then ([], false, lastPos)
    else
      match decodeMatch s m with
      | none => ([], false, lastPos)
      | some it =>
        let (items, ok, lp) := walk s ms m.st.pos
        (it :: items, ok, lp)

end I18n.CFmt
