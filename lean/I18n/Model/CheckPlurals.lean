import I18n.Model.Plural
import I18n.Model.PluralParse
import I18n.Model.TagCall
/-
Hand-written model of `Checker.check_plurals` (lib/check/__init__.py:361-506) and
`gettext.parse_plural_forms` (lib/gettext.py:97-114), statement by statement.  Tied to the real
code by the `check-plurals` correspondence stream (real method on synthetic `ctx`, capturing `tag`).
The three expression analyses it calls are the GENERATED ones (`Plural.evalAt/codomain/period`).
-/
namespace I18n.CheckPlurals
open I18n I18n.Plural I18n.PluralParse

/-! ## `gettext.parse_plural_forms` — scanner for
    `nplurals=([1-9][0-9]*);[ \t]*plural=([^;]+);?` used with `search` (leftmost match) -/

def stripPrefix (p : List Char) : List Char → Option (List Char)
  | s => if p.isPrefixOf s then some (s.drop p.length) else none

def spanDigits : List Char → List Char × List Char
  | [] => ([], [])
  | c :: r => if isDigit c then let (d, r') := spanDigits r; (c :: d, r') else ([], c :: r)

def dropBlanks : List Char → List Char
  | [] => []
  | c :: r => if c = ' ' ∨ c = '\t' then dropBlanks r else c :: r

def spanNotSemi : List Char → List Char × List Char
  | [] => ([], [])
  | c :: r => if c = ';' then ([], c :: r) else let (d, r') := spanNotSemi r; (c :: d, r')

/-- match the pattern anchored at the head of `s`: (digits of nplurals, expression text, rest after the match) -/
def matchHere (s : List Char) : Option (List Char × List Char × List Char) :=
  match stripPrefix "nplurals=".toList s with
  | none => none
  | some s1 =>
    match s1 with
    | d :: _ =>
      if '1' ≤ d ∧ d ≤ '9' then
        let (ds, s2) := spanDigits s1
        match s2 with
        | ';' :: s3 =>
          match stripPrefix "plural=".toList (dropBlanks s3) with
          | none => none
          | some s4 =>
            let (ex, s5) := spanNotSemi s4
            if ex.isEmpty then none
            else
              match s5 with
              | ';' :: s6 => some (ds, ex, s6)
              | _ => some (ds, ex, s5)
        | _ => none
      else none
    | [] => none

/-- `re.search`: first start position at which the pattern matches; returns (ljunk, digits, expr, rjunk) -/
def search : List Char → List Char → Option (List Char × List Char × List Char × List Char)
  | pre, s =>
    match matchHere s with
    | some (ds, ex, rest) => some (pre.reverse, ds, ex, rest)
    | none =>
      match s with
      | [] => none
      | c :: r => search (c :: pre) r

def digitsToNat (ds : List Char) : Nat := ds.foldl (fun acc c => acc * 10 + digitVal c) 0

inductive PfResult where
  | ok (n : Nat) (e : Expr) (ljunk rjunk : List Char)
  | syntaxError               -- gettext.PluralFormsSyntaxError (incl. PluralExpressionSyntaxError)
  | valueError                -- int() on an over-long numeral: escapes (unreachable while the limit is 0)
  deriving Repr

/-- `parse_plural_forms(s, strict=False)` -/
def parsePluralForms (s : List Char) : PfResult :=
  match search [] s with
  | none => .syntaxError
  | some (lj, ds, ex, rj) =>
    if PluralParse.tooLong ds.length then .valueError
    else
      match PluralParse.parse ex with
      | .ok e => .ok (digitsToNat ds) e lj rj
      | .syntaxError => .syntaxError
      | .valueError => .valueError

/-- `parse_plural_forms(s)` (strict): additionally the match must span the whole string -/
def parsePluralFormsStrict (s : List Char) : PfResult :=
  match parsePluralForms s with
  | .ok n e lj rj => if lj.isEmpty ∧ rj.isEmpty then .ok n e [] [] else .syntaxError
  | r => r

/-! ## inputs -/

/-- what `check_plurals` reads of one message of `ctx.file` -/
structure MsgFacts where
  obsolete : Bool
  hasPlural : Bool             -- `msgid_plural is not None`
  translated : Bool            -- truthiness of `message.translated()`
  nforms : Nat                 -- `len(message.msgstr_plural)`
  repr : List Char             -- `message_repr(message, template='({})')` (a safestr)
  deriving Repr

structure Input where
  pluralForms : List (List Char)          -- `ctx.metadata['Plural-Forms']`
  correct : Option (List (List Char))     -- `ctx.language.get_plural_forms()` (None if no language)
  correctEscaped : List (List Char)       -- `tags._escape` of each of those (C02's model; an input here)
  msgs : List MsgFacts
  isTemplate : Bool
  deriving Repr

/-! ## helpers -/

def ltChars : List Char → List Char → Bool
  | [], [] => false
  | [], _ :: _ => true
  | _ :: _, [] => false
  | a :: as, b :: bs => if a < b then true else if b < a then false else ltChars as bs

def insertSorted (x : List Char) : List (List Char) → List (List Char)
  | [] => [x]
  | y :: ys => if x = y then y :: ys else if ltChars x y then x :: y :: ys else y :: insertSorted x ys

/-- `sorted(set(xs))` -/
def sortedSet (xs : List (List Char)) : List (List Char) := xs.foldl (fun acc x => insertSorted x acc) []

/-- the scan over `ctx.file`: (has_plurals, expected_nplurals as an insertion-ordered dict n ↦ repr) -/
def scanMsgs : List MsgFacts → Bool → List (Nat × List Char) → Bool × List (Nat × List Char)
  | [], hp, d => (hp, d)
  | m :: rest, hp, d =>
    if m.obsolete then scanMsgs rest hp d
    else if m.hasPlural then
      if !m.translated then scanMsgs rest true d
      else
        let d' := if d.any (·.1 = m.nforms) then d.map (fun p => if p.1 = m.nforms then (p.1, m.repr) else p)
                  else d ++ [(m.nforms, m.repr)]
        if d'.length > 1 then (true, d') else scanMsgs rest true d'
    else scanMsgs rest hp d

def natStr (n : Nat) : List Char := (toString n).toList
def intStr (n : Int) : List Char := (toString n).toList

/-- `misc.format_range(range(a, b), max=5)` for a non-empty range -/
def formatRange (a b : Nat) : List Char :=
  let len := b - a
  let shown : List (List Char) :=
    if len ≤ 5 then (List.range len).map (fun k => natStr (k + a))
    else (List.range 3).map (fun k => natStr (k + a)) ++ ["...".toList, natStr (b - 1)]
  ", ".toList.intercalate shown

/-- dict fi ↦ [i…] in insertion order -/
abbrev Preimage := List (Int × List Nat)

def Preimage.add (p : Preimage) (fi : Int) (i : Nat) : Preimage :=
  if p.any (·.1 = fi) then p.map (fun q => if q.1 = fi then (q.1, q.2 ++ [i]) else q) else p ++ [(fi, [i])]

def insertInt (x : Int) : List Int → List Int
  | [] => [x]
  | y :: ys => if x ≤ y then x :: y :: ys else y :: insertInt x ys

def sortedKeys (p : Preimage) : List Int := (p.map (·.1)).foldl (fun acc x => insertInt x acc) []

/-! ## the 200-window loop -/

def codomainLimit : Nat := 200

inductive WinEnd where
  | completed                -- the `else:` of the `for`: ctx.plural_preimage is set
  | stopped                  -- `break` after a codomain error, or an arithmetic error
  | crashed (e : Py.Exc)     -- an exception the `try` does not catch
  deriving Repr

structure WinState where
  tags : List TagCall
  pre : Preimage
  unusual : Bool

def tagName (base : String) (hp : Bool) : String :=
  if hp then base ++ "-plural-forms" else base ++ "-unused-plural-forms"

/-- `for i in range(codomain_limit): …` over the index list `is` -/
def window (n : Nat) (e : Expr) (lc : Option (Nat × Expr)) (hp : Bool) (unusualTag : TagCall) :
    List Nat → WinState → WinState × WinEnd
  | [], st => (st, .completed)
  | i :: rest, st =>
    match evalAt 32 i e with
    | .error .Overflow =>
      ({ st with tags := st.tags ++ [⟨tagName "arithmetic-error-in" hp, [.safe ("f(".toList ++ natStr i ++ "): integer overflow".toList)]⟩] }, .stopped)
    | .error .ZeroDivision =>
      ({ st with tags := st.tags ++ [⟨tagName "arithmetic-error-in" hp, [.safe ("f(".toList ++ natStr i ++ "): division by zero".toList)]⟩] }, .stopped)
    | .error ex => (st, .crashed ex)
    | .ok fi =>
      if fi ≥ n then
        ({ st with tags := st.tags ++ [⟨tagName "codomain-error-in" hp,
            [.safe ("f(".toList ++ natStr i ++ ") = ".toList ++ intStr fi ++ " >= ".toList ++ natStr n)]⟩] }, .stopped)
      else
        let st1 := { st with pre := st.pre.add fi i }
        match lc with
        | some (ln, le) =>
          if n = ln then
            match evalAt 32 i le with
            | .error .Overflow =>
              ({ st1 with tags := st1.tags ++ [⟨tagName "arithmetic-error-in" hp, [.safe ("f(".toList ++ natStr i ++ "): integer overflow".toList)]⟩] }, .stopped)
            | .error .ZeroDivision =>
              ({ st1 with tags := st1.tags ++ [⟨tagName "arithmetic-error-in" hp, [.safe ("f(".toList ++ natStr i ++ "): division by zero".toList)]⟩] }, .stopped)
            | .error ex => (st1, .crashed ex)
            | .ok v =>
              if fi ≠ v ∧ ¬ st1.unusual then
                window n e lc hp unusualTag rest { st1 with tags := st1.tags ++ [unusualTag], unusual := true }
              else window n e lc hp unusualTag rest st1
          else window n e lc hp unusualTag rest st1
        | none => window n e lc hp unusualTag rest st1

/-! ## the gap analysis (lines 479-506) -/

/-- `for i in sorted(preimage): …` — the first neighbour of a produced index that is not produced -/
def scanKeys (n : Nat) (keys : List Int) : List Int → List (Nat × Nat)
  | [] => []
  | i :: rest =>
    if i > 0 ∧ ¬ keys.contains (i - 1) then [((i - 1).toNat, i.toNat)]
    else if i + 1 < n ∧ ¬ keys.contains (i + 1) then [((i + 1).toNat, (i + 2).toNat)]
    else scanKeys n keys rest

/-- lines 482-486: `range(x)` if `x > 0`, `range(y + 1, n)` if `y + 1 < n` -/
def codomainRanges (x y : Int) (n : Nat) : List (Nat × Nat) :=
  (if x > 0 then [(0, x.toNat)] else []) ++ (if y + 1 < n then [((y + 1).toNat, n)] else [])

/-- ranges `[a, b)` of form indices claimed never to be produced -/
def gapTail (n : Nat) (e : Expr) (completed : Option Preimage) (rs : List (Nat × Nat)) : Except Py.Exc (List (Nat × Nat)) :=
  if rs.isEmpty then
    match completed with
    | none => .ok rs
    | some pre =>
      match period 32 e with
      | .error ex => .error ex
      | .ok per =>
        let small : Bool := match per with
          | none => false                     -- (0, 1e999): sum is inf
          | some (o, p) => decide (o + p < codomainLimit)
        if small then
          let keys := sortedKeys pre
          .ok (scanKeys n keys keys)
        else .ok rs
  else .ok rs

def gapRanges (n : Nat) (e : Expr) (completed : Option Preimage) : Except Py.Exc (List (Nat × Nat)) :=
  match codomain 32 e with
  | .error ex => .error ex
  | .ok none => gapTail n e completed []            -- `uncov_rngs = []` (since the fix: assigned before the test)
  | .ok (some (x, y)) => gapTail n e completed (codomainRanges x y n)

/-! ## `check_plurals` -/

structure Output where
  tags : List TagCall
  preimage : Option Preimage          -- `ctx.plural_preimage` afterwards
  deriving Repr

def hintOf (inp : Input) : Extra :=
  if inp.isTemplate then .str "nplurals=INTEGER; plural=EXPRESSION;".toList
  else match inp.correct with
    | some (_ :: _) =>
      -- `tags.safe_format(' or '.join('{}' …), *correct)`: a safestr joining the ESCAPED registry strings; the
      -- escaper is C02's model, so the escaped spellings are an input here (computed by the harness with `tags._escape`)
      .safe (" or ".toList.intercalate inp.correctEscaped)
    | _ => .str "nplurals=<n>; plural=<expression>".toList

/-- `[(i, expression) for i, expression in map(gettext.parse_plural_forms, correct) if i == n]`;
    a registry string that does not parse strictly raises (escapes `check_plurals`) -/
def localCorrect (n : Nat) : List (List Char) → Except Py.Exc (List (Nat × Expr))
  | [] => .ok []
  | c :: cs =>
    match parsePluralFormsStrict c with
    | .ok k ce _ _ =>
      match localCorrect n cs with
      | .error ex => .error ex
      | .ok rest => .ok (if k = n then (k, ce) :: rest else rest)
    | .syntaxError => .error .ValueError        -- PluralFormsSyntaxError escaping (data integrity)
    | .valueError => .error .ValueError

/-- `sorted(expected_nplurals.items())` for the (at most two, distinct-key) entries -/
def sortExpected : List (Nat × List Char) → List (Nat × List Char)
  | [a, b] => if a.1 ≤ b.1 then [a, b] else [b, a]
  | l => l

/-- lines 424-506, once the header value has parsed -/
def analyse (inp : Input) (pf : List Char) (hp : Bool) (expected : List (Nat × List Char)) (hint : Extra)
    (tags0 : List TagCall) (n : Nat) (e : Expr) (lj rj : List Char) : Except Py.Exc Output :=
  let t2 : List TagCall := (if lj.isEmpty then [] else [⟨"leading-junk-in-plural-forms", [.str lj]⟩]) ++
                           (if rj.isEmpty then [] else [⟨"trailing-junk-in-plural-forms", [.str rj]⟩])
  let t3 : List TagCall :=
    match expected with
    | [(k, _)] => if n ≠ k then [⟨"incorrect-number-of-plural-forms",
        [.int n, .safe "(Plural-Forms header field)".toList, .str "!=".toList, .int k, .safe "(number of msgstr items)".toList]⟩] else []
    | _ => []
  let unusualTag : TagCall := ⟨if hp then "unusual-plural-forms" else "unusual-unused-plural-forms", [.str pf, .str "=>".toList, hint]⟩
  match (match inp.correct with | none => .ok none | some cs => (localCorrect n cs).map some : Except Py.Exc (Option (List (Nat × Expr)))) with
  | .error ex => .error ex
  | .ok lcs =>
    let (t4, lc) : List TagCall × Option (Nat × Expr) :=
      match lcs with
      | none => ([], none)
      | some [] => ([unusualTag], none)
      | some [x] => ([], some x)
      | some _ => ([], none)
    let st0 : WinState := ⟨tags0 ++ t2 ++ t3 ++ t4, [], false⟩
    match window n e lc hp unusualTag (List.range codomainLimit) st0 with
    | (_, .crashed ex) => .error ex
    | (st, fin) =>
      let completed : Option Preimage := match fin with | .completed => some st.pre | _ => none
      match gapRanges n e completed with
      | .error ex => .error ex
      | .ok rs =>
        let gapTags : List TagCall := rs.map fun r =>
          ⟨tagName "codomain-error-in" hp, [.safe ("f(x) != ".toList ++ formatRange r.1 r.2)]⟩
        .ok ⟨st.tags ++ gapTags, if rs.isEmpty then completed else none⟩

/-- `check_plurals`; `Except` carries the exceptions that would escape it -/
def checkPlurals (inp : Input) : Except Py.Exc Output :=
  let dup : Bool := inp.pluralForms.length > 1
  let dupTag : List TagCall := if dup then [⟨"duplicate-header-field-plural-forms", []⟩] else []
  let pfs : List (List Char) := if dup then sortedSet inp.pluralForms else inp.pluralForms
  if pfs.length > 1 then .ok ⟨dupTag, none⟩
  else
    let (hp, expected) := scanMsgs inp.msgs false []
    let t1 : List TagCall :=
      if expected.length > 1 then
        let args : List Extra := ((sortExpected expected).map fun p => [Extra.int p.1, .safe p.2, .str "!=".toList]).flatten
        [⟨"inconsistent-number-of-plural-forms", args.dropLast⟩]
      else []
    let hint := hintOf inp
    let tags0 := dupTag ++ t1
    match pfs.head? with
    | none =>
      if hp then
        if !expected.isEmpty then .ok ⟨tags0 ++ [⟨"no-required-plural-forms-header-field", [hint]⟩], none⟩
        else .ok ⟨tags0 ++ [⟨"no-plural-forms-header-field", [hint]⟩], none⟩
      else .ok ⟨tags0, none⟩
    | some pf =>
      if inp.isTemplate then .ok ⟨tags0, none⟩
      else
        match parsePluralForms pf with
        | .valueError => .error .ValueError
        | .syntaxError => .ok ⟨tags0 ++ [⟨tagName "syntax-error-in" hp, [.str pf, .str "=>".toList, hint]⟩], none⟩
        | .ok n e lj rj => analyse inp pf hp expected hint tags0 n e lj rj

end I18n.CheckPlurals
