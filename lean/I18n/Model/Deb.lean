/-
Model of the packaging layer of the command-line tool (core Lean only):

* `fakePath`      — `lib/check/__init__.py: Checker.__init__` lines 93-101 (real path under `real_root` ↦ `fake_root` + rest);
* `cliTag`        — `lib/cli.py: Checker.tag` (the `ignore_tags` filter, the line printed under `self.fake_path`);
* `checkRegular`  — `cli.check_regular_file`: the tag calls of `Checker.check()` (a parameter: `raw`) through `cliTag`;
* `copyOptions`   — `cli.copy_options` (a NEW namespace; the caller's options are not touched);
* `checkDeb`      — `cli.check_deb`: suffix dispatch, `ignore_tags ∪ {unknown-file-type}`, `TemporaryDirectory`, unpacking
                    (`dpkg-deb -x` / `dpkg-source -x`: a parameter, it either succeeds or raises `CalledProcessError`, which is
                    turned into `UnsupportedFileType`), `real_root`, `fake_root = (real_root, join(filename, ''))`, the `os.walk`
                    loop (`os.path.join(root, name)`, `islink` → skip, `isfile` → `check_regular_file`);
* `checkFile`     — `cli.check_file` (`--unpack-deb` → `check_deb`, `UnsupportedFileType` → `check_regular_file`).

What the OS and the helper programs do is a parameter (`World`): the name `TemporaryDirectory` hands out, whether the
unpacker succeeds, what `os.walk` yields (in its order), `islink`, `isfile`.  That `TemporaryDirectory` removes its tree
on exit is the assumed contract of the library (DESIGN.md §5) and is TESTED, not proved (tools/checks/C17.py).
-/
namespace I18n.Deb

abbrev Str := List Char

/-- `os.sep` -/
def sep : Char := '/'

/-- `s.endswith(os.sep)` -/
def endsWithSep (s : Str) : Bool := s.getLast? == some sep

/-- `s.endswith(suffix)` -/
def endsWith (s suffix : Str) : Bool := suffix.reverse.isPrefixOf s.reverse

/-- `os.path.join(a, b)` (posixpath, two arguments) -/
def join (a b : Str) : Str :=
  if b.head? == some sep then b
  else if a.isEmpty || endsWithSep a then a ++ b
  else a ++ sep :: b

/-- the only exception type the path code raises itself -/
inductive PathErr where
  | valueError
  deriving DecidableEq, Repr

/-- `Checker.__init__`, lines 93-101: `self.fake_path` -/
def fakePath (fakeRoot : Option (Str × Str)) (path : Str) : Except PathErr Str :=
  match fakeRoot with
  | none => .ok path
  | some (realRoot, fakeRoot) =>
    if !endsWithSep realRoot then .error .valueError
    else if !endsWithSep fakeRoot then .error .valueError
    else if realRoot.isPrefixOf path then .ok (fakeRoot ++ path.drop realRoot.length)
    else .ok path

/-- one tag call of `Checker.check()`: the tag name and how the rest of the line is rendered (`Tag.format`: priority letter
    before the path, name and escaped extras after it — C02's business, opaque here) -/
structure TagCall where
  name : Str
  prio : Str
  rest : Str
  deriving DecidableEq, Repr

/-- a line on stdout: `{prio}: {target}: {rest}` -/
structure Line where
  prio : Str
  target : Str
  rest : Str
  deriving DecidableEq, Repr

/-- the part of `options` this layer reads or writes -/
structure Options where
  ignoreTags : List Str
  fakeRoot : Option (Str × Str)
  unpackDeb : Bool
  deriving DecidableEq, Repr

/-- `'unknown-file-type'` -/
def unknownFileType : Str := "unknown-file-type".toList

/-- what a run prints and how it ends -/
inductive Exit where
  | normal
  | valueError                 -- from `Checker.__init__` (roots without trailing separator)
  | raised                     -- an exception out of `Checker.check()` (C01's subject)
  deriving DecidableEq, Repr

structure Run where
  lines : List Line
  exit : Exit
  deriving DecidableEq, Repr

/-- `cli.Checker.tag` for every tag call, in order -/
def cliTags (ignoreTags : List Str) (fake : Str) (calls : List TagCall) : List Line :=
  (calls.filter (fun c => !ignoreTags.contains c.name)).map (fun c => ⟨c.prio, fake, c.rest⟩)

/-- `check_regular_file(path, options=options)`.  `raw path` = the tag calls `Checker.check()` makes for the file at the
    REAL path `path` (and whether an exception left it, after those calls). -/
def checkRegular (raw : Str → List TagCall × Bool) (o : Options) (path : Str) : Run :=
  match fakePath o.fakeRoot path with
  | .error _ => ⟨[], .valueError⟩
  | .ok fake =>
    let r := raw path
    ⟨cliTags o.ignoreTags fake r.1, if r.2 then .raised else .normal⟩

/-- `copy_options(options, ignore_tags=…, fake_root=…)`: a new namespace -/
def copyOptions (o : Options) (ignoreTags : List Str) (fakeRoot : Str × Str) : Options :=
  { o with ignoreTags := ignoreTags, fakeRoot := some fakeRoot }

inductive Kind where
  | deb | dsc | unsupported
  deriving DecidableEq, Repr

def debSuffix : Str := ".deb".toList
def dscSuffix : Str := ".dsc".toList

/-- `filename.endswith('.deb')` / `'.dsc'` -/
def kindOf (filename : Str) : Kind :=
  if endsWith filename debSuffix then .deb
  else if endsWith filename dscSuffix then .dsc
  else .unsupported

/-- everything the operating system and the helper programs contribute -/
structure World where
  /-- the name `tempfile.TemporaryDirectory(prefix='i18nspector.deb.')` returns -/
  tmpdir : Str
  /-- `dpkg-deb -x` / `dpkg-source -x` exit with status 0 (else `CalledProcessError`) -/
  unpackOk : Bool
  /-- `os.walk(tmpdir)`: `(root, files)` in the order it yields them -/
  walk : List (Str × List Str)
  islink : Str → Bool
  isfile : Str → Bool

/-- the paths `check_regular_file` is called with, in order -/
def walkPaths (w : World) : List Str :=
  (w.walk.flatMap (fun rf => rf.2.map (fun name => join rf.1 name))).filter (fun p => !w.islink p && w.isfile p)

/-- sequential composition of runs: stop at the first one that does not end normally -/
def runAll (f : Str → Run) : List Str → Run
  | [] => ⟨[], .normal⟩
  | p :: ps =>
    let r := f p
    match r.exit with
    | .normal =>
      let rs := runAll f ps
      ⟨r.lines ++ rs.lines, rs.exit⟩
    | e => ⟨r.lines, e⟩

/-- `real_root` -/
def realRoot (w : World) : Kind → Str
  | .dsc => join (join w.tmpdir ['s']) []
  | _ => join w.tmpdir []

/-- the options the members are checked with -/
def memberOptions (w : World) (o : Options) (k : Kind) (filename : Str) : Options :=
  copyOptions o (unknownFileType :: o.ignoreTags) (realRoot w k, join filename [])

/-- `check_deb(filename, options=options)`: `none` = `UnsupportedFileType` was raised (no output was produced before) -/
def checkDeb (w : World) (raw : Str → List TagCall × Bool) (o : Options) (filename : Str) : Option Run :=
  match kindOf filename with
  | .unsupported => none
  | k =>
    if !w.unpackOk then none
    else some (runAll (checkRegular raw (memberOptions w o k filename)) (walkPaths w))

/-- `check_file(path, options=options)` -/
def checkFile (w : World) (raw : Str → List TagCall × Bool) (o : Options) (path : Str) : Run :=
  if o.unpackDeb then
    match checkDeb w raw o path with
    | some r => r
    | none => checkRegular raw o path
  else checkRegular raw o path

/-- the member name of a file found under `root = tmpdir ++ rel` (`rel` empty or `/dir/dir…`) -/
def memberName (rel name : Str) : Str :=
  if rel.isEmpty then name else rel.drop 1 ++ sep :: name

end I18n.Deb
