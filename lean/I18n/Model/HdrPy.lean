import I18n.PyKit
import I18n.Model.Hdr
/-!
# Python-operation kit of the C15 / C16 translators (`tools/translate/chktr.py`)

One Lean function per Python operation the translated header / message checks use, beyond the generic `I18n.PyKit`.
`str` is `List Char`.  Where the hand-written model already has the natural definition of an operation (`str.split(sep)`,
`str.startswith`, `str.splitlines`, `sorted(set(·))`) the kit uses it; the others are defined here independently and proved equal to
what the model uses in `Lemmas/HdrPyKit.lean`.  Core Lean only.
-/
namespace I18n.HdrPy
open I18n

abbrev Str := List Char

/-- `s.split(sep)` for a one-character separator -/
abbrev split (sep : Char) (s : Str) : List Str := Hdr.splitOn sep s

/-- `s.split(sep, 1)`: at the first separator, if any -/
def split1 (sep : Char) : Str → List Str
  | [] => [[]]
  | c :: cs =>
    if c = sep then [[], cs]
    else match split1 sep cs with
      | [a, b] => [c :: a, b]
      | _ => [c :: cs]

/-- `s.rsplit(sep, 1)`: at the last separator, if any -/
def rsplit1 (sep : Char) (s : Str) : List Str :=
  match split1 sep s.reverse with
  | [a, b] => [b.reverse, a.reverse]
  | _ => [s]

/-- `s.lstrip(chars)` -/
def lstrip (cs : Str) (s : Str) : Str := s.dropWhile (fun c => cs.contains c)
/-- `s.rstrip(chars)` -/
def rstrip (cs : Str) (s : Str) : Str := (s.reverse.dropWhile (fun c => cs.contains c)).reverse
/-- `s.strip(chars)` -/
def strip (cs : Str) (s : Str) : Str := rstrip cs (lstrip cs s)

abbrev startswith (p s : Str) : Bool := Hdr.startsWith p s
abbrev endswith (p s : Str) : Bool := Hdr.endsWith p s

/-- `str.splitlines()` (the break set is regenerated from the running interpreter) -/
abbrev splitlines (s : Str) : List Str := Hdr.splitlines s

/-- `xs.pop()` as a statement: the list without its last element -/
def pop {α : Type} (xs : List α) : Except Py.Exc (List α) :=
  match xs with
  | [] => .error .IndexError
  | _ :: _ => .ok xs.dropLast

/-- `sorted(s)` for a set of str kept as a list of its members (any order, repetitions allowed): sorted and duplicate-free -/
abbrev sortedSet (s : List Str) : List Str := Date.sortedSet s

/-- the distinct members of a set kept as a list -/
def distinct {α : Type} [BEq α] (s : List α) : List α := s.eraseDups

/-- `sep.join(xs)` -/
abbrev join (sep : Str) (xs : List Str) : Str := Hdr.joinWith sep xs

/-- `d[k]` on a `collections.defaultdict` / `Counter`: the default for a missing key -/
def ddGet {κ ν : Type} [DecidableEq κ] [Inhabited ν] (d : List (κ × ν)) (k : κ) : ν :=
  match d with
  | [] => default
  | (k', v) :: rest => if k' = k then v else ddGet rest k

/-- `d.get(k)` -/
def dictGet? {κ ν : Type} [DecidableEq κ] (d : List (κ × ν)) (k : κ) : Option ν :=
  match d with
  | [] => none
  | (k', v) :: rest => if k' = k then some v else dictGet? rest k

/-- `d[k] = v` -/
def dictSet {κ ν : Type} [DecidableEq κ] (k : κ) (v : ν) : List (κ × ν) → List (κ × ν)
  | [] => [(k, v)]
  | (k', v') :: rest => if k' = k then (k', v) :: rest else (k', v') :: dictSet k v rest

/-- `d.values()` -/
def values {κ ν : Type} (d : List (κ × ν)) : List ν := d.map (·.2)

/-- `s[:-n]` -/
def dropLastN {α : Type} (n : Nat) (s : List α) : List α := s.take (s.length - n)

end I18n.HdrPy
