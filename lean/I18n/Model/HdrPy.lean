import I18n.PyKit
import I18n.Model.Hdr
/-!
# Python-operation kit of the C15 / C16 translators (`tools/translate/chktr.py`)

One Lean function per Python operation the translated header / message checks use, beyond the generic `I18n.PyKit`.
`str` is `List Char`.  Where the hand-written model already has the natural definition of an operation (`str.split(sep)`,
`str.startswith`, `str.splitlines`, `sorted(set(·))`) the kit uses it; the others are defined here independently and proved equal to
what the model uses in `Lemmas/HdrPyKit.lean`.  Core Lean only.
-/
namespace I18n.HdrPy
open I18n

abbrev Str := List Char

/-- `s.split(sep)` for a one-character separator -/
abbrev split (sep : Char) (s : Str) : List Str := Hdr.splitOn sep s

/-- `s.split(sep, 1)`: at the first separator, if any -/
def split1 (sep : Char) : Str → List Str
  | [] => [[]]
  | c :: cs =>
    if c = sep then [[], cs]
    else match split1 sep cs with
      | [a, b] => [c :: a, b]
      | _ => [c :: cs]

/-- `s.rsplit(sep, 1)`: at the last separator, if any -/
def rsplit1 (sep : Char) (s : Str) : List Str :=
  match split1 sep s.reverse with
  | [a, b] => [b.reverse, a.reverse]
  | _ => [s]

/-- `s.lstrip(chars)` -/
def lstrip (cs : Str) (s : Str) : Str := s.dropWhile (fun c => cs.contains c)
/-- `s.rstrip(chars)` -/
def rstrip (cs : Str) (s : Str) : Str := (s.reverse.dropWhile (fun c => cs.contains c)).reverse
/-- `s.strip(chars)` -/
def strip (cs : Str) (s : Str) : Str := rstrip cs (lstrip cs s)

abbrev startswith (p s : Str) : Bool := Hdr.startsWith p s
abbrev endswith (p s : Str) : Bool := Hdr.endsWith p s

/-- `str.splitlines()` (the break set is regenerated from the running interpreter) -/
abbrev splitlines (s : Str) : List Str := Hdr.splitlines s

/-- `xs.pop()` as a statement: the list without its last element -/
def pop {α : Type} (xs : List α) : Except Py.Exc (List α) :=
  match xs with
  | [] => .error .IndexError
  | _ :: _ => .ok xs.dropLast

/-- `sorted(s)` for a set of str kept as a list of its members (any order, repetitions allowed): sorted and duplicate-free -/
abbrev sortedSet (s : List Str) : List Str := Date.sortedSet s

/-- the distinct members of a set of str kept as a list, in SOME order (`len(s)`, `[x] = s`): here in sorted order -/
abbrev distinct (s : List Str) : List Str := Date.sortedSet s

/-- `sep.join(xs)` -/
abbrev join (sep : Str) (xs : List Str) : Str := Hdr.joinWith sep xs

/-- `d[k]` on a `collections.defaultdict` / `Counter`: the default for a missing key -/
def ddGet {κ ν : Type} [DecidableEq κ] [Inhabited ν] (d : List (κ × ν)) (k : κ) : ν :=
  match d with
  | [] => default
  | (k', v) :: rest => if k' = k then v else ddGet rest k

/-- `d.get(k)` -/
def dictGet? {κ ν : Type} [DecidableEq κ] (d : List (κ × ν)) (k : κ) : Option ν :=
  match d with
  | [] => none
  | (k', v) :: rest => if k' = k then some v else dictGet? rest k

/-- `d[k] = v` -/
def dictSet {κ ν : Type} [DecidableEq κ] (k : κ) (v : ν) : List (κ × ν) → List (κ × ν)
  | [] => [(k, v)]
  | (k', v') :: rest => if k' = k then (k', v) :: rest else (k', v') :: dictSet k v rest

/-- `d.values()` -/
def values {κ ν : Type} (d : List (κ × ν)) : List ν := d.map (·.2)

/-- `s[:-n]` -/
def dropLastN {α : Type} (n : Nat) (s : List α) : List α := s.take (s.length - n)

/-- `urllib.parse.urlparse(v).scheme`: the oracle's answer, `ValueError` when the library raises it -/
def urlScheme (x : Hdr.Ext) (v : Str) : Except Py.Exc Str :=
  match x.urlScheme v with
  | some s => .ok s
  | none => .error .ValueError

/-- the scanner of one of the pattern literals of `check_comments`, by its text: does the pattern match at this position
    (`prev` = the character before it).  A text the kit does not know matches nowhere (the translator refuses such a literal). -/
def patternAt (db : Hdr.UDB) (p : Str) (prev : Option Char) (rest : Str) : Bool :=
  if p = "\\bPACKAGE package\\b".toList then Hdr.wordLit db "PACKAGE package".toList prev rest
  else if p = "\\bCopyright \\S+ YEAR\\b".toList then Hdr.copyrightYear db prev rest
  else if p = "\\bTHE PACKAGE'S COPYRIGHT HOLDER\\b".toList then Hdr.wordLit db "THE PACKAGE'S COPYRIGHT HOLDER".toList prev rest
  else if p = "\\bFIRST AUTHOR\\b".toList then Hdr.wordLit db "FIRST AUTHOR".toList prev rest
  else if p = "<EMAIL@ADDRESS>".toList then Hdr.plainLit "<EMAIL@ADDRESS>".toList prev rest
  else if p = "(?<=>), YEAR\\b".toList then Hdr.commaYear db prev rest
  else false

/-- `re.compile('|'.join(patterns)).search(line)`: is there a position where one of the patterns matches (only the presence of a
    match is used, so the order of the alternatives is immaterial) -/
def searchAlt (db : Hdr.UDB) (patterns : List Str) (line : Str) : Option Unit :=
  if Hdr.anyPos (fun prev rest => patterns.any fun p => patternAt db p prev rest) none line then some () else none

/-- `match.group(1) is None` for the Content-Type regex: group 1 is the optional `text/plain; ` prefix -/
def ctGroup1 (m : Bool × Str) : Option Unit := if m.1 then some () else none

/-! ### `check_headers` -/

/-- the entries of `ctx.file` with their positions: the entries are distinct objects, so `entry is ctx.file[0]` is "position 0" -/
def enumerateFrom {α : Type} : Nat → List α → List (Nat × α)
  | _, [] => []
  | i, x :: xs => (i, x) :: enumerateFrom (i + 1) xs

def enumerate {α : Type} (xs : List α) : List (Nat × α) := enumerateFrom 0 xs

/-- `sorted(collections.Counter(xs).items())`: the distinct members in order, each with its multiplicity -/
def counterItems (xs : List Str) : List (Str × Int) := (Date.sortedSet xs).map fun f => (f, ((Hdr.count f xs : Nat) : Int))

/-- `sorted(d.items())` for a dict keyed by str: the keys are distinct, so the order is that of the keys -/
def sortedItems {ν : Type} [Inhabited ν] (d : List (Str × ν)) : List (Str × ν) :=
  (Date.sortedSet (d.map (·.1))).map fun k => (k, ddGet d k)

/-- `encinfo.get_character_name(ch)` on the code points `find_unusual_characters` can report (names regenerated from the running
    interpreter); `ValueError` where `unicodedata.name` has no name -/
def charName (c : Char) : Except Py.Exc Str :=
  match Hdr.charName c with
  | some n => .ok n
  | none => .error .ValueError

/-! ### the charset fragment of `check_mime`: `lib.encodings` / `lib.ling` calls, in terms of C20's model (`Charset.Env` = what the fragment
needs to know about the codecs; strings cross as `Hdr.toName` / `Hdr.ofName`) -/

/-- `encinfo.is_ascii_compatible_encoding(encoding, missing_ok=False)`; `EncodingLookupError` is `LookupError` -/
def isAsciiCompatible (cs : Charset.Env) (enc : Str) : Except Py.Exc Bool :=
  match Charset.isAsciiCompatible cs.interestingStr (cs.dec (Hdr.toName enc)) false with
  | .ok b => .ok b
  | .error () => .error .LookupError

/-- `encinfo.is_portable_encoding(encoding)` -/
def isPortable (cs : Charset.Env) (enc : Str) : Bool := Charset.isPortable cs.tbl true (Hdr.toName enc)

/-- `encinfo.propose_portable_encoding(encoding)`; its `assert` is `AssertionError` -/
def propose (cs : Charset.Env) (enc : Str) : Except Py.Exc (Option Str) :=
  match Charset.propose cs.tbl cs.c2e cs.lookup (Hdr.toName enc) with
  | .ok p => .ok (p.map Hdr.ofName)
  | .error () => .error .AssertionError

/-- `ctx.language.get_unrepresentable_characters(encoding)` for a language whose character list is `chars` (`none`: it has none and the
    method returns `None`, rendered as the empty list: the caller only tests the truth value); an exception other than
    `UnicodeEncodeError` escaping from `str.encode` is rendered as `NotImplemented` -/
def getUnrepresentable (cs : Charset.Env) (chars : Option (List (List Nat))) (enc : Str) : Except Py.Exc (List Str) :=
  match chars with
  | none => .ok []
  | some chars =>
    match Charset.getUnrepresentable (cs.encode (Hdr.toName enc)) chars with
    | .ok u => .ok (u.map Hdr.ofName)
    | .error () => .error .NotImplemented

/-- `s.replace(old, new)` (left to right, non-overlapping; `old` non-empty) -/
def replaceAux (old new : Str) : Nat → Str → Str
  | 0, s => s
  | _ + 1, [] => []
  | fuel + 1, c :: cs =>
    match Hdr.stripPrefix old (c :: cs) with
    | some rest => new ++ replaceAux old new fuel rest
    | none => c :: replaceAux old new fuel cs

def replace (s old new : Str) : Str := if old.isEmpty then s else replaceAux old new (s.length + 1) s

end I18n.HdrPy
