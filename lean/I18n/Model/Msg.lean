import I18n.Model.MsgFlags
import I18n.Model.TagsLive
/-
Hand-written model of `Checker.check_messages` (lib/check/__init__.py:805-886), `_check_message_formats` (dispatch + the
`type: Content of:` gate, :1012-1020), `_check_message_xml_format` (:1022-1041), `is_header_entry`, and of the two regexes the
message checks search with: `find_unusual_characters` (an interpreter of the generated list of one-character alternatives with
look-behind / look-ahead) and `gettext.search_for_conflict_marker` (`^prefix.+suffix$`, MULTILINE).

External results are parameters: expat's verdict on a string (`Env.xml`), `encinfo.get_character_name` (`Env.charName`,
instantiated with the probed table), `\w` (`Env.word`), `str.isprintable` (inside `Env.flag.db`).  The four format-string
checkers (property C14) are an opaque stage: the model records the dispatch (`Emit.fmt`).  Core Lean only.
-/
namespace I18n.Msg
open I18n.Tags (Str lit Extra)

/-! ## `find_unusual_characters` -/

/-- a character class of the generated tree: (negated, ranges, `\w`) -/
abbrev CC := Bool × List (Nat × Nat) × Bool
/-- a look-around: (positive, class) -/
abbrev Look := Bool × CC
/-- one alternative: look-behind?, the character, look-ahead? -/
abbrev Alt := Option Look × CC × Option Look

def ccMatch (word : Nat → Bool) (cc : CC) (c : Nat) : Bool :=
  let hit := Tags.inRanges cc.2.1 c || (cc.2.2 && word c)
  if cc.1 then !hit else hit

/-- a one-character look-around at a position whose neighbour is `nb` (`none` = no such character) -/
def lookOk (word : Nat → Bool) (l : Option Look) (nb : Option Nat) : Bool :=
  match l with
  | none => true
  | some (positive, cc) =>
    let m := match nb with
      | none => false
      | some c => ccMatch word cc c
    if positive then m else !m

def altMatch (word : Nat → Bool) (prev : Option Nat) (c : Nat) (next : Option Nat) (a : Alt) : Bool :=
  lookOk word a.1 prev && ccMatch word a.2.1 c && lookOk word a.2.2 next

/-- `pattern.findall(s)` for a pattern whose every alternative consumes exactly one character: the scan advances by one
    character whether or not there was a match, so the result is the characters at the matching positions -/
def findAllFrom (word : Nat → Bool) (alts : List Alt) : Option Nat → Str → List Nat
  | _, [] => []
  | prev, c :: rest =>
    let hit := alts.any (altMatch word prev c rest.head?)
    if hit then c :: findAllFrom word alts (some c) rest else findAllFrom word alts (some c) rest

/-! ## `gettext.search_for_conflict_marker` -/

/-- `s.split('\n')` -/
def splitLines : Str → List Str
  | [] => [[]]
  | c :: rest =>
    match splitLines rest with
    | [] => [[c]]          -- unreachable: `splitLines` never returns `[]`
    | l :: ls => if c = 10 then [] :: l :: ls else (c :: l) :: ls

/-- the line is `prefix ++ (one or more characters) ++ suffix` (`.` matches everything but `\n`; `^`, `$` are line
    boundaries under MULTILINE) -/
def isMarkerLine (pre suf line : Str) : Bool :=
  startsWith pre line && endsWith suf line && pre.length + suf.length + 1 ≤ line.length

/-- `search_for_conflict_marker(s)`: `match.group(0)` of the leftmost match, i.e. the first marker line -/
def searchMarker (pre suf s : Str) : Option Str := (splitLines s).find? (isMarkerLine pre suf)

/-! ## the XML gate -/

/-- `(<name>)+\Z` with `name = start next*` -/
def xmlNames (start next : Nat → Bool) (op cl : Nat) : Nat → Str → Bool
  | 0, _ => false
  | fuel + 1, s =>
    match s with
    | o :: c :: rest =>
      if o = op && start c then
        match rest.dropWhile next with
        | k :: rest' => if k = cl then (rest'.isEmpty || xmlNames start next op cl fuel rest') else false
        | [] => false
      else false
    | _ => false

/-! ## environment and context -/

/-- expat's verdict on a string parsed as external-entity content -/
inductive XmlVerdict where
  | ok
  | syntaxError (msg : Str)     -- `str(exc)` of the `ExpatError`
  | other                       -- any other exception
  deriving DecidableEq, Repr

structure Env where
  flag : FlagEnv
  word : Nat → Bool
  unusualAlts : List Alt
  /-- `encinfo.get_character_name`; `none` = it raises `ValueError` -/
  charName : Nat → Option Str
  conflictPrefix : Str
  conflictSuffix : Str
  checkerKeys : List Str
  xmlGatePrefix : Str
  xmlOpen : Nat
  xmlClose : Nat
  xmlStart : Nat → Bool
  xmlNext : Nat → Bool
  xml : Str → XmlVerdict

def Env.findUnusual (env : Env) (s : Str) : List Nat := findAllFrom env.word env.unusualAlts none s
def Env.searchMarker (env : Env) (s : Str) : Option Str := Msg.searchMarker env.conflictPrefix env.conflictSuffix s

/-- `re.match(fr'\Atype: Content of: (<{xml.name_re}>)+\Z', comment)` -/
def Env.xmlGate (env : Env) (comment : Str) : Bool :=
  startsWith env.xmlGatePrefix comment &&
    xmlNames env.xmlStart env.xmlNext env.xmlOpen env.xmlClose comment.length (comment.drop env.xmlGatePrefix.length)

/-- the fields of `ctx` the message checks read -/
structure Ctx where
  isTemplate : Bool
  isBinary : Bool
  /-- `ctx.file.possible_hidden_strings` (MO files only) -/
  possibleHiddenStrings : Bool
  /-- `ctx.encoding is not None` -/
  hasEncoding : Bool
  deriving DecidableEq, Repr

/-! ## helpers of `check_messages` -/

/-- `is_header_entry(entry)` -/
def isHeaderEntry (e : Entry) : Bool := e.msgid = [] && e.msgctxt.isNone

def Entry.hasMsgstr (e : Entry) : Bool :=
  match e.msgstr with
  | some s => !s.isEmpty
  | none => false

/-- `message.msgstr_plural.values()` -/
def Entry.forms (e : Entry) : List Str := e.msgstrPlural.map (·.2)

def Entry.hasMsgstrPlural (e : Entry) : Bool := e.forms.any (!·.isEmpty)

/-- insertion into a list sorted by key (stable) -/
def kinsert (x : Nat × Str) : List (Nat × Str) → List (Nat × Str)
  | [] => [x]
  | y :: ys => if x.1 < y.1 then x :: y :: ys else y :: kinsert x ys

/-- `misc.sorted_vk(message.msgstr_plural)` -/
def Entry.formsSorted (e : Entry) : List Str := (e.msgstrPlural.foldr kinsert []).map (·.2)

/-- upper-case hexadecimal digits of `n`, most significant first (at least one) -/
def hexUpperAux : Nat → Nat → Str → Str
  | 0, _, acc => acc
  | fuel + 1, n, acc =>
    let d := n % 16
    let ch := if d < 10 then 48 + d else 55 + d
    if n / 16 = 0 then ch :: acc else hexUpperAux fuel (n / 16) (ch :: acc)

/-- `f'{n:04X}'` -/
def hex04X (n : Nat) : Str :=
  let ds := hexUpperAux (n + 1) n []
  List.replicate (4 - ds.length) 48 ++ ds

/-- `str.join(', ', (f'U+{ord(ch):04X} {name(ch)}' for ch in sorted(uc)))`; `none` if a name look-up raises -/
def ucNames (charName : Nat → Option Str) : List Nat → Option Str
  | [] => some []
  | [c] => (charName c).map fun nm => lit "U+" ++ hex04X c ++ [32] ++ nm
  | c :: rest =>
    match charName c, ucNames charName rest with
    | some nm, some tail => some (lit "U+" ++ hex04X c ++ [32] ++ nm ++ lit ", " ++ tail)
    | _, _ => none

def natLt (a b : Nat) : Bool := a < b

structure MSt where
  /-- `found_unusual_characters` -/
  found : List Nat := []
  /-- `msgid_counter` -/
  counter : List ((Str × Option Str) × Nat) := []

/-- the `for msgstr in strings` loop of the unusual-character check: `(found, emissions)` -/
def unusualLoop (env : Env) (e : Entry) (msgidUc : List Nat) : List Nat → List Str → List Nat × List Emit
  | found, [] => (found, [])
  | found, s :: rest =>
    let uc := toSorted natLt ((env.findUnusual s).filter fun c => !msgidUc.contains c && !found.contains c)
    if uc.isEmpty then unusualLoop env e msgidUc found rest
    else
      match ucNames env.charName uc with
      | none => (found, [.crash .valueError])
      | some names =>
        let r := unusualLoop env e msgidUc (found ++ uc) rest
        (r.1, tagR env.flag.db e tplColon .unusualCharacterInTranslation [.safe names] :: r.2)

/-- `_check_message_xml_format(ctx, message, flags)` -/
def checkXmlFormat (env : Env) (ctx : Ctx) (e : Entry) (info : Info) : List Emit :=
  if !ctx.hasEncoding then []
  else
    match env.xml e.msgid with
    | .other => [.crash .xmlOther]
    | .syntaxError msg => if ctx.isTemplate then [tagR env.flag.db e tplColon .malformedXml [.safe msg]] else []
    | .ok =>
      if info.fuzzy then []
      else if !e.hasMsgstr then []
      else match env.xml (e.msgstr.getD []) with
        | .other => [.crash .xmlOther]
        | .syntaxError msg => [tagR env.flag.db e tplColon .malformedXml [.safe msg]]
        | .ok => []

/-- `_check_message_formats(ctx, message, flags)`: the dispatch (opaque stage) and the XML gate -/
def checkMessageFormats (env : Env) (ctx : Ctx) (e : Entry) (info : Info) : List Emit :=
  ((info.formats.filter env.checkerKeys.contains).map fun f => Emit.fmt f info)
    ++ (if env.xmlGate e.comment then checkXmlFormat env ctx e info else [])

/-- the first string whose leading-newline bit differs: `for s in strings: if …: tag; break` -/
def newlineCheck (db : Tags.UnicodeDB) (e : Entry) (t : MTag) (bit : Str → Bool) (strings : List Str) : List Emit :=
  if strings.any (fun s => bit s != bit e.msgid) then [tagR db e tplPlain t []] else []

def leadingLf (s : Str) : Bool := startsWith [10] s
def trailingLf (s : Str) : Bool := endsWith [10] s

/-- the `conflict-marker-in-translation` call for a found marker -/
def markerTag (db : Tags.UnicodeDB) (e : Entry) : Option Str → List Emit
  | some m => [tagR db e tplPlain .conflictMarkerInTranslation [.str m]]
  | none => []

/-- the first translation with a marker line: tag, break -/
def markerCheck (env : Env) (e : Entry) : List Str → List Emit
  | [] => []
  | s :: rest =>
    match env.searchMarker s with
    | some m => [tagR env.flag.db e tplPlain .conflictMarkerInTranslation [.str m]]
    | none => markerCheck env e rest

/-- `[message.msgid_plural]` if there is one -/
def Entry.pluralList (e : Entry) : List Str :=
  match e.msgidPlural with
  | some p => [p]
  | none => []

/-- `[message.msgstr]` if `has_msgstr` -/
def Entry.msgstrList (e : Entry) : List Str := if e.hasMsgstr then [e.msgstr.getD []] else []

/-- the first `strings` list: msgid_plural, and unless fuzzy the msgstr and all the forms -/
def consideredStrings (e : Entry) (fuzzy : Bool) : List Str :=
  e.pluralList ++ (if !fuzzy then e.msgstrList ++ (if e.hasMsgstrPlural then e.forms else []) else [])

/-- the second `strings` list: msgstr, then the forms in key order -/
def translationStrings (e : Entry) : List Str := e.msgstrList ++ (if e.hasMsgstrPlural then e.formsSorted else [])

/-- the body of `for message in ctx.file` for an entry that is neither obsolete nor a header entry -/
def checkMessage (env : Env) (ctx : Ctx) (st : MSt) (e : Entry) : MSt × List Emit :=
  let db := env.flag.db
  let fl := checkMessageFlags env.flag e                   -- flags = self._check_message_flags(message)
  let info := fl.1
  let fmtOut := checkMessageFormats env ctx e info          -- self._check_message_formats(ctx, message, flags)
  let key := (e.msgid, e.msgctxt)
  let cnt := (assocGet key st.counter).getD 0 + 1           -- msgid_counter[…] += 1
  let dupOut := if cnt = 2 then [tagR db e tplPlain .duplicateMessageDefinition []] else []
  let tplOut :=
    if ctx.isTemplate && (e.hasMsgstr || e.hasMsgstrPlural) then [tagR db e tplPlain .translationInTemplate []] else []
  let hasPrevious := e.prevMsgctxt.isSome || e.prevMsgid.isSome || e.prevMsgidPlural.isSome
  let strayOut := if hasPrevious && !info.fuzzy then [tagR db e tplPlain .strayPreviousMsgid []] else []
  let strings₁ := consideredStrings e info.fuzzy
  let nlOut := newlineCheck db e .inconsistentLeadingNewlines leadingLf strings₁
    ++ newlineCheck db e .inconsistentTrailingNewlines trailingLf strings₁
  let strings := translationStrings e
  let uc :=
    if ctx.hasEncoding then
      unusualLoop env e (env.findUnusual e.msgid ++ env.findUnusual (e.msgidPlural.getD [])) st.found strings
    else (st.found, [])
  let tailOut :=
    if !info.fuzzy then
      markerCheck env e strings
        ++ (if e.hasMsgstrPlural && !e.forms.all (!·.isEmpty) then [tagR db e tplPlain .partiallyTranslatedMessage []] else [])
    else []
  (⟨uc.1, assocSet key cnt st.counter⟩, fl.2 ++ fmtOut ++ dupOut ++ tplOut ++ strayOut ++ nlOut ++ uc.2 ++ tailOut)

/-- `for message in ctx.file:` — obsolete and header entries are skipped -/
def messageLoop (env : Env) (ctx : Ctx) : MSt → List Entry → MSt × List (List Emit)
  | st, [] => (st, [])
  | st, e :: rest =>
    if e.obsolete then
      let r := messageLoop env ctx st rest
      (r.1, [] :: r.2)
    else if isHeaderEntry e then
      let r := messageLoop env ctx st rest
      (r.1, [] :: r.2)
    else
      let (st', out) := checkMessage env ctx st e
      let r := messageLoop env ctx st' rest
      (r.1, out :: r.2)

/-- what follows the loop: `if len(msgid_counter) == 0: …` -/
def emptyFileCheck (ctx : Ctx) (st : MSt) : List Emit :=
  if st.counter.length = 0 then
    let possibleHiddenStrings := if ctx.isBinary then ctx.possibleHiddenStrings else false
    if !possibleHiddenStrings then [.tag .emptyFile []] else []
  else []

/-- per-entry emissions of `check_messages(ctx)` (one list per entry of the file, in file order) and the final part -/
def trace (env : Env) (ctx : Ctx) (file : List Entry) : List (List Emit) × List Emit :=
  let r := messageLoop env ctx {} file
  (r.2, emptyFileCheck ctx r.1)

/-- `Checker.check_messages(ctx)`: everything it emits, in order, had no exception occurred -/
def checkMessages (env : Env) (ctx : Ctx) (file : List Entry) : List Emit :=
  let t := trace env ctx file
  t.1.flatten ++ t.2

/-- what is observable: up to the first exception -/
def run (env : Env) (ctx : Ctx) (file : List Entry) : List Emit := observe (checkMessages env ctx file)

/-! ## the environment the running tool has -/

open Generated.StringFormats in
def liveFlagEnv : FlagEnv where
  formats := stringFormats
  prefixes := formatPrefixes
  conflictPairs := conflictPairs
  rangePrefix := rangePrefix
  rangeStrip := rangeStrip
  rangeSep := rangeSep
  db := Tags.liveDb

open Generated.StringFormats in
/-- everything but expat's verdict -/
def liveEnv (xml : Str → XmlVerdict) : Env where
  flag := liveFlagEnv
  word := Tags.inRanges wordRanges
  unusualAlts := unusualAlts
  charName := fun c => (assocGet c unusualNames).getD none
  conflictPrefix := conflictPrefix
  conflictSuffix := conflictSuffix
  checkerKeys := formatCheckerKeys
  xmlGatePrefix := xmlGatePrefix
  xmlOpen := xmlGateOpen
  xmlClose := xmlGateClose
  xmlStart := Tags.inRanges xmlNameStart
  xmlNext := Tags.inRanges xmlNameNext
  xml := xml

end I18n.Msg
