import I18n.PyKit
import I18n.Model.Msg
/-!
# Python-operation kit of the C16 translator (`tools/translate/msgchk2lean.py`)

`str` is `Tags.Str` (code points).  Where the hand-written model already has the natural definition of a Python operation
(`str.startswith`, `strip`, `sorted`, `d[k] = v` on an association list, `min`) the kit uses it.  Core Lean only.
-/
namespace I18n.MsgPy
open I18n
abbrev Str := Tags.Str

abbrev startswith (p s : Str) : Bool := Msg.startsWith p s
abbrev endswith (p s : Str) : Bool := Msg.endsWith p s
abbrev strip (chars s : Str) : Str := Msg.strip chars s
abbrev rstrip (chars s : Str) : Str := Msg.rstrip chars s

/-- `d[k] = v` -/
abbrev dictSet {κ ν : Type} [DecidableEq κ] (k : κ) (v : ν) (d : List (κ × ν)) : List (κ × ν) := Msg.assocSet k v d

/-- `d[k]` on a `collections.defaultdict` / `Counter`: the default (`{}`, `Counter()`, `0`) for a missing key -/
def ddGet {κ ν : Type} [DecidableEq κ] [Inhabited ν] (d : List (κ × ν)) (k : κ) : ν := (Msg.assocGet k d).getD default

/-- `d.values()` -/
def values {κ ν : Type} (d : List (κ × ν)) : List ν := d.map (·.2)

/-- `sorted(s)` for a set of str kept as a list of its members -/
abbrev sortedSet (s : List Str) : List Str := Msg.toSorted Msg.strLt s

/-- `sorted(d.items())` for a dict keyed by str (distinct keys: the order is that of the keys) -/
def sortedItems (d : List (Str × Str)) : List (Str × Str) :=
  (Msg.toSorted Msg.strLt (d.map (·.1))).map fun k => (k, (Msg.assocGet k d).getD [])

/-- `heapq.nsmallest(2, keys)` on pairs of ints -/
def nsmallest2 (ks : List (Nat × Nat)) : List (Nat × Nat) := (Msg.toSorted Msg.pairLt ks).take 2

/-- `gettext.string_formats[name]` -/
def examplesOf (env : Msg.FlagEnv) (name : Str) : Except Py.Exc (List Str) :=
  match Msg.assocGet name env.formats with
  | some ex => .ok ex
  | none => .error .KeyError

/-- `tags.safe_format(template)`: `template.format()` — the interpolated text used as a template; a stray brace raises -/
def safeFormat (t : Str) : Except Py.Exc Str :=
  match Tags.pyFormat t [] [] with
  | .ok s => .ok s
  | .error _ => .error .ValueError

/-- the namespace `_check_message_flags` returns, as the model's `Info` (`formats`: the frozenset listed sorted, as `sorted(flags.formats)` reads it) -/
def infoOf (r : Bool × Nat × Option Nat × List Str) : Msg.Info := ⟨r.1, r.2.1, r.2.2.1, Msg.toSorted Msg.strLt r.2.2.2⟩

/-- `str.join(', ', (f'U+{ord(ch):04X} {encinfo.get_character_name(ch)}' for ch in chars))`; `ValueError` where a character has no name -/
def ucNames (menv : Msg.Env) (cs : List Nat) : Except Py.Exc Str :=
  match Msg.ucNames menv.charName cs with
  | some s => .ok s
  | none => .error .ValueError

end I18n.MsgPy
