import I18n.Model.TagCall
/-!
# Signatures of the two brace format kinds, and the Python orderings the argument checks sort by

Core Lean only.  The python-brace and perl-brace *parsers* are modelled elsewhere (property C13); the argument
comparison of property C14 only reads the parsed object:

* python-brace: `fmt.argument_map` — a dict from `int` (numbered / auto-numbered field) or `str` (named field)
  to the list of fields using that argument, each with its `.types` (a non-empty subset of `{'str','int','float'}`;
  after parsing every field of one argument carries the common set), and `len(fmt)`;
* perl-brace: `fmt.arguments` — a frozenset of identifier names, and `len(fmt)`.

The harness extracts exactly these from the real parser objects.
-/
namespace I18n.FmtSig

/-- python `str < str`: lexicographic by code point -/
def strLt : List Char → List Char → Bool
  | [], [] => false
  | [], _ :: _ => true
  | _ :: _, [] => false
  | a :: as, b :: bs => if a < b then true else if b < a then false else strLt as bs

/-- a key of python-brace's `argument_map` -/
inductive BKey where
  | idx (n : Nat)
  | name (s : List Char)
  deriving DecidableEq, Repr, Inhabited

/-- `sort_key(a) < sort_key(b)` with `sort_key = lambda item: (isinstance(item, str), item)`:
    ints first (ascending), then strings (by code point) -/
def BKey.lt : BKey → BKey → Bool
  | .idx a, .idx b => decide (a < b)
  | .idx _, .name _ => true
  | .name _, .idx _ => false
  | .name a, .name b => strLt a b

/-- how a key is passed to `self.tag`: an `int` or a `str` (escaped on output) -/
def BKey.extra : BKey → Extra
  | .idx n => .int n
  | .name s => .str s

/-- a subset of `{'float', 'int', 'str'}` -/
structure TySet where
  float : Bool
  int : Bool
  str : Bool
  deriving DecidableEq, Repr, Inhabited

/-- `a & b` -/
def TySet.inter (a b : TySet) : TySet := ⟨a.float && b.float, a.int && b.int, a.str && b.str⟩

/-- truthiness of the frozenset -/
def TySet.nonempty (a : TySet) : Bool := a.float || a.int || a.str

/-- `sorted(types)` -/
def TySet.names (a : TySet) : List (List Char) :=
  (if a.float then ["float".toList] else []) ++ ((if a.int then ["int".toList] else []) ++ (if a.str then ["str".toList] else []))

/-- `str.join(', ', sorted(types))` -/
def TySet.joined (a : TySet) : List Char := ", ".toList.intercalate a.names

structure PyBraceSig where
  /-- `argument_map` in dict order: key ↦ `.types` of each field using it -/
  args : List (BKey × List TySet)
  /-- `len(fmt)` -/
  nitems : Nat
  deriving Repr, Inhabited

structure PerlBraceSig where
  /-- `arguments` (a frozenset; listed without repetition, in any order) -/
  args : List (List Char)
  nitems : Nat
  deriving Repr, Inhabited

/-! ## `sorted` -/

/-- insert into a list sorted by `lt` -/
def insertBy {α : Type} (lt : α → α → Bool) (x : α) : List α → List α
  | [] => [x]
  | y :: ys => if lt x y then x :: y :: ys else y :: insertBy lt x ys

/-- `sorted(xs)` for pairwise distinct `xs` under the strict order `lt` -/
def sortBy {α : Type} (lt : α → α → Bool) (xs : List α) : List α := xs.foldr (insertBy lt) []

end I18n.FmtSig
